import Hub.Generated.Keys
import Hub.Lemmas.Bytes
/-
C17 (keys part): theorems about the *generated* store-key functions of `Hub/Generated/Keys.lean`.

  1. `decode_encode_*`      every decoder returns what the key was built from            (17)
  2. `key_injective_*`      every key constructor / prefix builder is injective           (46)
  3. `no_proper_prefix_*`   a key is a prefix of a key of the same table only if equal    (46)
  4. `prefix_isolates_*`    a listing prefix matches exactly the keys of its owner        (17)
  5. `tables_distinct_*`    table prefixes of one store are pairwise not prefix-related
  6. `queue_order_*`        deadline-queue keys sort by time, then id / address           (4)
  7. `scan_range_*`         `[QueuePrefix, prefixEnd (GetPrefix t))` = deadlines `≤ t`     (4)

Hypotheses: addresses satisfy `AddrOK a` (`1 ≤ a.length ∧ a.length ≤ 255`), identifiers are `< B64`
(`B64` is notation for the literal `18446744073709551616 = 2^64`).  About `formatTimeBytes` only the
facts proved in the calendar file are assumed, as explicit hypotheses on the instants involved: length
29 (`hlen`), injectivity (`hinj`), strict monotonicity (`hmono`).

The proofs first bring each constructor into the normal form `Prefix ++ (block ++ (block ++ …))`
(`nf_*`, by unfolding the generated definition), then apply the lemma of `Hub/Lemmas/Bytes.lean` for
that shape.
-/
set_option linter.unusedSimpArgs false
set_option linter.unusedVariables false

namespace Hub.Props.C17
open Hub.SDK Hub.Generated.Keys

example : B64 = 2 ^ 64 := by decide
example (a : Bytes) : AddrOK a ↔ (1 ≤ a.length ∧ a.length ≤ 255) := Iff.rfl

/-! ## Normal forms of the constructors -/

theorem nf_deposit_DepositKey (a : Bytes) :
    deposit.DepositKey a = deposit.DepositKeyPrefix ++ lp a := by
  simp only [deposit.DepositKey, List.append_assoc]

theorem nf_provider_ActiveProviderKey (a : Bytes) :
    provider.ActiveProviderKey a = provider.ActiveProviderKeyPrefix ++ lp a := by
  simp only [provider.ActiveProviderKey, List.append_assoc]

theorem nf_provider_InactiveProviderKey (a : Bytes) :
    provider.InactiveProviderKey a = provider.InactiveProviderKeyPrefix ++ lp a := by
  simp only [provider.InactiveProviderKey, List.append_assoc]

theorem nf_node_ActiveNodeKey (a : Bytes) :
    node.ActiveNodeKey a = node.ActiveNodeKeyPrefix ++ lp a := by
  simp only [node.ActiveNodeKey, List.append_assoc]

theorem nf_node_InactiveNodeKey (a : Bytes) :
    node.InactiveNodeKey a = node.InactiveNodeKeyPrefix ++ lp a := by
  simp only [node.InactiveNodeKey, List.append_assoc]

theorem nf_node_GetNodeForPlanKeyPrefix (i : Nat) :
    node.GetNodeForPlanKeyPrefix i = node.NodeForPlanKeyPrefix ++ u64be i := by
  simp only [node.GetNodeForPlanKeyPrefix, List.append_assoc]

theorem nf_node_NodeForPlanKey (i : Nat) (a : Bytes) :
    node.NodeForPlanKey i a = node.NodeForPlanKeyPrefix ++ (u64be i ++ lp a) := by
  simp only [node.NodeForPlanKey, node.GetNodeForPlanKeyPrefix, List.append_assoc]

theorem nf_node_GetNodeForInactiveAtKeyPrefix (t : Time) :
    node.GetNodeForInactiveAtKeyPrefix t = node.NodeForInactiveAtKeyPrefix ++ formatTimeBytes t := by
  simp only [node.GetNodeForInactiveAtKeyPrefix, List.append_assoc]

theorem nf_node_NodeForInactiveAtKey (t : Time) (a : Bytes) :
    node.NodeForInactiveAtKey t a = node.NodeForInactiveAtKeyPrefix ++ (formatTimeBytes t ++ lp a) := by
  simp only [node.NodeForInactiveAtKey, node.GetNodeForInactiveAtKeyPrefix, List.append_assoc]

theorem nf_plan_ActivePlanKey (i : Nat) :
    plan.ActivePlanKey i = plan.ActivePlanKeyPrefix ++ u64be i := by
  simp only [plan.ActivePlanKey, List.append_assoc]

theorem nf_plan_InactivePlanKey (i : Nat) :
    plan.InactivePlanKey i = plan.InactivePlanKeyPrefix ++ u64be i := by
  simp only [plan.InactivePlanKey, List.append_assoc]

theorem nf_plan_GetPlanForProviderKeyPrefix (a : Bytes) :
    plan.GetPlanForProviderKeyPrefix a = plan.PlanForProviderKeyPrefix ++ lp a := by
  simp only [plan.GetPlanForProviderKeyPrefix, List.append_assoc]

theorem nf_plan_PlanForProviderKey (a : Bytes) (i : Nat) :
    plan.PlanForProviderKey a i = plan.PlanForProviderKeyPrefix ++ (lp a ++ u64be i) := by
  simp only [plan.PlanForProviderKey, plan.GetPlanForProviderKeyPrefix, List.append_assoc]

theorem nf_subscription_SubscriptionKey (i : Nat) :
    subscription.SubscriptionKey i = subscription.SubscriptionKeyPrefix ++ u64be i := by
  simp only [subscription.SubscriptionKey, List.append_assoc]

theorem nf_subscription_GetSubscriptionForAccountKeyPrefix (a : Bytes) :
    subscription.GetSubscriptionForAccountKeyPrefix a = subscription.SubscriptionForAccountKeyPrefix ++ lp a := by
  simp only [subscription.GetSubscriptionForAccountKeyPrefix, List.append_assoc]

theorem nf_subscription_SubscriptionForAccountKey (a : Bytes) (i : Nat) :
    subscription.SubscriptionForAccountKey a i = subscription.SubscriptionForAccountKeyPrefix ++ (lp a ++ u64be i) := by
  simp only [subscription.SubscriptionForAccountKey, subscription.GetSubscriptionForAccountKeyPrefix, List.append_assoc]

theorem nf_subscription_GetSubscriptionForNodeKeyPrefix (a : Bytes) :
    subscription.GetSubscriptionForNodeKeyPrefix a = subscription.SubscriptionForNodeKeyPrefix ++ lp a := by
  simp only [subscription.GetSubscriptionForNodeKeyPrefix, List.append_assoc]

theorem nf_subscription_SubscriptionForNodeKey (a : Bytes) (i : Nat) :
    subscription.SubscriptionForNodeKey a i = subscription.SubscriptionForNodeKeyPrefix ++ (lp a ++ u64be i) := by
  simp only [subscription.SubscriptionForNodeKey, subscription.GetSubscriptionForNodeKeyPrefix, List.append_assoc]

theorem nf_subscription_GetSubscriptionForPlanKeyPrefix (i : Nat) :
    subscription.GetSubscriptionForPlanKeyPrefix i = subscription.SubscriptionForPlanKeyPrefix ++ u64be i := by
  simp only [subscription.GetSubscriptionForPlanKeyPrefix, List.append_assoc]

theorem nf_subscription_SubscriptionForPlanKey (i : Nat) (i2 : Nat) :
    subscription.SubscriptionForPlanKey i i2 = subscription.SubscriptionForPlanKeyPrefix ++ (u64be i ++ u64be i2) := by
  simp only [subscription.SubscriptionForPlanKey, subscription.GetSubscriptionForPlanKeyPrefix, List.append_assoc]

theorem nf_subscription_GetSubscriptionForInactiveAtKeyPrefix (t : Time) :
    subscription.GetSubscriptionForInactiveAtKeyPrefix t = subscription.SubscriptionForInactiveAtKeyPrefix ++ formatTimeBytes t := by
  simp only [subscription.GetSubscriptionForInactiveAtKeyPrefix, List.append_assoc]

theorem nf_subscription_SubscriptionForInactiveAtKey (t : Time) (i : Nat) :
    subscription.SubscriptionForInactiveAtKey t i = subscription.SubscriptionForInactiveAtKeyPrefix ++ (formatTimeBytes t ++ u64be i) := by
  simp only [subscription.SubscriptionForInactiveAtKey, subscription.GetSubscriptionForInactiveAtKeyPrefix, List.append_assoc]

theorem nf_subscription_GetAllocationForSubscriptionKeyPrefix (i : Nat) :
    subscription.GetAllocationForSubscriptionKeyPrefix i = subscription.AllocationKeyPrefix ++ u64be i := by
  simp only [subscription.GetAllocationForSubscriptionKeyPrefix, List.append_assoc]

theorem nf_subscription_AllocationKey (i : Nat) (a : Bytes) :
    subscription.AllocationKey i a = subscription.AllocationKeyPrefix ++ (u64be i ++ lp a) := by
  simp only [subscription.AllocationKey, subscription.GetAllocationForSubscriptionKeyPrefix, List.append_assoc]

theorem nf_subscription_PayoutKey (i : Nat) :
    subscription.PayoutKey i = subscription.PayoutKeyPrefix ++ u64be i := by
  simp only [subscription.PayoutKey, List.append_assoc]

theorem nf_subscription_GetPayoutForNextAtKeyPrefix (t : Time) :
    subscription.GetPayoutForNextAtKeyPrefix t = subscription.PayoutForNextAtKeyPrefix ++ formatTimeBytes t := by
  simp only [subscription.GetPayoutForNextAtKeyPrefix, List.append_assoc]

theorem nf_subscription_PayoutForNextAtKey (t : Time) (i : Nat) :
    subscription.PayoutForNextAtKey t i = subscription.PayoutForNextAtKeyPrefix ++ (formatTimeBytes t ++ u64be i) := by
  simp only [subscription.PayoutForNextAtKey, subscription.GetPayoutForNextAtKeyPrefix, List.append_assoc]

theorem nf_subscription_GetPayoutForAccountKeyPrefix (a : Bytes) :
    subscription.GetPayoutForAccountKeyPrefix a = subscription.PayoutForAccountKeyPrefix ++ lp a := by
  simp only [subscription.GetPayoutForAccountKeyPrefix, List.append_assoc]

theorem nf_subscription_PayoutForAccountKey (a : Bytes) (i : Nat) :
    subscription.PayoutForAccountKey a i = subscription.PayoutForAccountKeyPrefix ++ (lp a ++ u64be i) := by
  simp only [subscription.PayoutForAccountKey, subscription.GetPayoutForAccountKeyPrefix, List.append_assoc]

theorem nf_subscription_GetPayoutForNodeKeyPrefix (a : Bytes) :
    subscription.GetPayoutForNodeKeyPrefix a = subscription.PayoutForNodeKeyPrefix ++ lp a := by
  simp only [subscription.GetPayoutForNodeKeyPrefix, List.append_assoc]

theorem nf_subscription_PayoutForNodeKey (a : Bytes) (i : Nat) :
    subscription.PayoutForNodeKey a i = subscription.PayoutForNodeKeyPrefix ++ (lp a ++ u64be i) := by
  simp only [subscription.PayoutForNodeKey, subscription.GetPayoutForNodeKeyPrefix, List.append_assoc]

theorem nf_subscription_GetPayoutForAccountByNodeKeyPrefix (a : Bytes) (a2 : Bytes) :
    subscription.GetPayoutForAccountByNodeKeyPrefix a a2 = subscription.PayoutForAccountByNodeKeyPrefix ++ (lp a ++ lp a2) := by
  simp only [subscription.GetPayoutForAccountByNodeKeyPrefix, List.append_assoc]

theorem nf_subscription_PayoutForAccountByNodeKey (a : Bytes) (a2 : Bytes) (i : Nat) :
    subscription.PayoutForAccountByNodeKey a a2 i = subscription.PayoutForAccountByNodeKeyPrefix ++ (lp a ++ (lp a2 ++ u64be i)) := by
  simp only [subscription.PayoutForAccountByNodeKey, subscription.GetPayoutForAccountByNodeKeyPrefix, List.append_assoc]

theorem nf_session_SessionKey (i : Nat) :
    session.SessionKey i = session.SessionKeyPrefix ++ u64be i := by
  simp only [session.SessionKey, List.append_assoc]

theorem nf_session_GetSessionForAccountKeyPrefix (a : Bytes) :
    session.GetSessionForAccountKeyPrefix a = session.SessionForAccountKeyPrefix ++ lp a := by
  simp only [session.GetSessionForAccountKeyPrefix, List.append_assoc]

theorem nf_session_SessionForAccountKey (a : Bytes) (i : Nat) :
    session.SessionForAccountKey a i = session.SessionForAccountKeyPrefix ++ (lp a ++ u64be i) := by
  simp only [session.SessionForAccountKey, session.GetSessionForAccountKeyPrefix, List.append_assoc]

theorem nf_session_GetSessionForNodeKeyPrefix (a : Bytes) :
    session.GetSessionForNodeKeyPrefix a = session.SessionForNodeKeyPrefix ++ lp a := by
  simp only [session.GetSessionForNodeKeyPrefix, List.append_assoc]

theorem nf_session_SessionForNodeKey (a : Bytes) (i : Nat) :
    session.SessionForNodeKey a i = session.SessionForNodeKeyPrefix ++ (lp a ++ u64be i) := by
  simp only [session.SessionForNodeKey, session.GetSessionForNodeKeyPrefix, List.append_assoc]

theorem nf_session_GetSessionForSubscriptionKeyPrefix (i : Nat) :
    session.GetSessionForSubscriptionKeyPrefix i = session.SessionForSubscriptionKeyPrefix ++ u64be i := by
  simp only [session.GetSessionForSubscriptionKeyPrefix, List.append_assoc]

theorem nf_session_SessionForSubscriptionKey (i : Nat) (i2 : Nat) :
    session.SessionForSubscriptionKey i i2 = session.SessionForSubscriptionKeyPrefix ++ (u64be i ++ u64be i2) := by
  simp only [session.SessionForSubscriptionKey, session.GetSessionForSubscriptionKeyPrefix, List.append_assoc]

theorem nf_session_GetSessionForAllocationKeyPrefix (i : Nat) (a : Bytes) :
    session.GetSessionForAllocationKeyPrefix i a = session.SessionForAllocationKeyPrefix ++ (u64be i ++ lp a) := by
  simp only [session.GetSessionForAllocationKeyPrefix, List.append_assoc]

theorem nf_session_SessionForAllocationKey (i : Nat) (a : Bytes) (i2 : Nat) :
    session.SessionForAllocationKey i a i2 = session.SessionForAllocationKeyPrefix ++ (u64be i ++ (lp a ++ u64be i2)) := by
  simp only [session.SessionForAllocationKey, session.GetSessionForAllocationKeyPrefix, List.append_assoc]

theorem nf_session_GetSessionForInactiveAtKeyPrefix (t : Time) :
    session.GetSessionForInactiveAtKeyPrefix t = session.SessionForInactiveAtKeyPrefix ++ formatTimeBytes t := by
  simp only [session.GetSessionForInactiveAtKeyPrefix, List.append_assoc]

theorem nf_session_SessionForInactiveAtKey (t : Time) (i : Nat) :
    session.SessionForInactiveAtKey t i = session.SessionForInactiveAtKeyPrefix ++ (formatTimeBytes t ++ u64be i) := by
  simp only [session.SessionForInactiveAtKey, session.GetSessionForInactiveAtKeyPrefix, List.append_assoc]

theorem nf_swap_SwapKey (h : Bytes) :
    swap.SwapKey h = swap.SwapKeyPrefix ++ h := by
  simp only [swap.SwapKey, List.append_assoc]

theorem nf_mint_InflationKey (t : Time) :
    mint.InflationKey t = mint.InflationKeyPrefix ++ formatTimeBytes t := by
  simp only [mint.InflationKey, List.append_assoc]

/-! ## Time blocks -/

theorem fmt_eq_iff {t t' : Time} (hinj : formatTimeBytes t = formatTimeBytes t' → t = t') :
    formatTimeBytes t = formatTimeBytes t' ↔ t = t' :=
  ⟨hinj, fun e => by rw [e]⟩

theorem fmt_and_iff {t t' : Time} {p : Prop} (hinj : formatTimeBytes t = formatTimeBytes t' → t = t') :
    (formatTimeBytes t = formatTimeBytes t' ∧ p) ↔ (t = t' ∧ p) := by
  rw [fmt_eq_iff hinj]

/-- Strict monotonicity on a pair of instants gives injectivity on that pair. -/
theorem fmt_inj_of_mono {t t' : Int}
    (hmono : bytesLt (formatTimeBytes t) (formatTimeBytes t') = true ↔ t < t')
    (hmono' : bytesLt (formatTimeBytes t') (formatTimeBytes t) = true ↔ t' < t) :
    formatTimeBytes t = formatTimeBytes t' → t = t' := by
  intro e
  have h1 : ¬ t < t' := fun h => by
    have := hmono.mpr h; rw [e, bytesLt_irrefl] at this; exact absurd this (by decide)
  have h2 : ¬ t' < t := fun h => by
    have := hmono'.mpr h; rw [e, bytesLt_irrefl] at this; exact absurd this (by decide)
  omega

theorem fmt_le_iff {t t' : Int}
    (hmono : bytesLt (formatTimeBytes t) (formatTimeBytes t') = true ↔ t < t')
    (hmono' : bytesLt (formatTimeBytes t') (formatTimeBytes t) = true ↔ t' < t) :
    (bytesLt (formatTimeBytes t') (formatTimeBytes t) = true ∨ formatTimeBytes t' = formatTimeBytes t) ↔ t' ≤ t := by
  constructor
  · rintro (h | h)
    · have := hmono'.mp h; omega
    · have := fmt_inj_of_mono hmono hmono' h.symm; omega
  · intro h
    by_cases e : t' = t
    · right; rw [e]
    · left; exact hmono'.mpr (by omega)

/-! ## 1. decode_encode -/

theorem decode_encode_node_AddressFromNodeForPlanKey {i : Nat} {a : Bytes} (ha : AddrOK a) :
    node.AddressFromNodeForPlanKey (node.NodeForPlanKey i a) = .ok a := by
  have hf := facts_fix_lp _ (nf_node_NodeForPlanKey i a) rfl (u64be_length i) ha
  have h1 : idx (node.NodeForPlanKey i a) 9 = .ok a.length := hf.1
  have h2 : (node.NodeForPlanKey i a).length = 10 + a.length := by have := hf.2.1; omega
  have h3 : sliceFrom (node.NodeForPlanKey i a) 10 = .ok a := hf.2.2
  unfold node.AddressFromNodeForPlanKey
  simp only [h1, ok_bind', h2, bne_self_eq_false, Bool.false_eq_true, if_false, h3]

theorem decode_encode_node_AddressFromNodeForInactiveAtKey {t : Time} {a : Bytes} (hlen : (formatTimeBytes t).length = 29) (ha : AddrOK a) :
    node.AddressFromNodeForInactiveAtKey (node.NodeForInactiveAtKey t a) = .ok a := by
  have hf := facts_fix_lp _ (nf_node_NodeForInactiveAtKey t a) rfl hlen ha
  have h1 : idx (node.NodeForInactiveAtKey t a) 30 = .ok a.length := hf.1
  have h2 : (node.NodeForInactiveAtKey t a).length = 31 + a.length := by have := hf.2.1; omega
  have h3 : sliceFrom (node.NodeForInactiveAtKey t a) 31 = .ok a := hf.2.2
  unfold node.AddressFromNodeForInactiveAtKey
  simp only [h1, ok_bind', h2, bne_self_eq_false, Bool.false_eq_true, if_false, h3]

theorem decode_encode_plan_IDFromPlanForProviderKey {a : Bytes} {i : Nat} (ha : AddrOK a) (hi : i < B64) :
    plan.IDFromPlanForProviderKey (plan.PlanForProviderKey a i) = .ok i := by
  obtain ⟨h1, h2, h3, h4⟩ := facts_lp_u64 _ (nf_plan_PlanForProviderKey a i) rfl ha
  unfold plan.IDFromPlanForProviderKey
  simp only [h1, ok_bind', h2, bne_self_eq_false, Bool.false_eq_true, if_false, h3, bigEndianToUint64_u64be i hi]

theorem decode_encode_subscription_AccAddrFromSubscriptionForAccountKey {a : Bytes} {i : Nat} (ha : AddrOK a) :
    subscription.AccAddrFromSubscriptionForAccountKey (subscription.SubscriptionForAccountKey a i) = .ok a := by
  obtain ⟨h1, h2, h3, h4⟩ := facts_lp_u64 _ (nf_subscription_SubscriptionForAccountKey a i) rfl ha
  unfold subscription.AccAddrFromSubscriptionForAccountKey
  simp only [h1, ok_bind', h2, bne_self_eq_false, Bool.false_eq_true, if_false, h4]

theorem decode_encode_subscription_IDFromSubscriptionForAccountKey {a : Bytes} {i : Nat} (ha : AddrOK a) (hi : i < B64) :
    subscription.IDFromSubscriptionForAccountKey (subscription.SubscriptionForAccountKey a i) = .ok i := by
  obtain ⟨h1, h2, h3, h4⟩ := facts_lp_u64 _ (nf_subscription_SubscriptionForAccountKey a i) rfl ha
  unfold subscription.IDFromSubscriptionForAccountKey
  simp only [h1, ok_bind', h2, bne_self_eq_false, Bool.false_eq_true, if_false, h3, bigEndianToUint64_u64be i hi]

theorem decode_encode_subscription_IDFromSubscriptionForNodeKey {a : Bytes} {i : Nat} (ha : AddrOK a) (hi : i < B64) :
    subscription.IDFromSubscriptionForNodeKey (subscription.SubscriptionForNodeKey a i) = .ok i := by
  obtain ⟨h1, h2, h3, h4⟩ := facts_lp_u64 _ (nf_subscription_SubscriptionForNodeKey a i) rfl ha
  unfold subscription.IDFromSubscriptionForNodeKey
  simp only [h1, ok_bind', h2, bne_self_eq_false, Bool.false_eq_true, if_false, h3, bigEndianToUint64_u64be i hi]

theorem decode_encode_subscription_IDFromSubscriptionForPlanKey {i j : Nat} (hj : j < B64) :
    subscription.IDFromSubscriptionForPlanKey (subscription.SubscriptionForPlanKey i j) = .ok j := by
  obtain ⟨h2, h3⟩ := facts_u64_u64 _ (nf_subscription_SubscriptionForPlanKey i j) rfl
  unfold subscription.IDFromSubscriptionForPlanKey
  simp only [ok_bind', h2, bne_self_eq_false, Bool.false_eq_true, if_false, h3, bigEndianToUint64_u64be j hj]

theorem decode_encode_subscription_IDFromSubscriptionForInactiveAtKey {t : Time} {i : Nat} (hlen : (formatTimeBytes t).length = 29) (hi : i < B64) :
    subscription.IDFromSubscriptionForInactiveAtKey (subscription.SubscriptionForInactiveAtKey t i) = .ok i := by
  obtain ⟨h2, h3⟩ := facts_fix_u64 _ (nf_subscription_SubscriptionForInactiveAtKey t i) rfl hlen
  unfold subscription.IDFromSubscriptionForInactiveAtKey
  simp only [ok_bind', h2, bne_self_eq_false, Bool.false_eq_true, if_false, h3, bigEndianToUint64_u64be i hi]

theorem decode_encode_subscription_IDFromPayoutForAccountKey {a : Bytes} {i : Nat} (ha : AddrOK a) (hi : i < B64) :
    subscription.IDFromPayoutForAccountKey (subscription.PayoutForAccountKey a i) = .ok i := by
  obtain ⟨h1, h2, h3, h4⟩ := facts_lp_u64 _ (nf_subscription_PayoutForAccountKey a i) rfl ha
  unfold subscription.IDFromPayoutForAccountKey
  simp only [h1, ok_bind', h2, bne_self_eq_false, Bool.false_eq_true, if_false, h3, bigEndianToUint64_u64be i hi]

theorem decode_encode_subscription_IDFromPayoutForNodeKey {a : Bytes} {i : Nat} (ha : AddrOK a) (hi : i < B64) :
    subscription.IDFromPayoutForNodeKey (subscription.PayoutForNodeKey a i) = .ok i := by
  obtain ⟨h1, h2, h3, h4⟩ := facts_lp_u64 _ (nf_subscription_PayoutForNodeKey a i) rfl ha
  unfold subscription.IDFromPayoutForNodeKey
  simp only [h1, ok_bind', h2, bne_self_eq_false, Bool.false_eq_true, if_false, h3, bigEndianToUint64_u64be i hi]

theorem decode_encode_subscription_IDFromPayoutForAccountByNodeKey {a a2 : Bytes} {i : Nat} (ha : AddrOK a) (ha2 : AddrOK a2) (hi : i < B64) :
    subscription.IDFromPayoutForAccountByNodeKey (subscription.PayoutForAccountByNodeKey a a2 i) = .ok i := by
  obtain ⟨h1, h1', h2, h3⟩ := facts_lp_lp_u64 _ (nf_subscription_PayoutForAccountByNodeKey a a2 i) rfl ha ha2
  unfold subscription.IDFromPayoutForAccountByNodeKey
  simp only [h1, ok_bind', h1', h2, bne_self_eq_false, Bool.false_eq_true, if_false, h3, bigEndianToUint64_u64be i hi]

theorem decode_encode_subscription_IDFromPayoutForNextAtKey {t : Time} {i : Nat} (hlen : (formatTimeBytes t).length = 29) (hi : i < B64) :
    subscription.IDFromPayoutForNextAtKey (subscription.PayoutForNextAtKey t i) = .ok i := by
  obtain ⟨h2, h3⟩ := facts_fix_u64 _ (nf_subscription_PayoutForNextAtKey t i) rfl hlen
  unfold subscription.IDFromPayoutForNextAtKey
  simp only [ok_bind', h2, bne_self_eq_false, Bool.false_eq_true, if_false, h3, bigEndianToUint64_u64be i hi]

theorem decode_encode_session_IDFromSessionForAccountKey {a : Bytes} {i : Nat} (ha : AddrOK a) (hi : i < B64) :
    session.IDFromSessionForAccountKey (session.SessionForAccountKey a i) = .ok i := by
  obtain ⟨h1, h2, h3, h4⟩ := facts_lp_u64 _ (nf_session_SessionForAccountKey a i) rfl ha
  unfold session.IDFromSessionForAccountKey
  simp only [h1, ok_bind', h2, bne_self_eq_false, Bool.false_eq_true, if_false, h3, bigEndianToUint64_u64be i hi]

theorem decode_encode_session_IDFromSessionForNodeKey {a : Bytes} {i : Nat} (ha : AddrOK a) (hi : i < B64) :
    session.IDFromSessionForNodeKey (session.SessionForNodeKey a i) = .ok i := by
  obtain ⟨h1, h2, h3, h4⟩ := facts_lp_u64 _ (nf_session_SessionForNodeKey a i) rfl ha
  unfold session.IDFromSessionForNodeKey
  simp only [h1, ok_bind', h2, bne_self_eq_false, Bool.false_eq_true, if_false, h3, bigEndianToUint64_u64be i hi]

theorem decode_encode_session_IDFromSessionForSubscriptionKey {i j : Nat} (hj : j < B64) :
    session.IDFromSessionForSubscriptionKey (session.SessionForSubscriptionKey i j) = .ok j := by
  obtain ⟨h2, h3⟩ := facts_u64_u64 _ (nf_session_SessionForSubscriptionKey i j) rfl
  unfold session.IDFromSessionForSubscriptionKey
  simp only [ok_bind', h2, bne_self_eq_false, Bool.false_eq_true, if_false, h3, bigEndianToUint64_u64be j hj]

theorem decode_encode_session_IDFromSessionForAllocationKey {i : Nat} {a : Bytes} {i2 : Nat} (ha : AddrOK a) (hi2 : i2 < B64) :
    session.IDFromSessionForAllocationKey (session.SessionForAllocationKey i a i2) = .ok i2 := by
  obtain ⟨h1, h2, h3⟩ := facts_u64_lp_u64 _ (nf_session_SessionForAllocationKey i a i2) rfl ha
  unfold session.IDFromSessionForAllocationKey
  simp only [h1, ok_bind', h2, bne_self_eq_false, Bool.false_eq_true, if_false, h3, bigEndianToUint64_u64be i2 hi2]

theorem decode_encode_session_IDFromSessionForInactiveAtKey {t : Time} {i : Nat} (hlen : (formatTimeBytes t).length = 29) (hi : i < B64) :
    session.IDFromSessionForInactiveAtKey (session.SessionForInactiveAtKey t i) = .ok i := by
  obtain ⟨h2, h3⟩ := facts_fix_u64 _ (nf_session_SessionForInactiveAtKey t i) rfl hlen
  unfold session.IDFromSessionForInactiveAtKey
  simp only [ok_bind', h2, bne_self_eq_false, Bool.false_eq_true, if_false, h3, bigEndianToUint64_u64be i hi]

/-- The hypotheses are satisfiable; `[3]` is a prefix of `[3, 3]` and the id starts with byte 3. -/
example : session.IDFromSessionForAccountKey (session.SessionForAccountKey [3] 0x0303030303030303) = .ok 0x0303030303030303 :=
  decode_encode_session_IDFromSessionForAccountKey ⟨by decide, by decide⟩ (by decide)
example : subscription.AccAddrFromSubscriptionForAccountKey (subscription.SubscriptionForAccountKey [3, 3] 7) = .ok [3, 3] :=
  decode_encode_subscription_AccAddrFromSubscriptionForAccountKey ⟨by decide, by decide⟩
example : subscription.IDFromPayoutForAccountByNodeKey (subscription.PayoutForAccountByNodeKey [3] [3, 3] 9) = .ok 9 :=
  decode_encode_subscription_IDFromPayoutForAccountByNodeKey ⟨by decide, by decide⟩ ⟨by decide, by decide⟩ (by decide)
example : node.AddressFromNodeForInactiveAtKey (node.NodeForInactiveAtKey 1700000000123456789 [3, 3]) = .ok [3, 3] :=
  decode_encode_node_AddressFromNodeForInactiveAtKey (by decide) ⟨by decide, by decide⟩
example : session.IDFromSessionForInactiveAtKey (session.SessionForInactiveAtKey 1700000000123456789 (2 ^ 64 - 1)) = .ok (2 ^ 64 - 1) :=
  decode_encode_session_IDFromSessionForInactiveAtKey (by decide) (by decide)

/-! ## 2. key_injective (all 46 constructors and prefix builders) -/

theorem key_injective_deposit_DepositKey {a : Bytes} {b : Bytes}
    (ha : AddrOK a) (hb : AddrOK b)
    (e : deposit.DepositKey a = deposit.DepositKey b) : a = b := by
  rw [nf_deposit_DepositKey, nf_deposit_DepositKey] at e
  exact inj_lp _ ha hb e

theorem key_injective_provider_ActiveProviderKey {a : Bytes} {b : Bytes}
    (ha : AddrOK a) (hb : AddrOK b)
    (e : provider.ActiveProviderKey a = provider.ActiveProviderKey b) : a = b := by
  rw [nf_provider_ActiveProviderKey, nf_provider_ActiveProviderKey] at e
  exact inj_lp _ ha hb e

theorem key_injective_provider_InactiveProviderKey {a : Bytes} {b : Bytes}
    (ha : AddrOK a) (hb : AddrOK b)
    (e : provider.InactiveProviderKey a = provider.InactiveProviderKey b) : a = b := by
  rw [nf_provider_InactiveProviderKey, nf_provider_InactiveProviderKey] at e
  exact inj_lp _ ha hb e

theorem key_injective_node_ActiveNodeKey {a : Bytes} {b : Bytes}
    (ha : AddrOK a) (hb : AddrOK b)
    (e : node.ActiveNodeKey a = node.ActiveNodeKey b) : a = b := by
  rw [nf_node_ActiveNodeKey, nf_node_ActiveNodeKey] at e
  exact inj_lp _ ha hb e

theorem key_injective_node_InactiveNodeKey {a : Bytes} {b : Bytes}
    (ha : AddrOK a) (hb : AddrOK b)
    (e : node.InactiveNodeKey a = node.InactiveNodeKey b) : a = b := by
  rw [nf_node_InactiveNodeKey, nf_node_InactiveNodeKey] at e
  exact inj_lp _ ha hb e

theorem key_injective_node_GetNodeForPlanKeyPrefix {i : Nat} {j : Nat}
    (hi : i < B64) (hj : j < B64)
    (e : node.GetNodeForPlanKeyPrefix i = node.GetNodeForPlanKeyPrefix j) : i = j := by
  rw [nf_node_GetNodeForPlanKeyPrefix, nf_node_GetNodeForPlanKeyPrefix] at e
  exact inj_u64 _ hi hj e

theorem key_injective_node_NodeForPlanKey {i : Nat} {a : Bytes} {j : Nat} {b : Bytes}
    (hi : i < B64) (hj : j < B64) (ha : AddrOK a) (hb : AddrOK b)
    (e : node.NodeForPlanKey i a = node.NodeForPlanKey j b) : i = j ∧ a = b := by
  rw [nf_node_NodeForPlanKey, nf_node_NodeForPlanKey] at e
  exact inj_u64_lp _ hi hj ha hb e

theorem key_injective_node_GetNodeForInactiveAtKeyPrefix {t : Time} {t' : Time}
    (hinj : formatTimeBytes t = formatTimeBytes t' → t = t')
    (e : node.GetNodeForInactiveAtKeyPrefix t = node.GetNodeForInactiveAtKeyPrefix t') : t = t' := by
  rw [nf_node_GetNodeForInactiveAtKeyPrefix, nf_node_GetNodeForInactiveAtKeyPrefix] at e
  exact hinj (inj_raw _ e)

theorem key_injective_node_NodeForInactiveAtKey {t : Time} {a : Bytes} {t' : Time} {b : Bytes}
    (hlen : (formatTimeBytes t).length = 29) (hlen' : (formatTimeBytes t').length = 29) (hinj : formatTimeBytes t = formatTimeBytes t' → t = t') (ha : AddrOK a) (hb : AddrOK b)
    (e : node.NodeForInactiveAtKey t a = node.NodeForInactiveAtKey t' b) : t = t' ∧ a = b := by
  rw [nf_node_NodeForInactiveAtKey, nf_node_NodeForInactiveAtKey] at e
  have := inj_fix_lp _ (hlen.trans hlen'.symm) ha hb e
  exact ⟨hinj this.1, this.2⟩

theorem key_injective_plan_ActivePlanKey {i : Nat} {j : Nat}
    (hi : i < B64) (hj : j < B64)
    (e : plan.ActivePlanKey i = plan.ActivePlanKey j) : i = j := by
  rw [nf_plan_ActivePlanKey, nf_plan_ActivePlanKey] at e
  exact inj_u64 _ hi hj e

theorem key_injective_plan_InactivePlanKey {i : Nat} {j : Nat}
    (hi : i < B64) (hj : j < B64)
    (e : plan.InactivePlanKey i = plan.InactivePlanKey j) : i = j := by
  rw [nf_plan_InactivePlanKey, nf_plan_InactivePlanKey] at e
  exact inj_u64 _ hi hj e

theorem key_injective_plan_GetPlanForProviderKeyPrefix {a : Bytes} {b : Bytes}
    (ha : AddrOK a) (hb : AddrOK b)
    (e : plan.GetPlanForProviderKeyPrefix a = plan.GetPlanForProviderKeyPrefix b) : a = b := by
  rw [nf_plan_GetPlanForProviderKeyPrefix, nf_plan_GetPlanForProviderKeyPrefix] at e
  exact inj_lp _ ha hb e

theorem key_injective_plan_PlanForProviderKey {a : Bytes} {i : Nat} {b : Bytes} {j : Nat}
    (ha : AddrOK a) (hb : AddrOK b) (hi : i < B64) (hj : j < B64)
    (e : plan.PlanForProviderKey a i = plan.PlanForProviderKey b j) : a = b ∧ i = j := by
  rw [nf_plan_PlanForProviderKey, nf_plan_PlanForProviderKey] at e
  exact inj_lp_u64 _ ha hb hi hj e

theorem key_injective_subscription_SubscriptionKey {i : Nat} {j : Nat}
    (hi : i < B64) (hj : j < B64)
    (e : subscription.SubscriptionKey i = subscription.SubscriptionKey j) : i = j := by
  rw [nf_subscription_SubscriptionKey, nf_subscription_SubscriptionKey] at e
  exact inj_u64 _ hi hj e

theorem key_injective_subscription_GetSubscriptionForAccountKeyPrefix {a : Bytes} {b : Bytes}
    (ha : AddrOK a) (hb : AddrOK b)
    (e : subscription.GetSubscriptionForAccountKeyPrefix a = subscription.GetSubscriptionForAccountKeyPrefix b) : a = b := by
  rw [nf_subscription_GetSubscriptionForAccountKeyPrefix, nf_subscription_GetSubscriptionForAccountKeyPrefix] at e
  exact inj_lp _ ha hb e

theorem key_injective_subscription_SubscriptionForAccountKey {a : Bytes} {i : Nat} {b : Bytes} {j : Nat}
    (ha : AddrOK a) (hb : AddrOK b) (hi : i < B64) (hj : j < B64)
    (e : subscription.SubscriptionForAccountKey a i = subscription.SubscriptionForAccountKey b j) : a = b ∧ i = j := by
  rw [nf_subscription_SubscriptionForAccountKey, nf_subscription_SubscriptionForAccountKey] at e
  exact inj_lp_u64 _ ha hb hi hj e

theorem key_injective_subscription_GetSubscriptionForNodeKeyPrefix {a : Bytes} {b : Bytes}
    (ha : AddrOK a) (hb : AddrOK b)
    (e : subscription.GetSubscriptionForNodeKeyPrefix a = subscription.GetSubscriptionForNodeKeyPrefix b) : a = b := by
  rw [nf_subscription_GetSubscriptionForNodeKeyPrefix, nf_subscription_GetSubscriptionForNodeKeyPrefix] at e
  exact inj_lp _ ha hb e

theorem key_injective_subscription_SubscriptionForNodeKey {a : Bytes} {i : Nat} {b : Bytes} {j : Nat}
    (ha : AddrOK a) (hb : AddrOK b) (hi : i < B64) (hj : j < B64)
    (e : subscription.SubscriptionForNodeKey a i = subscription.SubscriptionForNodeKey b j) : a = b ∧ i = j := by
  rw [nf_subscription_SubscriptionForNodeKey, nf_subscription_SubscriptionForNodeKey] at e
  exact inj_lp_u64 _ ha hb hi hj e

theorem key_injective_subscription_GetSubscriptionForPlanKeyPrefix {i : Nat} {j : Nat}
    (hi : i < B64) (hj : j < B64)
    (e : subscription.GetSubscriptionForPlanKeyPrefix i = subscription.GetSubscriptionForPlanKeyPrefix j) : i = j := by
  rw [nf_subscription_GetSubscriptionForPlanKeyPrefix, nf_subscription_GetSubscriptionForPlanKeyPrefix] at e
  exact inj_u64 _ hi hj e

theorem key_injective_subscription_SubscriptionForPlanKey {i : Nat} {i2 : Nat} {j : Nat} {j2 : Nat}
    (hi : i < B64) (hj : j < B64) (hi2 : i2 < B64) (hj2 : j2 < B64)
    (e : subscription.SubscriptionForPlanKey i i2 = subscription.SubscriptionForPlanKey j j2) : i = j ∧ i2 = j2 := by
  rw [nf_subscription_SubscriptionForPlanKey, nf_subscription_SubscriptionForPlanKey] at e
  exact inj_u64_u64 _ hi hj hi2 hj2 e

theorem key_injective_subscription_GetSubscriptionForInactiveAtKeyPrefix {t : Time} {t' : Time}
    (hinj : formatTimeBytes t = formatTimeBytes t' → t = t')
    (e : subscription.GetSubscriptionForInactiveAtKeyPrefix t = subscription.GetSubscriptionForInactiveAtKeyPrefix t') : t = t' := by
  rw [nf_subscription_GetSubscriptionForInactiveAtKeyPrefix, nf_subscription_GetSubscriptionForInactiveAtKeyPrefix] at e
  exact hinj (inj_raw _ e)

theorem key_injective_subscription_SubscriptionForInactiveAtKey {t : Time} {i : Nat} {t' : Time} {j : Nat}
    (hlen : (formatTimeBytes t).length = 29) (hlen' : (formatTimeBytes t').length = 29) (hinj : formatTimeBytes t = formatTimeBytes t' → t = t') (hi : i < B64) (hj : j < B64)
    (e : subscription.SubscriptionForInactiveAtKey t i = subscription.SubscriptionForInactiveAtKey t' j) : t = t' ∧ i = j := by
  rw [nf_subscription_SubscriptionForInactiveAtKey, nf_subscription_SubscriptionForInactiveAtKey] at e
  have := inj_fix_u64 _ (hlen.trans hlen'.symm) hi hj e
  exact ⟨hinj this.1, this.2⟩

theorem key_injective_subscription_GetAllocationForSubscriptionKeyPrefix {i : Nat} {j : Nat}
    (hi : i < B64) (hj : j < B64)
    (e : subscription.GetAllocationForSubscriptionKeyPrefix i = subscription.GetAllocationForSubscriptionKeyPrefix j) : i = j := by
  rw [nf_subscription_GetAllocationForSubscriptionKeyPrefix, nf_subscription_GetAllocationForSubscriptionKeyPrefix] at e
  exact inj_u64 _ hi hj e

theorem key_injective_subscription_AllocationKey {i : Nat} {a : Bytes} {j : Nat} {b : Bytes}
    (hi : i < B64) (hj : j < B64) (ha : AddrOK a) (hb : AddrOK b)
    (e : subscription.AllocationKey i a = subscription.AllocationKey j b) : i = j ∧ a = b := by
  rw [nf_subscription_AllocationKey, nf_subscription_AllocationKey] at e
  exact inj_u64_lp _ hi hj ha hb e

theorem key_injective_subscription_PayoutKey {i : Nat} {j : Nat}
    (hi : i < B64) (hj : j < B64)
    (e : subscription.PayoutKey i = subscription.PayoutKey j) : i = j := by
  rw [nf_subscription_PayoutKey, nf_subscription_PayoutKey] at e
  exact inj_u64 _ hi hj e

theorem key_injective_subscription_GetPayoutForNextAtKeyPrefix {t : Time} {t' : Time}
    (hinj : formatTimeBytes t = formatTimeBytes t' → t = t')
    (e : subscription.GetPayoutForNextAtKeyPrefix t = subscription.GetPayoutForNextAtKeyPrefix t') : t = t' := by
  rw [nf_subscription_GetPayoutForNextAtKeyPrefix, nf_subscription_GetPayoutForNextAtKeyPrefix] at e
  exact hinj (inj_raw _ e)

theorem key_injective_subscription_PayoutForNextAtKey {t : Time} {i : Nat} {t' : Time} {j : Nat}
    (hlen : (formatTimeBytes t).length = 29) (hlen' : (formatTimeBytes t').length = 29) (hinj : formatTimeBytes t = formatTimeBytes t' → t = t') (hi : i < B64) (hj : j < B64)
    (e : subscription.PayoutForNextAtKey t i = subscription.PayoutForNextAtKey t' j) : t = t' ∧ i = j := by
  rw [nf_subscription_PayoutForNextAtKey, nf_subscription_PayoutForNextAtKey] at e
  have := inj_fix_u64 _ (hlen.trans hlen'.symm) hi hj e
  exact ⟨hinj this.1, this.2⟩

theorem key_injective_subscription_GetPayoutForAccountKeyPrefix {a : Bytes} {b : Bytes}
    (ha : AddrOK a) (hb : AddrOK b)
    (e : subscription.GetPayoutForAccountKeyPrefix a = subscription.GetPayoutForAccountKeyPrefix b) : a = b := by
  rw [nf_subscription_GetPayoutForAccountKeyPrefix, nf_subscription_GetPayoutForAccountKeyPrefix] at e
  exact inj_lp _ ha hb e

theorem key_injective_subscription_PayoutForAccountKey {a : Bytes} {i : Nat} {b : Bytes} {j : Nat}
    (ha : AddrOK a) (hb : AddrOK b) (hi : i < B64) (hj : j < B64)
    (e : subscription.PayoutForAccountKey a i = subscription.PayoutForAccountKey b j) : a = b ∧ i = j := by
  rw [nf_subscription_PayoutForAccountKey, nf_subscription_PayoutForAccountKey] at e
  exact inj_lp_u64 _ ha hb hi hj e

theorem key_injective_subscription_GetPayoutForNodeKeyPrefix {a : Bytes} {b : Bytes}
    (ha : AddrOK a) (hb : AddrOK b)
    (e : subscription.GetPayoutForNodeKeyPrefix a = subscription.GetPayoutForNodeKeyPrefix b) : a = b := by
  rw [nf_subscription_GetPayoutForNodeKeyPrefix, nf_subscription_GetPayoutForNodeKeyPrefix] at e
  exact inj_lp _ ha hb e

theorem key_injective_subscription_PayoutForNodeKey {a : Bytes} {i : Nat} {b : Bytes} {j : Nat}
    (ha : AddrOK a) (hb : AddrOK b) (hi : i < B64) (hj : j < B64)
    (e : subscription.PayoutForNodeKey a i = subscription.PayoutForNodeKey b j) : a = b ∧ i = j := by
  rw [nf_subscription_PayoutForNodeKey, nf_subscription_PayoutForNodeKey] at e
  exact inj_lp_u64 _ ha hb hi hj e

theorem key_injective_subscription_GetPayoutForAccountByNodeKeyPrefix {a : Bytes} {a2 : Bytes} {b : Bytes} {b2 : Bytes}
    (ha : AddrOK a) (hb : AddrOK b) (ha2 : AddrOK a2) (hb2 : AddrOK b2)
    (e : subscription.GetPayoutForAccountByNodeKeyPrefix a a2 = subscription.GetPayoutForAccountByNodeKeyPrefix b b2) : a = b ∧ a2 = b2 := by
  rw [nf_subscription_GetPayoutForAccountByNodeKeyPrefix, nf_subscription_GetPayoutForAccountByNodeKeyPrefix] at e
  exact inj_lp_lp _ ha hb ha2 hb2 e

theorem key_injective_subscription_PayoutForAccountByNodeKey {a : Bytes} {a2 : Bytes} {i : Nat} {b : Bytes} {b2 : Bytes} {j : Nat}
    (ha : AddrOK a) (hb : AddrOK b) (ha2 : AddrOK a2) (hb2 : AddrOK b2) (hi : i < B64) (hj : j < B64)
    (e : subscription.PayoutForAccountByNodeKey a a2 i = subscription.PayoutForAccountByNodeKey b b2 j) : a = b ∧ a2 = b2 ∧ i = j := by
  rw [nf_subscription_PayoutForAccountByNodeKey, nf_subscription_PayoutForAccountByNodeKey] at e
  exact inj_lp_lp_u64 _ ha hb ha2 hb2 hi hj e

theorem key_injective_session_SessionKey {i : Nat} {j : Nat}
    (hi : i < B64) (hj : j < B64)
    (e : session.SessionKey i = session.SessionKey j) : i = j := by
  rw [nf_session_SessionKey, nf_session_SessionKey] at e
  exact inj_u64 _ hi hj e

theorem key_injective_session_GetSessionForAccountKeyPrefix {a : Bytes} {b : Bytes}
    (ha : AddrOK a) (hb : AddrOK b)
    (e : session.GetSessionForAccountKeyPrefix a = session.GetSessionForAccountKeyPrefix b) : a = b := by
  rw [nf_session_GetSessionForAccountKeyPrefix, nf_session_GetSessionForAccountKeyPrefix] at e
  exact inj_lp _ ha hb e

theorem key_injective_session_SessionForAccountKey {a : Bytes} {i : Nat} {b : Bytes} {j : Nat}
    (ha : AddrOK a) (hb : AddrOK b) (hi : i < B64) (hj : j < B64)
    (e : session.SessionForAccountKey a i = session.SessionForAccountKey b j) : a = b ∧ i = j := by
  rw [nf_session_SessionForAccountKey, nf_session_SessionForAccountKey] at e
  exact inj_lp_u64 _ ha hb hi hj e

theorem key_injective_session_GetSessionForNodeKeyPrefix {a : Bytes} {b : Bytes}
    (ha : AddrOK a) (hb : AddrOK b)
    (e : session.GetSessionForNodeKeyPrefix a = session.GetSessionForNodeKeyPrefix b) : a = b := by
  rw [nf_session_GetSessionForNodeKeyPrefix, nf_session_GetSessionForNodeKeyPrefix] at e
  exact inj_lp _ ha hb e

theorem key_injective_session_SessionForNodeKey {a : Bytes} {i : Nat} {b : Bytes} {j : Nat}
    (ha : AddrOK a) (hb : AddrOK b) (hi : i < B64) (hj : j < B64)
    (e : session.SessionForNodeKey a i = session.SessionForNodeKey b j) : a = b ∧ i = j := by
  rw [nf_session_SessionForNodeKey, nf_session_SessionForNodeKey] at e
  exact inj_lp_u64 _ ha hb hi hj e

theorem key_injective_session_GetSessionForSubscriptionKeyPrefix {i : Nat} {j : Nat}
    (hi : i < B64) (hj : j < B64)
    (e : session.GetSessionForSubscriptionKeyPrefix i = session.GetSessionForSubscriptionKeyPrefix j) : i = j := by
  rw [nf_session_GetSessionForSubscriptionKeyPrefix, nf_session_GetSessionForSubscriptionKeyPrefix] at e
  exact inj_u64 _ hi hj e

theorem key_injective_session_SessionForSubscriptionKey {i : Nat} {i2 : Nat} {j : Nat} {j2 : Nat}
    (hi : i < B64) (hj : j < B64) (hi2 : i2 < B64) (hj2 : j2 < B64)
    (e : session.SessionForSubscriptionKey i i2 = session.SessionForSubscriptionKey j j2) : i = j ∧ i2 = j2 := by
  rw [nf_session_SessionForSubscriptionKey, nf_session_SessionForSubscriptionKey] at e
  exact inj_u64_u64 _ hi hj hi2 hj2 e

theorem key_injective_session_GetSessionForAllocationKeyPrefix {i : Nat} {a : Bytes} {j : Nat} {b : Bytes}
    (hi : i < B64) (hj : j < B64) (ha : AddrOK a) (hb : AddrOK b)
    (e : session.GetSessionForAllocationKeyPrefix i a = session.GetSessionForAllocationKeyPrefix j b) : i = j ∧ a = b := by
  rw [nf_session_GetSessionForAllocationKeyPrefix, nf_session_GetSessionForAllocationKeyPrefix] at e
  exact inj_u64_lp _ hi hj ha hb e

theorem key_injective_session_SessionForAllocationKey {i : Nat} {a : Bytes} {i2 : Nat} {j : Nat} {b : Bytes} {j2 : Nat}
    (hi : i < B64) (hj : j < B64) (ha : AddrOK a) (hb : AddrOK b) (hi2 : i2 < B64) (hj2 : j2 < B64)
    (e : session.SessionForAllocationKey i a i2 = session.SessionForAllocationKey j b j2) : i = j ∧ a = b ∧ i2 = j2 := by
  rw [nf_session_SessionForAllocationKey, nf_session_SessionForAllocationKey] at e
  exact inj_u64_lp_u64 _ hi hj ha hb hi2 hj2 e

theorem key_injective_session_GetSessionForInactiveAtKeyPrefix {t : Time} {t' : Time}
    (hinj : formatTimeBytes t = formatTimeBytes t' → t = t')
    (e : session.GetSessionForInactiveAtKeyPrefix t = session.GetSessionForInactiveAtKeyPrefix t') : t = t' := by
  rw [nf_session_GetSessionForInactiveAtKeyPrefix, nf_session_GetSessionForInactiveAtKeyPrefix] at e
  exact hinj (inj_raw _ e)

theorem key_injective_session_SessionForInactiveAtKey {t : Time} {i : Nat} {t' : Time} {j : Nat}
    (hlen : (formatTimeBytes t).length = 29) (hlen' : (formatTimeBytes t').length = 29) (hinj : formatTimeBytes t = formatTimeBytes t' → t = t') (hi : i < B64) (hj : j < B64)
    (e : session.SessionForInactiveAtKey t i = session.SessionForInactiveAtKey t' j) : t = t' ∧ i = j := by
  rw [nf_session_SessionForInactiveAtKey, nf_session_SessionForInactiveAtKey] at e
  have := inj_fix_u64 _ (hlen.trans hlen'.symm) hi hj e
  exact ⟨hinj this.1, this.2⟩

theorem key_injective_swap_SwapKey {h : Bytes} {h' : Bytes}
    (e : swap.SwapKey h = swap.SwapKey h') : h = h' := by
  rw [nf_swap_SwapKey, nf_swap_SwapKey] at e
  exact inj_raw _ e

theorem key_injective_mint_InflationKey {t : Time} {t' : Time}
    (hinj : formatTimeBytes t = formatTimeBytes t' → t = t')
    (e : mint.InflationKey t = mint.InflationKey t') : t = t' := by
  rw [nf_mint_InflationKey, nf_mint_InflationKey] at e
  exact hinj (inj_raw _ e)

/-- Addresses in prefix relation (`[3]` and `[3, 3]`) never give the same key, whatever the ids. -/
example (i j : Nat) (hi : i < B64) (hj : j < B64) :
    session.SessionForAccountKey [3] i ≠ session.SessionForAccountKey [3, 3] j := fun e =>
  absurd (key_injective_session_SessionForAccountKey ⟨by decide, by decide⟩ ⟨by decide, by decide⟩ hi hj e).1 (by decide)
example (i j : Nat) (hi : i < B64) (hj : j < B64) :
    subscription.PayoutForAccountByNodeKey [3] [3, 3] i ≠ subscription.PayoutForAccountByNodeKey [3, 3] [3] j := fun e =>
  absurd (key_injective_subscription_PayoutForAccountByNodeKey ⟨by decide, by decide⟩ ⟨by decide, by decide⟩
    ⟨by decide, by decide⟩ ⟨by decide, by decide⟩ hi hj e).1 (by decide)
example : subscription.SubscriptionForInactiveAtKey 1700000000123456789 5 ≠ subscription.SubscriptionForInactiveAtKey 1700000000123456790 5 :=
  fun e => absurd (key_injective_subscription_SubscriptionForInactiveAtKey (by decide) (by decide)
    (fun h => absurd h (by decide)) (by decide) (by decide) e).1 (by decide)

/-! ## 3. no_key_is_proper_prefix (within each table; as an `iff`, so it also restates injectivity) -/

theorem no_proper_prefix_deposit_DepositKey {a : Bytes} {b : Bytes}
    (ha : AddrOK a) (hb : AddrOK b) :
    List.isPrefixOf (deposit.DepositKey a) (deposit.DepositKey b) = true ↔ a = b := by
  rw [nf_deposit_DepositKey, nf_deposit_DepositKey, pre_lp _ ha hb]

theorem no_proper_prefix_provider_ActiveProviderKey {a : Bytes} {b : Bytes}
    (ha : AddrOK a) (hb : AddrOK b) :
    List.isPrefixOf (provider.ActiveProviderKey a) (provider.ActiveProviderKey b) = true ↔ a = b := by
  rw [nf_provider_ActiveProviderKey, nf_provider_ActiveProviderKey, pre_lp _ ha hb]

theorem no_proper_prefix_provider_InactiveProviderKey {a : Bytes} {b : Bytes}
    (ha : AddrOK a) (hb : AddrOK b) :
    List.isPrefixOf (provider.InactiveProviderKey a) (provider.InactiveProviderKey b) = true ↔ a = b := by
  rw [nf_provider_InactiveProviderKey, nf_provider_InactiveProviderKey, pre_lp _ ha hb]

theorem no_proper_prefix_node_ActiveNodeKey {a : Bytes} {b : Bytes}
    (ha : AddrOK a) (hb : AddrOK b) :
    List.isPrefixOf (node.ActiveNodeKey a) (node.ActiveNodeKey b) = true ↔ a = b := by
  rw [nf_node_ActiveNodeKey, nf_node_ActiveNodeKey, pre_lp _ ha hb]

theorem no_proper_prefix_node_InactiveNodeKey {a : Bytes} {b : Bytes}
    (ha : AddrOK a) (hb : AddrOK b) :
    List.isPrefixOf (node.InactiveNodeKey a) (node.InactiveNodeKey b) = true ↔ a = b := by
  rw [nf_node_InactiveNodeKey, nf_node_InactiveNodeKey, pre_lp _ ha hb]

theorem no_proper_prefix_node_GetNodeForPlanKeyPrefix {i : Nat} {j : Nat}
    (hi : i < B64) (hj : j < B64) :
    List.isPrefixOf (node.GetNodeForPlanKeyPrefix i) (node.GetNodeForPlanKeyPrefix j) = true ↔ i = j := by
  rw [nf_node_GetNodeForPlanKeyPrefix, nf_node_GetNodeForPlanKeyPrefix, pre_u64 _ hi hj]

theorem no_proper_prefix_node_NodeForPlanKey {i : Nat} {a : Bytes} {j : Nat} {b : Bytes}
    (hi : i < B64) (hj : j < B64) (ha : AddrOK a) (hb : AddrOK b) :
    List.isPrefixOf (node.NodeForPlanKey i a) (node.NodeForPlanKey j b) = true ↔ i = j ∧ a = b := by
  rw [nf_node_NodeForPlanKey, nf_node_NodeForPlanKey, pre_u64_lp _ hi hj ha hb]

theorem no_proper_prefix_node_GetNodeForInactiveAtKeyPrefix {t : Time} {t' : Time}
    (hlen : (formatTimeBytes t).length = 29) (hlen' : (formatTimeBytes t').length = 29) (hinj : formatTimeBytes t = formatTimeBytes t' → t = t') :
    List.isPrefixOf (node.GetNodeForInactiveAtKeyPrefix t) (node.GetNodeForInactiveAtKeyPrefix t') = true ↔ t = t' := by
  rw [nf_node_GetNodeForInactiveAtKeyPrefix, nf_node_GetNodeForInactiveAtKeyPrefix, pre_raw _ (hlen.trans hlen'.symm)]
  exact fmt_eq_iff hinj

theorem no_proper_prefix_node_NodeForInactiveAtKey {t : Time} {a : Bytes} {t' : Time} {b : Bytes}
    (hlen : (formatTimeBytes t).length = 29) (hlen' : (formatTimeBytes t').length = 29) (hinj : formatTimeBytes t = formatTimeBytes t' → t = t') (ha : AddrOK a) (hb : AddrOK b) :
    List.isPrefixOf (node.NodeForInactiveAtKey t a) (node.NodeForInactiveAtKey t' b) = true ↔ t = t' ∧ a = b := by
  rw [nf_node_NodeForInactiveAtKey, nf_node_NodeForInactiveAtKey, pre_fix_lp _ (hlen.trans hlen'.symm) ha hb]
  exact fmt_and_iff hinj

theorem no_proper_prefix_plan_ActivePlanKey {i : Nat} {j : Nat}
    (hi : i < B64) (hj : j < B64) :
    List.isPrefixOf (plan.ActivePlanKey i) (plan.ActivePlanKey j) = true ↔ i = j := by
  rw [nf_plan_ActivePlanKey, nf_plan_ActivePlanKey, pre_u64 _ hi hj]

theorem no_proper_prefix_plan_InactivePlanKey {i : Nat} {j : Nat}
    (hi : i < B64) (hj : j < B64) :
    List.isPrefixOf (plan.InactivePlanKey i) (plan.InactivePlanKey j) = true ↔ i = j := by
  rw [nf_plan_InactivePlanKey, nf_plan_InactivePlanKey, pre_u64 _ hi hj]

theorem no_proper_prefix_plan_GetPlanForProviderKeyPrefix {a : Bytes} {b : Bytes}
    (ha : AddrOK a) (hb : AddrOK b) :
    List.isPrefixOf (plan.GetPlanForProviderKeyPrefix a) (plan.GetPlanForProviderKeyPrefix b) = true ↔ a = b := by
  rw [nf_plan_GetPlanForProviderKeyPrefix, nf_plan_GetPlanForProviderKeyPrefix, pre_lp _ ha hb]

theorem no_proper_prefix_plan_PlanForProviderKey {a : Bytes} {i : Nat} {b : Bytes} {j : Nat}
    (ha : AddrOK a) (hb : AddrOK b) (hi : i < B64) (hj : j < B64) :
    List.isPrefixOf (plan.PlanForProviderKey a i) (plan.PlanForProviderKey b j) = true ↔ a = b ∧ i = j := by
  rw [nf_plan_PlanForProviderKey, nf_plan_PlanForProviderKey, pre_lp_u64 _ ha hb hi hj]

theorem no_proper_prefix_subscription_SubscriptionKey {i : Nat} {j : Nat}
    (hi : i < B64) (hj : j < B64) :
    List.isPrefixOf (subscription.SubscriptionKey i) (subscription.SubscriptionKey j) = true ↔ i = j := by
  rw [nf_subscription_SubscriptionKey, nf_subscription_SubscriptionKey, pre_u64 _ hi hj]

theorem no_proper_prefix_subscription_GetSubscriptionForAccountKeyPrefix {a : Bytes} {b : Bytes}
    (ha : AddrOK a) (hb : AddrOK b) :
    List.isPrefixOf (subscription.GetSubscriptionForAccountKeyPrefix a) (subscription.GetSubscriptionForAccountKeyPrefix b) = true ↔ a = b := by
  rw [nf_subscription_GetSubscriptionForAccountKeyPrefix, nf_subscription_GetSubscriptionForAccountKeyPrefix, pre_lp _ ha hb]

theorem no_proper_prefix_subscription_SubscriptionForAccountKey {a : Bytes} {i : Nat} {b : Bytes} {j : Nat}
    (ha : AddrOK a) (hb : AddrOK b) (hi : i < B64) (hj : j < B64) :
    List.isPrefixOf (subscription.SubscriptionForAccountKey a i) (subscription.SubscriptionForAccountKey b j) = true ↔ a = b ∧ i = j := by
  rw [nf_subscription_SubscriptionForAccountKey, nf_subscription_SubscriptionForAccountKey, pre_lp_u64 _ ha hb hi hj]

theorem no_proper_prefix_subscription_GetSubscriptionForNodeKeyPrefix {a : Bytes} {b : Bytes}
    (ha : AddrOK a) (hb : AddrOK b) :
    List.isPrefixOf (subscription.GetSubscriptionForNodeKeyPrefix a) (subscription.GetSubscriptionForNodeKeyPrefix b) = true ↔ a = b := by
  rw [nf_subscription_GetSubscriptionForNodeKeyPrefix, nf_subscription_GetSubscriptionForNodeKeyPrefix, pre_lp _ ha hb]

theorem no_proper_prefix_subscription_SubscriptionForNodeKey {a : Bytes} {i : Nat} {b : Bytes} {j : Nat}
    (ha : AddrOK a) (hb : AddrOK b) (hi : i < B64) (hj : j < B64) :
    List.isPrefixOf (subscription.SubscriptionForNodeKey a i) (subscription.SubscriptionForNodeKey b j) = true ↔ a = b ∧ i = j := by
  rw [nf_subscription_SubscriptionForNodeKey, nf_subscription_SubscriptionForNodeKey, pre_lp_u64 _ ha hb hi hj]

theorem no_proper_prefix_subscription_GetSubscriptionForPlanKeyPrefix {i : Nat} {j : Nat}
    (hi : i < B64) (hj : j < B64) :
    List.isPrefixOf (subscription.GetSubscriptionForPlanKeyPrefix i) (subscription.GetSubscriptionForPlanKeyPrefix j) = true ↔ i = j := by
  rw [nf_subscription_GetSubscriptionForPlanKeyPrefix, nf_subscription_GetSubscriptionForPlanKeyPrefix, pre_u64 _ hi hj]

theorem no_proper_prefix_subscription_SubscriptionForPlanKey {i : Nat} {i2 : Nat} {j : Nat} {j2 : Nat}
    (hi : i < B64) (hj : j < B64) (hi2 : i2 < B64) (hj2 : j2 < B64) :
    List.isPrefixOf (subscription.SubscriptionForPlanKey i i2) (subscription.SubscriptionForPlanKey j j2) = true ↔ i = j ∧ i2 = j2 := by
  rw [nf_subscription_SubscriptionForPlanKey, nf_subscription_SubscriptionForPlanKey, pre_u64_u64 _ hi hj hi2 hj2]

theorem no_proper_prefix_subscription_GetSubscriptionForInactiveAtKeyPrefix {t : Time} {t' : Time}
    (hlen : (formatTimeBytes t).length = 29) (hlen' : (formatTimeBytes t').length = 29) (hinj : formatTimeBytes t = formatTimeBytes t' → t = t') :
    List.isPrefixOf (subscription.GetSubscriptionForInactiveAtKeyPrefix t) (subscription.GetSubscriptionForInactiveAtKeyPrefix t') = true ↔ t = t' := by
  rw [nf_subscription_GetSubscriptionForInactiveAtKeyPrefix, nf_subscription_GetSubscriptionForInactiveAtKeyPrefix, pre_raw _ (hlen.trans hlen'.symm)]
  exact fmt_eq_iff hinj

theorem no_proper_prefix_subscription_SubscriptionForInactiveAtKey {t : Time} {i : Nat} {t' : Time} {j : Nat}
    (hlen : (formatTimeBytes t).length = 29) (hlen' : (formatTimeBytes t').length = 29) (hinj : formatTimeBytes t = formatTimeBytes t' → t = t') (hi : i < B64) (hj : j < B64) :
    List.isPrefixOf (subscription.SubscriptionForInactiveAtKey t i) (subscription.SubscriptionForInactiveAtKey t' j) = true ↔ t = t' ∧ i = j := by
  rw [nf_subscription_SubscriptionForInactiveAtKey, nf_subscription_SubscriptionForInactiveAtKey, pre_fix_u64 _ (hlen.trans hlen'.symm) hi hj]
  exact fmt_and_iff hinj

theorem no_proper_prefix_subscription_GetAllocationForSubscriptionKeyPrefix {i : Nat} {j : Nat}
    (hi : i < B64) (hj : j < B64) :
    List.isPrefixOf (subscription.GetAllocationForSubscriptionKeyPrefix i) (subscription.GetAllocationForSubscriptionKeyPrefix j) = true ↔ i = j := by
  rw [nf_subscription_GetAllocationForSubscriptionKeyPrefix, nf_subscription_GetAllocationForSubscriptionKeyPrefix, pre_u64 _ hi hj]

theorem no_proper_prefix_subscription_AllocationKey {i : Nat} {a : Bytes} {j : Nat} {b : Bytes}
    (hi : i < B64) (hj : j < B64) (ha : AddrOK a) (hb : AddrOK b) :
    List.isPrefixOf (subscription.AllocationKey i a) (subscription.AllocationKey j b) = true ↔ i = j ∧ a = b := by
  rw [nf_subscription_AllocationKey, nf_subscription_AllocationKey, pre_u64_lp _ hi hj ha hb]

theorem no_proper_prefix_subscription_PayoutKey {i : Nat} {j : Nat}
    (hi : i < B64) (hj : j < B64) :
    List.isPrefixOf (subscription.PayoutKey i) (subscription.PayoutKey j) = true ↔ i = j := by
  rw [nf_subscription_PayoutKey, nf_subscription_PayoutKey, pre_u64 _ hi hj]

theorem no_proper_prefix_subscription_GetPayoutForNextAtKeyPrefix {t : Time} {t' : Time}
    (hlen : (formatTimeBytes t).length = 29) (hlen' : (formatTimeBytes t').length = 29) (hinj : formatTimeBytes t = formatTimeBytes t' → t = t') :
    List.isPrefixOf (subscription.GetPayoutForNextAtKeyPrefix t) (subscription.GetPayoutForNextAtKeyPrefix t') = true ↔ t = t' := by
  rw [nf_subscription_GetPayoutForNextAtKeyPrefix, nf_subscription_GetPayoutForNextAtKeyPrefix, pre_raw _ (hlen.trans hlen'.symm)]
  exact fmt_eq_iff hinj

theorem no_proper_prefix_subscription_PayoutForNextAtKey {t : Time} {i : Nat} {t' : Time} {j : Nat}
    (hlen : (formatTimeBytes t).length = 29) (hlen' : (formatTimeBytes t').length = 29) (hinj : formatTimeBytes t = formatTimeBytes t' → t = t') (hi : i < B64) (hj : j < B64) :
    List.isPrefixOf (subscription.PayoutForNextAtKey t i) (subscription.PayoutForNextAtKey t' j) = true ↔ t = t' ∧ i = j := by
  rw [nf_subscription_PayoutForNextAtKey, nf_subscription_PayoutForNextAtKey, pre_fix_u64 _ (hlen.trans hlen'.symm) hi hj]
  exact fmt_and_iff hinj

theorem no_proper_prefix_subscription_GetPayoutForAccountKeyPrefix {a : Bytes} {b : Bytes}
    (ha : AddrOK a) (hb : AddrOK b) :
    List.isPrefixOf (subscription.GetPayoutForAccountKeyPrefix a) (subscription.GetPayoutForAccountKeyPrefix b) = true ↔ a = b := by
  rw [nf_subscription_GetPayoutForAccountKeyPrefix, nf_subscription_GetPayoutForAccountKeyPrefix, pre_lp _ ha hb]

theorem no_proper_prefix_subscription_PayoutForAccountKey {a : Bytes} {i : Nat} {b : Bytes} {j : Nat}
    (ha : AddrOK a) (hb : AddrOK b) (hi : i < B64) (hj : j < B64) :
    List.isPrefixOf (subscription.PayoutForAccountKey a i) (subscription.PayoutForAccountKey b j) = true ↔ a = b ∧ i = j := by
  rw [nf_subscription_PayoutForAccountKey, nf_subscription_PayoutForAccountKey, pre_lp_u64 _ ha hb hi hj]

theorem no_proper_prefix_subscription_GetPayoutForNodeKeyPrefix {a : Bytes} {b : Bytes}
    (ha : AddrOK a) (hb : AddrOK b) :
    List.isPrefixOf (subscription.GetPayoutForNodeKeyPrefix a) (subscription.GetPayoutForNodeKeyPrefix b) = true ↔ a = b := by
  rw [nf_subscription_GetPayoutForNodeKeyPrefix, nf_subscription_GetPayoutForNodeKeyPrefix, pre_lp _ ha hb]

theorem no_proper_prefix_subscription_PayoutForNodeKey {a : Bytes} {i : Nat} {b : Bytes} {j : Nat}
    (ha : AddrOK a) (hb : AddrOK b) (hi : i < B64) (hj : j < B64) :
    List.isPrefixOf (subscription.PayoutForNodeKey a i) (subscription.PayoutForNodeKey b j) = true ↔ a = b ∧ i = j := by
  rw [nf_subscription_PayoutForNodeKey, nf_subscription_PayoutForNodeKey, pre_lp_u64 _ ha hb hi hj]

theorem no_proper_prefix_subscription_GetPayoutForAccountByNodeKeyPrefix {a : Bytes} {a2 : Bytes} {b : Bytes} {b2 : Bytes}
    (ha : AddrOK a) (hb : AddrOK b) (ha2 : AddrOK a2) (hb2 : AddrOK b2) :
    List.isPrefixOf (subscription.GetPayoutForAccountByNodeKeyPrefix a a2) (subscription.GetPayoutForAccountByNodeKeyPrefix b b2) = true ↔ a = b ∧ a2 = b2 := by
  rw [nf_subscription_GetPayoutForAccountByNodeKeyPrefix, nf_subscription_GetPayoutForAccountByNodeKeyPrefix, pre_lp_lp _ ha hb ha2 hb2]

theorem no_proper_prefix_subscription_PayoutForAccountByNodeKey {a : Bytes} {a2 : Bytes} {i : Nat} {b : Bytes} {b2 : Bytes} {j : Nat}
    (ha : AddrOK a) (hb : AddrOK b) (ha2 : AddrOK a2) (hb2 : AddrOK b2) (hi : i < B64) (hj : j < B64) :
    List.isPrefixOf (subscription.PayoutForAccountByNodeKey a a2 i) (subscription.PayoutForAccountByNodeKey b b2 j) = true ↔ a = b ∧ a2 = b2 ∧ i = j := by
  rw [nf_subscription_PayoutForAccountByNodeKey, nf_subscription_PayoutForAccountByNodeKey, pre_lp_lp_u64 _ ha hb ha2 hb2 hi hj]

theorem no_proper_prefix_session_SessionKey {i : Nat} {j : Nat}
    (hi : i < B64) (hj : j < B64) :
    List.isPrefixOf (session.SessionKey i) (session.SessionKey j) = true ↔ i = j := by
  rw [nf_session_SessionKey, nf_session_SessionKey, pre_u64 _ hi hj]

theorem no_proper_prefix_session_GetSessionForAccountKeyPrefix {a : Bytes} {b : Bytes}
    (ha : AddrOK a) (hb : AddrOK b) :
    List.isPrefixOf (session.GetSessionForAccountKeyPrefix a) (session.GetSessionForAccountKeyPrefix b) = true ↔ a = b := by
  rw [nf_session_GetSessionForAccountKeyPrefix, nf_session_GetSessionForAccountKeyPrefix, pre_lp _ ha hb]

theorem no_proper_prefix_session_SessionForAccountKey {a : Bytes} {i : Nat} {b : Bytes} {j : Nat}
    (ha : AddrOK a) (hb : AddrOK b) (hi : i < B64) (hj : j < B64) :
    List.isPrefixOf (session.SessionForAccountKey a i) (session.SessionForAccountKey b j) = true ↔ a = b ∧ i = j := by
  rw [nf_session_SessionForAccountKey, nf_session_SessionForAccountKey, pre_lp_u64 _ ha hb hi hj]

theorem no_proper_prefix_session_GetSessionForNodeKeyPrefix {a : Bytes} {b : Bytes}
    (ha : AddrOK a) (hb : AddrOK b) :
    List.isPrefixOf (session.GetSessionForNodeKeyPrefix a) (session.GetSessionForNodeKeyPrefix b) = true ↔ a = b := by
  rw [nf_session_GetSessionForNodeKeyPrefix, nf_session_GetSessionForNodeKeyPrefix, pre_lp _ ha hb]

theorem no_proper_prefix_session_SessionForNodeKey {a : Bytes} {i : Nat} {b : Bytes} {j : Nat}
    (ha : AddrOK a) (hb : AddrOK b) (hi : i < B64) (hj : j < B64) :
    List.isPrefixOf (session.SessionForNodeKey a i) (session.SessionForNodeKey b j) = true ↔ a = b ∧ i = j := by
  rw [nf_session_SessionForNodeKey, nf_session_SessionForNodeKey, pre_lp_u64 _ ha hb hi hj]

theorem no_proper_prefix_session_GetSessionForSubscriptionKeyPrefix {i : Nat} {j : Nat}
    (hi : i < B64) (hj : j < B64) :
    List.isPrefixOf (session.GetSessionForSubscriptionKeyPrefix i) (session.GetSessionForSubscriptionKeyPrefix j) = true ↔ i = j := by
  rw [nf_session_GetSessionForSubscriptionKeyPrefix, nf_session_GetSessionForSubscriptionKeyPrefix, pre_u64 _ hi hj]

theorem no_proper_prefix_session_SessionForSubscriptionKey {i : Nat} {i2 : Nat} {j : Nat} {j2 : Nat}
    (hi : i < B64) (hj : j < B64) (hi2 : i2 < B64) (hj2 : j2 < B64) :
    List.isPrefixOf (session.SessionForSubscriptionKey i i2) (session.SessionForSubscriptionKey j j2) = true ↔ i = j ∧ i2 = j2 := by
  rw [nf_session_SessionForSubscriptionKey, nf_session_SessionForSubscriptionKey, pre_u64_u64 _ hi hj hi2 hj2]

theorem no_proper_prefix_session_GetSessionForAllocationKeyPrefix {i : Nat} {a : Bytes} {j : Nat} {b : Bytes}
    (hi : i < B64) (hj : j < B64) (ha : AddrOK a) (hb : AddrOK b) :
    List.isPrefixOf (session.GetSessionForAllocationKeyPrefix i a) (session.GetSessionForAllocationKeyPrefix j b) = true ↔ i = j ∧ a = b := by
  rw [nf_session_GetSessionForAllocationKeyPrefix, nf_session_GetSessionForAllocationKeyPrefix, pre_u64_lp _ hi hj ha hb]

theorem no_proper_prefix_session_SessionForAllocationKey {i : Nat} {a : Bytes} {i2 : Nat} {j : Nat} {b : Bytes} {j2 : Nat}
    (hi : i < B64) (hj : j < B64) (ha : AddrOK a) (hb : AddrOK b) (hi2 : i2 < B64) (hj2 : j2 < B64) :
    List.isPrefixOf (session.SessionForAllocationKey i a i2) (session.SessionForAllocationKey j b j2) = true ↔ i = j ∧ a = b ∧ i2 = j2 := by
  rw [nf_session_SessionForAllocationKey, nf_session_SessionForAllocationKey, pre_u64_lp_u64 _ hi hj ha hb hi2 hj2]

theorem no_proper_prefix_session_GetSessionForInactiveAtKeyPrefix {t : Time} {t' : Time}
    (hlen : (formatTimeBytes t).length = 29) (hlen' : (formatTimeBytes t').length = 29) (hinj : formatTimeBytes t = formatTimeBytes t' → t = t') :
    List.isPrefixOf (session.GetSessionForInactiveAtKeyPrefix t) (session.GetSessionForInactiveAtKeyPrefix t') = true ↔ t = t' := by
  rw [nf_session_GetSessionForInactiveAtKeyPrefix, nf_session_GetSessionForInactiveAtKeyPrefix, pre_raw _ (hlen.trans hlen'.symm)]
  exact fmt_eq_iff hinj

theorem no_proper_prefix_session_SessionForInactiveAtKey {t : Time} {i : Nat} {t' : Time} {j : Nat}
    (hlen : (formatTimeBytes t).length = 29) (hlen' : (formatTimeBytes t').length = 29) (hinj : formatTimeBytes t = formatTimeBytes t' → t = t') (hi : i < B64) (hj : j < B64) :
    List.isPrefixOf (session.SessionForInactiveAtKey t i) (session.SessionForInactiveAtKey t' j) = true ↔ t = t' ∧ i = j := by
  rw [nf_session_SessionForInactiveAtKey, nf_session_SessionForInactiveAtKey, pre_fix_u64 _ (hlen.trans hlen'.symm) hi hj]
  exact fmt_and_iff hinj

theorem no_proper_prefix_swap_SwapKey {h : Bytes} {h' : Bytes}
    (hh : h.length = 32) (hh' : h'.length = 32) :
    List.isPrefixOf (swap.SwapKey h) (swap.SwapKey h') = true ↔ h = h' := by
  rw [nf_swap_SwapKey, nf_swap_SwapKey, pre_raw _ (hh.trans hh'.symm)]

theorem no_proper_prefix_mint_InflationKey {t : Time} {t' : Time}
    (hlen : (formatTimeBytes t).length = 29) (hlen' : (formatTimeBytes t').length = 29) (hinj : formatTimeBytes t = formatTimeBytes t' → t = t') :
    List.isPrefixOf (mint.InflationKey t) (mint.InflationKey t') = true ↔ t = t' := by
  rw [nf_mint_InflationKey, nf_mint_InflationKey, pre_raw _ (hlen.trans hlen'.symm)]
  exact fmt_eq_iff hinj

/-- `[3]` is a prefix of `[3, 3]`, but no deposit / allocation / node-queue key of the one is a prefix of
a key of the other. -/
example : List.isPrefixOf (deposit.DepositKey [3]) (deposit.DepositKey [3, 3]) = false := by
  refine Bool.eq_false_iff.mpr (fun h => ?_)
  exact absurd ((no_proper_prefix_deposit_DepositKey ⟨by decide, by decide⟩ ⟨by decide, by decide⟩).mp h) (by decide)
example (i : Nat) (hi : i < B64) :
    ¬ (List.isPrefixOf (subscription.AllocationKey i [3]) (subscription.AllocationKey i [3, 3]) = true) := fun h =>
  absurd ((no_proper_prefix_subscription_AllocationKey hi hi ⟨by decide, by decide⟩ ⟨by decide, by decide⟩).mp h).2 (by decide)
example (i j : Nat) (hi : i < B64) (hj : j < B64) :
    ¬ (List.isPrefixOf (session.SessionForNodeKey [3] i) (session.SessionForNodeKey [3, 3] j) = true) := fun h =>
  absurd ((no_proper_prefix_session_SessionForNodeKey ⟨by decide, by decide⟩ ⟨by decide, by decide⟩ hi hj).mp h).1 (by decide)

/-! ## 4. prefix_isolates (every `Get…KeyPrefix`) -/

theorem prefix_isolates_node_GetNodeForPlanKeyPrefix {i : Nat} {j : Nat} {b : Bytes}
    (hi : i < B64) (hj : j < B64) :
    List.isPrefixOf (node.GetNodeForPlanKeyPrefix i) (node.NodeForPlanKey j b) = true ↔ i = j := by
  rw [nf_node_GetNodeForPlanKeyPrefix, nf_node_NodeForPlanKey, iso_u64 _ hi hj]

theorem prefix_isolates_node_GetNodeForInactiveAtKeyPrefix {t : Time} {t' : Time} {b : Bytes}
    (hlen : (formatTimeBytes t).length = 29) (hlen' : (formatTimeBytes t').length = 29) (hinj : formatTimeBytes t = formatTimeBytes t' → t = t') :
    List.isPrefixOf (node.GetNodeForInactiveAtKeyPrefix t) (node.NodeForInactiveAtKey t' b) = true ↔ t = t' := by
  rw [nf_node_GetNodeForInactiveAtKeyPrefix, nf_node_NodeForInactiveAtKey, iso_fix _ (hlen.trans hlen'.symm)]
  exact fmt_eq_iff hinj

theorem prefix_isolates_plan_GetPlanForProviderKeyPrefix {a : Bytes} {b : Bytes} {j : Nat}
    (ha : AddrOK a) (hb : AddrOK b) :
    List.isPrefixOf (plan.GetPlanForProviderKeyPrefix a) (plan.PlanForProviderKey b j) = true ↔ a = b := by
  rw [nf_plan_GetPlanForProviderKeyPrefix, nf_plan_PlanForProviderKey, iso_lp _ ha hb]

theorem prefix_isolates_subscription_GetSubscriptionForAccountKeyPrefix {a : Bytes} {b : Bytes} {j : Nat}
    (ha : AddrOK a) (hb : AddrOK b) :
    List.isPrefixOf (subscription.GetSubscriptionForAccountKeyPrefix a) (subscription.SubscriptionForAccountKey b j) = true ↔ a = b := by
  rw [nf_subscription_GetSubscriptionForAccountKeyPrefix, nf_subscription_SubscriptionForAccountKey, iso_lp _ ha hb]

theorem prefix_isolates_subscription_GetSubscriptionForNodeKeyPrefix {a : Bytes} {b : Bytes} {j : Nat}
    (ha : AddrOK a) (hb : AddrOK b) :
    List.isPrefixOf (subscription.GetSubscriptionForNodeKeyPrefix a) (subscription.SubscriptionForNodeKey b j) = true ↔ a = b := by
  rw [nf_subscription_GetSubscriptionForNodeKeyPrefix, nf_subscription_SubscriptionForNodeKey, iso_lp _ ha hb]

theorem prefix_isolates_subscription_GetSubscriptionForPlanKeyPrefix {i : Nat} {j : Nat} {j2 : Nat}
    (hi : i < B64) (hj : j < B64) :
    List.isPrefixOf (subscription.GetSubscriptionForPlanKeyPrefix i) (subscription.SubscriptionForPlanKey j j2) = true ↔ i = j := by
  rw [nf_subscription_GetSubscriptionForPlanKeyPrefix, nf_subscription_SubscriptionForPlanKey, iso_u64 _ hi hj]

theorem prefix_isolates_subscription_GetSubscriptionForInactiveAtKeyPrefix {t : Time} {t' : Time} {j : Nat}
    (hlen : (formatTimeBytes t).length = 29) (hlen' : (formatTimeBytes t').length = 29) (hinj : formatTimeBytes t = formatTimeBytes t' → t = t') :
    List.isPrefixOf (subscription.GetSubscriptionForInactiveAtKeyPrefix t) (subscription.SubscriptionForInactiveAtKey t' j) = true ↔ t = t' := by
  rw [nf_subscription_GetSubscriptionForInactiveAtKeyPrefix, nf_subscription_SubscriptionForInactiveAtKey, iso_fix _ (hlen.trans hlen'.symm)]
  exact fmt_eq_iff hinj

theorem prefix_isolates_subscription_GetAllocationForSubscriptionKeyPrefix {i : Nat} {j : Nat} {b : Bytes}
    (hi : i < B64) (hj : j < B64) :
    List.isPrefixOf (subscription.GetAllocationForSubscriptionKeyPrefix i) (subscription.AllocationKey j b) = true ↔ i = j := by
  rw [nf_subscription_GetAllocationForSubscriptionKeyPrefix, nf_subscription_AllocationKey, iso_u64 _ hi hj]

theorem prefix_isolates_subscription_GetPayoutForNextAtKeyPrefix {t : Time} {t' : Time} {j : Nat}
    (hlen : (formatTimeBytes t).length = 29) (hlen' : (formatTimeBytes t').length = 29) (hinj : formatTimeBytes t = formatTimeBytes t' → t = t') :
    List.isPrefixOf (subscription.GetPayoutForNextAtKeyPrefix t) (subscription.PayoutForNextAtKey t' j) = true ↔ t = t' := by
  rw [nf_subscription_GetPayoutForNextAtKeyPrefix, nf_subscription_PayoutForNextAtKey, iso_fix _ (hlen.trans hlen'.symm)]
  exact fmt_eq_iff hinj

theorem prefix_isolates_subscription_GetPayoutForAccountKeyPrefix {a : Bytes} {b : Bytes} {j : Nat}
    (ha : AddrOK a) (hb : AddrOK b) :
    List.isPrefixOf (subscription.GetPayoutForAccountKeyPrefix a) (subscription.PayoutForAccountKey b j) = true ↔ a = b := by
  rw [nf_subscription_GetPayoutForAccountKeyPrefix, nf_subscription_PayoutForAccountKey, iso_lp _ ha hb]

theorem prefix_isolates_subscription_GetPayoutForNodeKeyPrefix {a : Bytes} {b : Bytes} {j : Nat}
    (ha : AddrOK a) (hb : AddrOK b) :
    List.isPrefixOf (subscription.GetPayoutForNodeKeyPrefix a) (subscription.PayoutForNodeKey b j) = true ↔ a = b := by
  rw [nf_subscription_GetPayoutForNodeKeyPrefix, nf_subscription_PayoutForNodeKey, iso_lp _ ha hb]

theorem prefix_isolates_subscription_GetPayoutForAccountByNodeKeyPrefix {a : Bytes} {a2 : Bytes} {b : Bytes} {b2 : Bytes} {j : Nat}
    (ha : AddrOK a) (hb : AddrOK b) (ha2 : AddrOK a2) (hb2 : AddrOK b2) :
    List.isPrefixOf (subscription.GetPayoutForAccountByNodeKeyPrefix a a2) (subscription.PayoutForAccountByNodeKey b b2 j) = true ↔ a = b ∧ a2 = b2 := by
  rw [nf_subscription_GetPayoutForAccountByNodeKeyPrefix, nf_subscription_PayoutForAccountByNodeKey, iso_lp_lp _ ha hb ha2 hb2]

theorem prefix_isolates_session_GetSessionForAccountKeyPrefix {a : Bytes} {b : Bytes} {j : Nat}
    (ha : AddrOK a) (hb : AddrOK b) :
    List.isPrefixOf (session.GetSessionForAccountKeyPrefix a) (session.SessionForAccountKey b j) = true ↔ a = b := by
  rw [nf_session_GetSessionForAccountKeyPrefix, nf_session_SessionForAccountKey, iso_lp _ ha hb]

theorem prefix_isolates_session_GetSessionForNodeKeyPrefix {a : Bytes} {b : Bytes} {j : Nat}
    (ha : AddrOK a) (hb : AddrOK b) :
    List.isPrefixOf (session.GetSessionForNodeKeyPrefix a) (session.SessionForNodeKey b j) = true ↔ a = b := by
  rw [nf_session_GetSessionForNodeKeyPrefix, nf_session_SessionForNodeKey, iso_lp _ ha hb]

theorem prefix_isolates_session_GetSessionForSubscriptionKeyPrefix {i : Nat} {j : Nat} {j2 : Nat}
    (hi : i < B64) (hj : j < B64) :
    List.isPrefixOf (session.GetSessionForSubscriptionKeyPrefix i) (session.SessionForSubscriptionKey j j2) = true ↔ i = j := by
  rw [nf_session_GetSessionForSubscriptionKeyPrefix, nf_session_SessionForSubscriptionKey, iso_u64 _ hi hj]

theorem prefix_isolates_session_GetSessionForAllocationKeyPrefix {i : Nat} {a : Bytes} {j : Nat} {b : Bytes} {j2 : Nat}
    (hi : i < B64) (hj : j < B64) (ha : AddrOK a) (hb : AddrOK b) :
    List.isPrefixOf (session.GetSessionForAllocationKeyPrefix i a) (session.SessionForAllocationKey j b j2) = true ↔ i = j ∧ a = b := by
  rw [nf_session_GetSessionForAllocationKeyPrefix, nf_session_SessionForAllocationKey, iso_u64_lp _ hi hj ha hb]

theorem prefix_isolates_session_GetSessionForInactiveAtKeyPrefix {t : Time} {t' : Time} {j : Nat}
    (hlen : (formatTimeBytes t).length = 29) (hlen' : (formatTimeBytes t').length = 29) (hinj : formatTimeBytes t = formatTimeBytes t' → t = t') :
    List.isPrefixOf (session.GetSessionForInactiveAtKeyPrefix t) (session.SessionForInactiveAtKey t' j) = true ↔ t = t' := by
  rw [nf_session_GetSessionForInactiveAtKeyPrefix, nf_session_SessionForInactiveAtKey, iso_fix _ (hlen.trans hlen'.symm)]
  exact fmt_eq_iff hinj

/-- Listing the sessions of account `[3]` does not return the sessions of account `[3, 3]`, and does return
its own. -/
example (j : Nat) :
    List.isPrefixOf (session.GetSessionForAccountKeyPrefix [3]) (session.SessionForAccountKey [3, 3] j) = false := by
  refine Bool.eq_false_iff.mpr (fun h => ?_)
  exact absurd ((prefix_isolates_session_GetSessionForAccountKeyPrefix ⟨by decide, by decide⟩ ⟨by decide, by decide⟩).mp h)
    (by decide)
example (j : Nat) :
    List.isPrefixOf (session.GetSessionForAccountKeyPrefix [3, 3]) (session.SessionForAccountKey [3, 3] j) = true :=
  (prefix_isolates_session_GetSessionForAccountKeyPrefix ⟨by decide, by decide⟩ ⟨by decide, by decide⟩).mpr rfl
example (j2 : Nat) :
    ¬ (List.isPrefixOf (session.GetSessionForAllocationKeyPrefix 1 [3]) (session.SessionForAllocationKey 1 [3, 3] j2) = true) := fun h =>
  absurd ((prefix_isolates_session_GetSessionForAllocationKeyPrefix (by decide) (by decide)
    ⟨by decide, by decide⟩ ⟨by decide, by decide⟩).mp h).2 (by decide)

/-! ## 5. distinct tables of one store do not collide -/

/-- Neither is a prefix of the other. -/
def unrelated (P Q : Bytes) : Prop := List.isPrefixOf P Q = false ∧ List.isPrefixOf Q P = false

instance (P Q : Bytes) : Decidable (unrelated P Q) := by unfold unrelated; exact inferInstance

/-- Keys built under unrelated table prefixes are never equal and never prefix-related, whatever follows
the table prefix. -/
theorem keys_of_unrelated_tables {P Q : Bytes} (h : unrelated P Q) (x y : Bytes) :
    P ++ x ≠ Q ++ y ∧ List.isPrefixOf (P ++ x) (Q ++ y) = false ∧ List.isPrefixOf (Q ++ y) (P ++ x) = false := by
  refine ⟨ne_of_unrelated h.1 h.2 x y, ?_, ?_⟩
  · cases hb : List.isPrefixOf (P ++ x) (Q ++ y) with
    | false => rfl
    | true => exact absurd ((isPrefixOf_iff _ _).mp hb) (not_prefix_of_unrelated h.1 h.2 x y)
  · cases hb : List.isPrefixOf (Q ++ y) (P ++ x) with
    | false => rfl
    | true => exact absurd ((isPrefixOf_iff _ _).mp hb) (not_prefix_of_unrelated h.2 h.1 y x)

/-- The table prefixes of the `deposit` store are pairwise not prefix-related (first byte, or second byte under `0x10`). -/
theorem tables_distinct_deposit :
    [deposit.DepositKeyPrefix].Pairwise unrelated := by
  decide

/-- The table prefixes of the `provider` store are pairwise not prefix-related (first byte, or second byte under `0x10`). -/
theorem tables_distinct_provider :
    [provider.ActiveProviderKeyPrefix, provider.InactiveProviderKeyPrefix].Pairwise unrelated := by
  decide

/-- The documented exception: `ProviderKeyPrefix` (`0x10`) is the common prefix of the active and inactive partitions
(used to list both), and of nothing else. -/
theorem umbrella_provider :
    List.isPrefixOf provider.ProviderKeyPrefix provider.ActiveProviderKeyPrefix = true ∧
    List.isPrefixOf provider.ProviderKeyPrefix provider.InactiveProviderKeyPrefix = true := by
  decide

/-- The table prefixes of the `node` store are pairwise not prefix-related (first byte, or second byte under `0x10`). -/
theorem tables_distinct_node :
    [node.ActiveNodeKeyPrefix, node.InactiveNodeKeyPrefix, node.NodeForInactiveAtKeyPrefix, node.NodeForPlanKeyPrefix].Pairwise unrelated := by
  decide

/-- The documented exception: `NodeKeyPrefix` (`0x10`) is the common prefix of the active and inactive partitions
(used to list both), and of nothing else. -/
theorem umbrella_node :
    List.isPrefixOf node.NodeKeyPrefix node.ActiveNodeKeyPrefix = true ∧
    List.isPrefixOf node.NodeKeyPrefix node.InactiveNodeKeyPrefix = true ∧
    unrelated node.NodeKeyPrefix node.NodeForInactiveAtKeyPrefix ∧
    unrelated node.NodeKeyPrefix node.NodeForPlanKeyPrefix := by
  decide

/-- The table prefixes of the `plan` store are pairwise not prefix-related (first byte, or second byte under `0x10`). -/
theorem tables_distinct_plan :
    [plan.CountKey, plan.ActivePlanKeyPrefix, plan.InactivePlanKeyPrefix, plan.PlanForProviderKeyPrefix].Pairwise unrelated := by
  decide

/-- The documented exception: `PlanKeyPrefix` (`0x10`) is the common prefix of the active and inactive partitions
(used to list both), and of nothing else. -/
theorem umbrella_plan :
    List.isPrefixOf plan.PlanKeyPrefix plan.ActivePlanKeyPrefix = true ∧
    List.isPrefixOf plan.PlanKeyPrefix plan.InactivePlanKeyPrefix = true ∧
    unrelated plan.PlanKeyPrefix plan.CountKey ∧
    unrelated plan.PlanKeyPrefix plan.PlanForProviderKeyPrefix := by
  decide

/-- The table prefixes of the `subscription` store are pairwise not prefix-related (first byte, or second byte under `0x10`). -/
theorem tables_distinct_subscription :
    [subscription.CountKey, subscription.SubscriptionKeyPrefix, subscription.SubscriptionForInactiveAtKeyPrefix, subscription.SubscriptionForAccountKeyPrefix, subscription.SubscriptionForNodeKeyPrefix, subscription.SubscriptionForPlanKeyPrefix, subscription.AllocationKeyPrefix, subscription.PayoutKeyPrefix, subscription.PayoutForNextAtKeyPrefix, subscription.PayoutForAccountKeyPrefix, subscription.PayoutForNodeKeyPrefix, subscription.PayoutForAccountByNodeKeyPrefix].Pairwise unrelated := by
  decide

/-- The table prefixes of the `session` store are pairwise not prefix-related (first byte, or second byte under `0x10`). -/
theorem tables_distinct_session :
    [session.CountKey, session.SessionKeyPrefix, session.SessionForInactiveAtKeyPrefix, session.SessionForAccountKeyPrefix, session.SessionForNodeKeyPrefix, session.SessionForSubscriptionKeyPrefix, session.SessionForAllocationKeyPrefix].Pairwise unrelated := by
  decide

/-- The table prefixes of the `swap` store are pairwise not prefix-related (first byte, or second byte under `0x10`). -/
theorem tables_distinct_swap :
    [swap.SwapKeyPrefix].Pairwise unrelated := by
  decide

/-- The table prefixes of the `mint` store are pairwise not prefix-related (first byte, or second byte under `0x10`). -/
theorem tables_distinct_mint :
    [mint.InflationKeyPrefix].Pairwise unrelated := by
  decide

/-- Instances at the level of keys: a session-by-account key is never (a prefix of) a session-by-node key,
an active-node key never an inactive-node key, even for the same address. -/
example (a b : Bytes) (i j : Nat) : session.SessionForAccountKey a i ≠ session.SessionForNodeKey b j := by
  rw [nf_session_SessionForAccountKey, nf_session_SessionForNodeKey]
  exact (keys_of_unrelated_tables (by decide) _ _).1
example (a : Bytes) : List.isPrefixOf (node.ActiveNodeKey a) (node.InactiveNodeKey a) = false := by
  rw [nf_node_ActiveNodeKey, nf_node_InactiveNodeKey]
  exact (keys_of_unrelated_tables (by decide) _ _).2.1

/-! ## 6. queue_order -/

theorem queue_order_node_NodeForInactiveAtKey {t t' : Time} {a b : Bytes}
    (hlen : (formatTimeBytes t).length = 29) (hlen' : (formatTimeBytes t').length = 29)
    (hmono : bytesLt (formatTimeBytes t) (formatTimeBytes t') = true ↔ t < t')
    (hmono' : bytesLt (formatTimeBytes t') (formatTimeBytes t) = true ↔ t' < t) :
    bytesLt (node.NodeForInactiveAtKey t a) (node.NodeForInactiveAtKey t' b) = true ↔ (t < t' ∨ (t = t' ∧ bytesLt (lp a) (lp b) = true)) := by
  rw [nf_node_NodeForInactiveAtKey, nf_node_NodeForInactiveAtKey, lt_fix _ (hlen.trans hlen'.symm), hmono, fmt_eq_iff (fmt_inj_of_mono hmono hmono')]

theorem queue_order_subscription_SubscriptionForInactiveAtKey {t t' : Time} {i j : Nat}
    (hlen : (formatTimeBytes t).length = 29) (hlen' : (formatTimeBytes t').length = 29)
    (hmono : bytesLt (formatTimeBytes t) (formatTimeBytes t') = true ↔ t < t')
    (hmono' : bytesLt (formatTimeBytes t') (formatTimeBytes t) = true ↔ t' < t) (hi : i < B64) (hj : j < B64) :
    bytesLt (subscription.SubscriptionForInactiveAtKey t i) (subscription.SubscriptionForInactiveAtKey t' j) = true ↔ (t < t' ∨ (t = t' ∧ i < j)) := by
  rw [nf_subscription_SubscriptionForInactiveAtKey, nf_subscription_SubscriptionForInactiveAtKey, lt_fix _ (hlen.trans hlen'.symm), hmono, fmt_eq_iff (fmt_inj_of_mono hmono hmono'),
    bytesLt_u64be hi hj]

theorem queue_order_subscription_PayoutForNextAtKey {t t' : Time} {i j : Nat}
    (hlen : (formatTimeBytes t).length = 29) (hlen' : (formatTimeBytes t').length = 29)
    (hmono : bytesLt (formatTimeBytes t) (formatTimeBytes t') = true ↔ t < t')
    (hmono' : bytesLt (formatTimeBytes t') (formatTimeBytes t) = true ↔ t' < t) (hi : i < B64) (hj : j < B64) :
    bytesLt (subscription.PayoutForNextAtKey t i) (subscription.PayoutForNextAtKey t' j) = true ↔ (t < t' ∨ (t = t' ∧ i < j)) := by
  rw [nf_subscription_PayoutForNextAtKey, nf_subscription_PayoutForNextAtKey, lt_fix _ (hlen.trans hlen'.symm), hmono, fmt_eq_iff (fmt_inj_of_mono hmono hmono'),
    bytesLt_u64be hi hj]

theorem queue_order_session_SessionForInactiveAtKey {t t' : Time} {i j : Nat}
    (hlen : (formatTimeBytes t).length = 29) (hlen' : (formatTimeBytes t').length = 29)
    (hmono : bytesLt (formatTimeBytes t) (formatTimeBytes t') = true ↔ t < t')
    (hmono' : bytesLt (formatTimeBytes t') (formatTimeBytes t) = true ↔ t' < t) (hi : i < B64) (hj : j < B64) :
    bytesLt (session.SessionForInactiveAtKey t i) (session.SessionForInactiveAtKey t' j) = true ↔ (t < t' ∨ (t = t' ∧ i < j)) := by
  rw [nf_session_SessionForInactiveAtKey, nf_session_SessionForInactiveAtKey, lt_fix _ (hlen.trans hlen'.symm), hmono, fmt_eq_iff (fmt_inj_of_mono hmono hmono'),
    bytesLt_u64be hi hj]

/-- One nanosecond earlier sorts first even with the larger id; equal times sort by id. -/
example : bytesLt (session.SessionForInactiveAtKey 1700000000123456789 (2 ^ 64 - 1))
    (session.SessionForInactiveAtKey 1700000000123456790 0) = true :=
  (queue_order_session_SessionForInactiveAtKey (by decide) (by decide) (by decide) (by decide) (by decide) (by decide)).mpr
    (Or.inl (by decide))
example : bytesLt (subscription.PayoutForNextAtKey 1700000000123456789 255)
    (subscription.PayoutForNextAtKey 1700000000123456789 256) = true :=
  (queue_order_subscription_PayoutForNextAtKey (by decide) (by decide) (by decide) (by decide) (by decide) (by decide)).mpr
    (Or.inr ⟨rfl, by decide⟩)
/-- In the node queue equal deadlines sort by the *length-prefixed* address: the shorter address first. -/
example : bytesLt (node.NodeForInactiveAtKey 1700000000123456789 [9])
    (node.NodeForInactiveAtKey 1700000000123456789 [3, 3]) = true :=
  (queue_order_node_NodeForInactiveAtKey (by decide) (by decide) (by decide) (by decide)).mpr (Or.inr ⟨rfl, by decide⟩)

/-! ## 7. scan range of the deadline hooks

The hooks iterate `[QueuePrefix, prefixEnd (GetPrefix t))` with `t` the block time.  `scan_end_*` says this
end key always exists (the prefix starts with `0x11`/`0x31`, not `0xff`); `scan_range_*` says the range holds
exactly the queue entries with deadline `≤ t` (**inclusive**). -/

theorem scan_end_node_GetNodeForInactiveAtKeyPrefix (t : Time) : ∃ e, prefixEnd (node.GetNodeForInactiveAtKeyPrefix t) = some e := by
  rw [nf_node_GetNodeForInactiveAtKeyPrefix]
  exact prefixEnd_isSome_of_head_ne _ _ (by decide)

theorem scan_range_node_NodeForInactiveAtKey {t t' : Time} {a : Bytes} {e : Bytes}
    (hlen : (formatTimeBytes t).length = 29) (hlen' : (formatTimeBytes t').length = 29)
    (hmono : bytesLt (formatTimeBytes t) (formatTimeBytes t') = true ↔ t < t')
    (hmono' : bytesLt (formatTimeBytes t') (formatTimeBytes t) = true ↔ t' < t)
    (he : prefixEnd (node.GetNodeForInactiveAtKeyPrefix t) = some e) :
    (bytesLe node.NodeForInactiveAtKeyPrefix (node.NodeForInactiveAtKey t' a) = true ∧ bytesLt (node.NodeForInactiveAtKey t' a) e = true) ↔ t' ≤ t := by
  rw [nf_node_GetNodeForInactiveAtKeyPrefix] at he
  rw [nf_node_NodeForInactiveAtKey, scan_range _ (hlen'.trans hlen.symm) _ he]
  exact fmt_le_iff hmono hmono'

/-- The scanned range holds keys of this queue only (it ends below the next table prefix). -/
theorem scan_in_table_node_NodeForInactiveAtKey {t : Time} {e k : Bytes}
    (he : prefixEnd (node.GetNodeForInactiveAtKeyPrefix t) = some e)
    (h1 : bytesLe node.NodeForInactiveAtKeyPrefix k = true) (h2 : bytesLt k e = true) : List.isPrefixOf node.NodeForInactiveAtKeyPrefix k = true := by
  rw [nf_node_GetNodeForInactiveAtKeyPrefix] at he
  cases hP : prefixEnd node.NodeForInactiveAtKeyPrefix with
  | none => exact absurd hP (by decide)
  | some eP => exact (isPrefixOf_iff _ _).mpr (scan_within_table _ hP he h1 h2)

theorem scan_end_subscription_GetSubscriptionForInactiveAtKeyPrefix (t : Time) : ∃ e, prefixEnd (subscription.GetSubscriptionForInactiveAtKeyPrefix t) = some e := by
  rw [nf_subscription_GetSubscriptionForInactiveAtKeyPrefix]
  exact prefixEnd_isSome_of_head_ne _ _ (by decide)

theorem scan_range_subscription_SubscriptionForInactiveAtKey {t t' : Time} {i : Nat} {e : Bytes}
    (hlen : (formatTimeBytes t).length = 29) (hlen' : (formatTimeBytes t').length = 29)
    (hmono : bytesLt (formatTimeBytes t) (formatTimeBytes t') = true ↔ t < t')
    (hmono' : bytesLt (formatTimeBytes t') (formatTimeBytes t) = true ↔ t' < t)
    (he : prefixEnd (subscription.GetSubscriptionForInactiveAtKeyPrefix t) = some e) :
    (bytesLe subscription.SubscriptionForInactiveAtKeyPrefix (subscription.SubscriptionForInactiveAtKey t' i) = true ∧ bytesLt (subscription.SubscriptionForInactiveAtKey t' i) e = true) ↔ t' ≤ t := by
  rw [nf_subscription_GetSubscriptionForInactiveAtKeyPrefix] at he
  rw [nf_subscription_SubscriptionForInactiveAtKey, scan_range _ (hlen'.trans hlen.symm) _ he]
  exact fmt_le_iff hmono hmono'

/-- The scanned range holds keys of this queue only (it ends below the next table prefix). -/
theorem scan_in_table_subscription_SubscriptionForInactiveAtKey {t : Time} {e k : Bytes}
    (he : prefixEnd (subscription.GetSubscriptionForInactiveAtKeyPrefix t) = some e)
    (h1 : bytesLe subscription.SubscriptionForInactiveAtKeyPrefix k = true) (h2 : bytesLt k e = true) : List.isPrefixOf subscription.SubscriptionForInactiveAtKeyPrefix k = true := by
  rw [nf_subscription_GetSubscriptionForInactiveAtKeyPrefix] at he
  cases hP : prefixEnd subscription.SubscriptionForInactiveAtKeyPrefix with
  | none => exact absurd hP (by decide)
  | some eP => exact (isPrefixOf_iff _ _).mpr (scan_within_table _ hP he h1 h2)

theorem scan_end_subscription_GetPayoutForNextAtKeyPrefix (t : Time) : ∃ e, prefixEnd (subscription.GetPayoutForNextAtKeyPrefix t) = some e := by
  rw [nf_subscription_GetPayoutForNextAtKeyPrefix]
  exact prefixEnd_isSome_of_head_ne _ _ (by decide)

theorem scan_range_subscription_PayoutForNextAtKey {t t' : Time} {i : Nat} {e : Bytes}
    (hlen : (formatTimeBytes t).length = 29) (hlen' : (formatTimeBytes t').length = 29)
    (hmono : bytesLt (formatTimeBytes t) (formatTimeBytes t') = true ↔ t < t')
    (hmono' : bytesLt (formatTimeBytes t') (formatTimeBytes t) = true ↔ t' < t)
    (he : prefixEnd (subscription.GetPayoutForNextAtKeyPrefix t) = some e) :
    (bytesLe subscription.PayoutForNextAtKeyPrefix (subscription.PayoutForNextAtKey t' i) = true ∧ bytesLt (subscription.PayoutForNextAtKey t' i) e = true) ↔ t' ≤ t := by
  rw [nf_subscription_GetPayoutForNextAtKeyPrefix] at he
  rw [nf_subscription_PayoutForNextAtKey, scan_range _ (hlen'.trans hlen.symm) _ he]
  exact fmt_le_iff hmono hmono'

/-- The scanned range holds keys of this queue only (it ends below the next table prefix). -/
theorem scan_in_table_subscription_PayoutForNextAtKey {t : Time} {e k : Bytes}
    (he : prefixEnd (subscription.GetPayoutForNextAtKeyPrefix t) = some e)
    (h1 : bytesLe subscription.PayoutForNextAtKeyPrefix k = true) (h2 : bytesLt k e = true) : List.isPrefixOf subscription.PayoutForNextAtKeyPrefix k = true := by
  rw [nf_subscription_GetPayoutForNextAtKeyPrefix] at he
  cases hP : prefixEnd subscription.PayoutForNextAtKeyPrefix with
  | none => exact absurd hP (by decide)
  | some eP => exact (isPrefixOf_iff _ _).mpr (scan_within_table _ hP he h1 h2)

theorem scan_end_session_GetSessionForInactiveAtKeyPrefix (t : Time) : ∃ e, prefixEnd (session.GetSessionForInactiveAtKeyPrefix t) = some e := by
  rw [nf_session_GetSessionForInactiveAtKeyPrefix]
  exact prefixEnd_isSome_of_head_ne _ _ (by decide)

theorem scan_range_session_SessionForInactiveAtKey {t t' : Time} {i : Nat} {e : Bytes}
    (hlen : (formatTimeBytes t).length = 29) (hlen' : (formatTimeBytes t').length = 29)
    (hmono : bytesLt (formatTimeBytes t) (formatTimeBytes t') = true ↔ t < t')
    (hmono' : bytesLt (formatTimeBytes t') (formatTimeBytes t) = true ↔ t' < t)
    (he : prefixEnd (session.GetSessionForInactiveAtKeyPrefix t) = some e) :
    (bytesLe session.SessionForInactiveAtKeyPrefix (session.SessionForInactiveAtKey t' i) = true ∧ bytesLt (session.SessionForInactiveAtKey t' i) e = true) ↔ t' ≤ t := by
  rw [nf_session_GetSessionForInactiveAtKeyPrefix] at he
  rw [nf_session_SessionForInactiveAtKey, scan_range _ (hlen'.trans hlen.symm) _ he]
  exact fmt_le_iff hmono hmono'

/-- The scanned range holds keys of this queue only (it ends below the next table prefix). -/
theorem scan_in_table_session_SessionForInactiveAtKey {t : Time} {e k : Bytes}
    (he : prefixEnd (session.GetSessionForInactiveAtKeyPrefix t) = some e)
    (h1 : bytesLe session.SessionForInactiveAtKeyPrefix k = true) (h2 : bytesLt k e = true) : List.isPrefixOf session.SessionForInactiveAtKeyPrefix k = true := by
  rw [nf_session_GetSessionForInactiveAtKeyPrefix] at he
  cases hP : prefixEnd session.SessionForInactiveAtKeyPrefix with
  | none => exact absurd hP (by decide)
  | some eP => exact (isPrefixOf_iff _ _).mpr (scan_within_table _ hP he h1 h2)

/-- The entry due exactly at the block time is inside the scanned range, the one due a nanosecond later is not. -/
example {e : Bytes} (he : prefixEnd (session.GetSessionForInactiveAtKeyPrefix 1700000000123456789) = some e) :
    bytesLt (session.SessionForInactiveAtKey 1700000000123456789 (2 ^ 64 - 1)) e = true :=
  ((scan_range_session_SessionForInactiveAtKey (by decide) (by decide) (by decide) (by decide) he).mpr (by decide)).2
example {e : Bytes} (he : prefixEnd (session.GetSessionForInactiveAtKeyPrefix 1700000000123456789) = some e) :
    ¬ (bytesLt (session.SessionForInactiveAtKey 1700000000123456790 0) e = true) := fun h =>
  absurd ((scan_range_session_SessionForInactiveAtKey (t' := 1700000000123456790) (i := 0)
    (by decide) (by decide) (by decide) (by decide) he).mp ⟨by decide, h⟩) (by decide)

end Hub.Props.C17
