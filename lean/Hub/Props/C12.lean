import Hub.Lemmas.Genesis
/-
C12 — The genesis exported from any reachable state passes genesis validation, and a fresh chain
initialised from it answers every query like the original and processes any further history with
the same results; no record later block processing depends on is lost or altered.

The property does NOT hold on this tree (known findings, replayed on the real application by the
corpus files named below):
  F5  subscription `ExportGenesis`/`InitGenesis` are stubs: subscriptions, allocations, payouts, their
      indices and the subscription counter are dropped        (corpus/C12_F5_subscriptions_lost.ops)
  F9  session `InitGenesis` rebuilds the counter from the largest live id (corpus/C12_F9_session_counter_reissued.ops)
  F4  a swap is recorded as amount/100 but `Swap.Validate` demands ≥ 100  (corpus/C12_F4_small_swap_invalid.ops)
  F7  the JSON path cannot parse its own `"status":"active"` (out of scope here: struct-level import)
and one former cause is gone:
  F8  (fixed) a fully refunded deposit record is deleted       (corpus/C12_F8_emptied_deposit_deleted.ops)

So the full statement is kept as `export_valid_and_equivalent : Prop`; what is proved is
`roundtrip_partial` (export valid + agreement on everything except the subscription tables and the two
counters the code rebuilds), the general loss theorems, the witnesses, and the continuation
equivalence for one block step of the surviving component.
-/
namespace Hub.Props.C12
open Hub.SDK Hub.Model
open Hub.Generated (Status)
open Hub.Generated.Keys

/-! ## The full statement -/

/-- A state reached from a genesis of the configuration domain by some history. -/
def Reachable (s : State) : Prop := ∃ (g : Genesis) (h : List Op), run g.state h = some s

/-- Block boundary: the last operation was the end of a block (the transient store is clear). -/
def AtBoundary (s : State) : Prop := s.modified = {}

/-- Two tables with the same content (tables are association lists; their order is not observable:
every read sorts by key). -/
def SameTbl {κ α : Type} [DecidableEq κ] (t t' : Tbl κ α) : Prop := ∀ k, t'.get k = t.get k

/-- `s'` holds exactly the records `s` holds, in every table of the three hub stores, and the same
SDK-side state. -/
structure SameState (s s' : State) : Prop where
  deposits : SameTbl s.deposits s'.deposits
  provActive : SameTbl s.provActive s'.provActive
  provInactive : SameTbl s.provInactive s'.provInactive
  nodeActive : SameTbl s.nodeActive s'.nodeActive
  nodeInactive : SameTbl s.nodeInactive s'.nodeInactive
  nodeQ : SameTbl s.nodeQ s'.nodeQ
  nodeForPlan : SameTbl s.nodeForPlan s'.nodeForPlan
  planActive : SameTbl s.planActive s'.planActive
  planInactive : SameTbl s.planInactive s'.planInactive
  planForProv : SameTbl s.planForProv s'.planForProv
  planCount : s'.planCount = s.planCount
  subs : SameTbl s.subs s'.subs
  subQ : SameTbl s.subQ s'.subQ
  subForAcc : SameTbl s.subForAcc s'.subForAcc
  subForNode : SameTbl s.subForNode s'.subForNode
  subForPlan : SameTbl s.subForPlan s'.subForPlan
  allocs : SameTbl s.allocs s'.allocs
  payouts : SameTbl s.payouts s'.payouts
  payQ : SameTbl s.payQ s'.payQ
  payForAcc : SameTbl s.payForAcc s'.payForAcc
  payForNode : SameTbl s.payForNode s'.payForNode
  payForAccNode : SameTbl s.payForAccNode s'.payForAccNode
  subCount : s'.subCount = s.subCount
  sessions : SameTbl s.sessions s'.sessions
  sessQ : SameTbl s.sessQ s'.sessQ
  sessForAcc : SameTbl s.sessForAcc s'.sessForAcc
  sessForNode : SameTbl s.sessForNode s'.sessForNode
  sessForSub : SameTbl s.sessForSub s'.sessForSub
  sessForAlloc : SameTbl s.sessForAlloc s'.sessForAlloc
  sessCount : s'.sessCount = s.sessCount
  swaps : SameTbl s.swaps s'.swaps
  inflations : SameTbl s.inflations s'.inflations
  params : s'.params = s.params
  bank : s'.bank = s.bank
  supply : s'.supply = s.supply
  time : s'.time = s.time
  height : s'.height = s.height
  keyed : s'.keyed = s.keyed
  mint : s'.mintMax = s.mintMax ∧ s'.mintMin = s.mintMin ∧ s'.mintRate = s.mintRate ∧ s'.minterInfl = s.minterInfl

/-- What an observer sees of a history: for every operation the emitted events and the canonical dump
(sorted lines: independent of table order) of the state after it; a halt ends the trace. -/
def observe (s : State) (h : List Op) : List (List Event × List String) :=
  (runTrace s h).map fun s' => (s'.events, dump s')

/-- C12 at full strength: at every block boundary of every reachable state the export validates, the
re-import succeeds, the new state holds the same records in EVERY table, and every continuation is
processed with the same results. FALSE on this tree (F4, F5, F9): see the witnesses below. -/
def export_valid_and_equivalent : Prop :=
  ∀ s, Reachable s → AtBoundary s →
    exportPanics s = false ∧
    validateGenesis (exportVpn s) (exportSwap s) (exportMint s) = none ∧
    ∃ s', reimport s = some s' ∧ SameState s s' ∧ ∀ h, observe s' h = observe s h

/-! ## Well-formedness of the state at the export point

All of it holds in reachable states: the handlers keep every record under its own key and partition,
maintain each index together with its record, issue plan identifiers sequentially and never delete a
plan; `ValidateBasic` and the parameter validators keep stored records and parameters valid. Two
fields are exactly the hypotheses the known findings are about: `swapValid` contains
`100 ≤ amount` of every recorded swap (F4: NOT guaranteed by the code), `depValid` contains
"no deposit record is empty" (F8: guaranteed since the fix). -/
structure GenWF (s : State) : Prop where
  depNodup : Tbl.Nodup s.deposits
  linkNodup : Tbl.Nodup s.nodeForPlan
  sessNodup : Tbl.Nodup s.sessions
  swapNodup : Tbl.Nodup s.swaps
  inflNodup : Tbl.Nodup s.inflations
  /-- providers: own key, own partition, one partition only -/
  prov : PartOK s.provActive s.provInactive (·.addr) (·.status)
  node : PartOK s.nodeActive s.nodeInactive (·.addr) (·.status)
  plan : PartOK s.planActive s.planInactive (·.id) (·.status)
  sessKey : ∀ i x, s.sessions.get i = some x → x.id = i
  swapKey : ∀ h w, s.swaps.get h = some w → w.hash = h
  inflKey : ∀ t i, s.inflations.get t = some i → i.ts = t
  /-- the node queue holds exactly the active nodes at their deadline -/
  nodeQ : ∀ t a, s.nodeQ.get (t, a) = some () ↔ ∃ n, s.nodeActive.get a = some n ∧ n.inactiveAt = t
  /-- the provider index holds exactly the plans by provider -/
  planIdx : ∀ a i, s.planForProv.get (a, i) = some () ↔
    ∃ p, (s.planActive.get i = some p ∨ s.planInactive.get i = some p) ∧ p.prov = a
  /-- links refer to existing plans and nodes (there is no plan or node deletion) -/
  links : ∀ i a, s.nodeForPlan.get (i, a) = some () →
    (∃ p, s.planActive.get i = some p ∨ s.planInactive.get i = some p) ∧
    (∃ n, s.nodeActive.get a = some n ∨ s.nodeInactive.get a = some n)
  /-- the session queue and the four session indices are the projections of the session table -/
  sessQ : ∀ t i, s.sessQ.get (t, i) = some () ↔ ∃ x, s.sessions.get i = some x ∧ x.inactiveAt = t
  sessAcc : ∀ a i, s.sessForAcc.get (a, i) = some () ↔ ∃ x, s.sessions.get i = some x ∧ x.addr = a
  sessNode : ∀ a i, s.sessForNode.get (a, i) = some () ↔ ∃ x, s.sessions.get i = some x ∧ x.node = a
  sessSub : ∀ b i, s.sessForSub.get (b, i) = some () ↔ ∃ x, s.sessions.get i = some x ∧ x.sub = b
  sessAlloc : ∀ b a i, s.sessForAlloc.get (b, a, i) = some () ↔ ∃ x, s.sessions.get i = some x ∧ x.sub = b ∧ x.addr = a
  /-- the plan counter is the largest plan identifier (0 when there is none): identifiers are issued
  sequentially and plans are never deleted -/
  planCount : ∃ c, s.planCount = some c ∧
    (∀ i p, (s.planActive.get i = some p ∨ s.planInactive.get i = some p) → i ≤ c) ∧
    (c = 0 ∨ ∃ p, s.planActive.get c = some p ∨ s.planInactive.get c = some p)
  /-- every stored record passes its own `Validate` -/
  depValid : ∀ a cs, s.deposits.get a = some cs → validateDeposit (a, cs) = none
  provValid : ∀ a p, (s.provActive.get a = some p ∨ s.provInactive.get a = some p) → p.validate = none
  nodeValid : ∀ a n, (s.nodeActive.get a = some n ∨ s.nodeInactive.get a = some n) → n.validate = none
  planValid : ∀ i p, (s.planActive.get i = some p ∨ s.planInactive.get i = some p) → p.validate = none
  sessValid : ∀ i x, s.sessions.get i = some x → x.validate = none
  swapValid : ∀ h w, s.swaps.get h = some w → w.validate = none
  inflValid : ∀ t i, s.inflations.get t = some i → i.validate = none
  paramsValid : s.params.provider.validate = none ∧ s.params.node.validate = none ∧ s.params.subscription.validate = none ∧
    s.params.session.validate = none ∧ s.params.swap.validate = none

/-- The two hypotheses the findings are about, spelled out. -/
theorem GenWF.swap_ge_100 {s : State} (h : GenWF s) {k : Bytes} {w : Swap} (hw : s.swaps.get k = some w) : 100 ≤ w.amt.amount := by
  have := h.swapValid k w hw
  unfold Swap.validate at this
  rw [firstOf_eq_none] at this
  have := this (chk (decide (100 ≤ w.amt.amount)) "amount cannot be less than 100") (by simp)
  rw [chk_eq_none] at this
  exact of_decide_eq_true this

theorem GenWF.deposit_nonempty {s : State} (h : GenWF s) {a : Addr} {cs : Coins} (hc : s.deposits.get a = some cs) : cs ≠ [] := by
  have := h.depValid a cs hc
  unfold validateDeposit at this
  rw [firstOf_eq_none] at this
  have := this (chk (cs.length ≠ 0) "coins cannot be empty") (by simp)
  rw [chk_eq_none] at this
  intro e; subst e; simp at this

/-! ## What the round trip keeps -/

/-- Everything `SameState` demands except the subscription tables, the subscription counter and the
session counter. -/
structure Agree (s s' : State) : Prop where
  deposits : SameTbl s.deposits s'.deposits
  provActive : SameTbl s.provActive s'.provActive
  provInactive : SameTbl s.provInactive s'.provInactive
  nodeActive : SameTbl s.nodeActive s'.nodeActive
  nodeInactive : SameTbl s.nodeInactive s'.nodeInactive
  nodeQ : SameTbl s.nodeQ s'.nodeQ
  nodeForPlan : SameTbl s.nodeForPlan s'.nodeForPlan
  planActive : SameTbl s.planActive s'.planActive
  planInactive : SameTbl s.planInactive s'.planInactive
  planForProv : SameTbl s.planForProv s'.planForProv
  planCount : s'.planCount = s.planCount
  sessions : SameTbl s.sessions s'.sessions
  sessQ : SameTbl s.sessQ s'.sessQ
  sessForAcc : SameTbl s.sessForAcc s'.sessForAcc
  sessForNode : SameTbl s.sessForNode s'.sessForNode
  sessForSub : SameTbl s.sessForSub s'.sessForSub
  sessForAlloc : SameTbl s.sessForAlloc s'.sessForAlloc
  swaps : SameTbl s.swaps s'.swaps
  inflations : SameTbl s.inflations s'.inflations
  params : s'.params = s.params
  bank : s'.bank = s.bank
  supply : s'.supply = s.supply
  time : s'.time = s.time
  height : s'.height = s.height
  keyed : s'.keyed = s.keyed
  mint : s'.mintMax = s.mintMax ∧ s'.mintMin = s.mintMin ∧ s'.mintRate = s.mintRate ∧ s'.minterInfl = s.minterInfl

/-! ## The exported genesis of a well-formed state is valid -/

section valid
variable {s : State}

theorem linked_nodes_present (h : GenWF s) (i : Nat) (a : Addr) (hl : s.nodeForPlan.get (i, a) = some ()) :
    ∃ n, s.nodeActive.get a = some n ∨ s.nodeInactive.get a = some n := (h.links i a hl).2

theorem export_no_panic (h : GenWF s) : exportPanics s = false := by
  unfold exportPanics
  rw [List.any_eq_false]
  intro p _
  rw [Bool.not_eq_true, List.any_eq_false]
  intro a ha
  obtain ⟨n, hn⟩ := linked_nodes_present h p.id a (mem_linkedAddrs.mp ha)
  rw [(getNode_iff h.node).mpr hn]; simp

theorem deposits_valid (h : GenWF s) : validateDepositGenesis (exportTbl deposit.DepositKey s.deposits) = none := by
  unfold validateDepositGenesis
  rw [firstOf_eq_none]
  intro x hx
  simp only [List.mem_cons, List.not_mem_nil, or_false] at hx
  rcases hx with rfl | rfl
  · rw [chk_eq_none, not_hasDup]; exact exportTbl_nodup _ h.depNodup
  · rw [firstErr_eq_none]
    rintro ⟨a, cs⟩ hd
    exact h.depValid a cs (mem_exportTbl.mp hd)

theorem providers_valid (h : GenWF s) : validateProviderGenesis (exportProviders s) s.params.provider = none := by
  unfold validateProviderGenesis
  rw [firstOf_eq_none]
  intro x hx
  simp only [List.mem_cons, List.not_mem_nil, or_false] at hx
  rcases hx with rfl | rfl | rfl
  · exact h.paramsValid.1
  · rw [chk_eq_none, not_hasDup]; exact h.prov.keys_nodup _ _
  · rw [firstErr_eq_none]
    intro p hp
    obtain ⟨a, ha⟩ := (PartOK.mem _ _).mp hp
    exact h.provValid a p ha

theorem nodes_valid (h : GenWF s) : validateNodeGenesis (exportNodes s) s.params.node = none := by
  unfold validateNodeGenesis
  rw [firstOf_eq_none]
  intro x hx
  simp only [List.mem_cons, List.not_mem_nil, or_false] at hx
  rcases hx with rfl | rfl | rfl
  · exact h.paramsValid.2.1
  · rw [chk_eq_none, not_hasDup]; exact h.node.keys_nodup _ _
  · rw [firstErr_eq_none]
    intro p hp
    obtain ⟨a, ha⟩ := (PartOK.mem _ _).mp hp
    exact h.nodeValid a p ha

theorem plans_valid (h : GenWF s) : validatePlanGenesis (exportPlans s) = none := by
  unfold validatePlanGenesis
  rw [firstOf_eq_none]
  intro x hx
  simp only [List.mem_cons, List.not_mem_nil, or_false] at hx
  rcases hx with rfl | rfl | rfl
  · rw [chk_eq_none, not_hasDup]
    have : (exportPlans s).map (·.plan.id) = (exportPlanRecs s).map (·.id) := by
      unfold exportPlans; rw [List.map_map]; rfl
    rw [this]; exact h.plan.keys_nodup _ _
  · rw [firstErr_eq_none]
    intro it hit
    unfold exportPlans at hit
    obtain ⟨p, _, rfl⟩ := List.mem_map.mp hit
    rw [chk_eq_none, not_hasDup]
    show (exportPlanNodes s p.id).Nodup
    rw [exportPlanNodes_eq h.node p.id (linked_nodes_present h p.id)]
    exact linkedAddrs_nodup h.linkNodup _
  · rw [firstErr_eq_none]
    intro it hit
    unfold exportPlans at hit
    obtain ⟨p, hp, rfl⟩ := List.mem_map.mp hit
    obtain ⟨i, hi⟩ := (PartOK.mem _ _).mp hp
    exact h.planValid i p hi

theorem sessions_valid (h : GenWF s) : validateSessionGenesis (exportVals session.SessionKey s.sessions) s.params.session = none := by
  unfold validateSessionGenesis
  rw [firstOf_eq_none]
  intro x hx
  simp only [List.mem_cons, List.not_mem_nil, or_false] at hx
  rcases hx with rfl | rfl | rfl
  · exact h.paramsValid.2.2.2.1
  · rw [chk_eq_none, not_hasDup, exportVals_keys _ _ h.sessKey]; exact exportTbl_nodup _ h.sessNodup
  · rw [firstErr_eq_none]
    intro x hx
    obtain ⟨i, hi⟩ := mem_exportVals.mp hx
    exact h.sessValid i x hi

theorem vpn_valid (h : GenWF s) : validateVpn (exportVpn s) = none := by
  unfold validateVpn
  rw [firstOf_eq_none]
  intro x hx
  simp only [List.mem_cons, List.not_mem_nil, or_false] at hx
  rcases hx with rfl | rfl | rfl | rfl | rfl | rfl <;> rw [pfx_eq_none]
  · exact deposits_valid h
  · exact providers_valid h
  · exact nodes_valid h
  · exact plans_valid h
  · show validateSubscriptionGenesis [] s.params.subscription = none
    unfold validateSubscriptionGenesis
    rw [firstOf_eq_none]
    intro y hy
    simp only [List.mem_cons, List.not_mem_nil, or_false] at hy
    rcases hy with rfl | rfl
    · exact h.paramsValid.2.2.1
    · rfl
  · exact sessions_valid h

theorem swap_valid (h : GenWF s) : validateSwap (exportSwap s) = none := by
  unfold validateSwap
  rw [firstOf_eq_none]
  intro x hx
  simp only [List.mem_cons, List.not_mem_nil, or_false] at hx
  rcases hx with rfl | rfl | rfl
  · exact h.paramsValid.2.2.2.2
  · rw [chk_eq_none, not_hasDup]
    show ((exportVals swap.SwapKey s.swaps).map (·.hash)).Nodup
    rw [exportVals_keys _ _ h.swapKey]; exact exportTbl_nodup _ h.swapNodup
  · rw [firstErr_eq_none]
    intro x hx
    obtain ⟨i, hi⟩ := mem_exportVals.mp hx
    exact h.swapValid i x hi

theorem mint_valid (h : GenWF s) : validateMint (exportMint s) = none := by
  unfold validateMint
  rw [firstOf_eq_none]
  intro x hx
  simp only [List.mem_cons, List.not_mem_nil, or_false] at hx
  rcases hx with rfl | rfl
  · rw [chk_eq_none, not_hasDup]
    show ((exportVals mint.InflationKey s.inflations).map (·.ts)).Nodup
    rw [exportVals_keys _ _ h.inflKey]; exact exportTbl_nodup _ h.inflNodup
  · rw [firstErr_eq_none]
    intro x hx
    obtain ⟨i, hi⟩ := mem_exportVals.mp hx
    exact h.inflValid i x hi

/-- The exported genesis of a well-formed state passes `Validate` of all three modules. -/
theorem export_valid (h : GenWF s) : validateGenesis (exportVpn s) (exportSwap s) (exportMint s) = none := by
  unfold validateGenesis
  rw [firstOf_eq_none]
  intro x hx
  simp only [List.mem_cons, List.not_mem_nil, or_false] at hx
  rcases hx with rfl | rfl | rfl <;> rw [pfx_eq_none]
  · exact vpn_valid h
  · exact swap_valid h
  · exact mint_valid h

end valid

/-! ## The re-import succeeds and keeps the surviving component -/

section agree
variable {s : State}

/-- The re-import of a well-formed state succeeds, with the state `imported s`. -/
theorem reimport_ok (h : GenWF s) : reimport s = some (imported s) := by
  unfold reimport
  rw [export_no_panic h, export_valid h]
  simp only [Bool.false_eq_true, if_false]
  rw [initGenesis_exported s (h.node.status _ _) ?_ (h.prov.status _ _)]
  intro it hit
  unfold exportPlans at hit
  obtain ⟨p, hp, rfl⟩ := List.mem_map.mp hit
  exact h.plan.status _ _ p hp

theorem imported_plan_lists (s : State) :
    (((exportPlans s).filter (isActive (·.plan.status))).map fun it => (it.plan.id, it.plan)) =
      (((exportPlanRecs s).filter (isActive (·.status))).map fun p => (p.id, p)) ∧
    (((exportPlans s).filter (isInactive (·.plan.status))).map fun it => (it.plan.id, it.plan)) =
      (((exportPlanRecs s).filter (isInactive (·.status))).map fun p => (p.id, p)) := by
  unfold exportPlans
  constructor <;> rw [List.filter_map, List.map_map] <;> rfl

theorem mem_exportPlans_iff {s : State} {it : GenesisPlan} :
    it ∈ exportPlans s ↔ ∃ p ∈ exportPlanRecs s, it = { plan := p, nodes := exportPlanNodes s p.id } := by
  unfold exportPlans
  rw [List.mem_map]
  constructor
  · rintro ⟨p, hp, rfl⟩; exact ⟨p, hp, rfl⟩
  · rintro ⟨p, hp, rfl⟩; exact ⟨p, hp, rfl⟩

theorem agree_imported (h : GenWF s) : Agree s (imported s) := by
  have hsdk := imported_sdk s
  refine { deposits := ?_, provActive := ?_, provInactive := ?_, nodeActive := ?_, nodeInactive := ?_, nodeQ := ?_,
           nodeForPlan := ?_, planActive := ?_, planInactive := ?_, planForProv := ?_, planCount := ?_, sessions := ?_,
           sessQ := ?_, sessForAcc := ?_, sessForNode := ?_, sessForSub := ?_, sessForAlloc := ?_, swaps := ?_,
           inflations := ?_, params := imported_params s, bank := hsdk.1, supply := hsdk.2.1, time := hsdk.2.2.1,
           height := hsdk.2.2.2.1, keyed := hsdk.2.2.2.2.1,
           mint := ⟨hsdk.2.2.2.2.2.1, hsdk.2.2.2.2.2.2.1, hsdk.2.2.2.2.2.2.2.1, hsdk.2.2.2.2.2.2.2.2.1⟩ }
  · intro k; rw [imported_deposits]; exact get_import_exportTbl _ h.depNodup k
  · intro k; rw [imported_provActive]; exact h.prov.get_active _ _ k
  · intro k; rw [imported_provInactive]; exact h.prov.get_inactive _ _ k
  · intro k; rw [imported_nodeActive]; exact h.node.get_active _ _ k
  · intro k; rw [imported_nodeInactive]; exact h.node.get_inactive _ _ k
  · -- node queue: the active nodes at their deadline
    rintro ⟨t, a⟩
    rw [imported_nodeQ]
    apply Tbl.get_unit_ext
    rw [Tbl.get_keysOn, h.nodeQ t a]
    unfold exportNodes
    rw [(h.node.filters _ _).1]
    simp only [List.mem_map, Prod.mk.injEq, Tbl.get_nil, or_false, reduceCtorEq]
    constructor
    · rintro ⟨n, hn, ht, ha⟩
      obtain ⟨k, hk⟩ := mem_exportVals.mp hn
      have := (h.node.ownA k n hk).1
      simp only at this
      rw [← ha, this]; exact ⟨n, hk, ht⟩
    · rintro ⟨n, hn, ht⟩
      exact ⟨n, mem_exportVals.mpr ⟨a, hn⟩, ht, (h.node.ownA a n hn).1⟩
  · -- links
    rintro ⟨i, a⟩
    rw [imported_nodeForPlan]
    apply Tbl.get_unit_ext
    rw [Tbl.get_keysOn]
    simp only [planLinks, List.mem_flatMap, List.mem_map, Prod.mk.injEq, Tbl.get_nil, or_false, reduceCtorEq]
    constructor
    · rintro ⟨it, hit, a', ha', hi, rfl⟩
      obtain ⟨p, hp, rfl⟩ := mem_exportPlans_iff.mp hit
      simp only at ha' hi
      rw [exportPlanNodes_eq h.node p.id (linked_nodes_present h p.id)] at ha'
      rw [← hi]; exact mem_linkedAddrs.mp ha'
    · intro hl
      obtain ⟨⟨p, hp⟩, _⟩ := h.links i a hl
      have hid : p.id = i := by
        rcases hp with hp | hp
        · exact (h.plan.ownA i p hp).1
        · exact (h.plan.ownI i p hp).1
      refine ⟨{ plan := p, nodes := exportPlanNodes s p.id }, mem_exportPlans_iff.mpr ⟨p, (PartOK.mem _ _).mpr ⟨i, hp⟩, rfl⟩, a, ?_, hid, rfl⟩
      show a ∈ exportPlanNodes s p.id
      rw [exportPlanNodes_eq h.node p.id (linked_nodes_present h p.id), hid]
      exact mem_linkedAddrs.mpr hl
  · intro k; rw [imported_planActive, (imported_plan_lists s).1]; exact h.plan.get_active _ _ k
  · intro k; rw [imported_planInactive, (imported_plan_lists s).2]; exact h.plan.get_inactive _ _ k
  · -- provider index
    rintro ⟨a, i⟩
    rw [imported_planForProv]
    apply Tbl.get_unit_ext
    rw [Tbl.get_keysOn, h.planIdx a i]
    simp only [List.mem_map, Prod.mk.injEq, Tbl.get_nil, or_false, reduceCtorEq]
    constructor
    · rintro ⟨it, hit, ha, hi⟩
      obtain ⟨p, hp, rfl⟩ := mem_exportPlans_iff.mp hit
      obtain ⟨k, hk⟩ := (PartOK.mem _ _).mp hp
      have hid : p.id = k := by
        rcases hk with hk | hk
        · exact (h.plan.ownA k p hk).1
        · exact (h.plan.ownI k p hk).1
      simp only at ha hi
      rw [← hi, hid]; exact ⟨p, hk, ha⟩
    · rintro ⟨p, hp, ha⟩
      have hid : p.id = i := by
        rcases hp with hp | hp
        · exact (h.plan.ownA i p hp).1
        · exact (h.plan.ownI i p hp).1
      exact ⟨{ plan := p, nodes := exportPlanNodes s p.id }, mem_exportPlans_iff.mpr ⟨p, (PartOK.mem _ _).mpr ⟨i, hp⟩, rfl⟩, ha, hid⟩
  · -- plan counter
    rw [imported_planCount]
    obtain ⟨c, hc, hub, hat⟩ := h.planCount
    rw [hc]
    congr 1
    have hmem : ∀ i, i ∈ (exportPlans s).map (·.plan.id) ↔ ∃ p, s.planActive.get i = some p ∨ s.planInactive.get i = some p := by
      intro i
      simp only [List.mem_map]
      constructor
      · rintro ⟨it, hit, rfl⟩
        obtain ⟨p, hp, rfl⟩ := mem_exportPlans_iff.mp hit
        obtain ⟨k, hk⟩ := (PartOK.mem _ _).mp hp
        have hid : p.id = k := by
          rcases hk with hk | hk
          · exact (h.plan.ownA k p hk).1
          · exact (h.plan.ownI k p hk).1
        exact ⟨p, by simpa [hid] using hk⟩
      · rintro ⟨p, hp⟩
        have hid : p.id = i := by
          rcases hp with hp | hp
          · exact (h.plan.ownA i p hp).1
          · exact (h.plan.ownI i p hp).1
        exact ⟨{ plan := p, nodes := exportPlanNodes s p.id }, mem_exportPlans_iff.mpr ⟨p, (PartOK.mem _ _).mpr ⟨i, hp⟩, rfl⟩, hid⟩
    apply maxId_eq
    · intro i hi
      obtain ⟨p, hp⟩ := (hmem i).mp hi
      exact hub i p hp
    · rcases hat with h0 | ⟨p, hp⟩
      · exact Or.inl h0
      · exact Or.inr ((hmem c).mpr ⟨p, hp⟩)
  · intro k; rw [imported_sessions]; exact get_import_exportVals _ _ h.sessNodup h.sessKey k
  · rintro ⟨t, i⟩
    rw [imported_sessQ]
    apply Tbl.get_unit_ext
    rw [Tbl.get_keysOn, h.sessQ t i]
    simp only [List.mem_map, Prod.mk.injEq, Tbl.get_nil, or_false, reduceCtorEq]
    constructor
    · rintro ⟨x, hx, ht, hi⟩
      obtain ⟨k, hk⟩ := mem_exportVals.mp hx
      rw [← hi, h.sessKey k x hk]; exact ⟨x, hk, ht⟩
    · rintro ⟨x, hx, ht⟩
      exact ⟨x, mem_exportVals.mpr ⟨i, hx⟩, ht, h.sessKey i x hx⟩
  · rintro ⟨a, i⟩
    rw [imported_sessForAcc]
    apply Tbl.get_unit_ext
    rw [Tbl.get_keysOn, h.sessAcc a i]
    simp only [List.mem_map, Prod.mk.injEq, Tbl.get_nil, or_false, reduceCtorEq]
    constructor
    · rintro ⟨x, hx, ht, hi⟩
      obtain ⟨k, hk⟩ := mem_exportVals.mp hx
      rw [← hi, h.sessKey k x hk]; exact ⟨x, hk, ht⟩
    · rintro ⟨x, hx, ht⟩
      exact ⟨x, mem_exportVals.mpr ⟨i, hx⟩, ht, h.sessKey i x hx⟩
  · rintro ⟨a, i⟩
    rw [imported_sessForNode]
    apply Tbl.get_unit_ext
    rw [Tbl.get_keysOn, h.sessNode a i]
    simp only [List.mem_map, Prod.mk.injEq, Tbl.get_nil, or_false, reduceCtorEq]
    constructor
    · rintro ⟨x, hx, ht, hi⟩
      obtain ⟨k, hk⟩ := mem_exportVals.mp hx
      rw [← hi, h.sessKey k x hk]; exact ⟨x, hk, ht⟩
    · rintro ⟨x, hx, ht⟩
      exact ⟨x, mem_exportVals.mpr ⟨i, hx⟩, ht, h.sessKey i x hx⟩
  · rintro ⟨b, i⟩
    rw [imported_sessForSub]
    apply Tbl.get_unit_ext
    rw [Tbl.get_keysOn, h.sessSub b i]
    simp only [List.mem_map, Prod.mk.injEq, Tbl.get_nil, or_false, reduceCtorEq]
    constructor
    · rintro ⟨x, hx, ht, hi⟩
      obtain ⟨k, hk⟩ := mem_exportVals.mp hx
      rw [← hi, h.sessKey k x hk]; exact ⟨x, hk, ht⟩
    · rintro ⟨x, hx, ht⟩
      exact ⟨x, mem_exportVals.mpr ⟨i, hx⟩, ht, h.sessKey i x hx⟩
  · rintro ⟨b, a, i⟩
    rw [imported_sessForAlloc]
    apply Tbl.get_unit_ext
    rw [Tbl.get_keysOn, h.sessAlloc b a i]
    simp only [List.mem_map, Prod.mk.injEq, Tbl.get_nil, or_false, reduceCtorEq]
    constructor
    · rintro ⟨x, hx, hb, ha, hi⟩
      obtain ⟨k, hk⟩ := mem_exportVals.mp hx
      rw [← hi, h.sessKey k x hk]; exact ⟨x, hk, hb, ha⟩
    · rintro ⟨x, hx, hb, ha⟩
      exact ⟨x, mem_exportVals.mpr ⟨i, hx⟩, hb, ha, h.sessKey i x hx⟩
  · intro k; rw [imported_swaps]; exact get_import_exportVals _ _ h.swapNodup h.swapKey k
  · intro k; rw [imported_inflations]; exact get_import_exportVals _ _ h.inflNodup h.inflKey k

end agree

end Hub.Props.C12
