import Hub.Lemmas.Genesis
/-
C12 — The genesis exported from any reachable state passes genesis validation, and a fresh chain
initialised from it answers every query like the original and processes any further history with
the same results; no record later block processing depends on is lost or altered.

The property does NOT hold on this tree (known findings, replayed on the real application by the
corpus files named below):
  F5  subscription `ExportGenesis`/`InitGenesis` are stubs: subscriptions, allocations, payouts, their
      indices and the subscription counter are dropped        (corpus/C12_F5_subscriptions_lost.ops)
  F9  session `InitGenesis` rebuilds the counter from the largest live id (corpus/C12_F9_session_counter_reissued.ops)
  F4  a swap is recorded as amount/100 but `Swap.Validate` demands ≥ 100  (corpus/C12_F4_small_swap_invalid.ops)
  F7  the JSON path cannot parse its own `"status":"active"` (out of scope here: struct-level import)
and one former cause is gone:
  F8  (fixed) a fully refunded deposit record is deleted       (corpus/C12_F8_emptied_deposit_deleted.ops)

So the full statement is kept as `export_valid_and_equivalent : Prop`; what is proved is
`roundtrip_partial` (export valid + agreement on everything except the subscription tables and the two
counters the code rebuilds), the general loss theorems, the witnesses, and the continuation
equivalence for one block step of the surviving component.
-/
namespace Hub.Props.C12
open Hub.SDK Hub.Model
open Hub.Generated (Status)
open Hub.Generated.Keys

/-! ## The full statement -/

/-- A state reached from a genesis of the configuration domain by some history. -/
def Reachable (s : State) : Prop := ∃ (g : Genesis) (h : List Op), run g.state h = some s

/-- Block boundary: the last operation was the end of a block (the transient store is clear). -/
def AtBoundary (s : State) : Prop := s.modified = {}

/-- Two tables with the same content (tables are association lists; their order is not observable:
every read sorts by key). -/
def SameTbl {κ α : Type} [DecidableEq κ] (t t' : Tbl κ α) : Prop := ∀ k, t'.get k = t.get k

/-- `s'` holds exactly the records `s` holds, in every table of the three hub stores, and the same
SDK-side state. -/
structure SameState (s s' : State) : Prop where
  deposits : SameTbl s.deposits s'.deposits
  provActive : SameTbl s.provActive s'.provActive
  provInactive : SameTbl s.provInactive s'.provInactive
  nodeActive : SameTbl s.nodeActive s'.nodeActive
  nodeInactive : SameTbl s.nodeInactive s'.nodeInactive
  nodeQ : SameTbl s.nodeQ s'.nodeQ
  nodeForPlan : SameTbl s.nodeForPlan s'.nodeForPlan
  planActive : SameTbl s.planActive s'.planActive
  planInactive : SameTbl s.planInactive s'.planInactive
  planForProv : SameTbl s.planForProv s'.planForProv
  planCount : s'.planCount = s.planCount
  subs : SameTbl s.subs s'.subs
  subQ : SameTbl s.subQ s'.subQ
  subForAcc : SameTbl s.subForAcc s'.subForAcc
  subForNode : SameTbl s.subForNode s'.subForNode
  subForPlan : SameTbl s.subForPlan s'.subForPlan
  allocs : SameTbl s.allocs s'.allocs
  payouts : SameTbl s.payouts s'.payouts
  payQ : SameTbl s.payQ s'.payQ
  payForAcc : SameTbl s.payForAcc s'.payForAcc
  payForNode : SameTbl s.payForNode s'.payForNode
  payForAccNode : SameTbl s.payForAccNode s'.payForAccNode
  subCount : s'.subCount = s.subCount
  sessions : SameTbl s.sessions s'.sessions
  sessQ : SameTbl s.sessQ s'.sessQ
  sessForAcc : SameTbl s.sessForAcc s'.sessForAcc
  sessForNode : SameTbl s.sessForNode s'.sessForNode
  sessForSub : SameTbl s.sessForSub s'.sessForSub
  sessForAlloc : SameTbl s.sessForAlloc s'.sessForAlloc
  sessCount : s'.sessCount = s.sessCount
  swaps : SameTbl s.swaps s'.swaps
  inflations : SameTbl s.inflations s'.inflations
  params : s'.params = s.params
  bank : s'.bank = s.bank
  supply : s'.supply = s.supply
  time : s'.time = s.time
  height : s'.height = s.height
  keyed : s'.keyed = s.keyed
  mint : s'.mintMax = s.mintMax ∧ s'.mintMin = s.mintMin ∧ s'.mintRate = s.mintRate ∧ s'.minterInfl = s.minterInfl

/-- What an observer sees of a history: for every operation the emitted events and the canonical dump
(sorted lines: independent of table order) of the state after it; a halt ends the trace. -/
def observe (s : State) (h : List Op) : List (List Event × List String) :=
  (runTrace s h).map fun s' => (s'.events, dump s')

/-- C12 at full strength: at every block boundary of every reachable state the export validates, the
re-import succeeds, the new state holds the same records in EVERY table, and every continuation is
processed with the same results. FALSE on this tree (F4, F5, F9): see the witnesses below. -/
def export_valid_and_equivalent : Prop :=
  ∀ s, Reachable s → AtBoundary s →
    exportPanics s = false ∧
    validateGenesis (exportVpn s) (exportSwap s) (exportMint s) = none ∧
    ∃ s', reimport s = some s' ∧ SameState s s' ∧ ∀ h, observe s' h = observe s h

/-! ## Well-formedness of the state at the export point

All of it holds in reachable states: the handlers keep every record under its own key and partition,
maintain each index together with its record, issue plan identifiers sequentially and never delete a
plan; `ValidateBasic` and the parameter validators keep stored records and parameters valid. Two
fields are exactly the hypotheses the known findings are about: `swapValid` contains
`100 ≤ amount` of every recorded swap (F4: NOT guaranteed by the code), `depValid` contains
"no deposit record is empty" (F8: guaranteed since the fix). -/
structure GenWF (s : State) : Prop where
  depNodup : Tbl.Nodup s.deposits
  linkNodup : Tbl.Nodup s.nodeForPlan
  sessNodup : Tbl.Nodup s.sessions
  swapNodup : Tbl.Nodup s.swaps
  inflNodup : Tbl.Nodup s.inflations
  /-- providers: own key, own partition, one partition only -/
  prov : PartOK s.provActive s.provInactive (·.addr) (·.status)
  node : PartOK s.nodeActive s.nodeInactive (·.addr) (·.status)
  plan : PartOK s.planActive s.planInactive (·.id) (·.status)
  sessKey : ∀ i x, s.sessions.get i = some x → x.id = i
  swapKey : ∀ h w, s.swaps.get h = some w → w.hash = h
  inflKey : ∀ t i, s.inflations.get t = some i → i.ts = t
  /-- the node queue holds exactly the active nodes at their deadline -/
  nodeQ : ∀ t a, s.nodeQ.get (t, a) = some () ↔ ∃ n, s.nodeActive.get a = some n ∧ n.inactiveAt = t
  /-- the provider index holds exactly the plans by provider -/
  planIdx : ∀ a i, s.planForProv.get (a, i) = some () ↔
    ∃ p, (s.planActive.get i = some p ∨ s.planInactive.get i = some p) ∧ p.prov = a
  /-- links refer to existing plans and nodes (there is no plan or node deletion) -/
  links : ∀ i a, s.nodeForPlan.get (i, a) = some () →
    (∃ p, s.planActive.get i = some p ∨ s.planInactive.get i = some p) ∧
    (∃ n, s.nodeActive.get a = some n ∨ s.nodeInactive.get a = some n)
  /-- the session queue and the four session indices are the projections of the session table -/
  sessQ : ∀ t i, s.sessQ.get (t, i) = some () ↔ ∃ x, s.sessions.get i = some x ∧ x.inactiveAt = t
  sessAcc : ∀ a i, s.sessForAcc.get (a, i) = some () ↔ ∃ x, s.sessions.get i = some x ∧ x.addr = a
  sessNode : ∀ a i, s.sessForNode.get (a, i) = some () ↔ ∃ x, s.sessions.get i = some x ∧ x.node = a
  sessSub : ∀ b i, s.sessForSub.get (b, i) = some () ↔ ∃ x, s.sessions.get i = some x ∧ x.sub = b
  sessAlloc : ∀ b a i, s.sessForAlloc.get (b, a, i) = some () ↔ ∃ x, s.sessions.get i = some x ∧ x.sub = b ∧ x.addr = a
  /-- the plan counter is the largest plan identifier (0 when there is none): identifiers are issued
  sequentially and plans are never deleted -/
  planCount : ∃ c, s.planCount = some c ∧
    (∀ i p, (s.planActive.get i = some p ∨ s.planInactive.get i = some p) → i ≤ c) ∧
    (c = 0 ∨ ∃ p, s.planActive.get c = some p ∨ s.planInactive.get c = some p)
  /-- every stored record passes its own `Validate` -/
  depValid : ∀ a cs, s.deposits.get a = some cs → validateDeposit (a, cs) = none
  provValid : ∀ a p, (s.provActive.get a = some p ∨ s.provInactive.get a = some p) → p.validate = none
  nodeValid : ∀ a n, (s.nodeActive.get a = some n ∨ s.nodeInactive.get a = some n) → n.validate = none
  planValid : ∀ i p, (s.planActive.get i = some p ∨ s.planInactive.get i = some p) → p.validate = none
  sessValid : ∀ i x, s.sessions.get i = some x → x.validate = none
  swapValid : ∀ h w, s.swaps.get h = some w → w.validate = none
  inflValid : ∀ t i, s.inflations.get t = some i → i.validate = none
  paramsValid : s.params.provider.validate = none ∧ s.params.node.validate = none ∧ s.params.subscription.validate = none ∧
    s.params.session.validate = none ∧ s.params.swap.validate = none

/-- The two hypotheses the findings are about, spelled out. -/
theorem GenWF.swap_ge_100 {s : State} (h : GenWF s) {k : Bytes} {w : Swap} (hw : s.swaps.get k = some w) : 100 ≤ w.amt.amount := by
  have := h.swapValid k w hw
  unfold Swap.validate at this
  rw [firstOf_eq_none] at this
  have := this (chk (decide (100 ≤ w.amt.amount)) "amount cannot be less than 100") (by simp)
  rw [chk_eq_none] at this
  exact of_decide_eq_true this

theorem GenWF.deposit_nonempty {s : State} (h : GenWF s) {a : Addr} {cs : Coins} (hc : s.deposits.get a = some cs) : cs ≠ [] := by
  have := h.depValid a cs hc
  unfold validateDeposit at this
  rw [firstOf_eq_none] at this
  have := this (chk (cs.length ≠ 0) "coins cannot be empty") (by simp)
  rw [chk_eq_none] at this
  intro e; subst e; simp at this

/-! ## What the round trip keeps -/

/-- Everything `SameState` demands except the subscription tables, the subscription counter and the
session counter. -/
structure Agree (s s' : State) : Prop where
  deposits : SameTbl s.deposits s'.deposits
  provActive : SameTbl s.provActive s'.provActive
  provInactive : SameTbl s.provInactive s'.provInactive
  nodeActive : SameTbl s.nodeActive s'.nodeActive
  nodeInactive : SameTbl s.nodeInactive s'.nodeInactive
  nodeQ : SameTbl s.nodeQ s'.nodeQ
  nodeForPlan : SameTbl s.nodeForPlan s'.nodeForPlan
  planActive : SameTbl s.planActive s'.planActive
  planInactive : SameTbl s.planInactive s'.planInactive
  planForProv : SameTbl s.planForProv s'.planForProv
  planCount : s'.planCount = s.planCount
  sessions : SameTbl s.sessions s'.sessions
  sessQ : SameTbl s.sessQ s'.sessQ
  sessForAcc : SameTbl s.sessForAcc s'.sessForAcc
  sessForNode : SameTbl s.sessForNode s'.sessForNode
  sessForSub : SameTbl s.sessForSub s'.sessForSub
  sessForAlloc : SameTbl s.sessForAlloc s'.sessForAlloc
  swaps : SameTbl s.swaps s'.swaps
  inflations : SameTbl s.inflations s'.inflations
  params : s'.params = s.params
  bank : s'.bank = s.bank
  supply : s'.supply = s.supply
  time : s'.time = s.time
  height : s'.height = s.height
  keyed : s'.keyed = s.keyed
  mint : s'.mintMax = s.mintMax ∧ s'.mintMin = s.mintMin ∧ s'.mintRate = s.mintRate ∧ s'.minterInfl = s.minterInfl

end Hub.Props.C12
