import Hub.Lemmas.Genesis
/-
C12 — The genesis exported from any reachable state passes genesis validation, and a fresh chain
initialised from it answers every query like the original and processes any further history with
the same results; no record later block processing depends on is lost or altered.

The property does NOT hold on this tree (known findings, replayed on the real application by the
corpus files named below):
  F5  subscription `ExportGenesis`/`InitGenesis` are stubs: subscriptions, allocations, payouts, their
      indices and the subscription counter are dropped        (corpus/C12_F5_subscriptions_lost.ops)
  F9  session `InitGenesis` rebuilds the counter from the largest live id (corpus/C12_F9_session_counter_reissued.ops)
  F4  a swap is recorded as amount/100 but `Swap.Validate` demands ≥ 100  (corpus/C12_F4_small_swap_invalid.ops)
  F7  the JSON path cannot parse its own `"status":"active"` (out of scope here: struct-level import)
and one former cause is gone:
  F8  (fixed) a fully refunded deposit record is deleted       (corpus/C12_F8_emptied_deposit_deleted.ops)

So the full statement is kept as `export_valid_and_equivalent : Prop`; what is proved is
`roundtrip_partial` (export valid + agreement on everything except the subscription tables and the two
counters the code rebuilds), the general loss theorems, the witnesses, and the continuation
equivalence for one block step of the surviving component.
-/
namespace Hub.Props.C12
open Hub.SDK Hub.Model Hub.Model.Gen
open Hub.Generated (Status)
open Hub.Generated.Keys

/-! ## The full statement -/

/-- A state reached from a genesis of the configuration domain by some history. -/
def Reachable (s : State) : Prop := ∃ (g : Genesis) (h : List Op), run g.state h = some s

/-- Block boundary: the last operation was the end of a block (the transient store is clear). -/
def AtBoundary (s : State) : Prop := s.modified = {}

/-- Two tables with the same content (tables are association lists; their order is not observable:
every read sorts by key). -/
def SameTbl {κ α : Type} [DecidableEq κ] (t t' : Tbl κ α) : Prop := ∀ k, t'.get k = t.get k

/-- `s'` holds exactly the records `s` holds, in every table of the three hub stores, and the same
SDK-side state. -/
structure SameState (s s' : State) : Prop where
  deposits : SameTbl s.deposits s'.deposits
  provActive : SameTbl s.provActive s'.provActive
  provInactive : SameTbl s.provInactive s'.provInactive
  nodeActive : SameTbl s.nodeActive s'.nodeActive
  nodeInactive : SameTbl s.nodeInactive s'.nodeInactive
  nodeQ : SameTbl s.nodeQ s'.nodeQ
  nodeForPlan : SameTbl s.nodeForPlan s'.nodeForPlan
  planActive : SameTbl s.planActive s'.planActive
  planInactive : SameTbl s.planInactive s'.planInactive
  planForProv : SameTbl s.planForProv s'.planForProv
  planCount : s'.planCount = s.planCount
  subs : SameTbl s.subs s'.subs
  subQ : SameTbl s.subQ s'.subQ
  subForAcc : SameTbl s.subForAcc s'.subForAcc
  subForNode : SameTbl s.subForNode s'.subForNode
  subForPlan : SameTbl s.subForPlan s'.subForPlan
  allocs : SameTbl s.allocs s'.allocs
  payouts : SameTbl s.payouts s'.payouts
  payQ : SameTbl s.payQ s'.payQ
  payForAcc : SameTbl s.payForAcc s'.payForAcc
  payForNode : SameTbl s.payForNode s'.payForNode
  payForAccNode : SameTbl s.payForAccNode s'.payForAccNode
  subCount : s'.subCount = s.subCount
  sessions : SameTbl s.sessions s'.sessions
  sessQ : SameTbl s.sessQ s'.sessQ
  sessForAcc : SameTbl s.sessForAcc s'.sessForAcc
  sessForNode : SameTbl s.sessForNode s'.sessForNode
  sessForSub : SameTbl s.sessForSub s'.sessForSub
  sessForAlloc : SameTbl s.sessForAlloc s'.sessForAlloc
  sessCount : s'.sessCount = s.sessCount
  swaps : SameTbl s.swaps s'.swaps
  inflations : SameTbl s.inflations s'.inflations
  params : s'.params = s.params
  bank : s'.bank = s.bank
  supply : s'.supply = s.supply
  time : s'.time = s.time
  height : s'.height = s.height
  keyed : s'.keyed = s.keyed
  mint : s'.mintMax = s.mintMax ∧ s'.mintMin = s.mintMin ∧ s'.mintRate = s.mintRate ∧ s'.minterInfl = s.minterInfl

/-- What an observer sees of a history: for every operation the emitted events and the canonical dump
(sorted lines: independent of table order) of the state after it; a halt ends the trace. -/
def observe (s : State) (h : List Op) : List (List Event × List String) :=
  (runTrace s h).map fun s' => (s'.events, dump s')

/-- C12 at full strength: at every block boundary of every reachable state the export validates, the
re-import succeeds, the new state holds the same records in EVERY table, and every continuation is
processed with the same results. FALSE on this tree (F4, F5, F9): see the witnesses below.

Note on the first block of the new chain: the imported state is an uncommitted genesis — `InitGenesis` wrote every
parameter, so its four `modified` flags are set (`imported_sdk`) although `s` is at a block boundary — and the first
`endBlock` of a continuation on `s'` runs the node price sweep, which emits one `EventUpdateDetails` per node that
the original chain does not emit. `observe` includes events, so it differs in that block whenever a node exists;
the states (dumps) stay equal when every node price is within the bounds, which C11 gives at a boundary. -/
def export_valid_and_equivalent : Prop :=
  ∀ s, Reachable s → AtBoundary s →
    exportPanics s = false ∧
    validateGenesis (exportVpn s) (exportSwap s) (exportMint s) = none ∧
    ∃ s', reimport s = some s' ∧ SameState s s' ∧ ∀ h, observe s' h = observe s h

/-! ## Well-formedness of the state at the export point

All of it holds in reachable states: the handlers keep every record under its own key and partition,
maintain each index together with its record, issue plan identifiers sequentially and never delete a
plan; `ValidateBasic` and the parameter validators keep stored records and parameters valid. Two
fields are exactly the hypotheses the known findings are about: `swapValid` contains
`100 ≤ amount` of every recorded swap (F4: NOT guaranteed by the code), `depValid` contains
"no deposit record is empty" (F8: guaranteed since the fix). -/
structure GenWF (s : State) : Prop where
  depNodup : Tbl.Nodup s.deposits
  linkNodup : Tbl.Nodup s.nodeForPlan
  sessNodup : Tbl.Nodup s.sessions
  swapNodup : Tbl.Nodup s.swaps
  inflNodup : Tbl.Nodup s.inflations
  /-- providers: own key, own partition, one partition only -/
  prov : PartOK s.provActive s.provInactive (·.addr) (·.status)
  node : PartOK s.nodeActive s.nodeInactive (·.addr) (·.status)
  plan : PartOK s.planActive s.planInactive (·.id) (·.status)
  sessKey : ∀ i x, s.sessions.get i = some x → x.id = i
  swapKey : ∀ h w, s.swaps.get h = some w → w.hash = h
  inflKey : ∀ t i, s.inflations.get t = some i → i.ts = t
  /-- the node queue holds exactly the active nodes at their deadline -/
  nodeQ : ∀ t a, s.nodeQ.get (t, a) = some () ↔ ∃ n, s.nodeActive.get a = some n ∧ n.inactiveAt = t
  /-- the provider index holds exactly the plans by provider -/
  planIdx : ∀ a i, s.planForProv.get (a, i) = some () ↔
    ∃ p, (s.planActive.get i = some p ∨ s.planInactive.get i = some p) ∧ p.prov = a
  /-- links refer to existing plans and nodes (there is no plan or node deletion) -/
  links : ∀ i a, s.nodeForPlan.get (i, a) = some () →
    (∃ p, s.planActive.get i = some p ∨ s.planInactive.get i = some p) ∧
    (∃ n, s.nodeActive.get a = some n ∨ s.nodeInactive.get a = some n)
  /-- the session queue and the four session indices are the projections of the session table -/
  sessQ : ∀ t i, s.sessQ.get (t, i) = some () ↔ ∃ x, s.sessions.get i = some x ∧ x.inactiveAt = t
  sessAcc : ∀ a i, s.sessForAcc.get (a, i) = some () ↔ ∃ x, s.sessions.get i = some x ∧ x.addr = a
  sessNode : ∀ a i, s.sessForNode.get (a, i) = some () ↔ ∃ x, s.sessions.get i = some x ∧ x.node = a
  sessSub : ∀ b i, s.sessForSub.get (b, i) = some () ↔ ∃ x, s.sessions.get i = some x ∧ x.sub = b
  sessAlloc : ∀ b a i, s.sessForAlloc.get (b, a, i) = some () ↔ ∃ x, s.sessions.get i = some x ∧ x.sub = b ∧ x.addr = a
  /-- the plan counter is the largest plan identifier (0 when there is none): identifiers are issued
  sequentially and plans are never deleted -/
  planCount : ∃ c, s.planCount = some c ∧
    (∀ i p, (s.planActive.get i = some p ∨ s.planInactive.get i = some p) → i ≤ c) ∧
    (c = 0 ∨ ∃ p, s.planActive.get c = some p ∨ s.planInactive.get c = some p)
  /-- every stored record passes its own `Validate` -/
  depValid : ∀ a cs, s.deposits.get a = some cs → validateDeposit (a, cs) = none
  provValid : ∀ a p, (s.provActive.get a = some p ∨ s.provInactive.get a = some p) → p.validate = none
  nodeValid : ∀ a n, (s.nodeActive.get a = some n ∨ s.nodeInactive.get a = some n) → n.validate = none
  planValid : ∀ i p, (s.planActive.get i = some p ∨ s.planInactive.get i = some p) → p.validate = none
  sessValid : ∀ i x, s.sessions.get i = some x → x.validate = none
  swapValid : ∀ h w, s.swaps.get h = some w → w.validate = none
  inflValid : ∀ t i, s.inflations.get t = some i → i.validate = none
  paramsValid : s.params.provider.validate = none ∧ s.params.node.validate = none ∧ s.params.subscription.validate = none ∧
    s.params.session.validate = none ∧ s.params.swap.validate = none

/-- The two hypotheses the findings are about, spelled out. -/
theorem GenWF.swap_ge_100 {s : State} (h : GenWF s) {k : Bytes} {w : Swap} (hw : s.swaps.get k = some w) : 100 ≤ w.amt.amount := by
  have := h.swapValid k w hw
  unfold Swap.validate at this
  rw [firstOf_eq_none] at this
  have := this (chk (decide (100 ≤ w.amt.amount)) "amount cannot be less than 100") (by simp)
  rw [chk_eq_none] at this
  exact of_decide_eq_true this

theorem GenWF.deposit_nonempty {s : State} (h : GenWF s) {a : Addr} {cs : Coins} (hc : s.deposits.get a = some cs) : cs ≠ [] := by
  have := h.depValid a cs hc
  unfold validateDeposit at this
  rw [firstOf_eq_none] at this
  have := this (chk (cs.length ≠ 0) "coins cannot be empty") (by simp)
  rw [chk_eq_none] at this
  intro e; subst e; simp at this

/-! ## What the round trip keeps -/

/-- Everything `SameState` demands except the subscription tables, the subscription counter and the
session counter. -/
structure Agree (s s' : State) : Prop where
  deposits : SameTbl s.deposits s'.deposits
  provActive : SameTbl s.provActive s'.provActive
  provInactive : SameTbl s.provInactive s'.provInactive
  nodeActive : SameTbl s.nodeActive s'.nodeActive
  nodeInactive : SameTbl s.nodeInactive s'.nodeInactive
  nodeQ : SameTbl s.nodeQ s'.nodeQ
  nodeForPlan : SameTbl s.nodeForPlan s'.nodeForPlan
  planActive : SameTbl s.planActive s'.planActive
  planInactive : SameTbl s.planInactive s'.planInactive
  planForProv : SameTbl s.planForProv s'.planForProv
  planCount : s'.planCount = s.planCount
  sessions : SameTbl s.sessions s'.sessions
  sessQ : SameTbl s.sessQ s'.sessQ
  sessForAcc : SameTbl s.sessForAcc s'.sessForAcc
  sessForNode : SameTbl s.sessForNode s'.sessForNode
  sessForSub : SameTbl s.sessForSub s'.sessForSub
  sessForAlloc : SameTbl s.sessForAlloc s'.sessForAlloc
  swaps : SameTbl s.swaps s'.swaps
  inflations : SameTbl s.inflations s'.inflations
  params : s'.params = s.params
  bank : s'.bank = s.bank
  supply : s'.supply = s.supply
  time : s'.time = s.time
  height : s'.height = s.height
  keyed : s'.keyed = s.keyed
  mint : s'.mintMax = s.mintMax ∧ s'.mintMin = s.mintMin ∧ s'.mintRate = s.mintRate ∧ s'.minterInfl = s.minterInfl

/-! ## The exported genesis of a well-formed state is valid -/

section valid
variable {s : State}

theorem linked_nodes_present (h : GenWF s) (i : Nat) (a : Addr) (hl : s.nodeForPlan.get (i, a) = some ()) :
    ∃ n, s.nodeActive.get a = some n ∨ s.nodeInactive.get a = some n := (h.links i a hl).2

theorem export_no_panic (h : GenWF s) : exportPanics s = false := by
  unfold exportPanics
  rw [List.any_eq_false]
  intro p _
  rw [Bool.not_eq_true, List.any_eq_false]
  intro a ha
  obtain ⟨n, hn⟩ := linked_nodes_present h p.id a (mem_linkedAddrs.mp ha)
  rw [(getNode_iff h.node).mpr hn]; simp

theorem deposits_valid (h : GenWF s) : validateDepositGenesis (exportTbl deposit.DepositKey s.deposits) = none := by
  unfold validateDepositGenesis
  rw [firstOf_eq_none]
  intro x hx
  simp only [List.mem_cons, List.not_mem_nil, or_false] at hx
  rcases hx with rfl | rfl
  · rw [chk_eq_none, not_hasDup]; exact exportTbl_nodup _ h.depNodup
  · rw [firstErr_eq_none]
    rintro ⟨a, cs⟩ hd
    exact h.depValid a cs (mem_exportTbl.mp hd)

theorem providers_valid (h : GenWF s) : validateProviderGenesis (exportProviders s) s.params.provider = none := by
  unfold validateProviderGenesis
  rw [firstOf_eq_none]
  intro x hx
  simp only [List.mem_cons, List.not_mem_nil, or_false] at hx
  rcases hx with rfl | rfl | rfl
  · exact h.paramsValid.1
  · rw [chk_eq_none, not_hasDup]; exact h.prov.keys_nodup _ _
  · rw [firstErr_eq_none]
    intro p hp
    obtain ⟨a, ha⟩ := (PartOK.mem _ _).mp hp
    exact h.provValid a p ha

theorem nodes_valid (h : GenWF s) : validateNodeGenesis (exportNodes s) s.params.node = none := by
  unfold validateNodeGenesis
  rw [firstOf_eq_none]
  intro x hx
  simp only [List.mem_cons, List.not_mem_nil, or_false] at hx
  rcases hx with rfl | rfl | rfl
  · exact h.paramsValid.2.1
  · rw [chk_eq_none, not_hasDup]; exact h.node.keys_nodup _ _
  · rw [firstErr_eq_none]
    intro p hp
    obtain ⟨a, ha⟩ := (PartOK.mem _ _).mp hp
    exact h.nodeValid a p ha

theorem plans_valid (h : GenWF s) : validatePlanGenesis (exportPlans s) = none := by
  unfold validatePlanGenesis
  rw [firstOf_eq_none]
  intro x hx
  simp only [List.mem_cons, List.not_mem_nil, or_false] at hx
  rcases hx with rfl | rfl | rfl
  · rw [chk_eq_none, not_hasDup]
    have : (exportPlans s).map (·.plan.id) = (exportPlanRecs s).map (·.id) := by
      unfold exportPlans; rw [List.map_map]; rfl
    rw [this]; exact h.plan.keys_nodup _ _
  · rw [firstErr_eq_none]
    intro it hit
    unfold exportPlans at hit
    obtain ⟨p, _, rfl⟩ := List.mem_map.mp hit
    rw [chk_eq_none, not_hasDup]
    show (exportPlanNodes s p.id).Nodup
    rw [exportPlanNodes_eq h.node p.id (linked_nodes_present h p.id)]
    exact linkedAddrs_nodup h.linkNodup _
  · rw [firstErr_eq_none]
    intro it hit
    unfold exportPlans at hit
    obtain ⟨p, hp, rfl⟩ := List.mem_map.mp hit
    obtain ⟨i, hi⟩ := (PartOK.mem _ _).mp hp
    exact h.planValid i p hi

theorem sessions_valid (h : GenWF s) : validateSessionGenesis (exportVals session.SessionKey s.sessions) s.params.session = none := by
  unfold validateSessionGenesis
  rw [firstOf_eq_none]
  intro x hx
  simp only [List.mem_cons, List.not_mem_nil, or_false] at hx
  rcases hx with rfl | rfl | rfl
  · exact h.paramsValid.2.2.2.1
  · rw [chk_eq_none, not_hasDup, exportVals_keys _ _ h.sessKey]; exact exportTbl_nodup _ h.sessNodup
  · rw [firstErr_eq_none]
    intro x hx
    obtain ⟨i, hi⟩ := mem_exportVals.mp hx
    exact h.sessValid i x hi

theorem vpn_valid (h : GenWF s) : validateVpn (exportVpn s) = none := by
  unfold validateVpn
  rw [firstOf_eq_none]
  intro x hx
  simp only [List.mem_cons, List.not_mem_nil, or_false] at hx
  rcases hx with rfl | rfl | rfl | rfl | rfl | rfl <;> rw [pfx_eq_none]
  · exact deposits_valid h
  · exact providers_valid h
  · exact nodes_valid h
  · exact plans_valid h
  · show validateSubscriptionGenesis [] s.params.subscription = none
    unfold validateSubscriptionGenesis
    rw [firstOf_eq_none]
    intro y hy
    simp only [List.mem_cons, List.not_mem_nil, or_false] at hy
    rcases hy with rfl | rfl
    · exact h.paramsValid.2.2.1
    · rfl
  · exact sessions_valid h

theorem swap_valid (h : GenWF s) : validateSwap (exportSwap s) = none := by
  unfold validateSwap
  rw [firstOf_eq_none]
  intro x hx
  simp only [List.mem_cons, List.not_mem_nil, or_false] at hx
  rcases hx with rfl | rfl | rfl
  · exact h.paramsValid.2.2.2.2
  · rw [chk_eq_none, not_hasDup]
    show ((exportVals swap.SwapKey s.swaps).map (·.hash)).Nodup
    rw [exportVals_keys _ _ h.swapKey]; exact exportTbl_nodup _ h.swapNodup
  · rw [firstErr_eq_none]
    intro x hx
    obtain ⟨i, hi⟩ := mem_exportVals.mp hx
    exact h.swapValid i x hi

theorem mint_valid (h : GenWF s) : validateMint (exportMint s) = none := by
  unfold validateMint
  rw [firstOf_eq_none]
  intro x hx
  simp only [List.mem_cons, List.not_mem_nil, or_false] at hx
  rcases hx with rfl | rfl
  · rw [chk_eq_none, not_hasDup]
    show ((exportVals mint.InflationKey s.inflations).map (·.ts)).Nodup
    rw [exportVals_keys _ _ h.inflKey]; exact exportTbl_nodup _ h.inflNodup
  · rw [firstErr_eq_none]
    intro x hx
    obtain ⟨i, hi⟩ := mem_exportVals.mp hx
    exact h.inflValid i x hi

/-- The exported genesis of a well-formed state passes `Validate` of all three modules. -/
theorem export_valid (h : GenWF s) : validateGenesis (exportVpn s) (exportSwap s) (exportMint s) = none := by
  unfold validateGenesis
  rw [firstOf_eq_none]
  intro x hx
  simp only [List.mem_cons, List.not_mem_nil, or_false] at hx
  rcases hx with rfl | rfl | rfl <;> rw [pfx_eq_none]
  · exact vpn_valid h
  · exact swap_valid h
  · exact mint_valid h

end valid

/-! ## The re-import succeeds and keeps the surviving component -/

section agree
variable {s : State}

/-- The re-import of a well-formed state succeeds, with the state `imported s`. -/
theorem reimport_ok (h : GenWF s) : reimport s = some (imported s) := by
  unfold reimport
  rw [export_no_panic h, export_valid h]
  simp only [Bool.false_eq_true, if_false]
  rw [initGenesis_exported s (h.node.status _ _) ?_ (h.prov.status _ _)]
  intro it hit
  unfold exportPlans at hit
  obtain ⟨p, hp, rfl⟩ := List.mem_map.mp hit
  exact h.plan.status _ _ p hp

theorem imported_plan_lists (s : State) :
    (((exportPlans s).filter (isActive (·.plan.status))).map fun it => (it.plan.id, it.plan)) =
      (((exportPlanRecs s).filter (isActive (·.status))).map fun p => (p.id, p)) ∧
    (((exportPlans s).filter (isInactive (·.plan.status))).map fun it => (it.plan.id, it.plan)) =
      (((exportPlanRecs s).filter (isInactive (·.status))).map fun p => (p.id, p)) := by
  unfold exportPlans
  constructor <;> rw [List.filter_map, List.map_map] <;> rfl

theorem mem_exportPlans_iff {s : State} {it : GenesisPlan} :
    it ∈ exportPlans s ↔ ∃ p ∈ exportPlanRecs s, it = { plan := p, nodes := exportPlanNodes s p.id } := by
  unfold exportPlans
  rw [List.mem_map]
  constructor
  · rintro ⟨p, hp, rfl⟩; exact ⟨p, hp, rfl⟩
  · rintro ⟨p, hp, rfl⟩; exact ⟨p, hp, rfl⟩

theorem agree_imported (h : GenWF s) : Agree s (imported s) := by
  have hsdk := imported_sdk s
  refine { deposits := ?_, provActive := ?_, provInactive := ?_, nodeActive := ?_, nodeInactive := ?_, nodeQ := ?_,
           nodeForPlan := ?_, planActive := ?_, planInactive := ?_, planForProv := ?_, planCount := ?_, sessions := ?_,
           sessQ := ?_, sessForAcc := ?_, sessForNode := ?_, sessForSub := ?_, sessForAlloc := ?_, swaps := ?_,
           inflations := ?_, params := imported_params s, bank := hsdk.1, supply := hsdk.2.1, time := hsdk.2.2.1,
           height := hsdk.2.2.2.1, keyed := hsdk.2.2.2.2.1,
           mint := ⟨hsdk.2.2.2.2.2.1, hsdk.2.2.2.2.2.2.1, hsdk.2.2.2.2.2.2.2.1, hsdk.2.2.2.2.2.2.2.2.1⟩ }
  · intro k; rw [imported_deposits]; exact get_import_exportTbl _ h.depNodup k
  · intro k; rw [imported_provActive]; exact h.prov.get_active _ _ k
  · intro k; rw [imported_provInactive]; exact h.prov.get_inactive _ _ k
  · intro k; rw [imported_nodeActive]; exact h.node.get_active _ _ k
  · intro k; rw [imported_nodeInactive]; exact h.node.get_inactive _ _ k
  · -- node queue: the active nodes at their deadline
    rintro ⟨t, a⟩
    rw [imported_nodeQ]
    apply Tbl.get_unit_ext
    rw [Tbl.get_keysOn, h.nodeQ t a]
    unfold exportNodes
    rw [(h.node.filters _ _).1]
    simp only [List.mem_map, Prod.mk.injEq, Tbl.get_nil, or_false, reduceCtorEq]
    constructor
    · rintro ⟨n, hn, ht, ha⟩
      obtain ⟨k, hk⟩ := mem_exportVals.mp hn
      have : n.addr = k := (h.node.ownA k n hk).1
      rw [← ha, this]; exact ⟨n, hk, ht⟩
    · rintro ⟨n, hn, ht⟩
      exact ⟨n, mem_exportVals.mpr ⟨a, hn⟩, ht, (h.node.ownA a n hn).1⟩
  · -- links
    rintro ⟨i, a⟩
    rw [imported_nodeForPlan]
    apply Tbl.get_unit_ext
    rw [Tbl.get_keysOn]
    simp only [planLinks, List.mem_flatMap, List.mem_map, Prod.mk.injEq, Tbl.get_nil, or_false, reduceCtorEq]
    constructor
    · rintro ⟨it, hit, a', ha', hi, rfl⟩
      obtain ⟨p, hp, rfl⟩ := mem_exportPlans_iff.mp hit
      simp only at ha' hi
      rw [exportPlanNodes_eq h.node p.id (linked_nodes_present h p.id)] at ha'
      rw [← hi]; exact mem_linkedAddrs.mp ha'
    · intro hl
      obtain ⟨⟨p, hp⟩, _⟩ := h.links i a hl
      have hid : p.id = i := by
        rcases hp with hp | hp
        · exact (h.plan.ownA i p hp).1
        · exact (h.plan.ownI i p hp).1
      refine ⟨{ plan := p, nodes := exportPlanNodes s p.id }, mem_exportPlans_iff.mpr ⟨p, (PartOK.mem _ _).mpr ⟨i, hp⟩, rfl⟩, a, ?_, hid, rfl⟩
      show a ∈ exportPlanNodes s p.id
      rw [exportPlanNodes_eq h.node p.id (linked_nodes_present h p.id), hid]
      exact mem_linkedAddrs.mpr hl
  · intro k; rw [imported_planActive, (imported_plan_lists s).1]; exact h.plan.get_active _ _ k
  · intro k; rw [imported_planInactive, (imported_plan_lists s).2]; exact h.plan.get_inactive _ _ k
  · -- provider index
    rintro ⟨a, i⟩
    rw [imported_planForProv]
    apply Tbl.get_unit_ext
    rw [Tbl.get_keysOn, h.planIdx a i]
    simp only [List.mem_map, Prod.mk.injEq, Tbl.get_nil, or_false, reduceCtorEq]
    constructor
    · rintro ⟨it, hit, ha, hi⟩
      obtain ⟨p, hp, rfl⟩ := mem_exportPlans_iff.mp hit
      obtain ⟨k, hk⟩ := (PartOK.mem _ _).mp hp
      have hid : p.id = k := by
        rcases hk with hk | hk
        · exact (h.plan.ownA k p hk).1
        · exact (h.plan.ownI k p hk).1
      simp only at ha hi
      rw [← hi, hid]; exact ⟨p, hk, ha⟩
    · rintro ⟨p, hp, ha⟩
      have hid : p.id = i := by
        rcases hp with hp | hp
        · exact (h.plan.ownA i p hp).1
        · exact (h.plan.ownI i p hp).1
      exact ⟨{ plan := p, nodes := exportPlanNodes s p.id }, mem_exportPlans_iff.mpr ⟨p, (PartOK.mem _ _).mpr ⟨i, hp⟩, rfl⟩, ha, hid⟩
  · -- plan counter
    rw [imported_planCount]
    obtain ⟨c, hc, hub, hat⟩ := h.planCount
    rw [hc]
    congr 1
    have hmem : ∀ i, i ∈ (exportPlans s).map (·.plan.id) ↔ ∃ p, s.planActive.get i = some p ∨ s.planInactive.get i = some p := by
      intro i
      simp only [List.mem_map]
      constructor
      · rintro ⟨it, hit, rfl⟩
        obtain ⟨p, hp, rfl⟩ := mem_exportPlans_iff.mp hit
        obtain ⟨k, hk⟩ := (PartOK.mem _ _).mp hp
        have hid : p.id = k := by
          rcases hk with hk | hk
          · exact (h.plan.ownA k p hk).1
          · exact (h.plan.ownI k p hk).1
        exact ⟨p, by simpa [hid] using hk⟩
      · rintro ⟨p, hp⟩
        have hid : p.id = i := by
          rcases hp with hp | hp
          · exact (h.plan.ownA i p hp).1
          · exact (h.plan.ownI i p hp).1
        exact ⟨{ plan := p, nodes := exportPlanNodes s p.id }, mem_exportPlans_iff.mpr ⟨p, (PartOK.mem _ _).mpr ⟨i, hp⟩, rfl⟩, hid⟩
    apply maxId_eq
    · intro i hi
      obtain ⟨p, hp⟩ := (hmem i).mp hi
      exact hub i p hp
    · rcases hat with h0 | ⟨p, hp⟩
      · exact Or.inl h0
      · exact Or.inr ((hmem c).mpr ⟨p, hp⟩)
  · intro k; rw [imported_sessions]; exact get_import_exportVals _ _ h.sessNodup h.sessKey k
  · rintro ⟨t, i⟩
    rw [imported_sessQ]
    apply Tbl.get_unit_ext
    rw [Tbl.get_keysOn, h.sessQ t i]
    simp only [List.mem_map, Prod.mk.injEq, Tbl.get_nil, or_false, reduceCtorEq]
    constructor
    · rintro ⟨x, hx, ht, hi⟩
      obtain ⟨k, hk⟩ := mem_exportVals.mp hx
      rw [← hi, h.sessKey k x hk]; exact ⟨x, hk, ht⟩
    · rintro ⟨x, hx, ht⟩
      exact ⟨x, mem_exportVals.mpr ⟨i, hx⟩, ht, h.sessKey i x hx⟩
  · rintro ⟨a, i⟩
    rw [imported_sessForAcc]
    apply Tbl.get_unit_ext
    rw [Tbl.get_keysOn, h.sessAcc a i]
    simp only [List.mem_map, Prod.mk.injEq, Tbl.get_nil, or_false, reduceCtorEq]
    constructor
    · rintro ⟨x, hx, ht, hi⟩
      obtain ⟨k, hk⟩ := mem_exportVals.mp hx
      rw [← hi, h.sessKey k x hk]; exact ⟨x, hk, ht⟩
    · rintro ⟨x, hx, ht⟩
      exact ⟨x, mem_exportVals.mpr ⟨i, hx⟩, ht, h.sessKey i x hx⟩
  · rintro ⟨a, i⟩
    rw [imported_sessForNode]
    apply Tbl.get_unit_ext
    rw [Tbl.get_keysOn, h.sessNode a i]
    simp only [List.mem_map, Prod.mk.injEq, Tbl.get_nil, or_false, reduceCtorEq]
    constructor
    · rintro ⟨x, hx, ht, hi⟩
      obtain ⟨k, hk⟩ := mem_exportVals.mp hx
      rw [← hi, h.sessKey k x hk]; exact ⟨x, hk, ht⟩
    · rintro ⟨x, hx, ht⟩
      exact ⟨x, mem_exportVals.mpr ⟨i, hx⟩, ht, h.sessKey i x hx⟩
  · rintro ⟨b, i⟩
    rw [imported_sessForSub]
    apply Tbl.get_unit_ext
    rw [Tbl.get_keysOn, h.sessSub b i]
    simp only [List.mem_map, Prod.mk.injEq, Tbl.get_nil, or_false, reduceCtorEq]
    constructor
    · rintro ⟨x, hx, ht, hi⟩
      obtain ⟨k, hk⟩ := mem_exportVals.mp hx
      rw [← hi, h.sessKey k x hk]; exact ⟨x, hk, ht⟩
    · rintro ⟨x, hx, ht⟩
      exact ⟨x, mem_exportVals.mpr ⟨i, hx⟩, ht, h.sessKey i x hx⟩
  · rintro ⟨b, a, i⟩
    rw [imported_sessForAlloc]
    apply Tbl.get_unit_ext
    rw [Tbl.get_keysOn, h.sessAlloc b a i]
    simp only [List.mem_map, Prod.mk.injEq, Tbl.get_nil, or_false, reduceCtorEq]
    constructor
    · rintro ⟨x, hx, hb, ha, hi⟩
      obtain ⟨k, hk⟩ := mem_exportVals.mp hx
      rw [← hi, h.sessKey k x hk]; exact ⟨x, hk, hb, ha⟩
    · rintro ⟨x, hx, hb, ha⟩
      exact ⟨x, mem_exportVals.mpr ⟨i, hx⟩, hb, ha, h.sessKey i x hx⟩
  · intro k; rw [imported_swaps]; exact get_import_exportVals _ _ h.swapNodup h.swapKey k
  · intro k; rw [imported_inflations]; exact get_import_exportVals _ _ h.inflNodup h.inflKey k

end agree

/-! ## The partial theorem -/

/-- **C12, proved part.** For every state that is well-formed in the sense of `GenWF` (as reachable
states are, provided no recorded swap is below 100 — F4): the export does not panic, the exported
genesis passes the validation of all three modules, the re-import succeeds, and the new state agrees
with the old one on deposits, providers, nodes and node queue, plans, links, provider index and plan
counter, sessions with the session queue and all four session indices, swaps, the inflation schedule,
all parameters, and the SDK side.

Missing for the full statement (and false on this tree): the eleven subscription tables and the
subscription counter (F5), the session counter (F9), hence the continuation (identifiers are reissued;
a surviving session cannot be settled). -/
theorem roundtrip_partial (s : State) (h : GenWF s) :
    exportPanics s = false ∧
    validateGenesis (exportVpn s) (exportSwap s) (exportMint s) = none ∧
    ∃ s', reimport s = some s' ∧ Agree s s' :=
  ⟨export_no_panic h, export_valid h, imported s, reimport_ok h, agree_imported h⟩

/-! ## What every round trip loses (no hypotheses) -/

theorem status_of_isOneOf {st : Status} (h : st.IsOneOf [.StatusActive, .StatusInactive] = true) :
    st = .StatusActive ∨ st = .StatusInactive := by
  cases st <;> simp [Status.IsOneOf, Status.Equal] at h ⊢

/-- A successful re-import always yields `imported s`. -/
theorem reimport_eq_imported {s s' : State} (h : reimport s = some s') : s' = imported s := by
  unfold reimport at h
  split at h
  · cases h
  · split at h
    · cases h
    · rename_i hv
      have hvpn : validateVpn (exportVpn s) = none := by
        unfold validateGenesis at hv
        rw [firstOf_eq_none] at hv
        exact pfx_eq_none.mp (hv (pfx "vpn:" (validateVpn (exportVpn s))) (by simp))
      unfold validateVpn at hvpn
      rw [firstOf_eq_none] at hvpn
      have hR : ∀ p ∈ exportProviders s, p.status = .StatusActive ∨ p.status = .StatusInactive := by
        intro p hp
        have h1 := pfx_eq_none.mp (hvpn (pfx "invalid provider genesis: " (validateProviderGenesis (exportVpn s).providers (exportVpn s).providerParams)) (by simp))
        unfold validateProviderGenesis at h1
        rw [firstOf_eq_none] at h1
        have h2 := h1 (firstErr (exportVpn s).providers Provider.validate) (by simp)
        rw [firstErr_eq_none] at h2
        have h3 := h2 p hp
        unfold Provider.validate at h3
        rw [firstOf_eq_none] at h3
        exact status_of_isOneOf (chk_eq_none.mp (h3 (chk (p.status.IsOneOf [.StatusActive, .StatusInactive]) "status must be one of [active, inactive]") (by simp)))
      have hN : ∀ n ∈ exportNodes s, n.status = .StatusActive ∨ n.status = .StatusInactive := by
        intro p hp
        have h1 := pfx_eq_none.mp (hvpn (pfx "invalid node genesis: " (validateNodeGenesis (exportVpn s).nodes (exportVpn s).nodeParams)) (by simp))
        unfold validateNodeGenesis at h1
        rw [firstOf_eq_none] at h1
        have h2 := h1 (firstErr (exportVpn s).nodes Node.validate) (by simp)
        rw [firstErr_eq_none] at h2
        have h3 := h2 p hp
        unfold Node.validate at h3
        rw [firstOf_eq_none] at h3
        exact status_of_isOneOf (chk_eq_none.mp (h3 (chk (p.status.IsOneOf [.StatusActive, .StatusInactive]) "status must be one of [active, inactive]") (by simp)))
      have hP : ∀ it ∈ exportPlans s, it.plan.status = .StatusActive ∨ it.plan.status = .StatusInactive := by
        intro p hp
        have h1 := pfx_eq_none.mp (hvpn (pfx "invalid plan genesis: " (validatePlanGenesis (exportVpn s).plans)) (by simp))
        unfold validatePlanGenesis at h1
        rw [firstOf_eq_none] at h1
        have h2 := h1 (firstErr (exportVpn s).plans (fun it => it.plan.validate)) (by simp)
        rw [firstErr_eq_none] at h2
        have h3 := h2 p hp
        unfold Plan.validate at h3
        rw [firstOf_eq_none] at h3
        exact status_of_isOneOf (chk_eq_none.mp (h3 (chk (p.plan.status.IsOneOf [.StatusActive, .StatusInactive]) "status must be one of [active, inactive]") (by simp)))
      rw [initGenesis_exported s hN hP hR] at h
      simp only [Option.some.injEq] at h
      exact h.symm

/-- **F5, in general.** Whatever the state, after a successful round trip every subscription table is
empty and the subscription counter is absent: subscriptions, allocations, payouts and the identifiers
issued so far are lost. -/
theorem reimport_loses_subscriptions {s s' : State} (h : reimport s = some s') :
    s'.subs = [] ∧ s'.subQ = [] ∧ s'.subForAcc = [] ∧ s'.subForNode = [] ∧ s'.subForPlan = [] ∧ s'.allocs = [] ∧
    s'.payouts = [] ∧ s'.payQ = [] ∧ s'.payForAcc = [] ∧ s'.payForNode = [] ∧ s'.payForAccNode = [] ∧ s'.subCount = none := by
  rw [reimport_eq_imported h]; exact imported_subscriptions_empty s

/-- **F9, in general.** After a successful round trip the session counter is the largest identifier
among the sessions still stored, whatever it was before. -/
theorem reimport_session_counter {s s' : State} (h : reimport s = some s') :
    s'.sessCount = some (maxId ((exportVals session.SessionKey s.sessions).map (·.id))) := by
  rw [reimport_eq_imported h]; exact imported_sessCount s

/-- Consequently, when the session with the largest identifier has already been settled (every stored
session has a smaller identifier than the counter), the counter goes back. -/
theorem reimport_session_counter_decreases {s s' : State} {c : Nat} (h : reimport s = some s')
    (_hc : s.sessCount = some c) (hpos : 0 < c) (hk : ∀ i x, s.sessions.get i = some x → x.id < c) :
    ∃ c', s'.sessCount = some c' ∧ c' < c := by
  refine ⟨_, reimport_session_counter h, ?_⟩
  rcases maxId_mem ((exportVals session.SessionKey s.sessions).map (·.id)) with h0 | hm
  · omega
  · obtain ⟨x, hx, hid⟩ := List.mem_map.mp hm
    obtain ⟨i, hi⟩ := mem_exportVals.mp hx
    rw [← hid]; exact hk i x hi

/-! ## Continuation: the surviving component processes provider/node/plan messages alike

The continuation half of C12 is false in general (F5, F9). For the component the round trip keeps it is
proved here for the nine provider / node / plan management messages (registration, update, status
change, plan creation, status, link, unlink): delivered to the original state and to the re-imported
state, any sequence of them gives the same outcomes (accept / reject with the same error), the same
events, and states that again agree on the provider, node and plan tables, the node queue, links,
provider index, plan counter, balances and parameters.

Not covered (stated, not proved): block processing (`begin`/`end`: the hooks iterate tables in key
order, which needs injectivity of the key encodings, C17, to be order-independent) and the
subscription/session messages (which read the lost tables). -/

/-- The provider / node / plan management messages. -/
def isPNP : Msg → Bool
  | .provRegister .. | .provUpdate .. | .nodeRegister .. | .nodeUpdate .. | .nodeStatus ..
  | .planCreate .. | .planStatus .. | .planLink .. | .planUnlink .. => true
  | _ => false

theorem handle_rel {s s' : State} (h : AgreePNP s s') (m : Msg) (hm : isPNP m = true) : RelM (m.handle s) (m.handle s') := by
  cases m <;> simp only [isPNP, Bool.false_eq_true] at hm <;> simp only [Msg.handle]
  case provRegister => exact provRegister_rel h _ _ _ _ _
  case provUpdate => exact provUpdate_rel h _ _ _ _ _ _
  case nodeRegister => exact nodeRegister_rel h _ _ _ _
  case nodeUpdate => exact nodeUpdate_rel h _ _ _ _
  case nodeStatus => exact nodeStatus_rel h _ _
  case planCreate => exact planCreate_rel h _ _ _ _
  case planStatus => exact planStatus_rel h _ _ _
  case planLink => exact planLink_rel h _ _ _
  case planUnlink => exact planUnlink_rel h _ _ _

theorem agreePNP_clear {s s' : State} (h : AgreePNP s s') : AgreePNP { s with events := [] } { s' with events := [] } :=
  { h with events := rfl }

/-- One delivered message: same outcome, related states (events included). Only the event-cleared
states need to be related beforehand (`deliver` clears the buffer first). -/
theorem deliver_pnp {s s' : State} (h : AgreePNP { s with events := [] } { s' with events := [] }) (m : Msg) (hm : isPNP m = true) :
    AgreePNP (deliver s m).1 (deliver s' m).1 ∧ (deliver s' m).2 = (deliver s m).2 := by
  have hr : RelM (do m.validateBasic; m.handle { s with events := [] } : M State)
      (do m.validateBasic; m.handle { s' with events := [] } : M State) := by
    cases m.validateBasic with
    | error e => show RelM (.error _) (.error _); rfl
    | ok u => exact handle_rel h m hm
  unfold deliver
  dsimp only
  generalize (do m.validateBasic; m.handle { s with events := [] } : M State) = r at hr
  generalize (do m.validateBasic; m.handle { s' with events := [] } : M State) = r' at hr
  cases r with
  | ok t => cases r' with
    | ok t' => exact ⟨hr, rfl⟩
    | error e' => exact hr.elim
  | error e => cases r' with
    | ok t' => exact hr.elim
    | error e' =>
      have : e = e' := hr
      subst this
      cases e <;> exact ⟨h, rfl⟩

/-- Deliver a list of messages, collecting outcomes and events. -/
def deliverAll (s : State) : List Msg → State × List (Outcome × List Event)
  | [] => (s, [])
  | m :: rest =>
    let r := deliver s m
    let q := deliverAll r.1 rest
    (q.1, (r.2, r.1.events) :: q.2)

theorem deliverAll_pnp {s s' : State} (h : AgreePNP { s with events := [] } { s' with events := [] })
    (ms : List Msg) (hms : ∀ m ∈ ms, isPNP m = true) :
    AgreePNP { (deliverAll s ms).1 with events := [] } { (deliverAll s' ms).1 with events := [] } ∧
    (deliverAll s' ms).2 = (deliverAll s ms).2 := by
  induction ms generalizing s s' with
  | nil => exact ⟨h, rfl⟩
  | cons m rest ih =>
    obtain ⟨h1, h2⟩ := deliver_pnp h m (hms m (List.mem_cons_self ..))
    obtain ⟨h3, h4⟩ := ih (agreePNP_clear h1) (fun x hx => hms x (List.mem_cons_of_mem _ hx))
    refine ⟨h3, ?_⟩
    show (_, _) :: _ = (_, _) :: _
    rw [h2, h1.events, h4]

/-- What `Agree` gives for the provider/node/plan component. -/
theorem Agree.toPNP {s s' : State} (h : Agree s s') : AgreePNP { s with events := [] } { s' with events := [] } :=
  { bank := h.bank, time := h.time, params := h.params, events := rfl, planCount := h.planCount,
    provActive := h.provActive, provInactive := h.provInactive, nodeActive := h.nodeActive, nodeInactive := h.nodeInactive,
    nodeQ := h.nodeQ, nodeForPlan := h.nodeForPlan, planActive := h.planActive, planInactive := h.planInactive,
    planForProv := h.planForProv }

/-- **Continuation, surviving component.** After the round trip of a well-formed state every sequence of
provider/node/plan messages is processed with the same outcomes and events as on the original state,
and the two final states again agree on that component. -/
theorem continuation_partial (s : State) (h : GenWF s) (ms : List Msg) (hms : ∀ m ∈ ms, isPNP m = true) :
    ∃ s', reimport s = some s' ∧
      (deliverAll s' ms).2 = (deliverAll s ms).2 ∧
      AgreePNP { (deliverAll s ms).1 with events := [] } { (deliverAll s' ms).1 with events := [] } := by
  refine ⟨imported s, reimport_ok h, ?_⟩
  obtain ⟨a, b⟩ := deliverAll_pnp (agree_imported h).toPNP ms hms
  exact ⟨b, a⟩

/-- The same for whole histories including block processing and every message that does not touch a
subscription: stated, not proved (see the note above). It compares dumps, not events (the first `endBlock` on `s'`
sweeps the node prices, see `export_valid_and_equivalent`), and for a state whose node prices violate a bound
(possible under `GenWF` alone, not at a boundary of a reachable state: C11) the sweep would have to be excluded too. -/
def continuation_surviving : Prop :=
  ∀ s, GenWF s → s.subs = [] → s.sessions = [] → s.deposits = [] →
    ∀ h : List Op, (∀ op ∈ h, match op with | .tx m => isPNP m = true | _ => True) →
      ∃ s', reimport s = some s' ∧ (runTrace s' h).map dump = (runTrace s h).map dump

/-! ## The executable form of `GenWF` is sound

`genWFb` (in `Hub.Model.Genesis`, core Lean, usable as a run-time monitor) implies `GenWF`; so the
hypotheses of `roundtrip_partial` can be *checked* on any concrete state, in particular on every state
of a replayed history. -/

theorem isNone_iff {o : Option String} : o.isNone = true ↔ o = none := by cases o <;> simp

theorem genWF_of_check {s : State} (h : genWFb s = true) : GenWF s := by
  unfold genWFb genWFChecks at h
  simp only [List.all_cons, List.all_nil, Bool.and_true] at h
  simp only [Bool.and_eq_true] at h
  obtain ⟨c1, c2, c3, c4, c5, c6, c7, c8, c9, c10, c11, c12, c13, c14, c15, c16, c17, c18, c19, c20, c21, c22, c23, c24, c25, c26, c27, c28⟩ := h
  have hplan := partOK_of_b c8
  have genPlanAt_iff : ∀ i p, genPlanAt s i = some p ↔ (s.planActive.get i = some p ∨ s.planInactive.get i = some p) := by
    intro i p; unfold genPlanAt
    cases ha : s.planActive.get i with
    | none => simp
    | some x =>
      simp only [Option.some.injEq]
      constructor
      · intro e; exact Or.inl e
      · rintro (e | e)
        · exact e
        · rw [hplan.disj i x ha] at e; cases e
  refine
    { depNodup := genNodupKeys_iff.mp c1, linkNodup := genNodupKeys_iff.mp c2, sessNodup := genNodupKeys_iff.mp c3,
      swapNodup := genNodupKeys_iff.mp c4, inflNodup := genNodupKeys_iff.mp c5,
      prov := partOK_of_b c6, node := partOK_of_b c7, plan := hplan,
      sessKey := fun i x hg => by simpa using all_of_get c9 hg,
      swapKey := fun i x hg => by simpa using all_of_get c10 hg,
      inflKey := fun i x hg => by simpa using all_of_get c11 hg,
      nodeQ := ?_, planIdx := ?_, links := ?_, sessQ := ?_, sessAcc := ?_, sessNode := ?_, sessSub := ?_, sessAlloc := ?_,
      planCount := ?_,
      depValid := fun a cs hg => isNone_iff.mp (all_of_get c21 hg),
      provValid := ?_, nodeValid := ?_, planValid := ?_,
      sessValid := fun i x hg => isNone_iff.mp (all_of_get c25 hg),
      swapValid := fun i x hg => isNone_iff.mp (all_of_get c26 hg),
      inflValid := fun i x hg => isNone_iff.mp (all_of_get c27 hg),
      paramsValid := ?_ }
  · intro t a
    rw [index_of_b c12 (t, a)]
    simp only [Prod.mk.injEq, and_true]
  · intro a i
    obtain ⟨⟨d1, d2⟩, d3⟩ := c13
    constructor
    · intro hg
      have := all_of_get d1 hg
      cases hp : genPlanAt s i with
      | none => rw [hp] at this; cases this
      | some pl => rw [hp] at this; exact ⟨pl, (genPlanAt_iff i pl).mp hp, of_decide_eq_true this⟩
    · rintro ⟨p, hp | hp, rfl⟩
      · exact has_true_iff.mp (all_of_get d2 hp)
      · exact has_true_iff.mp (all_of_get d3 hp)
  · intro i a hg
    have := all_of_get c14 hg
    simp only [Bool.and_eq_true, Bool.or_eq_true, Tbl.has_iff] at this
    obtain ⟨hp, hn⟩ := this
    refine ⟨?_, ?_⟩
    · rcases hp with ⟨p, hp⟩ | ⟨p, hp⟩
      · exact ⟨p, Or.inl hp⟩
      · exact ⟨p, Or.inr hp⟩
    · rcases hn with ⟨p, hp⟩ | ⟨p, hp⟩
      · exact ⟨p, Or.inl hp⟩
      · exact ⟨p, Or.inr hp⟩
  · intro t i
    rw [index_of_b c15 (t, i)]
    simp only [Prod.mk.injEq, and_true]
  · intro a i
    rw [index_of_b c16 (a, i)]
    simp only [Prod.mk.injEq, and_true]
  · intro a i
    rw [index_of_b c17 (a, i)]
    simp only [Prod.mk.injEq, and_true]
  · intro b i
    rw [index_of_b c18 (b, i)]
    simp only [Prod.mk.injEq, and_true]
  · intro b a i
    rw [index_of_b c19 (b, a, i)]
    simp only [Prod.mk.injEq, and_true]
  · cases hc : s.planCount with
    | none => rw [hc] at c20; cases c20
    | some c =>
      rw [hc] at c20
      simp only [Bool.and_eq_true, Bool.or_eq_true, decide_eq_true_eq, Tbl.has_iff] at c20
      obtain ⟨⟨e1, e2⟩, e3⟩ := c20
      refine ⟨c, rfl, ?_, ?_⟩
      · rintro i p (hp | hp)
        · simpa using all_of_get e1 hp
        · simpa using all_of_get e2 hp
      · rcases e3 with (e3 | ⟨p, hp⟩) | ⟨p, hp⟩
        · exact Or.inl e3
        · exact Or.inr ⟨p, Or.inl hp⟩
        · exact Or.inr ⟨p, Or.inr hp⟩
  · rintro a p (hp | hp)
    · exact isNone_iff.mp (all_of_get c22.1 hp)
    · exact isNone_iff.mp (all_of_get c22.2 hp)
  · rintro a p (hp | hp)
    · exact isNone_iff.mp (all_of_get c23.1 hp)
    · exact isNone_iff.mp (all_of_get c23.2 hp)
  · rintro a p (hp | hp)
    · exact isNone_iff.mp (all_of_get c24.1 hp)
    · exact isNone_iff.mp (all_of_get c24.2 hp)
  · simp only [isNone_iff] at c28
    obtain ⟨⟨⟨⟨p1, p2⟩, p3⟩, p4⟩, p5⟩ := c28
    exact ⟨p1, p2, p3, p4, p5⟩


/-! ## Witnesses: reachable states on which the full statement fails

Each witness state is *computed* by the model from a genesis of the domain and a history (so it is
reachable by construction); the same history is a corpus file that the check replays on the real
application. `decide +kernel` evaluates the model in the kernel. -/

section witnesses

def wParams : Params :=
  { provDeposit := ⟨"udvpn", 0⟩, provShare := 100000000000000000, nodeDeposit := ⟨"udvpn", 0⟩, activeDur := 86400000000000,
    maxGB := [], minGB := [], maxHr := [], minHr := [], maxSubGB := 10, minSubGB := 1, maxSubHr := 10, minSubHr := 1,
    nodeShare := 100000000000000000, subDelay := 7200000000000, sessDelay := 1800000000000, proof := false,
    swapOn := true, swapDenom := "udvpn", approveBy := [1] }

/-- The genesis of `corpus/C12_F*.ops`. -/
def wGenesis : Genesis :=
  { time := 1700000000000000000, params := wParams,
    balances := [([1], "udvpn", 1000000000), ([2], "udvpn", 1000000000), ([3], "udvpn", 1000000000), ([4], "udvpn", 1000000000)] }

def acc (b : UInt8) : TextAddr := { role := .acc, bytes := [b] }
def nod (b : UInt8) : TextAddr := { role := .node, bytes := [b] }
/-- "https://n.example:8080" -/
def wUrl : Bytes := [0x68,0x74,0x74,0x70,0x73,0x3a,0x2f,0x2f,0x6e,0x2e,0x65,0x78,0x61,0x6d,0x70,0x6c,0x65,0x3a,0x38,0x30,0x38,0x30]
def udvpn (n : Int) : Option Coins := some [⟨"udvpn", n⟩]
def wNodeUp : List Op :=
  [.tx (.nodeRegister (acc 2) (udvpn 10) (udvpn 5) wUrl true), .tx (.nodeStatus (nod 2) 1)]

/-! ### F4 — a small swap invalidates the export -/

def hashB : Bytes := List.replicate 32 0xbb
/-- corpus/C12_F4_small_swap_invalid.ops (second block). -/
def histF4 : List Op := [.begin 1700000005000000000, .tx (.swap (acc 1) hashB (acc 3) 500), .endB]
theorem histF4_runs : (run wGenesis.state histF4).isSome = true := by decide +kernel
def wF4 : State := (run wGenesis.state histF4).get histF4_runs

theorem wF4_reachable : Reachable wF4 ∧ AtBoundary wF4 :=
  ⟨⟨wGenesis, histF4, (Option.some_get histF4_runs).symm⟩, by show wF4.modified = {}; decide +kernel⟩

/-- **F4.** The approver's swap of 500 is accepted and recorded as 5; the exported genesis of the
resulting (reachable, block-boundary) state fails `Swap.Validate` ("amount cannot be less than 100"),
so there is nothing to re-import. -/
theorem small_swap_invalidates_export :
    (wF4.swaps.get hashB).map (·.amt) = some ⟨"udvpn", 5⟩ ∧
    validateVpn (exportVpn wF4) = none ∧
    (validateSwap (exportSwap wF4)).isSome = true ∧
    validateGenesis (exportVpn wF4) (exportSwap wF4) (exportMint wF4) ≠ none ∧
    (reimport wF4).isNone = true := by decide +kernel

/-! ### F5 — subscriptions are lost -/

/-- corpus/C12_F5_subscriptions_lost.ops: a per-gigabyte subscription (allocation) with a session and a
per-hour subscription (payout). -/
def histF5 : List Op :=
  [.begin 1700000005000000000] ++ wNodeUp ++
  [.tx (.nodeSubscribe (acc 3) (nod 2) 1 0 "udvpn"), .tx (.nodeSubscribe (acc 3) (nod 2) 0 2 "udvpn"),
   .tx (.sessStart (acc 3) 1 (nod 2)), .endB]
theorem histF5_runs : (run wGenesis.state histF5).isSome = true := by decide +kernel
def wF5 : State := (run wGenesis.state histF5).get histF5_runs
theorem wF5_reachable : Reachable wF5 ∧ AtBoundary wF5 :=
  ⟨⟨wGenesis, histF5, (Option.some_get histF5_runs).symm⟩, by show wF5.modified = {}; decide +kernel⟩

theorem wF5_reimports : (reimport wF5).isSome = true := by decide +kernel
/-- The state after the round trip. -/
def wF5' : State := (reimport wF5).get wF5_reimports
theorem wF5_reimport : reimport wF5 = some wF5' := (Option.some_get wF5_reimports).symm

/-- **F5.** Two live subscriptions, an allocation, a payout and the counter 2 before; none of them
after the (valid, successful) round trip — while the escrow records, the escrow balance backing them and
the session that refers to subscription 1 are all still there. -/
theorem subscriptions_lost_by_roundtrip :
    validateGenesis (exportVpn wF5) (exportSwap wF5) (exportMint wF5) = none ∧
    (wF5.subs.keys = [1, 2] ∧ wF5.allocs.keys = [(1, [3])] ∧ wF5.payouts.keys = [2] ∧ wF5.subCount = some 2) ∧
    (wF5'.subs = [] ∧ wF5'.allocs = [] ∧ wF5'.payouts = [] ∧ wF5'.payQ = [] ∧ wF5'.subQ = [] ∧ wF5'.subCount = none) ∧
    (wF5'.deposits.get [3] = some [⟨"udvpn", 20⟩] ∧ balance wF5' depositAddr "udvpn" = 20) ∧
    (wF5'.sessions.get 1).map (·.sub) = some 1 := by decide +kernel

/-- The continuation differs, and fatally: ending the surviving session and letting it settle halts
the re-imported chain (`subscription does not exist` in the session EndBlock), while the original chain
processes the same history. -/
def contF5 : List Op :=
  [.begin 1700000100000000000, .tx (.sessEnd (acc 3) 1 0), .endB, .begin 1700002000000000000, .endB]
theorem roundtrip_then_halt : (run wF5 contF5).isSome = true ∧ (run wF5' contF5).isNone = true := by decide +kernel

/-! ### F9 — the session counter goes back -/

/-- corpus/C12_F9_session_counter_reissued.ops: sessions 1 (kept alive) and 2 (ended, settled). -/
def histF9 : List Op :=
  [.begin 1700000005000000000] ++ wNodeUp ++
  [.tx (.nodeSubscribe (acc 3) (nod 2) 1 0 "udvpn"), .tx (.nodeSubscribe (acc 3) (nod 2) 1 0 "udvpn"),
   .tx (.sessStart (acc 3) 1 (nod 2)), .tx (.sessStart (acc 3) 2 (nod 2)), .tx (.sessEnd (acc 3) 2 0), .endB,
   .begin 1700001000000000000, .tx (.sessUpdate (nod 2) 1 10 10 1 .none), .endB,
   .begin 1700001900000000000, .endB]
theorem histF9_runs : (run wGenesis.state histF9).isSome = true := by decide +kernel
def wF9 : State := (run wGenesis.state histF9).get histF9_runs
theorem wF9_reachable : Reachable wF9 ∧ AtBoundary wF9 :=
  ⟨⟨wGenesis, histF9, (Option.some_get histF9_runs).symm⟩, by show wF9.modified = {}; decide +kernel⟩
theorem wF9_reimports : (reimport wF9).isSome = true := by decide +kernel
def wF9' : State := (reimport wF9).get wF9_reimports
theorem wF9_reimport : reimport wF9 = some wF9' := (Option.some_get wF9_reimports).symm

/-- A fresh subscription and a session on it, after the round trip. -/
def contF9 : List Op :=
  [.begin 1700002000000000000, .tx (.nodeSubscribe (acc 4) (nod 2) 1 0 "udvpn"), .tx (.sessStart (acc 4) 1 (nod 2)), .endB]

/-- **F9.** Identifiers 1 and 2 were issued (counter 2), session 2 is settled and gone, session 1 lives.
After the round trip the counter is 1, and the next session started gets identifier 2 again. -/
theorem session_counter_reissued :
    wF9.sessCount = some 2 ∧ wF9.sessions.keys = [1] ∧
    wF9'.sessCount = some 1 ∧
    ((run wF9' contF9).bind (·.sessions.get 2)).map (fun x => (x.id, x.sub, x.addr)) = some (2, 1, [4]) := by decide +kernel

/-! ### F8 (fixed) — an emptied deposit record is deleted -/

/-- The write-back after a subtraction never leaves an empty record. -/
theorem putDeposit_no_empty (s : State) (a : Addr) (c cs : Coins) (h : (putDeposit s a c).deposits.get a = some cs) :
    cs.isZero = false := by
  unfold putDeposit at h
  split at h
  · simp [deleteDeposit] at h
  · rename_i hz
    simp only [setDeposit, Tbl.get_set_eq, Option.some.injEq] at h
    rw [← h]; simpa using hz

/-- corpus/C12_F8_emptied_deposit_deleted.ops: an unused per-gigabyte subscription, cancelled, refunded in
full after the delay. -/
def histF8 : List Op :=
  [.begin 1700000005000000000] ++ wNodeUp ++
  [.tx (.nodeSubscribe (acc 4) (nod 2) 1 0 "udvpn"), .tx (.subCancel (acc 4) 1), .endB,
   .begin 1700007206000000000, .endB]
theorem histF8_runs : (run wGenesis.state histF8).isSome = true := by decide +kernel
def wF8 : State := (run wGenesis.state histF8).get histF8_runs

/-- **F8, fixed.** After the full refund there is no deposit record left (before the fix: a record with
empty coins, which `Deposit.Validate` rejects), the escrow account is empty, the export validates and
re-imports. -/
theorem emptied_deposit_is_deleted :
    wF8.deposits = [] ∧ wF8.subs = [] ∧ balance wF8 depositAddr "udvpn" = 0 ∧ balance wF8 [4] "udvpn" = 1000000000 ∧
    validateGenesis (exportVpn wF8) (exportSwap wF8) (exportMint wF8) = none ∧ (reimport wF8).isSome = true := by decide +kernel

end witnesses

/-! ## Non-vacuity: the hypotheses hold on non-trivial reachable states -/

section examples

def prv (b : UInt8) : TextAddr := { role := .prov, bytes := [b] }
def hashA : Bytes := List.replicate 32 0xaa

/-- First block of corpus/C12_roundtrip_basic.ops (with the deposits of this genesis): an active and an
inactive provider, an active node (queue entry) and an inactive one, two plans (one active) with three
links, two subscriptions with a session each (one already ending), a swap of 20000 (recorded 200). -/
def histRich : List Op :=
  [.begin 1700000005000000000,
   .tx (.provRegister (acc 1) [0x70] [] [] [] true), .tx (.provRegister (acc 4) [0x71, 0x75] [0x69, 0x64] [] [0x64] true),
   .tx (.provUpdate (prv 1) [] [] [] [] 1 true)] ++ wNodeUp ++
  [.tx (.nodeRegister (acc 4) (udvpn 20) (udvpn 7) wUrl true),
   .tx (.planCreate (prv 1) 86400000000000 10 (udvpn 100)), .tx (.planCreate (prv 1) 172800000000000 20 (udvpn 150)),
   .tx (.planStatus (prv 1) 1 1), .tx (.planLink (prv 1) 1 (nod 2)), .tx (.planLink (prv 1) 1 (nod 4)), .tx (.planLink (prv 1) 2 (nod 4)),
   .tx (.nodeSubscribe (acc 3) (nod 2) 1 0 "udvpn"), .tx (.nodeSubscribe (acc 3) (nod 2) 1 0 "udvpn"),
   .tx (.sessStart (acc 3) 1 (nod 2)), .tx (.sessStart (acc 3) 2 (nod 2)),
   .tx (.sessUpdate (nod 2) 2 300000000 200000000 10 .none), .tx (.sessEnd (acc 3) 2 5),
   .tx (.swap (acc 1) hashA (acc 3) 20000), .endB]
theorem histRich_runs : (run wGenesis.state histRich).isSome = true := by decide +kernel
def wRich : State := (run wGenesis.state histRich).get histRich_runs

example : wRich.provActive.keys = [[1]] ∧ wRich.provInactive.keys = [[4]] ∧ wRich.nodeActive.keys = [[2]] ∧ wRich.nodeInactive.keys = [[4]] ∧
    wRich.planActive.keys = [1] ∧ wRich.planInactive.keys = [2] ∧ wRich.nodeForPlan.keys = [(1, [2]), (1, [4]), (2, [4])] ∧
    wRich.sessions.keys = [1, 2] ∧ wRich.swaps.keys = [hashA] ∧ wRich.planCount = some 2 ∧ wRich.sessCount = some 2 := by decide +kernel

theorem wRich_wf : GenWF wRich := genWF_of_check (by decide +kernel)
example : GenWF wF5 := genWF_of_check (by decide +kernel)
example : GenWF wF9 := genWF_of_check (by decide +kernel)
example : GenWF wF8 := genWF_of_check (by decide +kernel)

/-- `roundtrip_partial` applied. -/
example : ∃ s', reimport wRich = some s' ∧ Agree wRich s' := (roundtrip_partial wRich wRich_wf).2.2

/-- `continuation_partial` applied: a further plan, a link and a status change after the round trip. -/
example : ∃ s', reimport wRich = some s' ∧
    (deliverAll s' [.planCreate (prv 1) 86400000000000 5 (udvpn 50), .planLink (prv 1) 3 (nod 2), .nodeStatus (nod 4) 1]).2 =
    (deliverAll wRich [.planCreate (prv 1) 86400000000000 5 (udvpn 50), .planLink (prv 1) 3 (nod 2), .nodeStatus (nod 4) 1]).2 := by
  obtain ⟨s', h1, h2, _⟩ := continuation_partial wRich wRich_wf
    [.planCreate (prv 1) 86400000000000 5 (udvpn 50), .planLink (prv 1) 3 (nod 2), .nodeStatus (nod 4) 1] (by decide)
  exact ⟨s', h1, h2⟩

/-- On the F4 witness the hypotheses fail, and exactly in the swap-record check. -/
example : genWFb wF4 = false ∧ genWFViolations wF4 = ["swap records valid (F4: amount >= 100)"] := by decide +kernel

end examples

end Hub.Props.C12
