import Hub.Lemmas.Recipients
/-
C01, destination clause — "whatever leaves a user's balance or the escrow arrives in the same step
in exactly one of the escrow, a provider, a node, the subscriber, the fee collector or the community
pool."

The conservation half (nothing is minted or burnt) is `Hub.Props.C01`.  This file proves WHO can be
credited.  Definitions (in `Hub/Lemmas/Recipients.lean`):

* `CreditsOnly s s' R` — every (account, denomination) balance that is larger in `s'` than in `s`
  belongs to an account in `R`;
* `Payee s a` — `a` is the escrow (`depositAddr`), the fee collector, the community pool (the
  distribution module account `distrAddr`), the provider of a plan stored in `s`, the owner of a
  subscription stored in `s`, or the node of a node subscription / payout / session stored in `s`.
  It is read off the PRE-state of the step, so it is a fixed set for the whole step although block
  hooks read their records live from intermediate states.

Theorems:

* `step_credits_only_payees` — every operation of the model (each of the 16 marketplace messages,
  accepted or rejected; a begin-of-block; an end-of-block; a governance change) credits only payees
  of its pre-state.  Hypotheses on the pre-state, both needed (see the two `example`s at the end):
  - `DepositParamsOK s`: the provider/node registration deposits are not negative — a negative
    deposit parameter makes `MsgRegister` "send" a negative coin to the community pool, i.e. credit
    the signer.  Governance cannot set a negative deposit (`validCoinParam`), only a genesis could.
  - `PayoutOwned s`: the account a stored payout draws on owns a stored subscription — the expiry
    refund of a per-hour subscription is paid to the PAYOUT's account (`refundHr`), which is "the
    subscriber" only because of this index invariant.  It follows from `SubIdx` (C09), hence from
    `StructInv`, hence holds in every reachable state.
* `swap_credits_only_receiver` — the remaining operation, `MsgSwap`, credits only the swap's receiver
  (no hypothesis).
* `step_credits_only_payees_of_structInv`, `credits_only_payees_reachable`,
  `credits_only_payees_all_histories` — the corollaries for states satisfying the structural
  invariants, for reachable states, and for every step from every state of every history from every
  genesis whose two deposit parameters are not negative.

Nothing is left partial.
-/
namespace Hub.Props.C01Recipients
open Hub.SDK Hub.Model

/-- **C01, destination clause.**  One operation other than a swap credits only payees of its
pre-state: the escrow, the fee collector, the community pool, a plan's provider, a subscription's
owner, or the node of a node subscription, payout or session. -/
theorem step_credits_only_payees {s s' : State} {op : Op} (h : step s op = some s') (hsw : op.isSwap = false)
    (hp : DepositParamsOK s) (ho : PayoutOwned s) : CreditsOnly s s' (Payee s) :=
  step_credits h hsw hp ho

/-- A swap step — accepted or rejected — credits only the swap's receiver (the swap module account
receives the minted coin and passes it on in the same step). -/
theorem swap_credits_only_receiver {s s' : State} {frm recv : TextAddr} {hash : Bytes} {amt : Int}
    (h : step s (.tx (.swap frm hash recv amt)) = some s') : CreditsOnly s s' (fun a => a = recv.bytes) :=
  step_swap_credits h

/-- The index hypothesis is a consequence of the structural invariants. -/
theorem step_credits_only_payees_of_structInv {s s' : State} {op : Op} (h : step s op = some s')
    (hsw : op.isSwap = false) (hp : DepositParamsOK s) (hi : StructInv s) : CreditsOnly s s' (Payee s) :=
  step_credits h hsw hp hi.payoutOwned

/-- … so in a reachable state only the parameter hypothesis is left. -/
theorem credits_only_payees_reachable {s s' : State} {op : Op} (hr : Reachable s) (h : step s op = some s')
    (hsw : op.isSwap = false) (hp : DepositParamsOK s) : CreditsOnly s s' (Payee s) :=
  step_credits h hsw hp hr.structInv.payoutOwned

/-- **Every step from every state of every history** from a genesis whose two deposit parameters are
not negative: anything but a swap credits only payees of the state it starts from, a swap only its
receiver. -/
theorem credits_only_payees_all_histories (g : Genesis) (h0 : 0 ≤ g.params.provDeposit.amount)
    (h1 : 0 ≤ g.params.nodeDeposit.amount) (ops : List Op) (s : State) (hs : s = g.state ∨ s ∈ runTrace g.state ops)
    (op : Op) (s' : State) (h : step s op = some s') :
    (op.isSwap = false → CreditsOnly s s' (Payee s)) ∧
    (∀ frm hash recv amt, op = .tx (.swap frm hash recv amt) → CreditsOnly s s' (fun a => a = recv.bytes)) := by
  have hp : DepositParamsOK s := by
    rcases hs with rfl | hs
    · exact genesis_depositParamsOK g h0 h1
    · exact depositParamsOK_all_histories_from ops g.state (genesis_depositParamsOK g h0 h1) s hs
  have hr : Reachable s := ⟨g, ops, hs⟩
  refine ⟨fun hsw => credits_only_payees_reachable hr h hsw hp, ?_⟩
  intro frm hash recv amt e
  subst e
  exact step_swap_credits h

/-! ### non-vacuity: a state with a plan, a per-hour node subscription and its payout -/

def exParams : Params := { (default : Params) with provDeposit := ⟨"udvpn", 0⟩, nodeDeposit := ⟨"udvpn", 0⟩ }

/-- Account `05` holds a 2-hour subscription on node `07` (20udvpn in escrow, first hourly payout due);
provider `04` owns a plan. -/
def exState : State :=
  { time := 100, height := 5,
    bank := [((depositAddr, "udvpn"), 20), (([5], "udvpn"), 3)],
    supply := [("udvpn", 23)],
    deposits := [([5], [⟨"udvpn", 20⟩])],
    planInactive := [(1, { id := 1, prov := [4], dur := 10, gb := 1, prices := [], status := .StatusInactive, statusAt := 0 })],
    subs := [(1, { id := 1, addr := [5], inactiveAt := 7200000000100, status := .StatusActive, statusAt := 0,
                   kind := .node [7] 0 2 ⟨"udvpn", 20⟩ })],
    subQ := [((7200000000100, 1), ())],
    subForAcc := [(([5], 1), ())], subForNode := [(([7], 1), ())],
    payouts := [(1, { id := 1, addr := [5], node := [7], hours := 2, price := ⟨"udvpn", 10⟩, nextAt := 50 })],
    payQ := [((50, 1), ())], payForAcc := [(([5], 1), ())], payForNode := [(([7], 1), ())],
    payForAccNode := [(([5], [7], 1), ())],
    subCount := some 1, planCount := some 1, sessCount := some 0,
    params := exParams }

/-- The hypotheses of `step_credits_only_payees` hold in `exState` … -/
example : DepositParamsOK exState ∧ PayoutOwned exState := by
  refine ⟨⟨by decide, by decide⟩, ?_⟩
  intro i p hp
  refine ⟨1, _, rfl, ?_⟩
  simp only [exState, Tbl.get] at hp
  split at hp
  · rw [← Option.some.inj hp]
  · contradiction

/-- … the begin-of-block step from it does move money (the hourly payout: 10udvpn from the escrow to
node `07`) … -/
example : (step exState (.begin 200)).map
    (fun s' => (balance s' [7] "udvpn", balance s' [5] "udvpn", balance s' depositAddr "udvpn")) = some (10, 3, 10) := by
  decide +kernel

/-- … so the theorem applies to a step that credits somebody … -/
example : ∀ s', step exState (.begin 200) = some s' → CreditsOnly exState s' (Payee exState) := by
  intro s' h
  refine step_credits_only_payees h rfl ⟨by decide, by decide⟩ ?_
  intro i p hp
  refine ⟨1, _, rfl, ?_⟩
  simp only [exState, Tbl.get] at hp
  split at hp
  · rw [← Option.some.inj hp]
  · contradiction

/-- … and `Payee` is a proper set: node `07`, owner `05` and provider `04` are payees, account `09` is not. -/
example : Payee exState [7] ∧ Payee exState [5] ∧ Payee exState [4] :=
  ⟨Or.inr (Or.inr (Or.inr (Or.inr (Or.inr (Or.inl ⟨1, _, rfl, rfl⟩))))),
   Or.inr (Or.inr (Or.inr (Or.inr (Or.inl ⟨1, _, rfl, rfl⟩)))),
   Or.inr (Or.inr (Or.inr (Or.inl ⟨1, _, Or.inr rfl, rfl⟩)))⟩

example : ¬ Payee exState [9] := by
  rintro (h | h | h | ⟨i, p, hp, e⟩ | ⟨i, x, hx, e⟩ | ⟨i, x, hx, e⟩ | ⟨i, p, hp, e⟩ | ⟨i, x, hx, e⟩)
  · exact absurd h (by decide)
  · exact absurd h (by decide)
  · exact absurd h (by decide)
  · simp only [exState, Tbl.get] at hp
    rcases hp with hp | hp
    · contradiction
    · split at hp
      · rw [← Option.some.inj hp] at e; exact absurd e (by decide)
      · contradiction
  · simp only [exState, Tbl.get] at hx
    split at hx
    · rw [← Option.some.inj hx] at e; exact absurd e (by decide)
    · contradiction
  · simp only [exState, Tbl.get] at hx
    split at hx
    · rw [← Option.some.inj hx] at e; exact absurd e (by decide)
    · contradiction
  · simp only [exState, Tbl.get] at hp
    split at hp
    · rw [← Option.some.inj hp] at e; exact absurd e (by decide)
    · contradiction
  · simp only [exState, Tbl.get] at hx
    contradiction

/-! ### both hypotheses are needed -/

/-- A state whose provider deposit parameter is negative (possible only in a genesis). -/
def negState : State :=
  { time := 100, bank := [(([1], "udvpn"), 10)], supply := [("udvpn", 10)],
    params := { (default : Params) with provDeposit := ⟨"udvpn", -5⟩ } }

/-- Without `DepositParamsOK` the statement is false: `MsgRegister` of a provider "deposits" −5udvpn,
which credits the signer `01` — not a payee of `negState` (all its tables are empty). -/
example : ∃ s', step negState (.tx (.provRegister ⟨.acc, [1], false⟩ [110] [] [] [] true)) = some s' ∧
    ¬ CreditsOnly negState s' (Payee negState) := by
  refine ⟨_, rfl, ?_⟩
  intro h
  have hlt : balance negState [1] "udvpn" <
      balance (deliver negState (.provRegister ⟨.acc, [1], false⟩ [110] [] [] [] true)).1 [1] "udvpn" := by decide +kernel
  rcases h [1] "udvpn" hlt with (h | h | h | ⟨i, p, hp, e⟩ | ⟨i, x, hx, e⟩ | ⟨i, x, hx, e⟩ | ⟨i, p, hp, e⟩ | ⟨i, x, hx, e⟩)
  · exact absurd h (by decide)
  · exact absurd h (by decide)
  · exact absurd h (by decide)
  · simp only [negState, Tbl.get] at hp
    rcases hp with hp | hp <;> contradiction
  · simp only [negState, Tbl.get] at hx; contradiction
  · simp only [negState, Tbl.get] at hx; contradiction
  · simp only [negState, Tbl.get] at hp; contradiction
  · simp only [negState, Tbl.get] at hx; contradiction

/-- A state violating `PayoutOwned` (unreachable: it violates `SubIdx.payoutRec`): the payout of
`05`'s expiring per-hour subscription draws on the escrow record of `06`. -/
def strayState : State :=
  { time := 100, height := 5,
    bank := [((depositAddr, "udvpn"), 20)],
    supply := [("udvpn", 20)],
    deposits := [([6], [⟨"udvpn", 20⟩])],
    subs := [(1, { id := 1, addr := [5], inactiveAt := 50, status := .StatusInactivePending, statusAt := 0,
                   kind := .node [7] 0 2 ⟨"udvpn", 20⟩ })],
    subQ := [((50, 1), ())],
    subForAcc := [(([5], 1), ())], subForNode := [(([7], 1), ())],
    payouts := [(1, { id := 1, addr := [6], node := [7], hours := 2, price := ⟨"udvpn", 10⟩, nextAt := 0 })],
    payForAcc := [(([6], 1), ())], payForNode := [(([7], 1), ())],
    subCount := some 1, planCount := some 0, sessCount := some 0,
    params := exParams }

/-- Without `PayoutOwned` the statement is false: the end-of-block refund of the removed per-hour
subscription goes to the payout's account `06`, which is neither the subscriber nor any other payee. -/
example : ∃ s', step strayState .endB = some s' ∧ ¬ CreditsOnly strayState s' (Payee strayState) := by
  have hs : (step strayState .endB).isSome = true := by decide +kernel
  obtain ⟨s', hs'⟩ := Option.isSome_iff_exists.mp hs
  refine ⟨s', hs', ?_⟩
  intro h
  have hlt : (step strayState .endB).all (fun t => decide (balance strayState [6] "udvpn" < balance t [6] "udvpn")) = true := by
    decide +kernel
  rw [hs'] at hlt
  have hlt' : balance strayState [6] "udvpn" < balance s' [6] "udvpn" := by simpa using hlt
  rcases h [6] "udvpn" hlt' with (h | h | h | ⟨i, p, hp, e⟩ | ⟨i, x, hx, e⟩ | ⟨i, x, hx, e⟩ | ⟨i, p, hp, e⟩ | ⟨i, x, hx, e⟩)
  · exact absurd h (by decide)
  · exact absurd h (by decide)
  · exact absurd h (by decide)
  · simp only [strayState, Tbl.get] at hp
    rcases hp with hp | hp <;> contradiction
  · simp only [strayState, Tbl.get] at hx
    split at hx
    · rw [← Option.some.inj hx] at e; exact absurd e (by decide)
    · contradiction
  · simp only [strayState, Tbl.get] at hx
    split at hx
    · rw [← Option.some.inj hx] at e; exact absurd e (by decide)
    · contradiction
  · simp only [strayState, Tbl.get] at hp
    split at hp
    · rw [← Option.some.inj hp] at e; exact absurd e (by decide)
    · contradiction
  · simp only [strayState, Tbl.get] at hx; contradiction

end Hub.Props.C01Recipients
