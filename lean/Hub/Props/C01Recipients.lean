import Hub.Lemmas.Recipients
/-
C01, destination clause — "whatever leaves a user's balance or the escrow arrives in the same step
in exactly one of the escrow, a provider, a node, the subscriber, the fee collector or the community
pool."

The conservation half (nothing is minted or burnt) is `Hub.Props.C01`.  This file proves WHO can be
credited.  Definitions (in `Hub/Lemmas/Recipients.lean`):

* `CreditsOnly s s' R` — every (account, denomination) balance that is larger in `s'` than in `s`
  belongs to an account in `R`;
* `Payee s a` — `a` is the escrow (`depositAddr`), the fee collector, the community pool (the
  distribution module account `distrAddr`), the provider of a plan stored in `s`, the owner of a
  subscription stored in `s`, or the node of a node subscription / payout / session stored in `s`.
  It is read off the PRE-state of the step, so it is a fixed set for the whole step although block
  hooks read their records live from intermediate states.

Theorems:

* `step_credits_only_payees` — every operation of the model (each of the 16 marketplace messages,
  accepted or rejected; a begin-of-block; an end-of-block; a governance change) credits only payees
  of its pre-state.  Hypotheses on the pre-state, both needed (see the two `example`s at the end):
  - `DepositParamsOK s`: the provider/node registration deposits are not negative — a negative
    deposit parameter makes `MsgRegister` "send" a negative coin to the community pool, i.e. credit
    the signer.  Governance cannot set a negative deposit (`validCoinParam`), only a genesis could.
  - `PayoutOwned s`: the account a stored payout draws on owns a stored subscription — the expiry
    refund of a per-hour subscription is paid to the PAYOUT's account (`refundHr`), which is "the
    subscriber" only because of this index invariant.  It follows from `SubIdx` (C09), hence from
    `StructInv`, hence holds in every reachable state.
* `swap_credits_only_receiver` — the remaining operation, `MsgSwap`, credits only the swap's receiver
  (no hypothesis).
* `step_credits_only_payees_of_structInv`, `credits_only_payees_reachable`,
  `credits_only_payees_all_histories` — the corollaries for states satisfying the structural
  invariants, for reachable states, and for every step from every state of every history from every
  genesis whose two deposit parameters are not negative.

Nothing is left partial.
-/
namespace Hub.Props.C01Recipients
open Hub.SDK Hub.Model

/-- **C01, destination clause.**  One operation other than a swap credits only payees of its
pre-state: the escrow, the fee collector, the community pool, a plan's provider, a subscription's
owner, or the node of a node subscription, payout or session. -/
theorem step_credits_only_payees {s s' : State} {op : Op} (h : step s op = some s') (hsw : op.isSwap = false)
    (hp : DepositParamsOK s) (ho : PayoutOwned s) : CreditsOnly s s' (Payee s) :=
  step_credits h hsw hp ho

/-- A swap step — accepted or rejected — credits only the swap's receiver (the swap module account
receives the minted coin and passes it on in the same step). -/
theorem swap_credits_only_receiver {s s' : State} {frm recv : TextAddr} {hash : Bytes} {amt : Int}
    (h : step s (.tx (.swap frm hash recv amt)) = some s') : CreditsOnly s s' (fun a => a = recv.bytes) :=
  step_swap_credits h

/-- The index hypothesis is a consequence of the structural invariants. -/
theorem step_credits_only_payees_of_structInv {s s' : State} {op : Op} (h : step s op = some s')
    (hsw : op.isSwap = false) (hp : DepositParamsOK s) (hi : StructInv s) : CreditsOnly s s' (Payee s) :=
  step_credits h hsw hp hi.payoutOwned

/-- … so in a reachable state only the parameter hypothesis is left. -/
theorem credits_only_payees_reachable {s s' : State} {op : Op} (hr : Reachable s) (h : step s op = some s')
    (hsw : op.isSwap = false) (hp : DepositParamsOK s) : CreditsOnly s s' (Payee s) :=
  step_credits h hsw hp hr.structInv.payoutOwned

/-- **Every step from every state of every history** from a genesis whose two deposit parameters are
not negative: anything but a swap credits only payees of the state it starts from, a swap only its
receiver. -/
theorem credits_only_payees_all_histories (g : Genesis) (h0 : 0 ≤ g.params.provDeposit.amount)
    (h1 : 0 ≤ g.params.nodeDeposit.amount) (ops : List Op) (s : State) (hs : s = g.state ∨ s ∈ runTrace g.state ops)
    (op : Op) (s' : State) (h : step s op = some s') :
    (op.isSwap = false → CreditsOnly s s' (Payee s)) ∧
    (∀ frm hash recv amt, op = .tx (.swap frm hash recv amt) → CreditsOnly s s' (fun a => a = recv.bytes)) := by
  have hp : DepositParamsOK s := by
    rcases hs with rfl | hs
    · exact genesis_depositParamsOK g h0 h1
    · exact depositParamsOK_all_histories_from ops g.state (genesis_depositParamsOK g h0 h1) s hs
  have hr : Reachable s := ⟨g, ops, hs⟩
  refine ⟨fun hsw => credits_only_payees_reachable hr h hsw hp, ?_⟩
  intro frm hash recv amt e
  subst e
  exact step_swap_credits h

/-- The relation composes along a history as long as the set is fixed (used inside a step; stated
here because it is what makes `CreditsOnly` usable for several operations in a row). -/
theorem creditsOnly_trans {a b c : State} {R : Addr → Prop} (h1 : CreditsOnly a b R) (h2 : CreditsOnly b c R) :
    CreditsOnly a c R := h1.trans h2

end Hub.Props.C01Recipients
