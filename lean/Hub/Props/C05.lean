import Hub.Lemmas.MathOk
import Hub.Lemmas.MoneyHandlers
import Hub.Props.C16
/-
C05 — Buyers pay exactly the quoted price; every payment is split without loss.

Single-step theorems about the model's purchase and payment paths, using the arithmetic facts of
C16 about the regenerated `AmountForBytes` / `GetProportionOfCoin`.  All of them are derived from
*success alone*: whenever the code computes a charge it is the exact one (no range hypothesis).
-/
namespace Hub.Props.C05
open Hub.SDK Hub.Model
open Hub.Generated (AmountForBytes GetProportionOfCoin Gigabyte)
open Hub.Props.C16 (chargeSpec shareSpec)

private theorem mod_eq_ok_nat {a b : Nat} {r : Int} (h : SInt.mod (a : Int) (b : Int) = .ok r) : r = ((a % b : Nat) : Int) := by
  unfold SInt.mod at h
  split at h
  · simp [gopanic] at h
  · simp only [pure, Except.pure, Except.ok.injEq] at h
    rw [← h]; rfl

private theorem quo_eq_ok_nat {a b : Nat} {r : Int} (h : SInt.quo (a : Int) (b : Int) = .ok r) : r = ((a / b : Nat) : Int) := by
  unfold SInt.quo at h
  split at h
  · simp [gopanic] at h
  · simp only [pure, Except.pure, Except.ok.injEq] at h
    rw [← h]; exact (Int.ofNat_tdiv a b).symm

/-- Whenever `AmountForBytes` returns, it returns `⌈p·b/10^9⌉` (non-negative arguments). -/
theorem afb_ok_exact {p b : Nat} {r : Int} (h : AmountForBytes (p : Int) (b : Int) = .ok r) :
    r = ((chargeSpec p b : Nat) : Int) := by
  have hG : Gigabyte = ((10 ^ 9 : Nat) : Int) := by unfold Gigabyte Hub.Generated.Megabyte Hub.Generated.Kilobyte; norm_num
  unfold AmountForBytes at h
  rw [hG] at h
  simp only [bind_eq_ok] at h
  obtain ⟨t1, h1, whole, h2, t2, h3, part, h4, t3, h5, t4, h6, t5, h7, h8⟩ := h
  have e1 := quo_eq_ok_nat h1
  have e2 := SInt.mul_eq_ok h2
  have e3 := mod_eq_ok_nat h3
  have e4 := SInt.mul_eq_ok h4
  have e5 := SInt.add_eq_ok h5
  have e6 := SInt.sub_eq_ok h6
  have e8 := SInt.add_eq_ok h8
  have hpos : 1 ≤ p % 10 ^ 9 * b + 10 ^ 9 := Nat.le_trans (by norm_num) (Nat.le_add_left _ _)
  have e6' : t4 = ((p % 10 ^ 9 * b + 10 ^ 9 - 1 : Nat) : Int) := by
    rw [e6, e5, e4, e3]; push_cast [Nat.cast_sub hpos]; ring
  rw [e6'] at h7
  have e7 := quo_eq_ok_nat h7
  rw [e8, e7, e2, e1, ← Hub.Props.C16.chargeSpec_split_price p b]
  push_cast; ring

/-- A whole number of gigabytes costs exactly price × gigabytes. -/
theorem charge_whole_gigabytes (p gb : Nat) : chargeSpec p (10 ^ 9 * gb) = p * gb := by
  unfold chargeSpec
  have : p * (10 ^ 9 * gb) = (p * gb) * 10 ^ 9 := by ring
  rw [this]; omega

/-- Whenever `GetProportionOfCoin` returns, it returns the half-even rounding of `a·s/10^18`. -/
theorem proportion_ok_exact {d : Denom} {a s : Nat} {c : Coin} (h : GetProportionOfCoin ⟨d, (a : Int)⟩ (s : Int) = .ok c) :
    c = ⟨d, ((shareSpec a s : Nat) : Int)⟩ := by
  unfold GetProportionOfCoin at h
  simp only [] at h
  rw [Dec.ofInt_natCast] at h
  simp only [bind_eq_ok] at h
  obtain ⟨t1, h1, t2, h2, h3⟩ := h
  have e1 := Dec.mul_eq_ok_nat h1
  subst e1
  have e2 := Dec.roundInt_eq_ok_nat h2
  subst e2
  have e : a * 10 ^ 18 * s = (a * s) * 10 ^ 18 := by ring
  rw [e, Dec.chopRoundNat_mul] at h3
  unfold newCoin at h3
  split at h3
  · simp [gopanic] at h3
  · split at h3
    · simp [gopanic] at h3
    · simp only [pure, Except.pure, Except.ok.injEq] at h3
      rw [← h3]; rfl

/-- The fee collector's part and the payee's part add up to the payment, the fee is never more
than the payment and within half a base unit of `share × payment`. -/
theorem split_exact (pay s : Nat) (hs : s ≤ 10 ^ 18) :
    shareSpec pay s + (pay - shareSpec pay s) = pay ∧ shareSpec pay s ≤ pay ∧
    shareSpec pay s * 10 ^ 18 ≤ pay * s + 5 * 10 ^ 17 ∧ pay * s ≤ shareSpec pay s * 10 ^ 18 + 5 * 10 ^ 17 := by
  have h1 := Hub.Props.C16.proportion_le pay s hs
  have h2 := Hub.Props.C16.proportion_error pay s
  exact ⟨by omega, h1, h2.1, h2.2⟩

/-! ### per-gigabyte purchase -/

/-- An accepted per-gigabyte purchase escrows exactly `quoted price × gigabytes`, records it in the
subscription, grants `10^9 × gigabytes` bytes, and is rejected when the node does not quote the
denomination. -/
theorem node_sub_gb_escrows_quote {s : State} {acc node : Addr} {n : Node} {gb : Nat} {denom : Denom} {r : State × Sub}
    (h : createNodeSubGB s acc node n (gb : Int) denom = .ok r) :
    ∃ price : Coin, n.gb.find denom = some price ∧
      (∀ p : Nat, price.amount = (p : Int) →
        r.2.kind = .node node (gb : Int) 0 ⟨price.denom, ((p * gb : Nat) : Int)⟩ ∧
        (p * gb ≠ 0 → ∃ s1, depositAdd s acc acc ⟨price.denom, ((p * gb : Nat) : Int)⟩ = .ok s1) ∧
        r.1.allocs.get (r.2.id, acc) = some { id := r.2.id, addr := acc, granted := Gigabyte * gb, used := 0 }) := by
  unfold createNodeSubGB at h
  simp only [bind_eq_ok, pure_eq_ok, orReject_eq_ok] at h
  obtain ⟨price, hprice, bytes, hb, amt, ha, dep, hd, s1, h1, granted, hg, rfl⟩ := h
  refine ⟨price, hprice, ?_⟩
  intro p hp
  have eb := SInt.mul_eq_ok hb
  have eg := SInt.mul_eq_ok hg
  have hG : Gigabyte = ((10 ^ 9 : Nat) : Int) := by unfold Gigabyte Hub.Generated.Megabyte Hub.Generated.Kilobyte; norm_num
  have ebn : bytes = ((10 ^ 9 * gb : Nat) : Int) := by rw [eb, hG]; push_cast; ring
  rw [hp, ebn] at ha
  have eamt := afb_ok_exact ha
  rw [charge_whole_gigabytes] at eamt
  have hdep : dep = ⟨price.denom, ((p * gb : Nat) : Int)⟩ := by
    unfold newCoin at hd
    split at hd
    · simp [gopanic] at hd
    · split at hd
      · simp [gopanic] at hd
      · simp only [pure, Except.pure, Except.ok.injEq] at hd
        rw [← hd, eamt]
  subst hdep
  refine ⟨rfl, ?_, ?_⟩
  · intro hne
    unfold addDeposit at h1
    have : ¬ (((p * gb : Nat) : Int) = 0) := by omega
    simp only [this, if_false] at h1
    exact ⟨s1, h1⟩
  · simp only [emit, setAllocation, Tbl.get_set_eq]
    rw [eg]

theorem unquoted_denom_rejected_gb {s : State} {acc node : Addr} {n : Node} {gb : Int} {denom : Denom}
    (hq : n.gb.find denom = none) : ∀ r, createNodeSubGB s acc node n gb denom ≠ .ok r := by
  intro r h
  unfold createNodeSubGB Node.gigabytePrice at h
  simp only [bind_eq_ok, orReject_eq_ok] at h
  obtain ⟨price, hp, _⟩ := h
  rw [hq] at hp; contradiction

/-! ### per-hour purchase -/

theorem node_sub_hr_escrows_quote {s : State} {acc node : Addr} {n : Node} {hr : Nat} {denom : Denom} {r : State × Sub}
    (h : createNodeSubHr s acc node n (hr : Int) denom = .ok r) :
    ∃ price : Coin, n.hr.find denom = some price ∧
      (∀ p : Nat, price.amount = (p : Int) →
        r.2.kind = .node node 0 (hr : Int) ⟨price.denom, ((p * hr : Nat) : Int)⟩ ∧
        ∃ pay, r.1.payouts.get r.2.id = some pay ∧ pay.hours = hr ∧ pay.price = ⟨price.denom, (p : Int)⟩ ∧
          pay.addr = acc ∧ pay.node = node ∧ pay.nextAt = s.time) := by
  unfold createNodeSubHr at h
  simp only [bind_eq_ok, pure_eq_ok, orReject_eq_ok] at h
  obtain ⟨price, hprice, amt, ha, dep, hd, s1, h1, pa, hpa, hourly, hh, rfl⟩ := h
  refine ⟨price, hprice, ?_⟩
  intro p hp
  have ea := SInt.mul_eq_ok ha
  have hdep : dep = ⟨price.denom, ((p * hr : Nat) : Int)⟩ := by
    unfold newCoin at hd
    split at hd
    · simp [gopanic] at hd
    · split at hd
      · simp [gopanic] at hd
      · simp only [pure, Except.pure, Except.ok.injEq] at hd
        rw [← hd, ea, hp]; push_cast; rfl
  subst hdep
  refine ⟨rfl, ?_⟩
  -- hourly price = deposit / hours = quoted price
  have hhr : 0 < hr := by
    unfold SInt.quo at hpa
    split at hpa
    · simp [gopanic] at hpa
    · rename_i hne
      rcases Nat.eq_zero_or_pos hr with h0 | h0
      · subst h0; simp at hne
      · exact h0
  have epa : pa = (p : Int) := by
    rw [SInt.quo_nat _ _ hhr] at hpa
    simp only [Except.ok.injEq] at hpa
    rw [← hpa, Nat.mul_div_cancel _ hhr]
  subst epa
  have ehourly : hourly = ⟨price.denom, (p : Int)⟩ := by
    unfold newCoin at hh
    split at hh
    · simp [gopanic] at hh
    · split at hh
      · simp [gopanic] at hh
      · simpa [pure, Except.pure] using hh.symm
  subst ehourly
  refine ⟨{ id := s.subCount.getD 0 + 1, addr := acc, node := node, hours := (hr : Int), price := ⟨price.denom, (p : Int)⟩, nextAt := s.time },
    ?_, rfl, rfl, rfl, rfl, rfl⟩
  simp only [insertPayout, emit, Tbl.get_set_eq]

/-! ### plan purchase -/

/-- An accepted plan purchase costs exactly the plan's price in the requested denomination: the fee
collector receives the exactly rounded provider staking share, the provider the rest. -/
theorem plan_sub_costs_price {s : State} {acc : Addr} {planId : Nat} {denom : Denom} {r : State × Sub}
    (h : createSubscriptionForPlan s acc planId denom = .ok r) :
    ∃ plan price, getPlan s planId = some plan ∧ plan.status = .StatusActive ∧ plan.prices.find denom = some price ∧
      (∀ a sh : Nat, price.amount = (a : Int) → s.params.provShare = (sh : Int) →
        ∃ s1 s2, sendCoinFromAccountToModule s acc feeCollectorAddr ⟨price.denom, ((shareSpec a sh : Nat) : Int)⟩ = .ok s1 ∧
                 sendCoin s1 acc plan.prov ⟨price.denom, (a : Int) - ((shareSpec a sh : Nat) : Int)⟩ = .ok s2 ∧
                 (shareSpec a sh : Int) ≤ a) ∧
      r.2.kind = .plan plan.id price.denom ∧ r.2.inactiveAt = s.time + plan.dur := by
  unfold createSubscriptionForPlan at h
  simp only [bind_eq_ok, pure_eq_ok, require_eq_ok, requireP_eq_ok, orReject_eq_ok] at h
  obtain ⟨plan, hplan, _, hst, price, hprice, reward, hr, s1, h1, payAmt, hpa, _, hnn, s2, h2, granted, hg, rfl⟩ := h
  refine ⟨plan, price, hplan, by simpa using hst, hprice, ?_, rfl, rfl⟩
  intro a sh ha hsh
  have hc : (⟨price.denom, price.amount⟩ : Coin) = price := rfl
  rw [hsh] at hr
  have : GetProportionOfCoin ⟨price.denom, (a : Int)⟩ (sh : Int) = .ok reward := by rw [← ha]; exact hr
  have er := proportion_ok_exact this
  subst er
  have epa := SInt.sub_eq_ok hpa
  simp only [] at epa
  rw [ha] at epa
  subst epa
  refine ⟨s1, s2, h1, h2, ?_⟩
  have hh : (0 : Int) ≤ (a : Int) - ((shareSpec a sh : Nat) : Int) := of_decide_eq_true hnn
  omega

theorem unquoted_denom_rejected_plan {s : State} {acc : Addr} {planId : Nat} {denom : Denom} {plan : Plan}
    (hp : getPlan s planId = some plan) (hq : plan.prices.find denom = none) :
    ∀ r, createSubscriptionForPlan s acc planId denom ≠ .ok r := by
  intro r h
  unfold createSubscriptionForPlan Plan.price at h
  simp only [bind_eq_ok, require_eq_ok, orReject_eq_ok] at h
  obtain ⟨plan', hp', _, _, price, hpr, _⟩ := h
  rw [hp] at hp'
  cases hp'
  rw [hq] at hpr; contradiction

/-! ### metered settlement and hourly payout -/

/-- Settlement of a session on a per-gigabyte subscription charges, at the price per gigabyte
`deposit / gigabytes` (the price quoted at purchase, since `deposit = price × gigabytes`), the
difference of the rounded-up charges for the cumulative bytes after and before; the fee collector
gets the exactly rounded node staking share of that payment and the node the rest. -/
theorem metered_price {s s' : State} {x : Session} {acc node : Addr} {dep : Coin} {gb before after p sh : Nat}
    (h : settleSession s x acc node dep (gb : Int) (before : Int) (after : Int) = .ok s')
    (hdep : dep.amount = ((p * gb : Nat) : Int)) (hgb : 0 < gb) (hsh : s.params.nodeShare = (sh : Int)) (hba : before ≤ after) :
    ∃ s1, let pay := chargeSpec p after - chargeSpec p before
      sendCoinFromDepositToModule s acc feeCollectorAddr ⟨dep.denom, ((shareSpec pay sh : Nat) : Int)⟩ = .ok s1 ∧
      ∃ s2, sendCoinFromDepositToAccount s1 acc node ⟨dep.denom, ((pay : Nat) : Int) - ((shareSpec pay sh : Nat) : Int)⟩ = .ok s2 := by
  unfold settleSession subGigabytePrice at h
  simp only [bind_eq_ok, pure_eq_ok, requireP_eq_ok] at h
  obtain ⟨price, ⟨q, hq, hprice⟩, prev, hprev, cur, hcur, payAmt, hpay, payment, hpm, reward, hrw, s1, h1, netAmt, hnet, _, hnn, s2, h2, rfl⟩ := h
  rw [hdep, SInt.quo_nat _ _ hgb] at hq
  simp only [Except.ok.injEq] at hq
  rw [Nat.mul_div_cancel _ hgb] at hq
  subst hq
  have eprice : price = ⟨dep.denom, (p : Int)⟩ := by
    unfold newCoin at hprice
    split at hprice
    · simp [gopanic] at hprice
    · split at hprice
      · simp [gopanic] at hprice
      · simpa [pure, Except.pure] using hprice.symm
  subst eprice
  have e1 := afb_ok_exact hprev
  have e2 := afb_ok_exact hcur
  subst e1; subst e2
  have e3 := SInt.sub_eq_ok hpay
  have hm := Hub.Props.C16.afb_mono p hba
  have e3' : payAmt = ((chargeSpec p after - chargeSpec p before : Nat) : Int) := by
    rw [e3]; exact (Int.ofNat_sub hm).symm
  subst e3'
  have epm : payment = ⟨dep.denom, ((chargeSpec p after - chargeSpec p before : Nat) : Int)⟩ := by
    unfold newCoin at hpm
    split at hpm
    · simp [gopanic] at hpm
    · split at hpm
      · simp [gopanic] at hpm
      · simpa [pure, Except.pure] using hpm.symm
  subst epm
  rw [hsh] at hrw
  have er := proportion_ok_exact hrw
  subst er
  have en := SInt.sub_eq_ok hnet
  subst en
  exact ⟨s1, h1, s2, h2⟩

/-! ### non-vacuity -/

example : chargeSpec 10 (10 ^ 9 * 3) = 30 := by rw [charge_whole_gigabytes]
example : shareSpec 5 (10 ^ 17) + (5 - shareSpec 5 (10 ^ 17)) = 5 := (split_exact 5 (10 ^ 17) (by norm_num)).1

end Hub.Props.C05
