import Hub.Lemmas.EscrowSteps
import Hub.Model.Monitors
/-
C02 — Node-subscription deposits settle exactly: paid + refunded = deposited.

The invariant (`Hub.Model.Escrow.EscrowSplit`, `Hub/Lemmas/EscrowTbl.lean`; the `Prop` form of the monitor
`escrowSplitB`): in every state of every history from every genesis, for every account `a` and
denomination `d`, the amount of `d` in `a`'s escrow record (absent record = empty) is the sum, over
`a`'s live subscriptions, of the unsettled part `rem` of the deposit:

* per gigabyte: `deposit − ⌈(deposit / gigabytes) · used / 10^9⌉` (`charge`, which is what the model's
  `AmountForBytes` returns whenever it returns: `charge_of_afb`),
* per hour: `hourly price × hours not yet paid out`,
* plan subscriptions: nothing.

Consequences proved here: (b) what has been charged to a subscription is between 0 and its deposit;
(c) at removal the refund is exactly the unsettled part, so deposit = charged + refunded, and every
settlement / hourly payout moves exactly the drop of the unsettled part to the node and the fee
collector; (d) each of these transfers comes out of the subscriber's own escrow record only;
(e) a concrete history with a per-gigabyte subscription (partly used) and an hourly one (partly paid).

Scope note.  The invariant speaks about the mathematical charge `⌈p·b/10^9⌉`.  Every charge the model
*computed* is that number (success alone implies it, no range hypothesis), so preservation needs no
bound on amounts.  Whether `AmountForBytes` *returns* is a separate (liveness) matter: see
`charge_computed_when_bounded` and the remark on finding F11 at the end of this file.
-/
set_option linter.unusedSimpArgs false
set_option linter.unusedVariables false
set_option linter.unnecessarySeqFocus false

namespace Hub.Props.C02
open Hub.SDK Hub.Model Hub.Model.Escrow
open Hub.Generated (Status AmountForBytes GetProportionOfCoin Gigabyte)
open Hub.Generated.Keys

/-! ## (a) the invariant, in every state of every history from every genesis -/

/-- **C02 (a).** Every account's escrow record equals the sum of the unsettled parts of that account's
live subscriptions — every genesis, every finite history, every state of it, every account, every
denomination.  (Spelled out; `escrowOf s a d` and `owed s a d` abbreviate the two sides.) -/
theorem escrow_record_is_sum_of_unsettled (g : Genesis) (ops : List Op) :
    ∀ s ∈ runTrace g.state ops, ∀ (a : Addr) (d : Denom),
      ((s.deposits.get a).getD []).amountOf d =
        s.subs.sumKV (fun i x => if x.addr = a then rem s.allocs s.payouts i x d else 0) :=
  fun s hs a d => (escrowSplit_all_histories g ops s hs).split a d

/-- … and in the genesis state itself. -/
theorem escrow_record_is_sum_of_unsettled_genesis (g : Genesis) (a : Addr) (d : Denom) :
    escrowOf g.state a d = owed g.state a d := (genesis_escrowSplit g).split a d

/-- The full invariant (sum and well-formedness of every live subscription) for every reachable state. -/
theorem escrowSplit_reachable {s : State} (h : Reachable s) : EscrowSplit s := reachable_escrowSplit h

/-- Every live subscription record is well formed in every state of every history: a node subscription
is either per gigabyte, with its owner's allocation of exactly the purchased bytes, or per hour, with a
payout record whose price × purchased hours is the deposit and with at most the purchased hours left. -/
theorem live_subscriptions_well_formed (g : Genesis) (ops : List Op) :
    ∀ s ∈ runTrace g.state ops, ∀ i x, s.subs.get i = some x → SubWF s.allocs s.payouts i x :=
  fun s hs => (escrowSplit_all_histories g ops s hs).wf

/-- The invariant and the executable monitor's `remaining` agree: under the invariant's well-formedness
the monitor finds the records it looks up, and what it returns is `rem` — provided `AmountForBytes`
returns, which it does when `deposit · 10^9 < 2^255`. -/
theorem monitor_remaining_agrees {s : State} {i : Nat} {x : Sub} (hw : SubWF s.allocs s.payouts i x) (hb : AllocBounds s)
    (hsmall : ∀ n gb hr dep, x.kind = .node n gb hr dep → dep.amount * 1000000000 < B255) :
    ∃ c, remaining s i x = some c ∧ ∀ d, rem s.allocs s.payouts i x d = if c.denom = d then c.amount else 0 := by
  unfold remaining
  cases hk : x.kind with
  | plan pid dn => exact ⟨⟨"", 0⟩, rfl, fun d => by rw [rem_plan hk]; simp⟩
  | node n gb hr dep =>
    unfold SubWF at hw
    rw [hk] at hw
    simp only [] at hw ⊢
    obtain ⟨hdep, ⟨hgb, hhr, al, hal, hgr⟩ | ⟨hgb, hhr, p, hp, h3, h4, h5, h6, h7⟩⟩ := hw
    · have hgb' : gb ≠ 0 := by omega
      have hu := hb _ _ hal
      have hq : 0 ≤ Int.tdiv dep.amount gb := Int.tdiv_nonneg hdep (le_of_lt hgb)
      have hafb : AmountForBytes (Int.tdiv dep.amount gb) al.used = .ok (charge (Int.tdiv dep.amount gb) al.used) := by
        have e1 : (((Int.tdiv dep.amount gb).toNat : Nat) : Int) = Int.tdiv dep.amount gb := Int.toNat_of_nonneg hq
        have e2 : ((al.used.toNat : Nat) : Int) = al.used := Int.toNat_of_nonneg hu.1
        have := Hub.Props.C16.afb_exact_wide (Int.tdiv dep.amount gb).toNat al.used.toNat (by
          have hs := hsmall n gb hr dep hk
          have h1 : al.used ≤ 1000000000 * gb := by rw [← gigabyte_eq, ← hgr]; exact hu.2
          have h2 : Int.tdiv dep.amount gb * gb ≤ dep.amount := by
            rw [Int.tdiv_eq_ediv_of_nonneg hdep]; exact Int.ediv_mul_le dep.amount (by omega)
          have h3 : Int.tdiv dep.amount gb * al.used ≤ dep.amount * 1000000000 := by
            calc Int.tdiv dep.amount gb * al.used ≤ Int.tdiv dep.amount gb * (1000000000 * gb) :=
                  Int.mul_le_mul_of_nonneg_left h1 hq
              _ = (Int.tdiv dep.amount gb * gb) * 1000000000 := by ring
              _ ≤ dep.amount * 1000000000 := Int.mul_le_mul_of_nonneg_right h2 (by norm_num)
          have h4 : (((Int.tdiv dep.amount gb).toNat * al.used.toNat : Nat) : Int) < (B255 : Int) := by
            push_cast; rw [e1, e2]; omega
          exact_mod_cast h4)
        rw [e1, e2] at this
        exact this
      refine ⟨⟨dep.denom, dep.amount - charge (Int.tdiv dep.amount gb) al.used⟩, ?_, fun d => ?_⟩
      · simp only [hgb', ne_eq, not_false_eq_true, if_true, hal, hafb, okOr]
      · rw [rem_gb hk hgb', usedOf_some hal]
    · subst hgb
      have hhr' : hr ≠ 0 := by omega
      refine ⟨⟨p.price.denom, p.price.amount * p.hours⟩, ?_, fun d => ?_⟩
      · simp only [ne_eq, not_true_eq_false, if_false, hhr', not_false_eq_true, if_true, hp]
      · rw [rem_hr hk hp]

/-- `AmountForBytes` returns the charge the invariant speaks about whenever `deposit · 10^9 < 2^255`. -/
theorem charge_computed_when_bounded {dep gb used : Int} (hd : 0 ≤ dep) (hgb : 0 < gb) (hu0 : 0 ≤ used)
    (hu : used ≤ Gigabyte * gb) (hsmall : dep * 1000000000 < B255) :
    AmountForBytes (Int.tdiv dep gb) used = .ok (charge (Int.tdiv dep gb) used) := by
  have hq : 0 ≤ Int.tdiv dep gb := Int.tdiv_nonneg hd (le_of_lt hgb)
  have e1 : (((Int.tdiv dep gb).toNat : Nat) : Int) = Int.tdiv dep gb := Int.toNat_of_nonneg hq
  have e2 : ((used.toNat : Nat) : Int) = used := Int.toNat_of_nonneg hu0
  have := Hub.Props.C16.afb_exact_wide (Int.tdiv dep gb).toNat used.toNat (by
    have h1 : used ≤ 1000000000 * gb := by rw [← gigabyte_eq]; exact hu
    have h2 : Int.tdiv dep gb * gb ≤ dep := by
      rw [Int.tdiv_eq_ediv_of_nonneg hd]; exact Int.ediv_mul_le dep (by omega)
    have h3 : Int.tdiv dep gb * used ≤ dep * 1000000000 := by
      calc Int.tdiv dep gb * used ≤ Int.tdiv dep gb * (1000000000 * gb) := Int.mul_le_mul_of_nonneg_left h1 hq
        _ = (Int.tdiv dep gb * gb) * 1000000000 := by ring
        _ ≤ dep * 1000000000 := Int.mul_le_mul_of_nonneg_right h2 (by norm_num)
    have h4 : (((Int.tdiv dep gb).toNat * used.toNat : Nat) : Int) < (B255 : Int) := by
      push_cast; rw [e1, e2]; omega
    exact_mod_cast h4)
  rw [e1, e2] at this
  exact this

/-! ## (b) nobody is charged beyond their deposit -/

/-- What has been charged to subscription `x` (stored under `i`) so far: deposit minus unsettled part. -/
def charged (s : State) (i : Nat) (x : Sub) : Int :=
  match x.kind with
  | .node _ _ _ dep => dep.amount - rem s.allocs s.payouts i x dep.denom
  | .plan _ _ => 0

/-- The unsettled part of a live node subscription is between 0 and the deposit, in the deposit's
denomination, and zero in every other — from the invariant, the allocation bounds and the index invariant. -/
theorem unsettled_within_deposit {s : State} (hs : StructInv s) (hi : EscrowSplit s) {i : Nat} {x : Sub} {n : Addr} {gb hr : Int}
    {dep : Coin} (hx : s.subs.get i = some x) (hk : x.kind = .node n gb hr dep) :
    0 ≤ rem s.allocs s.payouts i x dep.denom ∧ rem s.allocs s.payouts i x dep.denom ≤ dep.amount ∧
    ∀ d, d ≠ dep.denom → rem s.allocs s.payouts i x d = 0 := by
  have hw := hi.wf i x hx
  unfold SubWF at hw
  rw [hk] at hw
  simp only [] at hw
  obtain ⟨hdep, ⟨hgb, hhr, al, hal, hgr⟩ | ⟨hgb, hhr, p, hp, h3, h4, h5, h6, h7⟩⟩ := hw
  · have hgb' : gb ≠ 0 := by omega
    have hu := hs.alloc.bounds _ _ hal
    have h1 := charge_le_deposit (used := al.used) hdep hgb (by rw [← hgr]; exact hu.2)
    have h2 := charge_nonneg (Int.tdiv dep.amount gb) al.used
    refine ⟨?_, ?_, fun d hd => ?_⟩
    · rw [rem_gb hk hgb', usedOf_some hal, if_pos rfl]; omega
    · rw [rem_gb hk hgb', usedOf_some hal, if_pos rfl]; omega
    · rw [rem_gb hk hgb', if_neg (Ne.symm hd)]
  · subst hgb
    have hh : 0 ≤ p.hours := (hs.subIdx.payoutRec i p x hp hx).2
    refine ⟨?_, ?_, fun d hd => ?_⟩
    · rw [rem_hr hk hp, if_pos h4]; exact Int.mul_nonneg h5 hh
    · rw [rem_hr hk hp, if_pos h4, ← h6]; exact Int.mul_le_mul_of_nonneg_left h7 h5
    · rw [rem_hr hk hp, if_neg (by rw [h4]; exact Ne.symm hd)]

/-- **C02 (b).** In every reachable state, what has been charged to a live node subscription is at
least 0 and at most its deposit. -/
theorem never_charged_beyond_deposit {s : State} (h : Reachable s) {i : Nat} {x : Sub} {n : Addr} {gb hr : Int} {dep : Coin}
    (hx : s.subs.get i = some x) (hk : x.kind = .node n gb hr dep) :
    0 ≤ charged s i x ∧ charged s i x ≤ dep.amount := by
  obtain ⟨h1, h2, _⟩ := unsettled_within_deposit h.structInv (reachable_escrowSplit h) hx hk
  unfold charged; rw [hk]; simp only []; omega

/-- The same for every state of every history. -/
theorem never_charged_beyond_deposit_all_histories (g : Genesis) (ops : List Op) :
    ∀ s ∈ runTrace g.state ops, ∀ i x n gb hr dep, s.subs.get i = some x → x.kind = .node n gb hr dep →
      0 ≤ charged s i x ∧ charged s i x ≤ dep.amount :=
  fun s hs i x n gb hr dep hx hk => never_charged_beyond_deposit ⟨g, ops, Or.inr hs⟩ hx hk

/-- Hence no escrow record is ever negative, and each subscription's share of it is its own. -/
theorem escrow_record_nonneg {s : State} (h : Reachable s) (a : Addr) (d : Denom) : 0 ≤ escrowOf s a d := by
  have hi := reachable_escrowSplit h
  have hs := h.structInv
  rw [hi.split a d]
  unfold owed
  have : ∀ k v, (k, v) ∈ s.subs → 0 ≤ (if v.addr = a then rem s.allocs s.payouts k v d else 0) := by
    intro k v hm
    have hg := Tbl.get_of_mem hs.subIdx.nodup.1 hm
    split
    · cases hk : v.kind with
      | plan pid dn => rw [rem_plan hk]
      | node n gb hr dep =>
        obtain ⟨h1, _, h3⟩ := unsettled_within_deposit hs hi hg hk
        by_cases e : d = dep.denom
        · rw [e]; exact h1
        · rw [h3 d e]
    · exact le_refl _
  clear hi
  generalize s.subs = t at this
  induction t with
  | nil => simp [Tbl.sumKV]
  | cons p rest ih =>
    obtain ⟨k, v⟩ := p
    rw [Tbl.sumKV_cons]
    have h1 := this k v (by simp)
    have h2 := ih (fun k' v' hm => this k' v' (by simp [hm]))
    omega

/-! ## (c) removal settles exactly; every payment is exactly the drop of the unsettled part -/

/-- **C02 (c), at the removing hook.** When the subscription pass removes a (no longer active) node
subscription `item` with deposit `dep` from a state satisfying the invariants, the record disappears
and the refund `c` — out of the subscriber's own escrow record, from the escrow module account to the
subscriber's balance — is exactly the unsettled part; so **deposit = charged so far + refund**. -/
theorem removal_settles_exactly {s s' : State} {dl : Dur} {k : Time × Nat} {item : Sub} {n : Addr} {gb hr : Int} {dep : Coin}
    (h : subscriptionStep dl s k = .ok s') (hitem : s.subs.get k.2 = some item) (hst : item.status ≠ .StatusActive)
    (hkd : item.kind = .node n gb hr dep) (hk : Keyed s) (hab : AllocBounds s) (hi : EscrowSplit s) :
    s'.subs.get k.2 = none ∧
    ∃ refund : Int, 0 ≤ refund ∧ charged s k.2 item + refund = dep.amount ∧
      (∀ a d, escrowOf s' a d = escrowOf s a d - (if item.addr = a ∧ dep.denom = d then refund else 0)) ∧
      (∀ a d, balance s' a d = balance s a d - (if depositAddr = a ∧ dep.denom = d then refund else 0) +
        (if item.addr = a ∧ dep.denom = d then refund else 0)) := by
  obtain ⟨eS, c, hc0, hrem, hD, hB⟩ := subscriptionStep_removal h hitem hst hk hab hi
  refine ⟨by rw [eS, Tbl.get_erase]; simp, rem s.allocs s.payouts k.2 item dep.denom, ?_, ?_, fun a d => ?_, fun a d => ?_⟩
  · rw [hrem]; split
    · exact hc0
    · exact le_refl _
  · unfold charged; rw [hkd]; simp only []; omega
  all_goals
    have hw := hi.wf _ _ hitem
    have hz : ∀ d, (if c.denom = d then c.amount else 0) =
        (if dep.denom = d then rem s.allocs s.payouts k.2 item dep.denom else 0) := by
      intro d
      rw [← hrem d]
      by_cases e : dep.denom = d
      · rw [if_pos e, e]
      · rw [if_neg e]
        unfold SubWF at hw
        rw [hkd] at hw
        simp only [] at hw
        obtain ⟨_, ⟨hgb, _, _⟩ | ⟨hgb, _, p, hp, _, h4, _⟩⟩ := hw
        · rw [rem_gb hkd (by omega), if_neg e]
        · subst hgb; rw [rem_hr hkd hp, if_neg (by rw [h4]; exact e)]
  · rw [hD a d]
    have := hz d
    by_cases e1 : item.addr = a <;> by_cases e2 : dep.denom = d <;> by_cases e3 : c.denom = d <;>
      simp only [e1, e2, e3, true_and, false_and, if_true, if_false, and_self, and_true] at this ⊢ <;> omega
  · rw [hB a d]
    have := hz d
    by_cases e0 : depositAddr = a <;> by_cases e1 : item.addr = a <;> by_cases e2 : dep.denom = d <;> by_cases e3 : c.denom = d <;>
      simp only [e0, e1, e2, e3, true_and, false_and, if_true, if_false, and_self, and_true] at this ⊢ <;> omega

/-- Splitting a fold at one of its steps: the invariant holds in the state the step starts from. -/
theorem foldlM_at {α : Type} (P : State → Prop) (f : State → α → M State)
    (hf : ∀ s a s', f s a = .ok s' → P s → P s') (l1 : List α) (k : α) (l2 : List α) (s s' : State)
    (h : (l1 ++ k :: l2).foldlM f s = .ok s') (hp : P s) :
    ∃ s1 s2, l1.foldlM f s = .ok s1 ∧ P s1 ∧ f s1 k = .ok s2 ∧ l2.foldlM f s2 = .ok s' := by
  induction l1 generalizing s with
  | nil =>
    simp only [List.nil_append, List.foldlM, bind_eq_ok] at h
    obtain ⟨s2, h1, h2⟩ := h
    exact ⟨s, s2, rfl, hp, h1, h2⟩
  | cons a rest ih =>
    simp only [List.cons_append, List.foldlM, bind_eq_ok] at h
    obtain ⟨sa, h1, h2⟩ := h
    obtain ⟨s1, s2, e1, p1, e2, e3⟩ := ih sa h2 (hf s a sa h1 hp)
    refine ⟨s1, s2, ?_, p1, e2, e3⟩
    simp only [List.foldlM, bind_eq_ok]
    exact ⟨sa, h1, e1⟩

/-- **C02 (c), in every block of every history.** Take any reachable state and an EndBlock from it that
does not halt.  Its subscription pass starts from some state `sb` (after the node and session passes)
and processes the due keys in order; whichever key `k` it is at, the state `s1` it has reached satisfies
the invariants, so if the step removes a node subscription, `removal_settles_exactly` applies:
deposit = charged so far + refund, refund paid out of the subscriber's own escrow record. -/
theorem removal_settles_exactly_in_every_block {s s' : State} (hr : Reachable s) (h : endBlock s = .ok s') :
    ∃ sb s3, subscriptionEndBlock sb = .ok s3 ∧ s' = { s3 with modified := {} } ∧
      ∀ l1 k l2, dueIds subscription.SubscriptionForInactiveAtKey sb.subQ sb.time = l1 ++ k :: l2 →
        ∃ s1 s2, l1.foldlM (subscriptionStep sb.params.subDelay) sb = .ok s1 ∧
          subscriptionStep sb.params.subDelay s1 k = .ok s2 ∧
          l2.foldlM (subscriptionStep sb.params.subDelay) s2 = .ok s3 ∧
          ∀ item n gb hr dep, s1.subs.get k.2 = some item → item.status ≠ .StatusActive → item.kind = .node n gb hr dep →
            s2.subs.get k.2 = none ∧
            ∃ refund : Int, 0 ≤ refund ∧ charged s1 k.2 item + refund = dep.amount ∧
              (∀ a d, escrowOf s2 a d = escrowOf s1 a d - (if item.addr = a ∧ dep.denom = d then refund else 0)) ∧
              (∀ a d, balance s2 a d = balance s1 a d - (if depositAddr = a ∧ dep.denom = d then refund else 0) +
                (if item.addr = a ∧ dep.denom = d then refund else 0)) := by
  have hs := hr.structInv
  have hi := reachable_escrowSplit hr
  unfold endBlock haltOf at h
  split at h <;> try contradiction
  rename_i s2 hs2
  split at hs2 <;> try contradiction
  rename_i s3 hs3
  simp only [Except.ok.injEq] at hs2 h
  subst hs2; subst h
  unfold vpnEndBlock nodeEndBlock at hs3
  simp only [bind_eq_ok] at hs3
  obtain ⟨s1, ⟨sa, ha, hb⟩, sb, hc, hd⟩ := hs3
  have hk : Keyed s := hs.count.keyed
  have e1 : subView s1 = subView s := by rw [nodeExpire_subView hb, nodeSweep_subView ha]; rfl
  have e2 : psView s1 = psView s := by rw [nodeExpire_psView hb, nodeSweep_psView ha]; rfl
  have d1 : s1.deposits = s.deposits := by rw [nodeExpire_deposits hb, nodeSweep_deposits ha]
  have i1 : ((SubIdx s1 ∧ Keyed s1) ∧ AllocInv s1) ∧ EscrowSplit s1 :=
    ⟨⟨⟨SubIdx.of_view e1 hs.subIdx, Keyed.of_view e1 hk⟩, AllocInv.of_views e1 e2 hs.alloc⟩, hi.of_views e1 d1⟩
  have i2 : ((SubIdx sb ∧ Keyed sb) ∧ AllocInv sb) ∧ EscrowSplit sb :=
    foldlM_inv (fun s => ((SubIdx s ∧ Keyed s) ∧ AllocInv s) ∧ EscrowSplit s) _
      (fun s0 k s1 h1 hp => ⟨⟨sessionStep_subIdx' h1 hp.1.1.2 hp.1.1.1, sessionStep_allocInv h1 hp.1.2⟩,
        sessionStep_escrow h1 hp.1.1.2 hp.1.1.1 hp.1.2 hp.2⟩) _ _ _ hc i1
  refine ⟨sb, s3, hd, rfl, ?_⟩
  intro l1 k l2 hl
  unfold subscriptionEndBlock at hd
  rw [hl] at hd
  obtain ⟨t1, t2, f1, p1, f2, f3⟩ := foldlM_at (fun s => ((SubIdx s ∧ Keyed s) ∧ AllocInv s) ∧ EscrowSplit s) _
    (fun s0 k s1 h1 hp => ⟨⟨subscriptionStep_subIdx h1 hp.1.1.2 hp.1.1.1, subscriptionStep_allocInv h1 hp.1.2⟩,
      subscriptionStep_escrow h1 hp.1.1.2 hp.1.1.1 hp.1.2.bounds hp.2⟩) l1 k l2 sb s3 hd i2
  refine ⟨t1, t2, f1, f2, f3, ?_⟩
  intro item n gb hr dep hitem hst hkd
  exact removal_settles_exactly f2 hitem hst hkd p1.1.1.2 p1.1.2.bounds p1.2

/-- **Every settlement pays exactly the drop of the unsettled part**: `fee + net` leaves the escrow record
of the owner of the session's subscription, the fee collector receives `fee`, the node `net`, and the
subscription's unsettled part drops by `fee + net` (so, over the life of the subscription, the payments
add up to `charged`, and with the refund to the deposit). -/
theorem settlement_pays_exactly {s s' : State} {id : Nat} {acc node : Addr} {bytes : Int}
    (h : sessionInactiveHook s id acc node bytes = .ok s') (hb : 0 ≤ bytes) (hk : Keyed s) (hx : SubIdx s)
    (hab : AllocBounds s) (hi : EscrowSplit s) :
    ∃ x sub dn fee net, s.sessions.get id = some x ∧ s.subs.get x.sub = some sub ∧ s'.subs = s.subs ∧ 0 ≤ fee ∧ 0 ≤ net ∧
      (∀ d, rem s.allocs s.payouts x.sub sub d - rem s'.allocs s'.payouts x.sub sub d = if dn = d then fee + net else 0) ∧
      (∀ a d, escrowOf s' a d = escrowOf s a d - (if sub.addr = a ∧ dn = d then fee + net else 0)) ∧
      PaidOut s s' dn node fee net :=
  sessionInactiveHook_pays h hb hk hx hab hi

/-- **Every hourly payout pays exactly the hourly price** out of the payer's escrow record: `fee` to the
fee collector, `net` to the node, `fee + net` = price; the payout record has one hour fewer left. -/
theorem payout_pays_exactly {s s' : State} {k : Time × Nat} (h : payoutStep s k = .ok s') :
    ∃ item fee net, s.payouts.get k.2 = some item ∧ 0 ≤ fee ∧ 0 ≤ net ∧ fee + net = item.price.amount ∧
      (∀ a d, escrowOf s' a d = escrowOf s a d - (if item.addr = a ∧ item.price.denom = d then item.price.amount else 0)) ∧
      PaidOut s s' item.price.denom item.node fee net :=
  payoutStep_pays h

/-! ## (d) one account's escrow is never spent on another's obligations -/

/-- An hourly payout for subscription `k.2` changes only the escrow record of that subscription's owner. -/
theorem escrow_not_shared_payout {s s' : State} {k : Time × Nat} (h : payoutStep s k = .ok s') (hx : SubIdx s) :
    ∃ x, s.subs.get k.2 = some x ∧ ∀ a, a ≠ x.addr → ∀ d, escrowOf s' a d = escrowOf s a d := by
  obtain ⟨item, hitem, hD⟩ := payoutStep_escrowOf h
  obtain ⟨x, hxs, _⟩ := (hx.payout k.2).mp (Tbl.has_of_get_B hitem)
  obtain ⟨⟨gb, hr, dep, hkd, hhr, haddr⟩, _⟩ := hx.payoutRec k.2 item x hitem hxs
  refine ⟨x, hxs, fun a ha d => ?_⟩
  rw [hD a d, if_neg (by rintro ⟨e, _⟩; exact ha (by rw [← e, haddr])), Int.sub_zero]

/-- The settlement of a session changes only the escrow record of the owner of the session's subscription. -/
theorem escrow_not_shared_settlement {s s' : State} {id : Nat} {acc node : Addr} {bytes : Int}
    (h : sessionInactiveHook s id acc node bytes = .ok s') (hb : 0 ≤ bytes) (hk : Keyed s) (hx : SubIdx s)
    (hab : AllocBounds s) (hi : EscrowSplit s) :
    ∃ x sub, s.sessions.get id = some x ∧ s.subs.get x.sub = some sub ∧
      ∀ a, a ≠ sub.addr → ∀ d, escrowOf s' a d = escrowOf s a d := by
  obtain ⟨x, sub, dn, fee, net, hxs, hsub, _, _, _, _, hD, _⟩ := sessionInactiveHook_pays h hb hk hx hab hi
  refine ⟨x, sub, hxs, hsub, fun a ha d => ?_⟩
  rw [hD a d, if_neg (by rintro ⟨e, _⟩; exact ha e.symm), Int.sub_zero]

/-- A step of the subscription pass on subscription `k.2` (expiry → pending, or removal with refund)
changes only the escrow record of that subscription's owner. -/
theorem escrow_not_shared_refund {s s' : State} {dl : Dur} {k : Time × Nat} {item : Sub}
    (h : subscriptionStep dl s k = .ok s') (hitem : s.subs.get k.2 = some item)
    (hk : Keyed s) (hab : AllocBounds s) (hi : EscrowSplit s) :
    ∀ a, a ≠ item.addr → ∀ d, escrowOf s' a d = escrowOf s a d := by
  intro a ha d
  by_cases hst : item.status = .StatusActive
  · unfold subscriptionStep at h
    simp only [bind_eq_ok, orPanic_eq_ok] at h
    obtain ⟨item', hitem', h⟩ := h
    rw [hitem] at hitem'; cases hitem'
    simp only [hst, if_true, bind_eq_ok, panicIfErr_eq_ok] at h
    obtain ⟨s2, h2, h3⟩ := h
    refine escrowOf_deposits ?_ a d
    exact (deposits_of_view (detachPayout_view h3)).trans ((deposits_of_view (view_subToPending s2 item dl)).trans
      ((deposits_of_view (subscriptionInactivePendingHook_view h2)).trans rfl))
  · obtain ⟨_, c, _, _, hD, _⟩ := subscriptionStep_removal h hitem hst hk hab hi
    rw [hD a d, if_neg (by rintro ⟨e, _⟩; exact ha e.symm), Int.sub_zero]

/-- **C02 (d).** Payout, settlement and refund each touch the escrow record of the subscription's owner only. -/
theorem escrow_not_shared :
    (∀ {s s' : State} {k : Time × Nat}, payoutStep s k = .ok s' → SubIdx s →
      ∃ x, s.subs.get k.2 = some x ∧ ∀ a, a ≠ x.addr → ∀ d, escrowOf s' a d = escrowOf s a d) ∧
    (∀ {s s' : State} {id : Nat} {acc node : Addr} {bytes : Int}, sessionInactiveHook s id acc node bytes = .ok s' →
      0 ≤ bytes → Keyed s → SubIdx s → AllocBounds s → EscrowSplit s →
      ∃ x sub, s.sessions.get id = some x ∧ s.subs.get x.sub = some sub ∧
        ∀ a, a ≠ sub.addr → ∀ d, escrowOf s' a d = escrowOf s a d) ∧
    (∀ {s s' : State} {dl : Dur} {k : Time × Nat} {item : Sub}, subscriptionStep dl s k = .ok s' →
      s.subs.get k.2 = some item → Keyed s → AllocBounds s → EscrowSplit s →
      ∀ a, a ≠ item.addr → ∀ d, escrowOf s' a d = escrowOf s a d) :=
  ⟨fun h hx => escrow_not_shared_payout h hx, fun h hb hk hx hab hi => escrow_not_shared_settlement h hb hk hx hab hi,
   fun h hitem hk hab hi => escrow_not_shared_refund h hitem hk hab hi⟩

/-! ## (e) a concrete history (non-vacuity) -/
section Example

def p1 : Params :=
  { provDeposit := ⟨"udvpn", 0⟩, provShare := 0, nodeDeposit := ⟨"udvpn", 0⟩, activeDur := 86400000000000,
    maxGB := [], minGB := [], maxHr := [], minHr := [], maxSubGB := 10, minSubGB := 1, maxSubHr := 10, minSubHr := 1,
    nodeShare := 100000000000000000, subDelay := 7200000000000, sessDelay := 7200000000000, proof := false, swapOn := false,
    swapDenom := "udvpn", approveBy := [1] }

def g1 : Genesis := { time := 1700000000000000000, params := p1, balances := [([3], "udvpn", 1000000)] }

def acc (b : UInt8) : TextAddr := { role := .acc, bytes := [b] }
def nod (b : UInt8) : TextAddr := { role := .node, bytes := [b] }

/-- Node `[2]` (10/GB, 5/hour, node share 10 %) goes active; account `[3]` buys 2 GB (subscription 1,
deposit 20) and 3 hours (subscription 2, deposit 15), uses 700 000 001 bytes in a session and ends it;
three hours later the first hourly payout is made (BeginBlock), the session is settled and the hourly
lease expires into its pending period (EndBlock). -/
def hist : List Op := [
  .begin 1700000005000000000,
  .tx (.nodeRegister (acc 2) (some [⟨"udvpn", 10⟩]) (some [⟨"udvpn", 5⟩]) [104] true),
  .tx (.nodeStatus (nod 2) 1),
  .tx (.nodeSubscribe (acc 3) (nod 2) 2 0 "udvpn"),
  .tx (.nodeSubscribe (acc 3) (nod 2) 0 3 "udvpn"),
  .tx (.sessStart (acc 3) 1 (nod 2)),
  .tx (.sessUpdate (nod 2) 1 300000000 400000001 60 .none),
  .tx (.sessEnd (acc 3) 1 0),
  .endB,
  .begin 1700010810000000000,
  .endB]

/-- The last state of the history. -/
def sEx : State := ((runTrace g1.state hist).getLast?).getD default

/-- The history does not halt and `sEx` is one of its states … -/
theorem sEx_mem : (runTrace g1.state hist).length = hist.length ∧ sEx ∈ runTrace g1.state hist := by
  have hlen : (runTrace g1.state hist).length = hist.length := by decide +kernel
  refine ⟨hlen, ?_⟩
  have hne : runTrace g1.state hist ≠ [] := by
    intro e; rw [e] at hlen; exact absurd hlen (by decide)
  unfold sEx
  rw [List.getLast?_eq_some_getLast hne]; simp only [Option.getD_some]
  exact List.getLast_mem hne

/-- … so the invariant holds in it (by the theorem) … -/
example : EscrowSplit sEx := escrowSplit_all_histories g1 hist sEx sEx_mem.2

/-- … and the state is not trivial: both subscriptions are live, 700 000 001 bytes are accounted on the
first, two of three hours are left on the second; the unsettled parts are `20 − ⌈10·0.700000001⌉ = 12`
and `5·2 = 10`, the escrow record of `[3]` holds exactly their sum 22 (as does the escrow module
account), the node has received 7 + 5 and the fee collector 1 + 0: 20 + 15 = 22 + 12 + 1. -/
example :
    sEx.subs.map (fun p => (p.1, p.2.addr, p.2.kind)) =
      [(1, [3], .node [2] 2 0 ⟨"udvpn", 20⟩), (2, [3], .node [2] 0 3 ⟨"udvpn", 15⟩)] ∧
    (sEx.allocs.get (1, [3])).map (fun a => (a.granted, a.used)) = some (2000000000, 700000001) ∧
    (sEx.payouts.get 2).map (fun p => (p.price, p.hours)) = some (⟨"udvpn", 5⟩, 2) ∧
    (sEx.subs.get 1).map (fun x => rem sEx.allocs sEx.payouts 1 x "udvpn") = some 12 ∧
    (sEx.subs.get 2).map (fun x => rem sEx.allocs sEx.payouts 2 x "udvpn") = some 10 ∧
    escrowOf sEx [3] "udvpn" = 22 ∧ owed sEx [3] "udvpn" = 22 ∧
    balance sEx depositAddr "udvpn" = 22 ∧ balance sEx [2] "udvpn" = 12 ∧ balance sEx feeCollectorAddr "udvpn" = 1 ∧
    balance sEx [3] "udvpn" = 1000000 - 35 := by
  decide +kernel

/-- The executable monitor (all accounts, all denominations) agrees. -/
example : escrowSplitB sEx = true := by decide +kernel

/-- The charge is a ceiling: one byte over 0.7 GB at 10 per GB costs 8, not 7. -/
example : charge 10 700000001 = 8 ∧ charge 10 700000000 = 7 ∧ charge 10 0 = 0 ∧ charge 10 2000000000 = 20 := by
  decide +kernel

end Example

/-! ## remark (outside C02): deposits of about `2^255` base units (finding F11, repaired)

Before repair F11 (`fix:` commit in /repo, utils/coin.go) `AmountForBytes` went through a 315-bit
decimal and panicked in `Ceil` for prices near `2^255` on a partial gigabyte, which halted EndBlock at
settlement (reproduced on the real application: `corpus/F11_huge_price.ops`).  The regenerated integer
version computes the charge; the same history now settles. -/
section Remark

/-- `AmountForBytes` at `2^255` per gigabyte: a whole gigabyte and one byte less are both priced. -/
theorem afb_huge_price_computed :
    AmountForBytes 57896044618658097711785492504343953926634992332820282019728792003956564819968 1000000000 =
      .ok 57896044618658097711785492504343953926634992332820282019728792003956564819968 ∧
    AmountForBytes 57896044618658097711785492504343953926634992332820282019728792003956564819968 999999999 =
      .ok 57896044560762053093127394792558461422291038406185289686908509984227772816012 := by
  decide +kernel

def gH : Genesis := { time := 1700000000000000000, params := p1, balances := [([3], "udvpn", 57896044618658097711785492504343953926634992332820282019728792003956564819968)] }

/-- A node quoting `2^255` per gigabyte, a buyer owning that much, 999 999 999 bytes used. -/
def histH : List Op := [
  .begin 1700000005000000000,
  .tx (.nodeRegister (acc 2) (some [⟨"udvpn", 57896044618658097711785492504343953926634992332820282019728792003956564819968⟩]) (some [⟨"udvpn", 5⟩]) [104] true),
  .tx (.nodeStatus (nod 2) 1),
  .tx (.nodeSubscribe (acc 3) (nod 2) 1 0 "udvpn"),
  .tx (.sessStart (acc 3) 1 (nod 2)),
  .tx (.sessUpdate (nod 2) 1 999999990 9 60 .none),
  .tx (.sessEnd (acc 3) 1 0),
  .endB,
  .begin 1700010810000000000,
  .endB]

/-- The history runs to its end (no hook halts), and the settlement leaves exactly the unsettled part
`2^255 − ⌈2^255 · 0.999999999⌉` in the buyer's escrow record. -/
example :
    (run gH.state histH).map (fun s => escrowOf s [3] "udvpn") =
      some (57896044618658097711785492504343953926634992332820282019728792003956564819968 -
            57896044560762053093127394792558461422291038406185289686908509984227772816012) := by
  decide +kernel

end Remark

end Hub.Props.C02
