import Hub.Lemmas.MoneyHandlers
import Hub.Model.Run
import Hub.Generated.Facts
/-
C01 — Escrow is fully backed and the marketplace never creates or destroys coins.

`MoneyInv σ s` says: the escrow (deposit) module account holds, denomination by denomination,
exactly the sum of the per-account deposit records (`backed`), the recorded supply equals the sum
of all balances (`supplyOK`), and the supply table is `σ`.  It holds in every genesis state of the
domain, is preserved by every message (accepted or rejected, from any sender other than the escrow
account itself), by every governance change and by every begin/end-of-block step; only an accepted
`MsgSwap` changes `σ`, by exactly the minted amount.
-/
namespace Hub.Props.C01
open Hub.SDK Hub.Model

variable {σ : Tbl Denom Int}

/-- Every handler preserves the money invariant with the same supply, except `MsgSwap`. -/
theorem handle_inv {s s' : State} {m : Msg} (h : m.handle s = .ok s') (hi : MoneyInv σ s)
    (hs : m.sender ≠ depositAddr) (hsw : (Op.tx m).isSwap = false) : MoneyInv σ s' := by
  cases m <;> simp only [Msg.handle] at h <;> simp only [Msg.sender] at hs
  case provRegister => exact provRegister_inv h hi hs
  case provUpdate => exact provUpdate_inv h hi
  case nodeRegister => exact nodeRegister_inv h hi hs
  case nodeUpdate => exact nodeUpdate_inv h hi
  case nodeStatus => exact nodeStatus_inv h hi
  case nodeSubscribe => exact nodeSubscribe_inv h hi hs
  case planCreate => exact planCreate_inv h hi hs
  case planStatus => exact planStatus_inv h hi
  case planLink => exact planLink_inv h hi
  case planUnlink => exact planUnlink_inv h hi
  case planSubscribe => exact planSubscribe_inv h hi hs
  case subCancel => exact subCancel_inv h hi
  case subAllocate => exact subAllocate_inv h hi
  case sessStart => exact sessStart_inv h hi
  case sessUpdate => exact sessUpdate_inv h hi
  case sessEnd => exact sessEnd_inv h hi
  case swap => simp [Op.isSwap] at hsw

/-- A delivered message — accepted or rejected — keeps the invariant; a rejected one changes
nothing but the (cleared) event buffer. -/
theorem deliver_inv (s : State) (m : Msg) (hi : MoneyInv σ s) (hs : m.sender ≠ depositAddr)
    (hsw : (Op.tx m).isSwap = false) : MoneyInv σ (deliver s m).1 := by
  have h0 : MoneyInv σ { s with events := [] } := MoneyInv.of_view (s := s) rfl hi
  unfold deliver
  simp only []
  cases hr : (do m.validateBasic; m.handle { s with events := [] } : M State) with
  | ok s' =>
    simp only [bind_eq_ok] at hr
    obtain ⟨_, _, hh⟩ := hr
    exact handle_inv hh h0 hs hsw
  | error e => cases e <;> exact h0

/-- An accepted swap mints: the invariant holds with the new supply table, which differs from
the old one by exactly the minted coin. -/
theorem deliver_swap_inv (s : State) (frm recv : TextAddr) (hash : Bytes) (amt : Int) (hi : MoneyInv σ s) :
    MoneyInv (deliver s (.swap frm hash recv amt)).1.supply (deliver s (.swap frm hash recv amt)).1 := by
  have h0 : MoneyInv σ { s with events := [] } := MoneyInv.of_view (s := s) rfl hi
  unfold deliver
  simp only []
  cases hr : (do (Msg.swap frm hash recv amt).validateBasic; (Msg.swap frm hash recv amt).handle { s with events := [] } : M State) with
  | ok s' =>
    simp only [bind_eq_ok] at hr
    obtain ⟨_, _, hh⟩ := hr
    exact swap_inv hh h0
  | error e => cases e <;> exact (h0.supplyEq ▸ h0)

theorem gov_inv (s : State) (c : ParamChange) (hi : MoneyInv σ s) : MoneyInv σ ((gov s c).getD s) := by
  cases hg : gov s c with
  | none => exact hi
  | some s' =>
    simp only [Option.getD]
    refine MoneyInv.of_view (s := s) ?_ hi
    unfold gov at hg
    cases c <;> simp only [] at hg <;> (try split at hg) <;> (try split at hg) <;>
      first
        | (simp only [Option.some.injEq] at hg; rw [← hg]; rfl)
        | (simp only [reduceCtorEq] at hg)

/-- One operation of a history (anything but an accepted swap) preserves the invariant **with the
same supply table**: no marketplace message and no block step mints or burns. -/
theorem step_inv (s s' : State) (op : Op) (h : step s op = some s') (hi : MoneyInv σ s) (hs : op.senderOK)
    (hsw : op.isSwap = false) : MoneyInv σ s' := by
  cases op with
  | tx m =>
    simp only [step, Option.some.injEq] at h
    rw [← h]; exact deliver_inv s m hi hs hsw
  | begin t =>
    simp only [step] at h
    split at h
    · rename_i s1 hb
      simp only [Option.some.injEq] at h; rw [← h]; exact beginBlock_inv hb hi
    · contradiction
  | endB =>
    simp only [step] at h
    split at h
    · rename_i s1 hb
      simp only [Option.some.injEq] at h; rw [← h]; exact endBlock_inv hb hi
    · contradiction
  | gov c =>
    simp only [step, Option.some.injEq] at h
    rw [← h]; exact gov_inv s c hi

/-- … and with swaps included the invariant still holds (for the state's own supply table). -/
theorem step_inv_any (s s' : State) (op : Op) (h : step s op = some s') (hi : MoneyInv σ s) (hs : op.senderOK) :
    MoneyInv s'.supply s' := by
  by_cases hsw : op.isSwap = false
  · have := step_inv s s' op h hi hs hsw
    exact this.supplyEq ▸ this
  · cases op with
    | tx m =>
      cases m <;> simp [Op.isSwap] at hsw
      simp only [step, Option.some.injEq] at h
      rw [← h]; exact deliver_swap_inv s _ _ _ _ hi
    | _ => simp [Op.isSwap] at hsw

/-- **C01, all histories**: after every operation of every history from a state satisfying the
invariant, the escrow is fully backed and supply equals the sum of balances. -/
theorem moneyInv_all_histories (ops : List Op) (s : State) (hi : MoneyInv σ s) (hs : ∀ op ∈ ops, op.senderOK) :
    ∀ s' ∈ runTrace s ops, MoneyInv s'.supply s' := by
  induction ops generalizing s σ with
  | nil => intro s' h; simp [runTrace] at h
  | cons op rest ih =>
    intro s' h
    simp only [runTrace] at h
    cases hst : step s op with
    | none => simp [hst] at h
    | some s1 =>
      simp only [hst, List.mem_cons] at h
      have i1 := step_inv_any s s1 op hst hi (hs op (by simp))
      rcases h with h | h
      · rw [h]; exact i1
      · exact ih s1 i1 (fun o ho => hs o (by simp [ho])) s' h

/-- No mint, no burn: along a history without swaps the supply table never changes, hence (by
`supplyOK`) the sum of all balances of every denomination is constant — whatever leaves an account
or the escrow arrives somewhere in the same step. -/
theorem supply_constant_without_swaps (ops : List Op) (s : State) (hi : MoneyInv σ s) (hs : ∀ op ∈ ops, op.senderOK)
    (hsw : ∀ op ∈ ops, op.isSwap = false) : ∀ s' ∈ runTrace s ops, s'.supply = σ ∧ ∀ d, bankTotal s' d = bankTotal s d := by
  induction ops generalizing s with
  | nil => intro s' h; simp [runTrace] at h
  | cons op rest ih =>
    intro s' h
    simp only [runTrace] at h
    cases hst : step s op with
    | none => simp [hst] at h
    | some s1 =>
      simp only [hst, List.mem_cons] at h
      have i1 := step_inv s s1 op hst hi (hs op (by simp)) (hsw op (by simp))
      have e1 : ∀ d, bankTotal s1 d = bankTotal s d := by
        intro d
        rw [← i1.supplyOK d, ← hi.supplyOK d]
        unfold supplyOf; rw [i1.supplyEq, hi.supplyEq]
      rcases h with h | h
      · rw [h]; exact ⟨i1.supplyEq, e1⟩
      · obtain ⟨a, b⟩ := ih s1 i1 (fun o ho => hs o (by simp [ho])) (fun o ho => hsw o (by simp [ho])) s' h
        exact ⟨a, fun d => (b d).trans (e1 d)⟩

/-! ### genesis -/

theorem addBalance_inv (s : State) (b : Addr × Denom × Int) (hi : MoneyInv σ s) (hb : b.1 ≠ depositAddr) :
    MoneyInv (addBalance s b).supply (addBalance s b) := by
  unfold addBalance
  split
  · exact hi.supplyEq ▸ hi
  · refine ⟨?_, hi.depNodup, hi.depNonneg, bankNodup_setBalance hi.bankNodup _ _ _, ?_, hi.provOK, rfl⟩
    · intro d
      show balance (setBalance s b.1 b.2.1 _) depositAddr d = totalDeposits s d
      rw [balance_setBalance, ← hi.backed d]
      simp [hb]
    · intro d
      rw [supplyOf_setSupply]
      show _ = bankTotal (setBalance s b.1 b.2.1 _) d
      rw [bankTotal_setBalance hi.bankNodup, ← hi.supplyOK d]
      by_cases hd : b.2.1 = d
      · subst hd; simp; rfl
      · simp [hd]; rfl

/-- Every genesis state of the domain (no balance on the escrow account, hub tables empty)
satisfies the invariant. -/
theorem genesis_inv (g : Genesis) (hg : ∀ b ∈ g.balances, b.1 ≠ depositAddr) :
    MoneyInv g.state.supply g.state := by
  have h0 : MoneyInv g.base.supply g.base := by
    refine ⟨?_, Tbl.nodup_nil, ?_, Tbl.nodup_nil, ?_, ?_, rfl⟩
    · intro d; rfl
    · intro a cs h; simp [Genesis.base, Tbl.get] at h
    · intro d; rfl
    · intro id p h; simp [Genesis.base, Tbl.get] at h
  unfold Genesis.state
  have key : ∀ (l : List (Addr × Denom × Int)) (s0 : State), (∀ b ∈ l, b.1 ≠ depositAddr) →
      MoneyInv s0.supply s0 → MoneyInv (l.foldl addBalance s0).supply (l.foldl addBalance s0) := by
    intro l
    induction l with
    | nil => intro s0 _ h; exact h
    | cons b rest ih =>
      intro s0 hl h
      simp only [List.foldl_cons]
      exact ih _ (fun x hx => hl x (by simp [hx])) (addBalance_inv s0 b h (hl b (by simp)))
  exact key g.balances g.base hg h0

/-- Static half: no function of the hub other than the swap keeper's `MintCoin` calls
`MintCoins`/`BurnCoins` (regenerated call table). -/
theorem facts_no_mint_burn :
    Hub.Generated.Facts.mintBurnCalls = [("x/swap/keeper/alias.go", "MintCoin", "MintCoins")] := by decide

/-! ### non-vacuity -/

/-- A genesis with three funded accounts. -/
def sampleGenesis : Genesis :=
  { time := 1700000000000000000, params := default,
    balances := [([1], "udvpn", 1000), ([2], "udvpn", 500), ([3], "ibc/x", 7)] }

example : ∀ b ∈ sampleGenesis.balances, b.1 ≠ depositAddr := by decide
example : supplyOf sampleGenesis.state "udvpn" = 1500 ∧ bankTotal sampleGenesis.state "udvpn" = 1500 := by decide

end Hub.Props.C01
