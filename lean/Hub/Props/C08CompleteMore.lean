import Hub.Props.C08
/-
C08 — completeness of the admission rules, the four remaining message kinds.

"… and conversely a well-formed request that meets all of them and can be paid for is accepted."

`Hub/Props/C08.lean` proves `*_complete` for twelve message kinds.  This file adds the remaining
four handlers that carry admission checks: `MsgUpdate` of a provider (`provUpdate`),
`MsgUpdateDetails` of a node (`nodeUpdate`), `MsgAllocate` (`subAllocate`) and `MsgUpdateDetails`
of a session (`sessUpdate`, the usage report).  As in C08.lean every theorem has the shape

  `ValidateBasic` passes ∧ the readable precondition holds in `s` ⇒ `(deliver s m).2 = .accept`,

and the preconditions are read off the handlers in `Hub/Model/Handlers.lean`, check by check.

Two remarks on what the handlers really check (the theorems state exactly that):
* `provUpdate` / `nodeUpdate` re-store the record with `SetProvider` / `SetNode`, which panic for a
  record whose status is neither active nor inactive.  The stored status is one of the two in every
  reachable state (`RecInv`, C09); the precondition says so explicitly and `…_of_recInv` discharge
  it from the invariant.
* `subAllocate` does NOT look at the status of the subscription (an inactive subscription is simply
  no longer in the table): "owns a live plan subscription" is "the record exists, is a plan
  subscription and belongs to the sender".  `bytes` is the receiver's NEW grant (not an increment):
  sender and receiver together keep `fa.granted + ta.granted`, the receiver gets `bytes`, the sender
  the rest.  The arithmetic is 256-bit checked, hence the size bounds (`AllocBounds` of C06 plus
  "grants below 2^255").
-/
namespace Hub.Props.C08
open Hub.SDK Hub.Model
open Hub.Generated (Status)

local notation "L255" => (57896044618658097711785492504343953926634992332820282019728792003956564819968 : Int)
local notation "L256" => (115792089237316195423570985008687907853269984665640564039457584007913129639936 : Int)

/-! ## Specification -/

/-- Updating a provider: the sender is a registered provider (whose stored status is one of the two
partitions, as in every reachable state). -/
def ProvUpdateOK (s : State) (frm : Addr) : Prop :=
  ∃ p, getProvider s frm = some p ∧ (p.status = .StatusActive ∨ p.status = .StatusInactive)

/-- Updating a node's details: the sender is a registered node (stored status active or inactive)
and each price list that is submitted lies within the governance bounds. -/
def NodeUpdateOK (s : State) (frm : Addr) (gb hr : Option Coins) : Prop :=
  (∃ n, getNode s frm = some n ∧ (n.status = .StatusActive ∨ n.status = .StatusInactive)) ∧
  (∀ g, gb = some g → PricesWithin s.params.maxGB s.params.minGB g) ∧
  (∀ h, hr = some h → PricesWithin s.params.maxHr s.params.minHr h)

/-- The receiver's current allocation in subscription `id` (an empty one if there is none yet). -/
def receiverAlloc (s : State) (id : Nat) (grantee : Addr) : Alloc :=
  (s.allocs.get (id, grantee)).getD { id, addr := grantee, granted := 0, used := 0 }

/-- An allocation record of sane size: `0 ≤ used ≤ granted < 2^255`. -/
def AllocSane (a : Alloc) : Prop := 0 ≤ a.used ∧ a.used ≤ a.granted ∧ a.granted < L255

/-- Sharing quota: subscription `id` exists, is a plan subscription and belongs to the sender; the
sender has an allocation `fa` in it; the receiver is someone else; with `ta` the receiver's current
allocation, the receiver's new grant `bytes` is at least what the receiver has already used and at
most what sender and receiver together still have unused. -/
def SubAllocateOK (s : State) (frm : Addr) (id : Nat) (grantee : Addr) (bytes : Int) : Prop :=
  ∃ sub fa, s.subs.get id = some sub ∧ (∃ pid d, sub.kind = .plan pid d) ∧ sub.addr = frm ∧
    s.allocs.get (id, frm) = some fa ∧ frm ≠ grantee ∧
    AllocSane fa ∧ AllocSane (receiverAlloc s id grantee) ∧
    (receiverAlloc s id grantee).used ≤ bytes ∧
    bytes ≤ (fa.granted + (receiverAlloc s id grantee).granted) - (fa.used + (receiverAlloc s id grantee).used)

/-- A valid proof signature: made with the key registered for the account. -/
def ValidSignature (s : State) (acc : Addr) (sig : SigSpec) : Prop :=
  ∃ k, sig = .good k ∧ s.keyed.get acc = some k

/-- A usage report: the session exists and is not inactive, the sender is the session's node, and —
when proof verification is switched on — the report carries a valid signature of the session's
account. -/
def SessUpdateOK (s : State) (frm : Addr) (id : Nat) (sig : SigSpec) : Prop :=
  ∃ x, s.sessions.get id = some x ∧ x.status ≠ .StatusInactive ∧ x.node = frm ∧
    (s.params.proof = true → ValidSignature s x.addr sig)

/-! ## Bridges -/

theorem signatureOk_iff (s : State) (acc : Addr) (sig : SigSpec) :
    signatureOk s acc sig = true ↔ ValidSignature s acc sig := by
  unfold signatureOk ValidSignature
  constructor
  · intro h
    split at h
    · rename_i i j hg
      exact ⟨i, rfl, by rw [hg]; simp only [decide_eq_true_eq] at h; rw [h]⟩
    · cases h
  · rintro ⟨k, rfl, hk⟩
    simp [hk]

theorem getProvider_status_of_recInv {s : State} (hr : RecInv s) {a : Addr} {p : Provider} (hp : getProvider s a = some p) :
    p.status = .StatusActive ∨ p.status = .StatusInactive := by
  unfold getProvider at hp
  cases ha : s.provActive.get a with
  | some q => simp only [ha] at hp; cases hp; exact Or.inl (hr.provA a _ ha).2
  | none => simp only [ha] at hp; exact Or.inr (hr.provI a p hp).2

theorem getNode_status_of_recInv {s : State} (hr : RecInv s) {a : Addr} {n : Node} (hn : getNode s a = some n) :
    n.status = .StatusActive ∨ n.status = .StatusInactive := by
  unfold getNode at hn
  cases ha : s.nodeActive.get a with
  | some q => simp only [ha] at hn; cases hn; exact Or.inl (hr.nodeA a _ ha).2
  | none => simp only [ha] at hn; exact Or.inr (hr.nodeI a n hn).2.1

theorem setProvider_ok_of (s : State) {p : Provider} (h : p.status = .StatusActive ∨ p.status = .StatusInactive) :
    ∃ s', setProvider s p = .ok s' := by
  unfold setProvider
  rcases h with h | h <;> rw [h] <;> exact ⟨_, rfl⟩

theorem setNode_ok_of (s : State) {n : Node} (h : n.status = .StatusActive ∨ n.status = .StatusInactive) :
    ∃ s', setNode s n = .ok s' := by
  unfold setNode
  rcases h with h | h <;> rw [h] <;> exact ⟨_, rfl⟩

theorem provUpdated_status' (p : Provider) (n i w d : Bytes) (st : Status) (now : Time) :
    (provUpdated p n i w d st now).status = if st ≠ .StatusUnspecified then st else p.status := by
  unfold provUpdated; simp only []; split <;> split <;> rfl

theorem nodeUpdated_status' (n : Node) (gb hr : Option Coins) (url : Bytes) :
    (nodeUpdated n gb hr url).status = n.status := by
  unfold nodeUpdated; cases gb <;> cases hr <;> simp only [] <;> split <;> rfl

theorem intOverflows_false_abs {x : Int} (h0 : -L256 < x) (h1 : x < L256) : intOverflows x = false := by
  unfold intOverflows
  simp only [decide_eq_false_iff_not, ge_iff_le, Nat.not_le]
  omega

theorem SInt.add_ok_abs {a b : Int} (h0 : -L256 < a + b) (h1 : a + b < L256) : SInt.add a b = .ok (a + b) := by
  unfold SInt.add; rw [intOverflows_false_abs h0 h1]; rfl

theorem SInt.sub_ok_abs {a b : Int} (h0 : -L256 < a - b) (h1 : a - b < L256) : SInt.sub a b = .ok (a - b) := by
  unfold SInt.sub; rw [intOverflows_false_abs h0 h1]; rfl

/-! ## Completeness -/

/-- **Completeness of the provider's `MsgUpdate`.** -/
theorem provUpdate_complete (s : State) (frm : TextAddr) (name identity website desc : Bytes) (status : Int) (webok : Bool)
    (hv : (Msg.provUpdate frm name identity website desc status webok).validateBasic = .ok ())
    (hok : ProvUpdateOK s frm.bytes) :
    (deliver s (.provUpdate frm name identity website desc status webok)).2 = .accept := by
  obtain ⟨p, hp, hps⟩ := hok
  have hp' : getProvider (clr s) frm.bytes = some p := hp
  have hv' := hv
  simp only [Msg.validateBasic, bind_eq_ok, require_eq_ok] at hv'
  obtain ⟨_, _, _, _, _, _, _, _, _, _, _, _, hst⟩ := hv'
  obtain ⟨st, hs, hone⟩ := validStatus_ok hst
  simp only [Status.IsOneOf, Status.Equal, List.any_cons, List.any_nil, Bool.or_false, Bool.or_eq_true, beq_iff_eq] at hone
  have hnew : (provUpdated p name identity website desc st (clr s).time).status = .StatusActive ∨
      (provUpdated p name identity website desc st (clr s).time).status = .StatusInactive := by
    rw [provUpdated_status']
    rcases hone with rfl | rfl | rfl
    · simpa using hps
    · left; simp
    · right; simp
  apply accept_of_handle hv
  simp only [Msg.handle, hs, Option.getD_some, provUpdate, hp', orReject_some, ok_bind]
  obtain ⟨s3, h3⟩ := setProvider_ok_of _ hnew
  rw [h3]
  exact ⟨_, rfl⟩

/-- The same from the partition invariant `RecInv` (C09), which holds in every reachable state. -/
theorem provUpdate_complete_of_recInv (s : State) (hr : RecInv s) (frm : TextAddr) (name identity website desc : Bytes)
    (status : Int) (webok : Bool)
    (hv : (Msg.provUpdate frm name identity website desc status webok).validateBasic = .ok ())
    (hok : ∃ p, getProvider s frm.bytes = some p) :
    (deliver s (.provUpdate frm name identity website desc status webok)).2 = .accept := by
  obtain ⟨p, hp⟩ := hok
  exact provUpdate_complete s frm name identity website desc status webok hv ⟨p, hp, getProvider_status_of_recInv hr hp⟩

/-- **Completeness of the node's `MsgUpdateDetails`.** -/
theorem nodeUpdate_complete (s : State) (frm : TextAddr) (gb hr : Option Coins) (url : Bytes) (urlok : Bool)
    (hv : (Msg.nodeUpdate frm gb hr url urlok).validateBasic = .ok ())
    (hok : NodeUpdateOK s frm.bytes gb hr) :
    (deliver s (.nodeUpdate frm gb hr url urlok)).2 = .accept := by
  obtain ⟨⟨n, hn, hns⟩, hg, hh⟩ := hok
  have hn' : getNode (clr s) frm.bytes = some n := hn
  have hG : ∀ g, gb = some g → pricesWithin (clr s).params.maxGB (clr s).params.minGB g = true :=
    fun g e => (pricesWithin_iff _ _ _).mpr (hg g e)
  have hH : ∀ h, hr = some h → pricesWithin (clr s).params.maxHr (clr s).params.minHr h = true :=
    fun h e => (pricesWithin_iff _ _ _).mpr (hh h e)
  have hnew : (nodeUpdated n gb hr url).status = .StatusActive ∨ (nodeUpdated n gb hr url).status = .StatusInactive := by
    rw [nodeUpdated_status']; exact hns
  obtain ⟨s1, h1⟩ := setNode_ok_of (clr s) hnew
  apply accept_of_handle hv
  cases gb with
  | none =>
    cases hr with
    | none =>
      simp only [Msg.handle, nodeUpdate, require_true, ok_bind, hn', orReject_some, h1]
      exact ⟨_, rfl⟩
    | some h =>
      simp only [Msg.handle, nodeUpdate, hH h rfl, require_true, ok_bind, hn', orReject_some, h1]
      exact ⟨_, rfl⟩
  | some g =>
    cases hr with
    | none =>
      simp only [Msg.handle, nodeUpdate, hG g rfl, require_true, ok_bind, hn', orReject_some, h1]
      exact ⟨_, rfl⟩
    | some h =>
      simp only [Msg.handle, nodeUpdate, hG g rfl, hH h rfl, require_true, ok_bind, hn', orReject_some, h1]
      exact ⟨_, rfl⟩

/-- The same from the partition invariant `RecInv` (C09). -/
theorem nodeUpdate_complete_of_recInv (s : State) (hrec : RecInv s) (frm : TextAddr) (gb hr : Option Coins) (url : Bytes)
    (urlok : Bool) (hv : (Msg.nodeUpdate frm gb hr url urlok).validateBasic = .ok ())
    (hown : NodeOwnOK s frm.bytes)
    (hg : ∀ g, gb = some g → PricesWithin s.params.maxGB s.params.minGB g)
    (hh : ∀ h, hr = some h → PricesWithin s.params.maxHr s.params.minHr h) :
    (deliver s (.nodeUpdate frm gb hr url urlok)).2 = .accept := by
  obtain ⟨n, hn⟩ := hown
  exact nodeUpdate_complete s frm gb hr url urlok hv ⟨⟨n, hn, getNode_status_of_recInv hrec hn⟩, hg, hh⟩

/-- **Completeness of `MsgAllocate`.** -/
theorem subAllocate_complete (s : State) (frm grantee : TextAddr) (id : Nat) (bytes : Int)
    (hv : (Msg.subAllocate frm id grantee bytes).validateBasic = .ok ())
    (hok : SubAllocateOK s frm.bytes id grantee.bytes bytes) :
    (deliver s (.subAllocate frm id grantee bytes)).2 = .accept := by
  obtain ⟨sub, fa, hs, ⟨pid, d, hkind⟩, hown, hfa, hne, ⟨f0, f1, f2⟩, ⟨t0, t1, t2⟩, hlo, hhi⟩ := hok
  unfold receiverAlloc at t0 t1 t2 hlo hhi
  have hs' : (clr s).subs.get id = some sub := hs
  have hfa' : (clr s).allocs.get (id, frm.bytes) = some fa := hfa
  have hplan : isPlanSub sub = true := by unfold isPlanSub; rw [hkind]
  have hd1 : decide (frm.bytes = sub.addr) = true := by simp [hown]
  have hd2 : (frm.bytes != grantee.bytes) = true := by simp [hne]
  -- the receiver's allocation, as the handler reads it
  generalize hta : ((clr s).allocs.get (id, grantee.bytes)).getD { id := id, addr := grantee.bytes, granted := 0, used := 0 } = ta
  have hta' : (s.allocs.get (id, grantee.bytes)).getD { id := id, addr := grantee.bytes, granted := 0, used := 0 } = ta := hta
  rw [hta'] at t0 t1 t2 hlo hhi
  have a1 : SInt.add fa.granted ta.granted = .ok (fa.granted + ta.granted) := SInt.add_ok_abs (by omega) (by omega)
  have a2 : SInt.add fa.used ta.used = .ok (fa.used + ta.used) := SInt.add_ok_abs (by omega) (by omega)
  have a3 : SInt.sub (fa.granted + ta.granted) (fa.used + ta.used) = .ok (fa.granted + ta.granted - (fa.used + ta.used)) :=
    SInt.sub_ok_abs (by omega) (by omega)
  have a4 : SInt.sub (fa.granted + ta.granted) bytes = .ok (fa.granted + ta.granted - bytes) :=
    SInt.sub_ok_abs (by omega) (by omega)
  have c1 : decide (bytes ≤ fa.granted + ta.granted - (fa.used + ta.used)) = true := by simpa using hhi
  have c2 : decide (fa.used ≤ fa.granted + ta.granted - bytes) = true := by simp; omega
  have c3 : decide (ta.used ≤ bytes) = true := by simpa using hlo
  apply accept_of_handle hv
  simp only [Msg.handle, subAllocate, hs', orReject_some, ok_bind, hplan, hd1, hd2, require_true, hfa', hta, a1, a2, a3, a4,
    c1, c2, c3]
  exact ⟨_, rfl⟩

/-- **Completeness of the usage report** (`MsgUpdateDetails` of a session). -/
theorem sessUpdate_complete (s : State) (frm : TextAddr) (id : Nat) (up down dur : Int) (sig : SigSpec)
    (hv : (Msg.sessUpdate frm id up down dur sig).validateBasic = .ok ())
    (hok : SessUpdateOK s frm.bytes id sig) :
    (deliver s (.sessUpdate frm id up down dur sig)).2 = .accept := by
  obtain ⟨x, hx, hst, hnode, hsig⟩ := hok
  have hx' : (clr s).sessions.get id = some x := hx
  have hd1 : decide (x.status ≠ Status.StatusInactive) = true := by simp [hst]
  have hd2 : decide (frm.bytes = x.node) = true := by simp [hnode]
  have hd3 : (!(clr s).params.proof || signatureOk (clr s) x.addr sig) = true := by
    show (!s.params.proof || signatureOk s x.addr sig) = true
    cases hp : s.params.proof with
    | false => rfl
    | true => simpa using (signatureOk_iff s x.addr sig).mpr (hsig hp)
  apply accept_of_handle hv
  simp only [Msg.handle, sessUpdate, hx', orReject_some, ok_bind, hd1, hd2, hd3, require_true]
  exact ⟨_, rfl⟩

/-! ## Examples (non-vacuity) on the sample state `s2` of C08.lean -/
section Examples
open C07 (alice bob carol nodeA nodeB acc prov node g0)

-- alice is a registered provider; node A is a registered node; new prices inside the (empty) bounds
example : (deliver s2 (.provUpdate (prov alice) [66] [] [] [] 1 true)).2 = .accept :=
  provUpdate_complete s2 (prov alice) [66] [] [] [] 1 true (by decide)
    ⟨(getProvider s2 alice).getD default, by decide +kernel, by decide +kernel⟩

example : (deliver s2 (.nodeUpdate (node nodeA) (some [⟨"udvpn", 7⟩]) none [] true)).2 = .accept :=
  nodeUpdate_complete s2 (node nodeA) (some [⟨"udvpn", 7⟩]) none [] true (by decide)
    ⟨⟨(getNode s2 nodeA).getD default, by decide +kernel, by decide +kernel⟩,
     by intro g hg; cases hg; exact (pricesWithin_iff _ _ _).mp (by decide +kernel),
     by intro h hh; cases hh⟩

-- bob owns plan subscription 3 (1 GB); he gives carol 500 MB of it
example : SubAllocateOK s2 bob 3 carol 500000000 :=
  ⟨(s2.subs.get 3).getD default, (s2.allocs.get (3, bob)).getD default, by decide +kernel, ⟨1, "udvpn", by decide +kernel⟩,
   by decide +kernel, by decide +kernel, by decide, by unfold AllocSane; decide +kernel, by unfold AllocSane; decide +kernel,
   by decide +kernel, by decide +kernel⟩

example : (deliver s2 (.subAllocate (acc bob) 3 (acc carol) 500000000)).2 = .accept :=
  subAllocate_complete s2 (acc bob) (acc carol) 3 500000000 (by decide)
    ⟨(s2.subs.get 3).getD default, (s2.allocs.get (3, bob)).getD default, by decide +kernel, ⟨1, "udvpn", by decide +kernel⟩,
     by decide +kernel, by decide +kernel, by decide, by unfold AllocSane; decide +kernel, by unfold AllocSane; decide +kernel,
     by decide +kernel, by decide +kernel⟩

-- more than the two still have unused: the precondition fails and the request is rejected
example : (deliver s2 (.subAllocate (acc bob) 3 (acc carol) 1000000001)).2 = .reject "insufficient bytes" := by decide +kernel

/-- `s2` after bob started a session (id 1) on node A with his plan subscription. -/
def s4 : State := (deliver s2 (.sessStart (acc bob) 3 (node nodeA))).1

-- proof verification is on in `g0`; bob's key has index 4
example : SessUpdateOK s4 nodeA 1 (.good 4) :=
  ⟨(s4.sessions.get 1).getD default, by decide +kernel, by decide +kernel, by decide +kernel, fun _ => ⟨4, rfl, by decide +kernel⟩⟩

example : (deliver s4 (.sessUpdate (node nodeA) 1 10 20 5 (.good 4))).2 = .accept :=
  sessUpdate_complete s4 (node nodeA) 1 10 20 5 (.good 4) (by decide)
    ⟨(s4.sessions.get 1).getD default, by decide +kernel, by decide +kernel, by decide +kernel, fun _ => ⟨4, rfl, by decide +kernel⟩⟩

example : (deliver s4 (.sessUpdate (node nodeA) 1 10 20 5 (.good 5))).2 = .reject "invalid signature" := by decide +kernel
example : (deliver s4 (.sessUpdate (node nodeB) 1 10 20 5 (.good 4))).2 = .reject "unauthorized" := by decide +kernel

end Examples

end Hub.Props.C08
