import Hub.Lemmas.Mint
import Hub.Lemmas.Swap
import Hub.Model.Run
import Hub.Props.C17
/-
C15 — Scheduled inflation changes take effect on time, once, in order.

Property text: "After the begin-of-block step at block time t the minting parameters (maximum,
minimum, rate of change) equal those of the latest scheduled entry whose timestamp is at or before
t and the current inflation rate has been reset to that entry's minimum, provided at least one
entry became due since the previous block; entries scheduled for later are untouched and every
entry is applied at most once."

Go: `x/mint/abci.go` iterates the schedule in store order (`KVStorePrefixIterator` over
`0x01 ++ FormatTimeBytes(ts)`), stops at the first entry whose timestamp is after the block time,
and for every earlier one overwrites the three SDK mint parameters, sets `Minter.Inflation` to the
entry's minimum and deletes the entry.

* `mint_hook_spec`: for *any* iteration order: what is left is the schedule minus its longest due
  prefix; the parameters are those of the last entry of that prefix; nothing else changes.
* `mint_hook_chronological`: when the iteration order is chronological (`hsorted`), this is the
  property text: parameters of the entry with the greatest timestamp `≤ t`, every due entry
  removed, every later entry untouched.
* `sorted_of_inRange`: `hsorted` holds when all timestamps are instants of years 1..9999 (C17).
* `applied_at_most_once`(+`_chronological`): over any sequence of block times.
* `step_begin_mint`, `step_other_mint`, `begin_step_chronological`, `history_applied_then_remaining`,
  `applied_at_most_once_history`: the same over whole histories (`step`/`run` of `Hub/Model/Run.lean`):
  only a begin-of-block operation touches the schedule, the mint parameters or the minter's rate.
* `genesis_schedWF`, `genesis_schedule`, `genesis_sorted`: the hypotheses hold for genesis states.

Scope note: "the current inflation rate has been reset to the entry's minimum" is a statement about the
state right after the custommint hook.  In the real application the SDK mint module's own BeginBlocker
runs next in the same block (app/module.go: custommint, then mint) and moves `Minter.Inflation` by one
per-block step inside `[min, max]`; the model (and the lock-step comparison) observe the rate right
after the hook.
-/
namespace Hub.Props.C15
open Hub.SDK Hub.Model

/-- The entry is due at block time `t` (Go: `!item.Timestamp.After(ctx.BlockTime())`). -/
def dueAt (t : Time) (i : Inflation) : Bool := decide (i.ts ≤ t)

/-- The custommint begin-of-block step at block time `t`. -/
def hook (s : State) (t : Time) : State := mintBeginBlock { s with time := t }

/-! ### general list facts -/

theorem getLast?_eq_none {α : Type} {l : List α} (h : l.getLast? = none) : l = [] := by
  cases l with
  | nil => rfl
  | cons a r => simp [List.getLast?_cons] at h

theorem getLast?_mem {α : Type} {l : List α} {z : α} (h : l.getLast? = some z) : z ∈ l :=
  List.mem_of_getLast? h

theorem pairwise_getLast {α : Type} {R : α → α → Prop} {l : List α} {z : α} (hp : l.Pairwise R)
    (h : l.getLast? = some z) : ∀ x ∈ l, x = z ∨ R x z := by
  induction l with
  | nil => simp at h
  | cons a rest ih =>
    intro x hx
    cases rest with
    | nil =>
      simp only [List.getLast?_singleton, Option.some.injEq] at h
      simp only [List.mem_singleton] at hx
      left; rw [hx, h]
    | cons b r =>
      rw [List.getLast?_cons_cons] at h
      rcases List.mem_cons.mp hx with hx | hx
      · right; rw [hx]; exact List.rel_of_pairwise_cons hp (getLast?_mem h)
      · exact ih (List.Pairwise.of_cons hp) h x hx

/-! ### one block -/

/-- **The hook, for any iteration order.** Let `sched` be the schedule in iteration order. After the
begin-of-block step at time `t`: the remaining schedule is `sched` without its longest prefix of due
entries; if that prefix is empty nothing changes (but the block time); otherwise the three mint
parameters are those of the *last* entry of the prefix, the current inflation rate is its minimum,
and nothing but these four values and the schedule changes. -/
theorem mint_hook_spec (s : State) (t : Time) (hwf : SchedWF s) :
    inflationOrder (hook s t) = (inflationOrder s).dropWhile (dueAt t) ∧
    SchedWF (hook s t) ∧
    (match ((inflationOrder s).takeWhile (dueAt t)).getLast? with
     | none => hook s t = { s with time := t }
     | some e => (hook s t).mintMax = e.max ∧ (hook s t).mintMin = e.min ∧ (hook s t).mintRate = e.rate ∧
         (hook s t).minterInfl = e.min ∧
         hook s t = { s with time := t, mintMax := e.max, mintMin := e.min, mintRate := e.rate, minterInfl := e.min,
                             inflations := (hook s t).inflations }) ∧
    (∀ k, (hook s t).inflations.get k
        = if k ∈ ((inflationOrder s).takeWhile (dueAt t)).map (·.ts) then none else s.inflations.get k) := by
  have hspec : hook s t = (match ((inflationOrder s).takeWhile (dueAt t)).getLast? with
      | none => { s with time := t }
      | some e => applyInflation { s with time := t } e
          (Tbl.eraseAll s.inflations (((inflationOrder s).takeWhile (dueAt t)).map (·.ts)))) :=
    go_spec (inflationOrder s) { s with time := t }
  have htw : ((inflationOrder s).takeWhile (dueAt t)).map (·.ts) = (inflationKeys s).takeWhile (fun k => decide (k ≤ t)) := by
    rw [← inflationOrder_map_ts hwf]; exact takeWhile_map_ts (fun k => decide (k ≤ t)) _
  have hinfl : (hook s t).inflations = Tbl.eraseAll s.inflations (((inflationOrder s).takeWhile (dueAt t)).map (·.ts)) := by
    cases hl : ((inflationOrder s).takeWhile (dueAt t)).getLast? with
    | none =>
      rw [hl] at hspec
      have h' : hook s t = { s with time := t } := hspec
      rw [h', getLast?_eq_none hl]; rfl
    | some e =>
      rw [hl] at hspec
      have h' : hook s t = applyInflation { s with time := t } e
          (Tbl.eraseAll s.inflations (((inflationOrder s).takeWhile (dueAt t)).map (·.ts))) := hspec
      rw [h']; rfl
  have hget : ∀ k, (hook s t).inflations.get k
        = if k ∈ ((inflationOrder s).takeWhile (dueAt t)).map (·.ts) then none else s.inflations.get k := by
    intro k; rw [hinfl, Tbl.get_eraseAll]
  refine ⟨?_, ⟨?_, ?_⟩, ?_, hget⟩
  · have : inflationOrder (hook s t) = inflationOrder { s with inflations := (hook s t).inflations } := rfl
    rw [this, hinfl, htw]
    exact inflationOrder_erase_prefix s hwf (fun k => decide (k ≤ t))
  · rw [hinfl]; exact Tbl.nodup_eraseAll hwf.nodup _
  · intro k i hk
    rw [hget] at hk
    split at hk
    · contradiction
    · exact hwf.keyed k i hk
  · cases hl : ((inflationOrder s).takeWhile (dueAt t)).getLast? with
    | none =>
      rw [hl] at hspec
      exact hspec
    | some e =>
      rw [hl] at hspec
      have h' : hook s t = applyInflation { s with time := t } e
          (Tbl.eraseAll s.inflations (((inflationOrder s).takeWhile (dueAt t)).map (·.ts))) := hspec
      show _ ∧ _ ∧ _ ∧ _ ∧ _
      refine ⟨by rw [h']; rfl, by rw [h']; rfl, by rw [h']; rfl, by rw [h']; rfl, ?_⟩
      rw [← hinfl] at h'
      exact h'

/-- A hook at a time when nothing is due changes nothing (but the block time). -/
theorem mint_hook_nothing_due (s : State) (t : Time) (hwf : SchedWF s)
    (h : ∀ i ∈ (inflationOrder s).head?, t < i.ts) : hook s t = { s with time := t } := by
  have h3 := (mint_hook_spec s t hwf).2.2.1
  have : (inflationOrder s).takeWhile (dueAt t) = [] := by
    cases hl : inflationOrder s with
    | nil => rfl
    | cons a r =>
      have := h a (by rw [hl]; rfl)
      have hd : dueAt t a = false := decide_eq_false (Int.not_le.mpr this)
      rw [List.takeWhile_cons, hd]; rfl
  rw [this] at h3
  exact h3

/-! ### chronological iteration order -/

theorem sorted_split (t : Time) : ∀ (l : List Inflation), l.Pairwise (fun a b => a.ts < b.ts) →
    l.takeWhile (dueAt t) = l.filter (dueAt t) ∧ l.dropWhile (dueAt t) = l.filter (fun i => !dueAt t i) := by
  intro l
  induction l with
  | nil => intro _; exact ⟨rfl, rfl⟩
  | cons a rest ih =>
    intro hp
    obtain ⟨ih1, ih2⟩ := ih (List.Pairwise.of_cons hp)
    by_cases h : dueAt t a = true
    · rw [List.takeWhile_cons, List.dropWhile_cons, List.filter_cons, List.filter_cons]
      simp only [h, if_true, Bool.not_true, Bool.false_eq_true, if_false]
      exact ⟨by rw [ih1], ih2⟩
    · have hrest : ∀ b ∈ rest, dueAt t b = false := by
        intro b hb
        have h1 : a.ts < b.ts := List.rel_of_pairwise_cons hp hb
        have h2 : ¬ a.ts ≤ t := by simpa [dueAt] using h
        exact decide_eq_false (fun h3 => h2 (Int.le_trans (Int.le_of_lt h1) h3))
      have h' : dueAt t a = false := by simpa using h
      rw [List.takeWhile_cons, List.dropWhile_cons, List.filter_cons, List.filter_cons]
      simp only [h', Bool.false_eq_true, if_false, Bool.not_false, if_true]
      refine ⟨?_, ?_⟩
      · symm; rw [List.filter_eq_nil_iff]; intro b hb; simp [hrest b hb]
      · congr 1; symm; rw [List.filter_eq_self]; intro b hb; simp [hrest b hb]

/-- **The property text, for a chronological iteration order.** After the begin-of-block step at
time `t`: (1) every entry with timestamp `≤ t` is gone and every later entry is untouched; (2) if no
entry is due nothing changes; (3) if `e` is the scheduled entry with the greatest timestamp `≤ t`,
the minting parameters are `e`'s, the current rate is `e.min`, and nothing else changes. -/
theorem mint_hook_chronological (s : State) (t : Time) (hwf : SchedWF s)
    (hsorted : (inflationOrder s).Pairwise (fun a b => a.ts < b.ts)) :
    (∀ k, (hook s t).inflations.get k = if k ≤ t then none else s.inflations.get k) ∧
    ((∀ k i, s.inflations.get k = some i → t < k) → hook s t = { s with time := t }) ∧
    (∀ e, s.inflations.get e.ts = some e → e.ts ≤ t →
      (∀ k i, s.inflations.get k = some i → k ≤ t → k ≤ e.ts) →
        (hook s t).mintMax = e.max ∧ (hook s t).mintMin = e.min ∧ (hook s t).mintRate = e.rate ∧
        (hook s t).minterInfl = e.min ∧
        hook s t = { s with time := t, mintMax := e.max, mintMin := e.min, mintRate := e.rate, minterInfl := e.min,
                            inflations := (hook s t).inflations }) := by
  obtain ⟨_, _, hpar, hget⟩ := mint_hook_spec s t hwf
  have htw := (sorted_split t _ hsorted).1
  have hmem : ∀ i, i ∈ (inflationOrder s).takeWhile (dueAt t) ↔ (s.inflations.get i.ts = some i ∧ i.ts ≤ t) := by
    intro i
    rw [htw, List.mem_filter, mem_inflationOrder hwf]
    simp [dueAt]
  refine ⟨?_, ?_, ?_⟩
  · intro k
    rw [hget k]
    by_cases hk : k ≤ t
    · simp only [hk, if_true]
      split
      · rfl
      · rename_i hn
        cases hg : s.inflations.get k with
        | none => rfl
        | some i =>
          exfalso; apply hn
          have hts := hwf.keyed k i hg
          exact List.mem_map.mpr ⟨i, (hmem i).mpr ⟨by rw [hts]; exact hg, by rw [hts]; exact hk⟩, hts⟩
    · simp only [hk, if_false]
      split
      · rename_i hm
        obtain ⟨i, hi, hts⟩ := List.mem_map.mp hm
        have := ((hmem i).mp hi).2
        rw [hts] at this; exact absurd this hk
      · rfl
  · intro hnone
    have : (inflationOrder s).takeWhile (dueAt t) = [] := by
      rw [List.eq_nil_iff_forall_not_mem]
      intro i hi
      obtain ⟨h1, h2⟩ := (hmem i).mp hi
      have := hnone _ _ h1
      exact absurd h2 (Int.not_le.mpr this)
    rw [this] at hpar
    exact hpar
  · intro e he het hmax
    have hein : e ∈ (inflationOrder s).takeWhile (dueAt t) := (hmem e).mpr ⟨he, het⟩
    cases hl : ((inflationOrder s).takeWhile (dueAt t)).getLast? with
    | none => rw [getLast?_eq_none hl] at hein; simp at hein
    | some z =>
      rw [hl] at hpar
      have hz := (hmem z).mp (getLast?_mem hl)
      have hsub : ((inflationOrder s).takeWhile (dueAt t)).Pairwise (fun a b => a.ts < b.ts) :=
        hsorted.sublist (List.takeWhile_sublist _)
      have h1 : z.ts ≤ e.ts := hmax _ _ hz.1 hz.2
      have h2 : e = z ∨ e.ts < z.ts := pairwise_getLast hsub hl e hein
      have hez : e = z := by
        rcases h2 with h2 | h2
        · exact h2
        · exact absurd h1 (Int.not_le.mpr h2)
      rw [hez]; exact hpar

/-- Byte order of the 29-byte time key is time order for instants of years 1..9999 (C17), so the
iteration order of a schedule whose timestamps are such instants is chronological. -/
theorem sorted_of_inRange (s : State) (hwf : SchedWF s) (hr : ∀ k ∈ s.inflations.keys, Hub.Props.C17.InRange k) :
    (inflationOrder s).Pairwise (fun a b => a.ts < b.ts) := by
  have h1 : (inflationKeys s).Pairwise (fun a b => bytesLe (Hub.Generated.Keys.mint.InflationKey a) (Hub.Generated.Keys.mint.InflationKey b) = true) :=
    List.pairwise_mergeSort (le := fun a b => bytesLe (Hub.Generated.Keys.mint.InflationKey a) (Hub.Generated.Keys.mint.InflationKey b))
      (fun a b c => bytesLe_trans _ _ _) (fun a b => bytesLe_total _ _) _
  have h2 : (inflationKeys s).Pairwise (fun a b => a ≠ b) := inflationKeys_nodup hwf.nodup
  have h3 : (inflationKeys s).Pairwise (fun a b => a < b) := by
    refine (h1.and h2).imp_of_mem ?_
    intro a b ha hb ⟨hle, hne⟩
    have ra := hr a (mem_inflationKeys.mp ha)
    have rb := hr b (mem_inflationKeys.mp hb)
    unfold Hub.Generated.Keys.mint.InflationKey at hle
    rw [bytesLe_append_left, bytesLe_iff] at hle
    have hnlt : ¬ b < a := (Hub.Props.C17.mono_of_inRange rb ra).not.mp (by rw [hle]; simp)
    rcases Int.lt_trichotomy a b with h | h | h
    · exact h
    · exact absurd h hne
    · exact absurd h hnlt
  rw [← inflationOrder_map_ts hwf] at h3
  exact List.Pairwise.of_map (·.ts) (fun _ _ h => h) h3

/-! ### any sequence of block times -/

/-- The hook run at each of a sequence of block times. -/
def runBlocks (s : State) (ts : List Time) : State := ts.foldl hook s

/-- The same loop as `mintBeginBlock.go`, also returning the entries it applied, in order. -/
def goLog (s : State) : List Inflation → State × List Inflation
  | [] => (s, [])
  | item :: rest =>
    if item.ts > s.time then (s, [])
    else
      let s := { s with mintMax := item.max, mintMin := item.min, mintRate := item.rate, minterInfl := item.min }
      let s := { s with inflations := s.inflations.erase item.ts }
      let r := goLog s rest
      (r.1, item :: r.2)

theorem goLog_fst (l : List Inflation) (s : State) : (goLog s l).1 = mintBeginBlock.go s l := by
  induction l generalizing s with
  | nil => rfl
  | cons item rest ih =>
    unfold goLog mintBeginBlock.go
    split
    · rfl
    · exact ih _

theorem goLog_snd (l : List Inflation) (s : State) : (goLog s l).2 = l.takeWhile (dueAt s.time) := by
  induction l generalizing s with
  | nil => rfl
  | cons item rest ih =>
    unfold goLog
    by_cases h : item.ts > s.time
    · have h' : dueAt s.time item = false := decide_eq_false (Int.not_le.mpr h)
      simp only [h, if_true, List.takeWhile_cons, h']; rfl
    · have h' : dueAt s.time item = true := decide_eq_true (Int.not_lt.mp h)
      simp only [h, if_false, List.takeWhile_cons, h', if_true]
      rw [ih]

/-- The entries applied by the hook at time `t` (`goLog_snd`: this is what the loop applies). -/
def applied (s : State) (t : Time) : List Inflation := (inflationOrder s).takeWhile (dueAt t)

theorem applied_eq_goLog (s : State) (t : Time) :
    applied s t = (goLog { s with time := t } (inflationOrder { s with time := t })).2 := by
  rw [goLog_snd]; rfl

/-- All applications over a sequence of block times, in the order they happen. -/
def appliedSeq : State → List Time → List Inflation
  | _, [] => []
  | s, t :: rest => applied s t ++ appliedSeq (hook s t) rest

/-- **Once, in order.** Over any sequence of block times, the applications (in the order they
happen) followed by what is left of the schedule are exactly the original schedule in iteration
order. -/
theorem applied_then_remaining (ts : List Time) (s : State) (hwf : SchedWF s) :
    appliedSeq s ts ++ inflationOrder (runBlocks s ts) = inflationOrder s ∧ SchedWF (runBlocks s ts) := by
  induction ts generalizing s with
  | nil => exact ⟨rfl, hwf⟩
  | cons t rest ih =>
    obtain ⟨h1, h2, _, _⟩ := mint_hook_spec s t hwf
    obtain ⟨i1, i2⟩ := ih (hook s t) h2
    refine ⟨?_, i2⟩
    show (applied s t ++ appliedSeq (hook s t) rest) ++ inflationOrder (runBlocks (hook s t) rest) = _
    rw [List.append_assoc, i1, h1]
    exact List.takeWhile_append_dropWhile

theorem inflationOrder_length {s : State} (hwf : SchedWF s) : (inflationOrder s).length = s.inflations.length := by
  have := congrArg List.length (inflationOrder_map_ts hwf)
  rw [List.length_map] at this
  rw [this, (inflationKeys_perm s).length_eq]
  simp [Tbl.keys]

/-- If a list of applications followed by the final schedule is the initial schedule, then: no entry
is applied twice; an applied entry is not in the final table; the final table is a sub-table of the
initial one; the number of applications is the number of removed entries. -/
theorem once_of_split {s fin : State} {app : List Inflation} (happ : app ++ inflationOrder fin = inflationOrder s)
    (hwf : SchedWF s) (hwf' : SchedWF fin) :
    app.Nodup ∧
    (∀ e ∈ app, fin.inflations.get e.ts = none) ∧
    (∀ k i, fin.inflations.get k = some i → s.inflations.get k = some i) ∧
    app.length + fin.inflations.length = s.inflations.length := by
  have hnd := inflationOrder_nodup hwf
  rw [← happ] at hnd
  have hsub : ∀ i, i ∈ inflationOrder fin → i ∈ inflationOrder s := by
    intro i hi; rw [← happ]; exact List.mem_append_right _ hi
  refine ⟨(List.nodup_append.mp hnd).1, ?_, ?_, ?_⟩
  · intro e he
    cases hg : fin.inflations.get e.ts with
    | none => rfl
    | some i =>
      exfalso
      have hts := hwf'.keyed _ _ hg
      have hi : i ∈ inflationOrder fin := (mem_inflationOrder hwf' i).mpr (by rw [hts]; exact hg)
      have hi0 := (mem_inflationOrder hwf i).mp (hsub i hi)
      have he0 := (mem_inflationOrder hwf e).mp (by rw [← happ]; exact List.mem_append_left _ he)
      rw [hts, he0] at hi0
      have : e = i := Option.some.inj hi0
      exact (List.nodup_append.mp hnd).2.2 e he i hi this
  · intro k i hg
    have hts := hwf'.keyed _ _ hg
    have hi : i ∈ inflationOrder fin := (mem_inflationOrder hwf' i).mpr (by rw [hts]; exact hg)
    have := (mem_inflationOrder hwf i).mp (hsub i hi)
    rw [hts] at this; exact this
  · rw [← inflationOrder_length hwf', ← inflationOrder_length hwf, ← happ, List.length_append]

/-- **Every entry is applied at most once**, over any sequence of block times: no entry occurs
twice among the applications; an applied entry is no longer in the table at the end (it never
reappears); the final table is a sub-table of the initial one; the number of applications equals
the number of removed entries. -/
theorem applied_at_most_once (ts : List Time) (s : State) (hwf : SchedWF s) :
    (appliedSeq s ts).Nodup ∧
    (∀ e ∈ appliedSeq s ts, (runBlocks s ts).inflations.get e.ts = none) ∧
    (∀ k i, (runBlocks s ts).inflations.get k = some i → s.inflations.get k = some i) ∧
    (appliedSeq s ts).length + (runBlocks s ts).inflations.length = s.inflations.length := by
  obtain ⟨happ, hwf'⟩ := applied_then_remaining ts s hwf
  exact once_of_split happ hwf hwf'

/-- With a chronological iteration order: after any sequence of block times exactly the entries
with a timestamp at or before one of the block times are gone — so the table holds no entry with a
timestamp `≤` any earlier block time, and later entries are untouched. -/
theorem applied_at_most_once_chronological (ts : List Time) (s : State) (hwf : SchedWF s)
    (hsorted : (inflationOrder s).Pairwise (fun a b => a.ts < b.ts)) :
    (∀ k, (runBlocks s ts).inflations.get k = if (∃ t ∈ ts, k ≤ t) then none else s.inflations.get k) ∧
    (∀ t ∈ ts, ∀ k i, (runBlocks s ts).inflations.get k = some i → t < k) := by
  have main : ∀ k, (runBlocks s ts).inflations.get k = if (∃ t ∈ ts, k ≤ t) then none else s.inflations.get k := by
    induction ts generalizing s with
    | nil => intro k; simp [runBlocks]
    | cons t rest ih =>
      intro k
      obtain ⟨h1, h2, _, _⟩ := mint_hook_spec s t hwf
      have hs1 : (inflationOrder (hook s t)).Pairwise (fun a b => a.ts < b.ts) := by
        rw [h1]; exact hsorted.sublist (List.dropWhile_sublist _)
      have := ih (hook s t) h2 hs1 k
      show (runBlocks (hook s t) rest).inflations.get k = _
      rw [this, (mint_hook_chronological s t hwf hsorted).1 k]
      by_cases hk : k ≤ t
      · have : ∃ t' ∈ t :: rest, k ≤ t' := ⟨t, by simp, hk⟩
        simp [hk]
      · by_cases hr : ∃ t' ∈ rest, k ≤ t'
        · obtain ⟨t', ht', hk'⟩ := hr
          have : ∃ t'' ∈ t :: rest, k ≤ t'' := ⟨t', by simp [ht'], hk'⟩
          simp only [hk, if_false]
          rw [if_pos ⟨t', ht', hk'⟩, if_pos this]
        · have : ¬ ∃ t'' ∈ t :: rest, k ≤ t'' := by
            rintro ⟨t'', ht'', hk''⟩
            rcases List.mem_cons.mp ht'' with e | e
            · rw [e] at hk''; exact hk hk''
            · exact hr ⟨t'', e, hk''⟩
          rw [if_neg hr, if_neg this, if_neg hk]
  refine ⟨main, ?_⟩
  intro t ht k i hg
  rw [main k] at hg
  split at hg
  · contradiction
  · rename_i hn
    by_contra hc
    exact hn ⟨t, ht, Int.not_lt.mp hc⟩

/-! ### whole histories: messages, block hooks and governance in between -/

theorem SchedWF.of_inflations {s s' : State} (h : s'.inflations = s.inflations) (hwf : SchedWF s) : SchedWF s' :=
  ⟨by rw [h]; exact hwf.nodup, by rw [h]; exact hwf.keyed⟩

theorem inflationOrder_congr {s s' : State} (h : s'.inflations = s.inflations) : inflationOrder s' = inflationOrder s := by
  unfold inflationOrder; rw [h]

/-- A begin-of-block operation changes the custommint state exactly as the hook does (the other
begin-of-block work — fee sweep, hourly payouts — does not touch it). -/
theorem step_begin_mint {s s' : State} {t : Time} (h : step s (.begin t) = some s') :
    mv s' = mv (hook { s with height := s.height + 1, events := [] } t) := by
  simp only [step] at h
  split at h
  · rename_i s1 hb
    simp only [Option.some.injEq] at h; rw [← h]
    exact hv_mint (beginBlock_hv hb)
  · contradiction

def isBegin : Op → Bool
  | .begin _ => true
  | _ => false

/-- No other operation — no message (accepted or rejected, from anybody), no end-of-block, no
governance change — touches the schedule, the mint parameters or the minter's rate. -/
theorem step_other_mint {s s' : State} {op : Op} (h : step s op = some s') (hop : isBegin op = false) : mv s' = mv s := by
  cases op with
  | tx m =>
    simp only [step, Option.some.injEq] at h
    rw [← h]
    rcases deliver_cases s m with ⟨_, _, hh⟩ | ⟨_, he, _⟩
    · by_cases hsw : (Op.tx m).isSwap = false
      · exact (cv_mint (handle_cv hh hsw)).trans rfl
      · cases m <;> simp [Op.isSwap] at hsw
        exact ((swap_nodes hh).2.2.2.2).trans rfl
    · rw [he]; rfl
  | begin t => simp [isBegin] at hop
  | endB =>
    simp only [step] at h
    split at h
    · rename_i s1 hb
      simp only [Option.some.injEq] at h; rw [← h]; exact (endBlock_ledger hb).2.2.2
    · contradiction
  | gov c =>
    simp only [step, Option.some.injEq] at h
    rw [← h]
    cases hg : gov s c with
    | none => rfl
    | some s1 => exact (gov_ledger hg).2.2.2.2

/-- **The property text for one begin-of-block operation of a history** (chronological order). -/
theorem begin_step_chronological {s s' : State} {t : Time} (h : step s (.begin t) = some s') (hwf : SchedWF s)
    (hsorted : (inflationOrder s).Pairwise (fun a b => a.ts < b.ts)) :
    (∀ k, s'.inflations.get k = if k ≤ t then none else s.inflations.get k) ∧
    ((∀ k i, s.inflations.get k = some i → t < k) → mv s' = mv s) ∧
    (∀ e, s.inflations.get e.ts = some e → e.ts ≤ t →
      (∀ k i, s.inflations.get k = some i → k ≤ t → k ≤ e.ts) →
        s'.mintMax = e.max ∧ s'.mintMin = e.min ∧ s'.mintRate = e.rate ∧ s'.minterInfl = e.min) := by
  have hm := step_begin_mint h
  have hwf1 : SchedWF { s with height := s.height + 1, events := [] } := SchedWF.of_inflations (s := s) rfl hwf
  obtain ⟨c1, c2, c3⟩ := mint_hook_chronological { s with height := s.height + 1, events := [] } t hwf1 hsorted
  refine ⟨?_, ?_, ?_⟩
  · intro k; rw [mv_inflations hm]; exact c1 k
  · intro hn; rw [hm, c2 hn]; rfl
  · intro e he het hmax
    obtain ⟨p1, p2, p3, p4, _⟩ := c3 e he het hmax
    exact ⟨(congrArg MintView.mintMax hm).trans p1, (congrArg MintView.mintMin hm).trans p2,
      (congrArg MintView.mintRate hm).trans p3, (congrArg MintView.minterInfl hm).trans p4⟩

/-- All applications along a history, in the order they happen. -/
def appliedHist : State → List Op → List Inflation
  | _, [] => []
  | s, op :: rest =>
    match step s op with
    | none => []
    | some s' => (match op with | .begin t => applied s t | _ => []) ++ appliedHist s' rest

/-- **Once, in order — over every history**: whatever messages, end-of-block steps and governance
changes happen between the block starts, the applications (in the order they happen) followed by
the final schedule are exactly the initial schedule. -/
theorem history_applied_then_remaining (ops : List Op) (s s' : State) (hrun : run s ops = some s') (hwf : SchedWF s) :
    appliedHist s ops ++ inflationOrder s' = inflationOrder s ∧ SchedWF s' := by
  induction ops generalizing s with
  | nil =>
    simp only [run, Option.some.injEq] at hrun
    rw [← hrun]; exact ⟨rfl, hwf⟩
  | cons op rest ih =>
    simp only [run] at hrun
    unfold appliedHist
    cases hst : step s op with
    | none => rw [hst] at hrun; cases hrun
    | some s1 =>
      rw [hst] at hrun
      simp only []
      by_cases hb : isBegin op = true
      · cases op <;> simp [isBegin] at hb
        rename_i t
        have hm := step_begin_mint hst
        have hwf0 : SchedWF { s with height := s.height + 1, events := [] } := SchedWF.of_inflations (s := s) rfl hwf
        obtain ⟨h1, h2, _, _⟩ := mint_hook_spec { s with height := s.height + 1, events := [] } t hwf0
        have hwf1 : SchedWF s1 := SchedWF.of_inflations (mv_inflations hm) h2
        obtain ⟨i1, i2⟩ := ih s1 hrun hwf1
        refine ⟨?_, i2⟩
        simp only []
        rw [List.append_assoc, i1, inflationOrder_congr (mv_inflations hm), h1]
        exact List.takeWhile_append_dropWhile
      · have hb' : isBegin op = false := by simpa using hb
        have hm := step_other_mint hst hb'
        have hwf1 : SchedWF s1 := SchedWF.of_inflations (mv_inflations hm) hwf
        obtain ⟨i1, i2⟩ := ih s1 hrun hwf1
        refine ⟨?_, i2⟩
        have : (match op with | .begin t => applied s t | _ => []) = [] := by
          cases op <;> first | rfl | simp [isBegin] at hb'
        rw [this, List.nil_append, i1, inflationOrder_congr (mv_inflations hm)]

/-- **Every entry is applied at most once, over every history.** -/
theorem applied_at_most_once_history (ops : List Op) (s s' : State) (hrun : run s ops = some s') (hwf : SchedWF s) :
    (appliedHist s ops).Nodup ∧
    (∀ e ∈ appliedHist s ops, s'.inflations.get e.ts = none) ∧
    (∀ k i, s'.inflations.get k = some i → s.inflations.get k = some i) ∧
    (appliedHist s ops).length + s'.inflations.length = s.inflations.length := by
  obtain ⟨happ, hwf'⟩ := history_applied_then_remaining ops s s' hrun hwf
  exact once_of_split happ hwf hwf'

/-! ### genesis -/

theorem foldl_set_wf (l : List Inflation) (T : Tbl Time Inflation) (hn : Tbl.Nodup T)
    (hk : ∀ k i, T.get k = some i → i.ts = k) :
    Tbl.Nodup (l.foldl (fun t i => t.set i.ts i) T) ∧
    (∀ k i, (l.foldl (fun t i => t.set i.ts i) T).get k = some i → i.ts = k) := by
  induction l generalizing T with
  | nil => exact ⟨hn, hk⟩
  | cons a rest ih =>
    rw [List.foldl_cons]
    refine ih _ (Tbl.nodup_set hn _ _) ?_
    intro k i hg
    rw [Tbl.get_set] at hg
    split at hg
    · rename_i e; rw [← Option.some.inj hg]; exact e
    · exact hk k i hg

theorem foldl_set_get (l : List Inflation) (T : Tbl Time Inflation) (hnd : (l.map (·.ts)).Nodup) :
    (∀ i ∈ l, (l.foldl (fun t i => t.set i.ts i) T).get i.ts = some i) ∧
    (∀ k, k ∉ l.map (·.ts) → (l.foldl (fun t i => t.set i.ts i) T).get k = T.get k) := by
  induction l generalizing T with
  | nil => exact ⟨by intro i hi; simp at hi, fun _ _ => rfl⟩
  | cons a rest ih =>
    rw [List.map_cons, List.nodup_cons] at hnd
    obtain ⟨i1, i2⟩ := ih (T.set a.ts a) hnd.2
    rw [List.foldl_cons]
    refine ⟨?_, ?_⟩
    · intro i hi
      rcases List.mem_cons.mp hi with e | e
      · rw [e, i2 _ hnd.1, Tbl.get_set_eq]
      · exact i1 i e
    · intro k hk
      simp only [List.map_cons, List.mem_cons, not_or] at hk
      rw [i2 k hk.2, Tbl.get_set_ne _ _ (fun e => hk.1 e.symm)]

theorem addBalance_inflations (s : State) (b : Addr × Denom × Int) : (addBalance s b).inflations = s.inflations := by
  unfold addBalance; split <;> rfl

theorem genesis_inflations (g : Genesis) : g.state.inflations = g.inflations.foldl (fun t i => Tbl.set t i.ts i) ([] : Tbl Time Inflation) := by
  unfold Genesis.state
  have : ∀ (l : List (Addr × Denom × Int)) (s0 : State), (l.foldl addBalance s0).inflations = s0.inflations := by
    intro l
    induction l with
    | nil => intro _; rfl
    | cons b rest ih => intro s0; rw [List.foldl_cons, ih, addBalance_inflations]
  rw [this]; rfl

/-- Every genesis state has a well-formed schedule table; with distinct timestamps (what
`GenesisState.Validate` of x/mint checks) every genesis entry is in it. -/
theorem genesis_schedWF (g : Genesis) : SchedWF g.state := by
  obtain ⟨h1, h2⟩ := foldl_set_wf g.inflations [] Tbl.nodup_nil (by intro k i h; simp at h)
  exact ⟨by rw [genesis_inflations]; exact h1, by rw [genesis_inflations]; exact h2⟩

theorem genesis_schedule (g : Genesis) (hd : (g.inflations.map (·.ts)).Nodup) :
    ∀ i, g.state.inflations.get i.ts = some i ↔ i ∈ g.inflations := by
  intro i
  rw [genesis_inflations]
  obtain ⟨h1, h2⟩ := foldl_set_get g.inflations [] hd
  constructor
  · intro h
    by_cases hm : i.ts ∈ g.inflations.map (·.ts)
    · obtain ⟨j, hj, hts⟩ := List.mem_map.mp hm
      have := h1 j hj
      rw [hts, h] at this
      rw [Option.some.inj this]; exact hj
    · rw [h2 _ hm] at h; simp at h
  · exact h1 i

/-- The schedule of a genesis state whose timestamps are instants of years 1..9999 is iterated
chronologically. -/
theorem genesis_sorted (g : Genesis) (hr : ∀ i ∈ g.inflations, Hub.Props.C17.InRange i.ts) :
    (inflationOrder g.state).Pairwise (fun a b => a.ts < b.ts) := by
  refine sorted_of_inRange _ (genesis_schedWF g) ?_
  intro k hk
  obtain ⟨v, hv⟩ := Tbl.get_of_mem_keys hk
  have hts := (genesis_schedWF g).keyed k v hv
  rw [genesis_inflations] at hv
  by_cases hm : k ∈ g.inflations.map (·.ts)
  · obtain ⟨j, hj, hjt⟩ := List.mem_map.mp hm
    rw [← hjt]; exact hr j hj
  · exfalso
    have : ∀ (l : List Inflation) (T : Tbl Time Inflation), k ∉ l.map (·.ts) →
        (l.foldl (fun t i => t.set i.ts i) T).get k = T.get k := by
      intro l
      induction l with
      | nil => intro _ _; rfl
      | cons a rest ih =>
        intro T hk
        simp only [List.map_cons, List.mem_cons, not_or] at hk
        rw [List.foldl_cons, ih _ hk.2, Tbl.get_set_ne _ _ (fun e => hk.1 e.symm)]
    rw [this _ _ hm] at hv
    simp at hv

/-! ### examples: three entries, written to genesis out of order, two of them due in one block -/

def e1 : Inflation := ⟨1700000000000000000, 300000000000000000, 100000000000000000, 110000000000000000⟩
def e2 : Inflation := ⟨1700000100000000000, 250000000000000000, 90000000000000000, 120000000000000000⟩
def e3 : Inflation := ⟨1700000200000000000, 150000000000000000, 50000000000000000, 130000000000000000⟩

def sampleGenesis : Genesis :=
  { time := 1690000000000000000, params := default, balances := [], inflations := [e3, e1, e2] }

theorem sample_inRange : ∀ i ∈ sampleGenesis.inflations, Hub.Props.C17.InRange i.ts := by
  intro i hi
  simp only [sampleGenesis, List.mem_cons, List.not_mem_nil, or_false] at hi
  unfold Hub.Props.C17.InRange Hub.Props.C17.tMin Hub.Props.C17.tMax
  rcases hi with h | h | h <;> rw [h] <;> simp only [e1, e2, e3] <;> omega

theorem sample_table : sampleGenesis.state.inflations = [(e3.ts, e3), (e1.ts, e1), (e2.ts, e2)] := by
  rw [genesis_inflations]; decide

/-- The three keys of the sample table. -/
theorem sample_get {k : Time} {i : Inflation} (h : sampleGenesis.state.inflations.get k = some i) :
    k = e3.ts ∨ k = e1.ts ∨ k = e2.ts := by
  rw [sample_table] at h
  simp only [Tbl.get_cons, Tbl.get_nil] at h
  split at h
  · rename_i e; exact Or.inl e.symm
  · split at h
    · rename_i e; exact Or.inr (Or.inl e.symm)
    · split at h
      · rename_i e; exact Or.inr (Or.inr e.symm)
      · contradiction

/-- A block at a time between `e2` and `e3`: both `e1` and `e2` are due; the parameters are
`e2`'s (the latest due), the rate is `e2.min`, `e1` and `e2` are gone, `e3` is untouched. -/
example :
    let s' := hook sampleGenesis.state 1700000150000000000
    s'.mintMax = e2.max ∧ s'.mintMin = e2.min ∧ s'.mintRate = e2.rate ∧ s'.minterInfl = e2.min ∧
    s'.inflations.get e1.ts = none ∧ s'.inflations.get e2.ts = none ∧ s'.inflations.get e3.ts = some e3 := by
  have hwf := genesis_schedWF sampleGenesis
  have hs := genesis_sorted sampleGenesis sample_inRange
  obtain ⟨hget, _, hpar⟩ := mint_hook_chronological sampleGenesis.state 1700000150000000000 hwf hs
  have h2 : sampleGenesis.state.inflations.get e2.ts = some e2 := by rw [sample_table]; decide
  have hmax : ∀ k i, sampleGenesis.state.inflations.get k = some i → k ≤ 1700000150000000000 → k ≤ e2.ts := by
    intro k i hg hk
    rcases sample_get hg with e | e | e
    · rw [e] at hk; exact absurd hk (by decide)
    · rw [e]; decide
    · rw [e]
  obtain ⟨p1, p2, p3, p4, _⟩ := hpar e2 h2 (by decide) hmax
  refine ⟨p1, p2, p3, p4, ?_, ?_, ?_⟩
  · rw [hget]; rfl
  · rw [hget]; rfl
  · rw [hget, sample_table]; decide

/-- … and over the block times `…050`, `…150`, `…150`, `…250` every entry is applied exactly once:
three applications in total, nothing left. -/
example :
    let ts : List Time := [1700000050000000000, 1700000150000000000, 1700000150000000000, 1700000250000000000]
    (appliedSeq sampleGenesis.state ts).length = 3 ∧ (runBlocks sampleGenesis.state ts).inflations.length = 0 := by
  intro ts
  have hwf := genesis_schedWF sampleGenesis
  have hs := genesis_sorted sampleGenesis sample_inRange
  have h := (applied_at_most_once_chronological ts sampleGenesis.state hwf hs).1
  have hlen := (applied_at_most_once ts sampleGenesis.state hwf).2.2.2
  have hempty : (runBlocks sampleGenesis.state ts).inflations = [] := by
    cases hl : (runBlocks sampleGenesis.state ts).inflations with
    | nil => rfl
    | cons p rest =>
      exfalso
      have hg : (runBlocks sampleGenesis.state ts).inflations.get p.1 = some p.2 := by
        rw [hl, Tbl.get_cons]; simp
      have hsub := (applied_at_most_once ts sampleGenesis.state hwf).2.2.1 _ _ hg
      rw [h p.1] at hg
      split at hg
      · contradiction
      · rename_i hn
        apply hn
        refine ⟨1700000250000000000, by simp [ts], ?_⟩
        rcases sample_get hsub with e | e | e <;> rw [e] <;> decide
  rw [hempty, sample_table] at hlen
  refine ⟨?_, by rw [hempty]; rfl⟩
  simpa using hlen

end Hub.Props.C15
