import Hub.Lemmas.ProtoJson
import Hub.Lemmas.ProtoJsonLeaves
import Hub.Generated.Proto
import Hub.Generated.Status
/-
C19, JSON half — "Every transaction message, query request, stored record, parameter set and genesis object of
the hub modules decodes, after being encoded, to a value with the same meaning — … in the JSON encoding …, for
every value of every field including every status value."

Model: `Hub/SDK/ProtoJson.lean` (`toJson` / `fromJson` at the level of JSON *trees*, mirroring gogoproto's jsonpb as
configured by the SDK's `ProtoCodec`: `OrigName`, `EmitDefaults`, the interface registry as `AnyResolver`), over the
same descriptors and values (`MsgDesc`, `Val`) as the binary model.  "Same meaning": `Val` already identifies what
the property identifies (nil/empty, nil `Int`/`Dec` = 0, a time = its instant), so no normaliser appears:
`fromJson d (toJson d v) = some v`.

Part 1  `json_roundtrip_iff_strings` — for every supported descriptor (`JWF`) and well-typed value (`JCanonical`):
        the JSON round trip succeeds ⇔ every enum-typed field occurring in the value (through embedded and repeated
        messages and the message packed in every `Any`) has a value whose printed name parses back
        (`EnumsParseBack`) ∧ every `string` field is well-formed UTF-8 (`StringsUtf8`).
        `json_roundtrip_iff` — the same with `StringsUtf8` as a hypothesis (proto3 requires it of a `string`):
        round trip ⇔ `EnumsParseBack`.   `json_illformed_string_fails`.
Part 2  the hub: every regenerated descriptor is supported (`hub_descriptors_jwf`, kernel evaluation of the
        regenerated table); for `Status` the printed name NEVER parses back, for any `int32`, by the regenerated
        tables (`status_never`, finding F7) — so `hub_json_roundtrip_iff`: a hub message round-trips ⇔ no enum-typed
        field occurs in it (and its strings are UTF-8); `json_roundtrip_without_enums`, `status_field_breaks_json`;
        `hub_enum_free_count`: 185 of the 264 message types are free of enum fields.
Part 3  the executable instance: all four leaf renderings of `goLeaves` (base64, RFC 3339, durations, `LegacyDec`
        text — what the probe compares with the real codec) are PROVED to be read back (`goLeaves_ok`,
        `Hub/Lemmas/ProtoJsonLeaves.lean`; the calendar part by two complete 400-year tables evaluated by the
        kernel), so the theorems hold of `hubJson` without any hypothesis on the leaves:
        `hub_json_roundtrip_iff_go`, `json_roundtrip_without_enums_go`, `status_field_breaks_json_go`.
Part 4  non-vacuity: a deposit round-trips, a node does not (zero status or active).

TRUSTED (see the header of `Hub/SDK/ProtoJson.lean`): JSON text ⇄ tree (`encoding/json`), and that the model is
what the Go code does — `toJson`/`fromJson` mirror jsonpb by reading, and `/verif/harness/probe19` compares them on
every run: the model predicts, for every generated value of every registered type, whether the real
`MarshalJSON`-then-`UnmarshalJSON` gives the value back, and its tree (leaves included) is compared with the real JSON
(`check.py`, `run_probe19`).  The general theorems of Part 1–2 take the leaves as a parameter with the hypothesis
`LeavesOK`; Part 3 discharges it for `goLeaves`.
-/
namespace Hub.Props.C19Json
open Hub.SDK Hub.SDK.ProtoWire Hub.SDK.ProtoJson Hub.Generated

/-! ## Part 1 — the JSON model round-trips exactly when the enum and string leaves do -/

/-- Supported descriptor: distinct member names, supported field shapes, declared enums, nested descriptors
resolvable and supported (nesting depth ≤ `depthFuel`); for an `Any` field, every message the registry resolves is
supported by the JSON model and by the binary model. -/
def JWF (J : JsonEnv) (env : Env) (d : MsgDesc) : Prop := jwf J env d = true

/-- Well-typed value of `d`: one value per field, integers in the range of their Go type, `Int` below 2^256 and `Dec`
below 2^315 in absolute value, times within years 1…9999, durations within an `int64` of nanoseconds, no nil for
non-nullable messages; an `Any` holds a registered type URL and the binary encoding of a well-typed message of that
type (which `NewAnyWithValue` produces). -/
def JCanonical (J : JsonEnv) (env : Env) (d : MsgDesc) (v : Val) : Prop := jcanonical J env d v = true

/-- Every enum-typed field occurring in `v` — recursively — holds a value whose printed name parses back to it. -/
def EnumsParseBack (J : JsonEnv) (env : Env) (d : MsgDesc) (v : Val) : Prop := enumsParseBack J env d v = true

/-- Every `string` field occurring in `v` — recursively — is well-formed UTF-8. -/
def StringsUtf8 (J : JsonEnv) (env : Env) (d : MsgDesc) (v : Val) : Prop := stringsUtf8 J env d v = true

instance (J : JsonEnv) (env : Env) (d : MsgDesc) : Decidable (JWF J env d) := inferInstanceAs (Decidable (_ = true))
instance (J : JsonEnv) (env : Env) (d : MsgDesc) (v : Val) : Decidable (JCanonical J env d v) := inferInstanceAs (Decidable (_ = true))
instance (J : JsonEnv) (env : Env) (d : MsgDesc) (v : Val) : Decidable (EnumsParseBack J env d v) := inferInstanceAs (Decidable (_ = true))
instance (J : JsonEnv) (env : Env) (d : MsgDesc) (v : Val) : Decidable (StringsUtf8 J env d v) := inferInstanceAs (Decidable (_ = true))

/-- **JSON round trip, full statement**: for every supported descriptor and every well-typed value,
`UnmarshalJSON(MarshalJSON(v))` into a fresh message yields `v` if and only if every enum-typed field occurring in
`v` has a value whose printed name parses back and every `string` field is well-formed UTF-8. -/
theorem json_roundtrip_iff_strings (J : JsonEnv) (env : Env) (hL : LeavesOK J.leaves) (d : MsgDesc) (v : Val)
    (hwf : JWF J env d) (hc : JCanonical J env d v) :
    fromJson J env d (toJson J env d v) = some v ↔ EnumsParseBack J env d v ∧ StringsUtf8 J env d v := by
  have h := roundtripAt_iff J env hL depthFuel d v hwf hc
  have e : bothLeaf J = fun c v => enumLeaf J c v && utf8Leaf c v := rfl
  rw [e, allLeavesAt_and, Bool.and_eq_true] at h
  exact h

/-- **JSON round trip** for values whose `string` fields are UTF-8 (as proto3 requires): the round trip succeeds if
and only if every enum-typed field occurring in the value has a value whose printed name parses back. -/
theorem json_roundtrip_iff (J : JsonEnv) (env : Env) (hL : LeavesOK J.leaves) (d : MsgDesc) (v : Val)
    (hwf : JWF J env d) (hc : JCanonical J env d v) (hu : StringsUtf8 J env d v) :
    fromJson J env d (toJson J env d v) = some v ↔ EnumsParseBack J env d v := by
  rw [json_roundtrip_iff_strings J env hL d v hwf hc]
  exact ⟨fun h => h.1, fun h => ⟨h, hu⟩⟩

/-- A `string` field that is not well-formed UTF-8 does not survive JSON (`encoding/json` writes U+FFFD for the
offending bytes). -/
theorem json_illformed_string_fails (J : JsonEnv) (env : Env) (hL : LeavesOK J.leaves) (d : MsgDesc) (v : Val)
    (hwf : JWF J env d) (hc : JCanonical J env d v) (hu : ¬ StringsUtf8 J env d v) :
    fromJson J env d (toJson J env d v) ≠ some v :=
  fun h => hu ((json_roundtrip_iff_strings J env hL d v hwf hc).1 h).2

/-- The JSON object written for a message is a finite map: pairwise distinct member names, none of them `"@type"`. -/
theorem json_object_is_map (J : JsonEnv) (env : Env) (d : MsgDesc) (v : Val) (hwf : JWF J env d) (hc : JCanonical J env d v) :
    ∃ kvs, toJson J env d v = .obj kvs ∧ (kvs.map Prod.fst).Nodup ∧ typeKey ∉ kvs.map Prod.fst :=
  toJsonAt_members_distinct J env depthFuel d v hwf hc

/-- A descriptor without enum-typed fields anywhere below it round-trips for all well-typed values with UTF-8 strings. -/
theorem json_roundtrip_no_enums (J : JsonEnv) (env : Env) (hL : LeavesOK J.leaves) (d : MsgDesc) (v : Val)
    (hwf : JWF J env d) (hne : noEnums J env d = true) (hc : JCanonical J env d v) (hu : StringsUtf8 J env d v) :
    fromJson J env d (toJson J env d v) = some v :=
  (json_roundtrip_iff J env hL d v hwf hc hu).2
    (allLeavesAt_of_noEnum J env (enumLeaf J) (fun c v hce => by
      cases c <;> first | rfl | exact absurd rfl (hce _)) depthFuel d v hne)

/-! ## Part 2 — the hub's descriptors and the `Status` enum -/

/-- Every message regenerated from `/repo/proto/sentinel/**/*.proto` is supported by the JSON model (with the
hub's enum table and the registry's `Any` types; the leaves play no role in this check). -/
theorem hub_descriptors_jwf : ∀ d ∈ Proto.messages, jwf hubJson Proto.env d = true := by
  decide +kernel

theorem hub_jwf (L : Leaves) (d : MsgDesc) (hd : d ∈ Proto.messages) : JWF (hubJ L) Proto.env d := by
  unfold JWF jwf
  rw [jwfAt_congr (hubJ L) hubJson Proto.env rfl rfl]
  exact hub_descriptors_jwf d hd

/-- Every enum a field of a hub message refers to is `Status`, printed by the regenerated `Status.String` and parsed
by the regenerated `Status_value`: its printed name never parses back (`status_never`), so for the hub "every enum
field parses back" means "there is no enum field". -/
theorem hub_enumLeaf (L : Leaves) : enumLeaf (hubJ L) = noEnumLeaf := by
  funext c v
  cases c <;> try rfl
  cases v <;> try rfl
  simp only [enumLeaf, noEnumLeaf, status_never]

/-- **C19, JSON, for the hub**: a hub message value survives `MarshalJSON` then `UnmarshalJSON` if and only if no
enum-typed (`Status`) field occurs in it — at any depth, the message packed in an `Any` included — and its strings
are UTF-8. -/
theorem hub_json_roundtrip_iff (L : Leaves) (hL : LeavesOK L) (d : MsgDesc) (hd : d ∈ Proto.messages) (v : Val)
    (hc : JCanonical (hubJ L) Proto.env d v) :
    fromJson (hubJ L) Proto.env d (toJson (hubJ L) Proto.env d v) = some v ↔
      hasEnumField (hubJ L) Proto.env d v = false ∧ StringsUtf8 (hubJ L) Proto.env d v := by
  rw [json_roundtrip_iff_strings (hubJ L) Proto.env hL d v (hub_jwf L d hd) hc]
  unfold EnumsParseBack enumsParseBack hasEnumField
  rw [hub_enumLeaf]
  simp only [Bool.not_eq_false']

/-- **Every hub descriptor without an enum field anywhere round-trips, for all values** (well-typed, UTF-8 strings). -/
theorem json_roundtrip_without_enums (L : Leaves) (hL : LeavesOK L) (d : MsgDesc) (hd : d ∈ Proto.messages)
    (hne : noEnums hubJson Proto.env d = true) (v : Val) (hc : JCanonical (hubJ L) Proto.env d v)
    (hu : StringsUtf8 (hubJ L) Proto.env d v) :
    fromJson (hubJ L) Proto.env d (toJson (hubJ L) Proto.env d v) = some v := by
  refine json_roundtrip_no_enums (hubJ L) Proto.env hL d v (hub_jwf L d hd) ?_ hc hu
  unfold noEnums at hne ⊢
  rw [noEnumAt_congr (hubJ L) hubJson Proto.env rfl]
  exact hne

/-- **Any hub message in which a `Status` field occurs fails the JSON round trip** — whatever the field's value (with
`EmitDefaults` the zero value is printed too: `"status":"unspecified"`), at any depth: F7. -/
theorem status_field_breaks_json (L : Leaves) (hL : LeavesOK L) (d : MsgDesc) (hd : d ∈ Proto.messages) (v : Val)
    (hc : JCanonical (hubJ L) Proto.env d v) (hs : hasEnumField (hubJ L) Proto.env d v = true) :
    fromJson (hubJ L) Proto.env d (toJson (hubJ L) Proto.env d v) ≠ some v := by
  intro h
  have := ((hub_json_roundtrip_iff L hL d hd v hc).1 h).1
  rw [hs] at this
  exact absurd this (by simp)

/-- How far F7 reaches: 185 of the 264 regenerated message types have no enum-typed field anywhere below them
(those round-trip for all values); the other 79 contain a `Status` — every stored record with a life cycle
(provider, node, plan, subscription, session), the genesis objects that hold them, the listings, the status
messages and events — or an `Any` that may hold one (the subscription queries). -/
theorem hub_enum_free_count :
    (Proto.messages.filter (fun d => noEnums hubJson Proto.env d)).length = 185 ∧ Proto.messages.length = 264 := by
  decide +kernel

/-! ## Part 3 — the executable instance `hubJson` (leaves proved: no hypothesis left) -/

/-- The executable model's own JSON round trip, for every hub message: succeeds ⇔ no enum-typed (`Status`) field
occurs in the value and its strings are UTF-8.  This is what `hubmodel --probe` evaluates on every probe line
(`json=1|0`) and what the real codec is compared with. -/
theorem hub_json_roundtrip_iff_go (d : MsgDesc) (hd : d ∈ Proto.messages) (v : Val) (hc : JCanonical hubJson Proto.env d v) :
    fromJson hubJson Proto.env d (toJson hubJson Proto.env d v) = some v ↔
      hasEnumField hubJson Proto.env d v = false ∧ StringsUtf8 hubJson Proto.env d v :=
  hub_json_roundtrip_iff goLeaves goLeaves_ok d hd v hc

theorem json_roundtrip_without_enums_go (d : MsgDesc) (hd : d ∈ Proto.messages) (hne : noEnums hubJson Proto.env d = true)
    (v : Val) (hc : JCanonical hubJson Proto.env d v) (hu : StringsUtf8 hubJson Proto.env d v) :
    fromJson hubJson Proto.env d (toJson hubJson Proto.env d v) = some v :=
  json_roundtrip_without_enums goLeaves goLeaves_ok d hd hne v hc hu

theorem status_field_breaks_json_go (d : MsgDesc) (hd : d ∈ Proto.messages) (v : Val) (hc : JCanonical hubJson Proto.env d v)
    (hs : hasEnumField hubJson Proto.env d v = true) :
    fromJson hubJson Proto.env d (toJson hubJson Proto.env d v) ≠ some v :=
  status_field_breaks_json goLeaves goLeaves_ok d hd v hc hs

/-! ## Part 4 — non-vacuity -/

def depositDesc : MsgDesc := (lookup Proto.env "sentinel.deposit.v1.Deposit").getD ⟨"", []⟩
def nodeDesc : MsgDesc := (lookup Proto.env "sentinel.node.v2.Node").getD ⟨"", []⟩

/-- `Deposit{address: "sent1", coins: [1000udvpn, 5é]}` -/
def aDeposit : Val :=
  .msg [.bytes [115, 101, 110, 116, 49],
        .list [.msg [.bytes [117, 100, 118, 112, 110], .int 1000], .msg [.bytes [195, 169], .int 5]]]

/-- A record without enum fields round-trips … -/
example : fromJson hubJson Proto.env depositDesc (toJson hubJson Proto.env depositDesc aDeposit) = some aDeposit :=
  json_roundtrip_without_enums_go depositDesc (by decide +kernel) (by decide +kernel) aDeposit
    (by unfold JCanonical; decide +kernel) (by unfold StringsUtf8; decide +kernel)

/-- … the all-zero `Node` (status `STATUS_UNSPECIFIED` = 0, printed `"unspecified"`) does not … -/
example : fromJson hubJson Proto.env nodeDesc (toJson hubJson Proto.env nodeDesc (defaultMsg Proto.env depthFuel nodeDesc))
    ≠ some (defaultMsg Proto.env depthFuel nodeDesc) :=
  status_field_breaks_json_go nodeDesc (by decide +kernel) _ (by unfold JCanonical; decide +kernel) (by decide +kernel)

/-- `Node{address: "sent1", inactive_at: zero time, status: STATUS_ACTIVE (1), status_at: 2023-11-14T22:13:20.000000005Z}` -/
def anActiveNode : Val :=
  .msg [.bytes [115, 101, 110, 116, 49], .list [], .list [], .bytes [], .msg [.varint zeroTimeSeconds, .varint 0],
        .varint 1, .msg [.varint 1700000000, .varint 5]]

/-- … nor does an active one (a well-typed value: the hypotheses of the theorem are satisfiable on it). -/
example : JCanonical hubJson Proto.env nodeDesc anActiveNode ∧ StringsUtf8 hubJson Proto.env nodeDesc anActiveNode ∧
    fromJson hubJson Proto.env nodeDesc (toJson hubJson Proto.env nodeDesc anActiveNode) ≠ some anActiveNode := by
  have hc : JCanonical hubJson Proto.env nodeDesc anActiveNode := by unfold JCanonical; decide +kernel
  exact ⟨hc, by unfold StringsUtf8; decide +kernel, status_field_breaks_json_go nodeDesc (by decide +kernel) _ hc (by decide +kernel)⟩

end Hub.Props.C19Json
