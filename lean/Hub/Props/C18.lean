import Hub.Lemmas.CountSteps
/-
C18 — Plan, subscription and session identifiers are issued as 1, 2, 3, … in order of creation, a
rejected request consumes none, and an identifier is never issued again after its record has been
removed; allocations and payouts always carry the identifier of their subscription.  A session
therefore can never be settled against a subscription other than the one it was started on.

* `counters_all_histories`     : `CountInv` in every state of every history from every genesis.
* `plan_ids_issued_in_order`, `sub_ids_issued_in_order`, `sess_ids_issued_in_order`,
  `other_messages_keep_counters` : an accepted creation stores the new record under `count + 1` and
  sets the counter to `count + 1`; every other message leaves the three counters alone.
* `rejected_consumes_none`     : a rejected message changes nothing but the (cleared) event buffer.
* `counters_monotone`, `counters_monotone_trace`.
* `never_reissued_plan/sub/sess`, `removed_session_never_back`.
* `children_carry_parent_id`.
* `session_subscription_fixed` (one step), `session_subscription_fixed_trace` (whole history).
-/
namespace Hub.Props.C18
open Hub.SDK Hub.Model
open Hub.Generated (Status AmountForBytes GetProportionOfCoin Gigabyte)

/-! ## 1. the invariant in every history -/

/-- **C18 (invariant)**: in every state of every history from every genesis state, every stored
identifier was issued by its counter, records sit under their own identifier, and allocations,
payouts and sessions carry an issued subscription identifier. -/
theorem counters_all_histories (g : Genesis) (ops : List Op) : ∀ s ∈ runTrace g.state ops, CountInv s :=
  count_all_histories ops g.state (genesis_count g)

/-! ## 2. what a step may do to counters and sessions -/

/-- The part of the state the identifier frame reads. -/
structure IdView where
  planCount : Option Nat
  subCount : Option Nat
  sessCount : Option Nat
  sessions : Tbl Nat Session

def idview (s : State) : IdView := ⟨s.planCount, s.subCount, s.sessCount, s.sessions⟩

/-- The identity of a session: its id, its subscription, its account and its node. -/
def SameSess (x x' : Session) : Prop := x'.id = x.id ∧ x'.sub = x.sub ∧ x'.addr = x.addr ∧ x'.node = x.node

theorem SameSess.refl (x : Session) : SameSess x x := ⟨rfl, rfl, rfl, rfl⟩

theorem SameSess.trans {a b c : Session} (h1 : SameSess a b) (h2 : SameSess b c) : SameSess a c :=
  ⟨h2.1.trans h1.1, h2.2.1.trans h1.2.1, h2.2.2.1.trans h1.2.2.1, h2.2.2.2.trans h1.2.2.2⟩

/-- Every session of `t'` was already in `t`, with the same identity. -/
def SessKeep (t t' : Tbl Nat Session) : Prop := ∀ i x', t'.get i = some x' → ∃ x, t.get i = some x ∧ SameSess x x'

theorem SessKeep.refl (t : Tbl Nat Session) : SessKeep t t := fun _ x h => ⟨x, h, SameSess.refl x⟩

theorem SessKeep.trans {a b c : Tbl Nat Session} (h1 : SessKeep a b) (h2 : SessKeep b c) : SessKeep a c := by
  intro i x'' h
  obtain ⟨x', hx', s2⟩ := h2 i x'' h
  obtain ⟨x, hx, s1⟩ := h1 i x' hx'
  exact ⟨x, hx, s1.trans s2⟩

theorem SessKeep.erase (t : Tbl Nat Session) (k : Nat) : SessKeep t (t.erase k) := by
  intro i x' h
  rw [Tbl.get_erase] at h
  by_cases e : k = i
  · simp [e] at h
  · simp only [e, if_false] at h; exact ⟨x', h, SameSess.refl x'⟩

theorem SessKeep.set {t : Tbl Nat Session} {k : Nat} {x0 x : Session} (h0 : t.get k = some x0) (hs : SameSess x0 x) :
    SessKeep t (t.set k x) := by
  intro i x' h
  rw [Tbl.get_set] at h
  by_cases e : k = i
  · simp only [e, if_true, Option.some.injEq] at h; subst h; subst e; exact ⟨x0, h0, hs⟩
  · simp only [e, if_false] at h; exact ⟨x', h, SameSess.refl x'⟩

/-- A step that issues no identifier: the three counters are unchanged and no session appears or
changes its identity. -/
structure IdFrame (s s' : State) : Prop where
  planCount : s'.planCount = s.planCount
  subCount : s'.subCount = s.subCount
  sessCount : s'.sessCount = s.sessCount
  sess : SessKeep s.sessions s'.sessions

theorem IdFrame.refl (s : State) : IdFrame s s := ⟨rfl, rfl, rfl, SessKeep.refl _⟩

theorem IdFrame.trans {a b c : State} (h1 : IdFrame a b) (h2 : IdFrame b c) : IdFrame a c :=
  ⟨h2.planCount.trans h1.planCount, h2.subCount.trans h1.subCount, h2.sessCount.trans h1.sessCount, h1.sess.trans h2.sess⟩

theorem IdFrame.of_view {s s' : State} (h : idview s' = idview s) : IdFrame s s' := by
  have h1 : s'.planCount = s.planCount := congrArg IdView.planCount h
  have h2 : s'.subCount = s.subCount := congrArg IdView.subCount h
  have h3 : s'.sessCount = s.sessCount := congrArg IdView.sessCount h
  have h4 : s'.sessions = s.sessions := congrArg IdView.sessions h
  exact ⟨h1, h2, h3, by rw [h4]; exact SessKeep.refl _⟩

theorem idview_of_cview {s s' : State} (h : cview s' = cview s) : idview s' = idview s := by
  have h1 : s'.planCount = s.planCount := congrArg CountView.planCount h
  have h2 : s'.subCount = s.subCount := congrArg CountView.subCount h
  have h3 : s'.sessCount = s.sessCount := congrArg CountView.sessCount h
  have h4 : s'.sessions = s.sessions := congrArg CountView.sessions h
  unfold idview; rw [h1, h2, h3, h4]

theorem idview_of_mframe {s s' : State} (h : MFrame s s') : idview s' = idview s :=
  idview_of_cview (cview_of_mframe h)

theorem IdFrame.of_cview {s s' : State} (h : cview s' = cview s) : IdFrame s s' := IdFrame.of_view (idview_of_cview h)

theorem IdFrame.of_mframe {s s' : State} (h : MFrame s s') : IdFrame s s' := IdFrame.of_view (idview_of_mframe h)

@[simp] theorem idview_emit (s : State) (e : Event) : idview (emit s e) = idview s := rfl
@[simp] theorem idview_setAllocation (s : State) (a : Alloc) : idview (setAllocation s a) = idview s := rfl
@[simp] theorem idview_insertPayout (s : State) (p : Payout) : idview (insertPayout s p) = idview s := rfl
@[simp] theorem idview_subToPending (s : State) (sub : Sub) (d : Dur) : idview (subToPending s sub d).1 = idview s := rfl
@[simp] theorem idview_detachPayoutRec (s : State) (p : Payout) : idview (detachPayoutRec s p) = idview s := rfl

/-! ### handlers that issue nothing -/

theorem planStatus_idview {s s' : State} {frm : Addr} {id : Nat} {st : Status}
    (h : planStatus s frm id st = .ok s') : idview s' = idview s := by
  unfold planStatus at h
  simp only [bind_eq_ok, pure_eq_ok, require_eq_ok, orReject_eq_ok] at h
  obtain ⟨p, hp, _, _, s3, h3, rfl⟩ := h
  rw [idview_emit]
  rcases setPlan_eff h3 with ⟨_, e⟩ | ⟨_, e⟩ <;> subst e <;> (split <;> split <;> rfl)

theorem planLink_idview {s s' : State} {frm : Addr} {id : Nat} {node : Addr}
    (h : planLink s frm id node = .ok s') : idview s' = idview s := by
  unfold planLink at h
  simp only [bind_eq_ok, pure_eq_ok, require_eq_ok, orReject_eq_ok] at h
  obtain ⟨p, hp, _, _, _, _, rfl⟩ := h
  rfl

theorem planUnlink_idview {s s' : State} {frm : Addr} {id : Nat} {node : Addr}
    (h : planUnlink s frm id node = .ok s') : idview s' = idview s := by
  unfold planUnlink at h
  simp only [bind_eq_ok, pure_eq_ok, require_eq_ok, orReject_eq_ok] at h
  obtain ⟨p, _, _, _, rfl⟩ := h
  rfl

theorem subAllocate_idview {s s' : State} {frm toA : Addr} {id : Nat} {bytes : Int}
    (h : subAllocate s frm id toA bytes = .ok s') : idview s' = idview s := by
  unfold subAllocate at h
  simp only [bind_eq_ok, pure_eq_ok, require_eq_ok, orReject_eq_ok] at h
  obtain ⟨sub, hsub, _, _, _, _, fa, hfa, _, _, g, _, u, _, av, _, _, _, fg, _, _, _, _, _, rfl⟩ := h
  simp only [idview_emit, idview_setAllocation]
  split <;> rfl

theorem sameSess_toPending (s : State) (x : Session) :
    SameSess x { x with inactiveAt := s.time + s.params.sessDelay, status := .StatusInactivePending, statusAt := s.time } :=
  ⟨rfl, rfl, rfl, rfl⟩

theorem sessionToPending_idframe {s : State} {x : Session} (hx : s.sessions.get x.id = some x) :
    IdFrame s (sessionToPending s x) :=
  ⟨rfl, rfl, rfl, SessKeep.set hx ⟨rfl, rfl, rfl, rfl⟩⟩

theorem get_id_of_count {s : State} {i : Nat} {x : Session} (hi : CountInv s) (h : s.sessions.get i = some x) :
    s.sessions.get x.id = some x := by
  rw [(hi.sessions i x h).1]; exact h

theorem subscriptionInactivePendingHook_idframe {s s' : State} {id : Nat}
    (h : subscriptionInactivePendingHook s id = .ok s') (hi : CountInv s) : IdFrame s s' := by
  unfold subscriptionInactivePendingHook at h
  refine (foldlM_inv (fun t => CountInv t ∧ IdFrame s t) _ ?_ _ s s' h ⟨hi, IdFrame.refl s⟩).2
  intro s0 sid s1 h1 hp
  simp only [bind_eq_ok, pure_eq_ok, orPanic_eq_ok] at h1
  obtain ⟨x, hx, rfl⟩ := h1
  split
  · exact ⟨sessionToPending_count (sessP_of_get hp.1 hx) hp.1, hp.2.trans (sessionToPending_idframe (get_id_of_count hp.1 hx))⟩
  · exact hp

theorem detachPayout_idview {s s' : State} {sub : Sub} {b : Bool} (h : detachPayout s sub b = .ok s') :
    idview s' = idview s := by
  unfold detachPayout at h
  split at h
  · simp only [bind_eq_ok, pure_eq_ok] at h
    obtain ⟨p, _, rfl⟩ := h
    rfl
  · rw [pure_eq_ok] at h; rw [h]

theorem subCancel_idframe {s s' : State} {frm : Addr} {id : Nat} (h : subCancel s frm id = .ok s') (hi : CountInv s) :
    IdFrame s s' := by
  unfold subCancel at h
  simp only [bind_eq_ok, require_eq_ok, orReject_eq_ok] at h
  obtain ⟨sub, hsub, _, _, _, _, s1, h1, h2⟩ := h
  have i0 : CountInv { s with subQ := s.subQ.erase (sub.inactiveAt, sub.id) } := by
    rw [countInv_iff] at hi ⊢
    constructor
    case subQ => exact hi.subQ.erase
    count_rest hi
  have f0 : IdFrame s { s with subQ := s.subQ.erase (sub.inactiveAt, sub.id) } := IdFrame.of_view rfl
  have f1 : IdFrame s s1 := f0.trans (subscriptionInactivePendingHook_idframe h1 i0)
  exact f1.trans (IdFrame.of_view (by rw [detachPayout_idview h2, idview_subToPending]))

theorem sessUpdate_idframe {s s' : State} {frm : Addr} {id : Nat} {up down dur : Int} {sig : SigSpec}
    (h : sessUpdate s frm id up down dur sig = .ok s') (hi : CountInv s) : IdFrame s s' := by
  unfold sessUpdate at h
  simp only [bind_eq_ok, pure_eq_ok, require_eq_ok, orReject_eq_ok] at h
  obtain ⟨x, hx, _, _, _, _, _, _, rfl⟩ := h
  have hx' := get_id_of_count hi hx
  split
  · exact ⟨rfl, rfl, rfl, SessKeep.set hx' ⟨rfl, rfl, rfl, rfl⟩⟩
  · exact ⟨rfl, rfl, rfl, SessKeep.set hx' ⟨rfl, rfl, rfl, rfl⟩⟩

theorem sessEnd_idframe {s s' : State} {frm : Addr} {id : Nat} (h : sessEnd s frm id = .ok s') (hi : CountInv s) :
    IdFrame s s' := by
  unfold sessEnd at h
  simp only [bind_eq_ok, pure_eq_ok, require_eq_ok, orReject_eq_ok] at h
  obtain ⟨x, hx, _, _, _, _, rfl⟩ := h
  exact sessionToPending_idframe (get_id_of_count hi hx)

/-! ### the four creations -/

/-- An accepted plan creation: the record sits under `count + 1`, the counter becomes `count + 1`,
nothing else of the identifier state moves. -/
structure PlanIssued (s s' : State) : Prop where
  count : s'.planCount = some (s.planCount.getD 0 + 1)
  stored : ∃ p, s'.planInactive.get (s.planCount.getD 0 + 1) = some p ∧ p.id = s.planCount.getD 0 + 1
  subCount : s'.subCount = s.subCount
  sessCount : s'.sessCount = s.sessCount
  sessions : s'.sessions = s.sessions

/-- An accepted subscription creation. -/
structure SubIssued (s s' : State) : Prop where
  count : s'.subCount = some (s.subCount.getD 0 + 1)
  stored : ∃ x, s'.subs.get (s.subCount.getD 0 + 1) = some x ∧ x.id = s.subCount.getD 0 + 1
  planCount : s'.planCount = s.planCount
  sessCount : s'.sessCount = s.sessCount
  sessions : s'.sessions = s.sessions

/-- An accepted session start on subscription `sub`. -/
structure SessIssued (s s' : State) (sub : Nat) : Prop where
  count : s'.sessCount = some (s.sessCount.getD 0 + 1)
  stored : ∃ x, s'.sessions = s.sessions.set (s.sessCount.getD 0 + 1) x ∧ x.id = s.sessCount.getD 0 + 1 ∧ x.sub = sub
  planCount : s'.planCount = s.planCount
  subCount : s'.subCount = s.subCount

theorem planCreate_issued {s s' : State} {frm : Addr} {dur : Dur} {gb : Int} {prices : Coins}
    (h : planCreate s frm dur gb prices = .ok s') : PlanIssued s s' := by
  obtain ⟨_, rfl⟩ := planCreate_eff h
  exact ⟨rfl, ⟨_, Tbl.get_set_eq _ _ _, rfl⟩, rfl, rfl, rfl⟩

theorem insertSub_facts (s : State) (sub : Sub) :
    (insertSub s sub).subs = s.subs.set sub.id sub ∧ (insertSub s sub).subCount = some sub.id ∧
    (insertSub s sub).planCount = s.planCount ∧ (insertSub s sub).sessCount = s.sessCount ∧
    (insertSub s sub).sessions = s.sessions := by
  unfold insertSub; cases sub.kind <;> exact ⟨rfl, rfl, rfl, rfl, rfl⟩

/-- Inserting a subscription numbered `count + 1` into a state whose identifier view is that of `s`. -/
theorem insertSub_issued {s s1 s' : State} (sub : Sub) (h1 : idview s1 = idview s) (hid : sub.id = s.subCount.getD 0 + 1)
    (h' : idview s' = idview (insertSub s1 sub)) (hs : s'.subs = (insertSub s1 sub).subs) : SubIssued s s' := by
  obtain ⟨f1, f2, f3, f4, f5⟩ := insertSub_facts s1 sub
  have a1 : s1.planCount = s.planCount := congrArg IdView.planCount h1
  have a3 : s1.sessCount = s.sessCount := congrArg IdView.sessCount h1
  have a4 : s1.sessions = s.sessions := congrArg IdView.sessions h1
  have b1 : s'.planCount = (insertSub s1 sub).planCount := congrArg IdView.planCount h'
  have b2 : s'.subCount = (insertSub s1 sub).subCount := congrArg IdView.subCount h'
  have b3 : s'.sessCount = (insertSub s1 sub).sessCount := congrArg IdView.sessCount h'
  have b4 : s'.sessions = (insertSub s1 sub).sessions := congrArg IdView.sessions h'
  refine ⟨?_, ⟨sub, ?_, hid⟩, ?_, ?_, ?_⟩
  · rw [b2, f2, hid]
  · rw [hs, f1, ← hid]; exact Tbl.get_set_eq _ _ _
  · rw [b1, f3, a1]
  · rw [b3, f4, a3]
  · rw [b4, f5, a4]

theorem createNodeSubGB_issued {s : State} {acc node : Addr} {n : Node} {gb : Int} {denom : Denom} {r : State × Sub}
    (h : createNodeSubGB s acc node n gb denom = .ok r) : SubIssued s r.1 := by
  unfold createNodeSubGB at h
  simp only [bind_eq_ok, pure_eq_ok, orReject_eq_ok] at h
  obtain ⟨price, _, bytes, _, amt, _, dep, _, s1, h1, granted, _, rfl⟩ := h
  exact insertSub_issued
    { id := s.subCount.getD 0 + 1, addr := acc, inactiveAt := s.time + 90 * day, status := .StatusActive, statusAt := s.time,
      kind := .node node gb 0 dep }
    (idview_of_mframe (addDeposit_mframe h1)) rfl rfl rfl

theorem createNodeSubHr_issued {s : State} {acc node : Addr} {n : Node} {hr : Int} {denom : Denom} {r : State × Sub}
    (h : createNodeSubHr s acc node n hr denom = .ok r) : SubIssued s r.1 := by
  unfold createNodeSubHr at h
  simp only [bind_eq_ok, pure_eq_ok, orReject_eq_ok] at h
  obtain ⟨price, _, amt, _, dep, _, s1, h1, pa, _, hourly, _, rfl⟩ := h
  exact insertSub_issued
    { id := s.subCount.getD 0 + 1, addr := acc, inactiveAt := s.time + hr * hour, status := .StatusActive, statusAt := s.time,
      kind := .node node 0 hr dep }
    (idview_of_mframe (addDeposit_mframe h1)) rfl rfl rfl

theorem SubIssued.emit {s s' : State} (e : Event) (h : SubIssued s s') : SubIssued s (emit s' e) :=
  ⟨h.count, h.stored, h.planCount, h.sessCount, h.sessions⟩

theorem nodeSubscribe_issued {s s' : State} {frm node : Addr} {gb hr : Int} {denom : Denom}
    (h : nodeSubscribe s frm node gb hr denom = .ok s') : SubIssued s s' := by
  unfold nodeSubscribe createSubscriptionForNode at h
  simp only [bind_eq_ok, pure_eq_ok, require_eq_ok, orReject_eq_ok] at h
  obtain ⟨_, _, _, _, r, ⟨n, _, _, _, hr'⟩, rfl⟩ := h
  refine SubIssued.emit _ ?_
  split at hr'
  · exact createNodeSubGB_issued hr'
  · exact createNodeSubHr_issued hr'

theorem planSubscribe_issued {s s' : State} {frm : Addr} {id : Nat} {denom : Denom}
    (h : planSubscribe s frm id denom = .ok s') : SubIssued s s' := by
  unfold planSubscribe createSubscriptionForPlan at h
  simp only [bind_eq_ok, pure_eq_ok, require_eq_ok, requireP_eq_ok, orReject_eq_ok] at h
  obtain ⟨r, ⟨plan, hplan, _, _, price, _, reward, _, s1, h1, payAmt, _, _, _, s2, h2, granted, _, rfl⟩, rfl⟩ := h
  refine SubIssued.emit _ ?_
  have f2 : MFrame s s2 := (sendCoinFromAccountToModule_mframe h1).trans (sendCoin_mframe h2)
  exact insertSub_issued (s1 := Hub.Model.emit s2 (ev "sentinel.subscription.v2.EventPayForPlan"
    [("address", addrTxt .acc frm), ("payment", (⟨price.denom, payAmt⟩ : Coin).sdkString), ("provider_address", addrTxt .prov plan.prov),
     ("staking_reward", reward.sdkString), ("id", toString plan.id)]))
    { id := s.subCount.getD 0 + 1, addr := frm, inactiveAt := s.time + plan.dur, status := .StatusActive, statusAt := s.time,
      kind := .plan plan.id price.denom }
    ((idview_emit s2 _).trans (idview_of_mframe f2)) rfl rfl rfl

theorem sessStart_issued {s s' : State} {frm : TextAddr} {id : Nat} {node : Addr}
    (h : sessStart s frm id node = .ok s') : SessIssued s s' id := by
  unfold sessStart at h
  simp only [bind_eq_ok, pure_eq_ok, require_eq_ok, orReject_eq_ok] at h
  obtain ⟨sub, hsub, _, _, n, _, _, _, _, _, _, _, latest, _, _, _, rfl⟩ := h
  exact ⟨rfl, ⟨_, rfl, rfl, rfl⟩, rfl, rfl⟩

/-! ### hooks issue nothing -/

theorem payoutStep_idview {s s' : State} {k : Time × Nat} (h : payoutStep s k = .ok s') : idview s' = idview s := by
  unfold payoutStep at h
  simp only [bind_eq_ok, pure_eq_ok, requireP_eq_ok, orPanic_eq_ok] at h
  obtain ⟨item, hitem, reward, _, s2, h2, payAmt, _, _, _, s3, h3, rfl⟩ := h
  have f3 := (sendCoinFromDepositToModule_mframe h2).trans (sendCoinFromDepositToAccount_mframe h3)
  have e3 : idview s3 = idview s := (idview_of_mframe f3).trans rfl
  rw [← e3]
  split <;> rfl

theorem sessionInactiveHook_idview {s s' : State} {id : Nat} {acc node : Addr} {bytes : Int}
    (h : sessionInactiveHook s id acc node bytes = .ok s') : idview s' = idview s := by
  unfold sessionInactiveHook at h
  simp only [bind_eq_ok, require_eq_ok, orReject_eq_ok] at h
  obtain ⟨x, _, _, _, sub, _, h⟩ := h
  split at h
  · rw [pure_eq_ok] at h; rw [h]
  · simp only [bind_eq_ok, orReject_eq_ok] at h
    obtain ⟨a, ha, used, _, h⟩ := h
    split at h
    · rw [idview_of_mframe (settleSession_mframe h)]; rfl
    · rw [pure_eq_ok] at h; rw [← h]; rfl

theorem sessionStep_idframe {s s' : State} {k : Time × Nat} (h : sessionStep s k = .ok s') (hi : CountInv s) :
    IdFrame s s' := by
  unfold sessionStep at h
  simp only [bind_eq_ok, orPanic_eq_ok] at h
  obtain ⟨item, hitem, h⟩ := h
  split at h
  · rw [pure_eq_ok] at h; rw [← h]; exact sessionToPending_idframe (get_id_of_count hi hitem)
  · simp only [bind_eq_ok, pure_eq_ok, panicIfErr_eq_ok] at h
    obtain ⟨bytes, _, s2, h2, rfl⟩ := h
    have e2 : idview s2 = idview s := (sessionInactiveHook_idview h2).trans rfl
    have f2 : IdFrame s s2 := IdFrame.of_view e2
    exact f2.trans ⟨rfl, rfl, rfl, SessKeep.erase _ _⟩

theorem idview_removeAllocs (l : List Addr) (s : State) (id : Nat) : idview (removeAllocs s id l) = idview s := by
  unfold removeAllocs
  induction l generalizing s with
  | nil => rfl
  | cons a rest ih => rw [List.foldl_cons, ih]; rfl

theorem idview_removeSubRecords (s : State) (item : Sub) : idview (removeSubRecords s item) = idview s := by
  unfold removeSubRecords
  cases item.kind with
  | node n g h d => rfl
  | plan pid dn =>
    simp only [idview_emit]
    exact (rfl : idview { (removeAllocs _ _ _) with subs := _ } = idview (removeAllocs _ _ _)).trans (idview_removeAllocs _ _ _)

theorem removePayout_idview {s s' : State} {item : Sub} (h : removePayout s item = .ok s') : idview s' = idview s := by
  unfold removePayout at h
  split at h
  · simp only [bind_eq_ok, pure_eq_ok, orPanic_eq_ok] at h
    obtain ⟨p, _, rfl⟩ := h
    rfl
  · rw [pure_eq_ok] at h; rw [h]

theorem subscriptionStep_idframe {s s' : State} {d : Dur} {k : Time × Nat} (h : subscriptionStep d s k = .ok s')
    (hi : CountInv s) : IdFrame s s' := by
  unfold subscriptionStep at h
  simp only [bind_eq_ok, orPanic_eq_ok] at h
  obtain ⟨item, hitem, h⟩ := h
  have i1 : CountInv { s with subQ := s.subQ.erase (item.inactiveAt, item.id) } := by
    rw [countInv_iff] at hi ⊢
    constructor
    case subQ => exact hi.subQ.erase
    count_rest hi
  split at h
  · simp only [bind_eq_ok, panicIfErr_eq_ok] at h
    obtain ⟨s2, h2, h3⟩ := h
    have f0 : IdFrame s { s with subQ := s.subQ.erase (item.inactiveAt, item.id) } := IdFrame.of_view rfl
    have f2 : IdFrame s s2 := f0.trans (subscriptionInactivePendingHook_idframe h2 i1)
    exact f2.trans (IdFrame.of_view (by rw [detachPayout_idview h3, idview_subToPending]))
  · simp only [bind_eq_ok] at h
    obtain ⟨s2, h2, h3⟩ := h
    refine IdFrame.of_view ?_
    rw [removePayout_idview h3, idview_removeSubRecords, idview_of_mframe (refundSub_mframe h2)]
    rfl

/-- Joint fold: a hook loop whose steps keep `CountInv` and the identifier frame. -/
theorem foldlM_idframe {α : Type} (f : State → α → M State)
    (hc : ∀ s a s', f s a = .ok s' → CountInv s → CountInv s')
    (hf : ∀ s a s', f s a = .ok s' → CountInv s → IdFrame s s')
    (l : List α) (s s' : State) (h : l.foldlM f s = .ok s') (hi : CountInv s) : IdFrame s s' :=
  (foldlM_inv (fun t => CountInv t ∧ IdFrame s t) f
    (fun s0 a s1 h1 hp => ⟨hc s0 a s1 h1 hp.1, hp.2.trans (hf s0 a s1 h1 hp.1)⟩) l s s' h ⟨hi, IdFrame.refl s⟩).2

theorem beginBlock_idframe {s s' : State} {t : Time} (h : beginBlock s t = .ok s') : IdFrame s s' := by
  unfold beginBlock haltOf at h
  split at h <;> try contradiction
  rename_i s'' hs
  simp only [Except.ok.injEq] at h
  subst h
  unfold subscriptionBeginBlock at hs
  refine IdFrame.of_view ?_
  refine (foldlM_inv (fun u => idview u = idview s) _ ?_ _ _ _ hs ?_)
  · intro s0 k s1 h1 hp
    rw [panicIfErr_eq_ok] at h1
    rw [payoutStep_idview h1]; exact hp
  · rw [idview_of_mframe (distrSweep_mframe _)]
    exact (idview_of_cview (cview_mintBeginBlock_go _ _)).trans rfl

theorem endBlock_idframe {s s' : State} (h : endBlock s = .ok s') (hi : CountInv s) : IdFrame s s' := by
  unfold endBlock haltOf at h
  split at h <;> try contradiction
  rename_i s2 hs
  split at hs <;> try contradiction
  rename_i s3 hs3
  simp only [Except.ok.injEq] at hs h
  subst hs; subst h
  unfold vpnEndBlock nodeEndBlock at hs3
  simp only [bind_eq_ok] at hs3
  obtain ⟨s1, ⟨sa, ha, hb⟩, sb, hc, hd⟩ := hs3
  have i00 : CountInv { s with events := [] } := CountInv.of_view (s := s) rfl hi
  have i0 : CountInv sa := nodeSweep_count ha i00
  have i1 : CountInv s1 := foldlM_inv CountInv _ (fun s0 k s1 h1 hp => nodeExpireStep_count h1 hp) _ _ _ hb i0
  have i2 : CountInv sb := foldlM_inv CountInv _ (fun s0 k s1 h1 hp => sessionStep_count h1 hp) _ _ _ hc i1
  have f0 : IdFrame s sa := IdFrame.of_cview ((nodeSweep_cview ha).trans rfl)
  have f1 : IdFrame sa s1 := foldlM_idframe _ (fun _ _ _ h1 hp => nodeExpireStep_count h1 hp)
    (fun _ _ _ h1 _ => IdFrame.of_cview (nodeExpireStep_cview h1)) _ _ _ hb i0
  have f2 : IdFrame s1 sb := foldlM_idframe _ (fun _ _ _ h1 hp => sessionStep_count h1 hp)
    (fun _ _ _ h1 hp => sessionStep_idframe h1 hp) _ _ _ hc i1
  have f3 : IdFrame sb s3 := foldlM_idframe _ (fun _ _ _ h1 hp => subscriptionStep_count h1 hp)
    (fun _ _ _ h1 hp => subscriptionStep_idframe h1 hp) _ _ _ hd i2
  exact ((f0.trans f1).trans f2).trans (f3.trans (IdFrame.of_view rfl))

theorem gov_idframe (s : State) (c : ParamChange) : IdFrame s ((gov s c).getD s) := by
  cases hg : gov s c with
  | none => exact IdFrame.refl s
  | some s' => exact IdFrame.of_cview (gov_cview hg)

/-! ## 3. messages -/

/-- The four messages that create a numbered record. -/
def isCreate : Msg → Bool
  | .planCreate .. | .nodeSubscribe .. | .planSubscribe .. | .sessStart .. => true
  | _ => false

theorem handle_idframe {s s' : State} {m : Msg} (h : m.handle s = .ok s') (hi : CountInv s) (hm : isCreate m = false) :
    IdFrame s s' := by
  cases m <;> simp only [Msg.handle] at h <;> simp only [isCreate] at hm
  case provRegister => exact IdFrame.of_cview (provRegister_cview h)
  case provUpdate => exact IdFrame.of_cview (provUpdate_cview h)
  case nodeRegister => exact IdFrame.of_cview (nodeRegister_cview h)
  case nodeUpdate => exact IdFrame.of_cview (nodeUpdate_cview h)
  case nodeStatus => exact IdFrame.of_cview (nodeStatus_cview h)
  case planStatus => exact IdFrame.of_view (planStatus_idview h)
  case planLink => exact IdFrame.of_view (planLink_idview h)
  case planUnlink => exact IdFrame.of_view (planUnlink_idview h)
  case subCancel => exact subCancel_idframe h hi
  case subAllocate => exact IdFrame.of_view (subAllocate_idview h)
  case sessUpdate => exact sessUpdate_idframe h hi
  case sessEnd => exact sessEnd_idframe h hi
  case swap => exact IdFrame.of_cview (swap_cview h)
  all_goals exact absurd hm (by decide)

/-- An accepted message was handled on the state with a cleared event buffer. -/
theorem deliver_accept {s : State} {m : Msg} (h : (deliver s m).2 = .accept) :
    m.handle { s with events := [] } = .ok (deliver s m).1 := by
  unfold deliver at h ⊢
  simp only [] at h ⊢
  cases hr : (do m.validateBasic; m.handle { s with events := [] } : M State) with
  | ok s' =>
    simp only [bind_eq_ok] at hr
    obtain ⟨_, _, hh⟩ := hr
    exact hh
  | error e => rw [hr] at h; cases e <;> simp at h

/-- **C18: a rejected request consumes no identifier** — it changes nothing at all but the (cleared)
event buffer, so in particular none of the three counters. -/
theorem rejected_consumes_none (s : State) (m : Msg) (h : (deliver s m).2 ≠ .accept) :
    (deliver s m).1 = { s with events := [] } := by
  unfold deliver at h ⊢
  simp only [] at h ⊢
  cases hr : (do m.validateBasic; m.handle { s with events := [] } : M State) with
  | ok s' => rw [hr] at h; simp at h
  | error e => cases e <;> rfl

theorem rejected_counters (s : State) (m : Msg) (h : (deliver s m).2 ≠ .accept) :
    (deliver s m).1.planCount = s.planCount ∧ (deliver s m).1.subCount = s.subCount ∧
    (deliver s m).1.sessCount = s.sessCount := by
  rw [rejected_consumes_none s m h]; exact ⟨rfl, rfl, rfl⟩

/-- **C18: plan identifiers are issued in order** — an accepted `MsgCreate` (plan) stores the new plan
under `count + 1` and sets the counter to `count + 1`. -/
theorem plan_ids_issued_in_order (s : State) (frm : TextAddr) (dur gb : Int) (prices : Option Coins)
    (h : (deliver s (.planCreate frm dur gb prices)).2 = .accept) :
    PlanIssued s (deliver s (.planCreate frm dur gb prices)).1 := by
  have hh := deliver_accept h
  simp only [Msg.handle] at hh
  have := planCreate_issued hh
  exact ⟨this.count, this.stored, this.subCount, this.sessCount, this.sessions⟩

/-- The new plan identifier was not in use before (given the invariant). -/
theorem plan_id_fresh {s : State} (hi : CountInv s) : getPlan s (s.planCount.getD 0 + 1) = none := by
  cases hg : getPlan s (s.planCount.getD 0 + 1) with
  | none => rfl
  | some p =>
    have := hi.plans _ p (getPlan_mem hg)
    omega

/-- **C18: subscription identifiers are issued in order** (subscription to a node). -/
theorem sub_ids_issued_in_order_node (s : State) (frm node : TextAddr) (gb hr : Int) (denom : Denom)
    (h : (deliver s (.nodeSubscribe frm node gb hr denom)).2 = .accept) :
    SubIssued s (deliver s (.nodeSubscribe frm node gb hr denom)).1 := by
  have hh := deliver_accept h
  simp only [Msg.handle] at hh
  have := nodeSubscribe_issued hh
  exact ⟨this.count, this.stored, this.planCount, this.sessCount, this.sessions⟩

/-- **C18: subscription identifiers are issued in order** (subscription to a plan). -/
theorem sub_ids_issued_in_order_plan (s : State) (frm : TextAddr) (id : Nat) (denom : Denom)
    (h : (deliver s (.planSubscribe frm id denom)).2 = .accept) :
    SubIssued s (deliver s (.planSubscribe frm id denom)).1 := by
  have hh := deliver_accept h
  simp only [Msg.handle] at hh
  have := planSubscribe_issued hh
  exact ⟨this.count, this.stored, this.planCount, this.sessCount, this.sessions⟩

theorem sub_id_fresh {s : State} (hi : CountInv s) : s.subs.get (s.subCount.getD 0 + 1) = none := by
  cases hg : s.subs.get (s.subCount.getD 0 + 1) with
  | none => rfl
  | some x =>
    have := hi.subs _ x hg
    omega

/-- **C18: session identifiers are issued in order**; the new session carries the subscription it was
started on. -/
theorem sess_ids_issued_in_order (s : State) (frm : TextAddr) (id : Nat) (node : TextAddr)
    (h : (deliver s (.sessStart frm id node)).2 = .accept) :
    SessIssued s (deliver s (.sessStart frm id node)).1 id := by
  have hh := deliver_accept h
  simp only [Msg.handle] at hh
  have := sessStart_issued hh
  exact ⟨this.count, this.stored, this.planCount, this.subCount⟩

theorem sess_id_fresh {s : State} (hi : CountInv s) : s.sessions.get (s.sessCount.getD 0 + 1) = none := by
  cases hg : s.sessions.get (s.sessCount.getD 0 + 1) with
  | none => rfl
  | some x =>
    have := hi.sessions _ x hg
    omega

/-- **C18: every other message — accepted or rejected — leaves the three counters unchanged** (and
creates no session). -/
theorem other_messages_keep_counters (s : State) (m : Msg) (hi : CountInv s) (hm : isCreate m = false) :
    IdFrame s (deliver s m).1 := by
  by_cases h : (deliver s m).2 = .accept
  · have hh := deliver_accept h
    have h0 : CountInv { s with events := [] } := CountInv.of_view (s := s) rfl hi
    have f0 : IdFrame s { s with events := [] } := IdFrame.of_view rfl
    exact f0.trans (handle_idframe hh h0 hm)
  · rw [rejected_consumes_none s m h]; exact IdFrame.of_view rfl

/-! ## 4. monotone counters, identifiers never reissued -/

/-- What any operation does to the identifier state: counters never decrease; a session present
afterwards either was there before with the same identity, or carries an identifier above the old
counter. -/
structure IdStep (s s' : State) : Prop where
  planCount : s.planCount.getD 0 ≤ s'.planCount.getD 0
  subCount : s.subCount.getD 0 ≤ s'.subCount.getD 0
  sessCount : s.sessCount.getD 0 ≤ s'.sessCount.getD 0
  sess : ∀ i x', s'.sessions.get i = some x' → (∃ x, s.sessions.get i = some x ∧ SameSess x x') ∨ s.sessCount.getD 0 < i

theorem IdStep.refl (s : State) : IdStep s s :=
  ⟨Nat.le_refl _, Nat.le_refl _, Nat.le_refl _, fun _ x h => Or.inl ⟨x, h, SameSess.refl x⟩⟩

theorem IdStep.trans {a b c : State} (h1 : IdStep a b) (h2 : IdStep b c) : IdStep a c := by
  refine ⟨Nat.le_trans h1.planCount h2.planCount, Nat.le_trans h1.subCount h2.subCount,
    Nat.le_trans h1.sessCount h2.sessCount, ?_⟩
  intro i x'' h
  rcases h2.sess i x'' h with ⟨x', hx', s2⟩ | hlt
  · rcases h1.sess i x' hx' with ⟨x, hx, s1⟩ | hlt
    · exact Or.inl ⟨x, hx, s1.trans s2⟩
    · exact Or.inr hlt
  · exact Or.inr (Nat.lt_of_le_of_lt h1.sessCount hlt)

theorem IdFrame.step {s s' : State} (h : IdFrame s s') : IdStep s s' :=
  ⟨Nat.le_of_eq (by rw [h.planCount]), Nat.le_of_eq (by rw [h.subCount]),
   Nat.le_of_eq (by rw [h.sessCount]), fun i x' hx => Or.inl (h.sess i x' hx)⟩

theorem PlanIssued.step {s s' : State} (h : PlanIssued s s') : IdStep s s' :=
  ⟨by rw [h.count]; simp, Nat.le_of_eq (by rw [h.subCount]), Nat.le_of_eq (by rw [h.sessCount]),
   fun i x' hx => Or.inl ⟨x', by rw [← h.sessions]; exact hx, SameSess.refl x'⟩⟩

theorem SubIssued.step {s s' : State} (h : SubIssued s s') : IdStep s s' :=
  ⟨Nat.le_of_eq (by rw [h.planCount]), by rw [h.count]; simp, Nat.le_of_eq (by rw [h.sessCount]),
   fun i x' hx => Or.inl ⟨x', by rw [← h.sessions]; exact hx, SameSess.refl x'⟩⟩

theorem SessIssued.step {s s' : State} {sub : Nat} (h : SessIssued s s' sub) : IdStep s s' := by
  refine ⟨Nat.le_of_eq (by rw [h.planCount]), Nat.le_of_eq (by rw [h.subCount]), by rw [h.count]; simp, ?_⟩
  intro i x' hx
  obtain ⟨x, hs, hid, _⟩ := h.stored
  rw [hs, Tbl.get_set] at hx
  by_cases e : s.sessCount.getD 0 + 1 = i
  · right; omega
  · simp only [e, if_false] at hx; exact Or.inl ⟨x', hx, SameSess.refl x'⟩

theorem deliver_idstep (s : State) (m : Msg) (hi : CountInv s) : IdStep s (deliver s m).1 := by
  by_cases hm : isCreate m = false
  · exact (other_messages_keep_counters s m hi hm).step
  · by_cases h : (deliver s m).2 = .accept
    · cases m
      case planCreate => exact (plan_ids_issued_in_order s _ _ _ _ h).step
      case nodeSubscribe => exact (sub_ids_issued_in_order_node s _ _ _ _ _ h).step
      case planSubscribe => exact (sub_ids_issued_in_order_plan s _ _ _ h).step
      case sessStart => exact (sess_ids_issued_in_order s _ _ _ h).step
      all_goals exact absurd rfl hm
    · rw [rejected_consumes_none s m h]
      have f0 : IdFrame s { s with events := [] } := IdFrame.of_view rfl
      exact f0.step

theorem step_idstep {s s' : State} {op : Op} (h : step s op = some s') (hi : CountInv s) : IdStep s s' := by
  cases op with
  | tx m =>
    simp only [step, Option.some.injEq] at h
    rw [← h]; exact deliver_idstep s m hi
  | begin t =>
    simp only [step] at h
    split at h
    · rename_i s1 hb
      simp only [Option.some.injEq] at h; rw [← h]; exact (beginBlock_idframe hb).step
    · contradiction
  | endB =>
    simp only [step] at h
    split at h
    · rename_i s1 hb
      simp only [Option.some.injEq] at h; rw [← h]; exact (endBlock_idframe hb hi).step
    · contradiction
  | gov c =>
    simp only [step, Option.some.injEq] at h
    rw [← h]; exact (gov_idframe s c).step

/-- Only a message can move a counter: block hooks and governance leave all three unchanged. -/
theorem hooks_keep_counters {s s' : State} {op : Op} (h : step s op = some s') (hi : CountInv s)
    (hop : ∀ m, op ≠ .tx m) : IdFrame s s' := by
  cases op with
  | tx m => exact absurd rfl (hop m)
  | begin t =>
    simp only [step] at h
    split at h
    · rename_i s1 hb
      simp only [Option.some.injEq] at h; rw [← h]; exact beginBlock_idframe hb
    · contradiction
  | endB =>
    simp only [step] at h
    split at h
    · rename_i s1 hb
      simp only [Option.some.injEq] at h; rw [← h]; exact endBlock_idframe hb hi
    · contradiction
  | gov c =>
    simp only [step, Option.some.injEq] at h
    rw [← h]; exact gov_idframe s c

/-- **C18: counters never decrease** along any operation. -/
theorem counters_monotone {s s' : State} {op : Op} (h : step s op = some s') (hi : CountInv s) :
    s.planCount.getD 0 ≤ s'.planCount.getD 0 ∧ s.subCount.getD 0 ≤ s'.subCount.getD 0 ∧
    s.sessCount.getD 0 ≤ s'.sessCount.getD 0 :=
  let st := step_idstep h hi
  ⟨st.planCount, st.subCount, st.sessCount⟩

theorem trace_idstep (ops : List Op) (s : State) (hi : CountInv s) : ∀ t ∈ runTrace s ops, IdStep s t := by
  induction ops generalizing s with
  | nil => intro t h; simp [runTrace] at h
  | cons op rest ih =>
    intro t h
    simp only [runTrace] at h
    cases hst : step s op with
    | none => simp [hst] at h
    | some s1 =>
      simp only [hst, List.mem_cons] at h
      have st1 := step_idstep hst hi
      rcases h with h | h
      · rw [h]; exact st1
      · exact st1.trans (ih s1 (step_count hst hi) t h)

/-- … and along any history. -/
theorem counters_monotone_trace (ops : List Op) (s : State) (hi : CountInv s) :
    ∀ t ∈ runTrace s ops, s.planCount.getD 0 ≤ t.planCount.getD 0 ∧ s.subCount.getD 0 ≤ t.subCount.getD 0 ∧
      s.sessCount.getD 0 ≤ t.sessCount.getD 0 := by
  intro t ht
  have st := trace_idstep ops s hi t ht
  exact ⟨st.planCount, st.subCount, st.sessCount⟩

/-- **C18: a plan identifier is never issued again.** If `i` has been issued at `s` (`i ≤` the plan
counter), then in any later state `t` of the history an accepted plan creation stores its plan under an
identifier `> i` — whether or not a record is still stored under `i`. -/
theorem never_reissued_plan (ops : List Op) (s : State) (hi : CountInv s) (t : State) (ht : t ∈ runTrace s ops)
    (i : Nat) (hissued : i ≤ s.planCount.getD 0) (frm : TextAddr) (dur gb : Int) (prices : Option Coins)
    (h : (deliver t (.planCreate frm dur gb prices)).2 = .accept) :
    ∃ j p, (deliver t (.planCreate frm dur gb prices)).1.planInactive.get j = some p ∧ p.id = j ∧
      (deliver t (.planCreate frm dur gb prices)).1.planCount = some j ∧ i < j ∧ getPlan t j = none := by
  have hit := count_all_histories ops s hi t ht
  have mono := (counters_monotone_trace ops s hi t ht).1
  obtain ⟨p, hp, hid⟩ := (plan_ids_issued_in_order t frm dur gb prices h).stored
  exact ⟨_, p, hp, hid, (plan_ids_issued_in_order t frm dur gb prices h).count, by omega, plan_id_fresh hit⟩

/-- **C18: a subscription identifier is never issued again** (either kind of subscription message). -/
theorem never_reissued_sub (ops : List Op) (s : State) (hi : CountInv s) (t : State) (ht : t ∈ runTrace s ops)
    (i : Nat) (hissued : i ≤ s.subCount.getD 0) (m : Msg)
    (hm : (∃ frm node gb hr denom, m = .nodeSubscribe frm node gb hr denom) ∨ (∃ frm id denom, m = .planSubscribe frm id denom))
    (h : (deliver t m).2 = .accept) :
    ∃ j x, (deliver t m).1.subs.get j = some x ∧ x.id = j ∧ (deliver t m).1.subCount = some j ∧ i < j ∧
      t.subs.get j = none := by
  have hit := count_all_histories ops s hi t ht
  have mono := (counters_monotone_trace ops s hi t ht).2.1
  have iss : SubIssued t (deliver t m).1 := by
    rcases hm with ⟨frm, node, gb, hr, denom, rfl⟩ | ⟨frm, id, denom, rfl⟩
    · exact sub_ids_issued_in_order_node t _ _ _ _ _ h
    · exact sub_ids_issued_in_order_plan t _ _ _ h
  obtain ⟨x, hx, hid⟩ := iss.stored
  exact ⟨_, x, hx, hid, iss.count, by omega, sub_id_fresh hit⟩

/-- **C18: a session identifier is never issued again.** -/
theorem never_reissued_sess (ops : List Op) (s : State) (hi : CountInv s) (t : State) (ht : t ∈ runTrace s ops)
    (i : Nat) (hissued : i ≤ s.sessCount.getD 0) (frm : TextAddr) (id : Nat) (node : TextAddr)
    (h : (deliver t (.sessStart frm id node)).2 = .accept) :
    ∃ j x, (deliver t (.sessStart frm id node)).1.sessions.get j = some x ∧ x.id = j ∧ x.sub = id ∧
      (deliver t (.sessStart frm id node)).1.sessCount = some j ∧ i < j ∧ t.sessions.get j = none := by
  have hit := count_all_histories ops s hi t ht
  have mono := (counters_monotone_trace ops s hi t ht).2.2
  have iss := sess_ids_issued_in_order t frm id node h
  obtain ⟨x, hs, hid, hsub⟩ := iss.stored
  refine ⟨_, x, ?_, hid, hsub, iss.count, by omega, sess_id_fresh hit⟩
  rw [hs]; exact Tbl.get_set_eq _ _ _

/-- Once the record of an issued session identifier is gone, no session ever sits under it again. -/
theorem removed_session_never_back (ops : List Op) (s : State) (hi : CountInv s) (t : State) (ht : t ∈ runTrace s ops)
    (i : Nat) (hissued : i ≤ s.sessCount.getD 0) (hgone : s.sessions.get i = none) : t.sessions.get i = none := by
  cases hg : t.sessions.get i with
  | none => rfl
  | some x' =>
    rcases (trace_idstep ops s hi t ht).sess i x' hg with ⟨x, hx, _⟩ | hlt
    · rw [hgone] at hx; contradiction
    · omega

/-! ## 5. children carry the identifier of their subscription -/

/-- **C18: allocations and payouts carry the identifier of their subscription** — in every state of
every history an allocation stored for subscription `i` has `id = i` (and the address of its key), a
payout stored for subscription `i` has `id = i`, a subscription stored under `i` has `id = i`, and the
identifier has been issued. -/
theorem children_carry_parent_id (g : Genesis) (ops : List Op) (s : State) (hs : s ∈ runTrace g.state ops) :
    (∀ i a al, s.allocs.get (i, a) = some al → al.id = i ∧ al.addr = a ∧ 1 ≤ i ∧ i ≤ s.subCount.getD 0) ∧
    (∀ i p, s.payouts.get i = some p → p.id = i ∧ 1 ≤ i ∧ i ≤ s.subCount.getD 0) ∧
    (∀ i x, s.subs.get i = some x → x.id = i) ∧
    (∀ i x, s.sessions.get i = some x → x.id = i ∧ 1 ≤ x.sub ∧ x.sub ≤ s.subCount.getD 0) := by
  have hi := counters_all_histories g ops s hs
  refine ⟨hi.allocs, hi.payouts, fun i x h => (hi.subs i x h).1, fun i x h => ?_⟩
  have := hi.sessions i x h
  exact ⟨this.1, this.2.2.2.1, this.2.2.2.2⟩

/-! ## 6. a session keeps its subscription -/

/-- **C18: the subscription of a session is fixed.** Along any operation, a session that exists before
and after keeps its subscription, its account and its node: it cannot be settled against another
subscription than the one it was started on. -/
theorem session_subscription_fixed {s s' : State} {op : Op} (h : step s op = some s') (hi : CountInv s)
    (i : Nat) (x x' : Session) (hx : s.sessions.get i = some x) (hx' : s'.sessions.get i = some x') :
    x'.sub = x.sub ∧ x'.addr = x.addr ∧ x'.node = x.node := by
  rcases (step_idstep h hi).sess i x' hx' with ⟨x0, hx0, hs⟩ | hlt
  · rw [hx] at hx0
    cases hx0
    exact ⟨hs.2.1, hs.2.2.1, hs.2.2.2⟩
  · have := hi.sessions i x hx
    omega

/-- … and along a whole history: whatever happened in between (the identifier is never reissued), a
session found under `i` later is the session that was under `i` before. -/
theorem session_subscription_fixed_trace (ops : List Op) (s : State) (hi : CountInv s) (t : State) (ht : t ∈ runTrace s ops)
    (i : Nat) (x x' : Session) (hx : s.sessions.get i = some x) (hx' : t.sessions.get i = some x') :
    x'.sub = x.sub ∧ x'.addr = x.addr ∧ x'.node = x.node := by
  rcases (trace_idstep ops s hi t ht).sess i x' hx' with ⟨x0, hx0, hs⟩ | hlt
  · rw [hx] at hx0
    cases hx0
    exact ⟨hs.2.1, hs.2.2.1, hs.2.2.2⟩
  · have := hi.sessions i x hx
    omega

/-- The settlement hook reads the subscription named by the session record — the one fixed at start. -/
theorem settlement_uses_session_subscription {s s' : State} {id : Nat} {acc node : Addr} {bytes : Int}
    (h : sessionInactiveHook s id acc node bytes = .ok s') :
    ∃ x sub, s.sessions.get id = some x ∧ s.subs.get x.sub = some sub := by
  unfold sessionInactiveHook at h
  simp only [bind_eq_ok, require_eq_ok, orReject_eq_ok] at h
  obtain ⟨x, hx, _, _, sub, hsub, _⟩ := h
  exact ⟨x, sub, hx, hsub⟩

/-! ## 7. non-vacuity -/

/-- A genesis with two funded accounts and non-trivial subscription bounds and delays. -/
def sampleGenesis : Genesis :=
  { time := 1000,
    params := { (default : Params) with maxSubGB := 10, minSubGB := 1, maxSubHr := 10, minSubHr := 1,
                                        sessDelay := 100, subDelay := 1000, activeDur := 5000 },
    balances := [([1], "udvpn", 1000), ([2], "udvpn", 1000)] }

def acc1 : TextAddr := ⟨.acc, [1], false⟩
def prov1 : TextAddr := ⟨.prov, [1], false⟩
def acc2 : TextAddr := ⟨.acc, [2], false⟩
def node3a : TextAddr := ⟨.acc, [3], false⟩
def node3 : TextAddr := ⟨.node, [3], false⟩

/-- Provider and two plans (one request rejected in between), a node, a subscription (one request
rejected), a session (a second start rejected), the session ended, a block boundary at which the
session is settled and removed, and a new session on the same subscription. -/
def sampleOps : List Op :=
  [ .tx (.provRegister acc1 [65] [] [] [] true),
    .tx (.planCreate prov1 10 1 (some [⟨"udvpn", 5⟩])),
    .tx (.planCreate ⟨.prov, [9], false⟩ 10 1 (some [⟨"udvpn", 5⟩])),   -- rejected: no such provider
    .tx (.planCreate prov1 20 2 (some [⟨"udvpn", 7⟩])),
    .tx (.nodeRegister node3a (some [⟨"udvpn", 5⟩]) (some [⟨"udvpn", 5⟩]) [65] true),
    .tx (.nodeStatus node3 1),
    .tx (.nodeSubscribe acc2 node3 1 0 "udvpn"),
    .tx (.nodeSubscribe acc2 node3 0 0 "udvpn"),      -- rejected by validation
    .tx (.sessStart acc2 1 node3),
    .tx (.sessStart acc2 1 node3),                    -- rejected: duplicate active session
    .tx (.sessEnd acc2 1 0),
    .begin 2000,
    .endB,
    .tx (.sessStart acc2 1 node3) ]

/-- ((plan counter, subscription counter, session counter), (plan ids, subscription ids, session ids)) -/
def proj (s : State) : (Option Nat × Option Nat × Option Nat) × (List Nat × List Nat × List Nat) :=
  ((s.planCount, s.subCount, s.sessCount), (s.planInactive.keys, s.subs.keys, s.sessions.keys))

/-- (allocation key, identifier carried by the allocation) for every allocation. -/
def projAllocs (s : State) : List ((Nat × Addr) × Nat) := s.allocs.map (fun p => (p.1, p.2.id))

/-- The history does not halt; the invariant's instance for it. -/
example : ∀ s ∈ runTrace sampleGenesis.state sampleOps, CountInv s := counters_all_histories _ _

/-- After the first eleven operations: plans 1, 2 (the rejected request consumed nothing), subscription 1
with its allocation, session 1 (the rejected second start consumed nothing). -/
example : (run sampleGenesis.state (sampleOps.take 11)).map proj =
    some ((some 2, some 1, some 1), ([1, 2], [1], [1])) := by decide +kernel

/-- At the block boundary session 1 is settled and removed; the next session gets identifier 2, not 1. -/
example : (run sampleGenesis.state (sampleOps.take 13)).map proj =
    some ((some 2, some 1, some 1), ([1, 2], [1], [])) := by decide +kernel
example : (run sampleGenesis.state sampleOps).map proj =
    some ((some 2, some 1, some 2), ([1, 2], [1], [2])) := by decide +kernel

example : (run sampleGenesis.state sampleOps).map projAllocs = some [((1, [2]), 1)] := by decide +kernel

/-- The hypotheses of the four `…_ids_issued_in_order` theorems are satisfiable: accepted creations. -/
example : (run sampleGenesis.state (sampleOps.take 1)).map
    (fun s => (deliver s (.planCreate prov1 10 1 (some [⟨"udvpn", 5⟩]))).2) = some .accept := by decide +kernel
example : (run sampleGenesis.state (sampleOps.take 6)).map
    (fun s => (deliver s (.nodeSubscribe acc2 node3 1 0 "udvpn")).2) = some .accept := by decide +kernel
example : (run sampleGenesis.state (sampleOps.take 8)).map
    (fun s => (deliver s (.sessStart acc2 1 node3)).2) = some .accept := by decide +kernel

/-- … and of `rejected_consumes_none`: a rejected creation. -/
example : (run sampleGenesis.state (sampleOps.take 9)).map
    (fun s => decide ((deliver s (.sessStart acc2 1 node3)).2 ≠ .accept)) = some true := by decide +kernel

/-- … and of `session_subscription_fixed`: session 1 exists before and after `MsgEnd` (operation 11),
bound to subscription 1 both times. -/
example : (run sampleGenesis.state (sampleOps.take 10)).map (fun s => (s.sessions.get 1).map (fun x => (x.sub, x.status))) =
    some (some (1, .StatusActive)) := by decide +kernel
example : (run sampleGenesis.state (sampleOps.take 11)).map (fun s => (s.sessions.get 1).map (fun x => (x.sub, x.status))) =
    some (some (1, .StatusInactivePending)) := by decide +kernel

end Hub.Props.C18
