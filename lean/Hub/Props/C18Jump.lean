import Hub.Lemmas.NoHaltCore
import Hub.Model.Jump
/-!
# C18 / C09 / C06 / C03 — the invariants survive a `jump` of an identifier counter

The correspondence check moves the identifier counters forwards (`jump`, `Hub/Model/Jump.lean`) so that
generated histories run with identifiers at the 32-bit and 56-bit boundaries.  A state after a jump is not
reachable by the operations of the configuration domain alone in any practical number of steps; these
theorems show that it is nevertheless inside what the invariants cover: every structural invariant
(`StructInv`: counters, record identity, partitions, all indices and queues, allocation bounds, quota
conservation) holds along every history with jumps from every genesis, and the combined invariant `Good`
of the no-halt development is preserved by a jump.
-/
namespace Hub.Props.C18Jump
open Hub.Model Hub.Model.NoHalt Hub.Model.Escrow

local macro "xfer" h:ident : tactic => `(tactic| (cases $h:ident; constructor <;> assumption))

theorem countInv_jump {s : State} {c : Counter} {n : Nat} (h : counterOf s c ≤ n) (hi : CountInv s) : CountInv (jump s c n) := by
  obtain ⟨h1, h2, h3, h4, h5, h6, h7, h8⟩ := hi
  cases c
  · refine ⟨?_, h2, h3, h4, h5, ?_, h7, h8⟩
    · intro i p hp; obtain ⟨a, b, c⟩ := h1 i p hp; exact ⟨a, b, Nat.le_trans c h⟩
    · exact ⟨fun a i hh => Nat.le_trans (h6.1 a i hh) h, fun i m hh => Nat.le_trans (h6.2 i m hh) h⟩
  · refine ⟨h1, ?_, ?_, ?_, ?_, h6, ?_, h8⟩
    · intro i x hx; obtain ⟨a, b, c⟩ := h2 i x hx; exact ⟨a, b, Nat.le_trans c h⟩
    · intro i a al hx; obtain ⟨p, q, b, c⟩ := h3 i a al hx; exact ⟨p, q, b, Nat.le_trans c h⟩
    · intro i x hx; obtain ⟨a, b, c⟩ := h4 i x hx; exact ⟨a, b, Nat.le_trans c h⟩
    · intro i x hx; obtain ⟨a, b, c, d, e⟩ := h5 i x hx; exact ⟨a, b, c, d, Nat.le_trans e h⟩
    · obtain ⟨a1, a2, a3, a4, a5, a6, a7, a8⟩ := h7
      exact ⟨fun t i hh => Nat.le_trans (a1 t i hh) h, fun t i hh => Nat.le_trans (a2 t i hh) h, fun t i hh => Nat.le_trans (a3 t i hh) h,
        fun t i hh => Nat.le_trans (a4 t i hh) h, fun t i hh => Nat.le_trans (a5 t i hh) h, fun t i hh => Nat.le_trans (a6 t i hh) h,
        fun t i hh => Nat.le_trans (a7 t i hh) h, fun t u i hh => Nat.le_trans (a8 t u i hh) h⟩
  · refine ⟨h1, h2, h3, h4, ?_, h6, h7, ?_⟩
    · intro i x hx; obtain ⟨a, b, c, d, e⟩ := h5 i x hx; exact ⟨a, b, Nat.le_trans c h, d, e⟩
    · obtain ⟨a1, a2, a3, a4, a5⟩ := h8
      exact ⟨fun t i hh => Nat.le_trans (a1 t i hh) h, fun t i hh => Nat.le_trans (a2 t i hh) h, fun t i hh => Nat.le_trans (a3 t i hh) h,
        fun t i hh => Nat.le_trans (a4 t i hh) h, fun t u i hh => Nat.le_trans (a5 t u i hh) h⟩

/-- Moving a counter forwards keeps every structural invariant. -/
theorem structInv_jump {s : State} {c : Counter} {n : Nat} (h : counterOf s c ≤ n) (hi : StructInv s) : StructInv (jump s c n) := by
  obtain ⟨hc, hr, hn, hse, hsu, ha, hq⟩ := hi
  refine ⟨countInv_jump h hc, ?_, ?_, ?_, ?_, ?_, ?_⟩ <;> cases c
  all_goals first | (xfer hr) | (xfer hn) | (xfer hse) | (xfer hsu) | (xfer ha) | (xfer hq) | exact hq

theorem base_jump {s : State} {c : Counter} {n : Nat} (h : counterOf s c ≤ n) (hi : Base s) : Base (jump s c n) := by
  obtain ⟨hs, he, hm, hn, ha⟩ := hi
  refine ⟨structInv_jump h hs, ?_, ?_, ?_, ?_⟩ <;> cases c
  all_goals first | (xfer he) | (xfer hm) | (xfer hn) | (xfer ha)

/-- **The invariant of the whole development survives a jump**: structural invariants, escrow split, money,
the no-halt side conditions and the lifecycle coupling. -/
theorem good_jump {M : Hub.SDK.Dur} {s : State} {c : Counter} {n : Nat} (h : counterOf s c ≤ n) (hi : Good M s) :
    Good M (jump s c n) := by
  obtain ⟨hb, hl⟩ := hi
  refine ⟨base_jump h hb, ?_⟩
  cases c
  all_goals (xfer hl)

theorem stepJ_structInv {s s' : State} {o : OpJ} (h : stepJ s o = some s') (hi : StructInv s) : StructInv s' := by
  cases o with
  | op o => exact step_structInv h hi
  | jump c n =>
    simp only [stepJ, jumpOp] at h
    split at h
    · cases h; exact structInv_jump (by assumption) hi
    · cases h

/-- **Every history with jumps, from every genesis, keeps the structural invariants.** -/
theorem structInv_all_histories_with_jumps (g : Genesis) (ops : List OpJ) {s : State} (h : runJ g.state ops = some s) :
    StructInv s := by
  have key : ∀ (ops : List OpJ) (s0 : State), StructInv s0 → runJ s0 ops = some s → StructInv s := by
    intro ops
    induction ops with
    | nil => intro s0 h0 hr; simp only [runJ] at hr; cases hr; exact h0
    | cons o rest ih =>
      intro s0 h0 hr
      simp only [runJ] at hr
      split at hr
      · rename_i s1 h1; exact ih s1 (stepJ_structInv h1 h0) hr
      · cases hr
  exact key ops g.state (genesis_structInv g) h

/-- Non-vacuity: a jump of the plan counter to 2^32 + 1 from an empty genesis is accepted, and the next state is covered. -/
example (g : Genesis) : ∃ s, runJ g.state [.jump .plan 4294967297] = some s ∧ StructInv s := by
  have h0 : counterOf g.state .plan ≤ 4294967297 := by
    have hc := (genesis_structInv g).count
    have : g.state.planCount = some 0 := by
      unfold Genesis.state
      generalize g.balances = bs
      suffices ∀ (t : State), t.planCount = some 0 → (bs.foldl addBalance t).planCount = some 0 from this _ rfl
      induction bs with
      | nil => intro t ht; exact ht
      | cons b bs ih =>
        intro t ht; apply ih
        unfold addBalance; split
        · exact ht
        · simpa [setSupply, setBalance] using ht
    simp [counterOf, this]
  refine ⟨jump g.state .plan 4294967297, ?_, structInv_jump h0 (genesis_structInv g)⟩
  simp [runJ, stepJ, jumpOp, h0]

end Hub.Props.C18Jump
