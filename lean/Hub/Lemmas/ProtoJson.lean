import Hub.SDK.ProtoJson
import Hub.Lemmas.ProtoWire
/-
Lemmas about the JSON model (`Hub/SDK/ProtoJson.lean`) leading to `roundtripAt_iff`, the fuel-indexed form of
`Hub.Props.C19Json.json_roundtrip_iff`: text helpers (Latin-1, UTF-8, decimal), the member loop, one lemma per
field class, `Any`, lists; then the `Status` leaf over the regenerated tables.  Core Lean only.
-/
namespace Hub.SDK.ProtoJson
open Hub.SDK Hub.SDK.ProtoWire

/-! ## text helpers -/

theorem toNat_byteChar (b : UInt8) : (byteChar b).toNat = b.toNat := by
  unfold byteChar
  have hb : b.toNat < 256 := b.toNat_lt
  have hv : (b.toNat).isValidChar := by
    unfold Nat.isValidChar; omega
  unfold Char.ofNat
  simp [hv, Char.ofNatAux, Char.toNat]

theorem charByte_byteChar (b : UInt8) : charByte (byteChar b) = b := by
  unfold charByte
  have hb : b.toNat < 256 := b.toNat_lt
  rw [toNat_byteChar]
  simp only [hb, if_true]
  exact UInt8.ofNat_toNat

theorem unlatin1_latin1 (b : Bytes) : unlatin1 (latin1 b) = b := by
  unfold unlatin1 latin1
  rw [String.toList_ofList, List.map_map]
  induction b with
  | nil => rfl
  | cons x xs ih => simp only [List.map_cons, Function.comp, charByte_byteChar, ih]

theorem mkBA_utf8Bytes (s : String) : mkBA (utf8Bytes s) = s.toUTF8 := by
  unfold mkBA utf8Bytes
  simp

theorem utf8Bytes_mk (b : Bytes) (h : (mkBA b).IsValidUTF8) : utf8Bytes (String.fromUTF8 (mkBA b) h) = b := by
  unfold utf8Bytes String.fromUTF8 String.toUTF8 mkBA
  simp

/-- A well-formed string is written as itself … -/
theorem utf8Bytes_strOf (b : Bytes) (h : utf8OK b = true) : utf8Bytes (strOf b) = b := by
  unfold utf8OK String.fromUTF8? at h
  unfold strOf String.fromUTF8?
  by_cases hv : (mkBA b).IsValidUTF8
  · simp only [hv, dite_true]
    exact utf8Bytes_mk b hv
  · simp [hv] at h

/-- … the bytes of a string are well-formed … -/
theorem utf8OK_utf8Bytes (s : String) : utf8OK (utf8Bytes s) = true := by
  unfold utf8OK String.fromUTF8?
  rw [mkBA_utf8Bytes]
  have hv : s.toUTF8.IsValidUTF8 := s.isValidUTF8
  simp only [hv, dite_true, Option.isSome_some]

theorem strOf_utf8Bytes (s : String) : strOf (utf8Bytes s) = s := by
  unfold strOf String.fromUTF8?
  have hv : (mkBA (utf8Bytes s)).IsValidUTF8 := by rw [mkBA_utf8Bytes]; exact s.isValidUTF8
  simp only [hv, dite_true]
  unfold String.fromUTF8
  congr 1

/-- … hence an ill-formed string never comes back, whatever the replacement characters are. -/
theorem strOf_ne (b : Bytes) (h : utf8OK b = false) : utf8Bytes (strOf b) ≠ b := by
  intro e
  have := utf8OK_utf8Bytes (strOf b)
  rw [e, h] at this
  exact absurd this (by simp)

theorem ofInt_toInt (n : Nat) (h : n < P64) : ofInt (toInt n) = n := by
  unfold ofInt toInt
  split
  · have e : ((n : Int)) % (P64 : Int) = n := Int.emod_eq_of_lt (by omega) (by omega)
    rw [e]; simp
  · have e : ((n : Int) - (P64 : Int)) % (P64 : Int) = n := by omega
    rw [e]; simp

theorem toInt_bounds (n : Nat) (h : n < P64) : -(P63 : Int) ≤ toInt n ∧ toInt n < (P63 : Int) := by
  unfold toInt
  split <;> omega

/-! ## the member loop -/

theorem getKey_head (k : String) (j : Json) (r : List (String × Json)) : getKey k ((k, j) :: r) = some (j, r) := by
  simp only [getKey, if_true]

/-- Reading back the members written for a field list succeeds with the same values exactly when every field reads
back its own member. -/
theorem fieldsFrom_fieldsJson (ff : Field → Json → Option Val) (fj : Field → Val → Json) (dflt : Field → Val) :
    ∀ (fs : List Field) (vs : List Val), fs.length = vs.length →
      (fieldsFrom ff dflt fs (fieldsJson fj fs vs) = some (vs, []) ↔ AllP (fun f v => ff f (fj f v) = some v) fs vs) := by
  intro fs
  induction fs with
  | nil =>
    intro vs hl
    cases vs with
    | nil => simp [fieldsFrom, fieldsJson, AllP]
    | cons v vs => simp at hl
  | cons f fs ih =>
    intro vs hl
    cases vs with
    | nil => simp at hl
    | cons v vs =>
      have hl' : fs.length = vs.length := by simpa using hl
      simp only [fieldsJson, fieldsFrom, getKey_head, AllP]
      cases hff : ff f (fj f v) with
      | none => simp
      | some w =>
        simp only
        cases hrec : fieldsFrom ff dflt fs (fieldsJson fj fs vs) with
        | none =>
          simp only
          constructor
          · intro h; exact absurd h (by simp)
          · intro h; have := (ih vs hl').2 h.2; rw [hrec] at this; exact absurd this (by simp)
        | some p =>
          obtain ⟨ws, r⟩ := p
          simp only [Option.some.injEq, Prod.mk.injEq, List.cons.injEq]
          constructor
          · intro h
            obtain ⟨⟨h1, h2⟩, h3⟩ := h
            subst h1 h2 h3
            exact ⟨rfl, (ih ws hl').1 hrec⟩
          · intro h
            have := (ih vs hl').2 h.2
            rw [hrec] at this
            simp only [Option.some.injEq, Prod.mk.injEq] at this
            exact ⟨⟨h.1, this.1⟩, this.2⟩

theorem jcanonFields_length (cf : Field → Val → Bool) : ∀ (fs : List Field) (vs : List Val),
    jcanonFields cf fs vs = true → fs.length = vs.length := by
  intro fs
  induction fs with
  | nil => intro vs h; cases vs with
    | nil => rfl
    | cons _ _ => simp [jcanonFields] at h
  | cons f fs ih => intro vs h; cases vs with
    | nil => simp [jcanonFields] at h
    | cons v vs =>
      simp only [jcanonFields, Bool.and_eq_true] at h
      simp only [List.length_cons, ih vs h.2]

/-- Field-wise equivalence lifted to the field lists. -/
theorem allP_iff_leaves (cf gl : Field → Val → Bool) (Q : Field → Val → Prop) :
    ∀ (fs : List Field) (vs : List Val), (∀ f ∈ fs, ∀ v, cf f v = true → (Q f v ↔ gl f v = true)) →
      jcanonFields cf fs vs = true → (AllP Q fs vs ↔ fieldsLeaves gl fs vs = true) := by
  intro fs
  induction fs with
  | nil => intro vs _ h; cases vs with
    | nil => simp [AllP, fieldsLeaves]
    | cons _ _ => simp [jcanonFields] at h
  | cons f fs ih => intro vs H h; cases vs with
    | nil => simp [jcanonFields] at h
    | cons v vs =>
      simp only [jcanonFields, Bool.and_eq_true] at h
      simp only [AllP, fieldsLeaves, Bool.and_eq_true]
      rw [H f (List.mem_cons_self) v h.1, ih vs (fun g hg => H g (List.mem_cons_of_mem _ hg)) h.2]

/-! ## lists -/

theorem mapOpt_map (g : Json → Option Val) (h : Val → Json) (P : Val → Bool) :
    ∀ (vs : List Val), (∀ v ∈ vs, (g (h v) = some v ↔ P v = true)) →
      (mapOpt g (vs.map h) = some vs ↔ vs.all P = true) := by
  intro vs
  induction vs with
  | nil => intro _; simp [mapOpt]
  | cons v vs ih =>
    intro H
    have ih' := ih (fun x hx => H x (List.mem_cons_of_mem _ hx))
    have hv := H v (List.mem_cons_self)
    simp only [List.map_cons, mapOpt, List.all_cons, Bool.and_eq_true]
    cases hg : g (h v) with
    | none =>
      simp only
      constructor
      · intro h'; exact absurd h' (by simp)
      · intro h'; rw [hg] at hv; exact absurd (hv.2 h'.1) (by simp)
    | some w =>
      simp only
      cases hm : mapOpt g (vs.map h) with
      | none =>
        simp only
        constructor
        · intro h'; exact absurd h' (by simp)
        · intro h'; rw [hm] at ih'; exact absurd (ih'.2 h'.2) (by simp)
      | some ws =>
        simp only [Option.some.injEq, List.cons.injEq]
        rw [hg] at hv
        rw [hm] at ih'
        simp only [Option.some.injEq] at hv ih'
        rw [hv, ih']

theorem listFrom_arr (g : Json → Option Val) (js : List Json) (vs : List Val) :
    listFrom g (.arr js) = some (.list vs) ↔ mapOpt g js = some vs := by
  simp only [listFrom]
  cases mapOpt g js with
  | none => simp
  | some ws => simp

/-! ## leaves -/

theorem u64_rt (n : Nat) (h : n < P64) : u64From (.str (latin1 (natText n))) = some (.varint n) := by
  simp only [u64From, unlatin1_latin1, parseNatText_natText, h, if_true]

theorem int_rt (lo hi : Int) (n : Nat) (h : n < P64) (h1 : lo ≤ toInt n) (h2 : toInt n < hi) :
    intFrom lo hi (.str (latin1 (intText (toInt n)))) = some (.varint n) := by
  simp only [intFrom, unlatin1_latin1, parseIntTextCanon_intText, inRange, h1, h2, decide_true, Bool.and_self, if_true,
    ofInt_toInt n h]

theorem int32_bounds (n : Nat) (h : (n < P31 || (P64 - P31 ≤ n && n < P64)) = true) :
    n < P64 ∧ -(2147483648 : Int) ≤ toInt n ∧ toInt n < 2147483648 := by
  simp only [Bool.or_eq_true, Bool.and_eq_true, decide_eq_true_eq] at h
  unfold toInt
  split <;> omega

theorem int32_rt (n : Nat) (h : (n < P31 || (P64 - P31 ≤ n && n < P64)) = true) :
    intFrom (-2147483648) 2147483648 (.num (toInt n)) = some (.varint n) := by
  have hb := int32_bounds n h
  simp only [intFrom, inRange, hb.2.1, hb.2.2, decide_true, Bool.and_self, if_true, ofInt_toInt n hb.1]

theorem bool_rt (n : Nat) (h : n ≤ 1) : boolFrom (.bool (n != 0)) = some (.varint n) := by
  have : n = 0 ∨ n = 1 := by omega
  cases this with
  | inl h0 => subst h0; rfl
  | inr h1 => subst h1; rfl

theorem enum_iff (J : JsonEnv) (e : String) (n : Nat) :
    enumFrom J e (enumToJson J e n) = some (.varint n) ↔ enumRT J e n = true := by
  unfold enumFrom enumRT
  cases enumFromJson J e (enumToJson J e n) with
  | none => simp
  | some x => simp

theorem str_iff (b : Bytes) : strFrom (.str (strOf b)) = some (.bytes b) ↔ utf8OK b = true := by
  simp only [strFrom, Option.some.injEq, Val.bytes.injEq]
  constructor
  · intro h
    cases hu : utf8OK b with
    | true => rfl
    | false => exact absurd h (strOf_ne b hu)
  · exact utf8Bytes_strOf b

theorem bytes_rt (L : Leaves) (hL : LeavesOK L) (b : Bytes) : bytesFrom L (bytesJson L b) = some (.bytes b) := by
  unfold bytesJson
  cases b with
  | nil => rfl
  | cons x xs => simp only [List.isEmpty_cons, Bool.false_eq_true, if_false, bytesFrom, hL.b64]

theorem sdkInt_rt (i : Int) (h : bigOK 256 i = true) : sdkIntFrom (.str (latin1 (intText i))) = some (.int i) := by
  simp only [sdkIntFrom, unlatin1_latin1, parseIntText_intText, h, if_true]

theorem sdkDec_rt (L : Leaves) (hL : LeavesOK L) (i : Int) (h : bigOK 315 i = true) :
    sdkDecFrom L (.str (L.decText i)) = some (.int i) := by
  simp only [sdkDecFrom, hL.dec i h, h, if_true]

theorem time_rt (L : Leaves) (hL : LeavesOK L) (s n : Nat) (h : timeValid s n = true) :
    timeFrom L (.str (L.timeText s n)) = some (.msg [.varint s, .varint n]) := by
  simp only [timeFrom, hL.time s n h, h, if_true]

theorem dur_rt (L : Leaves) (hL : LeavesOK L) (s n : Nat) (h : durValid s n = true) :
    durFrom L (.str (L.durText s n)) = some (.msg [.varint s, .varint n]) := by
  simp only [durFrom, hL.dur s n h, h, if_true]

theorem allBytes_cons (v : Val) (vs : List Val) (h : allBytes (v :: vs) = true) : ∃ b, v = .bytes b ∧ allBytes vs = true := by
  cases v with
  | bytes b => exact ⟨b, rfl, by simpa [allBytes] using h⟩
  | varint _ => simp [allBytes] at h
  | int _ => simp [allBytes] at h
  | msg _ => simp [allBytes] at h
  | none => simp [allBytes] at h
  | list _ => simp [allBytes] at h

theorem repStr_iff : ∀ (vs : List Val), allBytes vs = true →
    (mapOpt strFrom (vs.map strElem) = some vs ↔ allUtf8 vs = true) := by
  intro vs
  induction vs with
  | nil => intro _; simp [mapOpt, allUtf8]
  | cons v vs ih =>
    intro h
    obtain ⟨b, rfl, hr⟩ := allBytes_cons v vs h
    have ih' := ih hr
    simp only [List.map_cons, mapOpt, strElem, strFrom, allUtf8, Bool.and_eq_true]
    cases hm : mapOpt strFrom (vs.map strElem) with
    | none =>
      simp only
      constructor
      · intro h'; exact absurd h' (by simp)
      · intro h'; rw [hm] at ih'; exact absurd (ih'.2 h'.2) (by simp)
    | some ws =>
      rw [hm] at ih'
      simp only [Option.some.injEq, List.cons.injEq, Val.bytes.injEq] at ih' ⊢
      rw [ih']
      constructor
      · intro h'
        refine ⟨?_, h'.2⟩
        cases hu : utf8OK b with
        | true => rfl
        | false => exact absurd h'.1 (strOf_ne b hu)
      · intro h'; exact ⟨utf8Bytes_strOf b h'.1, h'.2⟩

theorem repBytes_rt (L : Leaves) (hL : LeavesOK L) : ∀ (vs : List Val), allBytes vs = true →
    mapOpt (bytesFrom L) (vs.map (bytesElem L)) = some vs := by
  intro vs
  induction vs with
  | nil => intro _; rfl
  | cons v vs ih =>
    intro h
    obtain ⟨b, rfl, hr⟩ := allBytes_cons v vs h
    simp only [List.map_cons, mapOpt, bytesElem, bytesFrom, hL.b64, ih hr]

/-! ## `Any` and embedded messages -/

theorem resolveAny_some (J : JsonEnv) (env : Env) (u : Bytes) (d : MsgDesc) (h : resolveAny J env u = some d) :
    ∃ t, t ∈ J.anyTypes ∧ u = utf8Bytes ("/" ++ t) ∧ lookup env t = some d := by
  unfold resolveAny at h
  cases hf : J.anyTypes.find? (fun t => utf8Bytes ("/" ++ t) == u) with
  | none => rw [hf] at h; exact absurd h (by simp)
  | some t =>
    rw [hf] at h
    have hm := List.mem_of_find?_eq_some hf
    have hp := List.find?_some hf
    simp only [beq_iff_eq] at hp
    exact ⟨t, hm, hp.symm, h⟩

section
variable (J : JsonEnv) (env : Env) (wfsub : MsgDesc → Bool) (canon : MsgDesc → Val → Bool)
  (sub : MsgDesc → Val → Json) (sub' : MsgDesc → Json → Option Val) (rec : MsgDesc → Val → Bool)

theorem any_iff
    (IH : ∀ d v, wfsub d = true → canon d v = true → (sub' d (sub d v) = some v ↔ rec d v = true))
    (Hobj : ∀ d v, canon d v = true → ∃ kvs, sub d v = .obj kvs)
    (hwf : J.anyTypes.all (fun t => match lookup env t with | some d' => wf env d' && wfsub d' | none => false) = true)
    (v : Val) (hc : anyCanon J env canon v = true) :
    (anyFrom J env sub' (anyJson J env sub v) = some v ↔ anyLeaves J env rec v = true) := by
  -- the shape of a well-formed Any
  unfold anyCanon at hc
  split at hc
  · rename_i u val
    cases hr : resolveAny J env u with
    | none => rw [hr] at hc; exact absurd hc (by simp)
    | some d' =>
      rw [hr] at hc
      simp only at hc
      cases hd : decode env d' val with
      | none => rw [hd] at hc; exact absurd hc (by simp)
      | some v' =>
        rw [hd] at hc
        simp only [Bool.and_eq_true, beq_iff_eq] at hc
        obtain ⟨⟨hcan, henc⟩, hcv⟩ := hc
        obtain ⟨t, ht, hu, hl⟩ := resolveAny_some J env u d' hr
        have hw := List.all_eq_true.1 hwf t ht
        rw [hl] at hw
        simp only [Bool.and_eq_true] at hw
        obtain ⟨kvs, hk⟩ := Hobj d' v' hcv
        have hstr : utf8Bytes (strOf u) = u := by rw [hu, strOf_utf8Bytes]
        simp only [anyJson, anyLeaves, anyInner, hr, hd, hk, addType, anyFrom, getKey_head, hstr]
        rw [← hk]
        constructor
        · intro h
          cases hs : sub' d' (sub d' v') with
          | none => rw [hs] at h; exact absurd h (by simp)
          | some v'' =>
            rw [hs] at h
            simp only at h
            by_cases hc2 : canonical env d' v'' = true
            · simp only [hc2, if_true, Option.some.injEq, Val.msg.injEq, List.cons.injEq, Val.bytes.injEq, true_and, and_true] at h
              -- the re-encoded bytes are the original ones, so the parsed value is the packed one
              have r1 : decode env d' (encode env d' v'') = some v'' := roundtripAt env depthFuel d' v'' hw.1 hc2
              rw [h, hd] at r1
              have : v' = v'' := Option.some.inj r1
              subst this
              exact (IH d' v' hw.2 hcv).1 hs
            · simp only [hc2] at h
              exact absurd h (by simp)
        · intro h
          rw [(IH d' v' hw.2 hcv).2 h]
          simp only [hcan, if_true, henc]
  · exact absurd hc (by simp)

theorem msg_iff
    (IH : ∀ d v, wfsub d = true → canon d v = true → (sub' d (sub d v) = some v ↔ rec d v = true))
    (Hobj : ∀ d v, canon d v = true → ∃ kvs, sub d v = .obj kvs)
    (n : String) (hwf : jmsgWF J env wfsub n = true) (v : Val) (hc : msgCanon J env canon n v = true) :
    (msgFrom J env sub' n (msgJson J env sub n v) = some v ↔ msgLeaves J env rec n v = true) := by
  unfold jmsgWF at hwf
  unfold msgCanon at hc
  unfold msgFrom msgJson msgLeaves
  by_cases hn : n = anyName
  · simp only [hn, if_true] at hwf hc ⊢
    exact any_iff J env wfsub canon sub sub' rec IH Hobj hwf v hc
  · simp only [hn, if_false] at hwf hc ⊢
    cases hl : lookup env n with
    | none => rw [hl] at hwf; exact absurd hwf (by simp)
    | some d =>
      rw [hl] at hwf hc
      exact IH d v hwf hc

/-- A well-formed embedded message (or `Any`) is written as an object, never as `null`. -/
theorem msgJson_obj (Hobj : ∀ d v, canon d v = true → ∃ kvs, sub d v = .obj kvs)
    (n : String) (v : Val) (hc : msgCanon J env canon n v = true) : ∃ kvs, msgJson J env sub n v = .obj kvs := by
  unfold msgCanon at hc
  unfold msgJson
  by_cases hn : n = anyName
  · simp only [hn, if_true] at hc ⊢
    unfold anyCanon at hc
    split at hc
    · rename_i u val
      cases hr : resolveAny J env u with
      | none => rw [hr] at hc; exact absurd hc (by simp)
      | some d' =>
        rw [hr] at hc
        simp only at hc
        cases hd : decode env d' val with
        | none => rw [hd] at hc; exact absurd hc (by simp)
        | some v' =>
          rw [hd] at hc
          simp only [Bool.and_eq_true] at hc
          obtain ⟨kvs, hk⟩ := Hobj d' v' hc.2
          exact ⟨(typeKey, .str (strOf u)) :: kvs, by simp only [anyJson, hr, hd, hk, addType]⟩
    · exact absurd hc (by simp)
  · simp only [hn, if_false] at hc ⊢
    cases hl : lookup env n with
    | none => rw [hl] at hc; exact absurd hc (by simp)
    | some d =>
      rw [hl] at hc
      exact Hobj d v hc

theorem onVarint_true (p : Nat → Bool) (v : Val) (h : onVarint false p v = true) : ∃ n, v = .varint n ∧ p n = true := by
  cases v <;> simp only [onVarint, Bool.false_eq_true] at h
  exact ⟨_, rfl, h⟩

theorem onInt_true (p : Int → Bool) (v : Val) (h : onInt false p v = true) : ∃ i, v = .int i ∧ p i = true := by
  cases v <;> simp only [onInt, Bool.false_eq_true] at h
  exact ⟨_, rfl, h⟩

theorem onBytes_true (p : Bytes → Bool) (v : Val) (h : onBytes false p v = true) : ∃ b, v = .bytes b ∧ p b = true := by
  cases v <;> simp only [onBytes, Bool.false_eq_true] at h
  exact ⟨_, rfl, h⟩

theorem onList_true (p : List Val → Bool) (v : Val) (h : onList false p v = true) : ∃ vs, v = .list vs ∧ p vs = true := by
  cases v <;> simp only [onList, Bool.false_eq_true] at h
  exact ⟨_, rfl, h⟩

theorem onPair_true (p : Nat → Nat → Bool) (v : Val) (h : onPair false p v = true) :
    ∃ s n, v = .msg [.varint s, .varint n] ∧ p s n = true := by
  unfold onPair at h
  split at h
  · exact ⟨_, _, rfl, h⟩
  · exact absurd h (by simp)

/-- One field: its member is read back as its value exactly when its leaves (its own, if it is a scalar; those
below it, if it is a message) are fine. -/
theorem field_iff (hL : LeavesOK J.leaves)
    (IH : ∀ d v, wfsub d = true → canon d v = true → (sub' d (sub d v) = some v ↔ rec d v = true))
    (Hobj : ∀ d v, canon d v = true → ∃ kvs, sub d v = .obj kvs)
    (f : Field) (v : Val) (hwf : jfieldWF J env wfsub f = true) (hc : jcanonField J env canon f v = true) :
    (fieldFrom J env sub' f (fieldJson J env sub f v) = some v ↔
      fieldLeaves J env (bothLeaf J) rec f v = true) := by
  have M := msg_iff J env wfsub canon sub sub' rec IH Hobj
  cases hcls : f.jcls with
  | u64 =>
    simp only [jcanonField, hcls] at hc
    obtain ⟨n, rfl, hp⟩ := onVarint_true _ v hc
    simp only [decide_eq_true_eq] at hp
    simp only [fieldFrom, fieldJson, fieldLeaves, hcls, onVarint, u64_rt n hp, bothLeaf, enumLeaf, utf8Leaf, Bool.and_self]
  | i64 =>
    simp only [jcanonField, hcls] at hc
    obtain ⟨n, rfl, hp⟩ := onVarint_true _ v hc
    simp only [decide_eq_true_eq] at hp
    have hb := toInt_bounds n hp
    simp only [fieldFrom, fieldJson, fieldLeaves, hcls, onVarint, int_rt _ _ n hp hb.1 hb.2, bothLeaf, enumLeaf, utf8Leaf,
      Bool.and_self]
  | i32 =>
    simp only [jcanonField, hcls] at hc
    obtain ⟨n, rfl, hp⟩ := onVarint_true _ v hc
    simp only [rangeOK] at hp
    simp only [fieldFrom, fieldJson, fieldLeaves, hcls, onVarint, int32_rt n hp, bothLeaf, enumLeaf, utf8Leaf, Bool.and_self]
  | bool =>
    simp only [jcanonField, hcls] at hc
    obtain ⟨n, rfl, hp⟩ := onVarint_true _ v hc
    simp only [decide_eq_true_eq] at hp
    simp only [fieldFrom, fieldJson, fieldLeaves, hcls, onVarint, bool_rt n hp, bothLeaf, enumLeaf, utf8Leaf, Bool.and_self]
  | enum e =>
    simp only [jcanonField, hcls] at hc
    obtain ⟨n, rfl, _⟩ := onVarint_true _ v hc
    simp only [fieldFrom, fieldJson, fieldLeaves, hcls, onVarint, enum_iff, bothLeaf, enumLeaf, utf8Leaf, Bool.and_true]
  | str =>
    simp only [jcanonField, hcls] at hc
    obtain ⟨b, rfl, _⟩ := onBytes_true _ v hc
    simp only [fieldFrom, fieldJson, fieldLeaves, hcls, strElem, str_iff, bothLeaf, enumLeaf, utf8Leaf, Bool.true_and]
  | bytes =>
    simp only [jcanonField, hcls] at hc
    obtain ⟨b, rfl, _⟩ := onBytes_true _ v hc
    simp only [fieldFrom, fieldJson, fieldLeaves, hcls, onBytes, bytes_rt J.leaves hL b, bothLeaf, enumLeaf, utf8Leaf,
      Bool.and_self]
  | sdkInt =>
    simp only [jcanonField, hcls] at hc
    obtain ⟨i, rfl, hp⟩ := onInt_true _ v hc
    simp only [fieldFrom, fieldJson, fieldLeaves, hcls, onInt, sdkInt_rt i hp, bothLeaf, enumLeaf, utf8Leaf, Bool.and_self]
  | sdkDec =>
    simp only [jcanonField, hcls] at hc
    obtain ⟨i, rfl, hp⟩ := onInt_true _ v hc
    simp only [fieldFrom, fieldJson, fieldLeaves, hcls, onInt, sdkDec_rt J.leaves hL i hp, bothLeaf, enumLeaf, utf8Leaf,
      Bool.and_self]
  | repStr =>
    simp only [jcanonField, hcls] at hc
    obtain ⟨vs, rfl, hp⟩ := onList_true _ v hc
    simp only [fieldFrom, fieldJson, fieldLeaves, hcls, onList, listFrom_arr, repStr_iff vs hp, bothLeaf, enumLeaf, utf8Leaf,
      Bool.true_and]
  | repBytes =>
    simp only [jcanonField, hcls] at hc
    obtain ⟨vs, rfl, hp⟩ := onList_true _ v hc
    simp only [fieldFrom, fieldJson, fieldLeaves, hcls, onList, listFrom_arr, repBytes_rt J.leaves hL vs hp, bothLeaf, enumLeaf,
      utf8Leaf, Bool.and_self]
  | msg n =>
    simp only [jfieldWF, hcls] at hwf
    simp only [jcanonField, hcls] at hc
    simp only [fieldFrom, fieldJson, fieldLeaves, hcls]
    exact M n hwf v hc
  | optMsg n =>
    simp only [jfieldWF, hcls] at hwf
    simp only [jcanonField, hcls] at hc
    simp only [fieldFrom, fieldJson, fieldLeaves, hcls]
    have key : ∀ w : Val, w ≠ .none → msgCanon J env canon n w = true →
        (optFrom (msgFrom J env sub' n) (msgJson J env sub n w) = some w ↔ msgLeaves J env rec n w = true) := by
      intro w _ hw
      obtain ⟨kvs, hk⟩ := msgJson_obj J env canon sub Hobj n w hw
      have := M n hwf w hw
      rw [hk] at this ⊢
      simpa only [optFrom] using this
    cases v with
    | none => simp only [onOpt, optFrom]
    | varint x => simp only [onOpt] at hc ⊢; exact key _ (by simp) hc
    | bytes x => simp only [onOpt] at hc ⊢; exact key _ (by simp) hc
    | int x => simp only [onOpt] at hc ⊢; exact key _ (by simp) hc
    | msg x => simp only [onOpt] at hc ⊢; exact key _ (by simp) hc
    | list x => simp only [onOpt] at hc ⊢; exact key _ (by simp) hc
  | repMsg n =>
    simp only [jfieldWF, hcls] at hwf
    simp only [jcanonField, hcls] at hc
    obtain ⟨vs, rfl, hp⟩ := onList_true _ v hc
    simp only [fieldFrom, fieldJson, fieldLeaves, hcls, onList, listFrom_arr]
    exact mapOpt_map _ _ _ vs (fun v hv => M n hwf v (List.all_eq_true.1 hp v hv))
  | time =>
    simp only [jcanonField, hcls] at hc
    obtain ⟨a, b, rfl, hp⟩ := onPair_true _ v hc
    simp only [fieldFrom, fieldJson, fieldLeaves, hcls, onPair, time_rt J.leaves hL a b hp, bothLeaf, enumLeaf, utf8Leaf,
      Bool.and_self]
  | dur =>
    simp only [jcanonField, hcls] at hc
    obtain ⟨a, b, rfl, hp⟩ := onPair_true _ v hc
    simp only [fieldFrom, fieldJson, fieldLeaves, hcls, onPair, dur_rt J.leaves hL a b hp, bothLeaf, enumLeaf, utf8Leaf,
      Bool.and_self]
  | bad => simp [jfieldWF, hcls] at hwf

end

/-! ## messages -/

theorem toJsonAt_obj (J : JsonEnv) (env : Env) (k : Nat) (d : MsgDesc) (v : Val) (h : jcanonAt J env k d v = true) :
    ∃ kvs, toJsonAt J env k d v = .obj kvs := by
  cases k with
  | zero => simp [jcanonAt] at h
  | succ k =>
    cases v with
    | msg vs => exact ⟨_, rfl⟩
    | varint _ => simp [jcanonAt] at h
    | bytes _ => simp [jcanonAt] at h
    | int _ => simp [jcanonAt] at h
    | none => simp [jcanonAt] at h
    | list _ => simp [jcanonAt] at h

theorem fromObj_iff (X : Option (List Val × List (String × Json))) (vs : List Val) :
    msgOfFields X = some (Val.msg vs) ↔ X = some (vs, []) := by
  cases X with
  | none => simp [msgOfFields]
  | some p =>
    obtain ⟨ws, r⟩ := p
    cases r with
    | nil => simp [msgOfFields]
    | cons a r => simp [msgOfFields]

/-- **JSON round trip, fuel-indexed**: for a supported descriptor and a well-typed value, `UnmarshalJSON(MarshalJSON(v))`
into a fresh message yields `v` exactly when every enum-typed field of `v` has a value whose printed name parses
back and every `string` field is well-formed UTF-8 (`bothLeaf`), recursively. -/
theorem roundtripAt_iff (J : JsonEnv) (env : Env) (hL : LeavesOK J.leaves) :
    ∀ (k : Nat) (d : MsgDesc) (v : Val), jwfAt J env k d = true → jcanonAt J env k d v = true →
      (fromJsonAt J env k d (toJsonAt J env k d v) = some v ↔ allLeavesAt J env (bothLeaf J) k d v = true) := by
  intro k
  induction k with
  | zero => intro d v h; simp [jwfAt] at h
  | succ k ih =>
    intro d v hwf hc
    cases v with
    | msg vs =>
      simp only [jwfAt, Bool.and_eq_true, List.all_eq_true] at hwf
      simp only [jcanonAt] at hc
      simp only [toJsonAt, fromJsonAt, allLeavesAt, fromObj_iff]
      rw [fieldsFrom_fieldsJson _ _ _ d.fields vs (jcanonFields_length _ _ _ hc)]
      exact allP_iff_leaves _ _ _ d.fields vs
        (fun f hf w hw => field_iff J env (jwfAt J env k) (jcanonAt J env k) (toJsonAt J env k) (fromJsonAt J env k)
          (allLeavesAt J env (bothLeaf J) k) hL ih (toJsonAt_obj J env k) f w (hwf.2 f hf) hw) hc
    | varint _ => simp [jcanonAt] at hc
    | bytes _ => simp [jcanonAt] at hc
    | int _ => simp [jcanonAt] at hc
    | none => simp [jcanonAt] at hc
    | list _ => simp [jcanonAt] at hc

/-! ## the leaf conditions: conjunction, descriptors without enums, independence of the leaves -/

theorem anyInner_some (J : JsonEnv) (env : Env) (v : Val) (d' : MsgDesc) (v' : Val) (h : anyInner J env v = some (d', v')) :
    ∃ t, t ∈ J.anyTypes ∧ lookup env t = some d' := by
  unfold anyInner at h
  split at h
  · rename_i u val
    cases hr : resolveAny J env u with
    | none => rw [hr] at h; exact absurd h (by simp)
    | some d'' =>
      rw [hr] at h
      simp only at h
      cases hd : decode env d'' val with
      | none => rw [hd] at h; exact absurd h (by simp)
      | some v'' =>
        rw [hd] at h
        simp only [Option.some.injEq, Prod.mk.injEq] at h
        obtain ⟨t, ht, _, hl⟩ := resolveAny_some J env u d'' hr
        exact ⟨t, ht, by rw [← h.1]; exact hl⟩
  · exact absurd h (by simp)

theorem all_and (a b : Val → Bool) (vs : List Val) :
    vs.all (fun v => a v && b v) = (vs.all a && vs.all b) := by
  induction vs with
  | nil => rfl
  | cons v vs ih =>
    simp only [List.all_cons, ih]
    cases a v <;> cases b v <;> cases vs.all a <;> cases vs.all b <;> rfl

section
variable (J : JsonEnv) (env : Env)

theorem msgLeaves_and (r ra rb : MsgDesc → Val → Bool) (H : ∀ d v, r d v = (ra d v && rb d v)) (n : String) (v : Val) :
    msgLeaves J env r n v = (msgLeaves J env ra n v && msgLeaves J env rb n v) := by
  unfold msgLeaves
  by_cases hn : n = anyName
  · simp only [hn, if_true, anyLeaves]
    cases anyInner J env v with
    | none => rfl
    | some p => exact H p.1 p.2
  · simp only [hn, if_false]
    cases lookup env n with
    | none => rfl
    | some d => exact H d v

theorem fieldLeaves_and (P Q : JCls → Val → Bool) (r ra rb : MsgDesc → Val → Bool) (H : ∀ d v, r d v = (ra d v && rb d v))
    (f : Field) (v : Val) :
    fieldLeaves J env (fun c v => P c v && Q c v) r f v = (fieldLeaves J env P ra f v && fieldLeaves J env Q rb f v) := by
  have M := msgLeaves_and J env r ra rb H
  unfold fieldLeaves
  cases f.jcls with
  | msg n => exact M n v
  | optMsg n => cases v <;> simp only [onOpt, M, Bool.and_self]
  | repMsg n =>
    cases v <;> simp only [onList, Bool.and_self]
    rename_i vs
    rw [← all_and]
    congr 1
    funext w
    exact M n w
  | _ => rfl

theorem fieldsLeaves_and (fl fa fb : Field → Val → Bool) (H : ∀ f v, fl f v = (fa f v && fb f v)) :
    ∀ (fs : List Field) (vs : List Val), fieldsLeaves fl fs vs = (fieldsLeaves fa fs vs && fieldsLeaves fb fs vs) := by
  intro fs
  induction fs with
  | nil => intro vs; rfl
  | cons f fs ih =>
    intro vs
    cases vs with
    | nil => rfl
    | cons v vs =>
      simp only [fieldsLeaves, H f v, ih vs]
      cases fa f v <;> cases fb f v <;> cases fieldsLeaves fa fs vs <;> cases fieldsLeaves fb fs vs <;> rfl

/-- The two leaf conditions can be checked separately. -/
theorem allLeavesAt_and (P Q : JCls → Val → Bool) : ∀ (k : Nat) (d : MsgDesc) (v : Val),
    allLeavesAt J env (fun c v => P c v && Q c v) k d v = (allLeavesAt J env P k d v && allLeavesAt J env Q k d v) := by
  intro k
  induction k with
  | zero => intro d v; rfl
  | succ k ih =>
    intro d v
    cases v with
    | msg vs =>
      simp only [allLeavesAt]
      exact fieldsLeaves_and _ _ _ (fieldLeaves_and J env P Q _ _ _ ih) d.fields vs
    | varint _ => rfl
    | bytes _ => rfl
    | int _ => rfl
    | none => rfl
    | list _ => rfl

theorem msgLeaves_of_noEnum (sub : MsgDesc → Bool) (r : MsgDesc → Val → Bool) (H : ∀ d v, sub d = true → r d v = true)
    (n : String) (h : noEnumMsg J env sub n = true) (v : Val) : msgLeaves J env r n v = true := by
  unfold noEnumMsg at h
  unfold msgLeaves
  by_cases hn : n = anyName
  · simp only [hn, if_true, anyLeaves] at h ⊢
    cases hi : anyInner J env v with
    | none => rfl
    | some p =>
      obtain ⟨d', v'⟩ := p
      obtain ⟨t, ht, hl⟩ := anyInner_some J env v d' v' hi
      have := List.all_eq_true.1 h t ht
      rw [hl] at this
      exact H d' v' this
  · simp only [hn, if_false] at h ⊢
    cases hl : lookup env n with
    | none => rfl
    | some d => rw [hl] at h; exact H d v h

/-- In a value of a descriptor without enum-typed fields every leaf condition that only constrains enum fields holds. -/
theorem allLeavesAt_of_noEnum (P : JCls → Val → Bool) (hP : ∀ c v, (∀ e, c ≠ .enum e) → P c v = true) :
    ∀ (k : Nat) (d : MsgDesc) (v : Val), noEnumAt J env k d = true → allLeavesAt J env P k d v = true := by
  intro k
  induction k with
  | zero => intro d v _; rfl
  | succ k ih =>
    intro d v h
    simp only [noEnumAt, List.all_eq_true] at h
    cases v with
    | msg vs =>
      simp only [allLeavesAt]
      have key : ∀ (fs : List Field) (ws : List Val), (∀ f ∈ fs, noEnumField J env (noEnumAt J env k) f = true) →
          fieldsLeaves (fieldLeaves J env P (allLeavesAt J env P k)) fs ws = true := by
        intro fs
        induction fs with
        | nil => intro ws _; rfl
        | cons f fs ihf =>
          intro ws hf
          cases ws with
          | nil => rfl
          | cons w ws =>
            simp only [fieldsLeaves, Bool.and_eq_true]
            refine ⟨?_, ihf ws (fun g hg => hf g (List.mem_cons_of_mem _ hg))⟩
            have h1 := hf f (List.mem_cons_self)
            have M := msgLeaves_of_noEnum J env (noEnumAt J env k) (allLeavesAt J env P k) (fun d v hd => ih d v hd)
            unfold noEnumField at h1
            unfold fieldLeaves
            cases hcls : f.jcls with
            | enum e => rw [hcls] at h1; exact absurd h1 (by simp)
            | msg n => rw [hcls] at h1; exact M n h1 w
            | optMsg n =>
              rw [hcls] at h1
              cases w <;> simp only [onOpt]
              all_goals exact M n h1 _
            | repMsg n =>
              rw [hcls] at h1
              cases w <;> simp only [onList]
              rename_i xs
              exact List.all_eq_true.2 (fun x _ => M n h1 x)
            | _ => exact hP _ _ (by intro e; simp)
      exact key d.fields vs h
    | varint _ => rfl
    | bytes _ => rfl
    | int _ => rfl
    | none => rfl
    | list _ => rfl

end

/-- `jwfAt` and `noEnumAt` do not look at the leaves. -/
theorem jwfAt_congr (J J' : JsonEnv) (env : Env) (h1 : J.enums = J'.enums) (h2 : J.anyTypes = J'.anyTypes) :
    ∀ (k : Nat) (d : MsgDesc), jwfAt J env k d = jwfAt J' env k d := by
  intro k
  induction k with
  | zero => intro d; rfl
  | succ k ih =>
    intro d
    have e : jwfAt J env k = jwfAt J' env k := funext ih
    simp only [jwfAt, e]
    congr 1
    apply List.all_congr rfl
    intro f
    unfold jfieldWF jmsgWF findEnum
    rw [h1, h2]

theorem noEnumAt_congr (J J' : JsonEnv) (env : Env) (h2 : J.anyTypes = J'.anyTypes) :
    ∀ (k : Nat) (d : MsgDesc), noEnumAt J env k d = noEnumAt J' env k d := by
  intro k
  induction k with
  | zero => intro d; rfl
  | succ k ih =>
    intro d
    have e : noEnumAt J env k = noEnumAt J' env k := funext ih
    simp only [noEnumAt, e]
    apply List.all_congr rfl
    intro f
    unfold noEnumField noEnumMsg
    rw [h2]

/-! ## the object written for a message is a finite map -/

theorem fieldsJson_keys (fj : Field → Val → Json) : ∀ (fs : List Field) (vs : List Val), fs.length = vs.length →
    (fieldsJson fj fs vs).map Prod.fst = fs.map (·.name) := by
  intro fs
  induction fs with
  | nil => intro vs _; cases vs <;> rfl
  | cons f fs ih =>
    intro vs hl
    cases vs with
    | nil => simp at hl
    | cons v vs => simp only [fieldsJson, List.map_cons, ih vs (by simpa using hl)]

theorem namesOK_nodup : ∀ (ns : List String), namesOK ns = true → ns.Nodup ∧ typeKey ∉ ns := by
  intro ns
  induction ns with
  | nil => intro _; exact ⟨List.nodup_nil, by simp⟩
  | cons n ns ih =>
    intro h
    simp only [namesOK, Bool.and_eq_true, bne_iff_ne, ne_eq, Bool.not_eq_true', List.contains_eq_mem, decide_eq_false_iff_not] at h
    obtain ⟨⟨h1, h2⟩, h3⟩ := h
    have := ih h3
    refine ⟨List.nodup_cons.2 ⟨h2, this.1⟩, ?_⟩
    simp only [List.mem_cons, not_or]
    exact ⟨fun e => h1 e.symm, this.2⟩

/-- The object written for a message has pairwise distinct member names, none of them `"@type"`: it is a finite map
(so the first-match reading of `getKey` and Go's last-match reading of a JSON object agree on it), and prefixing
`"@type"` for an `Any` keeps it one. -/
theorem toJsonAt_members_distinct (J : JsonEnv) (env : Env) (k : Nat) (d : MsgDesc) (v : Val)
    (hwf : jwfAt J env k d = true) (hc : jcanonAt J env k d v = true) :
    ∃ kvs, toJsonAt J env k d v = .obj kvs ∧ (kvs.map Prod.fst).Nodup ∧ typeKey ∉ kvs.map Prod.fst := by
  cases k with
  | zero => simp [jwfAt] at hwf
  | succ k =>
    cases v with
    | msg vs =>
      simp only [jwfAt, Bool.and_eq_true] at hwf
      simp only [jcanonAt] at hc
      refine ⟨_, rfl, ?_⟩
      rw [fieldsJson_keys _ _ _ (jcanonFields_length _ _ _ hc)]
      exact namesOK_nodup _ hwf.1
    | varint _ => simp [jcanonAt] at hc
    | bytes _ => simp [jcanonAt] at hc
    | int _ => simp [jcanonAt] at hc
    | none => simp [jcanonAt] at hc
    | list _ => simp [jcanonAt] at hc

/-! ## the `Status` leaf, over the regenerated tables -/

/-- The text starts with a byte that is neither a digit nor `-`. -/
def notNumStart (s : String) : Bool :=
  match unlatin1 s with
  | c :: _ => (digitVal c).isNone && c.toNat != 45
  | [] => false

/-- Such a text is not the decimal rendering of an integer. -/
theorem not_intText (s : String) (h : notNumStart s = true) (i : Int) : (unlatin1 s == intText i) = false := by
  unfold notNumStart at h
  cases hs : unlatin1 s with
  | nil => rw [hs] at h; exact absurd h (by simp)
  | cons c cs =>
    rw [hs] at h
    simp only [Bool.and_eq_true, Option.isNone_iff_eq_none, bne_iff_ne, ne_eq] at h
    obtain ⟨hd, h45⟩ := h
    cases hb : c :: cs == intText i with
    | false => rfl
    | true =>
      have e : intText i = c :: cs := (beq_iff_eq.1 hb).symm
      have hp := parseIntTextCanon_intText i
      rw [e] at hp
      have hn : parseNatText (c :: cs) = none := by
        simp only [parseNatText, parseDigits, hd]
        split <;> rfl
      simp only [parseIntTextCanon, h45, if_false, hn] at hp
      exact absurd hp (by simp)

open Hub.Generated in
/-- What `Status.String()` can print: four words. -/
theorem statusPrint_cases (i : Int) :
    statusPrint i = "active" ∨ statusPrint i = "inactive_pending" ∨ statusPrint i = "inactive" ∨ statusPrint i = "unspecified" := by
  unfold statusPrint
  cases (Status.ofInt32 i).getD .StatusUnspecified <;> simp [Status.String]

theorem findEnum_hub (L : Leaves) (e : String) :
    findEnum (hubJ L) e = if (statusEnum.name == e) = true then some statusEnum else none := by
  simp only [findEnum, hubJ, hubEnums, List.find?]
  cases statusEnum.name == e <;> rfl

/-- None of the four words is a number, none is a key of the regenerated `Status_value` table. -/
theorem statusWord (s : String) (hs : s = "active" ∨ s = "inactive_pending" ∨ s = "inactive" ∨ s = "unspecified") (i : Int) :
    (unlatin1 s == intText i) = false ∧ List.find? (fun p => p.1 == s) statusEnum.values = none := by
  rcases hs with rfl | rfl | rfl | rfl
  · exact ⟨not_intText _ (by decide) i, by decide⟩
  · exact ⟨not_intText _ (by decide) i, by decide⟩
  · exact ⟨not_intText _ (by decide) i, by decide⟩
  · exact ⟨not_intText _ (by decide) i, by decide⟩

/-- **F7, for every `int32`**: whatever value a `Status` field holds — declared or not, zero included — the text
jsonpb writes for it (`String()`, quoted) is not a key of the regenerated `Status_value` table.  (An enum name other
than `Status` is not in the hub's table at all and reads back nothing either.) -/
theorem status_never (L : Leaves) (e : String) (x : Nat) : enumRT (hubJ L) e x = false := by
  unfold enumRT
  by_cases hn : (statusEnum.name == e) = true
  · have hw := statusWord (statusEnum.print (toInt x)) (statusPrint_cases (toInt x)) (toInt x)
    have h1 : enumToJson (hubJ L) e x = .str (statusEnum.print (toInt x)) := by
      simp only [enumToJson, findEnum_hub, hn, if_true, hw.1, Bool.false_eq_true, if_false]
    rw [h1]
    simp only [enumFromJson, findEnum_hub, hn, if_true, hw.2]
    rfl
  · have h1 : enumToJson (hubJ L) e x = .str "" := by
      simp only [enumToJson, findEnum_hub, hn, Bool.false_eq_true, if_false]
    rw [h1]
    simp only [enumFromJson, findEnum_hub, hn, Bool.false_eq_true, if_false]
    rfl

end Hub.SDK.ProtoJson
