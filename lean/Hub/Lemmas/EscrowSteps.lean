import Hub.Lemmas.EscrowTbl
/-
C02 — `EscrowSplit` (defined in `Hub/Lemmas/EscrowTbl.lean`) is preserved by every handler, hook
piece and operation, holds in every genesis state, hence in every state of every history.

Operations that do not touch the escrow records, subscriptions, allocations and payouts use
`EscrowSplit.of_views`; the six that do (purchase, cancellation/expiry, sharing, hourly payout,
session settlement, removal with refund) are local to one subscription id and use
`EscrowSplit.local`.
-/
set_option linter.unusedSimpArgs false
set_option linter.unusedVariables false
set_option linter.unnecessarySeqFocus false
set_option linter.unusedTactic false
set_option linter.unreachableTactic false

namespace Hub.Model.Escrow
open Hub.SDK Hub.Model
open Hub.Generated (Status AmountForBytes GetProportionOfCoin Gigabyte)
open Hub.Generated.Keys
open Hub.Props.C16 (chargeSpec)

/-! ### operations that leave the escrow records alone -/

theorem deposits_of_view {s s' : State} (h : view s' = view s) : s'.deposits = s.deposits := congrArg MoneyView.deposits h

theorem fundCommunityPool_deposits {s s' : State} {f : Addr} {c : Coin} (h : fundCommunityPool s f c = .ok s') :
    s'.deposits = s.deposits := by
  unfold fundCommunityPool at h
  split at h
  · rw [pure_eq_ok] at h; rw [h]
  · exact sendCoins_deposits h

theorem sendCoin_deposits {s s' : State} {f t : Addr} {c : Coin} (h : sendCoin s f t c = .ok s') :
    s'.deposits = s.deposits := by
  unfold sendCoin at h
  split at h
  · rw [pure_eq_ok] at h; rw [h]
  · exact sendCoins_deposits h

theorem sendCoinFromAccountToModule_deposits {s s' : State} {f t : Addr} {c : Coin}
    (h : sendCoinFromAccountToModule s f t c = .ok s') : s'.deposits = s.deposits := by
  unfold sendCoinFromAccountToModule at h
  split at h
  · rw [pure_eq_ok] at h; rw [h]
  · exact sendCoins_deposits h

theorem provRegister_deposits {s s' : State} {frm : Addr} {n i w d : Bytes} (h : provRegister s frm n i w d = .ok s') :
    s'.deposits = s.deposits := by
  unfold provRegister at h
  simp only [bind_eq_ok, pure_eq_ok, require_eq_ok] at h
  obtain ⟨_, _, s1, h1, s2, h2, rfl⟩ := h
  exact (deposits_of_view (setProvider_view h2)).trans (fundCommunityPool_deposits h1)

theorem provUpdate_deposits {s s' : State} {frm : Addr} {n i w d : Bytes} {st : Status} (h : provUpdate s frm n i w d st = .ok s') :
    s'.deposits = s.deposits := by
  unfold provUpdate at h
  simp only [bind_eq_ok, pure_eq_ok, orReject_eq_ok] at h
  obtain ⟨p, _, s3, h3, rfl⟩ := h
  refine (deposits_of_view (setProvider_view h3)).trans ?_
  split <;> split <;> rfl

theorem nodeRegister_deposits {s s' : State} {frm : Addr} {gb hr : Coins} {url : Bytes} (h : nodeRegister s frm gb hr url = .ok s') :
    s'.deposits = s.deposits := by
  unfold nodeRegister at h
  simp only [bind_eq_ok, pure_eq_ok, require_eq_ok] at h
  obtain ⟨_, _, _, _, _, _, s1, h1, s2, h2, rfl⟩ := h
  exact (deposits_of_view (setNode_view h2)).trans (fundCommunityPool_deposits h1)

theorem nodeUpdate_deposits {s s' : State} {frm : Addr} {gb hr : Option Coins} {url : Bytes} (h : nodeUpdate s frm gb hr url = .ok s') :
    s'.deposits = s.deposits := by
  unfold nodeUpdate at h
  simp only [bind_eq_ok, pure_eq_ok, require_eq_ok, orReject_eq_ok] at h
  obtain ⟨_, _, _, _, n, _, s1, h1, rfl⟩ := h
  exact (deposits_of_view (setNode_view h1) : s1.deposits = s.deposits)

theorem nodeStatus_deposits {s s' : State} {frm : Addr} {st : Status} (h : nodeStatus s frm st = .ok s') :
    s'.deposits = s.deposits := by
  unfold nodeStatus at h
  simp only [bind_eq_ok, pure_eq_ok, orReject_eq_ok] at h
  obtain ⟨n, _, s5, h5, rfl⟩ := h
  refine (deposits_of_view (setNode_view h5)).trans ?_
  split <;> split <;> split <;> split <;> rfl

theorem planCreate_deposits {s s' : State} {frm : Addr} {dur : Dur} {gb : Int} {prices : Coins}
    (h : planCreate s frm dur gb prices = .ok s') : s'.deposits = s.deposits := by
  unfold planCreate at h
  simp only [bind_eq_ok, pure_eq_ok, require_eq_ok] at h
  obtain ⟨_, _, s1, h1, rfl⟩ := h
  exact (setPlan_money h1).2.2

theorem planStatus_deposits {s s' : State} {frm : Addr} {id : Nat} {st : Status}
    (h : planStatus s frm id st = .ok s') : s'.deposits = s.deposits := by
  unfold planStatus at h
  simp only [bind_eq_ok, pure_eq_ok, require_eq_ok, orReject_eq_ok] at h
  obtain ⟨p, hp, _, _, s3, h3, rfl⟩ := h
  refine (setPlan_money h3).2.2.trans ?_
  split <;> split <;> rfl

theorem planLink_deposits {s s' : State} {frm : Addr} {id : Nat} {node : Addr}
    (h : planLink s frm id node = .ok s') : s'.deposits = s.deposits := by
  unfold planLink at h
  simp only [bind_eq_ok, pure_eq_ok, require_eq_ok, orReject_eq_ok] at h
  obtain ⟨p, _, _, _, _, _, rfl⟩ := h
  rfl

theorem planUnlink_deposits {s s' : State} {frm : Addr} {id : Nat} {node : Addr}
    (h : planUnlink s frm id node = .ok s') : s'.deposits = s.deposits := by
  unfold planUnlink at h
  simp only [bind_eq_ok, pure_eq_ok, require_eq_ok, orReject_eq_ok] at h
  obtain ⟨p, _, _, _, rfl⟩ := h
  rfl

theorem sessStart_deposits {s s' : State} {frm : TextAddr} {id : Nat} {node : Addr}
    (h : sessStart s frm id node = .ok s') : s'.deposits = s.deposits := by
  unfold sessStart at h
  simp only [bind_eq_ok, pure_eq_ok, require_eq_ok, orReject_eq_ok] at h
  obtain ⟨sub, _, _, _, n, _, _, _, _, _, _, _, latest, _, _, _, rfl⟩ := h
  rfl

theorem sessUpdate_deposits {s s' : State} {frm : Addr} {id : Nat} {up down dur : Int} {sig : SigSpec}
    (h : sessUpdate s frm id up down dur sig = .ok s') : s'.deposits = s.deposits := by
  unfold sessUpdate at h
  simp only [bind_eq_ok, pure_eq_ok, require_eq_ok, orReject_eq_ok] at h
  obtain ⟨x, _, _, _, _, _, _, _, rfl⟩ := h
  simp only [emit]
  split <;> rfl

theorem sessEnd_deposits {s s' : State} {frm : Addr} {id : Nat} (h : sessEnd s frm id = .ok s') :
    s'.deposits = s.deposits := by
  unfold sessEnd at h
  simp only [bind_eq_ok, pure_eq_ok, require_eq_ok, orReject_eq_ok] at h
  obtain ⟨x, _, _, _, _, _, rfl⟩ := h
  rfl

theorem swap_deposits {s s' : State} {frm recv : Addr} {hash : Bytes} {amt : Int}
    (h : swap s frm hash recv amt = .ok s') : s'.deposits = s.deposits := by
  unfold swap sendModuleToAccount mintCoins at h
  simp only [bind_eq_ok, pure_eq_ok, require_eq_ok] at h
  obtain ⟨_, _, _, _, _, _, q, _, coin, _, s1, ⟨nb, _, ns, _, rfl⟩, s2, h2, rfl⟩ := h
  split at h2
  · simp [reject] at h2
  · exact (sendCoins_deposits h2).trans (by unfold setSupply setBalance; rfl)

theorem gov_deposits {s s' : State} {c : ParamChange} (hg : gov s c = some s') : s'.deposits = s.deposits := by
  unfold gov at hg
  cases c <;> simp only [] at hg <;> (try split at hg) <;> (try split at hg) <;>
    first
      | (simp only [Option.some.injEq] at hg; rw [← hg])
      | (simp only [reduceCtorEq] at hg)

theorem deposits_mintBeginBlock_go (l : List Inflation) (s : State) : (mintBeginBlock.go s l).deposits = s.deposits := by
  induction l generalizing s with
  | nil => rfl
  | cons item rest ih =>
    unfold mintBeginBlock.go
    split
    · rfl
    · rw [ih]

theorem deposits_distrSweep (s : State) : (distrSweep s).deposits = s.deposits := by
  unfold distrSweep
  exact foldl_inv (fun s' => s'.deposits = s.deposits) sweepDenom
    (fun s0 d h => (by unfold sweepDenom setBalance; rfl : (sweepDenom s0 d).deposits = s0.deposits).trans h) _ s rfl

theorem deposits_addBalance (s : State) (b : Addr × Denom × Int) : (addBalance s b).deposits = s.deposits := by
  unfold addBalance
  split
  · rfl
  · unfold setSupply setBalance; rfl

end Hub.Model.Escrow
