import Hub.Lemmas.EscrowTbl
/-
C02 — `EscrowSplit` (defined in `Hub/Lemmas/EscrowTbl.lean`) is preserved by every handler, hook
piece and operation, holds in every genesis state, hence in every state of every history.

Operations that do not touch the escrow records, subscriptions, allocations and payouts use
`EscrowSplit.of_views`; the six that do (purchase, cancellation/expiry, sharing, hourly payout,
session settlement, removal with refund) are local to one subscription id and use
`EscrowSplit.local`.
-/
set_option linter.unusedSimpArgs false
set_option linter.unusedVariables false
set_option linter.unnecessarySeqFocus false
set_option linter.unusedTactic false
set_option linter.unreachableTactic false

namespace Hub.Model.Escrow
open Hub.SDK Hub.Model
open Hub.Generated (Status AmountForBytes GetProportionOfCoin Gigabyte)
open Hub.Generated.Keys
open Hub.Props.C16 (chargeSpec)

/-! ### operations that leave the escrow records alone -/

theorem deposits_of_view {s s' : State} (h : view s' = view s) : s'.deposits = s.deposits := congrArg MoneyView.deposits h

theorem fundCommunityPool_deposits {s s' : State} {f : Addr} {c : Coin} (h : fundCommunityPool s f c = .ok s') :
    s'.deposits = s.deposits := by
  unfold fundCommunityPool at h
  split at h
  · rw [pure_eq_ok] at h; rw [h]
  · exact sendCoins_deposits h

theorem sendCoin_deposits {s s' : State} {f t : Addr} {c : Coin} (h : sendCoin s f t c = .ok s') :
    s'.deposits = s.deposits := by
  unfold sendCoin at h
  split at h
  · rw [pure_eq_ok] at h; rw [h]
  · exact sendCoins_deposits h

theorem sendCoinFromAccountToModule_deposits {s s' : State} {f t : Addr} {c : Coin}
    (h : sendCoinFromAccountToModule s f t c = .ok s') : s'.deposits = s.deposits := by
  unfold sendCoinFromAccountToModule at h
  split at h
  · rw [pure_eq_ok] at h; rw [h]
  · exact sendCoins_deposits h

theorem provRegister_deposits {s s' : State} {frm : Addr} {n i w d : Bytes} (h : provRegister s frm n i w d = .ok s') :
    s'.deposits = s.deposits := by
  unfold provRegister at h
  simp only [bind_eq_ok, pure_eq_ok, require_eq_ok] at h
  obtain ⟨_, _, s1, h1, s2, h2, rfl⟩ := h
  exact (deposits_of_view (setProvider_view h2)).trans (fundCommunityPool_deposits h1)

theorem provUpdate_deposits {s s' : State} {frm : Addr} {n i w d : Bytes} {st : Status} (h : provUpdate s frm n i w d st = .ok s') :
    s'.deposits = s.deposits := by
  unfold provUpdate at h
  simp only [bind_eq_ok, pure_eq_ok, orReject_eq_ok] at h
  obtain ⟨p, _, s3, h3, rfl⟩ := h
  refine (deposits_of_view (setProvider_view h3)).trans ?_
  split <;> split <;> rfl

theorem nodeRegister_deposits {s s' : State} {frm : Addr} {gb hr : Coins} {url : Bytes} (h : nodeRegister s frm gb hr url = .ok s') :
    s'.deposits = s.deposits := by
  unfold nodeRegister at h
  simp only [bind_eq_ok, pure_eq_ok, require_eq_ok] at h
  obtain ⟨_, _, _, _, _, _, s1, h1, s2, h2, rfl⟩ := h
  exact (deposits_of_view (setNode_view h2)).trans (fundCommunityPool_deposits h1)

theorem nodeUpdate_deposits {s s' : State} {frm : Addr} {gb hr : Option Coins} {url : Bytes} (h : nodeUpdate s frm gb hr url = .ok s') :
    s'.deposits = s.deposits := by
  unfold nodeUpdate at h
  simp only [bind_eq_ok, pure_eq_ok, require_eq_ok, orReject_eq_ok] at h
  obtain ⟨_, _, _, _, n, _, s1, h1, rfl⟩ := h
  exact (deposits_of_view (setNode_view h1) : s1.deposits = s.deposits)

theorem nodeStatus_deposits {s s' : State} {frm : Addr} {st : Status} (h : nodeStatus s frm st = .ok s') :
    s'.deposits = s.deposits := by
  unfold nodeStatus at h
  simp only [bind_eq_ok, pure_eq_ok, orReject_eq_ok] at h
  obtain ⟨n, _, s5, h5, rfl⟩ := h
  refine (deposits_of_view (setNode_view h5)).trans ?_
  split <;> split <;> split <;> split <;> rfl

theorem planCreate_deposits {s s' : State} {frm : Addr} {dur : Dur} {gb : Int} {prices : Coins}
    (h : planCreate s frm dur gb prices = .ok s') : s'.deposits = s.deposits := by
  unfold planCreate at h
  simp only [bind_eq_ok, pure_eq_ok, require_eq_ok] at h
  obtain ⟨_, _, s1, h1, rfl⟩ := h
  exact (setPlan_money h1).2.2

theorem planStatus_deposits {s s' : State} {frm : Addr} {id : Nat} {st : Status}
    (h : planStatus s frm id st = .ok s') : s'.deposits = s.deposits := by
  unfold planStatus at h
  simp only [bind_eq_ok, pure_eq_ok, require_eq_ok, orReject_eq_ok] at h
  obtain ⟨p, hp, _, _, s3, h3, rfl⟩ := h
  refine (setPlan_money h3).2.2.trans ?_
  split <;> split <;> rfl

theorem planLink_deposits {s s' : State} {frm : Addr} {id : Nat} {node : Addr}
    (h : planLink s frm id node = .ok s') : s'.deposits = s.deposits := by
  unfold planLink at h
  simp only [bind_eq_ok, pure_eq_ok, require_eq_ok, orReject_eq_ok] at h
  obtain ⟨p, _, _, _, _, _, rfl⟩ := h
  rfl

theorem planUnlink_deposits {s s' : State} {frm : Addr} {id : Nat} {node : Addr}
    (h : planUnlink s frm id node = .ok s') : s'.deposits = s.deposits := by
  unfold planUnlink at h
  simp only [bind_eq_ok, pure_eq_ok, require_eq_ok, orReject_eq_ok] at h
  obtain ⟨p, _, _, _, rfl⟩ := h
  rfl

theorem sessStart_deposits {s s' : State} {frm : TextAddr} {id : Nat} {node : Addr}
    (h : sessStart s frm id node = .ok s') : s'.deposits = s.deposits := by
  unfold sessStart at h
  simp only [bind_eq_ok, pure_eq_ok, require_eq_ok, orReject_eq_ok] at h
  obtain ⟨sub, _, _, _, n, _, _, _, _, _, _, _, latest, _, _, _, rfl⟩ := h
  rfl

theorem sessUpdate_deposits {s s' : State} {frm : Addr} {id : Nat} {up down dur : Int} {sig : SigSpec}
    (h : sessUpdate s frm id up down dur sig = .ok s') : s'.deposits = s.deposits := by
  unfold sessUpdate at h
  simp only [bind_eq_ok, pure_eq_ok, require_eq_ok, orReject_eq_ok] at h
  obtain ⟨x, _, _, _, _, _, _, _, rfl⟩ := h
  simp only [emit]
  split <;> rfl

theorem sessEnd_deposits {s s' : State} {frm : Addr} {id : Nat} (h : sessEnd s frm id = .ok s') :
    s'.deposits = s.deposits := by
  unfold sessEnd at h
  simp only [bind_eq_ok, pure_eq_ok, require_eq_ok, orReject_eq_ok] at h
  obtain ⟨x, _, _, _, _, _, rfl⟩ := h
  rfl

theorem swap_deposits {s s' : State} {frm recv : Addr} {hash : Bytes} {amt : Int}
    (h : swap s frm hash recv amt = .ok s') : s'.deposits = s.deposits := by
  unfold swap sendModuleToAccount mintCoins at h
  simp only [bind_eq_ok, pure_eq_ok, require_eq_ok] at h
  obtain ⟨_, _, _, _, _, _, q, _, coin, _, s1, ⟨nb, _, ns, _, rfl⟩, s2, h2, rfl⟩ := h
  split at h2
  · simp [reject] at h2
  · exact (sendCoins_deposits h2).trans (by unfold setSupply setBalance; rfl)

theorem gov_deposits {s s' : State} {c : ParamChange} (hg : gov s c = some s') : s'.deposits = s.deposits := by
  unfold gov at hg
  cases c <;> simp only [] at hg <;> (try split at hg) <;> (try split at hg) <;>
    first
      | (simp only [Option.some.injEq] at hg; rw [← hg])
      | (simp only [reduceCtorEq] at hg)

theorem deposits_mintBeginBlock_go (l : List Inflation) (s : State) : (mintBeginBlock.go s l).deposits = s.deposits := by
  induction l generalizing s with
  | nil => rfl
  | cons item rest ih =>
    unfold mintBeginBlock.go
    split
    · rfl
    · rw [ih]

theorem deposits_distrSweep (s : State) : (distrSweep s).deposits = s.deposits := by
  unfold distrSweep
  exact foldl_inv (fun s' => s'.deposits = s.deposits) sweepDenom
    (fun s0 d h => (by unfold sweepDenom setBalance; rfl : (sweepDenom s0 d).deposits = s0.deposits).trans h) _ s rfl

theorem deposits_addBalance (s : State) (b : Addr × Denom × Int) : (addBalance s b).deposits = s.deposits := by
  unfold addBalance
  split
  · rfl
  · unfold setSupply setBalance; rfl

/-! ### purchase -/

theorem nodeSubscribe_escrow {s s' : State} {frm node : Addr} {gb hr : Int} {denom : Denom}
    (h : nodeSubscribe s frm node gb hr denom = .ok s') (hgb0 : 0 ≤ gb) (hhr0 : 0 ≤ hr)
    (hc : CountInv s) (hn : Tbl.Nodup s.subs) (hi : EscrowSplit s) : EscrowSplit s' := by
  have hf := hc.fresh
  unfold nodeSubscribe createSubscriptionForNode at h
  simp only [bind_eq_ok, pure_eq_ok, require_eq_ok, orReject_eq_ok] at h
  obtain ⟨_, _, _, _, r, ⟨n, _, _, _, hr'⟩, rfl⟩ := h
  split at hr'
  · rename_i hgb
    unfold createNodeSubGB at hr'
    simp only [bind_eq_ok, pure_eq_ok, orReject_eq_ok] at hr'
    obtain ⟨price, _, bytes, _, amt, _, dep, hdep, s1, h1, granted, hg, rfl⟩ := hr'
    have hg' := SInt.mul_eq_ok hg
    subst hg'
    obtain ⟨edep, hamt⟩ := newCoin_eq_ok hdep
    have hfr := addDeposit_frame h1
    have hD := addDeposit_escrow h1
    have v1 := subView_of_moneyFrame hfr
    have e1s : s1.subs = s.subs := congrArg SubView.subs v1
    have e1a : s1.allocs = s.allocs := congrArg SubView.allocs v1
    have e1p : s1.payouts = s.payouts := congrArg SubView.payouts v1
    generalize hs' : emit _ _ = s'
    have eS : s'.subs = s.subs.set (s.subCount.getD 0 + 1)
        (Sub.mk (s.subCount.getD 0 + 1) frm (s.time + 90 * day) .StatusActive s.time (.node node gb 0 dep)) := by
      rw [← hs', ← e1s]; rfl
    have eA : s'.allocs = s.allocs.set (s.subCount.getD 0 + 1, frm)
        { id := s.subCount.getD 0 + 1, addr := frm, granted := Gigabyte * gb, used := 0 } := by
      rw [← hs', ← e1a]; rfl
    have eP : s'.payouts = s.payouts := by rw [← hs', ← e1p]; simp only [emit, setAllocation, insertSub]
    have eD : s'.deposits = s1.deposits := by rw [← hs']; simp only [emit, setAllocation, insertSub]
    have hal : s'.allocs.get (s.subCount.getD 0 + 1, frm) =
        some { id := s.subCount.getD 0 + 1, addr := frm, granted := Gigabyte * gb, used := 0 } := by
      rw [eA, Tbl.get_set]; simp
    refine EscrowSplit.create hi hn hf.subs eS ?_ ?_ ?_ ?_
    · intro i a hne
      rw [eA, Tbl.get_set_ne _ _ (by intro e; exact hne (Prod.mk.inj e).1.symm)]
    · intro i hne; rw [eP]
    · intro a d
      rw [escrowOf_deposits eD, hD a d, rem_gb rfl hgb, usedOf_some hal, charge_zero]
      simp only [Int.sub_zero]
      by_cases e : frm = a <;> by_cases e2 : dep.denom = d <;> simp [e, e2]
    · unfold SubWF
      simp only []
      refine ⟨by rw [edep]; exact hamt, Or.inl ⟨by omega, trivial, _, hal, rfl⟩⟩
  · rename_i hgb
    have hgb' : gb = 0 := by simpa using hgb
    subst hgb'
    unfold createNodeSubHr at hr'
    simp only [bind_eq_ok, pure_eq_ok, orReject_eq_ok] at hr'
    obtain ⟨price, _, amt, hamt', dep, hdep, s1, h1, pa, hq, hourly, hh, rfl⟩ := hr'
    have ea := SInt.mul_eq_ok hamt'
    obtain ⟨edep, hamt⟩ := newCoin_eq_ok hdep
    obtain ⟨hhr, epa⟩ := quo_eq_ok hq
    obtain ⟨ehourly, hpa⟩ := newCoin_eq_ok hh
    have hfr := addDeposit_frame h1
    have hD := addDeposit_escrow h1
    have v1 := subView_of_moneyFrame hfr
    have e1s : s1.subs = s.subs := congrArg SubView.subs v1
    have e1a : s1.allocs = s.allocs := congrArg SubView.allocs v1
    have e1p : s1.payouts = s.payouts := congrArg SubView.payouts v1
    generalize hs' : emit _ _ = s'
    have eS : s'.subs = s.subs.set (s.subCount.getD 0 + 1)
        (Sub.mk (s.subCount.getD 0 + 1) frm (s.time + hr * hour) .StatusActive s.time (.node node 0 hr dep)) := by
      rw [← hs', ← e1s]; simp only [emit, insertPayout, insertSub]
    have eA : s'.allocs = s.allocs := by rw [← hs', ← e1a]; simp only [emit, insertPayout, insertSub]
    have eP : s'.payouts = s.payouts.set (s.subCount.getD 0 + 1)
        { id := s.subCount.getD 0 + 1, addr := frm, node := node, hours := hr, price := hourly, nextAt := s.time } := by
      rw [← hs', ← e1p]; simp only [emit, insertPayout, insertSub]
    have eD : s'.deposits = s1.deposits := by rw [← hs']; simp only [emit, insertPayout, insertSub]
    have hpay : s'.payouts.get (s.subCount.getD 0 + 1) =
        some { id := s.subCount.getD 0 + 1, addr := frm, node := node, hours := hr, price := hourly, nextAt := s.time } := by
      rw [eP, Tbl.get_set]; simp
    have hmul : hourly.amount * hr = dep.amount := by
      rw [ehourly, epa, edep, ea]
      simp only []
      rw [Int.mul_tdiv_cancel _ hhr]
    have hden : hourly.denom = dep.denom := by rw [ehourly]
    refine EscrowSplit.create hi hn hf.subs eS ?_ ?_ ?_ ?_
    · intro i a hne; rw [eA]
    · intro i hne
      rw [eP, Tbl.get_set_ne _ _ (Ne.symm hne)]
    · intro a d
      rw [escrowOf_deposits eD, hD a d, rem_hr rfl hpay]
      simp only [hmul, hden]
      by_cases e : frm = a <;> by_cases e2 : dep.denom = d <;> simp [e, e2]
    · unfold SubWF
      simp only []
      refine ⟨by rw [edep]; exact hamt, Or.inr ⟨trivial, by omega, _, hpay, rfl, hden, ?_, hmul, le_refl _⟩⟩
      rw [ehourly]; exact hpa


theorem planSubscribe_rest {s s' : State} {frm : Addr} {id : Nat} {denom : Denom}
    (h : planSubscribe s frm id denom = .ok s') : s'.payouts = s.payouts ∧ s'.deposits = s.deposits := by
  unfold planSubscribe createSubscriptionForPlan at h
  simp only [bind_eq_ok, pure_eq_ok, require_eq_ok, requireP_eq_ok, orReject_eq_ok] at h
  obtain ⟨r, ⟨plan, hplan, _, _, price, _, reward, _, s1, h1, payAmt, _, _, _, s2, h2, granted, hg, rfl⟩, rfl⟩ := h
  have hfr := (sendCoinFromAccountToModule_frame h1).trans (sendCoin_frame h2)
  have e1p : s2.payouts = s.payouts := congrArg SubView.payouts (subView_of_moneyFrame hfr)
  have e1d : s2.deposits = s.deposits := (sendCoin_deposits h2).trans (sendCoinFromAccountToModule_deposits h1)
  constructor
  · rw [← e1p]; simp only [emit, setAllocation, insertSub]
  · rw [← e1d]; simp only [emit, setAllocation, insertSub]

theorem planSubscribe_escrow {s s' : State} {frm : Addr} {id : Nat} {denom : Denom}
    (h : planSubscribe s frm id denom = .ok s') (hc : CountInv s) (hn : Tbl.Nodup s.subs) (hi : EscrowSplit s) :
    EscrowSplit s' := by
  have hf := hc.fresh
  obtain ⟨plan, x, d, hplan, hk, eS, eA⟩ := planSubscribe_tables h
  obtain ⟨eP, eD⟩ := planSubscribe_rest h
  refine EscrowSplit.create hi hn hf.subs eS ?_ ?_ ?_ (subWF_plan hk)
  · intro i a hne
    rw [eA, Tbl.get_set_ne _ _ (by intro e; exact hne (Prod.mk.inj e).1.symm)]
  · intro i hne; rw [eP]
  · intro a d'
    rw [escrowOf_deposits eD, rem_plan hk]; simp

/-! ### sharing a plan subscription's quota -/

theorem subAllocate_rest {s s' : State} {frm toA : Addr} {id : Nat} {bytes : Int}
    (h : subAllocate s frm id toA bytes = .ok s') : s'.payouts = s.payouts ∧ s'.deposits = s.deposits := by
  unfold subAllocate at h
  simp only [bind_eq_ok, pure_eq_ok, require_eq_ok, orReject_eq_ok] at h
  obtain ⟨sub, _, _, _, _, _, fa, _, _, _, g, _, u, _, av, _, _, _, fg, _, _, _, _, _, rfl⟩ := h
  simp only [emit, setAllocation]
  constructor <;> split <;> rfl

theorem subAllocate_escrow {s s' : State} {frm toA : Addr} {id : Nat} {bytes : Int}
    (h : subAllocate s frm id toA bytes = .ok s') (hc : CountInv s) (hn : Tbl.Nodup s.subs) (hi : EscrowSplit s) :
    EscrowSplit s' := by
  obtain ⟨sub, fa, ta, hsub, hpl, _, hfa, hne, hta, _, _, eS, eA⟩ := subAllocate_tables h
  obtain ⟨eP, eD⟩ := subAllocate_rest h
  obtain ⟨f1, f2, _⟩ := hc.allocs _ _ _ hfa
  have t1 : ta.id = id := by
    rw [hta]
    cases hg : s.allocs.get (id, toA) with
    | none => rfl
    | some o => exact (hc.allocs _ _ _ hg).1
  obtain ⟨pid, dn, hk⟩ : ∃ pid dn, sub.kind = .plan pid dn := by
    unfold isPlanSub at hpl
    cases hkd : sub.kind with
    | node n gb hr dep => rw [hkd] at hpl; simp at hpl
    | plan pid dn => exact ⟨pid, dn, rfl⟩
  refine EscrowSplit.rewrite (j := id) (x := sub) (x' := sub) hi hn hsub (Or.inr ⟨eS, rfl⟩) ?_ ?_ eD ?_ (subWF_plan hk)
  · intro i a hne'
    rw [eA, Tbl.get_set_ne _ _ (by intro e; exact hne' ((Prod.mk.inj e).1.symm.trans t1)),
      Tbl.get_set_ne _ _ (by intro e; exact hne' ((Prod.mk.inj e).1.symm.trans f1))]
  · intro i _; rw [eP]
  · intro a d; rw [rem_plan hk, rem_plan hk]


/-! ### cancellation and expiry: the record becomes inactive-pending, the payout is unscheduled -/

/-- What the invariant reads of a payout record. -/
def pcore (p : Payout) : Addr × Coin × Int := (p.addr, p.price, p.hours)

theorem rem_pcore {A A' : Tbl (Nat × Addr) Alloc} {P P' : Tbl Nat Payout} {i : Nat} {x : Sub} (d : Denom)
    (hA : A'.get (i, x.addr) = A.get (i, x.addr)) (hP : (P'.get i).map pcore = (P.get i).map pcore) :
    rem A' P' i x d = rem A P i x d := by
  unfold rem usedOf; rw [hA]
  cases x.kind with
  | plan _ _ => rfl
  | node n gb hr dep =>
    simp only []
    split
    · rfl
    · cases h1 : P'.get i <;> cases h2 : P.get i <;> rw [h1, h2] at hP <;> simp [pcore] at hP
      all_goals first
        | rfl
        | (obtain ⟨_, e2, e3⟩ := hP
           simp only [e2, e3])

theorem subWF_pcore {A A' : Tbl (Nat × Addr) Alloc} {P P' : Tbl Nat Payout} {i : Nat} {x : Sub}
    (hA : A'.get (i, x.addr) = A.get (i, x.addr)) (hP : (P'.get i).map pcore = (P.get i).map pcore)
    (h : SubWF A P i x) : SubWF A' P' i x := by
  unfold SubWF at h ⊢; rw [hA]
  cases hk : x.kind with
  | plan _ _ => trivial
  | node n gb hr dep =>
    rw [hk] at h
    simp only [] at h ⊢
    refine ⟨h.1, ?_⟩
    rcases h.2 with hl | ⟨h1, h2, p, hp, h3, h4, h5, h6, h7⟩
    · exact Or.inl hl
    · right
      rw [hp] at hP
      cases h1' : P'.get i with
      | none => rw [h1'] at hP; simp at hP
      | some p' =>
        rw [h1'] at hP
        simp only [Option.map_some, Option.some.injEq, pcore, Prod.mk.injEq] at hP
        obtain ⟨e1, e2, e3⟩ := hP
        exact ⟨h1, h2, p', rfl, by rw [e1]; exact h3, by rw [e2]; exact h4, by rw [e2]; exact h5, by rw [e2]; exact h6,
          by rw [e3]; exact h7⟩

theorem pendingDetach_escrow {s s1 s' : State} {sub : Sub} {delay : Dur} {b : Bool} (hk : Keyed s)
    (hsub : s.subs.get sub.id = some sub)
    (hf : SessFrame { s with subQ := s.subQ.erase (sub.inactiveAt, sub.id) } s1) (hd1 : s1.deposits = s.deposits)
    (h : detachPayout (subToPending s1 sub delay).1 sub b = .ok s') (hn : Tbl.Nodup s.subs) (hi : EscrowSplit s) :
    EscrowSplit s' := by
  have eD : s'.deposits = s.deposits :=
    (deposits_of_view (detachPayout_view h)).trans ((deposits_of_view (view_subToPending s1 sub delay)).trans hd1)
  have hw := hi.wf _ _ hsub
  rcases pendingDetach_view hk hf h with ⟨_, p, hp, e⟩ | ⟨_, e⟩
  · have eS : s'.subs = _ := congrArg SubView.subs e
    have eA : s'.allocs = s.allocs := congrArg SubView.allocs e
    have eP : s'.payouts = s.payouts.set sub.id { p with nextAt := zeroTime } := congrArg SubView.payouts e
    have hpc : (s'.payouts.get sub.id).map pcore = (s.payouts.get sub.id).map pcore := by
      rw [eP, hp, Tbl.get_set]; simp [pcore]
    refine EscrowSplit.rewrite (j := sub.id) (x := sub) hi hn hsub (Or.inl eS) ?_ ?_ eD ?_ ?_
    · intro i a _; rw [eA]
    · intro i hne; rw [eP, Tbl.get_set_ne _ _ (Ne.symm hne)]
    · intro a d
      rw [rem_kind d (x := sub) rfl rfl, rem_pcore d (by rw [eA]) hpc]
      rfl
    · exact subWF_kind (x := sub) rfl rfl (subWF_pcore (by rw [eA]) hpc hw)
  · have eS : s'.subs = _ := congrArg SubView.subs e
    have eA : s'.allocs = s.allocs := congrArg SubView.allocs e
    have eP : s'.payouts = s.payouts := congrArg SubView.payouts e
    refine EscrowSplit.rewrite (j := sub.id) (x := sub) hi hn hsub (Or.inl eS) ?_ ?_ eD ?_ ?_
    · intro i a _; rw [eA]
    · intro i hne; rw [eP]
    · intro a d
      rw [rem_kind d (x := sub) rfl rfl, eA, eP]
      rfl
    · rw [eA, eP]; exact subWF_kind (x := sub) rfl rfl hw

theorem subCancel_escrow {s s' : State} {frm : Addr} {id : Nat} (h : subCancel s frm id = .ok s')
    (hc : CountInv s) (hn : Tbl.Nodup s.subs) (hi : EscrowSplit s) : EscrowSplit s' := by
  unfold subCancel at h
  simp only [bind_eq_ok, require_eq_ok, orReject_eq_ok] at h
  obtain ⟨sub, hsub, _, hst, _, _, s1, h1, h2⟩ := h
  have hid : sub.id = id := (hc.subs _ _ hsub).1
  subst hid
  exact pendingDetach_escrow hc.keyed hsub (subscriptionInactivePendingHook_frame h1)
    ((deposits_of_view (subscriptionInactivePendingHook_view h1)).trans rfl) h2 hn hi


/-! ### the hourly payout -/

theorem payoutAdvance_price (p : Payout) : (payoutAdvance p).price = p.price := by
  unfold payoutAdvance; simp only []; split <;> rfl

/-- One hourly payout takes exactly the hourly price out of the payer's escrow record, nothing else. -/
theorem payoutStep_escrowOf {s s' : State} {k : Time × Nat} (h : payoutStep s k = .ok s') :
    ∃ item, s.payouts.get k.2 = some item ∧ ∀ a d,
      escrowOf s' a d = escrowOf s a d - (if item.addr = a ∧ item.price.denom = d then item.price.amount else 0) := by
  unfold payoutStep at h
  simp only [bind_eq_ok, pure_eq_ok, requireP_eq_ok, orPanic_eq_ok] at h
  obtain ⟨item, hitem, reward, hrw, s2, h2, payAmt, hpa, _, hnn, s3, h3, rfl⟩ := h
  refine ⟨item, hitem, fun a d => ?_⟩
  have e2 := sendCoinFromDepositToModule_escrow h2 a d
  have e3 := sendCoinFromDepositToAccount_escrow h3 a d
  have hden := proportion_denom hrw
  have hpay := SInt.sub_eq_ok hpa
  have e0 : escrowOf { s with payQ := s.payQ.erase (item.nextAt, item.id) } a d = escrowOf s a d := rfl
  have e4 : ∀ S : State, S.deposits = s3.deposits → escrowOf S a d = escrowOf s3 a d := fun S hS => escrowOf_deposits hS a d
  rw [e0] at e2
  have : escrowOf s3 a d = escrowOf s a d - (if item.addr = a ∧ item.price.denom = d then item.price.amount else 0) := by
    rw [e3, e2, hden, hpay]
    simp only []
    split <;> omega
  rw [← this]
  split <;> exact e4 _ (by simp only [emit])

theorem payoutStep_escrow {s s' : State} {k : Time × Nat} (h : payoutStep s k = .ok s') (hk : Keyed s) (hx : SubIdx s)
    (hi : EscrowSplit s) : EscrowSplit s' := by
  obtain ⟨item, hitem, hv⟩ := payoutStep_view h
  obtain ⟨item', hitem', hD⟩ := payoutStep_escrowOf h
  rw [hitem] at hitem'; cases hitem'
  have hid : item.id = k.2 := hk.payouts _ _ hitem
  have eS : s'.subs = s.subs := congrArg SubView.subs hv
  have eA : s'.allocs = s.allocs := congrArg SubView.allocs hv
  have eP : s'.payouts = s.payouts.set k.2 (payoutAdvance item) := by rw [← hid]; exact congrArg SubView.payouts hv
  obtain ⟨x, hxs, _⟩ := (hx.payout k.2).mp (Tbl.has_of_get_B hitem)
  obtain ⟨⟨gb, hr, dep, hkd, hhr, haddr⟩, _⟩ := hx.payoutRec k.2 item x hitem hxs
  have hw := hi.wf _ _ hxs
  have hw' := hw
  unfold SubWF at hw'
  rw [hkd] at hw'
  simp only [] at hw'
  obtain ⟨hdep, hl | ⟨hgb, hhr', p, hp, h3, h4, h5, h6, h7⟩⟩ := hw'
  · exact absurd hl.2.1 hhr
  · subst hgb
    rw [hitem] at hp; cases hp
    have hp' : s'.payouts.get k.2 = some (payoutAdvance item) := by rw [eP, Tbl.get_set]; simp
    refine EscrowSplit.local k.2 hi hx.nodup.1 (by rw [eS]; exact hx.nodup.1) ?_ ?_ ?_ ?_ ?_
    · intro i _; rw [eS]
    · intro i a _; rw [eA]
    · intro i hne; rw [eP, Tbl.get_set_ne _ _ (Ne.symm hne)]
    · intro a d
      rw [hD a d, contrib_some hxs, contrib_some (by rw [eS]; exact hxs), rem_hr hkd hitem, rem_hr hkd hp',
        payoutAdvance_price, payoutAdvance_hours, haddr]
      by_cases e1 : item.addr = a <;> by_cases e2 : item.price.denom = d <;> simp [e1, e2]
      ring
    · intro y hy
      rw [eS, hxs] at hy; cases hy
      unfold SubWF
      rw [hkd]
      simp only []
      refine ⟨hdep, Or.inr ⟨trivial, hhr', _, hp', ?_, ?_, ?_, ?_, ?_⟩⟩
      · rw [payoutAdvance_addr]; exact h3
      · rw [payoutAdvance_price]; exact h4
      · rw [payoutAdvance_price]; exact h5
      · rw [payoutAdvance_price]; exact h6
      · rw [payoutAdvance_hours]; omega


/-! ### settlement of a session -/

/-- The payment part of the settlement takes out of the payer's escrow record exactly the difference
of the charges for the cumulative bytes after and before — fee and net payment together. -/
theorem settleSession_escrowOf {s s' : State} {x : Session} {acc node : Addr} {dep : Coin} {gb before after : Int}
    (h : settleSession s x acc node dep gb before after = .ok s') (hb : 0 ≤ before) (ha : 0 ≤ after) :
    gb ≠ 0 ∧ ∀ a d, escrowOf s' a d = escrowOf s a d -
      (if acc = a ∧ dep.denom = d then charge (Int.tdiv dep.amount gb) after - charge (Int.tdiv dep.amount gb) before else 0) := by
  unfold settleSession subGigabytePrice at h
  simp only [bind_eq_ok, pure_eq_ok, requireP_eq_ok] at h
  obtain ⟨price, ⟨q, hq, hprice⟩, prev, hprev, cur, hcur, payAmt, hpay, payment, hpm, reward, hrw, s1, h1, netAmt, hnet, _, hnn,
    s2, h2, rfl⟩ := h
  obtain ⟨hgb, eq⟩ := quo_eq_ok hq
  obtain ⟨eprice, hq0⟩ := newCoin_eq_ok hprice
  subst eprice
  have eprev := charge_of_afb hq0 hb hprev
  have ecur := charge_of_afb hq0 ha hcur
  have epay := SInt.sub_eq_ok hpay
  obtain ⟨epm, _⟩ := newCoin_eq_ok hpm
  subst epm
  have hden := proportion_denom hrw
  have enet := SInt.sub_eq_ok hnet
  refine ⟨hgb, fun a d => ?_⟩
  have e1 := sendCoinFromDepositToModule_escrow h1 a d
  have e2 := sendCoinFromDepositToAccount_escrow h2 a d
  have e3 : ∀ e, escrowOf (emit s2 e) a d = escrowOf s2 a d := fun _ => rfl
  rw [e3, e2, e1, hden, enet, epay, ecur, eprev, eq]
  simp only []
  split <;> omega

theorem allocAfterUse_used_nonneg {a : Alloc} {b : Int} (ha : 0 ≤ a.used ∧ a.used ≤ a.granted) (hb : 0 ≤ b) :
    0 ≤ (allocAfterUse a (a.used + b)).used := (allocAfterUse_bounds ha hb).1

theorem sessionInactiveHook_escrow {s s' : State} {id : Nat} {acc node : Addr} {bytes : Int}
    (h : sessionInactiveHook s id acc node bytes = .ok s') (hb : 0 ≤ bytes) (hk : Keyed s) (hx : SubIdx s)
    (hab : AllocBounds s) (hi : EscrowSplit s) : EscrowSplit s' := by
  unfold sessionInactiveHook at h
  simp only [bind_eq_ok, require_eq_ok, orReject_eq_ok] at h
  obtain ⟨x, hxs, _, hst, sub, hsub, h⟩ := h
  have hid : sub.id = x.sub := hk.subs _ _ hsub
  rw [← hid] at hsub
  split at h
  · rw [pure_eq_ok] at h; rw [← h]; exact hi
  · rename_i hh
    simp only [bind_eq_ok, orReject_eq_ok] at h
    obtain ⟨a, ha, used, hu, h⟩ := h
    have hu' := SInt.add_eq_ok hu
    subst hu'
    obtain ⟨ka1, ka2⟩ := hk.allocs _ _ _ ha
    have hbnd := hab _ _ ha
    have hbnd' := allocAfterUse_bounds hbnd hb
    have hw := hi.wf _ _ hsub
    generalize hS1 : emit (setAllocation s (allocAfterUse a (a.used + bytes))) _ = S1 at h
    have eS1 : S1.subs = s.subs := by rw [← hS1]; simp only [emit, setAllocation]
    have eA1 : S1.allocs = s.allocs.set (sub.id, acc) (allocAfterUse a (a.used + bytes)) := by
      rw [← hS1]; simp only [emit, setAllocation, allocAfterUse, ka1, ka2]
    have eP1 : S1.payouts = s.payouts := by rw [← hS1]; simp only [emit, setAllocation]
    have eD1 : S1.deposits = s.deposits := by rw [← hS1]; simp only [emit, setAllocation]
    have hget' : ∀ T : Tbl (Nat × Addr) Alloc, T = s.allocs.set (sub.id, acc) (allocAfterUse a (a.used + bytes)) →
        T.get (sub.id, acc) = some (allocAfterUse a (a.used + bytes)) := by
      intro T hT; rw [hT, Tbl.get_set]; simp
    have hoff : ∀ T : Tbl (Nat × Addr) Alloc, T = s.allocs.set (sub.id, acc) (allocAfterUse a (a.used + bytes)) →
        ∀ i b, i ≠ sub.id → T.get (i, b) = s.allocs.get (i, b) := by
      intro T hT i b hne
      rw [hT, Tbl.get_set_ne _ _ (by intro e; exact hne (Prod.mk.inj e).1.symm)]
    cases hkd : sub.kind with
    | plan pid dn =>
      simp only [gbInfo, hkd, pure_eq_ok] at h
      subst h
      refine EscrowSplit.rewrite (j := sub.id) (x := sub) (x' := sub) hi hx.nodup.1 hsub (Or.inr ⟨eS1, rfl⟩)
        (hoff _ eA1) ?_ eD1 ?_ (subWF_plan hkd)
      · intro i _; rw [eP1]
      · intro a0 d; rw [rem_plan hkd, rem_plan hkd]
    | node n gb hr dep =>
      have hhr : hr = 0 := by
        unfold isHourly at hh; rw [hkd] at hh; simpa using hh
      subst hhr
      have hw' := hw
      unfold SubWF at hw'
      rw [hkd] at hw'
      simp only [] at hw'
      obtain ⟨hdep, ⟨hgb, _, al, hal, hgr⟩ | ⟨_, hcontra, _⟩⟩ := hw'
      · have hacc : acc = sub.addr :=
          hx.nodeSubAlloc _ _ _ hsub (by unfold isPlanSub; rw [hkd]) (Tbl.has_of_get_B ha)
        subst hacc
        rw [ha] at hal; cases hal
        have hgb' : gb ≠ 0 := by omega
        simp only [gbInfo, hkd, hgb', ne_eq, not_false_eq_true, if_true] at h
        obtain ⟨_, hD⟩ := settleSession_escrowOf h hbnd.1 hbnd'.1
        have hfr := settleSession_frame h
        have v := subView_of_moneyFrame hfr
        have eS : s'.subs = s.subs := (congrArg SubView.subs v).trans eS1
        have eA : s'.allocs = s.allocs.set (sub.id, sub.addr) (allocAfterUse a (a.used + bytes)) :=
          (congrArg SubView.allocs v).trans eA1
        have eP : s'.payouts = s.payouts := (congrArg SubView.payouts v).trans eP1
        refine EscrowSplit.local sub.id hi hx.nodup.1 (by rw [eS]; exact hx.nodup.1) ?_ (hoff _ eA) ?_ ?_ ?_
        · intro i _; rw [eS]
        · intro i _; rw [eP]
        · intro a0 d
          rw [hD a0 d, escrowOf_deposits eD1, contrib_some hsub, contrib_some (by rw [eS]; exact hsub),
            rem_gb hkd hgb', rem_gb hkd hgb', usedOf_some ha, usedOf_some (hget' _ eA)]
          by_cases e1 : sub.addr = a0 <;> by_cases e2 : dep.denom = d <;> simp [e1, e2]
          omega
        · intro y hy
          rw [eS, hsub] at hy; cases hy
          unfold SubWF
          rw [hkd]
          simp only []
          exact ⟨hdep, Or.inl ⟨hgb, trivial, _, hget' _ eA, hgr⟩⟩
      · omega


theorem sessionStep_escrow {s s' : State} {k : Time × Nat} (h : sessionStep s k = .ok s') (hk : Keyed s) (hx : SubIdx s)
    (hal : AllocInv s) (hi : EscrowSplit s) : EscrowSplit s' := by
  obtain ⟨item, hitem, ⟨_, rfl⟩ | ⟨_, s2, h2, rfl⟩⟩ := sessionStep_eff h
  · exact hi.of_views (s := s) rfl (deposits_of_view (view_sessionToPending s item))
  · have hnn := hal.sessNonneg _ _ hitem
    have i0 : EscrowSplit { s with sessQ := s.sessQ.erase (item.inactiveAt, item.id) } := hi.of_views (s := s) rfl rfl
    have i2 := sessionInactiveHook_escrow h2 (by omega) (Keyed.of_view (s := s) rfl hk) (SubIdx.of_view (s := s) rfl hx)
      (fun k al hg => hal.bounds k al hg) i0
    exact i2.of_views (s := s2) rfl (by simp only [removeSession, emit])


/-! ### removal of an expired subscription: refund of the unsettled part -/

/-- **The refund is exactly the unsettled part.** `refundSub` takes out of the subscriber's escrow record
precisely `rem` of the removed subscription, and touches no other account's record. -/
theorem refundSub_escrowOf {s s' : State} {item : Sub} (h : refundSub s item = .ok s')
    (hw : SubWF s.allocs s.payouts item.id item) (hab : AllocBounds s) :
    ∀ a d, escrowOf s' a d = escrowOf s a d - (if item.addr = a then rem s.allocs s.payouts item.id item d else 0) := by
  intro a0 d
  unfold refundSub at h
  cases hkd : item.kind with
  | plan pid dn =>
    rw [hkd] at h
    simp only [pure_eq_ok] at h
    subst h
    rw [rem_plan hkd]; simp
  | node n gb hr dep =>
    rw [hkd] at h
    simp only [bind_eq_ok] at h
    obtain ⟨s1, h1, h2⟩ := h
    unfold SubWF at hw
    rw [hkd] at hw
    simp only [] at hw
    obtain ⟨hdep, ⟨hgb, hhr, al, hal, _⟩ | ⟨hgb, hhr, p, hp, h3, h4, h5, h6, h7⟩⟩ := hw
    · have hgb' : gb ≠ 0 := by omega
      simp only [hgb', ne_eq, not_false_eq_true, if_true] at h1
      simp only [hhr, ne_eq, not_true_eq_false, if_false, pure_eq_ok] at h2
      subst h2
      unfold refundGB subGigabytePrice at h1
      simp only [bind_eq_ok, pure_eq_ok, orPanic_eq_ok, panicIfErr_eq_ok] at h1
      obtain ⟨price, ⟨q, hq, hprice⟩, a, ha, paid, hpaid, ra, hra, refund, hrf, s2, h2', rfl⟩ := h1
      rw [hal] at ha; cases ha
      obtain ⟨_, eq⟩ := quo_eq_ok hq
      obtain ⟨eprice, hq0⟩ := newCoin_eq_ok hprice
      subst eprice
      have epaid := charge_of_afb hq0 (hab _ _ hal).1 hpaid
      have era := SInt.sub_eq_ok hra
      obtain ⟨erf, _⟩ := newCoin_eq_ok hrf
      subst erf
      have e2 := subtractDeposit_escrow h2' a0 d
      have e3 : ∀ e, escrowOf (emit s2 e) a0 d = escrowOf s2 a0 d := fun _ => rfl
      rw [e3, e2, rem_gb hkd hgb', usedOf_some hal, era, epaid, eq]
      simp only []
      by_cases c1 : item.addr = a0 <;> by_cases c2 : dep.denom = d <;> simp [c1, c2]
    · subst hgb
      simp only [ne_eq, not_true_eq_false, if_false, pure_eq_ok] at h1
      subst h1
      have hhr' : hr ≠ 0 := by omega
      simp only [hhr', ne_eq, not_false_eq_true, if_true] at h2
      unfold refundHr at h2
      simp only [bind_eq_ok, pure_eq_ok, orPanic_eq_ok, panicIfErr_eq_ok] at h2
      obtain ⟨p', hp', ra, hra, refund, hrf, s2, h2', rfl⟩ := h2
      rw [hp] at hp'; cases hp'
      have era := SInt.mul_eq_ok hra
      obtain ⟨erf, _⟩ := newCoin_eq_ok hrf
      subst erf
      have e2 := subtractDeposit_escrow h2' a0 d
      have e3 : ∀ e, escrowOf (emit s2 e) a0 d = escrowOf s2 a0 d := fun _ => rfl
      rw [e3, e2, rem_hr hkd hp, era, h3]
      simp only []
      by_cases c1 : item.addr = a0 <;> by_cases c2 : p.price.denom = d <;> simp [c1, c2]

theorem removal_escrow {s s2 s' : State} {item : Sub} (hk : Keyed s) (hx : SubIdx s) (hab : AllocBounds s)
    (hsub : s.subs.get item.id = some item)
    (h2 : refundSub { s with subQ := s.subQ.erase (item.inactiveAt, item.id) } item = .ok s2)
    (h3 : removePayout (removeSubRecords s2 item) item = .ok s') (hi : EscrowSplit s) : EscrowSplit s' := by
  have hD2 := refundSub_escrowOf h2 (hi.wf _ _ hsub) (fun k al hg => hab k al hg)
  have eD : s'.deposits = s2.deposits :=
    (deposits_of_view (removePayout_view h3)).trans (deposits_of_view (view_removeSubRecords s2 item))
  have hD : ∀ a d, escrowOf s' a d = escrowOf s a d - contrib s item.id a d + 0 := by
    intro a d
    rw [escrowOf_deposits eD, hD2 a d, contrib_some hsub]
    simp only [Int.add_zero]
    rfl
  have hfin : ∀ (eS : s'.subs = s.subs.erase item.id)
      (hA : ∀ i a, i ≠ item.id → s'.allocs.get (i, a) = s.allocs.get (i, a))
      (hP : ∀ i, i ≠ item.id → s'.payouts.get i = s.payouts.get i), EscrowSplit s' := by
    intro eS hA hP
    have hnone : s'.subs.get item.id = none := by rw [eS, Tbl.get_erase]; simp
    refine EscrowSplit.local item.id hi hx.nodup.1 (by rw [eS]; exact Tbl.nodup_erase hx.nodup.1 _) ?_ hA hP ?_ ?_
    · intro i hne; rw [eS, Tbl.get_erase_ne _ (Ne.symm hne)]
    · intro a d; rw [hD a d, contrib_none hnone]
    · intro y hy; rw [hnone] at hy; cases hy
  rcases removal_view hk hx hsub (refundSub_frame h2) h3 with ⟨n, gb, hr, dep, hkd, hr0, e⟩ | ⟨n, gb, hr, dep, p, hkd, hr0, hp, e⟩ |
      ⟨pid, d, A, B, hkd, hA, hB, nA, nB, e⟩
  · have eA : s'.allocs = s.allocs.erase (item.id, item.addr) := congrArg SubView.allocs e
    have eP : s'.payouts = s.payouts := congrArg SubView.payouts e
    refine hfin (congrArg SubView.subs e) ?_ ?_
    · intro i a hne
      rw [eA, Tbl.get_erase_ne _ (by intro e'; exact hne (Prod.mk.inj e').1.symm)]
    · intro i _; rw [eP]
  · have eA : s'.allocs = s.allocs.erase (item.id, item.addr) := congrArg SubView.allocs e
    have eP : s'.payouts = s.payouts.erase item.id := congrArg SubView.payouts e
    refine hfin (congrArg SubView.subs e) ?_ ?_
    · intro i a hne
      rw [eA, Tbl.get_erase_ne _ (by intro e'; exact hne (Prod.mk.inj e').1.symm)]
    · intro i hne; rw [eP, Tbl.get_erase_ne _ (Ne.symm hne)]
  · have eA : s'.allocs = A := congrArg SubView.allocs e
    have eP : s'.payouts = s.payouts := congrArg SubView.payouts e
    refine hfin (congrArg SubView.subs e) ?_ ?_
    · intro i a hne
      rw [eA, hA]; simp [hne]
    · intro i _; rw [eP]

theorem subscriptionStep_escrow {s s' : State} {d : Dur} {k : Time × Nat} (h : subscriptionStep d s k = .ok s')
    (hk : Keyed s) (hx : SubIdx s) (hab : AllocBounds s) (hi : EscrowSplit s) : EscrowSplit s' := by
  unfold subscriptionStep at h
  simp only [bind_eq_ok, orPanic_eq_ok] at h
  obtain ⟨item, hitem, h⟩ := h
  have hid : item.id = k.2 := hk.subs _ _ hitem
  rw [← hid] at hitem
  split at h
  · rename_i hs
    simp only [bind_eq_ok, panicIfErr_eq_ok] at h
    obtain ⟨s2, h2, h3⟩ := h
    exact pendingDetach_escrow hk hitem (subscriptionInactivePendingHook_frame h2)
      ((deposits_of_view (subscriptionInactivePendingHook_view h2)).trans rfl) h3 hx.nodup.1 hi
  · rename_i hs
    simp only [bind_eq_ok] at h
    obtain ⟨s2, h2, h3⟩ := h
    exact removal_escrow hk hx hab hitem h2 h3 hi


/-! ### messages -/

theorem EscrowSplit.clearEvents {s : State} (hi : EscrowSplit s) : EscrowSplit { s with events := [] } :=
  hi.of_views (s := s) rfl rfl

/-- Every handler keeps `EscrowSplit`; the sign conditions on the purchase come from `ValidateBasic`. -/
theorem handle_escrow {s s' : State} {m : Msg} (h : m.handle s = .ok s') (hv : m.validateBasic = .ok ())
    (hc : CountInv s) (hx : SubIdx s) (hi : EscrowSplit s) : EscrowSplit s' := by
  cases m <;> simp only [Msg.handle] at h
  case provRegister => exact hi.of_views (provRegister_subView h) (provRegister_deposits h)
  case provUpdate => exact hi.of_views (provUpdate_subView h) (provUpdate_deposits h)
  case nodeRegister => exact hi.of_views (nodeRegister_subView h) (nodeRegister_deposits h)
  case nodeUpdate => exact hi.of_views (nodeUpdate_subView h) (nodeUpdate_deposits h)
  case nodeStatus => exact hi.of_views (nodeStatus_subView h) (nodeStatus_deposits h)
  case nodeSubscribe frm node gb hr denom =>
    have h0 : 0 ≤ gb ∧ 0 ≤ hr := by
      unfold Msg.validateBasic at hv
      simp only [bind_eq_ok, require_eq_ok] at hv
      obtain ⟨_, _, _, _, _, _, _, _, _, h0, _, h1, _⟩ := hv
      exact ⟨by simpa using h0, by simpa using h1⟩
    exact nodeSubscribe_escrow h h0.1 h0.2 hc hx.nodup.1 hi
  case planCreate => exact hi.of_views (planCreate_subView h) (planCreate_deposits h)
  case planStatus => exact hi.of_views (planStatus_subView h) (planStatus_deposits h)
  case planLink => exact hi.of_views (planLink_subView h) (planLink_deposits h)
  case planUnlink => exact hi.of_views (planUnlink_subView h) (planUnlink_deposits h)
  case planSubscribe => exact planSubscribe_escrow h hc hx.nodup.1 hi
  case subCancel => exact subCancel_escrow h hc hx.nodup.1 hi
  case subAllocate => exact subAllocate_escrow h hc hx.nodup.1 hi
  case sessStart => exact hi.of_views (sessStart_subView h) (sessStart_deposits h)
  case sessUpdate => exact hi.of_views (sessUpdate_subView h) (sessUpdate_deposits h)
  case sessEnd => exact hi.of_views (sessEnd_subView h) (sessEnd_deposits h)
  case swap => exact hi.of_views (swap_subView h) (swap_deposits h)

theorem deliver_escrow (s : State) (m : Msg) (hc : CountInv s) (hx : SubIdx s) (hi : EscrowSplit s) :
    EscrowSplit (deliver s m).1 := by
  have hx0 : SubIdx { s with events := [] } := SubIdx.of_view (s := s) rfl hx
  unfold deliver
  simp only []
  cases hr : (do m.validateBasic; m.handle { s with events := [] } : M State) with
  | ok s' =>
    simp only [bind_eq_ok] at hr
    obtain ⟨u, hv, hh⟩ := hr
    exact handle_escrow hh hv hc.clearEvents hx0 hi.clearEvents
  | error e => cases e <;> exact hi.clearEvents

theorem gov_escrow (s : State) (c : ParamChange) (hi : EscrowSplit s) : EscrowSplit ((gov s c).getD s) := by
  cases hg : gov s c with
  | none => exact hi
  | some s' => exact hi.of_views (gov_subView hg) (gov_deposits hg)

/-! ### BeginBlock -/

theorem payoutFold_escrow (l : List (Time × Nat)) (hl : (l.map (·.2)).Nodup) (s s' : State)
    (h : l.foldlM (fun s k => panicIfErr (payoutStep s k)) s = .ok s')
    (hk : Keyed s) (hx : SubIdx s) (hlive : ∀ k ∈ l, s.payQ.has k = true) (hi : EscrowSplit s) : EscrowSplit s' := by
  induction l generalizing s with
  | nil => simp only [List.foldlM, pure_eq_ok] at h; rw [← h]; exact hi
  | cons k rest ih =>
    simp only [List.foldlM, bind_eq_ok, panicIfErr_eq_ok] at h
    obtain ⟨s1, h1, h2⟩ := h
    simp only [List.map_cons, List.nodup_cons] at hl
    refine ih hl.2 s1 h2 (payoutStep_keyed h1 hk) (payoutStep_subIdx h1 (hlive k (by simp)) hk hx) ?_
      (payoutStep_escrow h1 hk hx hi)
    intro k' hk'
    have hne : k'.2 ≠ k.2 := by
      intro e; exact hl.1 (e ▸ List.mem_map.mpr ⟨k', hk', rfl⟩)
    obtain ⟨item, hitem, hv⟩ := payoutStep_view h1
    have hid : item.id = k.2 := hk.payouts _ _ hitem
    have e : s1.payQ = (subView s1).payQ := rfl
    rw [e, hv]
    simp only []
    have hold := hlive k' (by simp [hk'])
    obtain ⟨t', i'⟩ := k'
    simp only at hne
    split <;> simp [Tbl.has_set_B, Tbl.has_erase_B, hid, Ne.symm hne, hold]

theorem beginBlock_escrow {s s' : State} {t : Time} (h : beginBlock s t = .ok s') (hk : Keyed s) (hx : SubIdx s)
    (hi : EscrowSplit s) : EscrowSplit s' := by
  unfold beginBlock haltOf at h
  split at h <;> try contradiction
  rename_i s'' hs
  simp only [Except.ok.injEq] at h
  subst h
  unfold subscriptionBeginBlock at hs
  have e0 : subView (distrSweep (mintBeginBlock { s with time := t, height := s.height + 1, events := [] })) = subView s := by
    rw [subView_distrSweep]; unfold mintBeginBlock; rw [subView_mintBeginBlock_go]; rfl
  have d0 : (distrSweep (mintBeginBlock { s with time := t, height := s.height + 1, events := [] })).deposits = s.deposits := by
    rw [deposits_distrSweep]; unfold mintBeginBlock; rw [deposits_mintBeginBlock_go]
  have hx0 := SubIdx.of_view e0 hx
  have hk0 := Keyed.of_view e0 hk
  refine payoutFold_escrow _ ?_ _ _ hs hk0 hx0 (fun k hk' => mem_dueIds hk') (hi.of_views e0 d0)
  refine List.Nodup.map_on ?_ (nodup_dueIds _ _ hx0.nodup.2.2.2.2.2.2.2.1)
  intro x hx' y hy exy
  obtain ⟨p, _, hp, hn, _⟩ := (hx0.payQ x.1 x.2).mp (mem_dueIds hx')
  obtain ⟨p', _, hp', hn', _⟩ := (hx0.payQ y.1 y.2).mp (mem_dueIds hy)
  rw [exy, hp'] at hp
  simp only [Option.some.injEq] at hp; subst hp
  exact Prod.ext (hn.symm.trans hn') exy

/-! ### EndBlock -/

theorem nodeSweep_deposits {s s' : State} (h : nodeSweep s = .ok s') : s'.deposits = s.deposits :=
  deposits_of_view (nodeSweep_view h)

theorem nodeExpire_deposits {s s' : State} (h : nodeExpire s = .ok s') : s'.deposits = s.deposits :=
  deposits_of_view (nodeExpire_view h)

theorem endBlock_escrow {s s' : State} (h : endBlock s = .ok s') (hk : Keyed s) (hx : SubIdx s) (hal : AllocInv s)
    (hi : EscrowSplit s) : EscrowSplit s' := by
  unfold endBlock haltOf at h
  split at h <;> try contradiction
  rename_i s2 hs
  split at hs <;> try contradiction
  rename_i s3 hs3
  simp only [Except.ok.injEq] at hs h
  subst hs; subst h
  unfold vpnEndBlock nodeEndBlock at hs3
  simp only [bind_eq_ok] at hs3
  obtain ⟨s1, ⟨sa, ha, hb⟩, sb, hc, hd⟩ := hs3
  have e1 : subView s1 = subView s := by rw [nodeExpire_subView hb, nodeSweep_subView ha]; rfl
  have e2 : psView s1 = psView s := by rw [nodeExpire_psView hb, nodeSweep_psView ha]; rfl
  have d1 : s1.deposits = s.deposits := by rw [nodeExpire_deposits hb, nodeSweep_deposits ha]
  have i1 : ((SubIdx s1 ∧ Keyed s1) ∧ AllocInv s1) ∧ EscrowSplit s1 :=
    ⟨⟨⟨SubIdx.of_view e1 hx, Keyed.of_view e1 hk⟩, AllocInv.of_views e1 e2 hal⟩, hi.of_views e1 d1⟩
  have i2 : ((SubIdx sb ∧ Keyed sb) ∧ AllocInv sb) ∧ EscrowSplit sb :=
    foldlM_inv (fun s => ((SubIdx s ∧ Keyed s) ∧ AllocInv s) ∧ EscrowSplit s) _
      (fun s0 k s1 h1 hp => ⟨⟨sessionStep_subIdx' h1 hp.1.1.2 hp.1.1.1, sessionStep_allocInv h1 hp.1.2⟩,
        sessionStep_escrow h1 hp.1.1.2 hp.1.1.1 hp.1.2 hp.2⟩) _ _ _ hc i1
  have i3 : ((SubIdx s3 ∧ Keyed s3) ∧ AllocInv s3) ∧ EscrowSplit s3 :=
    foldlM_inv (fun s => ((SubIdx s ∧ Keyed s) ∧ AllocInv s) ∧ EscrowSplit s) _
      (fun s0 k s1 h1 hp => ⟨⟨subscriptionStep_subIdx h1 hp.1.1.2 hp.1.1.1, subscriptionStep_allocInv h1 hp.1.2⟩,
        subscriptionStep_escrow h1 hp.1.1.2 hp.1.1.1 hp.1.2.bounds hp.2⟩) _ _ _ hd i2
  exact i3.2.of_views (s := s3) rfl rfl

/-! ### one operation, genesis, every history -/

/-- **`EscrowSplit` is kept by every operation**, given the structural invariants of the pre-state. -/
theorem step_escrowSplit {s s' : State} {op : Op} (h : step s op = some s') (hs : StructInv s) (hi : EscrowSplit s) :
    EscrowSplit s' := by
  cases op with
  | tx m =>
    simp only [step, Option.some.injEq] at h
    rw [← h]; exact deliver_escrow s m hs.count hs.subIdx hi
  | begin t =>
    simp only [step] at h
    split at h
    · rename_i s1 hb
      simp only [Option.some.injEq] at h; rw [← h]; exact beginBlock_escrow hb hs.count.keyed hs.subIdx hi
    · contradiction
  | endB =>
    simp only [step] at h
    split at h
    · rename_i s1 hb
      simp only [Option.some.injEq] at h; rw [← h]; exact endBlock_escrow hb hs.count.keyed hs.subIdx hs.alloc hi
    · contradiction
  | gov c =>
    simp only [step, Option.some.injEq] at h
    rw [← h]; exact gov_escrow s c hi

theorem genesis_escrowSplit (g : Genesis) : EscrowSplit g.state := by
  have e1 : subView g.state = subView g.base := by
    unfold Genesis.state
    exact foldl_inv (fun s' => subView s' = subView g.base) addBalance
      (fun s0 b h => (subView_addBalance s0 b).trans h) _ _ rfl
  have d1 : g.state.deposits = g.base.deposits := by
    unfold Genesis.state
    exact foldl_inv (fun s' => s'.deposits = g.base.deposits) addBalance
      (fun s0 b h => (deposits_addBalance s0 b).trans h) _ _ rfl
  refine EscrowSplit.of_views e1 d1 ?_
  refine ⟨fun a d => ?_, fun i x hx => ?_⟩
  · rfl
  · simp [Genesis.base, Tbl.get] at hx

theorem escrowSplit_all_histories_from (ops : List Op) (s : State) (hs : StructInv s) (hi : EscrowSplit s) :
    ∀ s' ∈ runTrace s ops, EscrowSplit s' := by
  induction ops generalizing s with
  | nil => intro s' h; simp [runTrace] at h
  | cons op rest ih =>
    intro s' h
    simp only [runTrace] at h
    cases hst : step s op with
    | none => simp [hst] at h
    | some s1 =>
      simp only [hst, List.mem_cons] at h
      have h1 := step_escrowSplit hst hs hi
      rcases h with rfl | h
      · exact h1
      · exact ih s1 (step_structInv hst hs) h1 s' h

/-- **Every state of every history from every genesis satisfies `EscrowSplit`** — no hypotheses. -/
theorem escrowSplit_all_histories (g : Genesis) (ops : List Op) : ∀ s ∈ runTrace g.state ops, EscrowSplit s :=
  escrowSplit_all_histories_from ops g.state (genesis_structInv g) (genesis_escrowSplit g)

theorem reachable_escrowSplit {s : State} (h : Reachable s) : EscrowSplit s := by
  obtain ⟨g, ops, h | h⟩ := h
  · rw [h]; exact genesis_escrowSplit g
  · exact escrowSplit_all_histories g ops s h


/-! ### where the money goes: bank balances under the deposit keeper's transfers -/

theorem balance_bank {s s' : State} (h : s'.bank = s.bank) (a : Addr) (d : Denom) : balance s' a d = balance s a d := by
  unfold balance; rw [h]

theorem bank_putDeposit (s : State) (a : Addr) (cs : Coins) : (putDeposit s a cs).bank = s.bank := by
  unfold putDeposit; split <;> rfl

theorem depositToAccount_balance {s s' : State} {f t : Addr} {c : Coin} (h : depositToAccount s f t c = .ok s')
    (a : Addr) (d : Denom) :
    balance s' a d = balance s a d - (if depositAddr = a ∧ c.denom = d then c.amount else 0) +
      (if t = a ∧ c.denom = d then c.amount else 0) := by
  unfold depositToAccount sendModuleToAccount at h
  simp only [bind_eq_ok, pure_eq_ok, require_eq_ok, orReject_eq_ok] at h
  obtain ⟨cur, hcur, _, _, s1, hs1, rfl⟩ := h
  split at hs1
  · simp [reject] at hs1
  · rw [balance_bank (s := s1) (by simp only [emit, bank_putDeposit])]
    exact (sendCoins_ok hs1).1 a d

theorem depositToModule_balance {s s' : State} {f m : Addr} {c : Coin} (h : depositToModule s f m c = .ok s')
    (a : Addr) (d : Denom) :
    balance s' a d = balance s a d - (if depositAddr = a ∧ c.denom = d then c.amount else 0) +
      (if m = a ∧ c.denom = d then c.amount else 0) := by
  unfold depositToModule at h
  simp only [bind_eq_ok, pure_eq_ok, require_eq_ok, orReject_eq_ok] at h
  obtain ⟨cur, hcur, _, _, s1, hs1, rfl⟩ := h
  rw [balance_bank (s := s1) (by simp only [emit, bank_putDeposit])]
  exact (sendCoins_ok hs1).1 a d

theorem subtractDeposit_balance {s s' : State} {a0 : Addr} {c : Coin} (h : subtractDeposit s a0 c = .ok s')
    (a : Addr) (d : Denom) :
    balance s' a d = balance s a d - (if depositAddr = a ∧ c.denom = d then c.amount else 0) +
      (if a0 = a ∧ c.denom = d then c.amount else 0) := by
  unfold subtractDeposit at h
  split at h
  · rename_i hz
    rw [pure_eq_ok] at h; subst h; rw [hz]; simp
  · exact depositToAccount_balance h a d

theorem sendCoinFromDepositToAccount_balance {s s' : State} {f t : Addr} {c : Coin}
    (h : sendCoinFromDepositToAccount s f t c = .ok s') (a : Addr) (d : Denom) :
    balance s' a d = balance s a d - (if depositAddr = a ∧ c.denom = d then c.amount else 0) +
      (if t = a ∧ c.denom = d then c.amount else 0) := by
  unfold sendCoinFromDepositToAccount at h
  split at h
  · rename_i hz
    rw [pure_eq_ok] at h; subst h; rw [hz]; simp
  · exact depositToAccount_balance h a d

theorem sendCoinFromDepositToModule_balance {s s' : State} {f m : Addr} {c : Coin}
    (h : sendCoinFromDepositToModule s f m c = .ok s') (a : Addr) (d : Denom) :
    balance s' a d = balance s a d - (if depositAddr = a ∧ c.denom = d then c.amount else 0) +
      (if m = a ∧ c.denom = d then c.amount else 0) := by
  unfold sendCoinFromDepositToModule at h
  split at h
  · rename_i hz
    rw [pure_eq_ok] at h; subst h; rw [hz]; simp
  · exact depositToModule_balance h a d

/-- A transfer of `amt` of denomination `dn` out of the escrow module account: `fee` to the fee
collector and `net` to `payee`. -/
def PaidOut (s s' : State) (dn : Denom) (payee : Addr) (fee net : Int) : Prop :=
  ∀ a d, balance s' a d = balance s a d - (if depositAddr = a ∧ dn = d then fee + net else 0) +
    (if feeCollectorAddr = a ∧ dn = d then fee else 0) + (if payee = a ∧ dn = d then net else 0)

/-- **An hourly payout pays exactly the hourly price**: the payer's escrow record loses the price, the
fee collector and the node receive, together, the same amount; no other record or balance moves. -/
theorem payoutStep_pays {s s' : State} {k : Time × Nat} (h : payoutStep s k = .ok s') :
    ∃ item fee net, s.payouts.get k.2 = some item ∧ 0 ≤ fee ∧ 0 ≤ net ∧ fee + net = item.price.amount ∧
      (∀ a d, escrowOf s' a d = escrowOf s a d - (if item.addr = a ∧ item.price.denom = d then item.price.amount else 0)) ∧
      PaidOut s s' item.price.denom item.node fee net := by
  obtain ⟨item, hitem, hD⟩ := payoutStep_escrowOf h
  unfold payoutStep at h
  simp only [bind_eq_ok, pure_eq_ok, requireP_eq_ok, orPanic_eq_ok] at h
  obtain ⟨item', hitem', reward, hrw, s2, h2, payAmt, hpa, _, hnn, s3, h3, rfl⟩ := h
  rw [hitem] at hitem'; cases hitem'
  have hden := proportion_denom hrw
  have hpay := SInt.sub_eq_ok hpa
  have hr0 : 0 ≤ reward.amount := by
    unfold GetProportionOfCoin at hrw
    simp only [bind_eq_ok] at hrw
    obtain ⟨t1, _, t2, _, h3'⟩ := hrw
    obtain ⟨e, h0⟩ := newCoin_eq_ok h3'
    rw [e]; exact h0
  refine ⟨item, reward.amount, payAmt, hitem, hr0, by simpa using hnn, by omega, hD, fun a d => ?_⟩
  have b2 := sendCoinFromDepositToModule_balance h2 a d
  have b3 := sendCoinFromDepositToAccount_balance h3 a d
  have b0 : balance { s with payQ := s.payQ.erase (item.nextAt, item.id) } a d = balance s a d := rfl
  rw [b0, hden] at b2
  simp only [] at b3
  have : balance s3 a d = balance s a d - (if depositAddr = a ∧ item.price.denom = d then reward.amount + payAmt else 0) +
      (if feeCollectorAddr = a ∧ item.price.denom = d then reward.amount else 0) +
      (if item.node = a ∧ item.price.denom = d then payAmt else 0) := by
    rw [b3, b2]; split <;> omega
  rw [← this]
  split <;> exact balance_bank (by simp only [emit]) a d

/-- **A settlement pays exactly the price of the newly accounted bytes** (`charge after − charge before`
at the subscription's price per gigabyte): out of the payer's escrow record, to the fee collector and
the node together. -/
theorem settleSession_pays {s s' : State} {x : Session} {acc node : Addr} {dep : Coin} {gb before after : Int}
    (h : settleSession s x acc node dep gb before after = .ok s') (hb : 0 ≤ before) (ha : 0 ≤ after) :
    ∃ fee net, 0 ≤ fee ∧ 0 ≤ net ∧
      fee + net = charge (Int.tdiv dep.amount gb) after - charge (Int.tdiv dep.amount gb) before ∧
      (∀ a d, escrowOf s' a d = escrowOf s a d -
        (if acc = a ∧ dep.denom = d then charge (Int.tdiv dep.amount gb) after - charge (Int.tdiv dep.amount gb) before else 0)) ∧
      PaidOut s s' dep.denom node fee net := by
  obtain ⟨_, hD⟩ := settleSession_escrowOf h hb ha
  unfold settleSession subGigabytePrice at h
  simp only [bind_eq_ok, pure_eq_ok, requireP_eq_ok] at h
  obtain ⟨price, ⟨q, hq, hprice⟩, prev, hprev, cur, hcur, payAmt, hpay, payment, hpm, reward, hrw, s1, h1, netAmt, hnet, _, hnn,
    s2, h2, rfl⟩ := h
  obtain ⟨hgb, eq⟩ := quo_eq_ok hq
  obtain ⟨eprice, hq0⟩ := newCoin_eq_ok hprice
  subst eprice
  have eprev := charge_of_afb hq0 hb hprev
  have ecur := charge_of_afb hq0 ha hcur
  have epay := SInt.sub_eq_ok hpay
  obtain ⟨epm, _⟩ := newCoin_eq_ok hpm
  subst epm
  have hden := proportion_denom hrw
  have enet := SInt.sub_eq_ok hnet
  have hr0 : 0 ≤ reward.amount := by
    unfold GetProportionOfCoin at hrw
    simp only [bind_eq_ok] at hrw
    obtain ⟨t1, _, t2, _, h3'⟩ := hrw
    obtain ⟨e, h0⟩ := newCoin_eq_ok h3'
    rw [e]; exact h0
  refine ⟨reward.amount, netAmt, hr0, by simpa using hnn, ?_, hD, fun a d => ?_⟩
  · rw [enet, epay, ecur, eprev, eq]; simp only []; omega
  · have b1 := sendCoinFromDepositToModule_balance h1 a d
    have b2 := sendCoinFromDepositToAccount_balance h2 a d
    have b3 : ∀ e, balance (emit s2 e) a d = balance s2 a d := fun _ => rfl
    rw [hden] at b1
    simp only [] at b1 b2
    rw [b3, b2, b1]; split <;> omega


theorem paidOut_zero (s : State) (dn : Denom) (payee : Addr) : PaidOut s s dn payee 0 0 := by
  intro a d; simp

theorem PaidOut.of_bank {s s1 s' : State} {dn : Denom} {payee : Addr} {fee net : Int} (h : PaidOut s s1 dn payee fee net)
    (hb : s'.bank = s1.bank) : PaidOut s s' dn payee fee net := by
  intro a d; rw [balance_bank hb]; exact h a d

theorem PaidOut.of_bank_left {s0 s s' : State} {dn : Denom} {payee : Addr} {fee net : Int} (h : PaidOut s0 s' dn payee fee net)
    (hb : s0.bank = s.bank) : PaidOut s s' dn payee fee net := by
  intro a d; rw [← balance_bank hb]; exact h a d

/-- **The refund is exactly the unsettled part**: `refundSub` moves the coin `c` with `c = rem` of the
removed subscription from the escrow module account to the subscriber, out of the subscriber's own
escrow record; nothing else moves. -/
theorem refundSub_refund {s s' : State} {item : Sub} (h : refundSub s item = .ok s')
    (hw : SubWF s.allocs s.payouts item.id item) (hab : AllocBounds s) :
    ∃ c : Coin, 0 ≤ c.amount ∧ (∀ d, rem s.allocs s.payouts item.id item d = if c.denom = d then c.amount else 0) ∧
      (∀ a d, escrowOf s' a d = escrowOf s a d - (if item.addr = a ∧ c.denom = d then c.amount else 0)) ∧
      (∀ a d, balance s' a d = balance s a d - (if depositAddr = a ∧ c.denom = d then c.amount else 0) +
        (if item.addr = a ∧ c.denom = d then c.amount else 0)) := by
  unfold refundSub at h
  cases hkd : item.kind with
  | plan pid dn =>
    rw [hkd] at h
    simp only [pure_eq_ok] at h
    subst h
    exact ⟨⟨"", 0⟩, le_refl _, fun d => by rw [rem_plan hkd]; simp, fun a d => by simp, fun a d => by simp⟩
  | node n gb hr dep =>
    rw [hkd] at h
    simp only [bind_eq_ok] at h
    obtain ⟨s1, h1, h2⟩ := h
    unfold SubWF at hw
    rw [hkd] at hw
    simp only [] at hw
    obtain ⟨hdep, ⟨hgb, hhr, al, hal, _⟩ | ⟨hgb, hhr, p, hp, h3, h4, h5, h6, h7⟩⟩ := hw
    · have hgb' : gb ≠ 0 := by omega
      simp only [hgb', ne_eq, not_false_eq_true, if_true] at h1
      simp only [hhr, ne_eq, not_true_eq_false, if_false, pure_eq_ok] at h2
      subst h2
      unfold refundGB subGigabytePrice at h1
      simp only [bind_eq_ok, pure_eq_ok, orPanic_eq_ok, panicIfErr_eq_ok] at h1
      obtain ⟨price, ⟨q, hq, hprice⟩, a, ha, paid, hpaid, ra, hra, refund, hrf, s2, h2', rfl⟩ := h1
      rw [hal] at ha; cases ha
      obtain ⟨_, eq⟩ := quo_eq_ok hq
      obtain ⟨eprice, hq0⟩ := newCoin_eq_ok hprice
      subst eprice
      have epaid := charge_of_afb hq0 (hab _ _ hal).1 hpaid
      have era := SInt.sub_eq_ok hra
      obtain ⟨erf, hra0⟩ := newCoin_eq_ok hrf
      subst erf
      refine ⟨⟨dep.denom, ra⟩, hra0, fun d => ?_, fun a0 d => ?_, fun a0 d => ?_⟩
      · rw [rem_gb hkd hgb', usedOf_some hal, era, epaid, eq]
      · have e3 : ∀ e, escrowOf (emit s2 e) a0 d = escrowOf s2 a0 d := fun _ => rfl
        rw [e3, subtractDeposit_escrow h2' a0 d]
      · have e3 : ∀ e, balance (emit s2 e) a0 d = balance s2 a0 d := fun _ => rfl
        rw [e3, subtractDeposit_balance h2' a0 d]
    · subst hgb
      simp only [ne_eq, not_true_eq_false, if_false, pure_eq_ok] at h1
      subst h1
      have hhr' : hr ≠ 0 := by omega
      simp only [hhr', ne_eq, not_false_eq_true, if_true] at h2
      unfold refundHr at h2
      simp only [bind_eq_ok, pure_eq_ok, orPanic_eq_ok, panicIfErr_eq_ok] at h2
      obtain ⟨p', hp', ra, hra, refund, hrf, s2, h2', rfl⟩ := h2
      rw [hp] at hp'; cases hp'
      have era := SInt.mul_eq_ok hra
      obtain ⟨erf, hra0⟩ := newCoin_eq_ok hrf
      subst erf
      rw [h3] at h2'
      refine ⟨⟨p.price.denom, ra⟩, hra0, fun d => ?_, fun a0 d => ?_, fun a0 d => ?_⟩
      · rw [rem_hr hkd hp, era]
      · have e3 : ∀ e, escrowOf (emit s2 e) a0 d = escrowOf s2 a0 d := fun _ => rfl
        rw [e3, subtractDeposit_escrow h2' a0 d]
      · have e3 : ∀ e, balance (emit s2 e) a0 d = balance s2 a0 d := fun _ => rfl
        rw [e3, subtractDeposit_balance h2' a0 d]

/-- **Removal settles exactly.** When the subscription pass of EndBlock removes subscription `k.2`
(record `item`, no longer active), the record disappears and the coin `c` refunded — moved from the
escrow module account to the subscriber's balance, out of the subscriber's own escrow record — is
exactly the unsettled part `rem` of the subscription. -/
theorem subscriptionStep_removal {s s' : State} {d : Dur} {k : Time × Nat} {item : Sub}
    (h : subscriptionStep d s k = .ok s') (hitem : s.subs.get k.2 = some item) (hst : item.status ≠ .StatusActive)
    (hk : Keyed s) (hab : AllocBounds s) (hi : EscrowSplit s) :
    s'.subs = s.subs.erase k.2 ∧
    ∃ c : Coin, 0 ≤ c.amount ∧ (∀ dn, rem s.allocs s.payouts k.2 item dn = if c.denom = dn then c.amount else 0) ∧
      (∀ a dn, escrowOf s' a dn = escrowOf s a dn - (if item.addr = a ∧ c.denom = dn then c.amount else 0)) ∧
      (∀ a dn, balance s' a dn = balance s a dn - (if depositAddr = a ∧ c.denom = dn then c.amount else 0) +
        (if item.addr = a ∧ c.denom = dn then c.amount else 0)) := by
  have hid : item.id = k.2 := hk.subs _ _ hitem
  have hw := hi.wf _ _ hitem
  obtain ⟨item', hitem', hor⟩ := subscriptionStep_tables h
  rw [hitem] at hitem'; cases hitem'
  rcases hor with ⟨hact, _⟩ | ⟨_, eS, _, _⟩
  · exact absurd hact hst
  · refine ⟨by rw [← hid]; exact eS, ?_⟩
    unfold subscriptionStep at h
    simp only [bind_eq_ok, orPanic_eq_ok] at h
    obtain ⟨item', hitem', h⟩ := h
    rw [hitem] at hitem'; cases hitem'
    simp only [hst, if_false, bind_eq_ok] at h
    obtain ⟨s2, h2, h3⟩ := h
    rw [← hid] at hw ⊢
    obtain ⟨c, hc0, hrem, hD, hB⟩ := refundSub_refund h2 hw (fun k al hg => hab k al hg)
    have hv : view s' = view s2 := (removePayout_view h3).trans (view_removeSubRecords s2 item)
    refine ⟨c, hc0, hrem, fun a dn => ?_, fun a dn => ?_⟩
    · rw [escrowOf_deposits (deposits_of_view hv), hD a dn]; rfl
    · rw [balance_bank (congrArg MoneyView.bank hv), hB a dn]; rfl

/-- **A session is settled out of its subscriber's escrow record only, for exactly the drop of the
subscription's unsettled part.**  `fee + net`, of denomination `dn`, leaves the escrow record of the
owner of the session's subscription and reaches the fee collector and the node. -/
theorem sessionInactiveHook_pays {s s' : State} {id : Nat} {acc node : Addr} {bytes : Int}
    (h : sessionInactiveHook s id acc node bytes = .ok s') (hb : 0 ≤ bytes) (hk : Keyed s) (hx : SubIdx s)
    (hab : AllocBounds s) (hi : EscrowSplit s) :
    ∃ x sub dn fee net, s.sessions.get id = some x ∧ s.subs.get x.sub = some sub ∧ s'.subs = s.subs ∧ 0 ≤ fee ∧ 0 ≤ net ∧
      (∀ d, rem s.allocs s.payouts x.sub sub d - rem s'.allocs s'.payouts x.sub sub d = if dn = d then fee + net else 0) ∧
      (∀ a d, escrowOf s' a d = escrowOf s a d - (if sub.addr = a ∧ dn = d then fee + net else 0)) ∧
      PaidOut s s' dn node fee net := by
  unfold sessionInactiveHook at h
  simp only [bind_eq_ok, require_eq_ok, orReject_eq_ok] at h
  obtain ⟨x, hxs, _, hst, sub, hsub, h⟩ := h
  have hid : sub.id = x.sub := hk.subs _ _ hsub
  refine ⟨x, sub, ?_⟩
  split at h
  · rw [pure_eq_ok] at h; subst h
    exact ⟨"", 0, 0, hxs, hsub, rfl, le_refl _, le_refl _, fun d => by simp, fun a d => by simp, paidOut_zero _ _ _⟩
  · rename_i hh
    simp only [bind_eq_ok, orReject_eq_ok] at h
    obtain ⟨a, ha, used, hu, h⟩ := h
    have hu' := SInt.add_eq_ok hu
    subst hu'
    obtain ⟨ka1, ka2⟩ := hk.allocs _ _ _ ha
    have hbnd := hab _ _ ha
    have hbnd' := allocAfterUse_bounds hbnd hb
    rw [← hid] at hsub
    have hw := hi.wf _ _ hsub
    generalize hS1 : emit (setAllocation s (allocAfterUse a (a.used + bytes))) _ = S1 at h
    have eS1 : S1.subs = s.subs := by rw [← hS1]; simp only [emit, setAllocation]
    have eA1 : S1.allocs = s.allocs.set (sub.id, acc) (allocAfterUse a (a.used + bytes)) := by
      rw [← hS1]; simp only [emit, setAllocation, allocAfterUse, ka1, ka2]
    have eP1 : S1.payouts = s.payouts := by rw [← hS1]; simp only [emit, setAllocation]
    have eD1 : S1.deposits = s.deposits := by rw [← hS1]; simp only [emit, setAllocation]
    have eB1 : S1.bank = s.bank := by rw [← hS1]; simp only [emit, setAllocation]
    cases hkd : sub.kind with
    | plan pid dn =>
      simp only [gbInfo, hkd, pure_eq_ok] at h
      subst h
      refine ⟨"", 0, 0, hxs, by rw [← hid]; exact hsub, eS1, le_refl _, le_refl _, fun d => ?_, fun a0 d => ?_, ?_⟩
      · rw [rem_plan hkd, rem_plan hkd]; simp
      · rw [escrowOf_deposits eD1]; simp
      · exact (paidOut_zero s _ _).of_bank eB1
    | node n gb hr dep =>
      have hhr : hr = 0 := by
        unfold isHourly at hh; rw [hkd] at hh; simpa using hh
      subst hhr
      have hw' := hw
      unfold SubWF at hw'
      rw [hkd] at hw'
      simp only [] at hw'
      obtain ⟨hdep, ⟨hgb, _, al, hal, hgr⟩ | ⟨_, hcontra, _⟩⟩ := hw'
      · have hacc : acc = sub.addr :=
          hx.nodeSubAlloc _ _ _ hsub (by unfold isPlanSub; rw [hkd]) (Tbl.has_of_get_B ha)
        subst hacc
        have hgb' : gb ≠ 0 := by omega
        simp only [gbInfo, hkd, hgb', ne_eq, not_false_eq_true, if_true] at h
        obtain ⟨fee, net, hf0, hn0, hsum, hD, hP⟩ := settleSession_pays h hbnd.1 hbnd'.1
        have hfr := settleSession_frame h
        have v := subView_of_moneyFrame hfr
        have eS : s'.subs = s.subs := (congrArg SubView.subs v).trans eS1
        have eA : s'.allocs = s.allocs.set (sub.id, sub.addr) (allocAfterUse a (a.used + bytes)) :=
          (congrArg SubView.allocs v).trans eA1
        have hget' : s'.allocs.get (sub.id, sub.addr) = some (allocAfterUse a (a.used + bytes)) := by
          rw [eA, Tbl.get_set]; simp
        refine ⟨dep.denom, fee, net, hxs, by rw [← hid]; exact hsub, eS, hf0, hn0, fun d => ?_, fun a0 d => ?_,
          hP.of_bank_left eB1⟩
        · rw [← hid, rem_gb hkd hgb', rem_gb hkd hgb', usedOf_some ha, usedOf_some hget', hsum]
          by_cases e2 : dep.denom = d <;> simp [e2]
        · rw [hD a0 d, escrowOf_deposits eD1, hsum]
      · omega

end Hub.Model.Escrow
