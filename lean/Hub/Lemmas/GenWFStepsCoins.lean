import Hub.Lemmas.Coins
import Hub.Model.Block
import Mathlib.Data.String.Basic
import Mathlib.Data.List.Pairwise
/-
Coin-set validity (`Coins.isValid`: valid denominations, positive amounts, strictly sorted) is kept by
the only operations the hub performs on stored coin sets: adding one valid positive coin, subtracting
one coin when the result has no negative amount, and the node re-pricing clamp (`clampPrices`).
Used by `Hub/Lemmas/GenWFSteps.lean` (deposit records and node prices stay genesis-valid).
-/
namespace Hub.Model.GenWFSteps
open Hub.SDK Hub.Model

/-- `Coins.isValid` as a proposition. -/
def IsV (cs : Coins) : Prop :=
  (∀ c ∈ cs, validDenom c.denom = true ∧ 0 < c.amount) ∧ cs.Pairwise (fun a b => a.denom < b.denom)

theorem sortedStrict_iff : ∀ cs : Coins, Coins.sortedStrict cs = true ↔ cs.Pairwise (fun a b => a.denom < b.denom)
  | [] => by simp [Coins.sortedStrict]
  | [a] => by simp [Coins.sortedStrict]
  | a :: b :: rest => by
    have ih := sortedStrict_iff (b :: rest)
    unfold Coins.sortedStrict
    simp only [Bool.and_eq_true, decide_eq_true_eq]
    rw [ih]
    constructor
    · rintro ⟨h1, h2⟩
      refine List.Pairwise.cons ?_ h2
      intro x hx
      rcases List.mem_cons.mp hx with e | e
      · rw [e]; exact h1
      · exact lt_trans h1 (List.rel_of_pairwise_cons h2 e)
    · intro h
      exact ⟨List.rel_of_pairwise_cons h (List.mem_cons_self ..), List.Pairwise.of_cons h⟩

theorem isValid_iff (cs : Coins) : cs.isValid = true ↔ IsV cs := by
  unfold Coins.isValid IsV
  simp only [Bool.and_eq_true, List.all_eq_true, decide_eq_true_eq, sortedStrict_iff, gt_iff_lt]

theorem isV_nil : IsV [] := ⟨fun _ h => by simp at h, List.Pairwise.nil⟩

theorem mem_insertSorted (cs : Coins) (c x : Coin) : x ∈ Coins.insertSorted cs c ↔ x = c ∨ x ∈ cs := by
  induction cs with
  | nil => simp [Coins.insertSorted]
  | cons y rest ih =>
    unfold Coins.insertSorted
    split
    · simp
    · simp only [List.mem_cons, ih]; tauto

theorem insertSorted_ne_nil (cs : Coins) (c : Coin) : (Coins.insertSorted cs c).length ≠ 0 := by
  cases cs with
  | nil => simp [Coins.insertSorted]
  | cons y rest => unfold Coins.insertSorted; split <;> simp

theorem insertSorted_pairwise {cs : Coins} {c : Coin} (hp : cs.Pairwise (fun a b => a.denom < b.denom))
    (hn : ∀ x ∈ cs, x.denom ≠ c.denom) : (Coins.insertSorted cs c).Pairwise (fun a b => a.denom < b.denom) := by
  induction cs with
  | nil => simp [Coins.insertSorted]
  | cons y rest ih =>
    unfold Coins.insertSorted
    split
    · rename_i hlt
      refine List.Pairwise.cons ?_ hp
      intro x hx
      rcases List.mem_cons.mp hx with e | e
      · rw [e]; exact hlt
      · exact lt_trans hlt (List.rel_of_pairwise_cons hp e)
    · rename_i hlt
      refine List.Pairwise.cons ?_ (ih (List.Pairwise.of_cons hp) (fun x hx => hn x (List.mem_cons_of_mem _ hx)))
      intro x hx
      rw [mem_insertSorted] at hx
      rcases hx with e | e
      · rw [e]
        rcases lt_or_gt_of_ne (hn y (List.mem_cons_self ..)) with h | h
        · exact h
        · exact absurd h hlt
      · exact List.rel_of_pairwise_cons hp e

theorem find?_none_ne {cs : Coins} {d : Denom} (h : cs.find? (·.denom = d) = none) : ∀ x ∈ cs, x.denom ≠ d := by
  intro x hx
  have := List.find?_eq_none.mp h x hx
  simpa using this

theorem find?_some_mem {cs : Coins} {d : Denom} {x : Coin} (h : cs.find? (·.denom = d) = some x) : x ∈ cs ∧ x.denom = d := by
  refine ⟨List.mem_of_find?_eq_some h, ?_⟩
  have := List.find?_some h
  simpa using this

/-- The one-coin update keeps validity when the updated amount stays non-negative (a zero result is
dropped) and a new denomination comes with a positive amount and a valid name. -/
theorem addAmt_isV {cs : Coins} {d : Denom} {a : Int} (hv : IsV cs)
    (h : match cs.find? (·.denom = d) with
         | some x => 0 ≤ x.amount + a
         | none => a = 0 ∨ (0 < a ∧ validDenom d = true)) : IsV (Coins.addAmt cs d a) := by
  unfold Coins.addAmt
  cases hf : cs.find? (·.denom = d) with
  | some x =>
    rw [hf] at h
    simp only [] at h ⊢
    obtain ⟨hx, hxd⟩ := find?_some_mem hf
    split
    · refine ⟨fun c hc => hv.1 c (List.mem_of_mem_filter hc), hv.2.filter _⟩
    · rename_i hne
      refine ⟨?_, ?_⟩
      · intro c hc
        obtain ⟨y, hy, rfl⟩ := List.mem_map.mp hc
        split
        · rename_i hyd
          have hxy : y = x := by
            by_contra hxy
            have hp := hv.2
            rw [List.pairwise_iff_forall_sublist] at hp
            rcases List.mem_iff_getElem.mp hy with ⟨i, hi, rfl⟩
            rcases List.mem_iff_getElem.mp hx with ⟨j, hj, rfl⟩
            have hij : i ≠ j := fun e => hxy (by subst e; rfl)
            rcases Nat.lt_or_gt_of_ne hij with hlt | hlt
            · have := List.pairwise_iff_getElem.mp hv.2 i j hi hj hlt
              rw [hyd, hxd] at this; exact lt_irrefl _ this
            · have := List.pairwise_iff_getElem.mp hv.2 j i hj hi hlt
              rw [hyd, hxd] at this; exact lt_irrefl _ this
          subst hxy
          refine ⟨?_, by show 0 < y.amount + a; omega⟩
          show validDenom d = true
          rw [← hyd]; exact (hv.1 y hy).1
        · exact hv.1 y hy
      · rw [List.pairwise_map]
        refine hv.2.imp ?_
        intro p q hpq
        have e1 : (if p.denom = d then (⟨d, p.amount + a⟩ : Coin) else p).denom = p.denom := by split <;> simp_all
        have e2 : (if q.denom = d then (⟨d, q.amount + a⟩ : Coin) else q).denom = q.denom := by split <;> simp_all
        rw [e1, e2]; exact hpq
  | none =>
    rw [hf] at h
    simp only [] at h ⊢
    split
    · exact hv
    · rename_i hne
      rcases h with h | ⟨ha, hd⟩
      · exact absurd h hne
      · refine ⟨?_, insertSorted_pairwise hv.2 (find?_none_ne hf)⟩
        intro c hc
        rw [mem_insertSorted] at hc
        rcases hc with rfl | hc
        · exact ⟨hd, ha⟩
        · exact hv.1 c hc

/-- Adding one positive coin of a valid denomination keeps a valid set valid and makes it non-empty. -/
theorem add_isV {cs : Coins} {c : Coin} (hv : IsV cs) (hd : validDenom c.denom = true) (ha : 0 < c.amount) :
    IsV (cs.add c) ∧ (cs.add c).length ≠ 0 := by
  constructor
  · unfold Coins.add
    apply addAmt_isV hv
    cases hf : cs.find? (·.denom = c.denom) with
    | some x =>
      simp only []
      have := (hv.1 x (find?_some_mem hf).1).2
      omega
    | none => exact Or.inr ⟨ha, hd⟩
  · unfold Coins.add Coins.addAmt
    cases hf : cs.find? (·.denom = c.denom) with
    | some x =>
      simp only []
      obtain ⟨hx, hxd⟩ := find?_some_mem hf
      have hpos := (hv.1 x hx).2
      rw [if_neg (by omega)]
      rw [List.length_map]
      intro h0
      have : cs = [] := List.eq_nil_of_length_eq_zero h0
      rw [this] at hx; simp at hx
    | none =>
      simp only []
      rw [if_neg (by omega)]
      exact insertSorted_ne_nil _ _

/-- Subtracting a non-negative coin keeps validity when the result has no negative amount (the check
`SendCoinsFromDeposit…` performs before writing the record back). -/
theorem sub_isV {cs : Coins} {c : Coin} (hv : IsV cs) (ha : 0 ≤ c.amount) (hn : (cs.sub c).isAnyNegative = false) :
    IsV (cs.sub c) := by
  have hnn := Coins.nonneg_of_not_anyNegative hn
  unfold Coins.sub at hnn ⊢
  apply addAmt_isV hv
  cases hf : cs.find? (·.denom = c.denom) with
  | some x =>
    simp only []
    obtain ⟨hx, hxd⟩ := find?_some_mem hf
    by_cases h0 : x.amount + -c.amount = 0
    · omega
    · unfold Coins.addAmt at hnn
      rw [hf] at hnn
      simp only [h0, if_false] at hnn
      have := hnn ⟨c.denom, x.amount + -c.amount⟩ (List.mem_map.mpr ⟨x, hx, by simp [hxd]⟩)
      exact this
  | none =>
    simp only []
    by_cases h0 : -c.amount = 0
    · exact Or.inl h0
    · exfalso
      unfold Coins.addAmt at hnn
      rw [hf] at hnn
      simp only [h0, if_false] at hnn
      have := hnn ⟨c.denom, -c.amount⟩ ((mem_insertSorted _ _ _).mpr (Or.inl rfl))
      simp only at this
      omega

/-- A coin set that is not all-zero is non-empty. -/
theorem length_ne_zero_of_not_isZero {cs : Coins} (h : cs.isZero = false) : cs.length ≠ 0 := by
  intro h0
  have : cs = [] := List.eq_nil_of_length_eq_zero h0
  subst this
  simp [Coins.isZero] at h

/-! ### the re-pricing clamp -/

theorem amountOf_of_find {cs : Coins} {d : Denom} {x : Coin} (h : cs.find? (·.denom = d) = some x) : cs.amountOf d = x.amount := by
  unfold Coins.amountOf; rw [h]

theorem amountOf_of_find_none {cs : Coins} {d : Denom} (h : cs.find? (·.denom = d) = none) : cs.amountOf d = 0 := by
  unfold Coins.amountOf; rw [h]

/-- One clamp step: remove the whole amount of the bound's denomination, add the bound. -/
theorem clampStep_isV (viol : Int → Int → Bool) {prices : Coins} {c : Coin} (hv : IsV prices)
    (hd : validDenom c.denom = true) (ha : 0 < c.amount) (hne : prices.length ≠ 0) :
    IsV (if viol (prices.amountOf c.denom) c.amount then (prices.sub ⟨c.denom, prices.amountOf c.denom⟩).add c else prices) ∧
    (if viol (prices.amountOf c.denom) c.amount then (prices.sub ⟨c.denom, prices.amountOf c.denom⟩).add c else prices).length ≠ 0 := by
  split
  · have h1 : IsV (prices.sub ⟨c.denom, prices.amountOf c.denom⟩) := by
      unfold Coins.sub
      apply addAmt_isV hv
      show match prices.find? (·.denom = c.denom) with
         | some x => 0 ≤ x.amount + -(prices.amountOf c.denom)
         | none => -(prices.amountOf c.denom) = 0 ∨ (0 < -(prices.amountOf c.denom) ∧ validDenom c.denom = true)
      cases hf : prices.find? (·.denom = c.denom) with
      | some x => simp only []; rw [amountOf_of_find hf]; omega
      | none => simp only []; rw [amountOf_of_find_none hf]; exact Or.inl rfl
    exact add_isV h1 hd ha
  · exact ⟨hv, hne⟩

theorem clampPrices_isV (viol : Int → Int → Bool) (bounds : Coins) (hb : IsV bounds) :
    ∀ prices : Coins, IsV prices → prices.length ≠ 0 →
      IsV (clampPrices viol bounds prices) ∧ (clampPrices viol bounds prices).length ≠ 0 := by
  unfold clampPrices
  have hall : ∀ c ∈ bounds, validDenom c.denom = true ∧ 0 < c.amount := hb.1
  clear hb
  induction bounds with
  | nil => intro prices hv hne; exact ⟨hv, hne⟩
  | cons c rest ih =>
    intro prices hv hne
    simp only [List.foldl_cons]
    have hc := hall c (List.mem_cons_self ..)
    obtain ⟨h1, h2⟩ := clampStep_isV viol hv hc.1 hc.2 hne
    exact ih (fun x hx => hall x (List.mem_cons_of_mem _ hx)) _ h1 h2

end Hub.Model.GenWFSteps
