import Hub.SDK.Bech32
/-
Helper lemmas about the bech32 model (`Hub/SDK/Bech32.lean`).  Core Lean only.

* checksum: one round of `polymod` is "shift, xor the symbol in, xor a mask that depends only on the
  top five bits", so a perturbation confined to the low 25 bits of the state passes through a round
  shifted by five places; six rounds turn the six checksum symbols into the 30-bit number they were
  cut from (`verifyChecksum_createChecksum`);
* charset: `charIndex?` inverts `charOf` below 32; the charset has no '1', no upper-case letter and
  only printable characters;
* `ConvertBits`: bit lists and numbers, the regrouping loop by whole groups, 8→5 with padding
  followed by 5→8 without padding gives the bytes back (`convertBits_roundtrip_full`);
* the decoder applied to the encoder's output (`decodeNoLimit_encodeChars`), and the role layer
  (`addrFromChars_addrToChars`).
-/
namespace Hub.SDK.Bech32

/-! ## Checksum -/

theorem polymodStep_eq (s v : Nat) : polymodStep s v = polymodStep s 0 ^^^ v := by
  unfold polymodStep
  rw [Nat.xor_zero, Nat.xor_assoc, Nat.xor_assoc, Nat.xor_comm v]

theorem and_mask25 (x : Nat) (hx : x < 2 ^ 25) : x &&& 0x1ffffff = x := by
  have h : (0x1ffffff : Nat) = 2 ^ 25 - 1 := by decide
  rw [h, Nat.and_two_pow_sub_one_eq_mod, Nat.mod_eq_of_lt hx]

theorem shr25_small (x : Nat) (hx : x < 2 ^ 25) : x >>> 25 = 0 := by
  rw [Nat.shiftRight_eq_div_pow, Nat.div_eq_of_lt hx]

theorem polymodStep_xor_low (s x v : Nat) (hx : x < 2 ^ 25) :
    polymodStep (s ^^^ x) v = polymodStep s 0 ^^^ ((x <<< 5) ^^^ v) := by
  unfold polymodStep
  rw [Nat.shiftRight_xor_distrib, shr25_small x hx, Nat.xor_zero, Nat.and_xor_distrib_right,
    and_mask25 x hx, Nat.shiftLeft_xor_distrib, Nat.xor_zero]
  ac_rfl

theorem pack5 (m : Nat) : ((m >>> 5) <<< 5) ^^^ (m &&& 31) = m := by
  apply Nat.eq_of_testBit_eq
  intro i
  have h31 : (31 : Nat) = 2 ^ 5 - 1 := by decide
  rw [Nat.testBit_xor, Nat.testBit_and, h31, Nat.testBit_two_pow_sub_one, Nat.testBit_shiftLeft,
    Nat.testBit_shiftRight]
  by_cases h : i < 5
  · have : ¬ i ≥ 5 := by omega
    simp [h, this]
  · have h' : i ≥ 5 := by omega
    have : 5 + (i - 5) = i := by omega
    simp [h, h', this]

theorem genMask_lt (b : Nat) : genMask b < 2 ^ 30 := by
  unfold genMask
  repeat' (first | apply Nat.xor_lt_two_pow | split | decide)

theorem polymodStep_zero_lt (s : Nat) : polymodStep s 0 < 2 ^ 30 := by
  unfold polymodStep
  apply Nat.xor_lt_two_pow _ (genMask_lt _)
  rw [Nat.xor_zero]
  have h : (0x1ffffff : Nat) = 2 ^ 25 - 1 := by decide
  rw [h, Nat.and_two_pow_sub_one_eq_mod, Nat.shiftLeft_eq]
  have := Nat.mod_lt s (show 2 ^ 25 > 0 by decide)
  omega

theorem step_chain (t pm k : Nat) (h : pm >>> (k + 5) < 2 ^ 25) :
    polymodStep (t ^^^ (pm >>> (k + 5))) ((pm >>> k) &&& 31) = polymodStep t 0 ^^^ (pm >>> k) := by
  rw [polymodStep_xor_low _ _ _ h]
  have := pack5 (pm >>> k)
  rw [← Nat.shiftRight_add] at this
  rw [this]

theorem shr_lt (pm a b : Nat) (h : pm < 2 ^ (a + b)) : pm >>> a < 2 ^ b := by
  rw [Nat.shiftRight_eq_div_pow]
  apply Nat.div_lt_of_lt_mul
  rw [← Nat.pow_add]; exact h

theorem polymod_append (a b : List Nat) : polymod (a ++ b) = b.foldl polymodStep (polymod a) := by
  unfold polymod; rw [List.foldl_append]

theorem verifyChecksum_createChecksum (hrp : List Char) (data : List Nat) :
    verifyChecksum hrp (data ++ createChecksum hrp data) = true := by
  unfold verifyChecksum createChecksum
  rw [← List.append_assoc, polymod_append (hrpExpand hrp ++ data), polymod_append (hrpExpand hrp ++ data)]
  generalize polymod (hrpExpand hrp ++ data) = s
  simp only [List.foldl_cons, List.foldl_nil]
  generalize hpm : polymodStep (polymodStep (polymodStep (polymodStep (polymodStep (polymodStep s 0) 0) 0) 0) 0) 0 ^^^ 1 = pm
  have hlt : pm < 2 ^ 30 := by
    rw [← hpm]; exact Nat.xor_lt_two_pow (polymodStep_zero_lt _) (by decide)
  have h30 : pm >>> 30 = 0 := by rw [Nat.shiftRight_eq_div_pow, Nat.div_eq_of_lt hlt]
  have e0 : s = s ^^^ (pm >>> (25 + 5)) := by rw [h30, Nat.xor_zero]
  have e5 : pm &&& 31 = (pm >>> 0) &&& 31 := by rw [Nat.shiftRight_zero]
  rw [e5]
  conv => lhs; lhs; rw [e0]
  rw [step_chain _ pm 25 (by rw [h30]; decide)]
  rw [step_chain _ pm 20 (shr_lt pm 25 5 hlt |> fun h => Nat.lt_of_lt_of_le h (by decide))]
  rw [step_chain _ pm 15 (shr_lt pm 20 10 hlt |> fun h => Nat.lt_of_lt_of_le h (by decide))]
  rw [step_chain _ pm 10 (shr_lt pm 15 15 hlt |> fun h => Nat.lt_of_lt_of_le h (by decide))]
  rw [step_chain _ pm 5 (shr_lt pm 10 20 hlt |> fun h => Nat.lt_of_lt_of_le h (by decide))]
  rw [step_chain _ pm 0 (shr_lt pm 5 25 hlt)]
  rw [Nat.shiftRight_zero, ← hpm, ← Nat.xor_assoc, Nat.xor_self, Nat.zero_xor]
  rfl

/-! charset -/
theorem charset_length : charset.length = 32 := by decide

theorem charOf_mem (n : Nat) : charOf n ∈ charset := by
  unfold charOf
  rw [List.getD_eq_getElem?_getD]
  cases h : charset[n]? with
  | none => decide
  | some c => exact List.mem_of_getElem? h

theorem charIndex_charOf : ∀ n, n < 32 → charIndex? (charOf n) = some n := by decide

theorem charset_printable : ∀ c ∈ charset, printable c = true := by decide
theorem charset_not_upper : ∀ c ∈ charset, c.isUpper = false := by decide
theorem charset_ne_one : ∀ c ∈ charset, c ≠ '1' := by decide
theorem charset_not_space : ∀ c ∈ charset, isGoSpace c = false := by decide

theorem toSyms_map_charOf (l : List Nat) (h : ∀ x ∈ l, x < 32) : toSyms (l.map charOf) = some l := by
  induction l with
  | nil => rfl
  | cons a t ih =>
    have ha := charIndex_charOf a (h a (by simp))
    have ht := ih (fun x hx => h x (by simp [hx]))
    simp only [List.map_cons, toSyms, ha, ht]

/-! bits -/
def ofBitsAcc (acc : Nat) (l : List Bool) : Nat := l.foldl (fun a b => 2 * a + b.toNat) acc

@[simp] theorem ofBitsAcc_nil (acc : Nat) : ofBitsAcc acc [] = acc := rfl
@[simp] theorem ofBitsAcc_cons (acc : Nat) (b : Bool) (l : List Bool) :
    ofBitsAcc acc (b :: l) = ofBitsAcc (2 * acc + b.toNat) l := rfl

theorem ofBitsAcc_eq (acc : Nat) (l : List Bool) :
    ofBitsAcc acc l = acc * 2 ^ l.length + ofBitsAcc 0 l := by
  induction l generalizing acc with
  | nil => simp
  | cons b t ih =>
    simp only [ofBitsAcc_cons, List.length_cons]
    rw [ih (2 * acc + b.toNat), ih (2 * 0 + b.toNat), Nat.pow_succ]
    simp only [Nat.mul_zero, Nat.zero_add, Nat.add_mul]
    rw [Nat.add_assoc]; congr 1
    rw [Nat.mul_comm 2 acc, Nat.mul_assoc, Nat.mul_comm 2]

theorem ofBitsAcc_zero_lt (l : List Bool) : ofBitsAcc 0 l < 2 ^ l.length := by
  induction l with
  | nil => simp
  | cons b t ih =>
    simp only [ofBitsAcc_cons, List.length_cons]
    rw [ofBitsAcc_eq, Nat.pow_succ]
    have : b.toNat ≤ 1 := by cases b <;> simp
    have h2 : b.toNat * 2 ^ t.length ≤ 1 * 2 ^ t.length := Nat.mul_le_mul_right _ this
    simp only [Nat.mul_zero, Nat.zero_add]
    omega

@[simp] theorem bitsOf_length (w n : Nat) : (bitsOf w n).length = w := by
  induction w with
  | zero => rfl
  | succ w ih => simp [bitsOf, ih]

theorem bitsOf_congr (w n m : Nat) (h : ∀ i, i < w → n.testBit i = m.testBit i) :
    bitsOf w n = bitsOf w m := by
  induction w with
  | zero => rfl
  | succ w ih =>
    simp only [bitsOf]
    rw [h w (by omega), ih (fun i hi => h i (by omega))]

/-- bits → number → bits. -/
theorem bitsOf_ofBits (l : List Bool) : bitsOf l.length (ofBitsAcc 0 l) = l := by
  induction l with
  | nil => rfl
  | cons b t ih =>
    simp only [List.length_cons, bitsOf, ofBitsAcc_cons]
    rw [ofBitsAcc_eq]
    simp only [Nat.mul_zero, Nat.zero_add]
    have hlt := ofBitsAcc_zero_lt t
    have key : ∀ j, (b.toNat * 2 ^ t.length + ofBitsAcc 0 t).testBit j =
        if j < t.length then (ofBitsAcc 0 t).testBit j else b.toNat.testBit (j - t.length) := by
      intro j
      rw [Nat.mul_comm]; exact Nat.testBit_two_pow_mul_add _ hlt j
    congr 1
    · rw [key]; simp; cases b <;> simp
    · rw [← ih]
      simp only [bitsOf_length]
      rw [ih]
      conv => rhs; rw [← ih]
      apply bitsOf_congr
      intro i hi
      rw [key]; simp [hi]

/-- number → bits → number. -/
theorem ofBits_bitsOf (w n : Nat) : ofBitsAcc 0 (bitsOf w n) = n % 2 ^ w := by
  induction w with
  | zero => simp [bitsOf, Nat.mod_one]
  | succ w ih =>
    simp only [bitsOf, ofBitsAcc_cons]
    rw [ofBitsAcc_eq, ih, bitsOf_length]
    simp only [Nat.mul_zero, Nat.zero_add]
    rw [Nat.mod_pow_succ, Nat.toNat_testBit]
    rw [Nat.mul_comm]; omega

/-! regroup -/
theorem ofBitsAcc_append (acc : Nat) (l m : List Bool) :
    ofBitsAcc acc (l ++ m) = ofBitsAcc (ofBitsAcc acc l) m := by
  unfold ofBitsAcc; rw [List.foldl_append]

theorem ofBitsAcc_zeros (acc k : Nat) : ofBitsAcc acc (List.replicate k false) = acc * 2 ^ k := by
  induction k generalizing acc with
  | zero => simp
  | succ k ih =>
    simp only [List.replicate_succ, ofBitsAcc_cons, Bool.toNat_false, Nat.add_zero]
    rw [ih, Nat.pow_succ, Nat.mul_comm 2 acc, Nat.mul_assoc, Nat.mul_comm 2]

theorem regroup_chunk (to : Nat) (pad : Bool) (l : List Bool) (acc filled : Nat) (rest : List Bool)
    (hl : l ≠ []) (h : filled + l.length = to) :
    regroup to pad acc filled (l ++ rest) =
      (regroup to pad 0 0 rest).map (fun r => ofBitsAcc acc l :: r) := by
  induction l generalizing acc filled with
  | nil => exact absurd rfl hl
  | cons b t ih =>
    simp only [List.cons_append, regroup, ofBitsAcc_cons]
    by_cases hf : filled + 1 = to
    · have : t = [] := by
        apply List.eq_nil_of_length_eq_zero
        simp only [List.length_cons] at h; omega
      subst this
      simp [hf]
    · rw [if_neg hf]
      apply ih
      · intro ht; subst ht; simp at h; exact hf h
      · simp only [List.length_cons] at h; omega

theorem regroup_tail_pad (to : Nat) (l : List Bool) (acc filled : Nat)
    (h : filled + l.length < to) (hpos : 0 < filled + l.length) :
    regroup to true acc filled l =
      some [ofBitsAcc acc (l ++ List.replicate (to - (filled + l.length)) false)] := by
  induction l generalizing acc filled with
  | nil =>
    simp only [List.length_nil, Nat.add_zero] at h hpos
    have hf : filled ≠ 0 := by omega
    simp [regroup, hf, ofBitsAcc_zeros, Nat.shiftLeft_eq]
  | cons b t ih =>
    simp only [List.length_cons] at h hpos
    have hf : filled + 1 ≠ to := by omega
    simp only [regroup, if_neg hf, List.cons_append, ofBitsAcc_cons, List.length_cons]
    rw [ih _ _ (by omega) (by omega)]
    have : to - (filled + 1 + t.length) = to - (filled + (t.length + 1)) := by omega
    rw [this]

theorem length_flatMap_bitsOf (w : Nat) (l : List Nat) : (l.flatMap (bitsOf w)).length = w * l.length := by
  induction l with
  | nil => simp
  | cons a t ih => simp [List.flatMap_cons, ih, Nat.mul_succ, Nat.add_comm]

theorem regroup_pad_spec (to : Nat) (hto : 0 < to) : ∀ (n : Nat) (L : List Bool), L.length ≤ n →
    ∃ syms p, p < to ∧ regroup to true 0 0 L = some syms ∧
      syms.flatMap (bitsOf to) = L ++ List.replicate p false ∧ (∀ s ∈ syms, s < 2 ^ to) := by
  intro n
  induction n with
  | zero =>
    intro L hL
    have : L = [] := List.eq_nil_of_length_eq_zero (by omega)
    subst this
    exact ⟨[], 0, hto, by simp [regroup], by simp, by simp⟩
  | succ n ih =>
    intro L hL
    by_cases h0 : L.length = 0
    · have : L = [] := List.eq_nil_of_length_eq_zero h0
      subst this
      exact ⟨[], 0, hto, by simp [regroup], by simp, by simp⟩
    by_cases hlt : L.length < to
    · refine ⟨[ofBitsAcc 0 (L ++ List.replicate (to - L.length) false)], to - L.length, by omega, ?_, ?_, ?_⟩
      · have := regroup_tail_pad to L 0 0 (by omega) (by omega)
        simpa using this
      · have hlen : (L ++ List.replicate (to - L.length) false).length = to := by
          simp; omega
        have := bitsOf_ofBits (L ++ List.replicate (to - L.length) false)
        rw [hlen] at this
        simp [this]
      · intro s hs
        simp only [List.mem_singleton] at hs
        subst hs
        have := ofBitsAcc_zero_lt (L ++ List.replicate (to - L.length) false)
        have hlen : (L ++ List.replicate (to - L.length) false).length = to := by
          simp; omega
        rwa [hlen] at this
    · have hge : to ≤ L.length := by omega
      have hsplit : L = L.take to ++ L.drop to := (List.take_append_drop to L).symm
      have htl : (L.take to).length = to := by simp; omega
      have hne : L.take to ≠ [] := by
        intro e; rw [e] at htl; simp at htl; omega
      obtain ⟨syms, p, hp, hr, hf, hs⟩ := ih (L.drop to) (by simp; omega)
      refine ⟨ofBitsAcc 0 (L.take to) :: syms, p, hp, ?_, ?_, ?_⟩
      · rw [hsplit, regroup_chunk to true (L.take to) 0 0 (L.drop to) hne (by omega), hr]
        simp
      · have := bitsOf_ofBits (L.take to)
        rw [htl] at this
        rw [List.flatMap_cons, this, hf, ← List.append_assoc, List.take_append_drop]
      · intro s hs'
        rcases List.mem_cons.mp hs' with rfl | hs'
        · have := ofBitsAcc_zero_lt (L.take to)
          rwa [htl] at this
        · exact hs s hs'

theorem regroup8_bytes (bs : List Nat) (hb : ∀ b ∈ bs, b < 256) (p : Nat) (hp : p ≤ 4) :
    regroup 8 false 0 0 (bs.flatMap (bitsOf 8) ++ List.replicate p false) = some bs := by
  induction bs with
  | nil =>
    have : p = 0 ∨ p = 1 ∨ p = 2 ∨ p = 3 ∨ p = 4 := by omega
    rcases this with rfl | rfl | rfl | rfl | rfl <;> rfl
  | cons b t ih =>
    rw [List.flatMap_cons, List.append_assoc,
      regroup_chunk 8 false (bitsOf 8 b) 0 0 _ (by intro e; have := congrArg List.length e; simp at this) (by simp),
      ih (fun x hx => hb x (by simp [hx])), ofBits_bitsOf]
    have := hb b (by simp)
    simp [Nat.mod_eq_of_lt this]

theorem convertBits_8_5_spec (bs : List Nat) :
    ∃ syms p, p ≤ 4 ∧ convertBits 8 5 true bs = some syms ∧
      syms.flatMap (bitsOf 5) = bs.flatMap (bitsOf 8) ++ List.replicate p false ∧
      (∀ s ∈ syms, s < 32) := by
  obtain ⟨syms, p, hp, hr, hf, hs⟩ := regroup_pad_spec 5 (by decide) _ (bs.flatMap (bitsOf 8)) (Nat.le_refl _)
  refine ⟨syms, p, by omega, ?_, hf, hs⟩
  simp [convertBits, hr]

theorem convertBits_roundtrip_full (bs : List Nat) (hb : ∀ b ∈ bs, b < 256) :
    ∃ syms, convertBits 8 5 true bs = some syms ∧ (∀ s ∈ syms, s < 32) ∧
      5 * syms.length ≤ 8 * bs.length + 4 ∧ convertBits 5 8 false syms = some bs := by
  obtain ⟨syms, p, hp, hc, hf, hs⟩ := convertBits_8_5_spec bs
  refine ⟨syms, hc, hs, ?_, ?_⟩
  · have := congrArg List.length hf
    simp only [length_flatMap_bitsOf, List.length_append, List.length_replicate] at this
    omega
  · simp only [convertBits]
    rw [if_neg (by decide), hf]
    exact regroup8_bytes bs hb p hp

/-! decode ∘ encode -/
theorem toLower_of_not_upper (c : Char) (h : c.isUpper = false) : c.toLower = c := by
  unfold Char.toLower
  unfold Char.isUpper at h
  rw [dif_neg (by simpa using h)]

theorem map_toLower_of_not_upper (l : List Char) (h : ∀ c ∈ l, c.isUpper = false) :
    l.map Char.toLower = l := by
  induction l with
  | nil => rfl
  | cons a t ih =>
    rw [List.map_cons, toLower_of_not_upper a (h a (by simp)), ih (fun c hc => h c (by simp [hc]))]

theorem splitLastOne_none (t : List Char) (h : ∀ c ∈ t, c ≠ '1') : splitLastOne t = none := by
  induction t with
  | nil => rfl
  | cons a t ih =>
    have ha : a ≠ '1' := h a (by simp)
    simp [splitLastOne, ih (fun c hc => h c (by simp [hc])), ha]

theorem splitLastOne_append (hp t : List Char) (h : ∀ c ∈ t, c ≠ '1') :
    splitLastOne (hp ++ '1' :: t) = some (hp, t) := by
  induction hp with
  | nil => simp [splitLastOne, splitLastOne_none t h]
  | cons a r ih => simp [splitLastOne, ih]

theorem createChecksum_length (h : List Char) (d : List Nat) : (createChecksum h d).length = 6 := rfl

theorem createChecksum_lt (h : List Char) (d : List Nat) : ∀ s ∈ createChecksum h d, s < 32 := by
  intro s hs
  unfold createChecksum at hs
  simp only [List.mem_cons, List.not_mem_nil, or_false] at hs
  rcases hs with rfl | rfl | rfl | rfl | rfl | rfl <;> exact Nat.lt_succ_of_le Nat.and_le_right

/-- A human-readable part the decoder gives back unchanged. -/
def HrpOK (h : List Char) : Prop := h ≠ [] ∧ ∀ c ∈ h, printable c = true ∧ c.isUpper = false

theorem encodeChars_eq (h : List Char) (data : List Nat) (hh : HrpOK h) :
    encodeChars h data = h ++ '1' :: (data ++ createChecksum h data).map charOf := by
  unfold encodeChars
  simp only [map_toLower_of_not_upper h (fun c hc => (hh.2 c hc).2), List.map_append]

theorem decodeNoLimit_encodeChars (h : List Char) (data : List Nat) (hh : HrpOK h)
    (hd : ∀ x ∈ data, x < 32) : decodeNoLimit (encodeChars h data) = some (h, data) := by
  rw [encodeChars_eq h data hh]
  have hlt : ∀ x ∈ data ++ createChecksum h data, x < 32 := by
    intro x hx
    rcases List.mem_append.mp hx with hx | hx
    · exact hd x hx
    · exact createChecksum_lt h data x hx
  have htail1 : ∀ c ∈ (data ++ createChecksum h data).map charOf, c ≠ '1' := by
    intro c hc
    obtain ⟨n, _, rfl⟩ := List.mem_map.mp hc
    exact charset_ne_one _ (charOf_mem n)
  have hlen : ¬ (h ++ '1' :: (data ++ createChecksum h data).map charOf).length < 8 := by
    have : h.length ≠ 0 := fun e => hh.1 (List.eq_nil_of_length_eq_zero e)
    simp [createChecksum_length]; omega
  have hprint : (h ++ '1' :: (data ++ createChecksum h data).map charOf).all printable = true := by
    rw [List.all_eq_true]
    intro c hc
    rcases List.mem_append.mp hc with hc | hc
    · exact (hh.2 c hc).1
    · rcases List.mem_cons.mp hc with rfl | hc
      · decide
      · obtain ⟨n, _, rfl⟩ := List.mem_map.mp hc
        exact charset_printable _ (charOf_mem n)
  have hupper : (h ++ '1' :: (data ++ createChecksum h data).map charOf).any Char.isUpper = false := by
    rw [List.any_eq_false]
    intro c hc
    rcases List.mem_append.mp hc with hc | hc
    · simp [(hh.2 c hc).2]
    · rcases List.mem_cons.mp hc with rfl | hc
      · decide
      · obtain ⟨n, _, rfl⟩ := List.mem_map.mp hc
        simp [charset_not_upper _ (charOf_mem n)]
  have hempty : h.isEmpty = false := by
    cases h with
    | nil => exact absurd rfl hh.1
    | cons _ _ => rfl
  have hrest : ¬ ((data ++ createChecksum h data).map charOf).length < 6 := by
    simp [createChecksum_length]
  have htake : (data ++ createChecksum h data).take ((data ++ createChecksum h data).length - 6) = data := by
    simp [createChecksum_length]
  have hdrop : (data ++ createChecksum h data).drop ((data ++ createChecksum h data).length - 6) =
      createChecksum h data := by
    simp [createChecksum_length]
  unfold decodeNoLimit
  rw [if_neg hlen, hprint]
  simp only [hupper, Bool.and_false, Bool.not_true, Bool.false_eq_true, if_false,
    splitLastOne_append h _ htail1, hempty, Bool.false_or, decide_eq_true_eq, if_neg hrest,
    toSyms_map_charOf _ hlt, htake, hdrop, verifyChecksum_createChecksum, if_true]

theorem encodeChars_printable (h : List Char) (data : List Nat) (hh : HrpOK h) :
    ∀ c ∈ encodeChars h data, printable c = true := by
  rw [encodeChars_eq h data hh]
  intro c hc
  rcases List.mem_append.mp hc with hc | hc
  · exact (hh.2 c hc).1
  · rcases List.mem_cons.mp hc with rfl | hc
    · decide
    · obtain ⟨n, _, rfl⟩ := List.mem_map.mp hc
      exact charset_printable _ (charOf_mem n)

theorem encodeChars_length (h : List Char) (data : List Nat) :
    (encodeChars h data).length = h.length + 1 + data.length + 6 := by
  unfold encodeChars
  simp [createChecksum_length]; omega

/-! trimming -/
theorem not_space_of_printable (c : Char) (h : printable c = true) : isGoSpace c = false := by
  unfold printable at h
  unfold isGoSpace
  simp only [Bool.and_eq_true, decide_eq_true_eq] at h
  simp only [Bool.or_eq_false_iff, Bool.and_eq_false_iff, decide_eq_false_iff_not]
  omega

theorem dropWhile_of_all_false {p : Char → Bool} (l : List Char) (h : ∀ c ∈ l, p c = false) :
    l.dropWhile p = l := by
  cases l with
  | nil => rfl
  | cons a t => simp [h a (by simp)]

theorem trimSpace_of_printable (l : List Char) (h : ∀ c ∈ l, printable c = true) : trimSpace l = l := by
  unfold trimSpace
  have h' : ∀ c ∈ l, isGoSpace c = false := fun c hc => not_space_of_printable c (h c hc)
  rw [dropWhile_of_all_false l h', dropWhile_of_all_false l.reverse (fun c hc => h' c (List.mem_reverse.mp hc)),
    List.reverse_reverse]

/-! bytes -/
theorem map_ofNat_toNat (bs : Bytes) : (bs.map UInt8.toNat).map UInt8.ofNat = bs := by
  induction bs with
  | nil => rfl
  | cons a t ih => simp only [List.map_cons, ih, UInt8.ofNat_toNat]

theorem bytes_lt (bs : Bytes) : ∀ b ∈ bs.map UInt8.toNat, b < 256 := by
  intro b hb
  obtain ⟨x, _, rfl⟩ := List.mem_map.mp hb
  have := UInt8.toNat_lt x; omega

/-- What the decoder makes of an encoded byte string: the pair it came from, unless the text is
longer than the 1023 characters the SDK allows. -/
theorem decodeAndConvertChars_encode (h : List Char) (hh : HrpOK h) (bs : Bytes) :
    decodeAndConvertChars (convertAndEncodeChars h bs) =
      if (convertAndEncodeChars h bs).length > 1023 then none else some (h, bs) := by
  obtain ⟨syms, hc, hs, _, hback⟩ := convertBits_roundtrip_full (bs.map UInt8.toNat) (bytes_lt bs)
  unfold decodeAndConvertChars decodeLimit convertAndEncodeChars
  rw [hc, Option.getD_some]
  by_cases hl : (encodeChars h syms).length > 1023
  · simp [hl]
  · simp only [hl, if_false, decodeNoLimit_encodeChars h syms hh hs, hback, map_ofNat_toNat]

theorem convertAndEncodeChars_length_le (h : List Char) (bs : Bytes) :
    5 * (convertAndEncodeChars h bs).length ≤ 5 * (h.length + 7) + 8 * bs.length + 4 := by
  obtain ⟨syms, hc, _, hlen, _⟩ := convertBits_roundtrip_full (bs.map UInt8.toNat) (bytes_lt bs)
  unfold convertAndEncodeChars
  rw [hc, Option.getD_some, encodeChars_length]
  simp only [List.length_map] at hlen
  omega

theorem convertAndEncodeChars_printable (h : List Char) (hh : HrpOK h) (bs : Bytes) :
    ∀ c ∈ convertAndEncodeChars h bs, printable c = true :=
  encodeChars_printable h _ hh

theorem convertAndEncodeChars_ne_nil (h : List Char) (bs : Bytes) : convertAndEncodeChars h bs ≠ [] := by
  intro e
  have := congrArg List.length e
  unfold convertAndEncodeChars at this
  rw [encodeChars_length] at this
  simp at this

/-! roles -/
theorem prefixChars_ok (r : Role) : HrpOK (prefixChars r) := by
  cases r <;> exact ⟨by decide, by decide⟩

theorem prefixOf_toList (r : Role) : (prefixOf r).toList = prefixChars r := by
  cases r <;> decide

theorem prefixChars_inj {r r' : Role} (h : prefixChars r = prefixChars r') : r = r' := by
  cases r <;> cases r' <;> first | rfl | (exact absurd h (by decide))

theorem prefixChars_length (r : Role) : (prefixChars r).length ≤ 8 := by
  cases r <;> decide

theorem isEmpty_false_of_ne_nil {α} (l : List α) (h : l ≠ []) : l.isEmpty = false := by
  cases l with
  | nil => exact absurd rfl h
  | cons _ _ => rfl

/-- Reading, as role `r'`, the text written for role `r` from non-empty bytes. -/
theorem addrFromChars_addrToChars (r r' : Role) (bs : Bytes) (hne : bs ≠ []) :
    addrFromChars r' (addrToChars r bs) =
      if (convertAndEncodeChars (prefixChars r) bs).length > 1023 then none
      else if r ≠ r' then none
      else if bs.length > 255 then none
      else some bs := by
  have hemp : bs.isEmpty = false := isEmpty_false_of_ne_nil bs hne
  have hlen0 : bs.length ≠ 0 := fun e => hne (List.eq_nil_of_length_eq_zero e)
  unfold addrToChars addrFromChars
  simp only [hemp, Bool.false_eq_true, if_false]
  rw [trimSpace_of_printable _ (convertAndEncodeChars_printable _ (prefixChars_ok r) bs)]
  have hne' := isEmpty_false_of_ne_nil _ (convertAndEncodeChars_ne_nil (prefixChars r) bs)
  have key : getFromBech32Verified (prefixChars r') (convertAndEncodeChars (prefixChars r) bs) =
      if (convertAndEncodeChars (prefixChars r) bs).length > 1023 then none
      else if r ≠ r' then none
      else if bs.length > 255 then none
      else some bs := by
    unfold getFromBech32Verified
    rw [hne', decodeAndConvertChars_encode _ (prefixChars_ok r) bs]
    by_cases hl : (convertAndEncodeChars (prefixChars r) bs).length > 1023
    · simp [hl]
    · simp only [hl, if_false, Bool.false_eq_true]
      by_cases hr : r = r'
      · subst hr
        simp [hlen0]
      · have : prefixChars r ≠ prefixChars r' := fun e => hr (prefixChars_inj e)
        simp [hr, this]
  simp only [hne', Bool.false_eq_true, if_false]
  cases r' <;> exact key
end Hub.SDK.Bech32
