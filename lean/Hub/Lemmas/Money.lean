import Hub.Model.Inv
import Hub.Lemmas.Tbl
import Hub.Lemmas.Coins
import Hub.Lemmas.Math
/-
The money-moving primitives (bank send/mint, deposit add/subtract) and what they do to balances,
deposit totals, bank totals and supply.
-/
namespace Hub.Model
open Hub.SDK
variable {σ : Tbl Denom Int}

theorem bind_eq_ok {α β : Type} {x : M α} {f : α → M β} {b : β} :
    (x >>= f) = .ok b ↔ ∃ a, x = .ok a ∧ f a = .ok b := by
  cases x with
  | error e => simp [bind, Except.bind]
  | ok a => simp [bind, Except.bind]

theorem pure_eq_ok {α : Type} {a b : α} : (pure a : M α) = .ok b ↔ a = b := by
  simp [pure, Except.pure]

theorem reject_ne_ok {α : Type} {m : String} {b : α} : (reject m : M α) = .ok b ↔ False := by
  simp [reject]

theorem gopanic_ne_ok {α : Type} {m : String} {b : α} : (gopanic m : M α) = .ok b ↔ False := by
  simp [gopanic]

/-! ### balances -/

theorem balance_setBalance (s : State) (a a' : Addr) (d d' : Denom) (v : Int) :
    balance (setBalance s a d v) a' d' = if a = a' ∧ d = d' then v else balance s a' d' := by
  unfold balance setBalance
  by_cases hv : v = 0
  · simp only [hv, if_true, Tbl.get_erase]
    by_cases h : (a, d) = (a', d')
    · have : a = a' ∧ d = d' := by simpa using h
      simp [h, this]
    · have : ¬ (a = a' ∧ d = d') := by simpa using h
      simp [h, this]
  · simp only [hv, if_false, Tbl.get_set]
    by_cases h : (a, d) = (a', d')
    · have : a = a' ∧ d = d' := by simpa using h
      simp [h, this]
    · have : ¬ (a = a' ∧ d = d') := by simpa using h
      simp [h, this]

theorem setBalance_frame (s : State) (a : Addr) (d : Denom) (v : Int) :
    setBalance s a d v = { s with bank := (setBalance s a d v).bank } := rfl

theorem bankNodup_setBalance {s : State} (h : Tbl.Nodup s.bank) (a : Addr) (d : Denom) (v : Int) :
    Tbl.Nodup (setBalance s a d v).bank := by
  unfold setBalance
  by_cases hv : v = 0
  · simp only [hv, if_true]; exact Tbl.nodup_erase h _
  · simp only [hv, if_false]; exact Tbl.nodup_set h _ _

theorem bankTotal_setBalance {s : State} (h : Tbl.Nodup s.bank) (a : Addr) (d d' : Denom) (v : Int) :
    bankTotal (setBalance s a d v) d' = bankTotal s d' + (if d = d' then v - balance s a d else 0) := by
  unfold bankTotal setBalance balance
  by_cases hv : v = 0
  · simp only [hv, if_true]
    rw [Tbl.sumKV_erase _ h]
    cases hg : s.bank.get (a, d) <;> by_cases hd : d = d' <;> simp [hd] <;> omega
  · simp only [hv, if_false]
    rw [Tbl.sumKV_set _ h]
    cases hg : s.bank.get (a, d) <;> by_cases hd : d = d' <;> simp [hd] <;> omega


theorem require_eq_ok {c : Bool} {m : String} {u : Unit} : (require c m = .ok u) ↔ c = true := by
  unfold require; cases c <;> simp [reject, pure, Except.pure]

theorem requireP_eq_ok {c : Bool} {m : String} {u : Unit} : (requireP c m = .ok u) ↔ c = true := by
  unfold requireP; cases c <;> simp [gopanic, pure, Except.pure]

theorem orReject_eq_ok {α : Type} {o : Option α} {m : String} {a : α} : (orReject o m = .ok a) ↔ o = some a := by
  unfold orReject; cases o <;> simp [reject, pure, Except.pure]

theorem orPanic_eq_ok {α : Type} {o : Option α} {m : String} {a : α} : (orPanic o m = .ok a) ↔ o = some a := by
  unfold orPanic; cases o <;> simp [gopanic, pure, Except.pure]

theorem SInt.add_eq_ok {a b r : Int} (h : SInt.add a b = .ok r) : r = a + b := by
  unfold SInt.add at h; split at h
  · simp [gopanic] at h
  · simpa [pure, Except.pure] using h.symm

theorem SInt.sub_eq_ok {a b r : Int} (h : SInt.sub a b = .ok r) : r = a - b := by
  unfold SInt.sub at h; split at h
  · simp [gopanic] at h
  · simpa [pure, Except.pure] using h.symm

theorem SInt.mul_eq_ok {a b r : Int} (h : SInt.mul a b = .ok r) : r = a * b := by
  unfold SInt.mul at h; split at h
  · simp [gopanic] at h
  · simpa [pure, Except.pure] using h.symm

theorem panicIfErr_eq_ok {α : Type} {r : M α} {a : α} : (panicIfErr r = .ok a) ↔ r = .ok a := by
  unfold panicIfErr
  cases r with
  | ok x => simp
  | error e => cases e <;> simp [gopanic]

/-! ### sendCoins -/

theorem sendCoins_ok {s s' : State} {f t : Addr} {c : Coin} (h : sendCoins s f t c = .ok s') :
    (∀ a d, balance s' a d = balance s a d
        - (if f = a ∧ c.denom = d then c.amount else 0) + (if t = a ∧ c.denom = d then c.amount else 0)) ∧
    s' = { s with bank := s'.bank } ∧
    (Tbl.Nodup s.bank → Tbl.Nodup s'.bank ∧ ∀ d, bankTotal s' d = bankTotal s d) := by
  unfold sendCoins at h
  simp only [bind_eq_ok, pure_eq_ok, require_eq_ok] at h
  obtain ⟨_, _, nb, hnb, rfl⟩ := h
  have hnb' := SInt.add_eq_ok hnb
  refine ⟨?_, rfl, ?_⟩
  · intro a d
    rw [balance_setBalance, hnb', balance_setBalance, balance_setBalance]
    by_cases hd : c.denom = d
    · subst hd
      by_cases hfa : f = a
      · subst hfa
        by_cases hta : t = f
        · subst hta; simp
        · simp [hta, Ne.symm hta]
      · by_cases hta : t = a
        · subst hta; simp [hfa]
        · simp [hfa, hta]
    · simp [hd]
  · intro hn
    have hn1 := bankNodup_setBalance hn f c.denom (balance s f c.denom - c.amount)
    refine ⟨bankNodup_setBalance hn1 _ _ _, ?_⟩
    intro d
    rw [bankTotal_setBalance hn1, bankTotal_setBalance hn, hnb']
    by_cases hd : c.denom = d <;> simp [hd]


/-! ### the money frame: a step that only touches bank, supply, deposits and events -/

def MoneyFrame (s s' : State) : Prop :=
  s' = { s with bank := s'.bank, deposits := s'.deposits, events := s'.events }

theorem MoneyFrame.refl (s : State) : MoneyFrame s s := rfl

theorem MoneyFrame.trans {a b c : State} (h1 : MoneyFrame a b) (h2 : MoneyFrame b c) : MoneyFrame a c := by
  unfold MoneyFrame at *
  rw [h2, h1]

theorem MoneyFrame.plans {s s' : State} (h : MoneyFrame s s') :
    s'.planActive = s.planActive ∧ s'.planInactive = s.planInactive := by
  unfold MoneyFrame at h; rw [h]; exact ⟨rfl, rfl⟩

theorem MoneyFrame.emit {s : State} (e : Event) : MoneyFrame s (emit s e) := rfl

theorem sendCoins_frame {s s' : State} {f t : Addr} {c : Coin} (h : sendCoins s f t c = .ok s') : MoneyFrame s s' := by
  have := (sendCoins_ok h).2.1
  unfold MoneyFrame; rw [this]

/-! ### deposit records -/

theorem totalDeposits_setDeposit {s : State} (h : Tbl.Nodup s.deposits) (a : Addr) (cs : Coins) (d : Denom) :
    totalDeposits (setDeposit s a cs) d
      = totalDeposits s d - ((getDeposit s a).getD []).amountOf d + cs.amountOf d := by
  unfold totalDeposits setDeposit getDeposit
  simp only []
  rw [Tbl.sumKV_set _ h]
  cases s.deposits.get a <;> simp [Coins.amountOf_nil]

theorem totalDeposits_deleteDeposit {s : State} (h : Tbl.Nodup s.deposits) (a : Addr) (d : Denom) :
    totalDeposits (deleteDeposit s a) d = totalDeposits s d - ((getDeposit s a).getD []).amountOf d := by
  unfold totalDeposits deleteDeposit getDeposit
  simp only []
  rw [Tbl.sumKV_erase _ h]
  cases s.deposits.get a <;> simp [Coins.amountOf_nil]

theorem totalDeposits_putDeposit {s : State} (h : Tbl.Nodup s.deposits) (a : Addr) (cs : Coins) (d : Denom) :
    totalDeposits (putDeposit s a cs) d
      = totalDeposits s d - ((getDeposit s a).getD []).amountOf d + cs.amountOf d := by
  unfold putDeposit
  split
  · rename_i hz
    rw [totalDeposits_deleteDeposit h, Coins.amountOf_of_isZero hz]; omega
  · exact totalDeposits_setDeposit h a cs d

theorem supplyOf_frame {s s' : State} (h : s'.supply = s.supply) (d : Denom) : supplyOf s' d = supplyOf s d := by
  unfold supplyOf; rw [h]

/-- `sendCoins` between two accounts other than the escrow keeps the money invariant. -/
theorem sendCoins_inv {s s' : State} {f t : Addr} {c : Coin} (h : sendCoins s f t c = .ok s') (hi : MoneyInv σ s)
    (hf : f ≠ depositAddr) (ht : t ≠ depositAddr) : MoneyInv σ s' := by
  obtain ⟨hb, hfr, hn⟩ := sendCoins_ok h
  obtain ⟨hn1, hn2⟩ := hn hi.bankNodup
  have hdep : s'.deposits = s.deposits := by rw [hfr]
  have hsup : s'.supply = s.supply := by rw [hfr]
  refine ⟨?_, ?_, ?_, hn1, ?_, ?_, hsup.trans hi.supplyEq⟩
  · intro d
    rw [hb]
    have : totalDeposits s' d = totalDeposits s d := by unfold totalDeposits; rw [hdep]
    rw [this, ← hi.backed d]
    simp [hf, ht]
  · rw [hdep]; exact hi.depNodup
  · intro a cs hg; rw [hdep] at hg; exact hi.depNonneg a cs hg
  · intro d; rw [hn2, supplyOf_frame hsup]; exact hi.supplyOK d
  · intro id p hp; rw [(sendCoins_frame h).plans.1, (sendCoins_frame h).plans.2] at hp; exact hi.provOK id p hp

theorem depNonneg_setDeposit {s : State} (hi : ∀ a cs, s.deposits.get a = some cs → Coins.Nonneg cs) (a : Addr) (cs : Coins)
    (hcs : Coins.Nonneg cs) : ∀ a' cs', (setDeposit s a cs).deposits.get a' = some cs' → Coins.Nonneg cs' := by
  intro a' cs' hg
  unfold setDeposit at hg
  simp only [Tbl.get_set] at hg
  by_cases h : a = a'
  · simp only [h, if_true, Option.some.injEq] at hg; rw [← hg]; exact hcs
  · simp only [h, if_false] at hg; exact hi a' cs' hg

theorem depNonneg_putDeposit {s : State} (hi : ∀ a cs, s.deposits.get a = some cs → Coins.Nonneg cs) (a : Addr) (cs : Coins)
    (hcs : Coins.Nonneg cs) : ∀ a' cs', (putDeposit s a cs).deposits.get a' = some cs' → Coins.Nonneg cs' := by
  unfold putDeposit
  split
  · intro a' cs' hg
    unfold deleteDeposit at hg
    simp only [Tbl.get_erase] at hg
    split at hg
    · contradiction
    · exact hi a' cs' hg
  · exact depNonneg_setDeposit hi a cs hcs

theorem depNodup_putDeposit {s : State} (h : Tbl.Nodup s.deposits) (a : Addr) (cs : Coins) :
    Tbl.Nodup (putDeposit s a cs).deposits := by
  unfold putDeposit
  split
  · exact Tbl.nodup_erase h _
  · exact Tbl.nodup_set h _ _

theorem putDeposit_frame (s : State) (a : Addr) (cs : Coins) :
    putDeposit s a cs = { s with deposits := (putDeposit s a cs).deposits } := by
  unfold putDeposit; split <;> rfl

/-- `SendCoinsFromAccountToDeposit`. -/
theorem depositAdd_inv {s s' : State} {f t : Addr} {c : Coin} (h : depositAdd s f t c = .ok s') (hi : MoneyInv σ s)
    (hf : f ≠ depositAddr) : MoneyInv σ s' ∧ MoneyFrame s s' := by
  unfold depositAdd at h
  simp only [bind_eq_ok, pure_eq_ok, require_eq_ok] at h
  obtain ⟨s1, hs1, _, hneg, rfl⟩ := h
  obtain ⟨hb, hfr, hn⟩ := sendCoins_ok hs1
  obtain ⟨hn1, hn2⟩ := hn hi.bankNodup
  have hdep : s1.deposits = s.deposits := by rw [hfr]
  have hsup : s1.supply = s.supply := by rw [hfr]
  have hnd1 : Tbl.Nodup s1.deposits := by rw [hdep]; exact hi.depNodup
  have hnn : Coins.Nonneg (((getDeposit s1 t).getD []).add c) :=
    Coins.nonneg_of_not_anyNegative (by simpa using hneg)
  refine ⟨⟨?_, ?_, ?_, ?_, ?_, ?_, hsup.trans hi.supplyEq⟩, ?_⟩
  · intro d
    show balance (setDeposit s1 t (((getDeposit s1 t).getD []).add c)) depositAddr d = totalDeposits (setDeposit s1 t (((getDeposit s1 t).getD []).add c)) d
    rw [totalDeposits_setDeposit hnd1, Coins.amountOf_add]
    have e1 : balance (setDeposit s1 t (((getDeposit s1 t).getD []).add c)) depositAddr d = balance s1 depositAddr d := rfl
    have e2 : totalDeposits s1 d = totalDeposits s d := by unfold totalDeposits; rw [hdep]
    rw [e1, hb, e2, ← hi.backed d]
    simp [hf]
    omega
  · exact Tbl.nodup_set hnd1 _ _
  · exact depNonneg_setDeposit (by intro a cs hg; rw [hdep] at hg; exact hi.depNonneg a cs hg) _ _ hnn
  · exact hn1
  · intro d
    show supplyOf s1 d = bankTotal s1 d
    rw [hn2, supplyOf_frame hsup]; exact hi.supplyOK d
  · intro id p hp
    have hp' : s1.planActive.get id = some p ∨ s1.planInactive.get id = some p := hp
    rw [(sendCoins_frame hs1).plans.1, (sendCoins_frame hs1).plans.2] at hp'; exact hi.provOK id p hp'
  · exact (sendCoins_frame hs1).trans rfl

/-- Common core of `SendCoinsFromDepositToAccount` / `…ToModule`: the record shrinks by what the
escrow account pays out (and is deleted when nothing is left). -/
theorem depositOut_inv {s s1 : State} {f t : Addr} {c : Coin} {cur : Coins} {e : Event}
    (hs1 : sendCoins s depositAddr t c = .ok s1) (hcur : getDeposit s f = some cur)
    (hneg : (cur.sub c).isAnyNegative = false) (hi : MoneyInv σ s) (ht : t ≠ depositAddr) :
    MoneyInv σ (emit (putDeposit s1 f (cur.sub c)) e) ∧ MoneyFrame s (emit (putDeposit s1 f (cur.sub c)) e) := by
  obtain ⟨hb, hfr, hn⟩ := sendCoins_ok hs1
  obtain ⟨hn1, hn2⟩ := hn hi.bankNodup
  have hdep : s1.deposits = s.deposits := by rw [hfr]
  have hsup : s1.supply = s.supply := by rw [hfr]
  have hnd1 : Tbl.Nodup s1.deposits := by rw [hdep]; exact hi.depNodup
  have hnn : Coins.Nonneg (cur.sub c) := Coins.nonneg_of_not_anyNegative hneg
  have hcur1 : getDeposit s1 f = some cur := by unfold getDeposit; rw [hdep]; exact hcur
  have hpf := putDeposit_frame s1 f (cur.sub c)
  have hbank : (putDeposit s1 f (cur.sub c)).bank = s1.bank := by rw [hpf]
  have hsup2 : (putDeposit s1 f (cur.sub c)).supply = s1.supply := by rw [hpf]
  have hpa : (putDeposit s1 f (cur.sub c)).planActive = s1.planActive := by rw [hpf]
  have hpi : (putDeposit s1 f (cur.sub c)).planInactive = s1.planInactive := by rw [hpf]
  refine ⟨⟨?_, ?_, ?_, ?_, ?_, ?_, ?_⟩, ?_⟩
  · intro d
    show balance (putDeposit s1 f (cur.sub c)) depositAddr d = totalDeposits (putDeposit s1 f (cur.sub c)) d
    rw [totalDeposits_putDeposit hnd1, Coins.amountOf_sub, hcur1]
    have e1 : balance (putDeposit s1 f (cur.sub c)) depositAddr d = balance s1 depositAddr d := by
      unfold balance; rw [hbank]
    have e2 : totalDeposits s1 d = totalDeposits s d := by unfold totalDeposits; rw [hdep]
    rw [e1, hb, e2, ← hi.backed d]
    simp [ht]
  · exact depNodup_putDeposit hnd1 _ _
  · exact depNonneg_putDeposit (by intro a cs hg; rw [hdep] at hg; exact hi.depNonneg a cs hg) _ _ hnn
  · show Tbl.Nodup (putDeposit s1 f (cur.sub c)).bank
    rw [hbank]; exact hn1
  · intro d
    show supplyOf (putDeposit s1 f (cur.sub c)) d = bankTotal (putDeposit s1 f (cur.sub c)) d
    unfold supplyOf bankTotal
    rw [hbank, hsup2]
    have := hi.supplyOK d
    unfold supplyOf at this
    rw [hsup, this, ← hn2 d]; rfl
  · intro id p hp
    have hp' : (putDeposit s1 f (cur.sub c)).planActive.get id = some p ∨ (putDeposit s1 f (cur.sub c)).planInactive.get id = some p := hp
    rw [hpa, hpi, (sendCoins_frame hs1).plans.1, (sendCoins_frame hs1).plans.2] at hp'; exact hi.provOK id p hp'
  · show (putDeposit s1 f (cur.sub c)).supply = σ
    rw [hsup2, hsup]; exact hi.supplyEq
  · refine (sendCoins_frame hs1).trans ?_
    unfold MoneyFrame
    show emit (putDeposit s1 f (cur.sub c)) e = _
    rw [hpf]; rfl

theorem isBlocked_depositAddr : isBlocked depositAddr = true := by decide

theorem depositToAccount_inv {s s' : State} {f t : Addr} {c : Coin} (h : depositToAccount s f t c = .ok s') (hi : MoneyInv σ s) :
    MoneyInv σ s' ∧ MoneyFrame s s' := by
  unfold depositToAccount sendModuleToAccount at h
  simp only [bind_eq_ok, pure_eq_ok, require_eq_ok, orReject_eq_ok] at h
  obtain ⟨cur, hcur, _, hneg, s1, hs1, rfl⟩ := h
  by_cases hb : isBlocked t = true
  · simp [hb, reject] at hs1
  · simp only [hb, if_false] at hs1
    have ht : t ≠ depositAddr := by
      intro e; rw [e] at hb; exact hb isBlocked_depositAddr
    exact depositOut_inv hs1 hcur (by simpa using hneg) hi ht

theorem depositToModule_inv {s s' : State} {f m : Addr} {c : Coin} (h : depositToModule s f m c = .ok s') (hi : MoneyInv σ s)
    (hm : m ≠ depositAddr) : MoneyInv σ s' ∧ MoneyFrame s s' := by
  unfold depositToModule at h
  simp only [bind_eq_ok, pure_eq_ok, require_eq_ok, orReject_eq_ok] at h
  obtain ⟨cur, hcur, _, hneg, s1, hs1, rfl⟩ := h
  exact depositOut_inv hs1 hcur (by simpa using hneg) hi hm

end Hub.Model
