import Hub.Model.Inv
import Hub.Lemmas.Tbl
import Hub.Lemmas.Coins
import Hub.Lemmas.Math
/-
The money-moving primitives (bank send/mint, deposit add/subtract) and what they do to balances,
deposit totals, bank totals and supply.
-/
namespace Hub.Model
open Hub.SDK

theorem bind_eq_ok {α β : Type} {x : M α} {f : α → M β} {b : β} :
    (x >>= f) = .ok b ↔ ∃ a, x = .ok a ∧ f a = .ok b := by
  cases x with
  | error e => simp [bind, Except.bind]
  | ok a => simp [bind, Except.bind]

theorem pure_eq_ok {α : Type} {a b : α} : (pure a : M α) = .ok b ↔ a = b := by
  simp [pure, Except.pure]

theorem reject_ne_ok {α : Type} {m : String} {b : α} : (reject m : M α) = .ok b ↔ False := by
  simp [reject]

theorem gopanic_ne_ok {α : Type} {m : String} {b : α} : (gopanic m : M α) = .ok b ↔ False := by
  simp [gopanic]

/-! ### balances -/

theorem balance_setBalance (s : State) (a a' : Addr) (d d' : Denom) (v : Int) :
    balance (setBalance s a d v) a' d' = if a = a' ∧ d = d' then v else balance s a' d' := by
  unfold balance setBalance
  by_cases hv : v = 0
  · simp only [hv, if_true, Tbl.get_erase]
    by_cases h : (a, d) = (a', d')
    · have : a = a' ∧ d = d' := by simpa using h
      simp [h, this]
    · have : ¬ (a = a' ∧ d = d') := by simpa using h
      simp [h, this]
  · simp only [hv, if_false, Tbl.get_set]
    by_cases h : (a, d) = (a', d')
    · have : a = a' ∧ d = d' := by simpa using h
      simp [h, this]
    · have : ¬ (a = a' ∧ d = d') := by simpa using h
      simp [h, this]

theorem setBalance_frame (s : State) (a : Addr) (d : Denom) (v : Int) :
    setBalance s a d v = { s with bank := (setBalance s a d v).bank } := rfl

theorem bankNodup_setBalance {s : State} (h : Tbl.Nodup s.bank) (a : Addr) (d : Denom) (v : Int) :
    Tbl.Nodup (setBalance s a d v).bank := by
  unfold setBalance
  by_cases hv : v = 0
  · simp only [hv, if_true]; exact Tbl.nodup_erase h _
  · simp only [hv, if_false]; exact Tbl.nodup_set h _ _

theorem bankTotal_setBalance {s : State} (h : Tbl.Nodup s.bank) (a : Addr) (d d' : Denom) (v : Int) :
    bankTotal (setBalance s a d v) d' = bankTotal s d' + (if d = d' then v - balance s a d else 0) := by
  unfold bankTotal setBalance balance
  by_cases hv : v = 0
  · simp only [hv, if_true]
    rw [Tbl.sumKV_erase _ h]
    cases hg : s.bank.get (a, d) <;> by_cases hd : d = d' <;> simp [hd] <;> omega
  · simp only [hv, if_false]
    rw [Tbl.sumKV_set _ h]
    cases hg : s.bank.get (a, d) <;> by_cases hd : d = d' <;> simp [hd] <;> omega

end Hub.Model
