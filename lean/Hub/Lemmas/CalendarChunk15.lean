import Hub.Lemmas.CalendarDefs
/- Chunk 15 of the complete day-of-era table: entries [15 * 9131, (15 + 1) * 9131), evaluated by the kernel. -/
namespace Hub.Lemmas.Calendar

theorem chunk15 : allFrom entryOK (15 * 9131) 9131 = true := by decide +kernel

end Hub.Lemmas.Calendar
