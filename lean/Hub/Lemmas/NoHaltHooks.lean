import Hub.Lemmas.NoHaltInv
import Hub.Props.C11
import Mathlib.Tactic.SplitIfs
import Aesop
/-
C03 (partial) — the invariant `NH` of `Hub/Lemmas/NoHaltInv.lean` is preserved by every step of the
block hooks: the prefix of BeginBlock (time/height, custommint, distribution sweep), one payout, one
iteration of the re-pricing sweep, one node expiry, one session step, one subscription step, and the
two resets (`events`, `modified`).
-/
set_option linter.unusedSimpArgs false
set_option linter.unusedVariables false
set_option linter.unnecessarySeqFocus false
set_option linter.unusedTactic false
set_option linter.unreachableTactic false

namespace Hub.Model.NoHalt
open Hub.SDK Hub.Model Hub.Model.Escrow
open Hub.Generated (Status AmountForBytes GetProportionOfCoin Gigabyte)

/-! ### the tables `NH` reads -/

namespace Hooks

/-- Everything `NH` reads. -/
structure HView where
  params : Params
  bank : Tbl (Addr × Denom) Int
  deposits : Tbl Addr Coins
  nodeActive : Tbl Addr Node
  nodeInactive : Tbl Addr Node
  subs : Tbl Nat Sub
  sessions : Tbl Nat Session
  allocs : Tbl (Nat × Addr) Alloc

def hview (s : State) : HView :=
  ⟨s.params, s.bank, s.deposits, s.nodeActive, s.nodeInactive, s.subs, s.sessions, s.allocs⟩

theorem nh_of_tables {s s' : State} (hi : NH s) (hp : s'.params = s.params) (hb : BankNonneg s') (hu : DepUniq s')
    (hna : s'.nodeActive = s.nodeActive) (hni : s'.nodeInactive = s.nodeInactive) (hs : s'.subs = s.subs)
    (hx : s'.sessions = s.sessions) (ha : s'.allocs = s.allocs) : NH s' := by
  refine ⟨?_, hb, hu, ?_, ?_, ?_, ?_⟩
  · rw [hp]; exact hi.params
  · rw [hna, hni]; exact hi.nodes
  · rw [hs]; exact hi.subs
  · rw [hx]; exact hi.sess
  · rw [hx, hs, ha]; exact hi.sessAlloc

theorem nh_of_hview {s s' : State} (h : hview s' = hview s) (hi : NH s) : NH s' := by
  have hbk : s'.bank = s.bank := congrArg HView.bank h
  have hdp : s'.deposits = s.deposits := congrArg HView.deposits h
  refine nh_of_tables hi (congrArg HView.params h) ?_ ?_ (congrArg HView.nodeActive h) (congrArg HView.nodeInactive h)
    (congrArg HView.subs h) (congrArg HView.sessions h) (congrArg HView.allocs h)
  · intro k v hg; rw [hbk] at hg; exact hi.bank k v hg
  · intro a cs hg; rw [hdp] at hg; exact hi.depUniq a cs hg

/-- A money step (bank, escrow records, events) that keeps balances non-negative and records duplicate-free. -/
theorem nh_of_moneyFrame {s s' : State} (hf : MoneyFrame s s') (hb : BankNonneg s') (hu : DepUniq s') (hi : NH s) : NH s' := by
  have e := hf.eq
  refine nh_of_tables hi ?_ hb hu ?_ ?_ ?_ ?_ ?_ <;> rw [e]

end Hooks

open Hooks

theorem clearEvents_nh {s : State} (hi : NH s) : NH { s with events := [] } :=
  nh_of_hview (s := s) rfl hi

theorem clearModified_nh {s : State} (hi : NH s) : NH { s with modified := {} } :=
  nh_of_hview (s := s) rfl hi

namespace Hooks

theorem emit_nh {s : State} (e : Event) (hi : NH s) : NH (emit s e) :=
  nh_of_hview (s := s) rfl hi

end Hooks

/-! ### BeginBlock before the payout loop -/

namespace Hooks

theorem hview_mintBeginBlock_go (l : List Inflation) (s : State) : hview (mintBeginBlock.go s l) = hview s := by
  induction l generalizing s with
  | nil => rfl
  | cons item rest ih =>
    unfold mintBeginBlock.go
    split
    · rfl
    · rw [ih]; rfl

theorem sweepDenom_bankNonneg (s : State) (d : Denom) (hb : BankNonneg s) : BankNonneg (sweepDenom s d) := by
  intro k v hg
  obtain ⟨a, d'⟩ := k
  have hv : balance (sweepDenom s d) a d' = v := by unfold balance; rw [hg]; rfl
  rw [← hv]
  unfold sweepDenom
  rw [balance_setBalance]
  have h1 := balance_nonneg hb distrAddr d
  have h2 := balance_nonneg hb feeCollectorAddr d
  split
  · omega
  · rw [balance_setBalance]
    split
    · exact le_refl _
    · exact balance_nonneg hb a d'

theorem sweepDenom_nh (s : State) (d : Denom) (hi : NH s) : NH (sweepDenom s d) :=
  nh_of_tables hi rfl (sweepDenom_bankNonneg s d hi.bank) hi.depUniq rfl rfl rfl rfl rfl

theorem distrSweep_nh (s : State) (hi : NH s) : NH (distrSweep s) := by
  unfold distrSweep
  exact foldl_inv NH sweepDenom (fun s d h => sweepDenom_nh s d h) _ s hi

end Hooks

/-- the part of BeginBlock before the payout loop -/
theorem beginPrefix_nh (s : State) (t : Time) (hi : NH s) :
    NH (distrSweep (mintBeginBlock { s with time := t, height := s.height + 1, events := [] })) := by
  apply distrSweep_nh
  exact nh_of_hview (s := s) (hview_mintBeginBlock_go _ _) hi

/-! ### coins produced by the model are non-negative -/

namespace Hooks

theorem proportion_nonneg {c r : Coin} {sh : Dec} (h : GetProportionOfCoin c sh = .ok r) : 0 ≤ r.amount := by
  unfold GetProportionOfCoin at h
  simp only [bind_eq_ok] at h
  obtain ⟨t1, _, t2, _, h3⟩ := h
  obtain ⟨e, h0⟩ := newCoin_eq_ok h3
  rw [e]; exact h0

theorem newCoin_nonneg {d : Denom} {a : Int} {c : Coin} (h : newCoin d a = .ok c) : 0 ≤ c.amount := by
  obtain ⟨e, h0⟩ := newCoin_eq_ok h
  rw [e]; exact h0

end Hooks

/-! ### money sub-steps -/

namespace Hooks

theorem toModule_nh {s s' : State} {f m : Addr} {c : Coin} (h : sendCoinFromDepositToModule s f m c = .ok s')
    (h0 : 0 ≤ c.amount) (hi : NH s) : NH s' := by
  obtain ⟨b, u⟩ := sendCoinFromDepositToModule_keeps h h0 hi.bank hi.depUniq
  exact nh_of_moneyFrame (sendCoinFromDepositToModule_frame h) b u hi

theorem toAccount_nh {s s' : State} {f t : Addr} {c : Coin} (h : sendCoinFromDepositToAccount s f t c = .ok s')
    (h0 : 0 ≤ c.amount) (hi : NH s) : NH s' := by
  obtain ⟨b, u⟩ := sendCoinFromDepositToAccount_keeps h h0 hi.bank hi.depUniq
  exact nh_of_moneyFrame (sendCoinFromDepositToAccount_frame h) b u hi

theorem subtract_nh {s s' : State} {a : Addr} {c : Coin} (h : subtractDeposit s a c = .ok s')
    (h0 : 0 ≤ c.amount) (hi : NH s) : NH s' := by
  obtain ⟨b, u⟩ := subtractDeposit_keeps h h0 hi.bank hi.depUniq
  exact nh_of_moneyFrame (subtractDeposit_frame h) b u hi

end Hooks

/-! ### one payout -/

theorem payoutStep_nh {s s' : State} {k : Time × Nat} (h : payoutStep s k = .ok s') (hi : NH s) : NH s' := by
  unfold payoutStep at h
  simp only [bind_eq_ok, pure_eq_ok, requireP_eq_ok, orPanic_eq_ok] at h
  obtain ⟨item, _, reward, hrw, s2, h2, payAmt, _, _, hpay, s3, h3, rfl⟩ := h
  have i1 : NH { s with payQ := s.payQ.erase (item.nextAt, item.id) } := nh_of_hview (s := s) rfl hi
  have i2 := toModule_nh h2 (proportion_nonneg hrw) i1
  have hp0 : (0 : Int) ≤ payAmt := by simpa using hpay
  have i3 := toAccount_nh h3 (c := ⟨item.price.denom, payAmt⟩) hp0 i2
  refine nh_of_hview (s := s3) ?_ i3
  split <;> rfl

/-! ### node steps -/

namespace Hooks

/-- Writing a node record under an address that already holds a node. -/
theorem setNode_nh {s s' : State} {n : Node} (h : setNode s n = .ok s') (hb : isBlocked n.addr = false) (hi : NH s) : NH s' := by
  rcases setNode_eff h with ⟨_, e⟩ | ⟨_, e⟩ <;> subst e
  · refine ⟨hi.params, hi.bank, hi.depUniq, ?_, hi.subs, hi.sess, hi.sessAlloc⟩
    intro a x hx
    simp only [Tbl.get_set] at hx
    by_cases hc : n.addr = a
    · rw [← hc]; exact hb
    · simp only [hc, if_false] at hx
      exact hi.nodes a x hx
  · refine ⟨hi.params, hi.bank, hi.depUniq, ?_, hi.subs, hi.sess, hi.sessAlloc⟩
    intro a x hx
    simp only [Tbl.get_set] at hx
    by_cases hc : n.addr = a
    · rw [← hc]; exact hb
    · simp only [hc, if_false] at hx
      exact hi.nodes a x hx

theorem getNode_addr {s : State} {a : Addr} {n : Node} (hr : RecInv s) (h : getNode s a = some n) : n.addr = a := by
  rcases getNode_mem h with hm | hm
  · exact (hr.nodeA a n hm).1
  · exact (hr.nodeI a n hm).1

end Hooks

/-- one iteration of the re-pricing sweep (`Hub.Model.sweepBody` of Hub/Lemmas/Prices.lean) -/
theorem sweepBody_nh {s s' : State} {a : Addr} (h : sweepBody s a = .ok s') (hr : RecInv s) (hi : NH s) : NH s' := by
  unfold sweepBody at h
  simp only [bind_eq_ok, pure_eq_ok, orPanic_eq_ok] at h
  obtain ⟨item, hitem, s1, h1, rfl⟩ := h
  have hb : isBlocked a = false := hi.nodes a item (getNode_mem hitem)
  have ha : item.addr = a := getNode_addr hr hitem
  apply emit_nh
  refine setNode_nh h1 ?_ hi
  rw [(Hub.Model.sweepNode_addr _ _ _).1, ha]; exact hb

theorem nodeExpireStep_nh {s s' : State} {k : Time × Addr} (h : nodeExpireStep s k = .ok s') (hr : RecInv s) (hi : NH s) : NH s' := by
  unfold nodeExpireStep at h
  simp only [bind_eq_ok, pure_eq_ok, orPanic_eq_ok] at h
  obtain ⟨item, hitem, s3, h3, rfl⟩ := h
  have hb : isBlocked k.2 = false := hi.nodes k.2 item (getNode_mem hitem)
  have ha : item.addr = k.2 := getNode_addr hr hitem
  apply emit_nh
  refine setNode_nh h3 (by show isBlocked item.addr = false; rw [ha]; exact hb) ?_
  refine ⟨hi.params, hi.bank, hi.depUniq, ?_, hi.subs, hi.sess, hi.sessAlloc⟩
  intro a x hx
  simp only [Tbl.get_erase] at hx
  by_cases hc : item.addr = a
  · rw [← hc, ha]; exact hb
  · simp only [hc, if_false] at hx
    exact hi.nodes a x hx

/-! ### session steps -/

namespace Hooks

theorem has_set_of_has {κ α : Type} [DecidableEq κ] (t : Tbl κ α) (k k' : κ) (v : α) (h : t.has k' = true) :
    (t.set k v).has k' = true := by
  rw [Tbl.has_iff] at h ⊢
  obtain ⟨w, hw⟩ := h
  rw [Tbl.get_set]
  split
  · exact ⟨v, rfl⟩
  · exact ⟨w, hw⟩

/-- A session is re-written with the same subscription, account, node and usage report. -/
theorem sessionToPending_nh {s : State} {x : Session} {i : Nat} (hx : s.sessions.get i = some x) (hi : NH s) :
    NH (sessionToPending s x) := by
  have hok := hi.sess i x hx
  refine ⟨hi.params, hi.bank, hi.depUniq, hi.nodes, hi.subs, ?_, ?_⟩
  · intro j y hy
    rw [sessionToPending_sessions, Tbl.get_set] at hy
    split_ifs at hy
    · simp only [Option.some.injEq] at hy
      rw [← hy]
      exact ⟨hok.node, hok.up0, hok.up1, hok.down0, hok.down1⟩
    · exact hi.sess j y hy
  · intro j y z hy hz hh
    rw [sessionToPending_sessions, Tbl.get_set] at hy
    split_ifs at hy
    · simp only [Option.some.injEq] at hy
      rw [← hy] at hz ⊢
      exact hi.sessAlloc i x z hx hz hh
    · exact hi.sessAlloc j y z hy hz hh

theorem setAllocation_nh {s : State} (a : Alloc) (hi : NH s) : NH (setAllocation s a) := by
  refine ⟨hi.params, hi.bank, hi.depUniq, hi.nodes, hi.subs, hi.sess, ?_⟩
  intro j y z hy hz hh
  exact has_set_of_has _ _ _ _ (hi.sessAlloc j y z hy hz hh)

theorem settleSession_nh {s s' : State} {x : Session} {acc node : Addr} {dep : Coin} {gb b a : Int}
    (h : settleSession s x acc node dep gb b a = .ok s') (hi : NH s) : NH s' := by
  unfold settleSession at h
  simp only [bind_eq_ok, pure_eq_ok, requireP_eq_ok] at h
  obtain ⟨price, _, prev, _, cur, _, payAmt, _, payment, _, reward, hrw, s1, h1, netAmt, _, _, hnet, s2, h2, rfl⟩ := h
  have i1 := toModule_nh h1 (proportion_nonneg hrw) hi
  have hn0 : (0 : Int) ≤ netAmt := by simpa using hnet
  have i2 := toAccount_nh h2 (c := ⟨payment.denom, netAmt⟩) hn0 i1
  exact emit_nh _ i2

theorem sessionInactiveHook_nh {s s' : State} {id : Nat} {acc node : Addr} {bytes : Int}
    (h : sessionInactiveHook s id acc node bytes = .ok s') (hi : NH s) : NH s' := by
  unfold sessionInactiveHook at h
  simp only [bind_eq_ok, require_eq_ok, orReject_eq_ok] at h
  obtain ⟨x, _, _, _, sub, _, h⟩ := h
  split at h
  · rw [pure_eq_ok] at h; rw [← h]; exact hi
  · simp only [bind_eq_ok, orReject_eq_ok] at h
    obtain ⟨a, _, used, _, h⟩ := h
    have i1 := emit_nh (evAllocate (allocAfterUse a used)) (setAllocation_nh (allocAfterUse a used) hi)
    split at h
    · exact settleSession_nh h i1
    · rw [pure_eq_ok] at h; rw [← h]; exact i1

theorem removeSession_nh {s : State} (item : Session) (hi : NH s) : NH (removeSession s item) := by
  refine ⟨hi.params, hi.bank, hi.depUniq, hi.nodes, hi.subs, ?_, ?_⟩
  · intro j y hy
    have hy' : (s.sessions.erase item.id).get j = some y := hy
    rw [Tbl.get_erase] at hy'
    split_ifs at hy'
    exact hi.sess j y hy'
  · intro j y z hy hz hh
    have hy' : (s.sessions.erase item.id).get j = some y := hy
    rw [Tbl.get_erase] at hy'
    split_ifs at hy'
    exact hi.sessAlloc j y z hy' hz hh

end Hooks

theorem sessionStep_nh {s s' : State} {k : Time × Nat} (h : sessionStep s k = .ok s') (hc : CountInv s) (hi : NH s) : NH s' := by
  obtain ⟨item, hitem, ⟨_, rfl⟩ | ⟨_, s2, h2, rfl⟩⟩ := sessionStep_eff h
  · exact sessionToPending_nh hitem hi
  · apply removeSession_nh
    refine sessionInactiveHook_nh h2 ?_
    exact nh_of_hview (s := s) rfl hi

/-! ### subscription steps -/

namespace Hooks

theorem subscriptionInactivePendingHook_nh {s s' : State} {id : Nat}
    (h : subscriptionInactivePendingHook s id = .ok s') (hi : NH s) : NH s' := by
  unfold subscriptionInactivePendingHook at h
  refine foldlM_inv NH _ ?_ _ s s' h hi
  intro s0 sid s1 h1 hp
  simp only [bind_eq_ok, pure_eq_ok, orPanic_eq_ok] at h1
  obtain ⟨x, hx, rfl⟩ := h1
  split
  · exact sessionToPending_nh hx hp
  · exact hp

/-- The subscription record is re-written under its own id with the same owner and kind. -/
theorem subToPending_nh {s : State} {sub : Sub} (d : Dur) (hsub : s.subs.get sub.id = some sub) (hi : NH s) :
    NH (subToPending s sub d).1 := by
  have hok : SubOK sub := hi.subs _ _ hsub
  refine ⟨hi.params, hi.bank, hi.depUniq, hi.nodes, ?_, hi.sess, ?_⟩
  · intro j y hy
    have hy' : (s.subs.set sub.id { sub with inactiveAt := s.time + d, status := .StatusInactivePending, statusAt := s.time }).get j
        = some y := hy
    rw [Tbl.get_set] at hy'
    split_ifs at hy'
    · simp only [Option.some.injEq] at hy'
      rw [← hy']
      exact hok
    · exact hi.subs j y hy'
  · intro j x y hx hy hh
    have hx' : s.sessions.get j = some x := hx
    have hy' : (s.subs.set sub.id { sub with inactiveAt := s.time + d, status := .StatusInactivePending, statusAt := s.time }).get x.sub
        = some y := hy
    rw [Tbl.get_set] at hy'
    split_ifs at hy' with hcs
    · simp only [Option.some.injEq] at hy'
      rw [← hy'] at hh
      exact hi.sessAlloc j x sub hx' (by rw [← hcs]; exact hsub) hh
    · exact hi.sessAlloc j x y hx' hy' hh

theorem detachPayout_hview {s s' : State} {sub : Sub} {b : Bool} (h : detachPayout s sub b = .ok s') : hview s' = hview s := by
  unfold detachPayout at h
  split at h
  · simp only [bind_eq_ok, pure_eq_ok] at h
    obtain ⟨p, _, rfl⟩ := h
    rfl
  · rw [pure_eq_ok] at h; rw [← h]

theorem removePayout_hview {s s' : State} {item : Sub} (h : removePayout s item = .ok s') : hview s' = hview s := by
  unfold removePayout at h
  split at h
  · simp only [bind_eq_ok, pure_eq_ok, orPanic_eq_ok] at h
    obtain ⟨p, _, rfl⟩ := h
    rfl
  · rw [pure_eq_ok] at h; rw [h]

theorem refundSub_nh {s s' : State} {item : Sub} (h : refundSub s item = .ok s') (hi : NH s) : NH s' := by
  unfold refundSub at h
  split at h
  · simp only [bind_eq_ok] at h
    obtain ⟨s1, h1, h2⟩ := h
    have i1 : NH s1 := by
      split at h1
      · unfold refundGB at h1
        simp only [bind_eq_ok, pure_eq_ok, orPanic_eq_ok, panicIfErr_eq_ok] at h1
        obtain ⟨price, _, a, _, paid, _, ra, _, refund, hrf, s2, h2', rfl⟩ := h1
        exact emit_nh _ (subtract_nh h2' (newCoin_nonneg hrf) hi)
      · rw [pure_eq_ok] at h1; rw [← h1]; exact hi
    split at h2
    · unfold refundHr at h2
      simp only [bind_eq_ok, pure_eq_ok, orPanic_eq_ok, panicIfErr_eq_ok] at h2
      obtain ⟨p, _, ra, _, refund, hrf, s2, h2', rfl⟩ := h2
      exact emit_nh _ (subtract_nh h2' (newCoin_nonneg hrf) i1)
    · rw [pure_eq_ok] at h2; rw [← h2]; exact i1
  · rw [pure_eq_ok] at h; rw [← h]; exact hi

theorem foldl_erase_get_ne (l : List Addr) (t : Tbl (Nat × Addr) Alloc) (id : Nat) (k : Nat × Addr) (hk : k.1 ≠ id) :
    (l.foldl (fun t a => t.erase (id, a)) t).get k = t.get k := by
  induction l generalizing t with
  | nil => rfl
  | cons a rest ih =>
    rw [List.foldl_cons, ih, Tbl.get_erase_ne]
    intro e
    apply hk
    rw [← e]

theorem removeSubRecords_rest (s : State) (item : Sub) :
    (removeSubRecords s item).params = s.params ∧ (removeSubRecords s item).bank = s.bank ∧
    (removeSubRecords s item).deposits = s.deposits ∧ (removeSubRecords s item).nodeActive = s.nodeActive ∧
    (removeSubRecords s item).nodeInactive = s.nodeInactive := by
  unfold removeSubRecords
  cases item.kind with
  | node n gb hr dep => exact ⟨rfl, rfl, rfl, rfl, rfl⟩
  | plan pid d =>
    simp only [emit]
    rw [removeAllocs_frame]
    exact ⟨rfl, rfl, rfl, rfl, rfl⟩

/-- Removing a subscription record with its own allocations. -/
theorem removeSubRecords_nh {s : State} (item : Sub) (hi : NH s) : NH (removeSubRecords s item) := by
  obtain ⟨ep, eb, ed, ea, en⟩ := removeSubRecords_rest s item
  obtain ⟨es, ex⟩ := removeSubRecords_subs s item
  obtain ⟨l, el⟩ := removeSubRecords_allocs s item
  refine ⟨?_, ?_, ?_, ?_, ?_, ?_, ?_⟩
  · rw [ep]; exact hi.params
  · intro k v hg; rw [eb] at hg; exact hi.bank k v hg
  · intro a cs hg; rw [ed] at hg; exact hi.depUniq a cs hg
  · rw [ea, en]; exact hi.nodes
  · intro j y hy
    rw [es, Tbl.get_erase] at hy
    split_ifs at hy
    exact hi.subs j y hy
  · rw [ex]; exact hi.sess
  · intro j x y hx hy hh
    rw [ex] at hx
    rw [es, Tbl.get_erase] at hy
    split_ifs at hy with hcs
    have := hi.sessAlloc j x y hx hy hh
    rw [Tbl.has_iff] at this ⊢
    rw [el, foldl_erase_get_ne l s.allocs item.id (x.sub, x.addr) (fun e => hcs e.symm)]
    exact this

end Hooks

/-- `hno`: when the step removes a (non-active) subscription, no stored session refers to it -/
theorem subscriptionStep_nh {s s' : State} {d : Dur} {k : Time × Nat} (h : subscriptionStep d s k = .ok s') (hc : CountInv s)
    (hno : ∀ item, s.subs.get k.2 = some item → item.status ≠ .StatusActive →
      ∀ i x, s.sessions.get i = some x → x.sub ≠ item.id)
    (hi : NH s) : NH s' := by
  unfold subscriptionStep at h
  simp only [bind_eq_ok, orPanic_eq_ok] at h
  obtain ⟨item, hitem, h⟩ := h
  have hid : item.id = k.2 := (hc.subs k.2 item hitem).1
  have i1 : NH { s with subQ := s.subQ.erase (item.inactiveAt, item.id) } := nh_of_hview (s := s) rfl hi
  split at h
  · simp only [bind_eq_ok, panicIfErr_eq_ok] at h
    obtain ⟨s2, h2, h3⟩ := h
    have i2 := subscriptionInactivePendingHook_nh h2 i1
    have hf := subscriptionInactivePendingHook_frame h2
    have hsub2 : s2.subs.get item.id = some item := by
      have e : s2.subs = s.subs := by rw [hf]
      rw [e, hid]; exact hitem
    exact nh_of_hview (detachPayout_hview h3) (subToPending_nh d hsub2 i2)
  · simp only [bind_eq_ok] at h
    obtain ⟨s2, h2, h3⟩ := h
    have i2 := refundSub_nh h2 i1
    exact nh_of_hview (removePayout_hview h3) (removeSubRecords_nh item i2)

end Hub.Model.NoHalt
