import Hub.Lemmas.Calendar
import Hub.Lemmas.CalendarInvChunk0
import Hub.Lemmas.CalendarInvChunk1
import Hub.Lemmas.CalendarInvChunk2
import Hub.Lemmas.CalendarInvChunk3
/-
`daysFromCivil` (Hinnant's `days_from_civil`) undoes `civilFromDays`, and the day of the date exists in its month:
what reading an RFC 3339 date back needs (C19, JSON; `Hub/Lemmas/ProtoJsonLeaves.lean`).

Route as in `Hub/Lemmas/Calendar.lean`: the per-day fact `invOK` for the 146097 days of one 400-year era (kernel
evaluation, `CalendarInvChunk*`), the cast from `Nat` to `Int`, the era decomposition `civilFromDays_eq`.
-/
namespace Hub.Lemmas.Calendar
open Hub.SDK Hub.SDK.ProtoJson

theorem invOK_most (k : Nat) (hk : k < 146096) : invOK k = true := by
  by_cases h0 : k < 1 * 9131; · exact allFrom_spec invChunk0 k (by omega) (by omega)
  by_cases h1 : k < 2 * 9131; · exact allFrom_spec invChunk1 k (by omega) (by omega)
  by_cases h2 : k < 3 * 9131; · exact allFrom_spec invChunk2 k (by omega) (by omega)
  by_cases h3 : k < 4 * 9131; · exact allFrom_spec invChunk3 k (by omega) (by omega)
  by_cases h4 : k < 5 * 9131; · exact allFrom_spec invChunk4 k (by omega) (by omega)
  by_cases h5 : k < 6 * 9131; · exact allFrom_spec invChunk5 k (by omega) (by omega)
  by_cases h6 : k < 7 * 9131; · exact allFrom_spec invChunk6 k (by omega) (by omega)
  by_cases h7 : k < 8 * 9131; · exact allFrom_spec invChunk7 k (by omega) (by omega)
  by_cases h8 : k < 9 * 9131; · exact allFrom_spec invChunk8 k (by omega) (by omega)
  by_cases h9 : k < 10 * 9131; · exact allFrom_spec invChunk9 k (by omega) (by omega)
  by_cases h10 : k < 11 * 9131; · exact allFrom_spec invChunk10 k (by omega) (by omega)
  by_cases h11 : k < 12 * 9131; · exact allFrom_spec invChunk11 k (by omega) (by omega)
  by_cases h12 : k < 13 * 9131; · exact allFrom_spec invChunk12 k (by omega) (by omega)
  by_cases h13 : k < 14 * 9131; · exact allFrom_spec invChunk13 k (by omega) (by omega)
  by_cases h14 : k < 15 * 9131; · exact allFrom_spec invChunk14 k (by omega) (by omega)
  exact allFrom_spec invChunk15 k (by omega) (by omega)

theorem invOK_last : invOK 146096 = true := by decide +kernel

theorem invOK_all (k : Nat) (hk : k < 146097) : invOK k = true := by
  by_cases h : k < 146096
  · exact invOK_most k h
  · have e : k = 146096 := by omega
    rw [e]; exact invOK_last

/-- Leap-year arithmetic is periodic in 400 years. -/
theorem daysInMonth_shift (y e m : Nat) : daysInMonth (y + e * 400) m = daysInMonth y m := by
  unfold daysInMonth
  have h4 : (y + e * 400) % 4 = y % 4 := by omega
  have h100 : (y + e * 400) % 100 = y % 100 := by omega
  have h400 : (y + e * 400) % 400 = y % 400 := by omega
  rw [h4, h100, h400]

/-- **The date computed for a day number leads back to the day number.** -/
theorem daysFromCivil_civilFromDays (z : Int) :
    daysFromCivil (civilFromDays z).1 (civilFromDays z).2.1 (civilFromDays z).2.2 = z := by
  rw [civilFromDays_eq]
  simp only
  have hd0 : 0 ≤ (z + 719468) % 146097 := by omega
  have hd1 : (z + 719468) % 146097 < 146097 := by omega
  have hz : z = (z + 719468) / 146097 * 146097 + (z + 719468) % 146097 - 719468 := by omega
  generalize (z + 719468) / 146097 = E at *
  generalize (z + 719468) % 146097 = doe at *
  obtain ⟨k, rfl⟩ := Int.eq_ofNat_of_zero_le hd0
  have f := entry_facts k (by omega)
  have g := invOK_all k (by omega)
  rw [civilOfDoe_natCast k f.1]
  simp only [invOK, Bool.and_eq_true, decide_eq_true_eq] at g
  obtain ⟨⟨⟨g1, g2⟩, g3⟩, _⟩ := g
  unfold invN yoeOf mpOf at g1
  unfold yoeOf at g2
  generalize (civilN k).1 = Y at *
  generalize (civilN k).2.1 = m at *
  generalize (civilN k).2.2 = d at *
  unfold daysFromCivil
  simp only
  rw [hz]
  by_cases hm : m ≤ 2
  · have hm' : (m : Int) ≤ 2 := by omega
    have hm2 : ¬ (m : Int) > 2 := by omega
    have hm3 : ¬ m > 2 := by omega
    simp only [hm, if_true, hm3, if_false] at g1 g2
    have hY := g3 hm
    obtain ⟨y, rfl⟩ : ∃ y, Y = y + 1 := ⟨Y - 1, by omega⟩
    simp only [Nat.add_sub_cancel] at g1 g2
    simp only [hm', if_true, hm2, if_false]
    have e0 : ((y + 1 : Nat) : Int) + E * 400 - 1 = (y : Int) + E * 400 := by omega
    rw [e0]
    have e1 : ((y : Int) + E * 400) / 400 = E := by omega
    rw [e1]
    have e2 : (y : Int) + E * 400 - E * 400 = (y : Int) := by omega
    rw [e2]
    have g1' : (y : Int) * 365 + (y : Int) / 4 - (y : Int) / 100 + ((153 * ((m : Int) + 9) + 2) / 5 + (d : Int) - 1) = (k : Int) := by
      omega
    omega
  · have hm' : ¬ (m : Int) ≤ 2 := by omega
    have hm2 : (m : Int) > 2 := by omega
    have hm3 : m > 2 := by omega
    simp only [hm, if_false, hm3, if_true] at g1 g2
    simp only [hm', if_false, hm2, if_true]
    have e1 : ((Y : Int) + E * 400) / 400 = E := by omega
    rw [e1]
    have e2 : (Y : Int) + E * 400 - E * 400 = (Y : Int) := by omega
    rw [e2]
    have g1' : (Y : Int) * 365 + (Y : Int) / 4 - (Y : Int) / 100 + ((153 * ((m : Int) - 3) + 2) / 5 + (d : Int) - 1) = (k : Int) := by
      omega
    omega

/-- **The day of the date exists in its month** (for day numbers from 0000-03-01 on: the year is not negative). -/
theorem civil_day_in_month (z : Int) (hz : -719468 ≤ z) :
    0 ≤ (civilFromDays z).1 ∧
    (civilFromDays z).2.2.toNat ≤ daysInMonth (civilFromDays z).1.toNat (civilFromDays z).2.1.toNat := by
  rw [civilFromDays_eq]
  simp only
  have hd0 : 0 ≤ (z + 719468) % 146097 := by omega
  have hd1 : (z + 719468) % 146097 < 146097 := by omega
  have hE : 0 ≤ (z + 719468) / 146097 := by omega
  generalize (z + 719468) / 146097 = E at *
  generalize (z + 719468) % 146097 = doe at *
  obtain ⟨k, rfl⟩ := Int.eq_ofNat_of_zero_le hd0
  obtain ⟨e, rfl⟩ := Int.eq_ofNat_of_zero_le hE
  have f := entry_facts k (by omega)
  have g := invOK_all k (by omega)
  rw [civilOfDoe_natCast k f.1]
  simp only [invOK, Bool.and_eq_true, decide_eq_true_eq] at g
  have g4 := g.2
  simp only
  have e1 : (((civilN k).1 : Int) + (e : Int) * 400).toNat = (civilN k).1 + e * 400 := by omega
  rw [e1, daysInMonth_shift]
  simp only [Int.toNat_natCast]
  exact ⟨by omega, g4⟩

end Hub.Lemmas.Calendar
