import Hub.Lemmas.CalendarChunk0
import Hub.Lemmas.CalendarChunk1
import Hub.Lemmas.CalendarChunk2
import Hub.Lemmas.CalendarChunk3
import Hub.Lemmas.CalendarChunk4
import Hub.Lemmas.CalendarChunk5
import Hub.Lemmas.CalendarChunk6
import Hub.Lemmas.CalendarChunk7
import Hub.Lemmas.CalendarChunk8
import Hub.Lemmas.CalendarChunk9
import Hub.Lemmas.CalendarChunk10
import Hub.Lemmas.CalendarChunk11
import Hub.Lemmas.CalendarChunk12
import Hub.Lemmas.CalendarChunk13
import Hub.Lemmas.CalendarChunk14
import Hub.Lemmas.CalendarChunk15
/-
Calendar lemmas for C17: `civilFromDays` is strictly monotone (as a (year, month, day) triple) in
the day number, its month/day fields are always in range, and the year is 1..9999 over the days of
`[0001-01-01, 10000-01-01)`.

Route: the 16 chunk modules check `entryOK k` for every day of era `k < 146096` of ONE 400-year era
(a finite domain enumerated in full by the kernel, over `Nat`); `civilOfDoe_natCast` transfers the
facts to the `Int` computation; `civilFromDays_eq` is the era decomposition (the era only adds
`era * 400` to the year), which lifts the one-step statement to every day number, with the
roll-over from the last day of an era to the first day of the next as the separate entry
`entry_last`.
-/
namespace Hub.Lemmas.Calendar
open Hub.SDK

/-- The complete table: every day of era but the last. -/
theorem entryOK_all (k : Nat) (hk : k < 146096) : entryOK k = true := by
  by_cases h0 : k < 1 * 9131; · exact allFrom_spec chunk0 k (by omega) (by omega)
  by_cases h1 : k < 2 * 9131; · exact allFrom_spec chunk1 k (by omega) (by omega)
  by_cases h2 : k < 3 * 9131; · exact allFrom_spec chunk2 k (by omega) (by omega)
  by_cases h3 : k < 4 * 9131; · exact allFrom_spec chunk3 k (by omega) (by omega)
  by_cases h4 : k < 5 * 9131; · exact allFrom_spec chunk4 k (by omega) (by omega)
  by_cases h5 : k < 6 * 9131; · exact allFrom_spec chunk5 k (by omega) (by omega)
  by_cases h6 : k < 7 * 9131; · exact allFrom_spec chunk6 k (by omega) (by omega)
  by_cases h7 : k < 8 * 9131; · exact allFrom_spec chunk7 k (by omega) (by omega)
  by_cases h8 : k < 9 * 9131; · exact allFrom_spec chunk8 k (by omega) (by omega)
  by_cases h9 : k < 10 * 9131; · exact allFrom_spec chunk9 k (by omega) (by omega)
  by_cases h10 : k < 11 * 9131; · exact allFrom_spec chunk10 k (by omega) (by omega)
  by_cases h11 : k < 12 * 9131; · exact allFrom_spec chunk11 k (by omega) (by omega)
  by_cases h12 : k < 13 * 9131; · exact allFrom_spec chunk12 k (by omega) (by omega)
  by_cases h13 : k < 14 * 9131; · exact allFrom_spec chunk13 k (by omega) (by omega)
  by_cases h14 : k < 15 * 9131; · exact allFrom_spec chunk14 k (by omega) (by omega)
  exact allFrom_spec chunk15 k (by omega) (by omega)

/-- The last day of era (29 February of the year ≡ 0 mod 400) and the roll-over to the next era. -/
theorem entry_last : (decide (startN (yoeN 146096) ≤ 146096) && rangeN (civilN 146096)
    && decide (keyN (civilN 146096) < keyN (civilN 0) + 4000000)) = true := by decide +kernel

/-- The era-independent part of `civilFromDays`, as a function of the day of era. -/
def civilOfDoe (doe : Int) : Int × Int × Int :=
  let yoe := (doe - doe / 1460 + doe / 36524 - doe / 146096) / 365
  let doy := doe - (365 * yoe + yoe / 4 - yoe / 100)
  let mp := (5 * doy + 2) / 153
  let d := doy - (153 * mp + 2) / 5 + 1
  let m := if mp < 10 then mp + 3 else mp - 9
  (if m ≤ 2 then yoe + 1 else yoe, m, d)

theorem civilFromDays_eq (z : Int) :
    civilFromDays z =
      ((civilOfDoe ((z + 719468) % 146097)).1 + (z + 719468) / 146097 * 400,
       (civilOfDoe ((z + 719468) % 146097)).2.1, (civilOfDoe ((z + 719468) % 146097)).2.2) := by
  have e : (z + 719468) - (z + 719468) / 146097 * 146097 = (z + 719468) % 146097 := by omega
  simp only [civilFromDays, civilOfDoe, e]
  split <;> simp only [Prod.mk.injEq, and_true] <;> omega

/-- Over the day-of-era range the `Int` computation is the cast of the `Nat` computation. -/
theorem civilOfDoe_natCast (k : Nat) (h : startN (yoeN k) ≤ k) :
    civilOfDoe (k : Int) = (((civilN k).1 : Int), ((civilN k).2.1 : Int), ((civilN k).2.2 : Int)) := by
  have hy : ((k : Int) - (k : Int) / 1460 + (k : Int) / 36524 - (k : Int) / 146096) / 365 = (yoeN k : Int) := by
    unfold yoeN; omega
  unfold startN at h
  generalize hyv : yoeN k = y at h hy
  have hdoy : (k : Int) - (365 * (y : Int) + (y : Int) / 4 - (y : Int) / 100) = ((k - startN y : Nat) : Int) := by
    unfold startN; omega
  generalize hdv : k - startN y = doy at hdoy
  have hmp : (5 * (doy : Int) + 2) / 153 = (((5 * doy + 2) / 153 : Nat) : Int) := by omega
  generalize hmv : (5 * doy + 2) / 153 = mp at hmp
  have hd : (doy : Int) - (153 * (mp : Int) + 2) / 5 + 1 = ((doy - (153 * mp + 2) / 5 + 1 : Nat) : Int) := by omega
  simp only [civilOfDoe, civilN, hy, hyv, hdoy, hdv, hmp, hmv, hd]
  by_cases hm : mp < 10
  · have hm' : (mp : Int) < 10 := by omega
    have h1 : ¬ (mp + 3 ≤ 2) := by omega
    have h1' : ¬ ((mp : Int) + 3 ≤ 2) := by omega
    simp only [hm, hm', h1, h1', if_true, if_false, Int.natCast_add, Int.cast_ofNat_Int]
  · have hm' : ¬ (mp : Int) < 10 := by omega
    have e : (mp : Int) - 9 = ((mp - 9 : Nat) : Int) := by omega
    simp only [hm, hm', if_false, e]
    by_cases h2 : mp - 9 ≤ 2
    · have h2' : ((mp - 9 : Nat) : Int) ≤ 2 := by omega
      simp only [h2, h2', if_true, Int.natCast_add, Int.cast_ofNat_Int]
    · have h2' : ¬ ((mp - 9 : Nat) : Int) ≤ 2 := by omega
      simp only [h2, h2', if_false]

/-- A single number ordered like the (year, month, day) triple when month and day are ≤ 99. -/
def dateKey (c : Int × Int × Int) : Int := c.1 * 10000 + c.2.1 * 100 + c.2.2

theorem dateKey_natCast (c : Nat × Nat × Nat) :
    dateKey ((c.1 : Int), (c.2.1 : Int), (c.2.2 : Int)) = (keyN c : Int) := by
  simp only [dateKey, keyN]; omega

/-- No underflow and field ranges for every day of era. -/
theorem entry_facts (k : Nat) (hk : k < 146097) :
    startN (yoeN k) ≤ k ∧ (civilN k).1 ≤ 400 ∧ 1 ≤ (civilN k).2.1 ∧ (civilN k).2.1 ≤ 12 ∧
      1 ≤ (civilN k).2.2 ∧ (civilN k).2.2 ≤ 31 := by
  by_cases h : k < 146096
  · have := entryOK_all k h
    simp only [entryOK, rangeN, Bool.and_eq_true, decide_eq_true_eq] at this
    omega
  · have e : k = 146096 := by omega
    have := entry_last
    simp only [rangeN, Bool.and_eq_true, decide_eq_true_eq] at this
    subst e
    omega

theorem doe_range (doe : Int) (h0 : 0 ≤ doe) (h1 : doe < 146097) :
    0 ≤ (civilOfDoe doe).1 ∧ (civilOfDoe doe).1 ≤ 400 ∧ 1 ≤ (civilOfDoe doe).2.1 ∧
      (civilOfDoe doe).2.1 ≤ 12 ∧ 1 ≤ (civilOfDoe doe).2.2 ∧ (civilOfDoe doe).2.2 ≤ 31 := by
  obtain ⟨k, rfl⟩ := Int.eq_ofNat_of_zero_le h0
  have f := entry_facts k (by omega)
  rw [civilOfDoe_natCast k f.1]
  simp only
  omega

theorem doe_step (doe : Int) (h0 : 0 ≤ doe) (h1 : doe < 146096) :
    dateKey (civilOfDoe doe) < dateKey (civilOfDoe (doe + 1)) := by
  obtain ⟨k, rfl⟩ := Int.eq_ofNat_of_zero_le h0
  have f := entry_facts k (by omega)
  have f' := entry_facts (k + 1) (by omega)
  have e : ((k : Int) + 1) = ((k + 1 : Nat) : Int) := by omega
  rw [e, civilOfDoe_natCast k f.1, civilOfDoe_natCast (k + 1) f'.1, dateKey_natCast, dateKey_natCast]
  have := entryOK_all k (by omega)
  simp only [entryOK, Bool.and_eq_true, decide_eq_true_eq] at this
  omega

theorem doe_rollover : dateKey (civilOfDoe 146096) < dateKey (civilOfDoe 0) + 4000000 := by
  have f := entry_facts 146096 (by omega)
  have f' := entry_facts 0 (by omega)
  have h1 := civilOfDoe_natCast 146096 f.1
  have h2 := civilOfDoe_natCast 0 f'.1
  simp only [Int.cast_ofNat_Int] at h1 h2
  rw [h1, h2, dateKey_natCast, dateKey_natCast]
  have := entry_last
  simp only [Bool.and_eq_true, decide_eq_true_eq] at this
  omega

theorem dateKey_shift (c : Int × Int × Int) (e : Int) :
    dateKey (c.1 + e * 400, c.2.1, c.2.2) = dateKey c + e * 4000000 := by
  simp only [dateKey]; omega

/-- Month 1..12 and day 1..31 for every day number. -/
theorem civil_range (z : Int) :
    1 ≤ (civilFromDays z).2.1 ∧ (civilFromDays z).2.1 ≤ 12 ∧
      1 ≤ (civilFromDays z).2.2 ∧ (civilFromDays z).2.2 ≤ 31 := by
  rw [civilFromDays_eq]
  have := doe_range ((z + 719468) % 146097) (by omega) (by omega)
  simp only
  omega

/-- One-step strict monotonicity of the date key, for every day number. -/
theorem civil_step (z : Int) : dateKey (civilFromDays z) < dateKey (civilFromDays (z + 1)) := by
  rw [civilFromDays_eq, civilFromDays_eq, dateKey_shift, dateKey_shift]
  have e : z + 1 + 719468 = (z + 719468) + 1 := by omega
  rw [e]
  generalize z + 719468 = w
  by_cases h : w % 146097 < 146096
  · have e1 : (w + 1) % 146097 = w % 146097 + 1 := by omega
    have e2 : (w + 1) / 146097 = w / 146097 := by omega
    rw [e1, e2]
    have := doe_step (w % 146097) (by omega) h
    omega
  · have e0 : w % 146097 = 146096 := by omega
    have e1 : (w + 1) % 146097 = 0 := by omega
    have e2 : (w + 1) / 146097 = w / 146097 + 1 := by omega
    rw [e0, e1, e2]
    have := doe_rollover
    omega

/-- Strict monotonicity of the date key. -/
theorem civil_strictMono {z z' : Int} (h : z < z') :
    dateKey (civilFromDays z) < dateKey (civilFromDays z') := by
  obtain ⟨n, rfl⟩ : ∃ n : Nat, z' = z + 1 + n := ⟨(z' - z - 1).toNat, by omega⟩
  clear h
  induction n with
  | zero => simpa using civil_step z
  | succ n ih =>
    have := civil_step (z + 1 + n)
    have e : z + 1 + ((n + 1 : Nat) : Int) = z + 1 + n + 1 := by omega
    rw [e]
    omega

theorem civil_first : civilFromDays (-719162) = (1, 1, 1) := by decide +kernel
theorem civil_last : civilFromDays 2932896 = (9999, 12, 31) := by decide +kernel

/-- Years 1..9999 over the day range of `[0001-01-01, 10000-01-01)`. -/
theorem civil_year_range (z : Int) (h0 : -719162 ≤ z) (h1 : z < 2932897) :
    1 ≤ (civilFromDays z).1 ∧ (civilFromDays z).1 ≤ 9999 := by
  have r := civil_range z
  have a : dateKey (civilFromDays (-719162)) ≤ dateKey (civilFromDays z) := by
    by_cases e : z = -719162
    · rw [e]; exact Int.le_refl _
    · exact Int.le_of_lt (civil_strictMono (by omega))
  have b : dateKey (civilFromDays z) ≤ dateKey (civilFromDays 2932896) := by
    by_cases e : z = 2932896
    · rw [e]; exact Int.le_refl _
    · exact Int.le_of_lt (civil_strictMono (by omega))
  rw [civil_first] at a
  rw [civil_last] at b
  simp only [dateKey] at a b
  omega

/-- Lexicographic order of the dates of two day numbers. -/
theorem civil_lex {z z' : Int} (h : z < z') :
    (civilFromDays z).1 < (civilFromDays z').1 ∨ ((civilFromDays z).1 = (civilFromDays z').1 ∧
      ((civilFromDays z).2.1 < (civilFromDays z').2.1 ∨ ((civilFromDays z).2.1 = (civilFromDays z').2.1 ∧
        (civilFromDays z).2.2 < (civilFromDays z').2.2))) := by
  have k := civil_strictMono h
  have r := civil_range z
  have r' := civil_range z'
  simp only [dateKey] at k
  omega

end Hub.Lemmas.Calendar
