import Hub.Lemmas.NodeIdxSteps
import Hub.Lemmas.SessIdxSteps
import Hub.Lemmas.AllocSteps
/-
Assembly of the structural invariants proved separately (each under the others as hypotheses) into
one inductive invariant of the whole model, and its lift to every history from every genesis.
-/
namespace Hub.Model

/-- All structural invariants together: counters and record identity (C18), partitions, the
node/plan, session and subscription indices and queues (C09), allocation bounds and quota
conservation (C06). -/
structure StructInv (s : State) : Prop where
  count : CountInv s
  recs : RecInv s
  nodeIdx : NodeIdx s
  sessIdx : SessIdx s
  subIdx : SubIdx s
  alloc : AllocInv s
  quota : QuotaConserved s

theorem step_structInv {s s' : State} {op : Op} (h : step s op = some s') (hi : StructInv s) : StructInv s' where
  count := step_count h hi.count
  recs := step_rec h hi.recs hi.count
  nodeIdx := step_idx h hi.recs hi.count hi.nodeIdx
  sessIdx := step_sessIdx h hi.count hi.sessIdx
  subIdx := step_subIdx h hi.count hi.subIdx
  alloc := step_allocInv h hi.alloc
  quota := step_quota h hi.count hi.subIdx hi.quota

theorem genesis_structInv (g : Genesis) : StructInv g.state where
  count := genesis_count g
  recs := genesis_rec g
  nodeIdx := genesis_idx g
  sessIdx := genesis_sessIdx g
  subIdx := genesis_subIdx g
  alloc := genesis_allocInv g
  quota := genesis_quota g

theorem structInv_all_histories_from (ops : List Op) (s : State) (hi : StructInv s) :
    ∀ s' ∈ runTrace s ops, StructInv s' := by
  induction ops generalizing s with
  | nil => intro s' h; simp [runTrace] at h
  | cons op rest ih =>
    intro s' h
    simp only [runTrace] at h
    cases hst : step s op with
    | none => simp [hst] at h
    | some s1 =>
      simp only [hst, List.mem_cons] at h
      have h1 := step_structInv hst hi
      rcases h with rfl | h
      · exact h1
      · exact ih s1 h1 s' h

/-- **Every state of every history from every genesis satisfies all structural invariants.** -/
theorem structInv_all_histories (g : Genesis) (ops : List Op) : ∀ s ∈ runTrace g.state ops, StructInv s :=
  structInv_all_histories_from ops g.state (genesis_structInv g)

end Hub.Model

namespace Hub.Model

/-- A state of some history from some genesis (the genesis state itself included). -/
def Reachable (s : State) : Prop := ∃ (g : Genesis) (ops : List Op), s = g.state ∨ s ∈ runTrace g.state ops

theorem Reachable.structInv {s : State} (h : Reachable s) : StructInv s := by
  obtain ⟨g, ops, h | h⟩ := h
  · rw [h]; exact genesis_structInv g
  · exact structInv_all_histories g ops s h

theorem runTrace_append_mem (s : State) (ops : List Op) (op : Op) {s1 s2 : State}
    (h1 : s1 = s ∨ s1 ∈ runTrace s ops) (h2 : step s1 op = some s2) : ∃ ops', s2 ∈ runTrace s ops' := by
  induction ops generalizing s with
  | nil =>
    rcases h1 with h1 | h1
    · subst h1; exact ⟨[op], by simp [runTrace, h2]⟩
    · simp [runTrace] at h1
  | cons o rest ih =>
    rcases h1 with h1 | h1
    · subst h1; exact ⟨[op], by simp [runTrace, h2]⟩
    · simp only [runTrace] at h1
      cases hst : step s o with
      | none => simp [hst] at h1
      | some s' =>
        simp only [hst, List.mem_cons] at h1
        have : s1 = s' ∨ s1 ∈ runTrace s' rest := h1
        obtain ⟨ops', h⟩ := ih s' this
        exact ⟨o :: ops', by simp [runTrace, hst, h]⟩

/-- Reachability is closed under `step`. -/
theorem Reachable.step {s s' : State} {op : Op} (h : Reachable s) (hs : step s op = some s') : Reachable s' := by
  obtain ⟨g, ops, h⟩ := h
  obtain ⟨ops', h'⟩ := runTrace_append_mem g.state ops op h hs
  exact ⟨g, ops', Or.inr h'⟩

end Hub.Model
