import Hub.Lemmas.MoneyHandlers
/-
Effect lemmas: for every handler and hook step, what an accepted run did, as an explicit equation
`s' = …` in terms of the pre-state plus the facts the handler checked.  Every structural invariant
is then proved from these equations, without unfolding the handlers again.
-/
namespace Hub.Model
open Hub.SDK
open Hub.Generated (Status AmountForBytes GetProportionOfCoin Gigabyte)

/-- All tables other than bank/deposits/events are the same. -/
theorem MoneyFrame.eq {s s' : State} (h : MoneyFrame s s') :
    s' = { s with bank := s'.bank, deposits := s'.deposits, events := s'.events } := h

/-! ### provider / node / plan -/

theorem setNode_eff {s s' : State} {n : Node} (h : setNode s n = .ok s') :
    (n.status = .StatusActive ∧ s' = { s with nodeActive := s.nodeActive.set n.addr n }) ∨
    (n.status = .StatusInactive ∧ s' = { s with nodeInactive := s.nodeInactive.set n.addr n }) := by
  unfold setNode at h
  split at h <;> simp only [pure_eq_ok, gopanic_ne_ok] at h
  · rename_i hs; left; exact ⟨hs, h.symm⟩
  · rename_i hs; right; exact ⟨hs, h.symm⟩

theorem setProvider_eff {s s' : State} {p : Provider} (h : setProvider s p = .ok s') :
    (p.status = .StatusActive ∧ s' = { s with provActive := s.provActive.set p.addr p }) ∨
    (p.status = .StatusInactive ∧ s' = { s with provInactive := s.provInactive.set p.addr p }) := by
  unfold setProvider at h
  split at h <;> simp only [pure_eq_ok, gopanic_ne_ok] at h
  · rename_i hs; left; exact ⟨hs, h.symm⟩
  · rename_i hs; right; exact ⟨hs, h.symm⟩

theorem setPlan_eff {s s' : State} {p : Plan} (h : setPlan s p = .ok s') :
    (p.status = .StatusActive ∧ s' = { s with planActive := s.planActive.set p.id p }) ∨
    (p.status = .StatusInactive ∧ s' = { s with planInactive := s.planInactive.set p.id p }) := by
  unfold setPlan at h
  split at h <;> simp only [pure_eq_ok, gopanic_ne_ok] at h
  · rename_i hs; left; exact ⟨hs, h.symm⟩
  · rename_i hs; right; exact ⟨hs, h.symm⟩

theorem provRegister_eff {s s' : State} {frm : Addr} {n i w d : Bytes} (h : provRegister s frm n i w d = .ok s') :
    hasProvider s frm = false ∧ ∃ s1, MoneyFrame s s1 ∧
      s' = emit { s1 with provInactive := (s1.provInactive.set frm
        { addr := frm, name := n, identity := i, website := w, desc := d, status := .StatusInactive, statusAt := s.time }) }
        (ev "sentinel.provider.v2.EventRegister" [("address", addrTxt .prov frm)]) := by
  unfold provRegister at h
  simp only [bind_eq_ok, pure_eq_ok, require_eq_ok] at h
  obtain ⟨_, hno, s1, h1, s2, h2, rfl⟩ := h
  refine ⟨by simpa using hno, s1, ?_, ?_⟩
  · unfold fundCommunityPool at h1
    split at h1
    · rw [pure_eq_ok] at h1; rw [← h1]; rfl
    · exact sendCoins_frame h1
  · rcases setProvider_eff h2 with ⟨hs, e⟩ | ⟨_, e⟩
    · simp at hs
    · rw [e]

theorem nodeRegister_eff {s s' : State} {frm : Addr} {gb hr : Coins} {url : Bytes} (h : nodeRegister s frm gb hr url = .ok s') :
    hasNode s frm = false ∧ pricesWithin s.params.maxGB s.params.minGB gb = true ∧ pricesWithin s.params.maxHr s.params.minHr hr = true ∧
    ∃ s1, MoneyFrame s s1 ∧
      s' = emit { s1 with nodeInactive := (s1.nodeInactive.set frm
        { addr := frm, gb, hr, url, inactiveAt := zeroTime, status := .StatusInactive, statusAt := s.time }) }
        (ev "sentinel.node.v2.EventRegister" [("address", addrTxt .node frm)]) := by
  unfold nodeRegister at h
  simp only [bind_eq_ok, pure_eq_ok, require_eq_ok] at h
  obtain ⟨_, hg, _, hh, _, hno, s1, h1, s2, h2, rfl⟩ := h
  refine ⟨by simpa using hno, hg, hh, s1, ?_, ?_⟩
  · unfold fundCommunityPool at h1
    split at h1
    · rw [pure_eq_ok] at h1; rw [← h1]; rfl
    · exact sendCoins_frame h1
  · rcases setNode_eff h2 with ⟨hs, e⟩ | ⟨_, e⟩
    · simp at hs
    · rw [e]



/-! ### plans -/

theorem planCreate_eff {s s' : State} {frm : Addr} {dur : Dur} {gb : Int} {prices : Coins}
    (h : planCreate s frm dur gb prices = .ok s') :
    hasProvider s frm = true ∧
    s' = emit { s with planCount := some (s.planCount.getD 0 + 1),
                       planInactive := (s.planInactive.set (s.planCount.getD 0 + 1)
                         { id := s.planCount.getD 0 + 1, prov := frm, dur, gb, prices, status := .StatusInactive, statusAt := s.time }),
                       planForProv := (s.planForProv.set (frm, s.planCount.getD 0 + 1) ()) }
      (ev "sentinel.plan.v2.EventCreate" [("address", addrTxt .prov frm), ("id", toString (s.planCount.getD 0 + 1))]) := by
  unfold planCreate at h
  simp only [bind_eq_ok, pure_eq_ok, require_eq_ok] at h
  obtain ⟨_, hp, s1, h1, rfl⟩ := h
  refine ⟨hp, ?_⟩
  rcases setPlan_eff h1 with ⟨hs, e⟩ | ⟨_, e⟩
  · simp at hs
  · rw [e]

end Hub.Model
