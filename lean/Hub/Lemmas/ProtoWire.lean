import Hub.SDK.ProtoWire
/-
Lemmas about the protobuf wire model (`Hub/SDK/ProtoWire.lean`) leading to the round-trip theorem of
C19: varints, tags, entries/tokenizer, the positional fold, one lemma per field class, decimal text.
Core Lean only.
-/
namespace Hub.SDK.ProtoWire
open Hub.SDK

theorem u8_toNat_ofNat_lt (n : Nat) (h : n < 256) : (UInt8.ofNat n).toNat = n := by
  have := @UInt8.toNat_ofNat' n; omega

theorem putVarintAux_ne_nil (k n : Nat) : putVarintAux k n ≠ [] := by
  cases k with
  | zero => simp [putVarintAux]
  | succ k => unfold putVarintAux; split <;> simp

theorem getVarintAux_cons_lt (k : Nat) (b : UInt8) (bs : Bytes) (h : b.toNat < 128) :
    getVarintAux (k + 1) (b :: bs) = some (b.toNat, bs) := by
  simp only [getVarintAux, h, if_true]

theorem getVarintAux_cons_ge (k : Nat) (b : UInt8) (bs : Bytes) (h : ¬ b.toNat < 128) :
    getVarintAux (k + 1) (b :: bs) = (getVarintAux k bs).map (fun p => ((b.toNat - 128) + 128 * p.1, p.2)) := by
  simp only [getVarintAux, h, if_false]

/-- `128^(k+1)` without `^`. -/
def vlim : Nat → Nat
  | 0 => 128
  | k+1 => 128 * vlim k

theorem getVarintAux_putVarintAux (k : Nat) : ∀ (n j : Nat) (rest : Bytes), n < vlim k →
    getVarintAux (k + 1 + j) (putVarintAux k n ++ rest) = some (n, rest) := by
  induction k with
  | zero =>
    intro n j rest h
    have h' : n < 128 := h
    have hb : (UInt8.ofNat n).toNat = n := u8_toNat_ofNat_lt n (by omega)
    have : 0 + 1 + j = j + 1 := by omega
    rw [this]
    simp only [putVarintAux, List.cons_append, List.nil_append]
    rw [getVarintAux_cons_lt _ _ _ (by rw [hb]; exact h'), hb]
  | succ k ih =>
    intro n j rest h
    have e : k + 1 + 1 + j = (k + 1 + j) + 1 := by omega
    rw [e]
    unfold putVarintAux
    by_cases hn : n < 128
    · have hb : (UInt8.ofNat n).toNat = n := u8_toNat_ofNat_lt n (by omega)
      simp only [hn, if_true, List.cons_append, List.nil_append]
      rw [getVarintAux_cons_lt _ _ _ (by rw [hb]; exact hn), hb]
    · have hb : (UInt8.ofNat (n % 128 + 128)).toNat = n % 128 + 128 := u8_toNat_ofNat_lt _ (by omega)
      have hlt : ¬ (n % 128 + 128 < 128) := by omega
      have hdiv : n / 128 < vlim k := by
        apply Nat.div_lt_of_lt_mul
        exact h
      simp only [hn, if_false, List.cons_append]
      have hlt' : ¬ (UInt8.ofNat (n % 128 + 128)).toNat < 128 := by rw [hb]; exact hlt
      have step := getVarintAux_cons_ge (k + 1 + j) (UInt8.ofNat (n % 128 + 128)) (putVarintAux k (n / 128) ++ rest) hlt'
      rw [step, ih (n / 128) j rest hdiv, hb]
      simp only [Option.map_some]
      have : n % 128 + 128 - 128 + 128 * (n / 128) = n := by omega
      rw [this]

theorem getVarint_putVarint (n : Nat) (h : n < P64) (rest : Bytes) :
    getVarint (putVarint n ++ rest) = some (n, rest) := by
  have h1 : n % P64 = n := Nat.mod_eq_of_lt h
  have h2 : n < vlim 9 := by
    have : vlim 9 = 1180591620717411303424 := by decide
    omega
  have := getVarintAux_putVarintAux 9 n 0 rest h2
  unfold getVarint putVarint
  rw [h1]
  simp only [Nat.add_zero] at this
  rw [this]
  simp only [h1]

/-! ## tags -/

theorem putVarint_ne_nil (n : Nat) : putVarint n ≠ [] := putVarintAux_ne_nil _ _

theorem splitTag_tagOf (num wt : Nat) (h0 : 0 < num) (h1 : num < P29) (hw : wt < 8) :
    splitTag (tagOf num wt) = some (num, wt) := by
  unfold splitTag tagOf
  have e1 : (num * 8 + wt) / 8 % P32 = num := by omega
  have e2 : (num * 8 + wt) % 8 = wt := by omega
  simp only [e1, e2]
  have : ¬ (num = 0 ∨ P31 ≤ num) := by omega
  simp only [this, if_false]

theorem tagOf_lt (num wt : Nat) (h1 : num < P29) (hw : wt < 8) : tagOf num wt < P64 := by
  unfold tagOf; omega

/-! ## entries -/

def Payload.ok : Payload → Prop
  | .varint n => n < P64
  | .len b => b.length < P63
  | .other _ => False

def Entry.ok (e : Entry) : Prop := 0 < e.num ∧ e.num < P29 ∧ e.p.ok

theorem encEntry_ne_nil (e : Entry) (h : e.ok) : encEntry e ≠ [] := by
  obtain ⟨num, p⟩ := e
  cases p with
  | varint n =>
    simp only [encEntry]
    intro hc
    exact putVarint_ne_nil _ (List.append_eq_nil_iff.mp hc).1
  | len b =>
    simp only [encEntry]
    intro hc
    exact putVarint_ne_nil _ (List.append_eq_nil_iff.mp hc).1
  | other w => exact absurd h.2.2 (by simp [Payload.ok])

theorem readEntry_encEntry (e : Entry) (h : e.ok) (rest : Bytes) :
    readEntry (encEntry e ++ rest) = some (e, rest) := by
  obtain ⟨num, p⟩ := e
  obtain ⟨h0, h1, hp⟩ := h
  simp only at h0 h1 hp
  cases p with
  | varint n =>
    have hn : n < P64 := hp
    simp only [encEntry, List.append_assoc]
    unfold readEntry
    rw [getVarint_putVarint _ (tagOf_lt num 0 h1 (by omega))]
    simp only [splitTag_tagOf num 0 h0 h1 (by omega)]
    rw [getVarint_putVarint _ hn]
    simp only [if_true]
  | len b =>
    have hb : b.length < P63 := hp
    simp only [encEntry, List.append_assoc]
    unfold readEntry
    rw [getVarint_putVarint _ (tagOf_lt num 2 h1 (by omega))]
    simp only [splitTag_tagOf num 2 h0 h1 (by omega)]
    rw [getVarint_putVarint _ (by omega)]
    have c1 : ¬ (P63 ≤ b.length ∨ (b ++ rest).length < b.length) := by
      have := List.length_append (as := b) (bs := rest); omega
    have c2 : ¬ ((2 : Nat) = 0) := by omega
    simp only [c1, c2, if_false, List.take_left', List.drop_left', if_true]
  | other w => exact absurd hp (by simp [Payload.ok])

theorem tokenize_step (k : Nat) (bs : Bytes) (hne : bs ≠ []) :
    tokenize (k + 1) bs =
      match readEntry bs with
      | none => none
      | some (e, r) =>
        match tokenize k r with
        | some es => some (e :: es)
        | none => none := by
  cases bs with
  | nil => exact absurd rfl hne
  | cons b bs => rfl

theorem encEntries_length_pos (e : Entry) (h : e.ok) : 0 < (encEntry e).length := by
  have := encEntry_ne_nil e h
  cases hh : encEntry e with
  | nil => exact absurd hh this
  | cons a l => simp

theorem tokenize_encEntries (es : List Entry) : ∀ (fuel : Nat), (∀ e ∈ es, e.ok) →
    (encEntries es).length ≤ fuel → tokenize fuel (encEntries es) = some es := by
  induction es with
  | nil =>
    intro fuel _ _
    cases fuel <;> rfl
  | cons e es ih =>
    intro fuel hok hlen
    have heok : e.ok := hok e (List.mem_cons_self)
    have hpos := encEntries_length_pos e heok
    simp only [encEntries, List.length_append] at hlen
    cases fuel with
    | zero => omega
    | succ k =>
      have hne : encEntries (e :: es) ≠ [] := by
        simp only [encEntries]
        intro hc
        exact encEntry_ne_nil e heok (List.append_eq_nil_iff.mp hc).1
      rw [tokenize_step k _ hne]
      simp only [encEntries]
      rw [readEntry_encEntry e heok]
      simp only
      rw [ih k (fun x hx => hok x (List.mem_cons_of_mem _ hx)) (by omega)]

/-! ## decimal text -/

theorem digitVal_digit (d : Nat) (h : d < 10) : digitVal (UInt8.ofNat (48 + d)) = some d := by
  have hb : (UInt8.ofNat (48 + d)).toNat = 48 + d := u8_toNat_ofNat_lt _ (by omega)
  unfold digitVal
  rw [hb]
  have : 48 ≤ 48 + d ∧ 48 + d ≤ 57 := by omega
  simp only [this, and_self, if_true]
  congr 1
  omega

theorem parseDigits_append (xs ys : Bytes) : ∀ acc, parseDigits (xs ++ ys) acc =
    match parseDigits xs acc with
    | some a => parseDigits ys a
    | none => none := by
  induction xs with
  | nil => intro acc; rfl
  | cons c cs ih =>
    intro acc
    simp only [List.cons_append, parseDigits]
    cases digitVal c with
    | none => rfl
    | some d => exact ih _

theorem digitsLE_zero (f : Nat) : digitsLE f 0 = [] := by
  cases f <;> simp [digitsLE]

theorem parseDigits_digitsLE (f : Nat) : ∀ n, n ≤ f → parseDigits (digitsLE f n).reverse 0 = some n := by
  induction f with
  | zero => intro n h; have : n = 0 := by omega
            subst this; rfl
  | succ k ih =>
    intro n h
    by_cases hn : n = 0
    · subst hn; rfl
    · simp only [digitsLE, hn, if_false, List.reverse_cons]
      rw [parseDigits_append, ih (n / 10) (by omega)]
      simp only [parseDigits, digitVal_digit (n % 10) (by omega)]
      congr 1
      omega

theorem digitsLE_ne_nil (f n : Nat) (h : n ≤ f) (hn : n ≠ 0) : digitsLE f n ≠ [] := by
  cases f with
  | zero => omega
  | succ k => simp [digitsLE, hn]

/-- The most significant digit is not `0`. -/
theorem digitsLE_getLast (f : Nat) : ∀ n (_ : n ≤ f) (_ : n ≠ 0) (c : UInt8),
    (digitsLE f n).getLast? = some c → c.toNat ≠ 48 := by
  induction f with
  | zero => intro n h hn; omega
  | succ k ih =>
    intro n h hn c hc
    simp only [digitsLE, hn, if_false] at hc
    by_cases h10 : n / 10 = 0
    · rw [h10, digitsLE_zero] at hc
      simp only [List.getLast?_singleton, Option.some.injEq] at hc
      rw [← hc, u8_toNat_ofNat_lt _ (by omega)]
      omega
    · have hne := digitsLE_ne_nil k (n / 10) (by omega) h10
      rw [List.getLast?_cons_of_ne_nil hne] at hc
      exact ih (n / 10) (by omega) h10 c hc

theorem parseNatText_natText (n : Nat) : parseNatText (natText n) = some n := by
  unfold natText
  by_cases hn : n = 0
  · subst hn; rfl
  · simp only [hn, if_false]
    have hne := digitsLE_ne_nil n n (Nat.le_refl _) hn
    have hp := parseDigits_digitsLE n n (Nat.le_refl _)
    cases hr : (digitsLE n n).reverse with
    | nil => exact absurd (List.reverse_eq_nil_iff.mp hr) hne
    | cons c cs =>
      rw [hr] at hp
      unfold parseNatText
      have hlast : (digitsLE n n).getLast? = some c := by
        rw [List.getLast?_eq_head?_reverse, hr]; rfl
      have := digitsLE_getLast n n (Nat.le_refl _) hn c hlast
      simp only [this, false_and, if_false]
      exact hp

theorem natText_ne_nil (n : Nat) : natText n ≠ [] := by
  intro h
  have := parseNatText_natText n
  rw [h] at this
  simp [parseNatText] at this

theorem natText_head (n : Nat) (c : UInt8) (cs : Bytes) (h : natText n = c :: cs) : c.toNat ≠ 45 := by
  have hp := parseNatText_natText n
  rw [h] at hp
  intro hc
  have hd : digitVal c = none := by
    unfold digitVal; rw [hc]; simp
  simp only [parseNatText, parseDigits, hd] at hp
  split at hp <;> exact absurd hp (by simp)

theorem parseIntTextCanon_intText (i : Int) : parseIntTextCanon (intText i) = some i := by
  unfold intText
  by_cases hi : i < 0
  · simp only [hi, if_true]
    unfold parseIntTextCanon
    have : (45 : UInt8).toNat = 45 := rfl
    simp only [this, if_true, parseNatText_natText]
    congr 1
    omega
  · simp only [hi, if_false]
    cases hr : natText i.natAbs with
    | nil => exact absurd hr (natText_ne_nil _)
    | cons c cs =>
      have h45 := natText_head _ c cs hr
      unfold parseIntTextCanon
      simp only [h45, if_false]
      rw [← hr, parseNatText_natText]
      simp only
      congr 1
      omega

theorem parseIntText_intText (i : Int) : parseIntText (intText i) = some i := by
  unfold parseIntText; rw [parseIntTextCanon_intText]

theorem intText_ne_nil (i : Int) : intText i ≠ [] := by
  unfold intText
  split
  · simp
  · exact natText_ne_nil _

/-- `10^k` without `^`. -/
def tenPow : Nat → Nat
  | 0 => 1
  | k+1 => 10 * tenPow k

theorem digitsLE_length (k : Nat) : ∀ f n, n < tenPow k → (digitsLE f n).length ≤ k := by
  induction k with
  | zero => intro f n h
            have : n = 0 := by simp only [tenPow] at h; omega
            subst this; rw [digitsLE_zero]; simp
  | succ k ih =>
    intro f n h
    cases f with
    | zero => simp [digitsLE]
    | succ f =>
      by_cases hn : n = 0
      · subst hn; simp [digitsLE]
      · simp only [digitsLE, hn, if_false, List.length_cons]
        have : n / 10 < tenPow k := by
          apply Nat.div_lt_of_lt_mul; exact h
        have := ih f (n / 10) this
        omega

theorem intText_length (i : Int) (h : i.natAbs < tenPow 100) : (intText i).length ≤ 101 := by
  have h1 : (natText i.natAbs).length ≤ 100 := by
    unfold natText
    split
    · simp
    · rw [List.length_reverse]; exact digitsLE_length 100 _ _ h
  unfold intText
  split
  · simp only [List.length_cons]; omega
  · omega


/-! ## the positional fold -/

/-- Fold of the updates of one field over the payloads of its entries. -/
def foldUpd (u : Val → Payload → Option Val) : Val → List Payload → Option Val
  | c, [] => some c
  | c, p :: ps =>
    match u c p with
    | some c' => foldUpd u c' ps
    | none => none

theorem applyEntry_at (upd : Field → Val → Payload → Option Val) (f : Field) (post : List Field) (c c' : Val)
    (cpost : List Val) (e : Entry) (hnum : f.num = e.num) (hupd : upd f c e.p = some c') :
    ∀ (pre : List Field) (cpre : List Val), pre.length = cpre.length → (∀ g ∈ pre, g.num ≠ e.num) →
    applyEntry upd (pre ++ f :: post) (cpre ++ c :: cpost) e = some (cpre ++ c' :: cpost) := by
  intro pre
  induction pre with
  | nil =>
    intro cpre hl _
    cases cpre with
    | nil => simp only [List.nil_append, applyEntry, hnum, if_true, hupd]
    | cons a l => simp at hl
  | cons g pre ih =>
    intro cpre hl hfresh
    cases cpre with
    | nil => simp at hl
    | cons a l =>
      have hg : g.num ≠ e.num := hfresh g (List.mem_cons_self)
      simp only [List.cons_append, applyEntry, hg, if_false]
      rw [ih l (by simpa using hl) (fun x hx => hfresh x (List.mem_cons_of_mem _ hx))]

theorem applyEntries_field (upd : Field → Val → Payload → Option Val) (f : Field) (pre post : List Field)
    (cpre cpost : List Val) (hl : pre.length = cpre.length) (hfresh : ∀ g ∈ pre, g.num ≠ f.num) :
    ∀ (es : List Entry) (c c' : Val), (∀ e ∈ es, e.num = f.num) → foldUpd (upd f) c (es.map (·.p)) = some c' →
    ∀ (more : List Entry),
    applyEntries upd (pre ++ f :: post) (cpre ++ c :: cpost) (es ++ more) =
      applyEntries upd (pre ++ f :: post) (cpre ++ c' :: cpost) more := by
  intro es
  induction es with
  | nil =>
    intro c c' _ hf more
    simp only [List.map_nil, foldUpd, Option.some.injEq] at hf
    subst hf; rfl
  | cons e es ih =>
    intro c c' hnum hf more
    have he : e.num = f.num := hnum e (List.mem_cons_self)
    simp only [List.map_cons, foldUpd] at hf
    cases hu : upd f c e.p with
    | none => rw [hu] at hf; exact absurd hf (by simp)
    | some c1 =>
      rw [hu] at hf
      simp only [List.cons_append, applyEntries]
      rw [applyEntry_at upd f post c c1 cpost e he.symm hu pre cpre hl (fun g hg => by rw [he]; exact hfresh g hg)]
      simp only
      exact ih c1 c' (fun x hx => hnum x (List.mem_cons_of_mem _ hx)) hf more

theorem asc_gt : ∀ (l : List Field) (lo : Nat), numsAscending lo l = true → ∀ g ∈ l, lo < g.num := by
  intro l
  induction l with
  | nil => intro lo _ g hg; cases hg
  | cons f fs ih =>
    intro lo h g hg
    simp only [numsAscending, Bool.and_eq_true, decide_eq_true_eq] at h
    cases hg with
    | head => exact h.1.1
    | tail _ hg' => have := ih f.num h.2 g hg'; omega

theorem asc_range : ∀ (l : List Field) (lo : Nat), numsAscending lo l = true → ∀ g ∈ l, 0 < g.num ∧ g.num < P29 := by
  intro l
  induction l with
  | nil => intro lo _ g hg; cases hg
  | cons f fs ih =>
    intro lo h g hg
    simp only [numsAscending, Bool.and_eq_true, decide_eq_true_eq] at h
    cases hg with
    | head => exact ⟨by omega, h.1.2⟩
    | tail _ hg' => exact ih f.num h.2 g hg'

theorem asc_fresh : ∀ (pre : List Field) (lo : Nat) (f : Field) (post : List Field),
    numsAscending lo (pre ++ f :: post) = true → ∀ g ∈ pre, g.num ≠ f.num := by
  intro pre
  induction pre with
  | nil => intro lo f post _ g hg; cases hg
  | cons a pre ih =>
    intro lo f post h g hg
    simp only [List.cons_append, numsAscending, Bool.and_eq_true, decide_eq_true_eq] at h
    cases hg with
    | head =>
      have := asc_gt _ _ h.2 f (by simp)
      omega
    | tail _ hg' => exact ih a.num f post h.2 g hg'

/-- Field-wise hypothesis of the fold lemma. -/
def AllP (P : Field → Val → Prop) : List Field → List Val → Prop
  | [], [] => True
  | f :: fs, v :: vs => P f v ∧ AllP P fs vs
  | _, _ => False

theorem applyEntries_all (upd : Field → Val → Payload → Option Val) (dflt : Field → Val)
    (fe : Field → Val → List Entry) (all : List Field → List Val → List Entry)
    (hall_nil : ∀ vs, all [] vs = []) (hall_cons : ∀ f fs v vs, all (f :: fs) (v :: vs) = fe f v ++ all fs vs) :
    ∀ (post pre : List Field) (cpre vpost : List Val), pre.length = cpre.length →
      numsAscending 0 (pre ++ post) = true →
      AllP (fun f v => (∀ e ∈ fe f v, e.num = f.num) ∧ foldUpd (upd f) (dflt f) ((fe f v).map (·.p)) = some v) post vpost →
      applyEntries upd (pre ++ post) (cpre ++ post.map dflt) (all post vpost) = some (cpre ++ vpost) := by
  intro post
  induction post with
  | nil =>
    intro pre cpre vpost _ _ hP
    cases vpost with
    | nil => simp only [hall_nil, List.map_nil, applyEntries]
    | cons v vs => exact absurd hP (by simp [AllP])
  | cons f post ih =>
    intro pre cpre vpost hl hasc hP
    cases vpost with
    | nil => exact absurd hP (by simp [AllP])
    | cons v vpost =>
      obtain ⟨⟨hnum, hfold⟩, hrest⟩ := hP
      rw [hall_cons, List.map_cons]
      rw [applyEntries_field upd f pre post cpre (post.map dflt) hl (asc_fresh pre 0 f post hasc)
            (fe f v) (dflt f) v hnum hfold (all post vpost)]
      have e1 : pre ++ f :: post = (pre ++ [f]) ++ post := by simp
      have e2 : cpre ++ v :: List.map dflt post = (cpre ++ [v]) ++ List.map dflt post := by simp
      have e3 : cpre ++ v :: vpost = (cpre ++ [v]) ++ vpost := by simp
      rw [e1, e2, e3]
      exact ih (pre ++ [f]) (cpre ++ [v]) vpost (by simp [hl]) (by rw [← e1]; exact hasc) hrest


/-! ## one lemma per field class -/

theorem conv_of_range (s : Scalar) (n : Nat) (h : rangeOK s n = true) : convVarint s n = n := by
  cases s <;> simp only [rangeOK, convVarint, Bool.or_eq_true, Bool.and_eq_true, decide_eq_true_eq] at h ⊢
  all_goals first
    | rfl
    | (split <;> omega)
    | omega

theorem range_lt (s : Scalar) (n : Nat) (h : rangeOK s n = true) : n < P64 := by
  cases s <;> simp only [rangeOK, Bool.or_eq_true, Bool.and_eq_true, decide_eq_true_eq] at h <;> omega

section
variable (env : Env) (wfsub : MsgDesc → Bool) (canon : MsgDesc → Val → Bool) (enc : MsgDesc → Val → Bytes)
  (sub : MsgDesc → Val → Bytes → Option Val) (dm : MsgDesc → Val)

theorem allBytesOK_cons (v : Val) (vs : List Val) (h : allBytesOK (v :: vs) = true) :
    ∃ b, v = .bytes b ∧ b.length < P63 ∧ allBytesOK vs = true := by
  cases v with
  | bytes b =>
    simp only [allBytesOK, Bool.and_eq_true, decide_eq_true_eq] at h
    exact ⟨b, rfl, h.1, h.2⟩
  | varint _ => simp [allBytesOK] at h
  | int _ => simp [allBytesOK] at h
  | msg _ => simp [allBytesOK] at h
  | none => simp [allBytesOK] at h
  | list _ => simp [allBytesOK] at h

theorem lenEntries_mem (num : Nat) (h0 : 0 < num ∧ num < P29) : ∀ vs, allBytesOK vs = true →
    ∀ e ∈ lenEntries num vs, e.num = num ∧ e.ok := by
  intro vs
  induction vs with
  | nil => intro _ e he; cases he
  | cons v vs ih =>
    intro h e he
    obtain ⟨b, rfl, hb, hrest⟩ := allBytesOK_cons v vs h
    simp only [lenEntries, List.mem_cons] at he
    cases he with
    | inl h1 => subst h1; exact ⟨rfl, h0.1, h0.2, hb⟩
    | inr h1 => exact ih hrest e h1

theorem lenEntries_fold (f : Field) (hcls : f.cls = .repLen) (num : Nat) : ∀ vs acc, allBytesOK vs = true →
    foldUpd (updField env sub dm f) (.list acc) ((lenEntries num vs).map (·.p)) = some (.list (acc ++ vs)) := by
  intro vs
  induction vs with
  | nil => intro acc _; simp [lenEntries, foldUpd]
  | cons v vs ih =>
    intro acc h
    obtain ⟨b, rfl, _, hrest⟩ := allBytesOK_cons v vs h
    simp only [lenEntries, List.map_cons, foldUpd, updField, hcls, appendVal]
    rw [ih (acc ++ [Val.bytes b]) hrest]
    simp

theorem msgEntries_mem (e1 : Val → Bytes) (ok : Val → Bool) (hok : ∀ v, ok v = true → (e1 v).length < P63)
    (num : Nat) (h0 : 0 < num ∧ num < P29) : ∀ vs, allMsgOK ok vs = true →
    ∀ e ∈ msgEntries e1 num vs, e.num = num ∧ e.ok := by
  intro vs
  induction vs with
  | nil => intro _ e he; cases he
  | cons v vs ih =>
    intro h e he
    simp only [allMsgOK, Bool.and_eq_true] at h
    simp only [msgEntries, List.mem_cons] at he
    cases he with
    | inl h1 => subst h1; exact ⟨rfl, h0.1, h0.2, hok v h.1⟩
    | inr h1 => exact ih h.2 e h1

theorem msgEntries_fold (f : Field) (n : String) (hcls : f.cls = .repMsg n) (d : MsgDesc) (hl : lookup env n = some d)
    (ok : Val → Bool) (hok : ∀ v, ok v = true → sub d (dm d) (enc d v) = some v) (num : Nat) :
    ∀ vs acc, allMsgOK ok vs = true →
    foldUpd (updField env sub dm f) (.list acc) ((msgEntries (enc d) num vs).map (·.p)) = some (.list (acc ++ vs)) := by
  intro vs
  induction vs with
  | nil => intro acc _; simp [msgEntries, foldUpd]
  | cons v vs ih =>
    intro acc h
    simp only [allMsgOK, Bool.and_eq_true] at h
    simp only [msgEntries, List.map_cons, foldUpd, updField, hcls, hl, hok v h.1, appendVal]
    rw [ih (acc ++ [v]) h.2]
    simp

theorem cls_big (f : Field) (bits : Nat) (h : f.cls = .big bits) : bits = 256 ∨ bits = 315 := by
  unfold Field.cls at h
  split at h <;> (try split at h) <;> (try split at h) <;> simp at h <;> omega

set_option exponentiation.threshold 512 in
theorem big_text_len (bits : Nat) (hb : bits = 256 ∨ bits = 315) (i : Int) (h : bigOK bits i = true) :
    (intText i).length < P63 := by
  have h1 : i.natAbs < 2 ^ bits := by simpa [bigOK] using h
  have h2 : 2 ^ bits ≤ 2 ^ 315 := Nat.pow_le_pow_right (by omega) (by omega)
  have h3 : 2 ^ 315 < tenPow 100 := by decide
  have := intText_length i (by omega)
  omega

theorem field_roundtrip
    (Hrt : ∀ d v, wfsub d = true → canon d v = true → sub d (dm d) (enc d v) = some v)
    (f : Field) (v : Val) (hwf : fieldWF env wfsub f = true) (hc : canonField env canon enc f v = true)
    (h0 : 0 < f.num ∧ f.num < P29) :
    (∀ e ∈ fieldEntries env enc f v, e.num = f.num ∧ e.ok) ∧
    foldUpd (updField env sub dm f) (defaultField env dm f) ((fieldEntries env enc f v).map (·.p)) = some v := by
  cases hcls : f.cls with
  | varint s =>
    cases v with
    | varint n =>
      simp only [canonField, hcls] at hc
      by_cases hn : n = 0
      · subst hn
        simp [fieldEntries, hcls, defaultField, foldUpd]
      · simp only [fieldEntries, hcls, hn, if_false, defaultField]
        constructor
        · intro e he
          simp only [List.mem_singleton] at he
          subst he
          exact ⟨rfl, h0.1, h0.2, range_lt s n hc⟩
        · simp only [List.map, foldUpd, updField, hcls, conv_of_range s n hc]
    | bytes _ => simp [canonField, hcls] at hc
    | int _ => simp [canonField, hcls] at hc
    | msg _ => simp [canonField, hcls] at hc
    | none => simp [canonField, hcls] at hc
    | list _ => simp [canonField, hcls] at hc
  | len =>
    cases v with
    | bytes b =>
      simp only [canonField, hcls, decide_eq_true_eq] at hc
      cases b with
      | nil => simp [fieldEntries, hcls, defaultField, foldUpd]
      | cons x xs =>
        simp only [fieldEntries, hcls, List.isEmpty_cons, Bool.false_eq_true, if_false, defaultField]
        constructor
        · intro e he
          simp only [List.mem_singleton] at he
          subst he
          exact ⟨rfl, h0.1, h0.2, hc⟩
        · simp only [List.map, foldUpd, updField, hcls]
    | varint _ => simp [canonField, hcls] at hc
    | int _ => simp [canonField, hcls] at hc
    | msg _ => simp [canonField, hcls] at hc
    | none => simp [canonField, hcls] at hc
    | list _ => simp [canonField, hcls] at hc
  | big bits =>
    cases v with
    | int i =>
      simp only [canonField, hcls] at hc
      simp only [fieldEntries, hcls, defaultField]
      constructor
      · intro e he
        simp only [List.mem_singleton] at he
        subst he
        exact ⟨rfl, h0.1, h0.2, big_text_len bits (cls_big f bits hcls) i hc⟩
      · have hne : (intText i).isEmpty = false := by
          cases hh : intText i with
          | nil => exact absurd hh (intText_ne_nil i)
          | cons _ _ => rfl
        simp only [List.map, foldUpd, updField, hcls, hne, Bool.false_eq_true, if_false, parseIntText_intText, hc, if_true]
    | varint _ => simp [canonField, hcls] at hc
    | bytes _ => simp [canonField, hcls] at hc
    | msg _ => simp [canonField, hcls] at hc
    | none => simp [canonField, hcls] at hc
    | list _ => simp [canonField, hcls] at hc
  | repLen =>
    cases v with
    | list vs =>
      simp only [canonField, hcls] at hc
      simp only [fieldEntries, hcls, defaultField]
      exact ⟨lenEntries_mem f.num h0 vs hc, by simpa using lenEntries_fold env sub dm f hcls f.num vs [] hc⟩
    | varint _ => simp [canonField, hcls] at hc
    | bytes _ => simp [canonField, hcls] at hc
    | msg _ => simp [canonField, hcls] at hc
    | none => simp [canonField, hcls] at hc
    | int _ => simp [canonField, hcls] at hc
  | msg n =>
    simp only [fieldWF, hcls] at hwf
    simp only [canonField, hcls] at hc
    cases hl : lookup env n with
    | none => rw [hl] at hwf; exact absurd hwf (by simp)
    | some d =>
      rw [hl] at hwf hc
      simp only [Bool.and_eq_true, decide_eq_true_eq] at hc hwf
      simp only [fieldEntries, hcls, hl, defaultField]
      constructor
      · intro e he
        simp only [List.mem_singleton] at he
        subst he
        exact ⟨rfl, h0.1, h0.2, hc.2⟩
      · simp only [List.map, foldUpd, updField, hcls, hl, Hrt d v hwf hc.1]
  | optMsg n =>
    simp only [fieldWF, hcls] at hwf
    cases hl : lookup env n with
    | none => rw [hl] at hwf; exact absurd hwf (by simp)
    | some d =>
      rw [hl] at hwf
      have key : ∀ v, v ≠ Val.none → canon d v = true → (enc d v).length < P63 →
          (∀ e ∈ [(⟨f.num, .len (enc d v)⟩ : Entry)], e.num = f.num ∧ e.ok) ∧
          foldUpd (updField env sub dm f) Val.none ([(⟨f.num, .len (enc d v)⟩ : Entry)].map (·.p)) = some v := by
        intro v _ hcv hlen
        constructor
        · intro e he
          simp only [List.mem_singleton] at he
          subst he
          exact ⟨rfl, h0.1, h0.2, hlen⟩
        · simp only [List.map, foldUpd, updField, hcls, hl, Hrt d v hwf hcv]
      cases v with
      | none => simp [fieldEntries, hcls, defaultField, foldUpd]
      | varint x =>
        simp only [canonField, hcls, hl, Bool.and_eq_true, decide_eq_true_eq] at hc
        simpa only [fieldEntries, hcls, hl, defaultField] using key _ (by simp) hc.1 hc.2
      | bytes x =>
        simp only [canonField, hcls, hl, Bool.and_eq_true, decide_eq_true_eq] at hc
        simpa only [fieldEntries, hcls, hl, defaultField] using key _ (by simp) hc.1 hc.2
      | int x =>
        simp only [canonField, hcls, hl, Bool.and_eq_true, decide_eq_true_eq] at hc
        simpa only [fieldEntries, hcls, hl, defaultField] using key _ (by simp) hc.1 hc.2
      | msg x =>
        simp only [canonField, hcls, hl, Bool.and_eq_true, decide_eq_true_eq] at hc
        simpa only [fieldEntries, hcls, hl, defaultField] using key _ (by simp) hc.1 hc.2
      | list x =>
        simp only [canonField, hcls, hl, Bool.and_eq_true, decide_eq_true_eq] at hc
        simpa only [fieldEntries, hcls, hl, defaultField] using key _ (by simp) hc.1 hc.2
  | stdMsg n std =>
    simp only [canonField, hcls] at hc
    have hld : ∃ d, lookup env n = some d ∧ wfsub d = true := by
      cases std with
      | none => simp [fieldWF, hcls] at hwf
      | time =>
        simp only [fieldWF, hcls, Bool.and_eq_true, beq_iff_eq] at hwf
        exact ⟨_, hwf.1, hwf.2⟩
      | duration =>
        simp only [fieldWF, hcls, Bool.and_eq_true, beq_iff_eq] at hwf
        exact ⟨_, hwf.1, hwf.2⟩
    obtain ⟨d, hl, hwd⟩ := hld
    rw [hl] at hc
    simp only [Bool.and_eq_true, decide_eq_true_eq] at hc
    simp only [fieldEntries, hcls, hl]
    constructor
    · intro e he
      simp only [List.mem_singleton] at he
      subst he
      exact ⟨rfl, h0.1, h0.2, hc.1.2⟩
    · simp only [List.map, foldUpd, updField, hcls, hl, Hrt d v hwd hc.1.1, hc.2, if_true]
  | repMsg n =>
    simp only [fieldWF, hcls] at hwf
    cases hl : lookup env n with
    | none => rw [hl] at hwf; exact absurd hwf (by simp)
    | some d =>
      rw [hl] at hwf
      cases v with
      | list vs =>
        simp only [canonField, hcls, hl] at hc
        simp only [fieldEntries, hcls, hl, defaultField]
        constructor
        · exact msgEntries_mem (enc d) _ (fun v hv => by
            simp only [Bool.and_eq_true, decide_eq_true_eq] at hv; exact hv.2) f.num h0 vs hc
        · have := msgEntries_fold env enc sub dm f n hcls d hl _ (fun v hv => by
            simp only [Bool.and_eq_true, decide_eq_true_eq] at hv; exact Hrt d v hwf hv.1) f.num vs [] hc
          simpa using this
      | varint _ => simp [canonField, hcls] at hc
      | bytes _ => simp [canonField, hcls] at hc
      | msg _ => simp [canonField, hcls] at hc
      | none => simp [canonField, hcls] at hc
      | int _ => simp [canonField, hcls] at hc
  | bad => simp [fieldWF, hcls] at hwf

end

/-! ## messages -/

section
variable (env : Env) (wfsub : MsgDesc → Bool) (canon : MsgDesc → Val → Bool) (enc : MsgDesc → Val → Bytes)
  (sub : MsgDesc → Val → Bytes → Option Val) (dm : MsgDesc → Val)

/-- Every field of a well-formed field list with canonical values satisfies the field lemma. -/
theorem fields_roundtrip
    (Hrt : ∀ d v, wfsub d = true → canon d v = true → sub d (dm d) (enc d v) = some v) :
    ∀ (fs : List Field) (vs : List Val), (∀ f ∈ fs, fieldWF env wfsub f = true ∧ 0 < f.num ∧ f.num < P29) →
      canonFields env canon enc fs vs = true →
      AllP (fun f v => (∀ e ∈ fieldEntries env enc f v, e.num = f.num) ∧
          foldUpd (updField env sub dm f) (defaultField env dm f) ((fieldEntries env enc f v).map (·.p)) = some v) fs vs ∧
      (∀ e ∈ allEntries env enc fs vs, e.ok) := by
  intro fs
  induction fs with
  | nil =>
    intro vs _ hc
    cases vs with
    | nil => exact ⟨trivial, fun e he => by cases he⟩
    | cons v vs => simp [canonFields] at hc
  | cons f fs ih =>
    intro vs hf hc
    cases vs with
    | nil => simp [canonFields] at hc
    | cons v vs =>
      simp only [canonFields, Bool.and_eq_true] at hc
      have hf1 := hf f (List.mem_cons_self)
      have fr := field_roundtrip env wfsub canon enc sub dm Hrt f v hf1.1 hc.1 hf1.2
      have rest := ih vs (fun g hg => hf g (List.mem_cons_of_mem _ hg)) hc.2
      refine ⟨⟨⟨fun e he => (fr.1 e he).1, fr.2⟩, rest.1⟩, ?_⟩
      intro e he
      simp only [allEntries, List.mem_append] at he
      cases he with
      | inl h => exact (fr.1 e h).2
      | inr h => exact rest.2 e h

end

theorem roundtripAt (env : Env) : ∀ (k : Nat) (d : MsgDesc) (v : Val), wfAt env k d = true → canonAt env k d v = true →
    decodeAt env k d (defaultMsg env k d) (encodeAt env k d v) = some v := by
  intro k
  induction k with
  | zero => intro d v h; simp [wfAt] at h
  | succ k ih =>
    intro d v hwf hc
    cases v with
    | msg vs =>
      simp only [wfAt, Bool.and_eq_true, List.all_eq_true] at hwf
      simp only [canonAt] at hc
      have hrange := asc_range d.fields 0 hwf.1
      have hfs := fields_roundtrip env (wfAt env k) (canonAt env k) (encodeAt env k) (decodeAt env k) (defaultMsg env k) ih
        d.fields vs (fun f hf => ⟨hwf.2 f hf, hrange f hf⟩) hc
      have htok := tokenize_encEntries (allEntries env (encodeAt env k) d.fields vs)
        (encEntries (allEntries env (encodeAt env k) d.fields vs)).length hfs.2 (Nat.le_refl _)
      have hfold := applyEntries_all (updField env (decodeAt env k) (defaultMsg env k)) (defaultField env (defaultMsg env k))
        (fieldEntries env (encodeAt env k)) (allEntries env (encodeAt env k))
        (fun vs => by cases vs <;> rfl) (fun f fs v vs => rfl)
        d.fields [] [] vs rfl (by simpa using hwf.1) hfs.1
      simp only [List.nil_append] at hfold
      simp only [decodeAt, defaultMsg, encodeAt, htok, hfold]
    | varint _ => simp [canonAt] at hc
    | bytes _ => simp [canonAt] at hc
    | int _ => simp [canonAt] at hc
    | none => simp [canonAt] at hc
    | list _ => simp [canonAt] at hc


/-! ## std types: `time.Duration` ⇄ `google.protobuf.Duration` -/

theorem toInt_ofInt (i : Int) (h1 : -(P63 : Int) ≤ i) (h2 : i < (P63 : Int)) : toInt (ofInt i) = i := by
  unfold toInt ofInt
  by_cases hi : 0 ≤ i
  · have e : i % (P64 : Int) = i := Int.emod_eq_of_lt hi (by omega)
    rw [e]
    have : (i.toNat : Int) = i := Int.toNat_of_nonneg hi
    have hlt : i.toNat < P63 := by omega
    simp only [hlt, if_true, this]
  · have e : i % (P64 : Int) = i + P64 := by omega
    rw [e]
    have : ((i + P64).toNat : Int) = i + P64 := Int.toNat_of_nonneg (by omega)
    have hlt : ¬ (i + P64).toNat < P63 := by omega
    simp only [hlt, if_false, this]
    omega

theorem ofInt_lt (i : Int) : ofInt i < P64 := by
  unfold ofInt
  have h1 : 0 ≤ i % (P64 : Int) := Int.emod_nonneg _ (by omega)
  have h2 : i % (P64 : Int) < P64 := Int.emod_lt_of_pos _ (by omega)
  omega

/-- Go `/` on a literal positive divisor, by sign. -/
theorem tdiv_cases (a : Int) : (0 ≤ a ∧ Int.tdiv a 1000000000 = a / 1000000000) ∨
    (a < 0 ∧ Int.tdiv a 1000000000 = -((-a) / 1000000000)) := by
  by_cases h : 0 ≤ a
  · exact Or.inl ⟨h, Int.tdiv_eq_ediv_of_nonneg h⟩
  · refine Or.inr ⟨by omega, ?_⟩
    have h' : 0 ≤ -a := by omega
    have : Int.tdiv (-a) 1000000000 = (-a) / 1000000000 := Int.tdiv_eq_ediv_of_nonneg h'
    rw [← this, Int.neg_tdiv, Int.neg_neg]

/-- Every `time.Duration` (an `int64` of nanoseconds) converts to a valid proto Duration and back. -/
theorem duration_proto_roundtrip (ns : Int) (h1 : -(P63 : Int) ≤ ns) (h2 : ns < (P63 : Int)) :
    durFromProto (durToProto ns) = some ns := by
  unfold durToProto durFromProto
  simp only
  generalize hq : Int.tdiv ns 1000000000 = q
  have hq' : (0 ≤ ns ∧ q = ns / 1000000000) ∨ (ns < 0 ∧ q = -((-ns) / 1000000000)) := by
    rw [← hq]; exact tdiv_cases ns
  have bq : -(P63 : Int) ≤ q ∧ q < (P63 : Int) := by omega
  have br : -(P63 : Int) ≤ ns - q * 1000000000 ∧ ns - q * 1000000000 < (P63 : Int) := by omega
  have e1 := toInt_ofInt q bq.1 bq.2
  have e2 := toInt_ofInt (ns - q * 1000000000) br.1 br.2
  have l1 := ofInt_lt q
  have l2 := ofInt_lt (ns - q * 1000000000)
  have hv : durValid (ofInt q) (ofInt (ns - q * 1000000000)) = true := by
    unfold durValid
    simp only [e1, e2, Bool.and_eq_true, decide_eq_true_eq, Bool.not_eq_true', Bool.and_eq_false_iff,
      decide_eq_false_iff_not]
    omega
  simp only [hv, if_true, e1, e2]
  congr 1
  omega

/-- `validateTimestamp` accepts exactly the instants of years 1 … 9999 with nanoseconds below 10^9. -/
theorem time_proto_valid (secs : Int) (nanos : Nat) (h1 : -62135596800 ≤ secs) (h2 : secs < 253402300800)
    (h3 : nanos < 1000000000) : stdValid .time (timeToProto secs nanos) = true := by
  unfold timeToProto stdValid timeValid
  have l1 := ofInt_lt secs
  have e1 := toInt_ofInt secs (by omega) (by omega)
  unfold toInt at e1
  simp only [Bool.and_eq_true, Bool.or_eq_true, decide_eq_true_eq]
  refine ⟨?_, h3⟩
  split at e1 <;> omega

/-- The seconds of a valid Timestamp value are recovered by the two's complement reading. -/
theorem time_proto_seconds (secs : Int) (h1 : -62135596800 ≤ secs) (h2 : secs < 253402300800) :
    toInt (ofInt secs) = secs := toInt_ofInt secs (by omega) (by omega)

/-- … and the converted value is a well-typed `google.protobuf.Duration` (int64 seconds, int32 nanos). -/
theorem duration_proto_canonical (env : Env) (k : Nat) (ns : Int) :
    canonAt env (k + 1) durationDesc (durToProto ns) = true := by
  unfold durToProto
  simp only
  generalize hq : Int.tdiv ns 1000000000 = q
  have hq' : (0 ≤ ns ∧ q = ns / 1000000000) ∨ (ns < 0 ∧ q = -((-ns) / 1000000000)) := by
    rw [← hq]; exact tdiv_cases ns
  have l1 := ofInt_lt q
  have br : -(1000000000 : Int) < ns - q * 1000000000 ∧ ns - q * 1000000000 < 1000000000 := by omega
  have e2 := toInt_ofInt (ns - q * 1000000000) (by omega) (by omega)
  have l2 := ofInt_lt (ns - q * 1000000000)
  unfold toInt at e2
  simp only [canonAt, durationDesc, canonFields, canonField, Field.cls, Bool.false_eq_true, if_false, rangeOK,
    Bool.and_eq_true, Bool.or_eq_true, decide_eq_true_eq, Bool.and_true]
  refine ⟨l1, ?_⟩
  split at e2 <;> omega


end Hub.SDK.ProtoWire
