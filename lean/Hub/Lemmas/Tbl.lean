import Hub.Model.Types
/-
Interface lemmas of the association-list tables (`Tbl`): after these no proof looks at list
structure.  Tables are used through `get/has/set/erase`; `set` keeps keys unique.
-/
namespace Hub.Model.Tbl
variable {κ α : Type} [DecidableEq κ]

@[simp] theorem get_nil (k : κ) : get ([] : Tbl κ α) k = none := rfl

theorem get_cons (k k' : κ) (v : α) (t : Tbl κ α) :
    get ((k', v) :: t) k = if k' = k then some v else get t k := rfl

@[simp] theorem get_set_eq (t : Tbl κ α) (k : κ) (v : α) : get (set t k v) k = some v := by
  induction t with
  | nil => simp [set, get]
  | cons p rest ih =>
    obtain ⟨k', v'⟩ := p
    unfold set
    by_cases h : k' = k
    · simp [h, get]
    · simp [h, get, ih]

theorem get_set_ne (t : Tbl κ α) {k k' : κ} (v : α) (h : k ≠ k') : get (set t k v) k' = get t k' := by
  induction t with
  | nil => simp [set, get, h]
  | cons p rest ih =>
    obtain ⟨k'', v''⟩ := p
    unfold set
    by_cases h1 : k'' = k
    · subst h1; simp [get, h]
    · simp only [h1, if_false, get_cons, ih]

theorem get_set (t : Tbl κ α) (k k' : κ) (v : α) : get (set t k v) k' = if k = k' then some v else get t k' := by
  by_cases h : k = k'
  · subst h; simp
  · simp [h, get_set_ne t v h]

@[simp] theorem get_erase_eq (t : Tbl κ α) (k : κ) : get (erase t k) k = none := by
  induction t with
  | nil => rfl
  | cons p rest ih =>
    obtain ⟨k', v'⟩ := p
    unfold erase
    by_cases h : k' = k
    · simp only [List.filter, h, ne_eq, not_true_eq_false, decide_false]; exact ih
    · simp only [List.filter, ne_eq, h, not_false_eq_true, decide_true, get_cons, if_false]; exact ih

theorem get_erase_ne (t : Tbl κ α) {k k' : κ} (h : k ≠ k') : get (erase t k) k' = get t k' := by
  induction t with
  | nil => rfl
  | cons p rest ih =>
    obtain ⟨k'', v''⟩ := p
    unfold erase
    by_cases h1 : k'' = k
    · subst h1
      simp only [List.filter, ne_eq, not_true_eq_false, decide_false, get_cons, h, if_false]; exact ih
    · simp only [List.filter, ne_eq, h1, not_false_eq_true, decide_true, get_cons]
      rw [show get (List.filter (fun p => decide (p.1 ≠ k)) rest) k' = get rest k' from ih]

theorem get_erase (t : Tbl κ α) (k k' : κ) : get (erase t k) k' = if k = k' then none else get t k' := by
  by_cases h : k = k'
  · subst h; simp
  · simp [h, get_erase_ne t h]

theorem has_iff (t : Tbl κ α) (k : κ) : has t k = true ↔ ∃ v, get t k = some v := by
  unfold has; cases get t k <;> simp

theorem has_eq_false_iff (t : Tbl κ α) (k : κ) : has t k = false ↔ get t k = none := by
  unfold has; cases get t k <;> simp




theorem nodup_nil : Nodup ([] : Tbl κ α) := List.nodup_nil

theorem mem_keys_of_get {t : Tbl κ α} {k : κ} {v : α} (h : get t k = some v) : k ∈ t.map (·.1) := by
  induction t with
  | nil => simp [get] at h
  | cons p rest ih =>
    obtain ⟨k', v'⟩ := p
    rw [get_cons] at h
    by_cases h1 : k' = k
    · simp [h1]
    · simp only [h1, if_false] at h; simp [ih h]

theorem get_of_mem_keys {t : Tbl κ α} {k : κ} (h : k ∈ t.map (·.1)) : ∃ v, get t k = some v := by
  induction t with
  | nil => simp at h
  | cons p rest ih =>
    obtain ⟨k', v'⟩ := p
    rw [get_cons]
    by_cases h1 : k' = k
    · exact ⟨v', by simp [h1]⟩
    · simp only [h1, if_false]
      apply ih
      simpa [Ne.symm h1] using h

theorem keys_set_subset (t : Tbl κ α) (k : κ) (v : α) (x : κ) :
    x ∈ (set t k v).map (·.1) ↔ x = k ∨ x ∈ t.map (·.1) := by
  constructor
  · intro h
    obtain ⟨w, hw⟩ := get_of_mem_keys h
    rw [get_set] at hw
    by_cases hk : k = x
    · left; exact hk.symm
    · right; simp only [hk, if_false] at hw; exact mem_keys_of_get hw
  · intro h
    rcases h with h | h
    · subst h; exact mem_keys_of_get (get_set_eq t x v)
    · obtain ⟨w, hw⟩ := get_of_mem_keys h
      by_cases hk : k = x
      · subst hk; exact mem_keys_of_get (get_set_eq t k v)
      · exact mem_keys_of_get (by rw [get_set_ne t v hk]; exact hw)

theorem nodup_set {t : Tbl κ α} (h : Nodup t) (k : κ) (v : α) : Nodup (set t k v) := by
  induction t with
  | nil => simp [set, Nodup]
  | cons p rest ih =>
    obtain ⟨k', v'⟩ := p
    unfold set
    have hr : Nodup rest := (List.nodup_cons.mp h).2
    have hk' : k' ∉ rest.map (·.1) := (List.nodup_cons.mp h).1
    by_cases h1 : k' = k
    · subst h1; simpa [Nodup] using h
    · simp only [h1, if_false]
      unfold Nodup
      simp only [List.map_cons, List.nodup_cons]
      refine ⟨?_, ih hr⟩
      intro hm
      rcases (keys_set_subset rest k v k').mp hm with h2 | h2
      · exact h1 h2
      · exact hk' h2

theorem nodup_erase {t : Tbl κ α} (h : Nodup t) (k : κ) : Nodup (erase t k) := by
  unfold Nodup erase at *
  exact (List.Sublist.map _ List.filter_sublist).nodup h


/-! ### sums -/

theorem sumKV_nil (f : κ → α → Int) : sumKV f ([] : Tbl κ α) = 0 := rfl

theorem sumKV_cons (f : κ → α → Int) (k : κ) (v : α) (t : Tbl κ α) : sumKV f ((k, v) :: t) = f k v + sumKV f t := by
  simp [sumKV]

theorem get_eq_none_of_not_mem {t : Tbl κ α} {k : κ} (h : k ∉ t.map (·.1)) : get t k = none := by
  cases hg : get t k with
  | none => rfl
  | some v => exact absurd (mem_keys_of_get hg) h

theorem sumKV_set (f : κ → α → Int) {t : Tbl κ α} (h : Nodup t) (k : κ) (v : α) :
    sumKV f (set t k v) = sumKV f t - (match get t k with | some o => f k o | none => 0) + f k v := by
  induction t with
  | nil => simp [set, sumKV, get]
  | cons p rest ih =>
    obtain ⟨k', v'⟩ := p
    have hr : Nodup rest := (List.nodup_cons.mp h).2
    have hk' : k' ∉ rest.map (·.1) := (List.nodup_cons.mp h).1
    unfold set
    by_cases h1 : k' = k
    · subst h1
      simp only [if_true, sumKV_cons, get_cons]
      omega
    · simp only [h1, if_false, sumKV_cons, get_cons, ih hr]
      omega

theorem sumKV_erase (f : κ → α → Int) {t : Tbl κ α} (h : Nodup t) (k : κ) :
    sumKV f (erase t k) = sumKV f t - (match get t k with | some o => f k o | none => 0) := by
  induction t with
  | nil => simp [erase, sumKV, get]
  | cons p rest ih =>
    obtain ⟨k', v'⟩ := p
    have hr : Nodup rest := (List.nodup_cons.mp h).2
    have hk' : k' ∉ rest.map (·.1) := (List.nodup_cons.mp h).1
    have ih' := ih hr
    unfold erase at ih' ⊢
    by_cases h1 : k' = k
    · subst h1
      have hn : get rest k' = none := get_eq_none_of_not_mem hk'
      simp only [List.filter, ne_eq, not_true_eq_false, decide_false, sumKV_cons, get_cons, if_true]
      rw [ih', hn]; simp only []; omega
    · simp only [List.filter, ne_eq, h1, not_false_eq_true, decide_true, sumKV_cons, get_cons, if_false]
      rw [ih']; omega

end Hub.Model.Tbl
