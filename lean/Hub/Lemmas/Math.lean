import Hub.SDK.Math
import Mathlib.Tactic.Ring
import Mathlib.Tactic.Linarith
import Mathlib.Tactic.NormNum
/-
Helper lemmas about the model of `cosmossdk.io/math`: how the operations behave on
non-negative values inside their ranges (one rewriting lemma per operation).
-/
namespace Hub.SDK

/-- Bounds written out as decimal numerals (so that `omega`/`norm_num` treat them as literals). -/
notation "B255" => (57896044618658097711785492504343953926634992332820282019728792003956564819968 : Nat)
notation "B256" => (115792089237316195423570985008687907853269984665640564039457584007913129639936 : Nat)
notation "B314" => (33374797436264220037422214158899251790667258161822699530422525122222183215322508594108782608384 : Nat)
notation "B315" => (66749594872528440074844428317798503581334516323645399060845050244444366430645017188217565216768 : Nat)

/-- `ok a >>= f = f a` as a rewriting lemma (cheaper for the kernel than unfolding `Except.bind`). -/
theorem ok_bind {α β : Type} (a : α) (f : α → M β) : ((Except.ok a : M α) >>= f) = f a := rfl
theorem pure_bind' {α β : Type} (a : α) (f : α → M β) : ((pure a : M α) >>= f) = f a := rfl
theorem err_bind {α β : Type} (e : Err) (f : α → M β) : ((Except.error e : M α) >>= f) = Except.error e := rfl

theorem intOverflows_natCast (n : Nat) (h : n < B256) : intOverflows (n : Int) = false := by
  unfold intOverflows
  simp only [Int.natAbs_natCast, decide_eq_false_iff_not, ge_iff_le, Nat.not_le]
  exact h

theorem decOverflows_natCast (n : Nat) (h : n < B315) : decOverflows (n : Int) = false := by
  unfold decOverflows
  simp only [Int.natAbs_natCast, decide_eq_false_iff_not, ge_iff_le, Nat.not_le]
  exact h

theorem SInt.add_nat (a b : Nat) (h : a + b < B256) : SInt.add (a : Int) (b : Int) = .ok ((a + b : Nat) : Int) := by
  unfold SInt.add
  have : ((a : Int) + (b : Int)) = ((a + b : Nat) : Int) := by push_cast; rfl
  rw [this, intOverflows_natCast _ h]; rfl

theorem SInt.mul_nat (a b : Nat) (h : a * b < B256) : SInt.mul (a : Int) (b : Int) = .ok ((a * b : Nat) : Int) := by
  unfold SInt.mul
  have : ((a : Int) * (b : Int)) = ((a * b : Nat) : Int) := by push_cast; rfl
  rw [this, intOverflows_natCast _ h]; rfl

theorem SInt.sub_nat (a b : Nat) (hle : b ≤ a) (h : a < B256) : SInt.sub (a : Int) (b : Int) = .ok ((a - b : Nat) : Int) := by
  unfold SInt.sub
  have : ((a : Int) - (b : Int)) = ((a - b : Nat) : Int) := by omega
  rw [this, intOverflows_natCast _ (by omega)]; rfl

theorem SInt.quo_nat (a b : Nat) (hb : 0 < b) : SInt.quo (a : Int) (b : Int) = .ok ((a / b : Nat) : Int) := by
  unfold SInt.quo
  have : ¬ ((b : Int) = 0) := by omega
  simp only [this, if_false]
  rw [Int.tdiv_eq_ediv_of_nonneg (by omega)]
  norm_cast

namespace Dec

theorem ofInt_natCast (n : Nat) : Dec.ofInt (n : Int) = ((n * 10 ^ 18 : Nat) : Int) := by
  unfold Dec.ofInt decUnit; push_cast; rfl

theorem chopRound_natCast (n : Nat) : Dec.chopRound (n : Int) = (Dec.chopRoundNat n : Int) := by
  unfold Dec.chopRound
  have h : ¬ ((n : Int) < 0) := by omega
  simp only [h, if_false, Int.natAbs_natCast]

theorem chopRoundNat_mul (n : Nat) : Dec.chopRoundNat (n * 10 ^ 18) = n := by
  unfold Dec.chopRoundNat
  simp

/-- Half-even rounding is within half a unit. -/
theorem chopRoundNat_bounds (n : Nat) :
    (Dec.chopRoundNat n * 10 ^ 18 ≤ n + 5 * 10 ^ 17) ∧ (n ≤ Dec.chopRoundNat n * 10 ^ 18 + 5 * 10 ^ 17) := by
  unfold Dec.chopRoundNat
  simp only
  split
  · omega
  · split
    · omega
    · split
      · omega
      · split <;> omega

/-- The four cases of half-even rounding. -/
theorem chopRoundNat_cases (n : Nat) :
    (n % 10 ^ 18 < 5 * 10 ^ 17 ∧ Dec.chopRoundNat n = n / 10 ^ 18) ∨
    (n % 10 ^ 18 > 5 * 10 ^ 17 ∧ Dec.chopRoundNat n = n / 10 ^ 18 + 1) ∨
    (n % 10 ^ 18 = 5 * 10 ^ 17 ∧ (n / 10 ^ 18) % 2 = 0 ∧ Dec.chopRoundNat n = n / 10 ^ 18) ∨
    (n % 10 ^ 18 = 5 * 10 ^ 17 ∧ (n / 10 ^ 18) % 2 = 1 ∧ Dec.chopRoundNat n = n / 10 ^ 18 + 1) := by
  unfold Dec.chopRoundNat
  simp only
  by_cases h0 : n % 10 ^ 18 = 0
  · left; rw [if_pos h0]; omega
  · rw [if_neg h0]
    by_cases h1 : n % 10 ^ 18 < 5 * 10 ^ 17
    · left; rw [if_pos h1]; omega
    · rw [if_neg h1]
      by_cases h2 : n % 10 ^ 18 > 5 * 10 ^ 17
      · right; left; rw [if_pos h2]; omega
      · rw [if_neg h2]
        by_cases h3 : (n / 10 ^ 18) % 2 = 0
        · right; right; left; rw [if_pos h3]; omega
        · right; right; right; rw [if_neg h3]; omega

theorem chopRoundNat_mono {m n : Nat} (h : m ≤ n) : Dec.chopRoundNat m ≤ Dec.chopRoundNat n := by
  have hd : m / 10 ^ 18 ≤ n / 10 ^ 18 := Nat.div_le_div_right h
  rcases chopRoundNat_cases m with ⟨a1, a2⟩ | ⟨a1, a2⟩ | ⟨a1, a3, a2⟩ | ⟨a1, a3, a2⟩ <;>
  rcases chopRoundNat_cases n with ⟨b1, b2⟩ | ⟨b1, b2⟩ | ⟨b1, b3, b2⟩ | ⟨b1, b3, b2⟩ <;>
  rw [a2, b2] <;> omega

theorem chopRoundNat_le_of_share (a s : Nat) (hs : s ≤ 10 ^ 18) : Dec.chopRoundNat (a * s) ≤ a := by
  have h := (chopRoundNat_bounds (a * s)).1
  have h1 : a * s ≤ a * 10 ^ 18 := Nat.mul_le_mul_left a hs
  by_contra hc
  have h2 : (a + 1) * 10 ^ 18 ≤ Dec.chopRoundNat (a * s) * 10 ^ 18 := Nat.mul_le_mul_right _ (by omega)
  omega

/-- `Mul` of two non-negative decimals. -/
theorem mul_nat (x y : Nat) (h : Dec.chopRoundNat (x * y) < B315) :
    Dec.mul (x : Int) (y : Int) = .ok ((Dec.chopRoundNat (x * y) : Nat) : Int) := by
  unfold Dec.mul
  have : ((x : Int) * (y : Int)) = ((x * y : Nat) : Int) := by push_cast; rfl
  simp only [this, chopRound_natCast, decOverflows_natCast _ h]
  rfl

theorem quoInt_nat (x i : Nat) (hi : 0 < i) : Dec.quoInt (x : Int) (i : Int) = .ok ((x / i : Nat) : Int) := by
  unfold Dec.quoInt
  have : ¬ ((i : Int) = 0) := by omega
  simp only [this, if_false]
  rw [Int.tdiv_eq_ediv_of_nonneg (by omega)]
  norm_cast

theorem roundInt_nat (x : Nat) (h : Dec.chopRoundNat x < B256) :
    Dec.roundInt (x : Int) = .ok ((Dec.chopRoundNat x : Nat) : Int) := by
  unfold Dec.roundInt
  simp only [chopRound_natCast, intOverflows_natCast _ h]
  rfl

theorem truncateInt_nat (x : Nat) (h : x / 10 ^ 18 < B256) :
    Dec.truncateInt (x : Int) = .ok ((x / 10 ^ 18 : Nat) : Int) := by
  unfold Dec.truncateInt decUnit
  have hq : Int.tdiv (x : Int) (10 ^ 18) = ((x / 10 ^ 18 : Nat) : Int) := by
    rw [Int.tdiv_eq_ediv_of_nonneg (by omega)]; norm_cast
  simp only [hq, intOverflows_natCast _ h]
  rfl

/-- `Ceil` of a non-negative decimal: the next multiple of one unit. -/
theorem ceil_nat (x : Nat) (h : x < B314) :
    Dec.ceil (x : Int) = .ok (((((x + (10 ^ 18 - 1)) / 10 ^ 18) * 10 ^ 18 : Nat)) : Int) := by
  unfold Dec.ceil decUnit
  have hq : Int.tdiv (x : Int) (10 ^ 18) = ((x / 10 ^ 18 : Nat) : Int) := by
    rw [Int.tdiv_eq_ediv_of_nonneg (by omega)]; norm_cast
  have hr : Int.tmod (x : Int) (10 ^ 18) = ((x % 10 ^ 18 : Nat) : Int) := by
    rw [Int.tmod_eq_emod_of_nonneg (by omega)]; norm_cast
  simp only [hq, hr]
  by_cases hz : x % 10 ^ 18 = 0
  · simp only [hz, Nat.cast_zero, le_refl, if_true, pure, Except.pure]
    refine congrArg Except.ok ?_
    have : (x + (10 ^ 18 - 1)) / 10 ^ 18 = x / 10 ^ 18 := by omega
    rw [this]; simp only [Nat.cast_mul, Nat.cast_pow, Nat.cast_ofNat]
  · have hpos : ¬ ((((x % 10 ^ 18 : Nat) : Int)) ≤ 0) := by omega
    have habs : ¬ ((x : Int).natAbs ≥ B314) := by
      simp only [Int.natAbs_natCast, ge_iff_le, Nat.not_le]; exact h
    simp only [hpos, if_false, habs, pure, Except.pure]
    refine congrArg Except.ok ?_
    have : (x + (10 ^ 18 - 1)) / 10 ^ 18 = x / 10 ^ 18 + 1 := by omega
    rw [this]; simp only [Nat.cast_mul, Nat.cast_pow, Nat.cast_ofNat, Nat.cast_add, Nat.cast_one]

end Dec
end Hub.SDK
