import Hub.Model.Query
import Hub.Lemmas.Paginate
import Hub.Lemmas.Bytes
import Hub.Lemmas.Tbl
import Hub.Lemmas.AllInv
import Hub.Props.C17Keys
/-
Helper lemmas for C09 (listing half): from a model table to the KV *store view* a gRPC listing handler
iterates (`prefixStore`), and from there to the records the handler's callback appends.

* `stripPrefix_*`, `prefixStore_map`            what `prefix.NewStore(store, P)` keeps of a table;
* `sorted_mergeSort_of_nodup`                    the view is strictly sorted when the kept keys are distinct;
* `ExactListing`                                 "the listing returns exactly the records with `R`";
* `ExactListing.of_table`, `.of_idIndex`         the generic constructions over a table / an id index;
* `*_no_callback_error`                          the paginators never report a callback error on such a view.
-/
namespace Hub.Model.Listings
open Hub.SDK Hub.SDK.Paginate Hub.Model
open Function (uncurry)

/-! ## `stripPrefix` -/

theorem stripPrefix_append (p r : Bytes) : stripPrefix p (p ++ r) = some r := by
  induction p with
  | nil => rfl
  | cons c cs ih => simp only [List.cons_append, stripPrefix, if_true]; exact ih

theorem stripPrefix_eq_some_iff (p k r : Bytes) : stripPrefix p k = some r ↔ k = p ++ r := by
  induction p generalizing k with
  | nil => simp only [stripPrefix, List.nil_append, Option.some.injEq]
  | cons c cs ih =>
    cases k with
    | nil => simp [stripPrefix]
    | cons d ds =>
      simp only [stripPrefix, List.cons_append, List.cons.injEq]
      by_cases h : c = d
      · simp only [h, if_true, true_and]; exact ih ds
      · simp only [h, if_false]
        constructor
        · intro e; cases e
        · intro e; exact absurd e.1.symm h

theorem stripPrefix_eq_none_iff (p k : Bytes) : stripPrefix p k = none ↔ List.isPrefixOf p k = false := by
  induction p generalizing k with
  | nil => simp [stripPrefix]
  | cons c cs ih =>
    cases k with
    | nil => simp [stripPrefix]
    | cons d ds =>
      simp only [stripPrefix, List.isPrefixOf]
      by_cases h : c = d
      · simp only [h, if_true, beq_self_eq_true, Bool.true_and]; exact ih ds
      · simp [h]

/-- What a listing prefix `P` keeps of a key `K`, from prefix isolation: the key is `P ++ rest` when it
belongs to the requested owner (`c`), and `P` is not a prefix of it otherwise. -/
theorem strip_of_iso {P K rest : Bytes} {c : Prop} [Decidable c] (hK : c → K = P ++ rest)
    (hiso : List.isPrefixOf P K = true ↔ c) :
    stripPrefix P K = if c then some rest else none := by
  by_cases h : c
  · rw [if_pos h, hK h, stripPrefix_append]
  · rw [if_neg h, stripPrefix_eq_none_iff]
    cases hb : List.isPrefixOf P K with
    | false => rfl
    | true => exact absurd (hiso.mp hb) h

/-! ## `bytesLe` is a total preorder; sorting distinct keys gives a strictly sorted store -/

theorem bytesLe_total (a b : Bytes) : (bytesLe a b || bytesLe b a) = true := by
  cases h : bytesLt b a with
  | true => rw [bytesLe_of_lt h, Bool.or_true]
  | false => rw [(bytesLe_iff a b).mpr h, Bool.true_or]

theorem bytesLe_trans {a b c : Bytes} (h1 : bytesLe a b = true) (h2 : bytesLe b c = true) : bytesLe a c = true := by
  rcases (bytesLe_iff_lt_or_eq a b).mp h1 with h1 | h1
  · rcases (bytesLe_iff_lt_or_eq b c).mp h2 with h2 | h2
    · exact bytesLe_of_lt (bytesLt_trans h1 h2)
    · rw [← h2]; exact bytesLe_of_lt h1
  · rw [h1]; exact h2

theorem sorted_mergeSort_of_nodup {α : Type} (l : List (Bytes × α)) (hnd : (l.map Prod.fst).Nodup) :
    Sorted (l.mergeSort (fun a b => bytesLe a.1 b.1)) := by
  have hp : (l.mergeSort (fun a b => bytesLe a.1 b.1)).Perm l := List.mergeSort_perm _ _
  have h1 : (l.mergeSort (fun a b => bytesLe a.1 b.1)).Pairwise (fun a b => bytesLe a.1 b.1 = true) :=
    List.pairwise_mergeSort (le := fun a b => bytesLe a.1 b.1) (fun a b c h1 h2 => bytesLe_trans (a := a.1) (b := b.1) (c := c.1) h1 h2)
      (fun a b => bytesLe_total a.1 b.1) l
  have h2 : ((l.mergeSort (fun a b => bytesLe a.1 b.1)).map Prod.fst).Nodup :=
    ((hp.map Prod.fst).nodup_iff).mpr hnd
  have h3 : (l.mergeSort (fun a b => bytesLe a.1 b.1)).Pairwise (fun a b => a.1 ≠ b.1) :=
    List.pairwise_map.mp h2
  unfold Sorted
  refine (h1.and h3).imp ?_
  intro a b ⟨hle, hne⟩
  rcases (bytesLe_iff_lt_or_eq a.1 b.1).mp hle with h | h
  · exact h
  · exact absurd h hne

/-! ## The store view of a table -/

/-- `prefixStore P` of the encoded table `t.map F`: the entries whose key carries the prefix (`sel`),
keyed by the rest of the key, in key order. -/
theorem prefixStore_map {ι γ : Type} (P : Bytes) (t : List ι) (F : ι → Bytes × γ)
    (sel : ι → Bool) (rest : ι → Bytes)
    (h : ∀ p ∈ t, stripPrefix P (F p).1 = if sel p = true then some (rest p) else none) :
    prefixStore P (t.map F) =
      ((t.filter sel).map fun p => (rest p, (F p).2)).mergeSort (fun a b => bytesLe a.1 b.1) := by
  unfold prefixStore
  refine congrArg (fun l => List.mergeSort l _) ?_
  have hfun : (fun (x : Bytes × γ) => match x with | (k, v) => (stripPrefix P k).map fun r => (r, v))
      = fun x => (stripPrefix P x.1).map fun r => (r, x.2) := by
    funext x; obtain ⟨k, v⟩ := x; rfl
  rw [hfun]
  induction t with
  | nil => rfl
  | cons x xs ih =>
    have hx := h x (List.mem_cons_self ..)
    have ih' := ih (fun p hp => h p (List.mem_cons_of_mem _ hp))
    rw [List.map_cons, List.filterMap_cons, hx]
    cases hs : sel x with
    | true =>
      simp only [if_true, Option.map_some]
      rw [List.filter_cons_of_pos hs, List.map_cons, ← ih']
    | false =>
      simp only [Bool.false_eq_true, if_false, Option.map_none]
      rw [List.filter_cons_of_neg (by simp [hs]), ← ih']

theorem nodup_map_of_inj_on {ι κ : Type} (l : List ι) (f : ι → κ) (hnd : l.Nodup)
    (hinj : ∀ p ∈ l, ∀ q ∈ l, f p = f q → p = q) : (l.map f).Nodup := by
  induction l with
  | nil => exact List.nodup_nil
  | cons x xs ih =>
    rw [List.nodup_cons] at hnd
    rw [List.map_cons, List.nodup_cons]
    refine ⟨?_, ih hnd.2 (fun p hp q hq => hinj p (List.mem_cons_of_mem _ hp) q (List.mem_cons_of_mem _ hq))⟩
    intro hm
    obtain ⟨y, hy, e⟩ := List.mem_map.mp hm
    have := hinj y (List.mem_cons_of_mem _ hy) x (List.mem_cons_self ..) e
    rw [this] at hy
    exact hnd.1 hy

theorem nodup_filterMap_of_inj_on {ι β : Type} (l : List ι) (f : ι → Option β) (hnd : l.Nodup)
    (hinj : ∀ p ∈ l, ∀ q ∈ l, ∀ x, f p = some x → f q = some x → p = q) : (l.filterMap f).Nodup := by
  induction l with
  | nil => exact List.nodup_nil
  | cons x xs ih =>
    rw [List.nodup_cons] at hnd
    have ih' := ih hnd.2 (fun p hp q hq => hinj p (List.mem_cons_of_mem _ hp) q (List.mem_cons_of_mem _ hq))
    rw [List.filterMap_cons]
    cases hfx : f x with
    | none => exact ih'
    | some b =>
      simp only
      rw [List.nodup_cons]
      refine ⟨?_, ih'⟩
      intro hm
      obtain ⟨y, hy, e⟩ := List.mem_filterMap.mp hm
      have := hinj y (List.mem_cons_of_mem _ hy) x (List.mem_cons_self ..) b e hfx
      rw [this] at hy
      exact hnd.1 hy

/-- A table without duplicate keys has no duplicate entries. -/
theorem Tbl.nodup_entries {κ α : Type} [DecidableEq κ] {t : Tbl κ α} (h : Tbl.Nodup t) : List.Nodup t := by
  unfold Tbl.Nodup at h
  induction t with
  | nil => exact List.nodup_nil
  | cons x xs ih =>
    rw [List.map_cons, List.nodup_cons] at h
    rw [List.nodup_cons]
    exact ⟨fun hm => h.1 (List.mem_map.mpr ⟨x, hm, rfl⟩), ih h.2⟩

theorem Tbl.get_of_mem {κ α : Type} [DecidableEq κ] {t : Tbl κ α} (h : Tbl.Nodup t) {k : κ} {v : α}
    (hm : (k, v) ∈ t) : Tbl.get t k = some v := by
  unfold Tbl.Nodup at h
  induction t with
  | nil => cases hm
  | cons x xs ih =>
    obtain ⟨k', v'⟩ := x
    rw [List.map_cons, List.nodup_cons] at h
    rw [Tbl.get_cons]
    rcases List.mem_cons.mp hm with e | hm'
    · cases e; simp
    · have hne : k' ≠ k := by
        intro e; subst e
        exact h.1 (List.mem_map.mpr ⟨(k', v), hm', rfl⟩)
      simp only [hne, if_false]
      exact ih h.2 hm'

theorem Tbl.mem_of_get {κ α : Type} [DecidableEq κ] {t : Tbl κ α} {k : κ} {v : α}
    (hg : Tbl.get t k = some v) : (k, v) ∈ t := by
  induction t with
  | nil => cases hg
  | cons x xs ih =>
    obtain ⟨k', v'⟩ := x
    rw [Tbl.get_cons] at hg
    by_cases e : k' = k
    · simp only [e, if_true, Option.some.injEq] at hg
      subst e; subst hg; exact List.mem_cons_self ..
    · simp only [e, if_false] at hg
      exact List.mem_cons_of_mem _ (ih hg)

theorem Tbl.has_of_mem {κ α : Type} [DecidableEq κ] {t : Tbl κ α} {p : κ × α} (hm : p ∈ t) : Tbl.has t p.1 = true := by
  obtain ⟨v, hv⟩ := Tbl.get_of_mem_keys (List.mem_map.mpr ⟨p, hm, rfl⟩)
  exact (Tbl.has_iff t p.1).mpr ⟨v, hv⟩

theorem Tbl.mem_unit_of_has {κ : Type} [DecidableEq κ] {t : Tbl κ Unit} {k : κ} (h : Tbl.has t k = true) : (k, ()) ∈ t := by
  obtain ⟨v, hv⟩ := (Tbl.has_iff t k).mp h
  exact Tbl.mem_of_get hv

/-! ## Exact listings -/

/-- The records a complete listing yields: the callback's lookup `f` over the entries the filter
`pred` lets through, in store order.  (This is what the paging theorems of C13 page over.) -/
def listedOn {α β : Type} (pred : Bytes → α → Bool) (f : Bytes → α → Option β) (store : Store α) : List β :=
  (store.filter (uncurry pred)).filterMap (uncurry f)

/-- The unfiltered case (`Paginate` with an always-appending callback). -/
abbrev listed {α β : Type} (f : Bytes → α → Option β) (store : Store α) : List β :=
  listedOn (fun _ _ => true) f store

/-- **The store view `store`, filtered by `pred` and looked up by `f`, lists exactly the records with
`R`**: the view is strictly sorted with non-empty keys (a legal KV prefix store), no lookup of a
listed entry fails (the handler never takes its error branch), every record with `R` is listed, only
those are, and none twice. -/
structure ExactListing {α β : Type} (store : Store α) (pred : Bytes → α → Bool) (f : Bytes → α → Option β)
    (R : β → Prop) : Prop where
  sorted : Sorted store
  keysNonempty : KeysNonempty store
  total : ∀ p ∈ store, pred p.1 p.2 = true → ∃ b, f p.1 p.2 = some b
  mem : ∀ x, x ∈ listedOn pred f store ↔ R x
  nodup : (listedOn pred f store).Nodup

theorem listedOn_perm {α β : Type} (pred : Bytes → α → Bool) (f : Bytes → α → Option β) {s1 s2 : Store α}
    (h : s1.Perm s2) : (listedOn pred f s1).Perm (listedOn pred f s2) :=
  (h.filter _).filterMap _

theorem listedOn_map {ι α β : Type} (pred : Bytes → α → Bool) (f : Bytes → α → Option β) (l : List ι)
    (G : ι → Bytes × α) (predOf : ι → Bool) (recOf : ι → Option β)
    (hpred : ∀ p ∈ l, pred (G p).1 (G p).2 = predOf p)
    (hf : ∀ p ∈ l, predOf p = true → f (G p).1 (G p).2 = recOf p) :
    listedOn pred f (l.map G) = (l.filter predOf).filterMap recOf := by
  unfold listedOn
  induction l with
  | nil => rfl
  | cons x xs ih =>
    have ih' := ih (fun p hp => hpred p (List.mem_cons_of_mem _ hp)) (fun p hp => hf p (List.mem_cons_of_mem _ hp))
    have hx := hpred x (List.mem_cons_self ..)
    rw [List.map_cons]
    cases hq : predOf x with
    | true =>
      rw [List.filter_cons_of_pos (show uncurry pred (G x) = true by rw [← hq, ← hx]; rfl),
        List.filter_cons_of_pos hq, List.filterMap_cons, List.filterMap_cons, ih']
      have : uncurry f (G x) = recOf x := hf x (List.mem_cons_self ..) hq
      rw [this]
    | false =>
      rw [List.filter_cons_of_neg (show ¬ uncurry pred (G x) = true by
            rw [show uncurry pred (G x) = predOf x from hx, hq]; simp),
        List.filter_cons_of_neg (by simp [hq]), ih']

/-- A filter that agrees on the entries of the store gives the same listing. -/
theorem ExactListing.congr_pred {α β : Type} {store : Store α} {pred pred' : Bytes → α → Bool}
    {f : Bytes → α → Option β} {R : β → Prop} (h : ExactListing store pred f R)
    (he : ∀ p ∈ store, pred p.1 p.2 = pred' p.1 p.2) : ExactListing store pred' f R := by
  have hl : listedOn pred' f store = listedOn pred f store := by
    unfold listedOn
    congr 1
    apply List.filter_congr
    intro p hp
    exact (he p hp).symm
  refine ⟨h.sorted, h.keysNonempty, fun p hp hq => h.total p hp (by rw [he p hp]; exact hq), ?_, ?_⟩
  · intro x; rw [hl]; exact h.mem x
  · rw [hl]; exact h.nodup

/-- **Generic construction.**  `t` is a table (a list of entries), `F` its key/value encoding, `P` the
listing prefix.  `sel`/`rest` say what the prefix keeps (`hstrip`, from prefix isolation); the kept
keys are distinct and non-empty; `predOf`/`recOf` say what the callback's filter and lookup compute
on an entry.  Then the store view lists exactly the records `recOf p` of the selected, matching
entries. -/
theorem ExactListing.of_table {ι α β : Type} (P : Bytes) (t : List ι) (F : ι → Bytes × α)
    (sel : ι → Bool) (rest : ι → Bytes)
    (hstrip : ∀ p ∈ t, stripPrefix P (F p).1 = if sel p = true then some (rest p) else none)
    (hnd : t.Nodup)
    (hinj : ∀ p ∈ t, ∀ q ∈ t, sel p = true → sel q = true → rest p = rest q → p = q)
    (hne : ∀ p ∈ t, sel p = true → rest p ≠ [])
    (pred : Bytes → α → Bool) (f : Bytes → α → Option β) (predOf : ι → Bool) (recOf : ι → Option β)
    (hpred : ∀ p ∈ t, sel p = true → pred (rest p) (F p).2 = predOf p)
    (hf : ∀ p ∈ t, sel p = true → predOf p = true → f (rest p) (F p).2 = recOf p)
    (htot : ∀ p ∈ t, sel p = true → predOf p = true → ∃ b, recOf p = some b)
    (hrinj : ∀ p ∈ t, ∀ q ∈ t, sel p = true → sel q = true → predOf p = true → predOf q = true →
      ∀ x, recOf p = some x → recOf q = some x → p = q)
    (R : β → Prop) (hR : ∀ x, R x ↔ ∃ p ∈ t, sel p = true ∧ predOf p = true ∧ recOf p = some x) :
    ExactListing (prefixStore P (t.map F)) pred f R := by
  rw [prefixStore_map P t F sel rest hstrip]
  have hfs : ∀ p, p ∈ t.filter sel ↔ p ∈ t ∧ sel p = true := fun p => List.mem_filter
  have hes_nd : (((t.filter sel).map fun p => (rest p, (F p).2)).map Prod.fst).Nodup := by
    rw [List.map_map]
    apply nodup_map_of_inj_on _ _ (hnd.filter _)
    intro p hp q hq e
    exact hinj p ((hfs p).mp hp).1 q ((hfs q).mp hq).1 ((hfs p).mp hp).2 ((hfs q).mp hq).2 e
  have hperm := List.mergeSort_perm ((t.filter sel).map fun p => (rest p, (F p).2)) (fun a b => bytesLe a.1 b.1)
  have hmem : ∀ e, e ∈ ((t.filter sel).map fun p => (rest p, (F p).2)).mergeSort (fun a b => bytesLe a.1 b.1) →
      ∃ p ∈ t, sel p = true ∧ e = (rest p, (F p).2) := by
    intro e he
    obtain ⟨p, hp, e'⟩ := List.mem_map.mp (hperm.mem_iff.mp he)
    exact ⟨p, ((hfs p).mp hp).1, ((hfs p).mp hp).2, e'.symm⟩
  have hlist : (listedOn pred f (((t.filter sel).map fun p => (rest p, (F p).2)).mergeSort (fun a b => bytesLe a.1 b.1))).Perm
      (((t.filter sel).filter predOf).filterMap recOf) := by
    refine (listedOn_perm pred f hperm).trans ?_
    rw [listedOn_map pred f (t.filter sel) (fun p => (rest p, (F p).2)) predOf recOf
      (fun p hp => hpred p ((hfs p).mp hp).1 ((hfs p).mp hp).2)
      (fun p hp hq => hf p ((hfs p).mp hp).1 ((hfs p).mp hp).2 hq)]
  have hff : ∀ p, p ∈ (t.filter sel).filter predOf ↔ p ∈ t ∧ sel p = true ∧ predOf p = true := by
    intro p; rw [List.mem_filter, hfs]; exact and_assoc
  refine ⟨sorted_mergeSort_of_nodup _ hes_nd, ?_, ?_, ?_, ?_⟩
  · intro e he
    obtain ⟨p, hp, hs, rfl⟩ := hmem e he
    exact hne p hp hs
  · intro e he hq
    obtain ⟨p, hp, hs, rfl⟩ := hmem e he
    have hq' : predOf p = true := by rw [← hpred p hp hs]; exact hq
    obtain ⟨b, hb⟩ := htot p hp hs hq'
    exact ⟨b, by rw [← hb]; exact hf p hp hs hq'⟩
  · intro x
    rw [hlist.mem_iff, hR, List.mem_filterMap]
    constructor
    · rintro ⟨p, hp, hx⟩
      obtain ⟨h1, h2, h3⟩ := (hff p).mp hp
      exact ⟨p, h1, h2, h3, hx⟩
    · rintro ⟨p, h1, h2, h3, hx⟩
      exact ⟨p, (hff p).mpr ⟨h1, h2, h3⟩, hx⟩
  · rw [hlist.nodup_iff]
    apply nodup_filterMap_of_inj_on _ _ ((hnd.filter _).filter _)
    intro p hp q hq x hx hy
    obtain ⟨p1, p2, p3⟩ := (hff p).mp hp
    obtain ⟨q1, q2, q3⟩ := (hff q).mp hq
    exact hrinj p p1 q q1 p2 q2 p3 q3 x hx hy

/-! ## Id indices: `Tbl κ Unit` whose kept key ends in the 8-byte id, looked up by `byIndexId` -/

theorem byIndexId_u64be {β : Type} (get : Nat → Option β) (i : Nat) (h : i < B64) (v : Unit) :
    byIndexId get (u64be i) v = get i := by
  unfold byIndexId; rw [bigEndianToUint64_u64be i h]

theorem u64be_ne_nil (i : Nat) : u64be i ≠ [] := by
  intro h; have := congrArg List.length h; rw [u64be_length] at this; cases this

/-- An id index listed with the always-appending callback (`Paginate`): exactly the records
`get (idOf k)` of the selected index entries. -/
theorem ExactListing.of_idIndex_all {κ β : Type} [DecidableEq κ] (P : Bytes) (t : Tbl κ Unit) (F : κ × Unit → Bytes × Unit)
    (sel : κ → Bool) (idOf : κ → Nat) (hnd : Tbl.Nodup t)
    (hstrip : ∀ k, t.has k = true → stripPrefix P (F (k, ())).1 = if sel k = true then some (u64be (idOf k)) else none)
    (hid : ∀ k, t.has k = true → sel k = true → idOf k < B64)
    (hkinj : ∀ k k', t.has k = true → t.has k' = true → sel k = true → sel k' = true → idOf k = idOf k' → k = k')
    (get : Nat → Option β) (hginj : ∀ i j x, get i = some x → get j = some x → i = j)
    (htot : ∀ k, t.has k = true → sel k = true → ∃ x, get (idOf k) = some x)
    (R : β → Prop) (hR : ∀ x, R x ↔ ∃ k, t.has k = true ∧ sel k = true ∧ get (idOf k) = some x) :
    ExactListing (prefixStore P (t.map F)) (fun _ _ => true) (byIndexId get) R := by
  refine ExactListing.of_table P t F (fun p => sel p.1) (fun p => u64be (idOf p.1)) ?_ (Tbl.nodup_entries hnd) ?_ ?_
    _ _ (fun _ => true) (fun p => get (idOf p.1)) ?_ ?_ ?_ ?_ R ?_
  · intro p hp; exact hstrip p.1 (Tbl.has_of_mem hp)
  · intro p hp q hq sp sq e
    have := u64be_injective (hid p.1 (Tbl.has_of_mem hp) sp) (hid q.1 (Tbl.has_of_mem hq) sq) e
    exact Prod.ext (hkinj p.1 q.1 (Tbl.has_of_mem hp) (Tbl.has_of_mem hq) sp sq this) rfl
  · intro p _ _; exact u64be_ne_nil _
  · intro _ _ _; rfl
  · intro p hp sp _; exact byIndexId_u64be get _ (hid p.1 (Tbl.has_of_mem hp) sp) _
  · intro p hp sp _; exact htot p.1 (Tbl.has_of_mem hp) sp
  · intro p hp q hq sp sq _ _ x hx hy
    exact Prod.ext (hkinj p.1 q.1 (Tbl.has_of_mem hp) (Tbl.has_of_mem hq) sp sq (hginj _ _ x hx hy)) rfl
  · intro x
    rw [hR]
    constructor
    · rintro ⟨k, hk, sk, hx⟩
      exact ⟨(k, ()), Tbl.mem_unit_of_has hk, sk, rfl, hx⟩
    · rintro ⟨p, hp, sp, _, hx⟩
      exact ⟨p.1, Tbl.has_of_mem hp, sp, hx⟩

/-- An id index listed through `FilteredPaginate` with the `filter` callback whose test `q` is made
on the looked-up record (the status filter of `QueryPlansForProvider`). -/
theorem ExactListing.of_idIndex {κ β : Type} [DecidableEq κ] (P : Bytes) (t : Tbl κ Unit) (F : κ × Unit → Bytes × Unit)
    (sel : κ → Bool) (idOf : κ → Nat) (hnd : Tbl.Nodup t)
    (hstrip : ∀ k, t.has k = true → stripPrefix P (F (k, ())).1 = if sel k = true then some (u64be (idOf k)) else none)
    (hid : ∀ k, t.has k = true → sel k = true → idOf k < B64)
    (hkinj : ∀ k k', t.has k = true → t.has k' = true → sel k = true → sel k' = true → idOf k = idOf k' → k = k')
    (get : Nat → Option β) (hginj : ∀ i j x, get i = some x → get j = some x → i = j) (q : β → Bool)
    (R : β → Prop) (hR : ∀ x, R x ↔ ∃ k, t.has k = true ∧ sel k = true ∧ get (idOf k) = some x ∧ q x = true) :
    ExactListing (prefixStore P (t.map F))
      (fun k v => match byIndexId get k v with | some x => q x | none => false) (byIndexId get) R := by
  refine ExactListing.of_table P t F (fun p => sel p.1) (fun p => u64be (idOf p.1)) ?_ (Tbl.nodup_entries hnd) ?_ ?_
    _ _ (fun p => match get (idOf p.1) with | some x => q x | none => false) (fun p => get (idOf p.1)) ?_ ?_ ?_ ?_ R ?_
  · intro p hp; exact hstrip p.1 (Tbl.has_of_mem hp)
  · intro p hp q hq sp sq e
    have := u64be_injective (hid p.1 (Tbl.has_of_mem hp) sp) (hid q.1 (Tbl.has_of_mem hq) sq) e
    exact Prod.ext (hkinj p.1 q.1 (Tbl.has_of_mem hp) (Tbl.has_of_mem hq) sp sq this) rfl
  · intro p _ _; exact u64be_ne_nil _
  · intro p hp sp
    show (match byIndexId get (u64be (idOf p.1)) (F p).2 with | some x => q x | none => false) = _
    rw [byIndexId_u64be get _ (hid p.1 (Tbl.has_of_mem hp) sp)]
  · intro p hp sp _; exact byIndexId_u64be get _ (hid p.1 (Tbl.has_of_mem hp) sp) _
  · intro p hp sp hq
    cases hg : get (idOf p.1) with
    | none => simp only [hg] at hq; cases hq
    | some x => exact ⟨x, rfl⟩
  · intro p hp q' hq sp sq _ _ x hx hy
    exact Prod.ext (hkinj p.1 q'.1 (Tbl.has_of_mem hp) (Tbl.has_of_mem hq) sp sq (hginj _ _ x hx hy)) rfl
  · intro x
    rw [hR]
    constructor
    · rintro ⟨k, hk, sk, hx, hq⟩
      exact ⟨(k, ()), Tbl.mem_unit_of_has hk, sk, by simp only [hx]; exact hq, hx⟩
    · rintro ⟨p, hp, sp, hq, hx⟩
      simp only [hx] at hq
      exact ⟨p.1, Tbl.has_of_mem hp, sp, hx, hq⟩

/-! ## The paginators never report a callback error on an exact listing -/

/-- The total function behind a callback lookup that never fails on the store. -/
def valOf {α β : Type} [Inhabited β] (f : Bytes → α → Option β) : Bytes → α → β := fun k v => (f k v).getD default

theorem ExactListing.totalOn {α β : Type} [Inhabited β] {store : Store α} {pred : Bytes → α → Bool}
    {f : Bytes → α → Option β} {R : β → Prop} (h : ExactListing store pred f R) : TotalOn pred f (valOf f) store := by
  intro p hp hq
  obtain ⟨b, hb⟩ := h.total p hp hq
  unfold valOf; rw [hb]; rfl

theorem ExactListing.totalAll {α β : Type} [Inhabited β] {store : Store α}
    {f : Bytes → α → Option β} {R : β → Prop} (h : ExactListing store (fun _ _ => true) f R) : Total f (valOf f) store :=
  fun p hp => h.totalOn p hp rfl

/-- Under totality the listed records are the image of the matching entries. -/
theorem listedOn_eq_map {α β : Type} (pred : Bytes → α → Bool) (f : Bytes → α → Option β) (g : Bytes → α → β)
    (store : Store α) (h : TotalOn pred f g store) :
    listedOn pred f store = (store.filter (uncurry pred)).map (uncurry g) := by
  unfold listedOn
  induction store with
  | nil => rfl
  | cons x xs ih =>
    have ih' := ih h.tail
    cases hq : uncurry pred x with
    | true =>
      rw [List.filter_cons_of_pos hq, List.filterMap_cons, List.map_cons, ih']
      have : uncurry f x = some (uncurry g x) := h x (List.mem_cons_self ..) hq
      rw [this]
    | false =>
      rw [List.filter_cons_of_neg (by simp [hq]), ih']

theorem listedOn_reverse {α β : Type} (pred : Bytes → α → Bool) (f : Bytes → α → Option β) (store : Store α) :
    listedOn pred f store.reverse = (listedOn pred f store).reverse := by
  unfold listedOn
  rw [List.filter_reverse, List.filterMap_reverse]

theorem keyLoop_ok {α β : Type} (f : Bytes → α → Option β) (g : Bytes → α → β) (limit : Nat) :
    ∀ (it : Store α) (n : Nat) (acc : List β), Total f g it →
      ∃ r, keyLoop (Callback.appendAlways f) limit it n acc = .ok r := by
  intro it
  induction it with
  | nil => intro n acc _; exact ⟨_, rfl⟩
  | cons x rest ih =>
    intro n acc hf
    obtain ⟨k, v⟩ := x
    unfold keyLoop
    by_cases h : n = limit
    · rw [if_pos h]; exact ⟨_, rfl⟩
    · rw [if_neg h, appendAlways_ok (hf (k, v) (List.mem_cons_self ..))]
      exact ih _ _ hf.tail

theorem offLoop_ok {α β : Type} (f : Bytes → α → Option β) (g : Bytes → α → β) (offset end_ end1 : Nat) (ct : Bool) :
    ∀ (it : Store α) (c : Nat) (nk : Option Bytes) (acc : List β), Total f g it →
      ∃ r, offLoop (Callback.appendAlways f) offset end_ end1 ct it c nk acc = .ok r := by
  intro it
  induction it with
  | nil => intro c nk acc _; exact ⟨_, rfl⟩
  | cons x rest ih =>
    intro c nk acc hf
    obtain ⟨k, v⟩ := x
    unfold offLoop
    by_cases hA : c + 1 ≤ offset
    · rw [if_pos hA]; exact ih _ _ _ hf.tail
    · rw [if_neg hA]
      by_cases hB : c + 1 ≤ end_
      · rw [if_pos hB, appendAlways_ok (hf (k, v) (List.mem_cons_self ..))]
        exact ih _ _ _ hf.tail
      · rw [if_neg hB]
        by_cases hC : c + 1 = end1
        · rw [if_pos hC]
          cases ct with
          | true => rw [if_pos rfl]; exact ih _ _ _ hf.tail
          | false => exact ⟨_, rfl⟩
        · rw [if_neg hC]; exact ih _ _ _ hf.tail

theorem filter_cb_ok {α β : Type} {pred : Bytes → α → Bool} {f : Bytes → α → Option β} {g : Bytes → α → β}
    {k : Bytes} {v : α} (h : pred k v = true → f k v = some (g k v)) (acc : Bool) :
    ∃ hit xs, Callback.filter pred f k v acc = .ok (hit, xs) := by
  cases hp : pred k v with
  | true => exact ⟨_, _, filter_cb_hit hp (h hp) acc⟩
  | false => exact ⟨_, _, filter_cb_miss hp acc⟩

theorem fkeyLoop_ok {α β : Type} (pred : Bytes → α → Bool) (f : Bytes → α → Option β) (g : Bytes → α → β) (limit : Nat) :
    ∀ (it : Store α) (n : Nat) (acc : List β), TotalOn pred f g it →
      ∃ r, fkeyLoop (Callback.filter pred f) limit it n acc = .ok r := by
  intro it
  induction it with
  | nil => intro n acc _; exact ⟨_, rfl⟩
  | cons x rest ih =>
    intro n acc hf
    obtain ⟨k, v⟩ := x
    unfold fkeyLoop
    by_cases h : n = limit
    · rw [if_pos h]; exact ⟨_, rfl⟩
    · rw [if_neg h]
      obtain ⟨hit, xs, e⟩ := filter_cb_ok (g := g) (hf (k, v) (List.mem_cons_self ..)) true
      rw [e]
      exact ih _ _ hf.tail

theorem foffLoop_ok {α β : Type} (pred : Bytes → α → Bool) (f : Bytes → α → Option β) (g : Bytes → α → β)
    (offset end_ end1 : Nat) (ct : Bool) :
    ∀ (it : Store α) (n : Nat) (nk : Option Bytes) (acc : List β), TotalOn pred f g it →
      ∃ r, foffLoop (Callback.filter pred f) offset end_ end1 ct it n nk acc = .ok r := by
  intro it
  induction it with
  | nil => intro n nk acc _; exact ⟨_, rfl⟩
  | cons x rest ih =>
    intro n nk acc hf
    obtain ⟨k, v⟩ := x
    unfold foffLoop
    obtain ⟨hit, xs, e⟩ := filter_cb_ok (g := g) (hf (k, v) (List.mem_cons_self ..))
      (decide (offset ≤ n) && decide (n < end_))
    rw [e]
    simp only
    generalize (if hit = true then n + 1 else n) = m
    by_cases hm : m = end1
    · rw [if_pos hm]
      cases ct with
      | true => rw [if_pos rfl]; exact ih _ _ _ hf.tail
      | false => exact ⟨_, rfl⟩
    · rw [if_neg hm]; exact ih _ _ _ hf.tail

theorem iterFrom_mem {α : Type} {store it : Store α} {start : Option Bytes} {r : Bool}
    (h : iterFrom store start r = .ok it) : ∀ p ∈ it, p ∈ store := by
  unfold iterFrom at h
  intro p hp
  split at h
  · split at h
    · cases h; exact List.mem_reverse.mp hp
    · split at h
      · cases h; exact List.mem_reverse.mp hp
      · cases h
      · cases h
        exact (List.mem_filter.mp (List.mem_reverse.mp hp)).1
  · split at h
    · cases h; exact hp
    · cases h; exact (List.mem_filter.mp hp).1

/-- The two request errors `Paginate`/`FilteredPaginate` can still answer with: a request carrying
both an offset and a key (`InvalidArgument` in spirit), and the SDK's reverse-iterator panic when the
key is the greatest one.  Neither is the callback's "internal error". -/
def RequestError (e : String) : Prop :=
  e = "invalid request, either offset or key is expected, got both" ∨
  e = "panic: prefixIterator invalid, cannot call Key()"

theorem iterFrom_error {α : Type} {store : Store α} {start : Option Bytes} {r : Bool} {e : String}
    (h : iterFrom store start r = .error e) : RequestError e := by
  unfold iterFrom at h
  split at h
  · split at h
    · cases h
    · split at h
      · cases h
      · cases h; exact Or.inr rfl
      · cases h
  · split at h <;> cases h

/-- **No internal error** (`Paginate`): on a store where every lookup succeeds, any request is
answered, or refused for the request's own shape. -/
theorem paginate_no_callback_error {α β : Type} {store : Store α} {f : Bytes → α → Option β} {g : Bytes → α → β}
    (hT : Total f g store) (req : PageRequest) :
    (∃ r, paginate store req (Callback.appendAlways f) = .ok r) ∨
    (∃ e, paginate store req (Callback.appendAlways f) = .error e ∧ RequestError e) := by
  unfold paginate
  split
  · exact Or.inr ⟨_, rfl, Or.inl rfl⟩
  · split
    · cases hi : iterFrom store req.key req.reverse with
      | error e => exact Or.inr ⟨e, rfl, iterFrom_error hi⟩
      | ok it =>
        have hT' : Total f g it := fun p hp => hT p (iterFrom_mem hi p hp)
        exact Or.inl (keyLoop_ok f g _ it 0 [] hT')
    · cases hi : iterFrom store none req.reverse with
      | error e => exact Or.inr ⟨e, rfl, iterFrom_error hi⟩
      | ok it =>
        have hT' : Total f g it := fun p hp => hT p (iterFrom_mem hi p hp)
        exact Or.inl (offLoop_ok f g _ _ _ _ it 0 none [] hT')

/-- **No internal error** (`FilteredPaginate`, `filter` callback). -/
theorem filteredPaginate_no_callback_error {α β : Type} {store : Store α} {pred : Bytes → α → Bool}
    {f : Bytes → α → Option β} {g : Bytes → α → β} (hT : TotalOn pred f g store) (req : PageRequest) :
    (∃ r, filteredPaginate store req (Callback.filter pred f) = .ok r) ∨
    (∃ e, filteredPaginate store req (Callback.filter pred f) = .error e ∧ RequestError e) := by
  unfold filteredPaginate
  split
  · exact Or.inr ⟨_, rfl, Or.inl rfl⟩
  · split
    · cases hi : iterFrom store req.key req.reverse with
      | error e => exact Or.inr ⟨e, rfl, iterFrom_error hi⟩
      | ok it =>
        have hT' : TotalOn pred f g it := fun p hp => hT p (iterFrom_mem hi p hp)
        exact Or.inl (fkeyLoop_ok pred f g _ it 0 [] hT')
    · cases hi : iterFrom store none req.reverse with
      | error e => exact Or.inr ⟨e, rfl, iterFrom_error hi⟩
      | ok it =>
        have hT' : TotalOn pred f g it := fun p hp => hT p (iterFrom_mem hi p hp)
        exact Or.inl (foffLoop_ok pred f g _ _ _ _ it 0 none [] hT')

end Hub.Model.Listings
