import Hub.Model.Query
import Hub.Lemmas.Paginate
import Hub.Lemmas.Bytes
import Hub.Lemmas.Tbl
import Hub.Lemmas.AllInv
import Hub.Props.C17Keys
/-
Helper lemmas for C09 (listing half): from a model table to the KV *store view* a gRPC listing handler
iterates (`prefixStore`), and from there to the records the handler's callback appends.

* `stripPrefix_*`, `strip_of_iso`, `prefixStore_map`   what `prefix.NewStore(store, P)` keeps of a table
                                                     (`strip_of_iso` turns prefix isolation, C17, into it);
* `sorted_mergeSort_of_nodup`                          the view is strictly sorted when the kept keys are distinct;
* `StoreView`, `.of_table`, `.of_ownerIndex`           `store_entries`: the view as a list of entries;
* `ExactListing`                                       "the listing returns exactly the records with `R`";
* `ExactListing.of_table`, `.of_idIndex(_all)`, `.of_ownerIndex`, `.of_partition`, `.of_primary`
                                                     the generic constructions;
* `paginate_no_callback_error`, `paginate_ok_or_panic`, … the paginators never report a callback error on such a view;
* `withAddr_cases`, `parseQReq_id_lt`                  the request parser hands over well-formed filter arguments;
* `CountersOK`, `AddrsOK`, `addrsOK_of_reachable`      well-formed keys; stored addresses have 1..255 bytes in every
                                                     reachable state (invariant proof after `CountSteps.lean`).
-/
namespace Hub.Model.Listings
open Hub.SDK Hub.SDK.Paginate Hub.Model
open Hub.Generated (Status)
open Function (uncurry)

/-! ## `stripPrefix` -/

theorem stripPrefix_append (p r : Bytes) : stripPrefix p (p ++ r) = some r := by
  induction p with
  | nil => rfl
  | cons c cs ih => simp only [List.cons_append, stripPrefix, if_true]; exact ih

theorem stripPrefix_eq_some_iff (p k r : Bytes) : stripPrefix p k = some r ↔ k = p ++ r := by
  induction p generalizing k with
  | nil => simp only [stripPrefix, List.nil_append, Option.some.injEq]
  | cons c cs ih =>
    cases k with
    | nil => simp [stripPrefix]
    | cons d ds =>
      simp only [stripPrefix, List.cons_append, List.cons.injEq]
      by_cases h : c = d
      · simp only [h, if_true, true_and]; exact ih ds
      · simp only [h, if_false]
        constructor
        · intro e; cases e
        · intro e; exact absurd e.1.symm h

theorem stripPrefix_eq_none_iff (p k : Bytes) : stripPrefix p k = none ↔ List.isPrefixOf p k = false := by
  induction p generalizing k with
  | nil => simp [stripPrefix]
  | cons c cs ih =>
    cases k with
    | nil => simp [stripPrefix]
    | cons d ds =>
      simp only [stripPrefix, List.isPrefixOf]
      by_cases h : c = d
      · simp only [h, if_true, beq_self_eq_true, Bool.true_and]; exact ih ds
      · simp [h]

/-- What a listing prefix `P` keeps of a key `K`, from prefix isolation: the key is `P ++ rest` when it
belongs to the requested owner (`c`), and `P` is not a prefix of it otherwise. -/
theorem strip_of_iso {P K rest : Bytes} {c : Prop} [Decidable c] (hK : c → K = P ++ rest)
    (hiso : List.isPrefixOf P K = true ↔ c) :
    stripPrefix P K = if decide c = true then some rest else none := by
  by_cases h : c
  · rw [if_pos (decide_eq_true h), hK h, stripPrefix_append]
  · rw [if_neg (by simp [h]), stripPrefix_eq_none_iff]
    cases hb : List.isPrefixOf P K with
    | false => rfl
    | true => exact absurd (hiso.mp hb) h

/-! ## `bytesLe` is a total preorder; sorting distinct keys gives a strictly sorted store -/

theorem bytesLe_total (a b : Bytes) : (bytesLe a b || bytesLe b a) = true := by
  cases h : bytesLt b a with
  | true => rw [bytesLe_of_lt h, Bool.or_true]
  | false => rw [(bytesLe_iff a b).mpr h, Bool.true_or]

theorem bytesLe_trans {a b c : Bytes} (h1 : bytesLe a b = true) (h2 : bytesLe b c = true) : bytesLe a c = true := by
  rcases (bytesLe_iff_lt_or_eq a b).mp h1 with h1 | h1
  · rcases (bytesLe_iff_lt_or_eq b c).mp h2 with h2 | h2
    · exact bytesLe_of_lt (bytesLt_trans h1 h2)
    · rw [← h2]; exact bytesLe_of_lt h1
  · rw [h1]; exact h2

theorem sorted_mergeSort_of_nodup {α : Type} (l : List (Bytes × α)) (hnd : (l.map Prod.fst).Nodup) :
    Sorted (l.mergeSort (fun a b => bytesLe a.1 b.1)) := by
  have hp : (l.mergeSort (fun a b => bytesLe a.1 b.1)).Perm l := List.mergeSort_perm _ _
  have h1 : (l.mergeSort (fun a b => bytesLe a.1 b.1)).Pairwise (fun a b => bytesLe a.1 b.1 = true) :=
    List.pairwise_mergeSort (le := fun a b => bytesLe a.1 b.1) (fun a b c h1 h2 => bytesLe_trans (a := a.1) (b := b.1) (c := c.1) h1 h2)
      (fun a b => bytesLe_total a.1 b.1) l
  have h2 : ((l.mergeSort (fun a b => bytesLe a.1 b.1)).map Prod.fst).Nodup :=
    ((hp.map Prod.fst).nodup_iff).mpr hnd
  have h3 : (l.mergeSort (fun a b => bytesLe a.1 b.1)).Pairwise (fun a b => a.1 ≠ b.1) :=
    List.pairwise_map.mp h2
  unfold Sorted
  refine (h1.and h3).imp ?_
  intro a b ⟨hle, hne⟩
  rcases (bytesLe_iff_lt_or_eq a.1 b.1).mp hle with h | h
  · exact h
  · exact absurd h hne

/-! ## The store view of a table -/

/-- `prefixStore P` of the encoded table `t.map F`: the entries whose key carries the prefix (`sel`),
keyed by the rest of the key, in key order. -/
theorem prefixStore_map {ι γ : Type} (P : Bytes) (t : List ι) (F : ι → Bytes × γ)
    (sel : ι → Bool) (rest : ι → Bytes)
    (h : ∀ p ∈ t, stripPrefix P (F p).1 = if sel p = true then some (rest p) else none) :
    prefixStore P (t.map F) =
      ((t.filter sel).map fun p => (rest p, (F p).2)).mergeSort (fun a b => bytesLe a.1 b.1) := by
  unfold prefixStore
  refine congrArg (fun l => List.mergeSort l _) ?_
  have hfun : (fun (x : Bytes × γ) => match x with | (k, v) => (stripPrefix P k).map fun r => (r, v))
      = fun x => (stripPrefix P x.1).map fun r => (r, x.2) := by
    funext x; obtain ⟨k, v⟩ := x; rfl
  rw [hfun]
  induction t with
  | nil => rfl
  | cons x xs ih =>
    have hx := h x (List.mem_cons_self ..)
    have ih' := ih (fun p hp => h p (List.mem_cons_of_mem _ hp))
    rw [List.map_cons, List.filterMap_cons, hx]
    cases hs : sel x with
    | true =>
      simp only [if_true, Option.map_some]
      rw [List.filter_cons_of_pos hs, List.map_cons, ← ih']
    | false =>
      simp only [Bool.false_eq_true, if_false, Option.map_none]
      rw [List.filter_cons_of_neg (by simp [hs]), ← ih']

theorem nodup_map_of_inj_on {ι κ : Type} (l : List ι) (f : ι → κ) (hnd : l.Nodup)
    (hinj : ∀ p ∈ l, ∀ q ∈ l, f p = f q → p = q) : (l.map f).Nodup := by
  induction l with
  | nil => exact List.nodup_nil
  | cons x xs ih =>
    rw [List.nodup_cons] at hnd
    rw [List.map_cons, List.nodup_cons]
    refine ⟨?_, ih hnd.2 (fun p hp q hq => hinj p (List.mem_cons_of_mem _ hp) q (List.mem_cons_of_mem _ hq))⟩
    intro hm
    obtain ⟨y, hy, e⟩ := List.mem_map.mp hm
    have := hinj y (List.mem_cons_of_mem _ hy) x (List.mem_cons_self ..) e
    rw [this] at hy
    exact hnd.1 hy

theorem nodup_filterMap_of_inj_on {ι β : Type} (l : List ι) (f : ι → Option β) (hnd : l.Nodup)
    (hinj : ∀ p ∈ l, ∀ q ∈ l, ∀ x, f p = some x → f q = some x → p = q) : (l.filterMap f).Nodup := by
  induction l with
  | nil => exact List.nodup_nil
  | cons x xs ih =>
    rw [List.nodup_cons] at hnd
    have ih' := ih hnd.2 (fun p hp q hq => hinj p (List.mem_cons_of_mem _ hp) q (List.mem_cons_of_mem _ hq))
    rw [List.filterMap_cons]
    cases hfx : f x with
    | none => exact ih'
    | some b =>
      simp only
      rw [List.nodup_cons]
      refine ⟨?_, ih'⟩
      intro hm
      obtain ⟨y, hy, e⟩ := List.mem_filterMap.mp hm
      have := hinj y (List.mem_cons_of_mem _ hy) x (List.mem_cons_self ..) b e hfx
      rw [this] at hy
      exact hnd.1 hy

/-- A table without duplicate keys has no duplicate entries. -/
theorem tbl_nodup_entries {κ α : Type} [DecidableEq κ] {t : Tbl κ α} (h : Tbl.Nodup t) : List.Nodup t := by
  unfold Tbl.Nodup at h
  induction t with
  | nil => exact List.nodup_nil
  | cons x xs ih =>
    rw [List.map_cons, List.nodup_cons] at h
    rw [List.nodup_cons]
    exact ⟨fun hm => h.1 (List.mem_map.mpr ⟨x, hm, rfl⟩), ih h.2⟩

theorem tbl_get_of_mem {κ α : Type} [DecidableEq κ] {t : Tbl κ α} (h : Tbl.Nodup t) {k : κ} {v : α}
    (hm : (k, v) ∈ t) : Tbl.get t k = some v := by
  unfold Tbl.Nodup at h
  induction t with
  | nil => cases hm
  | cons x xs ih =>
    obtain ⟨k', v'⟩ := x
    rw [List.map_cons, List.nodup_cons] at h
    rw [Tbl.get_cons]
    rcases List.mem_cons.mp hm with e | hm'
    · cases e; simp
    · have hne : k' ≠ k := by
        intro e; subst e
        exact h.1 (List.mem_map.mpr ⟨(k', v), hm', rfl⟩)
      simp only [hne, if_false]
      exact ih h.2 hm'

theorem tbl_mem_of_get {κ α : Type} [DecidableEq κ] {t : Tbl κ α} {k : κ} {v : α}
    (hg : Tbl.get t k = some v) : (k, v) ∈ t := by
  induction t with
  | nil => cases hg
  | cons x xs ih =>
    obtain ⟨k', v'⟩ := x
    rw [Tbl.get_cons] at hg
    by_cases e : k' = k
    · simp only [e, if_true, Option.some.injEq] at hg
      subst e; subst hg; exact List.mem_cons_self ..
    · simp only [e, if_false] at hg
      exact List.mem_cons_of_mem _ (ih hg)

theorem tbl_has_of_mem {κ α : Type} [DecidableEq κ] {t : Tbl κ α} {p : κ × α} (hm : p ∈ t) : Tbl.has t p.1 = true := by
  obtain ⟨v, hv⟩ := Tbl.get_of_mem_keys (List.mem_map.mpr ⟨p, hm, rfl⟩)
  exact (Tbl.has_iff t p.1).mpr ⟨v, hv⟩

theorem tbl_mem_unit_of_has {κ : Type} [DecidableEq κ] {t : Tbl κ Unit} {k : κ} (h : Tbl.has t k = true) : (k, ()) ∈ t := by
  obtain ⟨v, hv⟩ := (Tbl.has_iff t k).mp h
  exact tbl_mem_of_get hv

/-! ## Exact listings -/

/-- The records a complete listing yields: the callback's lookup `f` over the entries the filter
`pred` lets through, in store order.  (This is what the paging theorems of C13 page over.) -/
def listedOn {α β : Type} (pred : Bytes → α → Bool) (f : Bytes → α → Option β) (store : Store α) : List β :=
  (store.filter (uncurry pred)).filterMap (uncurry f)

/-- The unfiltered case (`Paginate` with an always-appending callback). -/
abbrev listed {α β : Type} (f : Bytes → α → Option β) (store : Store α) : List β :=
  listedOn (fun _ _ => true) f store

/-- **The store view `store`, filtered by `pred` and looked up by `f`, lists exactly the records with
`R`**: the view is strictly sorted with non-empty keys (a legal KV prefix store), no lookup of a
listed entry fails (the handler never takes its error branch), every record with `R` is listed, only
those are, and none twice. -/
structure ExactListing {α β : Type} (store : Store α) (pred : Bytes → α → Bool) (f : Bytes → α → Option β)
    (R : β → Prop) : Prop where
  sorted : Sorted store
  keysNonempty : KeysNonempty store
  total : ∀ p ∈ store, pred p.1 p.2 = true → ∃ b, f p.1 p.2 = some b
  mem : ∀ x, x ∈ listedOn pred f store ↔ R x
  nodup : (listedOn pred f store).Nodup

theorem listedOn_perm {α β : Type} (pred : Bytes → α → Bool) (f : Bytes → α → Option β) {s1 s2 : Store α}
    (h : s1.Perm s2) : (listedOn pred f s1).Perm (listedOn pred f s2) :=
  (h.filter _).filterMap _

theorem listedOn_map {ι α β : Type} (pred : Bytes → α → Bool) (f : Bytes → α → Option β) (l : List ι)
    (G : ι → Bytes × α) (predOf : ι → Bool) (recOf : ι → Option β)
    (hpred : ∀ p ∈ l, pred (G p).1 (G p).2 = predOf p)
    (hf : ∀ p ∈ l, predOf p = true → f (G p).1 (G p).2 = recOf p) :
    listedOn pred f (l.map G) = (l.filter predOf).filterMap recOf := by
  unfold listedOn
  induction l with
  | nil => rfl
  | cons x xs ih =>
    have ih' := ih (fun p hp => hpred p (List.mem_cons_of_mem _ hp)) (fun p hp => hf p (List.mem_cons_of_mem _ hp))
    have hx := hpred x (List.mem_cons_self ..)
    rw [List.map_cons]
    cases hq : predOf x with
    | true =>
      rw [List.filter_cons_of_pos (show uncurry pred (G x) = true by rw [← hq, ← hx]; rfl),
        List.filter_cons_of_pos hq, List.filterMap_cons, List.filterMap_cons, ih']
      have : uncurry f (G x) = recOf x := hf x (List.mem_cons_self ..) hq
      rw [this]
    | false =>
      rw [List.filter_cons_of_neg (show ¬ uncurry pred (G x) = true by
            rw [show uncurry pred (G x) = predOf x from hx, hq]; simp),
        List.filter_cons_of_neg (by simp [hq]), ih']

/-- A filter that agrees on the entries of the store gives the same listing. -/
theorem ExactListing.congr_pred {α β : Type} {store : Store α} {pred pred' : Bytes → α → Bool}
    {f : Bytes → α → Option β} {R : β → Prop} (h : ExactListing store pred f R)
    (he : ∀ p ∈ store, pred p.1 p.2 = pred' p.1 p.2) : ExactListing store pred' f R := by
  have hl : listedOn pred' f store = listedOn pred f store := by
    unfold listedOn
    congr 1
    apply List.filter_congr
    intro p hp
    exact (he p hp).symm
  refine ⟨h.sorted, h.keysNonempty, fun p hp hq => h.total p hp (by rw [he p hp]; exact hq), ?_, ?_⟩
  · intro x; rw [hl]; exact h.mem x
  · rw [hl]; exact h.nodup

/-- **Generic construction.**  `t` is a table (a list of entries), `F` its key/value encoding, `P` the
listing prefix.  `sel`/`rest` say what the prefix keeps (`hstrip`, from prefix isolation); the kept
keys are distinct and non-empty; `predOf`/`recOf` say what the callback's filter and lookup compute
on an entry.  Then the store view lists exactly the records `recOf p` of the selected, matching
entries. -/
theorem ExactListing.of_table {ι α β : Type} (P : Bytes) (t : List ι) (F : ι → Bytes × α)
    (sel : ι → Bool) (rest : ι → Bytes)
    (hstrip : ∀ p ∈ t, stripPrefix P (F p).1 = if sel p = true then some (rest p) else none)
    (hnd : t.Nodup)
    (hinj : ∀ p ∈ t, ∀ q ∈ t, sel p = true → sel q = true → rest p = rest q → p = q)
    (hne : ∀ p ∈ t, sel p = true → rest p ≠ [])
    (pred : Bytes → α → Bool) (f : Bytes → α → Option β) (predOf : ι → Bool) (recOf : ι → Option β)
    (hpred : ∀ p ∈ t, sel p = true → pred (rest p) (F p).2 = predOf p)
    (hf : ∀ p ∈ t, sel p = true → predOf p = true → f (rest p) (F p).2 = recOf p)
    (htot : ∀ p ∈ t, sel p = true → predOf p = true → ∃ b, recOf p = some b)
    (hrinj : ∀ p ∈ t, ∀ q ∈ t, sel p = true → sel q = true → predOf p = true → predOf q = true →
      ∀ x, recOf p = some x → recOf q = some x → p = q)
    (R : β → Prop) (hR : ∀ x, R x ↔ ∃ p ∈ t, sel p = true ∧ predOf p = true ∧ recOf p = some x) :
    ExactListing (prefixStore P (t.map F)) pred f R := by
  rw [prefixStore_map P t F sel rest hstrip]
  have hfs : ∀ p, p ∈ t.filter sel ↔ p ∈ t ∧ sel p = true := fun p => List.mem_filter
  have hes_nd : (((t.filter sel).map fun p => (rest p, (F p).2)).map Prod.fst).Nodup := by
    rw [List.map_map]
    apply nodup_map_of_inj_on _ _ (hnd.filter _)
    intro p hp q hq e
    exact hinj p ((hfs p).mp hp).1 q ((hfs q).mp hq).1 ((hfs p).mp hp).2 ((hfs q).mp hq).2 e
  have hperm := List.mergeSort_perm ((t.filter sel).map fun p => (rest p, (F p).2)) (fun a b => bytesLe a.1 b.1)
  have hmem : ∀ e, e ∈ ((t.filter sel).map fun p => (rest p, (F p).2)).mergeSort (fun a b => bytesLe a.1 b.1) →
      ∃ p ∈ t, sel p = true ∧ e = (rest p, (F p).2) := by
    intro e he
    obtain ⟨p, hp, e'⟩ := List.mem_map.mp (hperm.mem_iff.mp he)
    exact ⟨p, ((hfs p).mp hp).1, ((hfs p).mp hp).2, e'.symm⟩
  have hlist : (listedOn pred f (((t.filter sel).map fun p => (rest p, (F p).2)).mergeSort (fun a b => bytesLe a.1 b.1))).Perm
      (((t.filter sel).filter predOf).filterMap recOf) := by
    refine (listedOn_perm pred f hperm).trans ?_
    rw [listedOn_map pred f (t.filter sel) (fun p => (rest p, (F p).2)) predOf recOf
      (fun p hp => hpred p ((hfs p).mp hp).1 ((hfs p).mp hp).2)
      (fun p hp hq => hf p ((hfs p).mp hp).1 ((hfs p).mp hp).2 hq)]
  have hff : ∀ p, p ∈ (t.filter sel).filter predOf ↔ p ∈ t ∧ sel p = true ∧ predOf p = true := by
    intro p; rw [List.mem_filter, hfs]; exact and_assoc
  refine ⟨sorted_mergeSort_of_nodup _ hes_nd, ?_, ?_, ?_, ?_⟩
  · intro e he
    obtain ⟨p, hp, hs, rfl⟩ := hmem e he
    exact hne p hp hs
  · intro e he hq
    obtain ⟨p, hp, hs, rfl⟩ := hmem e he
    have hq' : predOf p = true := by rw [← hpred p hp hs]; exact hq
    obtain ⟨b, hb⟩ := htot p hp hs hq'
    exact ⟨b, by rw [← hb]; exact hf p hp hs hq'⟩
  · intro x
    rw [hlist.mem_iff, hR, List.mem_filterMap]
    constructor
    · rintro ⟨p, hp, hx⟩
      obtain ⟨h1, h2, h3⟩ := (hff p).mp hp
      exact ⟨p, h1, h2, h3, hx⟩
    · rintro ⟨p, h1, h2, h3, hx⟩
      exact ⟨p, (hff p).mpr ⟨h1, h2, h3⟩, hx⟩
  · rw [hlist.nodup_iff]
    apply nodup_filterMap_of_inj_on _ _ ((hnd.filter _).filter _)
    intro p hp q hq x hx hy
    obtain ⟨p1, p2, p3⟩ := (hff p).mp hp
    obtain ⟨q1, q2, q3⟩ := (hff q).mp hq
    exact hrinj p p1 q q1 p2 q2 p3 q3 x hx hy

/-! ## The store view as a list of entries (`store_entries`) -/

/-- `store` is the arrangement in strict key order of the entries `es` (which have distinct keys):
the same entries, none missing, none extra, none twice. -/
structure StoreView {α : Type} (store : Store α) (es : List (Bytes × α)) : Prop where
  sorted : Sorted store
  perm : store.Perm es
  nodupKeys : (es.map Prod.fst).Nodup

theorem StoreView.mem_iff {α : Type} {store : Store α} {es : List (Bytes × α)} (h : StoreView store es) (e : Bytes × α) :
    e ∈ store ↔ e ∈ es := h.perm.mem_iff

theorem StoreView.length_eq {α : Type} {store : Store α} {es : List (Bytes × α)} (h : StoreView store es) :
    store.length = es.length := h.perm.length_eq

/-- A strictly sorted arrangement of the same entries is the store view itself. -/
theorem StoreView.eq_of_sorted {α : Type} {store l : Store α} {es : List (Bytes × α)} (h : StoreView store es)
    (hl : Sorted l) (hp : l.Perm es) : store = l := by
  have hs : List.Pairwise (fun (a b : Bytes × α) => bytesLt a.1 b.1 = true) store := h.sorted
  have hl' : List.Pairwise (fun (a b : Bytes × α) => bytesLt a.1 b.1 = true) l := hl
  refine List.Perm.eq_of_pairwise ?_ hs hl' (h.perm.trans hp.symm)
  intro a b _ _ h1 h2
  rw [bytesLt_asymm h1] at h2; cases h2

/-- The store view of a table under a listing prefix: the selected entries, keyed by the rest. -/
theorem StoreView.of_table {ι α : Type} (P : Bytes) (t : List ι) (F : ι → Bytes × α)
    (sel : ι → Bool) (rest : ι → Bytes)
    (hstrip : ∀ p ∈ t, stripPrefix P (F p).1 = if sel p = true then some (rest p) else none)
    (hnd : t.Nodup)
    (hinj : ∀ p ∈ t, ∀ q ∈ t, sel p = true → sel q = true → rest p = rest q → p = q) :
    StoreView (prefixStore P (t.map F)) ((t.filter sel).map fun p => (rest p, (F p).2)) := by
  rw [prefixStore_map P t F sel rest hstrip]
  have hfs : ∀ p, p ∈ t.filter sel ↔ p ∈ t ∧ sel p = true := fun p => List.mem_filter
  have hes_nd : (((t.filter sel).map fun p => (rest p, (F p).2)).map Prod.fst).Nodup := by
    rw [List.map_map]
    apply nodup_map_of_inj_on _ _ (hnd.filter _)
    intro p hp q hq e
    exact hinj p ((hfs p).mp hp).1 q ((hfs q).mp hq).1 ((hfs p).mp hp).2 ((hfs q).mp hq).2 e
  exact ⟨sorted_mergeSort_of_nodup _ hes_nd, List.mergeSort_perm _ _, hes_nd⟩

/-- **`store_entries` for an owner/id index**: the store view under `pfx a` holds exactly the index
entries of owner `a`, each once, keyed by the 8-byte id, in ascending key (= id) order — whatever other
owners the table holds, also owners whose bytes extend or are extended by `a`'s. -/
theorem StoreView.of_ownerIndex {κ ω : Type} [DecidableEq κ] [DecidableEq ω] (OK : ω → Prop)
    (t : Tbl κ Unit) (hnd : Tbl.Nodup t) (mk : ω → Nat → κ) (ownerOf : κ → ω) (idOf : κ → Nat)
    (hmk : ∀ k, mk (ownerOf k) (idOf k) = k)
    (pfx : ω → Bytes) (F : κ × Unit → Bytes × Unit)
    (hkey : ∀ k, (F (k, ())).1 = pfx (ownerOf k) ++ u64be (idOf k))
    (hiso : ∀ a k, OK a → OK (ownerOf k) → idOf k < B64 → (List.isPrefixOf (pfx a) (F (k, ())).1 = true ↔ a = ownerOf k))
    (hOK : ∀ k, t.has k = true → OK (ownerOf k) ∧ idOf k < B64)
    (a : ω) (ha : OK a) :
    StoreView (prefixStore (pfx a) (t.map F))
      ((t.filter fun p => decide (ownerOf p.1 = a)).map fun p => (u64be (idOf p.1), ())) := by
  refine StoreView.of_table (pfx a) t F (fun p => decide (ownerOf p.1 = a)) (fun p => u64be (idOf p.1)) ?_
    (tbl_nodup_entries hnd) ?_
  · intro p hp
    obtain ⟨ho, hi⟩ := hOK p.1 (tbl_has_of_mem hp)
    refine strip_of_iso (fun e => by rw [hkey p.1, e]) ?_
    rw [hiso a p.1 ha ho hi]
    exact ⟨Eq.symm, Eq.symm⟩
  · intro p hp q hq sp sq e
    have e1 := u64be_injective (hOK p.1 (tbl_has_of_mem hp)).2 (hOK q.1 (tbl_has_of_mem hq)).2 e
    have h1 := hmk p.1
    have h2 := hmk q.1
    rw [of_decide_eq_true sp] at h1
    rw [of_decide_eq_true sq, ← e1] at h2
    exact Prod.ext (h1.symm.trans h2) rfl

/-- In an id-keyed view, key order is id order. -/
theorem sorted_u64be_iff {i j : Nat} (hi : i < B64) (hj : j < B64) : bytesLt (u64be i) (u64be j) = true ↔ i < j :=
  bytesLt_u64be hi hj

/-! ## Id indices: `Tbl κ Unit` whose kept key ends in the 8-byte id, looked up by `byIndexId` -/

theorem byIndexId_u64be {β : Type} (get : Nat → Option β) (i : Nat) (h : i < B64) (v : Unit) :
    byIndexId get (u64be i) v = get i := by
  unfold byIndexId; rw [bigEndianToUint64_u64be i h]

theorem u64be_ne_nil (i : Nat) : u64be i ≠ [] := by
  intro h; have := congrArg List.length h; rw [u64be_length] at this; cases this

/-- An id index listed with the always-appending callback (`Paginate`): exactly the records
`get (idOf k)` of the selected index entries. -/
theorem ExactListing.of_idIndex_all {κ β : Type} [DecidableEq κ] (P : Bytes) (t : Tbl κ Unit) (F : κ × Unit → Bytes × Unit)
    (sel : κ → Bool) (idOf : κ → Nat) (hnd : Tbl.Nodup t)
    (hstrip : ∀ k, t.has k = true → stripPrefix P (F (k, ())).1 = if sel k = true then some (u64be (idOf k)) else none)
    (hid : ∀ k, t.has k = true → sel k = true → idOf k < B64)
    (hkinj : ∀ k k', t.has k = true → t.has k' = true → sel k = true → sel k' = true → idOf k = idOf k' → k = k')
    (get : Nat → Option β) (hginj : ∀ i j x, get i = some x → get j = some x → i = j)
    (htot : ∀ k, t.has k = true → sel k = true → ∃ x, get (idOf k) = some x)
    (R : β → Prop) (hR : ∀ x, R x ↔ ∃ k, t.has k = true ∧ sel k = true ∧ get (idOf k) = some x) :
    ExactListing (prefixStore P (t.map F)) (fun _ _ => true) (byIndexId get) R := by
  refine ExactListing.of_table P t F (fun p => sel p.1) (fun p => u64be (idOf p.1)) ?_ (tbl_nodup_entries hnd) ?_ ?_
    _ _ (fun _ => true) (fun p => get (idOf p.1)) ?_ ?_ ?_ ?_ R ?_
  · intro p hp; exact hstrip p.1 (tbl_has_of_mem hp)
  · intro p hp q hq sp sq e
    have := u64be_injective (hid p.1 (tbl_has_of_mem hp) sp) (hid q.1 (tbl_has_of_mem hq) sq) e
    exact Prod.ext (hkinj p.1 q.1 (tbl_has_of_mem hp) (tbl_has_of_mem hq) sp sq this) rfl
  · intro p _ _; exact u64be_ne_nil _
  · intro _ _ _; rfl
  · intro p hp sp _; exact byIndexId_u64be get _ (hid p.1 (tbl_has_of_mem hp) sp) _
  · intro p hp sp _; exact htot p.1 (tbl_has_of_mem hp) sp
  · intro p hp q hq sp sq _ _ x hx hy
    exact Prod.ext (hkinj p.1 q.1 (tbl_has_of_mem hp) (tbl_has_of_mem hq) sp sq (hginj _ _ x hx hy)) rfl
  · intro x
    rw [hR]
    constructor
    · rintro ⟨k, hk, sk, hx⟩
      exact ⟨(k, ()), tbl_mem_unit_of_has hk, sk, rfl, hx⟩
    · rintro ⟨p, hp, sp, _, hx⟩
      exact ⟨p.1, tbl_has_of_mem hp, sp, hx⟩

/-- An id index listed through `FilteredPaginate` with the `filter` callback whose test `q` is made
on the looked-up record (the status filter of `QueryPlansForProvider`). -/
theorem ExactListing.of_idIndex {κ β : Type} [DecidableEq κ] (P : Bytes) (t : Tbl κ Unit) (F : κ × Unit → Bytes × Unit)
    (sel : κ → Bool) (idOf : κ → Nat) (hnd : Tbl.Nodup t)
    (hstrip : ∀ k, t.has k = true → stripPrefix P (F (k, ())).1 = if sel k = true then some (u64be (idOf k)) else none)
    (hid : ∀ k, t.has k = true → sel k = true → idOf k < B64)
    (hkinj : ∀ k k', t.has k = true → t.has k' = true → sel k = true → sel k' = true → idOf k = idOf k' → k = k')
    (get : Nat → Option β) (hginj : ∀ i j x, get i = some x → get j = some x → i = j) (q : β → Bool)
    (pred : Bytes → Unit → Bool)
    (hp1 : ∀ k v x, byIndexId get k v = some x → pred k v = q x)
    (hp2 : ∀ k v, byIndexId get k v = none → pred k v = false)
    (R : β → Prop) (hR : ∀ x, R x ↔ ∃ k, t.has k = true ∧ sel k = true ∧ get (idOf k) = some x ∧ q x = true) :
    ExactListing (prefixStore P (t.map F)) pred (byIndexId get) R := by
  refine ExactListing.of_table P t F (fun p => sel p.1) (fun p => u64be (idOf p.1)) ?_ (tbl_nodup_entries hnd) ?_ ?_
    _ _ (fun p => match get (idOf p.1) with | some x => q x | none => false) (fun p => get (idOf p.1)) ?_ ?_ ?_ ?_ R ?_
  · intro p hp; exact hstrip p.1 (tbl_has_of_mem hp)
  · intro p hp q hq sp sq e
    have := u64be_injective (hid p.1 (tbl_has_of_mem hp) sp) (hid q.1 (tbl_has_of_mem hq) sq) e
    exact Prod.ext (hkinj p.1 q.1 (tbl_has_of_mem hp) (tbl_has_of_mem hq) sp sq this) rfl
  · intro p _ _; exact u64be_ne_nil _
  · intro p hp sp
    have hb := byIndexId_u64be get _ (hid p.1 (tbl_has_of_mem hp) sp) (F p).2
    cases hg : get (idOf p.1) with
    | none => rw [hg] at hb; exact hp2 _ _ hb
    | some x => rw [hg] at hb; exact hp1 _ _ x hb
  · intro p hp sp _; exact byIndexId_u64be get _ (hid p.1 (tbl_has_of_mem hp) sp) _
  · intro p hp sp hq
    cases hg : get (idOf p.1) with
    | none => simp only [hg] at hq; cases hq
    | some x => exact ⟨x, rfl⟩
  · intro p hp q' hq sp sq _ _ x hx hy
    exact Prod.ext (hkinj p.1 q'.1 (tbl_has_of_mem hp) (tbl_has_of_mem hq) sp sq (hginj _ _ x hx hy)) rfl
  · intro x
    rw [hR]
    constructor
    · rintro ⟨k, hk, sk, hx, hq⟩
      exact ⟨(k, ()), tbl_mem_unit_of_has hk, sk, by simp only [hx]; exact hq, hx⟩
    · rintro ⟨p, hp, sp, hq, hx⟩
      simp only [hx] at hq
      exact ⟨p.1, tbl_has_of_mem hp, sp, hx, hq⟩

/-- **Owner/id indices** (`…ForAccount`, `…ForNode`, `…ForPlan`, `…ForSubscription`, `…ForAllocation`):
keys are (owner, id) pairs (`mk`/`ownerOf`/`idOf`), encoded as `pfx owner ++ u64be id`; `hiso` is the
prefix isolation of C17 for well-formed owners (`OK`).  Listing under `pfx a` with the `byIndexId`
lookup yields exactly the records `get i` whose index key `mk a i` is present — by the index
invariant `hidx`, the records with attribute `A`. -/
theorem ExactListing.of_ownerIndex {κ ω β : Type} [DecidableEq κ] [DecidableEq ω] (OK : ω → Prop)
    (t : Tbl κ Unit) (hnd : Tbl.Nodup t) (mk : ω → Nat → κ) (ownerOf : κ → ω) (idOf : κ → Nat)
    (hmk : ∀ k, mk (ownerOf k) (idOf k) = k) (hown : ∀ a i, ownerOf (mk a i) = a) (hidm : ∀ a i, idOf (mk a i) = i)
    (pfx : ω → Bytes) (F : κ × Unit → Bytes × Unit)
    (hkey : ∀ k, (F (k, ())).1 = pfx (ownerOf k) ++ u64be (idOf k))
    (hiso : ∀ a k, OK a → OK (ownerOf k) → idOf k < B64 → (List.isPrefixOf (pfx a) (F (k, ())).1 = true ↔ a = ownerOf k))
    (hOK : ∀ k, t.has k = true → OK (ownerOf k) ∧ idOf k < B64)
    (get : Nat → Option β) (hginj : ∀ i j x, get i = some x → get j = some x → i = j)
    (a : ω) (ha : OK a) (A : Nat → β → Prop)
    (hidx : ∀ i, t.has (mk a i) = true ↔ ∃ x, get i = some x ∧ A i x) :
    ExactListing (prefixStore (pfx a) (t.map F)) (fun _ _ => true) (byIndexId get)
      (fun x => ∃ i, get i = some x ∧ A i x) := by
  have hsel : ∀ k, decide (ownerOf k = a) = true → k = mk a (idOf k) := by
    intro k hk
    have := hmk k
    rw [of_decide_eq_true hk] at this
    exact this.symm
  refine ExactListing.of_idIndex_all (pfx a) t F (fun k => decide (ownerOf k = a)) idOf hnd ?_ ?_ ?_ get hginj ?_ _ ?_
  · intro k hk
    obtain ⟨ho, hi⟩ := hOK k hk
    refine strip_of_iso (fun e => by rw [hkey k, e]) ?_
    rw [hiso a k ha ho hi]
    exact ⟨Eq.symm, Eq.symm⟩
  · intro k hk _; exact (hOK k hk).2
  · intro k k' _ _ sk sk' e
    rw [hsel k sk, hsel k' sk', e]
  · intro k hk sk
    rw [hsel k sk] at hk
    obtain ⟨x, hx, _⟩ := (hidx _).mp hk
    exact ⟨x, hx⟩
  · intro x
    constructor
    · rintro ⟨i, hx, hA⟩
      refine ⟨mk a i, (hidx i).mpr ⟨x, hx, hA⟩, decide_eq_true (hown a i), ?_⟩
      rw [hidm a i]; exact hx
    · rintro ⟨k, hk, sk, hx⟩
      rw [hsel k sk] at hk
      obtain ⟨y, hy, hA⟩ := (hidx _).mp hk
      rw [hx] at hy; cases hy
      exact ⟨idOf k, hx, hA⟩

/-! ## Status-partitioned tables (`providers`, `nodes`, `plans`) -/

theorem ExactListing.congr_R {α β : Type} {store : Store α} {pred : Bytes → α → Bool}
    {f : Bytes → α → Option β} {R R' : β → Prop} (h : ExactListing store pred f R) (he : ∀ x, R x ↔ R' x) :
    ExactListing store pred f R' :=
  ⟨h.sorted, h.keysNonempty, h.total, fun x => (h.mem x).trans (he x), h.nodup⟩

theorem stripPrefix_append_left (W p k : Bytes) : stripPrefix (W ++ p) (W ++ k) = stripPrefix p k := by
  induction W with
  | nil => rfl
  | cons c cs ih => simp only [List.cons_append, stripPrefix, if_true]; exact ih

/-- The partition byte: `0x01` active, `0x02` inactive. -/
def partByte (b : Bool) : UInt8 := bif b then 1 else 2

/-- What the status selection of `QueryProviders`/`QueryNodes`/`QueryPlans` keeps: status 1 the active
partition, 3 the inactive one, anything else both (then the partition byte stays in the key). -/
theorem statusPrefix_spec (status : Int) (W : Bytes) :
    ∃ (selB : Bool → Bool) (tag : Bool → Bytes),
      (∀ b r, stripPrefix (statusPrefix status (W ++ [1]) (W ++ [2]) W) ((W ++ [partByte b]) ++ r)
          = if selB b = true then some (tag b ++ r) else none) ∧
      (∀ b b' r r', selB b = true → selB b' = true → tag b ++ r = tag b' ++ r' → b = b' ∧ r = r') ∧
      (∀ b r, selB b = true → r ≠ [] → tag b ++ r ≠ []) ∧
      (selB true = true ↔ status ≠ 3) ∧ (selB false = true ↔ status ≠ 1) := by
  unfold statusPrefix
  by_cases h1 : status = 1
  · refine ⟨fun b => b, fun _ => [], ?_, ?_, ?_, ?_, ?_⟩
    · intro b r
      rw [if_pos h1, List.append_assoc, stripPrefix_append_left]
      cases b <;> simp [partByte, stripPrefix]
    · intro b b' r r' hb hb' e
      simp only at hb hb'
      subst hb; subst hb'
      exact ⟨rfl, e⟩
    · intro b r _ hr; exact hr
    · subst h1; simp
    · subst h1; simp
  · by_cases h3 : status = 3
    · refine ⟨fun b => !b, fun _ => [], ?_, ?_, ?_, ?_, ?_⟩
      · intro b r
        rw [if_neg h1, if_pos h3, List.append_assoc, stripPrefix_append_left]
        cases b <;> simp [partByte, stripPrefix]
      · intro b b' r r' hb hb' e
        cases b <;> cases b' <;> simp at hb hb'
        exact ⟨rfl, e⟩
      · intro b r _ hr; exact hr
      · subst h3; simp
      · subst h3; simp
    · refine ⟨fun _ => true, fun b => [partByte b], ?_, ?_, ?_, ?_, ?_⟩
      · intro b r
        rw [if_neg h1, if_neg h3, List.append_assoc, stripPrefix_append]
        rfl
      · intro b b' r r' _ _ e
        simp only [List.cons_append, List.nil_append, List.cons.injEq] at e
        refine ⟨?_, e.2⟩
        cases b <;> cases b' <;> simp [partByte] at e ⊢
      · intro b r _ _; simp
      · simp [h3]
      · simp [h1]

/-- **A status-partitioned table** (active records under `W ++ [1]`, inactive under `W ++ [2]`, key
`enc k` behind), listed under the status selection with the value-decoding callback: status `1` lists
the active partition, `3` the inactive one, any other value both — every record once. -/
theorem ExactListing.of_partition {κ α : Type} [DecidableEq κ] (tA tI : Tbl κ α) (hA : Tbl.Nodup tA) (hI : Tbl.Nodup tI)
    (hX : ∀ k, ¬ (tA.has k = true ∧ tI.has k = true))
    (W : Bytes) (enc : κ → Bytes)
    (henc : ∀ k k', (tA.has k = true ∨ tI.has k = true) → (tA.has k' = true ∨ tI.has k' = true) → enc k = enc k' → k = k')
    (hne : ∀ k, (tA.has k = true ∨ tI.has k = true) → enc k ≠ [])
    (FA FI : κ × α → Bytes × α)
    (hFA : ∀ p, FA p = ((W ++ [1]) ++ enc p.1, p.2)) (hFI : ∀ p, FI p = ((W ++ [2]) ++ enc p.1, p.2))
    (keyOf : α → κ) (hkA : ∀ k v, tA.get k = some v → keyOf v = k) (hkI : ∀ k v, tI.get k = some v → keyOf v = k)
    (status : Int) :
    ExactListing (prefixStore (statusPrefix status (W ++ [1]) (W ++ [2]) W) (tA.map FA ++ tI.map FI))
      (fun _ _ => true) (fun _ v => some v)
      (fun x => (status ≠ 3 ∧ ∃ k, tA.get k = some x) ∨ (status ≠ 1 ∧ ∃ k, tI.get k = some x)) := by
  obtain ⟨selB, tag, hs1, hs2, hs3, hsA, hsI⟩ := statusPrefix_spec status W
  -- the two partitions as one tagged table
  let t : List (Bool × (κ × α)) := tA.map (fun p => (true, p)) ++ tI.map (fun p => (false, p))
  let F : Bool × (κ × α) → Bytes × α := fun q => ((W ++ [partByte q.1]) ++ enc q.2.1, q.2.2)
  have htF : tA.map FA ++ tI.map FI = t.map F := by
    show _ = List.map F (tA.map (fun p => (true, p)) ++ tI.map (fun p => (false, p)))
    rw [List.map_append, List.map_map, List.map_map]
    congr 1
    · apply List.map_congr_left; intro p _; rw [hFA p]; rfl
    · apply List.map_congr_left; intro p _; rw [hFI p]; rfl
  have hmem : ∀ q, q ∈ t ↔ (q.1 = true ∧ q.2 ∈ tA) ∨ (q.1 = false ∧ q.2 ∈ tI) := by
    rintro ⟨b, p⟩
    show (b, p) ∈ tA.map (fun p => (true, p)) ++ tI.map (fun p => (false, p)) ↔ _
    rw [List.mem_append, List.mem_map, List.mem_map]
    constructor
    · rintro (⟨p', hp', e⟩ | ⟨p', hp', e⟩)
      · cases e; exact Or.inl ⟨rfl, hp'⟩
      · cases e; exact Or.inr ⟨rfl, hp'⟩
    · rintro (⟨e, hp⟩ | ⟨e, hp⟩)
      · simp only at e hp; subst e; exact Or.inl ⟨p, hp, rfl⟩
      · simp only at e hp; subst e; exact Or.inr ⟨p, hp, rfl⟩
  have hin : ∀ q ∈ t, tA.has q.2.1 = true ∨ tI.has q.2.1 = true := by
    intro q hq
    rcases (hmem q).mp hq with ⟨_, h⟩ | ⟨_, h⟩
    · exact Or.inl (tbl_has_of_mem h)
    · exact Or.inr (tbl_has_of_mem h)
  have hget : ∀ q ∈ t, (q.1 = true ∧ tA.get q.2.1 = some q.2.2) ∨ (q.1 = false ∧ tI.get q.2.1 = some q.2.2) := by
    intro q hq
    rcases (hmem q).mp hq with ⟨e, h⟩ | ⟨e, h⟩
    · exact Or.inl ⟨e, tbl_get_of_mem hA h⟩
    · exact Or.inr ⟨e, tbl_get_of_mem hI h⟩
  -- two entries with the same flag and key are the same entry
  have hsame : ∀ q ∈ t, ∀ q' ∈ t, q.1 = q'.1 → q.2.1 = q'.2.1 → q = q' := by
    rintro ⟨b, k, v⟩ hq ⟨b', k', v'⟩ hq' e1 e2
    simp only at e1 e2; subst e1; subst e2
    rcases hget _ hq with ⟨e, g⟩ | ⟨e, g⟩ <;> rcases hget _ hq' with ⟨e', g'⟩ | ⟨e', g'⟩ <;>
      simp only at e e' g g'
    · rw [g] at g'; cases g'; rfl
    · rw [e] at e'; cases e'
    · rw [e] at e'; cases e'
    · rw [g] at g'; cases g'; rfl
  have htnd : t.Nodup := by
    show (tA.map (fun p => (true, p)) ++ tI.map (fun p => (false, p))).Nodup
    rw [List.nodup_append]
    refine ⟨?_, ?_, ?_⟩
    · exact nodup_map_of_inj_on _ _ (tbl_nodup_entries hA) (fun p _ q _ e => by cases e; rfl)
    · exact nodup_map_of_inj_on _ _ (tbl_nodup_entries hI) (fun p _ q _ e => by cases e; rfl)
    · intro a ha b hb e
      obtain ⟨p, _, rfl⟩ := List.mem_map.mp ha
      obtain ⟨p', _, e'⟩ := List.mem_map.mp hb
      rw [← e'] at e; cases e
  rw [htF]
  refine ExactListing.of_table _ t F (fun q => selB q.1) (fun q => tag q.1 ++ enc q.2.1) ?_ htnd ?_ ?_
    _ _ (fun _ => true) (fun q => some q.2.2) ?_ ?_ ?_ ?_ _ ?_
  · intro q _; exact hs1 q.1 (enc q.2.1)
  · intro q hq q' hq' sq sq' e
    obtain ⟨e1, e2⟩ := hs2 _ _ _ _ sq sq' e
    exact hsame q hq q' hq' e1 (henc _ _ (hin q hq) (hin q' hq') e2)
  · intro q hq sq; exact hs3 _ _ sq (hne _ (hin q hq))
  · intro _ _ _; rfl
  · intro _ _ _ _; rfl
  · intro q _ _ _; exact ⟨_, rfl⟩
  · intro q hq q' hq' _ _ _ _ x hx hy
    simp only [Option.some.injEq] at hx hy
    have hv : q.2.2 = q'.2.2 := hx.trans hy.symm
    rcases hget q hq with ⟨e, g⟩ | ⟨e, g⟩ <;> rcases hget q' hq' with ⟨e', g'⟩ | ⟨e', g'⟩
    · exact hsame q hq q' hq' (e.trans e'.symm) ((hkA _ _ g).symm.trans (hv ▸ hkA _ _ g'))
    · exfalso
      have k1 := hkA _ _ g
      have k2 := hkI _ _ g'
      rw [hv] at k1
      exact hX q.2.1 ⟨(Tbl.has_iff _ _).mpr ⟨_, g⟩, (Tbl.has_iff _ _).mpr ⟨_, by rw [← k1, k2]; exact g'⟩⟩
    · exfalso
      have k1 := hkI _ _ g
      have k2 := hkA _ _ g'
      rw [hv] at k1
      exact hX q.2.1 ⟨(Tbl.has_iff _ _).mpr ⟨_, by rw [← k1, k2]; exact g'⟩, (Tbl.has_iff _ _).mpr ⟨_, g⟩⟩
    · exact hsame q hq q' hq' (e.trans e'.symm) ((hkI _ _ g).symm.trans (hv ▸ hkI _ _ g'))
  · intro x
    constructor
    · rintro (⟨hs, k, hk⟩ | ⟨hs, k, hk⟩)
      · exact ⟨(true, k, x), (hmem _).mpr (Or.inl ⟨rfl, tbl_mem_of_get hk⟩), hsA.mpr hs, rfl, rfl⟩
      · exact ⟨(false, k, x), (hmem _).mpr (Or.inr ⟨rfl, tbl_mem_of_get hk⟩), hsI.mpr hs, rfl, rfl⟩
    · rintro ⟨⟨b, k, v⟩, hq, sq, _, hx⟩
      simp only [Option.some.injEq] at hx
      subst hx
      rcases hget _ hq with ⟨e, g⟩ | ⟨e, g⟩ <;> simp only at e g sq <;> subst e
      · exact Or.inl ⟨hsA.mp sq, k, g⟩
      · exact Or.inr ⟨hsI.mp sq, k, g⟩

/-! ## Unfiltered listings of an id-keyed primary table (`sessions`, `subscriptions`, `payouts`) -/

theorem ExactListing.of_primary {α : Type} (t : Tbl Nat α) (hnd : Tbl.Nodup t) (P : Bytes) (F : Nat × α → Bytes × α)
    (hF : ∀ p, F p = (P ++ u64be p.1, p.2))
    (hid : ∀ i x, t.get i = some x → i < B64)
    (keyOf : α → Nat) (hkey : ∀ i x, t.get i = some x → keyOf x = i) :
    ExactListing (prefixStore P (t.map F)) (fun _ _ => true) (fun _ v => some v) (fun x => ∃ i, t.get i = some x) := by
  refine ExactListing.of_table P t F (fun _ => true) (fun p => u64be p.1) ?_ (tbl_nodup_entries hnd) ?_ ?_
    _ _ (fun _ => true) (fun p => some p.2) ?_ ?_ ?_ ?_ _ ?_
  · intro p _; rw [hF p]; simp only [if_true]; exact stripPrefix_append _ _
  · rintro ⟨i, x⟩ hp ⟨j, y⟩ hq _ _ e
    have gi := tbl_get_of_mem hnd hp
    have gj := tbl_get_of_mem hnd hq
    have e1 : i = j := u64be_injective (hid i x gi) (hid j y gj) e
    subst e1
    rw [gi] at gj; cases gj; rfl
  · intro p _ _; exact u64be_ne_nil _
  · intro _ _ _; rfl
  · intro p _ _ _; rw [hF p]
  · intro p _ _ _; exact ⟨_, rfl⟩
  · rintro ⟨i, x⟩ hp ⟨j, y⟩ hq _ _ _ _ z hx hy
    simp only [Option.some.injEq] at hx hy
    have gi := tbl_get_of_mem hnd hp
    have gj := tbl_get_of_mem hnd hq
    have e1 : i = j := by rw [← hkey i x gi, ← hkey j y gj, hx, hy]
    subst e1
    rw [gi] at gj; cases gj; rfl
  · intro x
    constructor
    · rintro ⟨i, hx⟩; exact ⟨(i, x), tbl_mem_of_get hx, rfl, rfl, rfl⟩
    · rintro ⟨⟨i, y⟩, hp, _, _, hx⟩
      simp only [Option.some.injEq] at hx; subst hx
      exact ⟨i, tbl_get_of_mem hnd hp⟩

/-- **Filtered = unfiltered ∧ attribute**, from the two exact listings. -/
theorem filtered_iff_unfiltered {α₁ α₀ β : Type} {st1 : Store α₁} {st0 : Store α₀} {p1 : Bytes → α₁ → Bool}
    {p0 : Bytes → α₀ → Bool} {f1 : Bytes → α₁ → Option β} {f0 : Bytes → α₀ → Option β} {R1 R0 : β → Prop}
    (h1 : ExactListing st1 p1 f1 R1) (h0 : ExactListing st0 p0 f0 R0) (A : β → Prop)
    (hRA : ∀ x, R1 x ↔ R0 x ∧ A x) (x : β) :
    x ∈ listedOn p1 f1 st1 ↔ x ∈ listedOn p0 f0 st0 ∧ A x := by
  rw [h1.mem, h0.mem]; exact hRA x

/-! ## The paginators never report a callback error on an exact listing -/

/-- The total function behind a callback lookup that never fails on the store. -/
def valOf {α β : Type} [Inhabited β] (f : Bytes → α → Option β) : Bytes → α → β := fun k v => (f k v).getD default

theorem ExactListing.totalOn {α β : Type} [Inhabited β] {store : Store α} {pred : Bytes → α → Bool}
    {f : Bytes → α → Option β} {R : β → Prop} (h : ExactListing store pred f R) : TotalOn pred f (valOf f) store := by
  intro p hp hq
  obtain ⟨b, hb⟩ := h.total p hp hq
  unfold valOf; rw [hb]; rfl

theorem ExactListing.totalAll {α β : Type} [Inhabited β] {store : Store α}
    {f : Bytes → α → Option β} {R : β → Prop} (h : ExactListing store (fun _ _ => true) f R) : Total f (valOf f) store :=
  fun p hp => h.totalOn p hp rfl

/-- Under totality the listed records are the image of the matching entries. -/
theorem listedOn_eq_map {α β : Type} (pred : Bytes → α → Bool) (f : Bytes → α → Option β) (g : Bytes → α → β)
    (store : Store α) (h : TotalOn pred f g store) :
    listedOn pred f store = (store.filter (uncurry pred)).map (uncurry g) := by
  unfold listedOn
  induction store with
  | nil => rfl
  | cons x xs ih =>
    have ih' := ih h.tail
    cases hq : uncurry pred x with
    | true =>
      rw [List.filter_cons_of_pos hq, List.filterMap_cons, List.map_cons, ih']
      have : uncurry f x = some (uncurry g x) := h x (List.mem_cons_self ..) hq
      rw [this]
    | false =>
      rw [List.filter_cons_of_neg (by simp [hq]), ih']

theorem listedOn_reverse {α β : Type} (pred : Bytes → α → Bool) (f : Bytes → α → Option β) (store : Store α) :
    listedOn pred f store.reverse = (listedOn pred f store).reverse := by
  unfold listedOn
  rw [List.filter_reverse, List.filterMap_reverse]

theorem keyLoop_ok {α β : Type} (f : Bytes → α → Option β) (g : Bytes → α → β) (limit : Nat) :
    ∀ (it : Store α) (n : Nat) (acc : List β), Total f g it →
      ∃ r, keyLoop (Callback.appendAlways f) limit it n acc = .ok r := by
  intro it
  induction it with
  | nil => intro n acc _; exact ⟨_, rfl⟩
  | cons x rest ih =>
    intro n acc hf
    obtain ⟨k, v⟩ := x
    unfold keyLoop
    by_cases h : n = limit
    · rw [if_pos h]; exact ⟨_, rfl⟩
    · rw [if_neg h, appendAlways_ok (hf (k, v) (List.mem_cons_self ..))]
      exact ih _ _ hf.tail

theorem offLoop_ok {α β : Type} (f : Bytes → α → Option β) (g : Bytes → α → β) (offset end_ end1 : Nat) (ct : Bool) :
    ∀ (it : Store α) (c : Nat) (nk : Option Bytes) (acc : List β), Total f g it →
      ∃ r, offLoop (Callback.appendAlways f) offset end_ end1 ct it c nk acc = .ok r := by
  intro it
  induction it with
  | nil => intro c nk acc _; exact ⟨_, rfl⟩
  | cons x rest ih =>
    intro c nk acc hf
    obtain ⟨k, v⟩ := x
    unfold offLoop
    by_cases hA : c + 1 ≤ offset
    · rw [if_pos hA]; exact ih _ _ _ hf.tail
    · rw [if_neg hA]
      by_cases hB : c + 1 ≤ end_
      · rw [if_pos hB, appendAlways_ok (hf (k, v) (List.mem_cons_self ..))]
        exact ih _ _ _ hf.tail
      · rw [if_neg hB]
        by_cases hC : c + 1 = end1
        · rw [if_pos hC]
          cases ct with
          | true => rw [if_pos rfl]; exact ih _ _ _ hf.tail
          | false => exact ⟨_, rfl⟩
        · rw [if_neg hC]; exact ih _ _ _ hf.tail

theorem filter_cb_ok {α β : Type} {pred : Bytes → α → Bool} {f : Bytes → α → Option β} {g : Bytes → α → β}
    {k : Bytes} {v : α} (h : pred k v = true → f k v = some (g k v)) (acc : Bool) :
    ∃ hit xs, Callback.filter pred f k v acc = .ok (hit, xs) := by
  cases hp : pred k v with
  | true => exact ⟨_, _, filter_cb_hit hp (h hp) acc⟩
  | false => exact ⟨_, _, filter_cb_miss hp acc⟩

theorem fkeyLoop_ok {α β : Type} (pred : Bytes → α → Bool) (f : Bytes → α → Option β) (g : Bytes → α → β) (limit : Nat) :
    ∀ (it : Store α) (n : Nat) (acc : List β), TotalOn pred f g it →
      ∃ r, fkeyLoop (Callback.filter pred f) limit it n acc = .ok r := by
  intro it
  induction it with
  | nil => intro n acc _; exact ⟨_, rfl⟩
  | cons x rest ih =>
    intro n acc hf
    obtain ⟨k, v⟩ := x
    unfold fkeyLoop
    by_cases h : n = limit
    · rw [if_pos h]; exact ⟨_, rfl⟩
    · rw [if_neg h]
      obtain ⟨hit, xs, e⟩ := filter_cb_ok (g := g) (hf (k, v) (List.mem_cons_self ..)) true
      rw [e]
      exact ih _ _ hf.tail

theorem foffLoop_ok {α β : Type} (pred : Bytes → α → Bool) (f : Bytes → α → Option β) (g : Bytes → α → β)
    (offset end_ end1 : Nat) (ct : Bool) :
    ∀ (it : Store α) (n : Nat) (nk : Option Bytes) (acc : List β), TotalOn pred f g it →
      ∃ r, foffLoop (Callback.filter pred f) offset end_ end1 ct it n nk acc = .ok r := by
  intro it
  induction it with
  | nil => intro n nk acc _; exact ⟨_, rfl⟩
  | cons x rest ih =>
    intro n nk acc hf
    obtain ⟨k, v⟩ := x
    unfold foffLoop
    obtain ⟨hit, xs, e⟩ := filter_cb_ok (g := g) (hf (k, v) (List.mem_cons_self ..))
      (decide (offset ≤ n) && decide (n < end_))
    rw [e]
    simp only
    generalize (if hit = true then n + 1 else n) = m
    by_cases hm : m = end1
    · rw [if_pos hm]
      cases ct with
      | true => rw [if_pos rfl]; exact ih _ _ _ hf.tail
      | false => exact ⟨_, rfl⟩
    · rw [if_neg hm]; exact ih _ _ _ hf.tail

theorem iterFrom_mem {α : Type} {store it : Store α} {start : Option Bytes} {r : Bool}
    (h : iterFrom store start r = .ok it) : ∀ p ∈ it, p ∈ store := by
  unfold iterFrom at h
  intro p hp
  split at h
  · split at h
    · cases h; exact List.mem_reverse.mp hp
    · split at h
      · cases h; exact List.mem_reverse.mp hp
      · cases h
      · cases h
        exact (List.mem_filter.mp (List.mem_reverse.mp hp)).1
  · split at h
    · cases h; exact hp
    · cases h; exact (List.mem_filter.mp hp).1

/-- The two request errors `Paginate`/`FilteredPaginate` can still answer with: a request carrying
both an offset and a key (`InvalidArgument` in spirit), and the SDK's reverse-iterator panic when the
key is the greatest one.  Neither is the callback's "internal error". -/
def RequestError (e : String) : Prop :=
  e = "invalid request, either offset or key is expected, got both" ∨
  e = "panic: prefixIterator invalid, cannot call Key()"

theorem iterFrom_error {α : Type} {store : Store α} {start : Option Bytes} {r : Bool} {e : String}
    (h : iterFrom store start r = .error e) : RequestError e := by
  unfold iterFrom at h
  split at h
  · split at h
    · cases h
    · split at h
      · cases h
      · cases h; exact Or.inr rfl
      · cases h
  · split at h <;> cases h

/-- **No internal error** (`Paginate`): on a store where every lookup succeeds, any request is
answered, or refused for the request's own shape. -/
theorem paginate_no_callback_error {α β : Type} {store : Store α} {f : Bytes → α → Option β} {g : Bytes → α → β}
    (hT : Total f g store) (req : PageRequest) :
    (∃ r, paginate store req (Callback.appendAlways f) = .ok r) ∨
    (∃ e, paginate store req (Callback.appendAlways f) = .error e ∧ RequestError e) := by
  unfold paginate
  split
  · exact Or.inr ⟨_, rfl, Or.inl rfl⟩
  · split
    · cases hi : iterFrom store req.key req.reverse with
      | error e => exact Or.inr ⟨e, rfl, iterFrom_error hi⟩
      | ok it =>
        have hT' : Total f g it := fun p hp => hT p (iterFrom_mem hi p hp)
        exact Or.inl (keyLoop_ok f g _ it 0 [] hT')
    · cases hi : iterFrom store none req.reverse with
      | error e => exact Or.inr ⟨e, rfl, iterFrom_error hi⟩
      | ok it =>
        have hT' : Total f g it := fun p hp => hT p (iterFrom_mem hi p hp)
        exact Or.inl (offLoop_ok f g _ _ _ _ it 0 none [] hT')

/-- **No internal error** (`FilteredPaginate`, `filter` callback). -/
theorem filteredPaginate_no_callback_error {α β : Type} {store : Store α} {pred : Bytes → α → Bool}
    {f : Bytes → α → Option β} {g : Bytes → α → β} (hT : TotalOn pred f g store) (req : PageRequest) :
    (∃ r, filteredPaginate store req (Callback.filter pred f) = .ok r) ∨
    (∃ e, filteredPaginate store req (Callback.filter pred f) = .error e ∧ RequestError e) := by
  unfold filteredPaginate
  split
  · exact Or.inr ⟨_, rfl, Or.inl rfl⟩
  · split
    · cases hi : iterFrom store req.key req.reverse with
      | error e => exact Or.inr ⟨e, rfl, iterFrom_error hi⟩
      | ok it =>
        have hT' : TotalOn pred f g it := fun p hp => hT p (iterFrom_mem hi p hp)
        exact Or.inl (fkeyLoop_ok pred f g _ it 0 [] hT')
    · cases hi : iterFrom store none req.reverse with
      | error e => exact Or.inr ⟨e, rfl, iterFrom_error hi⟩
      | ok it =>
        have hT' : TotalOn pred f g it := fun p hp => hT p (iterFrom_mem hi p hp)
        exact Or.inl (foffLoop_ok pred f g _ _ _ _ it 0 none [] hT')

/-- The panic of the SDK's reverse iterator when the request key is the greatest key of the store. -/
def iteratorPanic : String := "panic: prefixIterator invalid, cannot call Key()"

theorem iterFrom_error_eq {α : Type} {store : Store α} {start : Option Bytes} {r : Bool} {e : String}
    (h : iterFrom store start r = .error e) : e = iteratorPanic := by
  unfold iterFrom at h
  split at h
  · split at h
    · cases h
    · split at h
      · cases h
      · cases h; rfl
      · cases h
  · split at h <;> cases h

/-- A request that does not carry both an offset and a key is answered, unless the reverse iterator
panics — never with an error of the callback. -/
theorem paginate_ok_or_panic {α β : Type} {store : Store α} {f : Bytes → α → Option β} {g : Bytes → α → β}
    (hT : Total f g store) (req : PageRequest) (hreq : ¬ (req.offset > 0 ∧ req.key.isSome = true)) :
    (∃ r, paginate store req (Callback.appendAlways f) = .ok r) ∨
    paginate store req (Callback.appendAlways f) = .error iteratorPanic := by
  unfold paginate
  rw [if_neg hreq]
  split
  · cases hi : iterFrom store req.key req.reverse with
    | error e => rw [iterFrom_error_eq hi]; exact Or.inr rfl
    | ok it =>
      have hT' : Total f g it := fun p hp => hT p (iterFrom_mem hi p hp)
      exact Or.inl (keyLoop_ok f g _ it 0 [] hT')
  · cases hi : iterFrom store none req.reverse with
    | error e => rw [iterFrom_error_eq hi]; exact Or.inr rfl
    | ok it =>
      have hT' : Total f g it := fun p hp => hT p (iterFrom_mem hi p hp)
      exact Or.inl (offLoop_ok f g _ _ _ _ it 0 none [] hT')

theorem filteredPaginate_ok_or_panic {α β : Type} {store : Store α} {pred : Bytes → α → Bool}
    {f : Bytes → α → Option β} {g : Bytes → α → β} (hT : TotalOn pred f g store) (req : PageRequest)
    (hreq : ¬ (req.offset > 0 ∧ req.key.isSome = true)) :
    (∃ r, filteredPaginate store req (Callback.filter pred f) = .ok r) ∨
    filteredPaginate store req (Callback.filter pred f) = .error iteratorPanic := by
  unfold filteredPaginate
  rw [if_neg hreq]
  split
  · cases hi : iterFrom store req.key req.reverse with
    | error e => rw [iterFrom_error_eq hi]; exact Or.inr rfl
    | ok it =>
      have hT' : TotalOn pred f g it := fun p hp => hT p (iterFrom_mem hi p hp)
      exact Or.inl (fkeyLoop_ok pred f g _ it 0 [] hT')
  · cases hi : iterFrom store none req.reverse with
    | error e => rw [iterFrom_error_eq hi]; exact Or.inr rfl
    | ok it =>
      have hT' : TotalOn pred f g it := fun p hp => hT p (iterFrom_mem hi p hp)
      exact Or.inl (foffLoop_ok pred f g _ _ _ _ it 0 none [] hT')

/-- The answer class of a paged handler that is answered or panics is never `reject:internal`. -/
theorem pagedAnswer_not_internal {β : Type} (render : β → String) {res : Except String (List β × PageResponse)}
    (h : (∃ r, res = .ok r) ∨ res = .error iteratorPanic) : (pagedAnswer render res).1 ≠ "reject:internal" := by
  rcases h with ⟨⟨items, resp⟩, e⟩ | e <;> subst e
  · simp [pagedAnswer]
  · have : iteratorPanic.startsWith "panic" = true := by decide +kernel
    simp [pagedAnswer, this]

/-! ### What the request parser guarantees about the filter arguments -/

theorem parse_addrOK {t : TextAddr} {want : Role} {a : Addr} (h : t.parse want = some a) : AddrOK a := by
  unfold TextAddr.parse at h
  split at h
  · cases h
  · rename_i hc
    simp only [not_or, Decidable.not_not, Bool.not_eq_true] at hc
    cases h
    exact ⟨by have := hc.2.2.1; omega, by have := hc.2.2.2; omega⟩

/-- `withAddr` hands the handler only addresses of 1..255 bytes. -/
theorem withAddr_cases (f : QFields) (want : Role) (k : Addr → QAnswer) :
    withAddr f want k = ("reject:badreq", []) ∨ withAddr f want k = invalidAnswer ∨
    ∃ a, AddrOK a ∧ withAddr f want k = k a := by
  unfold withAddr
  cases h1 : qAddrText f want with
  | none => exact Or.inl rfl
  | some t =>
    cases hp : t.parse want with
    | none => exact Or.inr (Or.inl (by simp only [hp]))
    | some a => exact Or.inr (Or.inr ⟨a, parse_addrOK hp, by simp only [hp]⟩)

theorem qU64_lt {f : QFields} {k : String} {n : Nat} (h : qU64 f k = some n) : n < B64 := by
  unfold qU64 at h
  split at h
  · cases h; decide
  · split at h
    · cases h
    · split at h
      · split at h
        · rename_i hlt; cases h; exact hlt
        · cases h
      · cases h

/-- The `id` / `sub` field of a parsed request is below `2^64`. -/
theorem parseQReq_id_lt {f : QFields} {r : QReq} (h : parseQReq f = some r) : r.id < B64 := by
  unfold parseQReq at h
  simp only [Option.bind_eq_bind, Option.pure_def] at h
  have step : ∀ {α : Type} {X : Option α} {K : α → Option QReq}, X.bind K = some r → ∃ a, K a = some r := by
    intro α X K hX
    obtain ⟨a, _, h⟩ := Option.bind_eq_some_iff.mp hX
    exact ⟨a, h⟩
  let fin : Option Bytes → Nat → Nat → Int → Nat → Option QReq := fun key offset limit status id =>
    (qHexField f "addr").bind fun _ => (qHexField f "node").bind fun _ => (qHexField f "hash").bind fun _ =>
      some (QReq.mk (PageRequest.mk key offset limit (decide (qget f "total" = some "1"))
        (decide (qget f "reverse" = some "1"))) status id)
  let K : Option Bytes → Option QReq := fun key =>
    (qU64 f "offset").bind fun offset => (qU64 f "limit").bind fun limit => (qStatus f).bind fun status =>
      if qhas f "id" = true then (qU64 f "id").bind (fin key offset limit status)
      else (qU64 f "sub").bind (fin key offset limit status)
  have hk : ∃ key : Option Bytes, K key = some r := by
    cases hq : qget f "key" with
    | none => rw [hq] at h; exact step h
    | some v =>
      rw [hq] at h
      dsimp only at h
      by_cases hv : v = "-" ∨ v = ""
      · rw [if_pos hv] at h; exact step h
      · rw [if_neg hv] at h; exact step h
  obtain ⟨key, hk⟩ := hk
  obtain ⟨offset, hk⟩ := step hk
  obtain ⟨limit, hk⟩ := step hk
  obtain ⟨status, hk⟩ := step hk
  by_cases hc : qhas f "id" = true
  · rw [if_pos hc] at hk
    obtain ⟨id, hid, hk⟩ := Option.bind_eq_some_iff.mp hk
    obtain ⟨_, hk⟩ := step hk
    obtain ⟨_, hk⟩ := step hk
    obtain ⟨_, hk⟩ := step hk
    cases hk
    exact qU64_lt hid
  · rw [if_neg hc] at hk
    obtain ⟨id, hid, hk⟩ := Option.bind_eq_some_iff.mp hk
    obtain ⟨_, hk⟩ := step hk
    obtain ⟨_, hk⟩ := step hk
    obtain ⟨_, hk⟩ := step hk
    cases hk
    exact qU64_lt hid

/-- The 8-byte encoding wraps at `2^64`: beyond that bound two identifiers share their index keys. -/
theorem u64be_add_B64 (n : Nat) : u64be (n + B64) = u64be n := by
  unfold u64be
  congr 1
  · congr 1; omega
  congr 1
  · congr 1; omega
  congr 1
  · congr 1; omega
  congr 1
  · congr 1; omega
  congr 1
  · congr 1; omega
  congr 1
  · congr 1; omega
  congr 1
  · congr 1; omega
  congr 1
  congr 1; omega

/-! ## Well-formed keys in a state

The key encodings are injective and prefix-isolating for addresses of 1..255 bytes and identifiers
below `2^64` (C17).  Identifiers are bounded by the counters (`CountInv`), so for them it is enough
that fewer than `2^64` identifiers have been issued.  Address lengths are a fact about the primary
records; every handler takes its addresses from `TextAddr.parse` (1..255 bytes). -/

/-- Fewer than `2^64` plans, subscriptions and sessions have been created (the Go counters are `uint64`). -/
structure CountersOK (s : State) : Prop where
  plan : s.planCount.getD 0 < B64
  sub : s.subCount.getD 0 < B64
  sess : s.sessCount.getD 0 < B64

/-- Every address stored in a primary record (or primary key) has 1..255 bytes. -/
structure AddrsOK (s : State) : Prop where
  sessions : ∀ i x, s.sessions.get i = some x → AddrOK x.addr ∧ AddrOK x.node
  subs : ∀ i x, s.subs.get i = some x → AddrOK x.addr
  subNode : ∀ i x n gb hr dep, s.subs.get i = some x → x.kind = .node n gb hr dep → AddrOK n
  allocs : ∀ i a, s.allocs.has (i, a) = true → AddrOK a
  payouts : ∀ i p, s.payouts.get i = some p → AddrOK p.addr ∧ AddrOK p.node
  plans : ∀ i p, getPlan s i = some p → AddrOK p.prov
  nodes : ∀ a, hasNode s a = true → AddrOK a
  provs : ∀ a, hasProvider s a = true → AddrOK a

theorem lp_ne_nil {a : Bytes} (h : AddrOK a) : lp a ≠ [] := by rw [lp_eq h]; exact List.cons_ne_nil _ _

theorem drop_one_lp {a : Bytes} (h : AddrOK a) : (lp a).drop 1 = a := by rw [lp_eq h]; rfl

theorem getNode_isSome_of_has {s : State} {a : Addr} (h : hasNode s a = true) : ∃ n, getNode s a = some n := by
  unfold hasNode at h
  unfold getNode
  cases ha : s.nodeActive.get a with
  | some n => exact ⟨n, rfl⟩
  | none =>
    simp only [Tbl.has, ha, Option.isSome_none, Bool.false_or] at h
    cases hb : s.nodeInactive.get a with
    | some n => exact ⟨n, rfl⟩
    | none => rw [hb] at h; cases h

theorem hasNode_of_getNode {s : State} {a : Addr} {n : Node} (h : getNode s a = some n) : hasNode s a = true := by
  unfold getNode at h
  unfold hasNode
  cases ha : s.nodeActive.get a with
  | some m => simp [Tbl.has, ha]
  | none => simp only [ha] at h; simp [Tbl.has, h]

theorem getNode_addr {s : State} (hr : RecInv s) {a : Addr} {n : Node} (h : getNode s a = some n) : n.addr = a := by
  unfold getNode at h
  cases ha : s.nodeActive.get a with
  | some m => simp only [ha, Option.some.injEq] at h; subst h; exact (hr.nodeA a m ha).1
  | none => simp only [ha] at h; exact (hr.nodeI a n h).1

theorem getPlan_id {s : State} (hr : RecInv s) {i : Nat} {p : Plan} (h : getPlan s i = some p) : p.id = i := by
  rcases getPlan_mem h with h | h
  · exact (hr.planA i p h).1
  · exact (hr.planI i p h).1

/-! ## `AddrsOK` holds in every reachable state

Every address that enters a record comes from a message field that `ValidateBasic` parsed with
`TextAddr.parse` (1..255 bytes), or from a record already stored.  The proof follows
`Hub/Lemmas/CountSteps.lean`: the invariant is restated table by table over a view (`AddrOKV (aview s)`),
steps that leave the view alone are frames, the others are `Tbl.All.set` / `Tbl.All.erase`. -/

structure AddrView where
  sessions : Tbl Nat Session
  subs : Tbl Nat Sub
  allocs : Tbl (Nat × Addr) Alloc
  payouts : Tbl Nat Payout
  planActive : Tbl Nat Plan
  planInactive : Tbl Nat Plan
  nodeActive : Tbl Addr Node
  nodeInactive : Tbl Addr Node
  provActive : Tbl Addr Provider
  provInactive : Tbl Addr Provider

def aview (s : State) : AddrView :=
  { sessions := s.sessions, subs := s.subs, allocs := s.allocs, payouts := s.payouts, planActive := s.planActive,
    planInactive := s.planInactive, nodeActive := s.nodeActive, nodeInactive := s.nodeInactive,
    provActive := s.provActive, provInactive := s.provInactive }

def SessAP (_ : Nat) (x : Session) : Prop := AddrOK x.addr ∧ AddrOK x.node
def SubAP (_ : Nat) (x : Sub) : Prop := AddrOK x.addr ∧ ∀ n gb hr dep, x.kind = .node n gb hr dep → AddrOK n
def AllocAP (k : Nat × Addr) (al : Alloc) : Prop := AddrOK k.2 ∧ AddrOK al.addr
def PayAP (_ : Nat) (p : Payout) : Prop := AddrOK p.addr ∧ AddrOK p.node
def PlanAP (_ : Nat) (p : Plan) : Prop := AddrOK p.prov
def NodeAP (a : Addr) (n : Node) : Prop := AddrOK a ∧ AddrOK n.addr
def ProvAP (a : Addr) (p : Provider) : Prop := AddrOK a ∧ AddrOK p.addr

structure AddrOKV (v : AddrView) : Prop where
  sessions : Tbl.All SessAP v.sessions
  subs : Tbl.All SubAP v.subs
  allocs : Tbl.All AllocAP v.allocs
  payouts : Tbl.All PayAP v.payouts
  planActive : Tbl.All PlanAP v.planActive
  planInactive : Tbl.All PlanAP v.planInactive
  nodeActive : Tbl.All NodeAP v.nodeActive
  nodeInactive : Tbl.All NodeAP v.nodeInactive
  provActive : Tbl.All ProvAP v.provActive
  provInactive : Tbl.All ProvAP v.provInactive

/-- The inductive form of `AddrsOK`. -/
def AddrInv (s : State) : Prop := AddrOKV (aview s)

theorem AddrInv.addrsOK {s : State} (h : AddrInv s) : AddrsOK s where
  sessions := fun i x hx => h.sessions i x hx
  subs := fun i x hx => (h.subs i x hx).1
  subNode := fun i x n gb hr dep hx hk => (h.subs i x hx).2 n gb hr dep hk
  allocs := fun i a hk => by
    obtain ⟨al, hal⟩ := (Tbl.has_iff _ _).mp hk
    exact (h.allocs (i, a) al hal).1
  payouts := fun i p hp => h.payouts i p hp
  plans := fun i p hp => by
    rcases getPlan_mem hp with hp | hp
    · exact h.planActive i p hp
    · exact h.planInactive i p hp
  nodes := fun a ha => by
    obtain ⟨n, hn⟩ := getNode_isSome_of_has ha
    rcases getNode_mem hn with hn | hn
    · exact (h.nodeActive a n hn).1
    · exact (h.nodeInactive a n hn).1
  provs := fun a ha => by
    unfold hasProvider at ha
    rcases Bool.or_eq_true_iff.mp ha with ha | ha
    · obtain ⟨p, hp⟩ := (Tbl.has_iff _ _).mp ha; exact (h.provActive a p hp).1
    · obtain ⟨p, hp⟩ := (Tbl.has_iff _ _).mp ha; exact (h.provInactive a p hp).1

theorem AddrInv.of_view {s s' : State} (h : aview s' = aview s) (hi : AddrInv s) : AddrInv s' := by
  unfold AddrInv; rw [h]; exact hi

theorem aview_of_mframe {s s' : State} (h : MFrame s s') : aview s' = aview s := by
  unfold MFrame at h; rw [h]; rfl

theorem AddrInv.of_mframe {s s' : State} (h : MFrame s s') (hi : AddrInv s) : AddrInv s' :=
  AddrInv.of_view (aview_of_mframe h) hi

theorem emit_addr {s : State} (e : Event) (hi : AddrInv s) : AddrInv (emit s e) := AddrInv.of_view (s := s) rfl hi

/-- Close every remaining field goal that is an old fact, possibly after an `erase`. -/
local macro "addr_rest " hi:ident : tactic =>
  `(tactic| all_goals first
      | exact ($hi).sessions | exact ($hi).subs | exact ($hi).allocs | exact ($hi).payouts
      | exact ($hi).planActive | exact ($hi).planInactive | exact ($hi).nodeActive | exact ($hi).nodeInactive
      | exact ($hi).provActive | exact ($hi).provInactive
      | exact ($hi).sessions.erase | exact ($hi).subs.erase | exact ($hi).allocs.erase | exact ($hi).payouts.erase
      | exact ($hi).planActive.erase | exact ($hi).planInactive.erase | exact ($hi).nodeActive.erase
      | exact ($hi).nodeInactive.erase | exact ($hi).provActive.erase | exact ($hi).provInactive.erase)

theorem node_addr_ok {s : State} (hi : AddrInv s) {a : Addr} {n : Node} (h : getNode s a = some n) :
    AddrOK a ∧ AddrOK n.addr := by
  rcases getNode_mem h with h | h
  · exact hi.nodeActive a n h
  · exact hi.nodeInactive a n h

theorem prov_addr_ok {s : State} (hi : AddrInv s) {a : Addr} {p : Provider} (h : getProvider s a = some p) :
    AddrOK a ∧ AddrOK p.addr := by
  rcases getProvider_mem h with h | h
  · exact hi.provActive a p h
  · exact hi.provInactive a p h

theorem plan_addr_ok {s : State} (hi : AddrInv s) {i : Nat} {p : Plan} (h : getPlan s i = some p) : AddrOK p.prov := by
  rcases getPlan_mem h with h | h
  · exact hi.planActive i p h
  · exact hi.planInactive i p h

/-! ### building blocks -/

theorem setNode_addr {s s' : State} {n : Node} (h : setNode s n = .ok s') (hn : AddrOK n.addr) (hi : AddrInv s) :
    AddrInv s' := by
  rcases setNode_eff h with ⟨_, e⟩ | ⟨_, e⟩ <;> subst e
  · constructor
    case nodeActive => exact hi.nodeActive.set ⟨hn, hn⟩
    addr_rest hi
  · constructor
    case nodeInactive => exact hi.nodeInactive.set ⟨hn, hn⟩
    addr_rest hi

theorem setProvider_addr {s s' : State} {p : Provider} (h : setProvider s p = .ok s') (hp : AddrOK p.addr) (hi : AddrInv s) :
    AddrInv s' := by
  rcases setProvider_eff h with ⟨_, e⟩ | ⟨_, e⟩ <;> subst e
  · constructor
    case provActive => exact hi.provActive.set ⟨hp, hp⟩
    addr_rest hi
  · constructor
    case provInactive => exact hi.provInactive.set ⟨hp, hp⟩
    addr_rest hi

theorem setPlan_addr {s s' : State} {p : Plan} (h : setPlan s p = .ok s') (hp : AddrOK p.prov) (hi : AddrInv s) :
    AddrInv s' := by
  rcases setPlan_eff h with ⟨_, e⟩ | ⟨_, e⟩ <;> subst e
  · constructor
    case planActive => exact hi.planActive.set hp
    addr_rest hi
  · constructor
    case planInactive => exact hi.planInactive.set hp
    addr_rest hi

theorem insertSub_addr {s : State} {sub : Sub} {k : Nat} (hs : SubAP k sub) (hi : AddrInv s) : AddrInv (insertSub s sub) := by
  unfold insertSub
  cases sub.kind <;>
  · constructor
    case subs => exact hi.subs.set hs
    addr_rest hi

theorem setAllocation_addr {s : State} {a : Alloc} (ha : AddrOK a.addr) (hi : AddrInv s) : AddrInv (setAllocation s a) := by
  constructor
  case allocs => exact hi.allocs.set ⟨ha, ha⟩
  addr_rest hi

theorem insertPayout_addr {s : State} {p : Payout} {k : Nat} (hp : PayAP k p) (hi : AddrInv s) : AddrInv (insertPayout s p) := by
  constructor
  case payouts => exact hi.payouts.set hp
  addr_rest hi

theorem insertSession_addr {s : State} {x : Session} {k : Nat} (hx : SessAP k x) (hi : AddrInv s) : AddrInv (insertSession s x) := by
  constructor
  case sessions => exact hi.sessions.set hx
  addr_rest hi

theorem sessionToPending_addr {s : State} {x : Session} {k : Nat} (hx : SessAP k x) (hi : AddrInv s) :
    AddrInv (sessionToPending s x) := by
  constructor
  case sessions => exact hi.sessions.set hx
  addr_rest hi

theorem subToPending_addr {s : State} {sub : Sub} {d : Dur} {k : Nat} (hs : SubAP k sub) (hi : AddrInv s) :
    AddrInv (subToPending s sub d).1 := by
  constructor
  case subs => exact hi.subs.set hs
  addr_rest hi

theorem detachPayoutRec_addr {s : State} {p : Payout} {k : Nat} (hp : PayAP k p) (hi : AddrInv s) : AddrInv (detachPayoutRec s p) := by
  constructor
  case payouts => exact hi.payouts.set hp
  addr_rest hi

theorem detachPayout_addr {s s' : State} {sub : Sub} {b : Bool} (h : detachPayout s sub b = .ok s') (hi : AddrInv s) :
    AddrInv s' := by
  unfold detachPayout at h
  split at h
  · simp only [bind_eq_ok, pure_eq_ok] at h
    obtain ⟨p, hp, rfl⟩ := h
    have hp' : s.payouts.get sub.id = some p := by
      cases b <;> simpa [orPanic_eq_ok, orReject_eq_ok] using hp
    exact detachPayoutRec_addr (hi.payouts _ _ hp') hi
  · rw [pure_eq_ok] at h; rw [← h]; exact hi

theorem subscriptionInactivePendingHook_addr {s s' : State} {id : Nat}
    (h : subscriptionInactivePendingHook s id = .ok s') (hi : AddrInv s) : AddrInv s' := by
  unfold subscriptionInactivePendingHook at h
  refine foldlM_inv AddrInv _ ?_ _ s s' h hi
  intro s0 sid s1 h1 hp
  simp only [bind_eq_ok, pure_eq_ok, orPanic_eq_ok] at h1
  obtain ⟨x, hx, rfl⟩ := h1
  split
  · exact sessionToPending_addr (hp.sessions _ _ hx) hp
  · exact hp

/-! ### provider, node, plan messages -/

theorem provRegister_addr {s s' : State} {frm : Addr} {n i w d : Bytes} (h : provRegister s frm n i w d = .ok s')
    (hf : AddrOK frm) (hi : AddrInv s) : AddrInv s' := by
  obtain ⟨_, s1, f1, rfl⟩ := provRegister_eff h
  have i1 : AddrInv s1 := AddrInv.of_mframe f1.wide hi
  refine emit_addr _ ?_
  constructor
  case provInactive => exact i1.provInactive.set ⟨hf, hf⟩
  addr_rest i1

theorem provUpdate_addr {s s' : State} {frm : Addr} {n i w d : Bytes} {st : Status} (h : provUpdate s frm n i w d st = .ok s')
    (hi : AddrInv s) : AddrInv s' := by
  unfold provUpdate at h
  simp only [bind_eq_ok, pure_eq_ok, orReject_eq_ok] at h
  obtain ⟨p, hp, s3, h3, rfl⟩ := h
  have hpa := (prov_addr_ok hi hp).2
  refine emit_addr _ (setProvider_addr h3 (by rw [provUpdated_addr_A]; exact hpa) ?_)
  split <;> split <;>
  · constructor
    addr_rest hi

theorem nodeRegister_addr {s s' : State} {frm : Addr} {gb hr : Coins} {url : Bytes} (h : nodeRegister s frm gb hr url = .ok s')
    (hf : AddrOK frm) (hi : AddrInv s) : AddrInv s' := by
  obtain ⟨_, _, _, s1, f1, rfl⟩ := nodeRegister_eff h
  have i1 : AddrInv s1 := AddrInv.of_mframe f1.wide hi
  refine emit_addr _ ?_
  constructor
  case nodeInactive => exact i1.nodeInactive.set ⟨hf, hf⟩
  addr_rest i1

theorem nodeUpdate_addr {s s' : State} {frm : Addr} {gb hr : Option Coins} {url : Bytes} (h : nodeUpdate s frm gb hr url = .ok s')
    (hi : AddrInv s) : AddrInv s' := by
  unfold nodeUpdate at h
  simp only [bind_eq_ok, pure_eq_ok, require_eq_ok, orReject_eq_ok] at h
  obtain ⟨_, _, _, _, n, hn, s1, h1, rfl⟩ := h
  exact emit_addr _ (setNode_addr h1 (by rw [(nodeUpdated_same n gb hr url).1]; exact (node_addr_ok hi hn).2) hi)

theorem nodeStatus_addr {s s' : State} {frm : Addr} {st : Status} (h : nodeStatus s frm st = .ok s')
    (hi : AddrInv s) : AddrInv s' := by
  unfold nodeStatus at h
  simp only [bind_eq_ok, pure_eq_ok, orReject_eq_ok] at h
  obtain ⟨n, hn, s5, h5, rfl⟩ := h
  refine emit_addr _ (setNode_addr h5 (node_addr_ok hi hn).2 ?_)
  split <;> split <;> split <;> split <;>
  · constructor
    addr_rest hi

theorem planCreate_addr {s s' : State} {frm : Addr} {dur : Dur} {gb : Int} {prices : Coins}
    (h : planCreate s frm dur gb prices = .ok s') (hf : AddrOK frm) (hi : AddrInv s) : AddrInv s' := by
  obtain ⟨_, rfl⟩ := planCreate_eff h
  refine emit_addr _ ?_
  constructor
  case planInactive => exact hi.planInactive.set hf
  addr_rest hi

theorem planStatus_addr {s s' : State} {frm : Addr} {id : Nat} {st : Status}
    (h : planStatus s frm id st = .ok s') (hi : AddrInv s) : AddrInv s' := by
  unfold planStatus at h
  simp only [bind_eq_ok, pure_eq_ok, require_eq_ok, orReject_eq_ok] at h
  obtain ⟨p, hp, _, _, s3, h3, rfl⟩ := h
  refine emit_addr _ (setPlan_addr h3 (show AddrOK p.prov from plan_addr_ok hi hp) ?_)
  split <;> split <;>
  · constructor
    addr_rest hi

theorem planLink_addr {s s' : State} {frm : Addr} {id : Nat} {node : Addr}
    (h : planLink s frm id node = .ok s') (hi : AddrInv s) : AddrInv s' := by
  unfold planLink at h
  simp only [bind_eq_ok, pure_eq_ok, require_eq_ok, orReject_eq_ok] at h
  obtain ⟨p, _, _, _, _, _, rfl⟩ := h
  exact AddrInv.of_view (s := s) rfl hi

theorem planUnlink_addr {s s' : State} {frm : Addr} {id : Nat} {node : Addr}
    (h : planUnlink s frm id node = .ok s') (hi : AddrInv s) : AddrInv s' := by
  unfold planUnlink at h
  simp only [bind_eq_ok, pure_eq_ok, require_eq_ok, orReject_eq_ok] at h
  obtain ⟨p, _, _, _, rfl⟩ := h
  exact AddrInv.of_view (s := s) rfl hi

/-! ### subscription creation -/

theorem createNodeSubGB_addr {s : State} {acc node : Addr} {n : Node} {gb : Int} {denom : Denom} {r : State × Sub}
    (h : createNodeSubGB s acc node n gb denom = .ok r) (ha : AddrOK acc) (hn : AddrOK node) (hi : AddrInv s) :
    AddrInv r.1 := by
  unfold createNodeSubGB at h
  simp only [bind_eq_ok, pure_eq_ok, orReject_eq_ok] at h
  obtain ⟨price, _, bytes, _, amt, _, dep, _, s1, h1, granted, _, rfl⟩ := h
  have i1 := AddrInv.of_mframe (addDeposit_mframe h1) hi
  refine emit_addr _ (setAllocation_addr ha (insertSub_addr (k := 0) ⟨ha, ?_⟩ i1))
  intro n' gb' hr' dep' hk
  simp only [SubKind.node.injEq] at hk
  rw [← hk.1]; exact hn

theorem createNodeSubHr_addr {s : State} {acc node : Addr} {n : Node} {hr : Int} {denom : Denom} {r : State × Sub}
    (h : createNodeSubHr s acc node n hr denom = .ok r) (ha : AddrOK acc) (hn : AddrOK node) (hi : AddrInv s) :
    AddrInv r.1 := by
  unfold createNodeSubHr at h
  simp only [bind_eq_ok, pure_eq_ok, orReject_eq_ok] at h
  obtain ⟨price, _, amt, _, dep, _, s1, h1, pa, _, hourly, _, rfl⟩ := h
  have i1 := AddrInv.of_mframe (addDeposit_mframe h1) hi
  refine insertPayout_addr (k := 0) ⟨ha, hn⟩ (insertSub_addr (k := 0) ⟨ha, ?_⟩ i1)
  intro n' gb' hr' dep' hk
  simp only [SubKind.node.injEq] at hk
  rw [← hk.1]; exact hn

theorem nodeSubscribe_addr {s s' : State} {frm node : Addr} {gb hr : Int} {denom : Denom}
    (h : nodeSubscribe s frm node gb hr denom = .ok s') (ha : AddrOK frm) (hi : AddrInv s) : AddrInv s' := by
  unfold nodeSubscribe createSubscriptionForNode at h
  simp only [bind_eq_ok, pure_eq_ok, require_eq_ok, orReject_eq_ok] at h
  obtain ⟨_, _, _, _, r, ⟨n, hn, _, _, hr'⟩, rfl⟩ := h
  have hnode := (node_addr_ok hi hn).1
  refine emit_addr _ ?_
  split at hr'
  · exact createNodeSubGB_addr hr' ha hnode hi
  · exact createNodeSubHr_addr hr' ha hnode hi

theorem planSubscribe_addr {s s' : State} {frm : Addr} {id : Nat} {denom : Denom}
    (h : planSubscribe s frm id denom = .ok s') (ha : AddrOK frm) (hi : AddrInv s) : AddrInv s' := by
  unfold planSubscribe createSubscriptionForPlan at h
  simp only [bind_eq_ok, pure_eq_ok, require_eq_ok, requireP_eq_ok, orReject_eq_ok] at h
  obtain ⟨r, ⟨plan, hplan, _, _, price, _, reward, _, s1, h1, payAmt, _, _, _, s2, h2, granted, _, rfl⟩, rfl⟩ := h
  have i2 := AddrInv.of_mframe ((sendCoinFromAccountToModule_mframe h1).trans (sendCoin_mframe h2)) hi
  refine emit_addr _ (emit_addr _ (setAllocation_addr ha (insertSub_addr (k := 0) ⟨ha, ?_⟩ (emit_addr _ i2))))
  intro n' gb' hr' dep' hk
  cases hk

/-! ### subscription and session messages -/

theorem subCancel_addr {s s' : State} {frm : Addr} {id : Nat} (h : subCancel s frm id = .ok s') (hi : AddrInv s) :
    AddrInv s' := by
  unfold subCancel at h
  simp only [bind_eq_ok, require_eq_ok, orReject_eq_ok] at h
  obtain ⟨sub, hsub, _, _, _, _, s1, h1, h2⟩ := h
  have i0 : AddrInv { s with subQ := s.subQ.erase (sub.inactiveAt, sub.id) } := AddrInv.of_view (s := s) rfl hi
  have i1 := subscriptionInactivePendingHook_addr h1 i0
  exact detachPayout_addr h2 (subToPending_addr (hi.subs _ _ hsub) i1)

theorem subAllocate_addr {s s' : State} {frm toA : Addr} {id : Nat} {bytes : Int}
    (h : subAllocate s frm id toA bytes = .ok s') (ht : AddrOK toA) (hi : AddrInv s) : AddrInv s' := by
  unfold subAllocate at h
  simp only [bind_eq_ok, pure_eq_ok, require_eq_ok, orReject_eq_ok] at h
  obtain ⟨sub, hsub, _, _, _, _, fa, hfa, _, _, g, _, u, _, av, _, _, _, fg, _, _, _, _, _, rfl⟩ := h
  have hf := (hi.allocs (id, frm) fa hfa).2
  have hta : AddrOK ((s.allocs.get (id, toA)).getD { id := id, addr := toA, granted := 0, used := 0 }).addr := by
    cases hg : s.allocs.get (id, toA) with
    | none => exact ht
    | some ta => exact (hi.allocs (id, toA) ta hg).2
  have i1 : AddrInv (if (s.allocs.get (id, toA)).isNone then { s with subForAcc := s.subForAcc.set (toA, id) () } else s) := by
    split
    · exact AddrInv.of_view (s := s) rfl hi
    · exact hi
  exact emit_addr _ (setAllocation_addr hta (emit_addr _ (setAllocation_addr hf i1)))

theorem sessStart_addr {s s' : State} {frm : TextAddr} {id : Nat} {node : Addr}
    (h : sessStart s frm id node = .ok s') (hf : AddrOK frm.bytes) (hi : AddrInv s) : AddrInv s' := by
  unfold sessStart at h
  simp only [bind_eq_ok, pure_eq_ok, require_eq_ok, orReject_eq_ok] at h
  obtain ⟨sub, hsub, _, _, n, hn, _, _, _, _, _, _, latest, _, _, _, rfl⟩ := h
  exact emit_addr _ (insertSession_addr (k := 0) ⟨hf, (node_addr_ok hi hn).1⟩ hi)

theorem sessUpdate_addr {s s' : State} {frm : Addr} {id : Nat} {up down dur : Int} {sig : SigSpec}
    (h : sessUpdate s frm id up down dur sig = .ok s') (hi : AddrInv s) : AddrInv s' := by
  unfold sessUpdate at h
  simp only [bind_eq_ok, pure_eq_ok, require_eq_ok, orReject_eq_ok] at h
  obtain ⟨x, hx, _, _, _, _, _, _, rfl⟩ := h
  have hp := hi.sessions _ _ hx
  refine emit_addr _ ?_
  split <;>
  · constructor
    case sessions => exact hi.sessions.set hp
    addr_rest hi

theorem sessEnd_addr {s s' : State} {frm : Addr} {id : Nat} (h : sessEnd s frm id = .ok s') (hi : AddrInv s) :
    AddrInv s' := by
  unfold sessEnd at h
  simp only [bind_eq_ok, pure_eq_ok, require_eq_ok, orReject_eq_ok] at h
  obtain ⟨x, hx, _, _, _, _, rfl⟩ := h
  exact sessionToPending_addr (hi.sessions _ _ hx) hi

theorem swap_addr {s s' : State} {frm recv : Addr} {hash : Bytes} {amt : Int}
    (h : swap s frm hash recv amt = .ok s') (hi : AddrInv s) : AddrInv s' := by
  unfold swap at h
  simp only [bind_eq_ok, pure_eq_ok, require_eq_ok] at h
  obtain ⟨_, _, _, _, _, _, q, _, coin, _, s1, h1, s2, h2, rfl⟩ := h
  have i2 : AddrInv s2 := AddrInv.of_mframe ((mintCoins_mframe h1).trans (sendModuleToAccount_mframe h2)) hi
  exact AddrInv.of_view (s := s2) rfl i2

/-! ### `ValidateBasic` supplies the address bounds -/

theorem needAddr_addrOK {want : Role} {t : TextAddr} {a : Addr} (h : needAddr want t = .ok a) : AddrOK t.bytes := by
  unfold needAddr at h
  simp only [bind_eq_ok, require_eq_ok, orReject_eq_ok] at h
  obtain ⟨_, _, hp⟩ := h
  unfold TextAddr.parse at hp
  split at hp
  · cases hp
  · rename_i hc
    simp only [not_or, Decidable.not_not, Bool.not_eq_true] at hc
    exact ⟨by have := hc.2.2.1; omega, by have := hc.2.2.2; omega⟩

theorem handle_addr {s s' : State} {m : Msg} (h : m.handle s = .ok s') (hv : m.validateBasic = .ok ())
    (hi : AddrInv s) : AddrInv s' := by
  cases m <;> simp only [Msg.handle] at h <;> unfold Msg.validateBasic at hv <;>
    simp only [bind_eq_ok, require_eq_ok] at hv
  case provRegister =>
    obtain ⟨_, ha, _⟩ := hv
    exact provRegister_addr h (needAddr_addrOK ha) hi
  case provUpdate => exact provUpdate_addr h hi
  case nodeRegister =>
    obtain ⟨_, ha, _⟩ := hv
    exact nodeRegister_addr h (needAddr_addrOK ha) hi
  case nodeUpdate => exact nodeUpdate_addr h hi
  case nodeStatus => exact nodeStatus_addr h hi
  case nodeSubscribe =>
    obtain ⟨_, ha, _⟩ := hv
    exact nodeSubscribe_addr h (needAddr_addrOK ha) hi
  case planCreate =>
    obtain ⟨_, ha, _⟩ := hv
    exact planCreate_addr h (needAddr_addrOK ha) hi
  case planStatus => exact planStatus_addr h hi
  case planLink => exact planLink_addr h hi
  case planUnlink => exact planUnlink_addr h hi
  case planSubscribe =>
    obtain ⟨_, ha, _⟩ := hv
    exact planSubscribe_addr h (needAddr_addrOK ha) hi
  case subCancel => exact subCancel_addr h hi
  case subAllocate =>
    obtain ⟨_, _, _, _, _, ht, _⟩ := hv
    exact subAllocate_addr h (needAddr_addrOK ht) hi
  case sessStart =>
    obtain ⟨_, ha, _⟩ := hv
    exact sessStart_addr h (needAddr_addrOK ha) hi
  case sessUpdate => exact sessUpdate_addr h hi
  case sessEnd => exact sessEnd_addr h hi
  case swap => exact swap_addr h hi

theorem deliver_addr (s : State) (m : Msg) (hi : AddrInv s) : AddrInv (deliver s m).1 := by
  have h0 : AddrInv { s with events := [] } := AddrInv.of_view (s := s) rfl hi
  unfold deliver
  simp only []
  cases hr : (do m.validateBasic; m.handle { s with events := [] } : M State) with
  | ok s' =>
    simp only [bind_eq_ok] at hr
    obtain ⟨u, hv, hh⟩ := hr
    exact handle_addr hh hv h0
  | error e => cases e <;> exact h0

/-! ### block hooks, governance -/

theorem aview_mintBeginBlock_go (l : List Inflation) (s : State) : aview (mintBeginBlock.go s l) = aview s := by
  induction l generalizing s with
  | nil => rfl
  | cons item rest ih =>
    unfold mintBeginBlock.go
    split
    · rfl
    · rw [ih]; rfl

theorem payoutAdvance_same (p : Payout) : (payoutAdvance p).addr = p.addr ∧ (payoutAdvance p).node = p.node := by
  unfold payoutAdvance; simp only; split <;> exact ⟨rfl, rfl⟩

theorem payoutStep_addr {s s' : State} {k : Time × Nat} (h : payoutStep s k = .ok s') (hi : AddrInv s) : AddrInv s' := by
  unfold payoutStep at h
  simp only [bind_eq_ok, pure_eq_ok, requireP_eq_ok, orPanic_eq_ok] at h
  obtain ⟨item, hitem, reward, _, s2, h2, payAmt, _, _, _, s3, h3, rfl⟩ := h
  have hp := hi.payouts _ _ hitem
  have i1 : AddrInv { s with payQ := s.payQ.erase (item.nextAt, item.id) } := AddrInv.of_view (s := s) rfl hi
  have i3 := AddrInv.of_mframe ((sendCoinFromDepositToModule_mframe h2).trans (sendCoinFromDepositToAccount_mframe h3)) i1
  have hp' : PayAP 0 (payoutAdvance item) := by
    obtain ⟨e1, e2⟩ := payoutAdvance_same item
    exact ⟨by rw [e1]; exact hp.1, by rw [e2]; exact hp.2⟩
  split <;>
  · constructor
    case payouts => exact i3.payouts.set hp'
    addr_rest i3

theorem beginBlock_addr {s s' : State} {t : Time} (h : beginBlock s t = .ok s') (hi : AddrInv s) : AddrInv s' := by
  unfold beginBlock haltOf at h
  split at h <;> try contradiction
  rename_i s'' hs
  simp only [Except.ok.injEq] at h
  subst h
  unfold subscriptionBeginBlock at hs
  refine foldlM_inv AddrInv _ ?_ _ _ _ hs ?_
  · intro s0 k s1 h1 hp
    rw [panicIfErr_eq_ok] at h1
    exact payoutStep_addr h1 hp
  · exact AddrInv.of_mframe (distrSweep_mframe _)
      (AddrInv.of_view (aview_mintBeginBlock_go _ _) (AddrInv.of_view (s := s) rfl hi))

theorem nodeSweep_addr {s s' : State} (h : nodeSweep s = .ok s') (hi : AddrInv s) : AddrInv s' := by
  unfold nodeSweep at h
  split at h
  · rw [pure_eq_ok] at h; rw [← h]; exact hi
  · refine foldlM_inv AddrInv _ ?_ _ s s' h hi
    intro s0 a s1 h1 hp
    simp only [bind_eq_ok, pure_eq_ok, orPanic_eq_ok] at h1
    obtain ⟨item, hitem, s2, h2, rfl⟩ := h1
    exact emit_addr _ (setNode_addr h2 (node_addr_ok hp hitem).2 hp)

theorem nodeExpireStep_addr {s s' : State} {k : Time × Addr} (h : nodeExpireStep s k = .ok s') (hi : AddrInv s) :
    AddrInv s' := by
  unfold nodeExpireStep at h
  simp only [bind_eq_ok, pure_eq_ok, orPanic_eq_ok] at h
  obtain ⟨item, hitem, s3, h3, rfl⟩ := h
  refine emit_addr _ (setNode_addr h3 (node_addr_ok hi hitem).2 ?_)
  constructor
  addr_rest hi

theorem sessionInactiveHook_addr {s s' : State} {id : Nat} {acc node : Addr} {bytes : Int}
    (h : sessionInactiveHook s id acc node bytes = .ok s') (hi : AddrInv s) : AddrInv s' := by
  unfold sessionInactiveHook at h
  simp only [bind_eq_ok, require_eq_ok, orReject_eq_ok] at h
  obtain ⟨x, _, _, _, sub, _, h⟩ := h
  split at h
  · rw [pure_eq_ok] at h; rw [← h]; exact hi
  · simp only [bind_eq_ok, orReject_eq_ok] at h
    obtain ⟨a, ha, used, _, h⟩ := h
    have hal := (hi.allocs _ _ ha).2
    have i1 : AddrInv (emit (setAllocation s (allocAfterUse a used)) (evAllocate (allocAfterUse a used))) :=
      emit_addr _ (setAllocation_addr (show AddrOK a.addr from hal) hi)
    split at h
    · exact AddrInv.of_mframe (settleSession_mframe h) i1
    · rw [pure_eq_ok] at h; rw [← h]; exact i1

theorem removeSession_addr {s : State} {item : Session} (hi : AddrInv s) : AddrInv (removeSession s item) := by
  refine emit_addr _ ?_
  constructor
  addr_rest hi

theorem sessionStep_addr {s s' : State} {k : Time × Nat} (h : sessionStep s k = .ok s') (hi : AddrInv s) : AddrInv s' := by
  unfold sessionStep at h
  simp only [bind_eq_ok, orPanic_eq_ok] at h
  obtain ⟨item, hitem, h⟩ := h
  split at h
  · rw [pure_eq_ok] at h; rw [← h]; exact sessionToPending_addr (hi.sessions _ _ hitem) hi
  · simp only [bind_eq_ok, pure_eq_ok, panicIfErr_eq_ok] at h
    obtain ⟨bytes, _, s2, h2, rfl⟩ := h
    have i1 : AddrInv { s with sessQ := s.sessQ.erase (item.inactiveAt, item.id) } := AddrInv.of_view (s := s) rfl hi
    exact removeSession_addr (sessionInactiveHook_addr h2 i1)

theorem removeAllocs_addr (l : List Addr) (s : State) (id : Nat) (hi : AddrInv s) : AddrInv (removeAllocs s id l) := by
  unfold removeAllocs
  refine foldl_inv AddrInv _ ?_ l s hi
  intro s0 a h0
  constructor
  addr_rest h0

theorem removeSubRecords_addr {s : State} {item : Sub} (hi : AddrInv s) : AddrInv (removeSubRecords s item) := by
  unfold removeSubRecords
  cases item.kind with
  | node n g h d =>
    refine emit_addr _ ?_
    constructor
    addr_rest hi
  | plan pid dn =>
    refine emit_addr _ ?_
    have i1 : AddrInv { s with subForPlan := s.subForPlan.erase (pid, item.id) } := AddrInv.of_view (s := s) rfl hi
    have i2 := removeAllocs_addr (allocAddrsForSub { s with subForPlan := s.subForPlan.erase (pid, item.id) } item.id) _ item.id i1
    constructor
    addr_rest i2

theorem removePayout_addr {s s' : State} {item : Sub} (h : removePayout s item = .ok s') (hi : AddrInv s) : AddrInv s' := by
  unfold removePayout at h
  split at h
  · simp only [bind_eq_ok, pure_eq_ok, orPanic_eq_ok] at h
    obtain ⟨p, _, rfl⟩ := h
    constructor
    addr_rest hi
  · rw [pure_eq_ok] at h; rw [← h]; exact hi

theorem subscriptionStep_addr {s s' : State} {d : Dur} {k : Time × Nat} (h : subscriptionStep d s k = .ok s')
    (hi : AddrInv s) : AddrInv s' := by
  unfold subscriptionStep at h
  simp only [bind_eq_ok, orPanic_eq_ok] at h
  obtain ⟨item, hitem, h⟩ := h
  have i1 : AddrInv { s with subQ := s.subQ.erase (item.inactiveAt, item.id) } := AddrInv.of_view (s := s) rfl hi
  split at h
  · simp only [bind_eq_ok, panicIfErr_eq_ok] at h
    obtain ⟨s2, h2, h3⟩ := h
    exact detachPayout_addr h3 (subToPending_addr (hi.subs _ _ hitem) (subscriptionInactivePendingHook_addr h2 i1))
  · simp only [bind_eq_ok] at h
    obtain ⟨s2, h2, h3⟩ := h
    exact removePayout_addr h3 (removeSubRecords_addr (AddrInv.of_mframe (refundSub_mframe h2) i1))

theorem endBlock_addr {s s' : State} (h : endBlock s = .ok s') (hi : AddrInv s) : AddrInv s' := by
  unfold endBlock haltOf at h
  split at h <;> try contradiction
  rename_i s2 hs
  split at hs <;> try contradiction
  rename_i s3 hs3
  simp only [Except.ok.injEq] at hs h
  subst hs; subst h
  unfold vpnEndBlock nodeEndBlock nodeExpire sessionEndBlock subscriptionEndBlock at hs3
  simp only [bind_eq_ok] at hs3
  obtain ⟨s1, ⟨sa, ha, hb⟩, sb, hc, hd⟩ := hs3
  have i0 : AddrInv sa := nodeSweep_addr ha (AddrInv.of_view (s := s) rfl hi)
  have i1 : AddrInv s1 := foldlM_inv AddrInv _ (fun s0 k s1 h1 hp => nodeExpireStep_addr h1 hp) _ _ _ hb i0
  have i2 : AddrInv sb := foldlM_inv AddrInv _ (fun s0 k s1 h1 hp => sessionStep_addr h1 hp) _ _ _ hc i1
  have i3 : AddrInv s3 := foldlM_inv AddrInv _ (fun s0 k s1 h1 hp => subscriptionStep_addr h1 hp) _ _ _ hd i2
  exact AddrInv.of_view (s := s3) rfl i3

theorem gov_aview {s s' : State} {c : ParamChange} (hg : gov s c = some s') : aview s' = aview s := by
  unfold gov at hg
  cases c <;> simp only [] at hg <;> (try split at hg) <;>
    first
      | (simp only [Option.some.injEq] at hg; rw [← hg]; rfl)
      | (simp only [reduceCtorEq] at hg)

theorem step_addr {s s' : State} {op : Op} (h : step s op = some s') (hi : AddrInv s) : AddrInv s' := by
  cases op with
  | tx m =>
    simp only [step, Option.some.injEq] at h
    rw [← h]; exact deliver_addr s m hi
  | begin t =>
    simp only [step] at h
    split at h
    · rename_i s1 hb
      simp only [Option.some.injEq] at h; rw [← h]; exact beginBlock_addr hb hi
    · contradiction
  | endB =>
    simp only [step] at h
    split at h
    · rename_i s1 hb
      simp only [Option.some.injEq] at h; rw [← h]; exact endBlock_addr hb hi
    · contradiction
  | gov c =>
    simp only [step, Option.some.injEq] at h
    rw [← h]
    cases hg : gov s c with
    | none => exact hi
    | some s1 => exact AddrInv.of_view (gov_aview hg) hi

theorem genesis_addr (g : Genesis) : AddrInv g.state := by
  refine AddrInv.of_mframe (genesis_mframe g) ?_
  constructor <;> exact Tbl.All.nil _

theorem addr_all_histories (ops : List Op) (s : State) (hi : AddrInv s) : ∀ s' ∈ runTrace s ops, AddrInv s' := by
  induction ops generalizing s with
  | nil => intro s' h; simp [runTrace] at h
  | cons op rest ih =>
    intro s' h
    simp only [runTrace] at h
    cases hst : step s op with
    | none => simp [hst] at h
    | some s1 =>
      simp only [hst, List.mem_cons] at h
      have i1 := step_addr hst hi
      rcases h with h | h
      · rw [h]; exact i1
      · exact ih s1 i1 s' h

/-- **Every stored address of every reachable state has 1..255 bytes.** -/
theorem addrsOK_of_reachable {s : State} (h : Reachable s) : AddrsOK s := by
  obtain ⟨g, ops, h | h⟩ := h
  · rw [h]; exact (genesis_addr g).addrsOK
  · exact (addr_all_histories ops g.state (genesis_addr g) s h).addrsOK

end Hub.Model.Listings
