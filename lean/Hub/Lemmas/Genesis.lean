import Mathlib.Data.List.Nodup
import Hub.Model.Genesis
import Hub.Lemmas.Tbl
import Hub.Lemmas.Money
/-
Lemmas for the genesis round trip (C12): validation chains, the duplicate scan, tables as
permutations (`exportTbl` is a permutation of the table; importing a duplicate-free list gives a table
with the same `get`), unit-valued index tables (membership only), and the views of the `InitGenesis`
folds.
-/
namespace Hub.Model.Gen
open Hub.SDK Hub.Model
open Hub.Generated (Status)
open Hub.Generated.Keys

/-! ### validation chains -/

theorem chk_eq_none {c : Bool} {m : String} : chk c m = none ↔ c = true := by
  unfold chk; cases c <;> simp

theorem firstOf_eq_none {l : List (Option String)} : firstOf l = none ↔ ∀ x ∈ l, x = none := by
  induction l with
  | nil => simp [firstOf]
  | cons x rest ih =>
    cases x with
    | none => simp [firstOf, ih]
    | some e => simp [firstOf]

theorem firstErr_eq_none {α : Type} {l : List α} {f : α → Option String} :
    firstErr l f = none ↔ ∀ a ∈ l, f a = none := by
  unfold firstErr; rw [firstOf_eq_none]; simp

theorem pfx_eq_none {m : String} {o : Option String} : pfx m o = none ↔ o = none := by
  cases o <;> simp [pfx]

theorem hasDup_eq_false {κ : Type} [DecidableEq κ] {l : List κ} : hasDup l = false ↔ l.Nodup := by
  induction l with
  | nil => simp [hasDup]
  | cons x xs ih => simp [hasDup, ih, List.nodup_cons]

theorem not_hasDup {κ : Type} [DecidableEq κ] {l : List κ} : (!hasDup l) = true ↔ l.Nodup := by
  rw [← hasDup_eq_false]; cases hasDup l <;> simp

/-! ### tables up to order -/

namespace Tbl
open Hub.Model.Tbl
variable {κ α : Type} [DecidableEq κ]

theorem get_eq_some_iff_mem {t : Tbl κ α} (h : Nodup t) {k : κ} {v : α} : Tbl.get t k = some v ↔ (k, v) ∈ t := by
  induction t with
  | nil => simp [Tbl.get]
  | cons p rest ih =>
    obtain ⟨k', v'⟩ := p
    have hr : Nodup rest := (List.nodup_cons.mp h).2
    have hk' : k' ∉ rest.map (·.1) := (List.nodup_cons.mp h).1
    rw [get_cons]
    by_cases h1 : k' = k
    · subst h1
      simp only [if_true, List.mem_cons, Prod.mk.injEq, true_and, Option.some.injEq]
      constructor
      · intro e; left; exact e.symm
      · rintro (e | e)
        · exact e.symm
        · exact absurd (List.mem_map_of_mem (f := (·.1)) e) hk'
    · simp only [h1, if_false, List.mem_cons, Prod.mk.injEq, ih hr]
      constructor
      · intro e; right; exact e
      · rintro (⟨e, _⟩ | e)
        · exact absurd e.symm h1
        · exact e

theorem get_mem {t : Tbl κ α} {k : κ} {v : α} (h : Tbl.get t k = some v) : (k, v) ∈ t := by
  induction t with
  | nil => simp [Tbl.get] at h
  | cons p rest ih =>
    obtain ⟨k', v'⟩ := p
    rw [get_cons] at h
    by_cases h1 : k' = k
    · simp only [h1, if_true, Option.some.injEq] at h; simp [h1, h]
    · simp only [h1, if_false] at h; exact List.mem_cons_of_mem _ (ih h)

/-- Two duplicate-free tables with the same entries answer every lookup alike. -/
theorem get_eq_of_perm {t t' : Tbl κ α} (h : Nodup t) (hp : t.Perm t') (k : κ) : Tbl.get t k = Tbl.get t' k := by
  have h' : Nodup t' := (hp.map (fun p : κ × α => p.1)).nodup_iff.mp h
  apply Option.ext
  intro v
  rw [get_eq_some_iff_mem h, get_eq_some_iff_mem h', hp.mem_iff]

/-- Importing (`set` one by one) a list of entries on top of `t0`. -/
def importOn (t0 : Tbl κ α) (l : List (κ × α)) : Tbl κ α := l.foldl (fun t p => t.set p.1 p.2) t0

theorem get_importOn_of_not_mem (t0 : Tbl κ α) (l : List (κ × α)) {k : κ} (hk : k ∉ l.map (·.1)) :
    Tbl.get (importOn t0 l) k = Tbl.get t0 k := by
  induction l generalizing t0 with
  | nil => rfl
  | cons p rest ih =>
    obtain ⟨k', v'⟩ := p
    simp only [List.map_cons, List.mem_cons, not_or] at hk
    show Tbl.get (importOn (t0.set k' v') rest) k = _
    rw [ih _ hk.2, get_set_ne _ _ (Ne.symm hk.1)]

theorem get_importOn (t0 : Tbl κ α) {l : List (κ × α)} (h : Nodup l) (k : κ) :
    Tbl.get (importOn t0 l) k = match Tbl.get l k with | some v => some v | none => Tbl.get t0 k := by
  induction l generalizing t0 with
  | nil => rfl
  | cons p rest ih =>
    obtain ⟨k', v'⟩ := p
    have hr : Nodup rest := (List.nodup_cons.mp h).2
    have hk' : k' ∉ rest.map (·.1) := (List.nodup_cons.mp h).1
    show Tbl.get (importOn (t0.set k' v') rest) k = _
    rw [get_cons]
    by_cases h1 : k' = k
    · subst h1
      rw [get_importOn_of_not_mem _ _ hk']; simp
    · simp only [h1, if_false]
      rw [ih _ hr, get_set_ne _ _ h1]

theorem get_import {l : List (κ × α)} (h : Nodup l) (k : κ) : Tbl.get (importOn [] l) k = Tbl.get l k := by
  rw [get_importOn [] h]; cases Tbl.get l k <;> rfl

/-! unit-valued tables: only membership matters -/

theorem get_unit_ext {t t' : Tbl κ Unit} {k : κ} (h : Tbl.get t' k = some () ↔ Tbl.get t k = some ()) : Tbl.get t' k = Tbl.get t k := by
  cases h1 : Tbl.get t' k <;> cases h2 : Tbl.get t k <;> simp_all

theorem get_importUnit (t0 : Tbl κ Unit) (ks : List κ) (k : κ) :
    Tbl.get (ks.foldl (fun t x => t.set x ()) t0) k = some () ↔ k ∈ ks ∨ Tbl.get t0 k = some () := by
  induction ks generalizing t0 with
  | nil => simp
  | cons x rest ih =>
    simp only [List.foldl_cons, ih, get_set, List.mem_cons]
    by_cases hx : x = k
    · simp [hx]
    · simp [hx, Ne.symm hx, eq_comm]

/-- Writing the flag `()` under every key of a list, on top of `t0`. -/
def keysOn (t0 : Tbl κ Unit) (ks : List κ) : Tbl κ Unit := ks.foldl (fun t x => t.set x ()) t0

theorem get_keysOn (t0 : Tbl κ Unit) (ks : List κ) (k : κ) :
    Tbl.get (keysOn t0 ks) k = some () ↔ k ∈ ks ∨ Tbl.get t0 k = some () := get_importUnit t0 ks k

theorem get_unit_iff_mem_keys {t : Tbl κ Unit} {k : κ} : Tbl.get t k = some () ↔ k ∈ t.keys := by
  constructor
  · intro h; exact mem_keys_of_get h
  · intro h; obtain ⟨v, hv⟩ := get_of_mem_keys h; exact hv

end Tbl

/-! ### export lists -/

section exp
variable {κ α : Type} [DecidableEq κ]

omit [DecidableEq κ] in
theorem sortKeys_perm (enc : κ → Bytes) (ks : List κ) : (sortKeys enc ks).Perm ks := by
  unfold sortKeys; exact List.mergeSort_perm _ _

omit [DecidableEq κ] in
theorem mem_sortKeys {enc : κ → Bytes} {ks : List κ} {k : κ} : k ∈ sortKeys enc ks ↔ k ∈ ks :=
  (sortKeys_perm enc ks).mem_iff

theorem filterMap_congr' {β γ : Type} {f g : β → Option γ} {l : List β} (h : ∀ x ∈ l, f x = g x) :
    l.filterMap f = l.filterMap g := by
  induction l with
  | nil => rfl
  | cons x xs ih =>
    simp only [List.filterMap_cons, h x (List.mem_cons_self ..)]
    rw [ih (fun y hy => h y (List.mem_cons_of_mem _ hy))]

theorem keys_filterMap_get {t : Tbl κ α} (h : Tbl.Nodup t) :
    (t.keys.filterMap fun k => (t.get k).map fun v => (k, v)) = t := by
  induction t with
  | nil => rfl
  | cons p rest ih =>
    obtain ⟨k, v⟩ := p
    have hr : Tbl.Nodup rest := (List.nodup_cons.mp h).2
    have hk : k ∉ rest.map (·.1) := (List.nodup_cons.mp h).1
    simp only [Tbl.keys, List.map_cons, List.filterMap_cons, Tbl.get_cons, if_true, Option.map_some]
    congr 1
    conv => rhs; rw [← ih hr]
    simp only [Tbl.keys]
    apply filterMap_congr'
    intro k' hk'
    have : k ≠ k' := fun e => hk (e ▸ hk')
    simp only [this, if_false]

theorem exportTbl_perm (enc : κ → Bytes) {t : Tbl κ α} (h : Tbl.Nodup t) : (exportTbl enc t).Perm t := by
  unfold exportTbl
  have := (sortKeys_perm enc t.keys).filterMap (fun k => (t.get k).map fun v => (k, v))
  rw [keys_filterMap_get h] at this
  exact this

theorem mem_exportTbl {enc : κ → Bytes} {t : Tbl κ α} {k : κ} {v : α} :
    (k, v) ∈ exportTbl enc t ↔ t.get k = some v := by
  unfold exportTbl
  simp only [List.mem_filterMap, mem_sortKeys, Option.map_eq_some_iff, Prod.mk.injEq]
  constructor
  · rintro ⟨k', _, v', hg, rfl, rfl⟩; exact hg
  · intro hg; exact ⟨k, Tbl.mem_keys_of_get hg, v, hg, rfl, rfl⟩

theorem mem_exportVals {enc : κ → Bytes} {t : Tbl κ α} {v : α} :
    v ∈ exportVals enc t ↔ ∃ k, t.get k = some v := by
  unfold exportVals
  simp only [List.mem_map, Prod.exists, exists_eq_right]
  constructor
  · rintro ⟨k, hm⟩; exact ⟨k, mem_exportTbl.mp hm⟩
  · rintro ⟨k, hg⟩; exact ⟨k, mem_exportTbl.mpr hg⟩

theorem exportTbl_nodup (enc : κ → Bytes) {t : Tbl κ α} (h : Tbl.Nodup t) : Tbl.Nodup (exportTbl enc t) :=
  ((exportTbl_perm enc h).map (fun p : κ × α => p.1)).nodup_iff.mpr h

/-- When every record is stored under its own key, re-keying the exported values gives the exported pairs. -/
theorem exportVals_rekey (enc : κ → Bytes) {t : Tbl κ α} (key : α → κ) (hk : ∀ k v, t.get k = some v → key v = k) :
    (exportVals enc t).map (fun v => (key v, v)) = exportTbl enc t := by
  unfold exportVals
  rw [List.map_map]
  conv => rhs; rw [← List.map_id (exportTbl enc t)]
  apply List.map_congr_left
  rintro ⟨k, v⟩ hm
  simp only [Function.comp, id]
  rw [hk k v (mem_exportTbl.mp hm)]

theorem exportVals_keys (enc : κ → Bytes) {t : Tbl κ α} (key : α → κ) (hk : ∀ k v, t.get k = some v → key v = k) :
    (exportVals enc t).map key = (exportTbl enc t).map (·.1) := by
  rw [← exportVals_rekey enc key hk, List.map_map]; rfl

end exp

/-! ### round trip of one table -/

section roundtrip
variable {κ α : Type} [DecidableEq κ]

theorem get_import_exportTbl (enc : κ → Bytes) {t : Tbl κ α} (h : Tbl.Nodup t) (k : κ) :
    Tbl.get (Tbl.importOn [] (exportTbl enc t)) k = t.get k := by
  rw [Tbl.get_import (exportTbl_nodup enc h)]
  exact Tbl.get_eq_of_perm (exportTbl_nodup enc h) (exportTbl_perm enc h) k

theorem get_import_exportVals (enc : κ → Bytes) {t : Tbl κ α} (key : α → κ) (h : Tbl.Nodup t)
    (hk : ∀ k v, t.get k = some v → key v = k) (k : κ) :
    Tbl.get (Tbl.importOn [] ((exportVals enc t).map fun v => (key v, v))) k = t.get k := by
  rw [exportVals_rekey enc key hk]; exact get_import_exportTbl enc h k

end roundtrip

def isActive {α : Type} (st : α → Status) (x : α) : Bool := st x = .StatusActive
def isInactive {α : Type} (st : α → Status) (x : α) : Bool := st x = .StatusInactive

theorem filter_active_append {α : Type} (st : α → Status) (la li : List α)
    (ha : ∀ x ∈ la, st x = .StatusActive) (hi : ∀ x ∈ li, st x = .StatusInactive) :
    (la ++ li).filter (isActive st) = la ∧ (la ++ li).filter (isInactive st) = li := by
  have h1 : la.filter (isActive st) = la := List.filter_eq_self.mpr (fun x hx => by simp [isActive, ha x hx])
  have h2 : li.filter (isActive st) = [] := List.filter_eq_nil_iff.mpr (fun x hx => by simp [isActive, hi x hx])
  have h3 : la.filter (isInactive st) = [] := List.filter_eq_nil_iff.mpr (fun x hx => by simp [isInactive, ha x hx])
  have h4 : li.filter (isInactive st) = li := List.filter_eq_self.mpr (fun x hx => by simp [isInactive, hi x hx])
  simp [List.filter_append, h1, h2, h3, h4]

/-! ### a table split into an active and an inactive partition -/

/-- Both partitions are duplicate-free, every record sits under its own key in the partition of its
status, and no key is in both partitions. -/
structure PartOK {κ α : Type} [DecidableEq κ] (tA tI : Tbl κ α) (key : α → κ) (st : α → Status) : Prop where
  nodupA : Tbl.Nodup tA
  nodupI : Tbl.Nodup tI
  ownA : ∀ k v, tA.get k = some v → key v = k ∧ st v = .StatusActive
  ownI : ∀ k v, tI.get k = some v → key v = k ∧ st v = .StatusInactive
  disj : ∀ k v, tA.get k = some v → tI.get k = none

namespace PartOK
variable {κ α : Type} [DecidableEq κ] {tA tI : Tbl κ α} {key : α → κ} {st : α → Status}

theorem mem (eA eI : κ → Bytes) {v : α} :
    v ∈ exportVals eA tA ++ exportVals eI tI ↔ ∃ k, tA.get k = some v ∨ tI.get k = some v := by
  simp only [List.mem_append, mem_exportVals]
  constructor
  · rintro (⟨k, h⟩ | ⟨k, h⟩)
    · exact ⟨k, Or.inl h⟩
    · exact ⟨k, Or.inr h⟩
  · rintro ⟨k, h | h⟩
    · exact Or.inl ⟨k, h⟩
    · exact Or.inr ⟨k, h⟩

theorem filters (h : PartOK tA tI key st) (eA eI : κ → Bytes) :
    (exportVals eA tA ++ exportVals eI tI).filter (isActive st) = exportVals eA tA ∧
    (exportVals eA tA ++ exportVals eI tI).filter (isInactive st) = exportVals eI tI :=
  filter_active_append st _ _
    (fun x hx => by obtain ⟨k, hk⟩ := mem_exportVals.mp hx; exact (h.ownA k x hk).2)
    (fun x hx => by obtain ⟨k, hk⟩ := mem_exportVals.mp hx; exact (h.ownI k x hk).2)

theorem status (h : PartOK tA tI key st) (eA eI : κ → Bytes) :
    ∀ v ∈ exportVals eA tA ++ exportVals eI tI, st v = .StatusActive ∨ st v = .StatusInactive := by
  intro v hv
  obtain ⟨k, hk | hk⟩ := (mem eA eI).mp hv
  · exact Or.inl (h.ownA k v hk).2
  · exact Or.inr (h.ownI k v hk).2

theorem get_active (h : PartOK tA tI key st) (eA eI : κ → Bytes) (k : κ) :
    Tbl.get (Tbl.importOn [] (((exportVals eA tA ++ exportVals eI tI).filter (isActive st)).map fun v => (key v, v))) k = tA.get k := by
  rw [(h.filters eA eI).1]
  exact get_import_exportVals eA key h.nodupA (fun k v hv => (h.ownA k v hv).1) k

theorem get_inactive (h : PartOK tA tI key st) (eA eI : κ → Bytes) (k : κ) :
    Tbl.get (Tbl.importOn [] (((exportVals eA tA ++ exportVals eI tI).filter (isInactive st)).map fun v => (key v, v))) k = tI.get k := by
  rw [(h.filters eA eI).2]
  exact get_import_exportVals eI key h.nodupI (fun k v hv => (h.ownI k v hv).1) k

theorem keys_nodup (h : PartOK tA tI key st) (eA eI : κ → Bytes) :
    ((exportVals eA tA ++ exportVals eI tI).map key).Nodup := by
  rw [List.map_append, exportVals_keys eA key (fun k v hv => (h.ownA k v hv).1),
    exportVals_keys eI key (fun k v hv => (h.ownI k v hv).1), List.nodup_append]
  refine ⟨exportTbl_nodup eA h.nodupA, exportTbl_nodup eI h.nodupI, ?_⟩
  intro a ha b hb hab
  subst hab
  simp only [List.mem_map, Prod.exists, exists_and_right, exists_eq_right] at ha hb
  obtain ⟨v, hv⟩ := ha
  obtain ⟨w, hw⟩ := hb
  have := h.disj a v (mem_exportTbl.mp hv)
  rw [mem_exportTbl.mp hw] at this
  cases this

/-- Lookup in the pair of partitions (`GetX`: active first). -/
theorem get_either (h : PartOK tA tI key st) {k : κ} {v : α} :
    (match tA.get k with | some x => some x | none => tI.get k) = some v ↔ (tA.get k = some v ∨ tI.get k = some v) := by
  cases ha : tA.get k with
  | none => simp
  | some x =>
    simp only [Option.some.injEq]
    constructor
    · intro e; exact Or.inl e
    · rintro (e | e)
      · exact e
      · rw [h.disj k x ha] at e; cases e

end PartOK

/-! ### soundness of the Boolean well-formedness checks -/

section checks
variable {κ α ι : Type} [DecidableEq κ] [DecidableEq ι]

theorem all_of_get {t : Tbl κ α} {P : κ × α → Bool} (h : t.all P = true) {k : κ} {v : α} (hg : t.get k = some v) :
    P (k, v) = true := List.all_eq_true.mp h _ (Tbl.get_mem hg)

theorem genNodupKeys_iff {t : Tbl κ α} : genNodupKeys t = true ↔ Tbl.Nodup t := by
  unfold genNodupKeys; rw [not_hasDup]; rfl

theorem has_true_iff {t : Tbl κ Unit} {k : κ} : t.has k = true ↔ t.get k = some () := by
  rw [Tbl.has_iff]
  constructor
  · rintro ⟨v, hv⟩; exact hv
  · intro h; exact ⟨(), h⟩

theorem partOK_of_b {tA tI : Tbl κ α} {key : α → κ} {st : α → Status} (h : genPartOKb tA tI key st = true) : PartOK tA tI key st := by
  unfold genPartOKb at h
  simp only [Bool.and_eq_true] at h
  obtain ⟨⟨⟨⟨h1, h2⟩, h3⟩, h4⟩, h5⟩ := h
  refine ⟨genNodupKeys_iff.mp h1, genNodupKeys_iff.mp h2, ?_, ?_, ?_⟩
  · intro k v hg
    have := all_of_get h3 hg
    simpa using this
  · intro k v hg
    have := all_of_get h4 hg
    simpa using this
  · intro k v hg
    have := all_of_get h5 hg
    simp only [Bool.not_eq_true'] at this
    exact (Tbl.has_eq_false_iff _ _).mp this

theorem index_of_b {idx : Tbl ι Unit} {t : Tbl κ α} {recOf : ι → κ} {proj : κ → α → ι}
    (h : genIndexOKb idx t recOf proj = true) (i : ι) :
    idx.get i = some () ↔ ∃ v, t.get (recOf i) = some v ∧ proj (recOf i) v = i := by
  unfold genIndexOKb at h
  simp only [Bool.and_eq_true] at h
  obtain ⟨h1, h2⟩ := h
  constructor
  · intro hg
    have := all_of_get h1 hg
    simp only at this
    cases ht : t.get (recOf i) with
    | none => rw [ht] at this; cases this
    | some v => rw [ht] at this; exact ⟨v, rfl, of_decide_eq_true this⟩
  · rintro ⟨v, hv, hp⟩
    have := all_of_get h2 hv
    simp only at this
    rw [hp] at this
    exact has_true_iff.mp this

end checks

/-! ### plan links -/

theorem mem_linkedAddrs {s : State} {i : Nat} {a : Addr} : a ∈ linkedAddrs s i ↔ s.nodeForPlan.get (i, a) = some () := by
  unfold linkedAddrs
  rw [mem_sortKeys, Tbl.get_unit_iff_mem_keys]
  simp only [List.mem_map, List.mem_filter, decide_eq_true_eq, Prod.exists, exists_eq_right]

theorem linkedAddrs_nodup {s : State} (h : Tbl.Nodup s.nodeForPlan) (i : Nat) : (linkedAddrs s i).Nodup := by
  unfold linkedAddrs
  rw [(sortKeys_perm _ _).nodup_iff]
  have hk : s.nodeForPlan.keys.Nodup := h
  refine List.Nodup.map_on ?_ (hk.filter _)
  rintro ⟨i1, a1⟩ h1 ⟨i2, a2⟩ h2 e
  simp only [List.mem_filter, decide_eq_true_eq] at h1 h2
  simp only at e
  rw [Prod.mk.injEq]; exact ⟨h1.2.trans h2.2.symm, e⟩

theorem filterMap_eq_self {β : Type} {f : β → Option β} {l : List β} (h : ∀ x ∈ l, f x = some x) : l.filterMap f = l := by
  induction l with
  | nil => rfl
  | cons x xs ih =>
    rw [List.filterMap_cons, h x (List.mem_cons_self ..)]
    simp only
    rw [ih (fun y hy => h y (List.mem_cons_of_mem _ hy))]

theorem getNode_iff {s : State} (hn : PartOK s.nodeActive s.nodeInactive (·.addr) (·.status)) {a : Addr} {n : Node} :
    getNode s a = some n ↔ (s.nodeActive.get a = some n ∨ s.nodeInactive.get a = some n) := by
  unfold getNode
  cases ha : s.nodeActive.get a with
  | none => simp
  | some x =>
    simp only [Option.some.injEq]
    constructor
    · intro e; exact Or.inl e
    · rintro (e | e)
      · exact e
      · rw [hn.disj a x ha] at e; cases e

/-- With every linked node present under its own key the exported node list of a plan is the list of its link keys. -/
theorem exportPlanNodes_eq {s : State} (hn : PartOK s.nodeActive s.nodeInactive (·.addr) (·.status)) (i : Nat)
    (hl : ∀ a, s.nodeForPlan.get (i, a) = some () → ∃ n, s.nodeActive.get a = some n ∨ s.nodeInactive.get a = some n) :
    exportPlanNodes s i = linkedAddrs s i := by
  unfold exportPlanNodes
  apply filterMap_eq_self
  intro a ha
  obtain ⟨n, hnn⟩ := hl a (mem_linkedAddrs.mp ha)
  rw [(getNode_iff hn).mpr hnn]
  simp only [Option.map_some, Option.some.injEq]
  rcases hnn with h | h
  · exact (hn.ownA a n h).1
  · exact (hn.ownI a n h).1

/-! ### the counter rebuilt from the largest id -/

theorem maxId_fold (ids : List Nat) (c : Nat) :
    c ≤ ids.foldl (fun c i => if i > c then i else c) c ∧
    (∀ i ∈ ids, i ≤ ids.foldl (fun c i => if i > c then i else c) c) ∧
    (ids.foldl (fun c i => if i > c then i else c) c = c ∨ ids.foldl (fun c i => if i > c then i else c) c ∈ ids) := by
  induction ids generalizing c with
  | nil => simp
  | cons x xs ih =>
    simp only [List.foldl_cons, List.mem_cons]
    by_cases hx : x > c
    · simp only [hx, if_true]
      obtain ⟨h1, h2, h3⟩ := ih x
      refine ⟨by omega, ?_, ?_⟩
      · intro i hi
        rcases hi with rfl | hi
        · exact h1
        · exact h2 i hi
      · rcases h3 with h3 | h3
        · right; left; exact h3
        · right; right; exact h3
    · simp only [hx, if_false]
      obtain ⟨h1, h2, h3⟩ := ih c
      refine ⟨h1, ?_, ?_⟩
      · intro i hi
        rcases hi with rfl | hi
        · omega
        · exact h2 i hi
      · rcases h3 with h3 | h3
        · left; exact h3
        · right; right; exact h3

theorem maxId_ge {ids : List Nat} {i : Nat} (h : i ∈ ids) : i ≤ maxId ids := (maxId_fold ids 0).2.1 i h
theorem maxId_mem (ids : List Nat) : maxId ids = 0 ∨ maxId ids ∈ ids := (maxId_fold ids 0).2.2

/-- The largest id (0 for none) is characterised by being an upper bound that is attained. -/
theorem maxId_eq {ids : List Nat} {c : Nat} (hub : ∀ i ∈ ids, i ≤ c) (hat : c = 0 ∨ c ∈ ids) : maxId ids = c := by
  apply Nat.le_antisymm
  · rcases maxId_mem ids with h | h
    · omega
    · exact hub _ h
  · rcases hat with h | h
    · omega
    · exact maxId_ge h

/-! ### views of the `InitGenesis` folds -/

theorem foldlM_cons_ok {α : Type} (f : State → α → M State) (a : α) (l : List α) (s s1 : State) (h : f s a = .ok s1) :
    (a :: l).foldlM f s = l.foldlM f s1 := by
  simp only [List.foldlM_cons, h]; rfl

/-- `node.InitGenesis` loop: the active nodes go to the active partition and the queue, the inactive ones
to the inactive partition; nothing else is written. -/
theorem initNodes_fold (ns : List Node) (s : State)
    (hst : ∀ n ∈ ns, n.status = .StatusActive ∨ n.status = .StatusInactive) :
    ns.foldlM initNodeStep s = .ok { s with
      nodeActive := Tbl.importOn s.nodeActive ((ns.filter (isActive (·.status))).map fun n => (n.addr, n))
      nodeInactive := Tbl.importOn s.nodeInactive ((ns.filter (isInactive (·.status))).map fun n => (n.addr, n))
      nodeQ := ((ns.filter (isActive (·.status))).map fun n => (n.inactiveAt, n.addr)).foldl (fun t x => t.set x ()) s.nodeQ } := by
  induction ns generalizing s with
  | nil => rfl
  | cons n rest ih =>
    have hr := fun m hm => hst m (List.mem_cons_of_mem _ hm)
    rcases hst n (List.mem_cons_self ..) with h | h
    · have h1 : initNodeStep s n = .ok { s with nodeActive := s.nodeActive.set n.addr n, nodeQ := s.nodeQ.set (n.inactiveAt, n.addr) () } := by
        unfold initNodeStep setNode; simp only [h]; rfl
      rw [foldlM_cons_ok _ _ _ _ _ h1, ih _ hr]
      simp [List.filter_cons, isActive, isInactive, h, Tbl.importOn]
    · have h1 : initNodeStep s n = .ok { s with nodeInactive := s.nodeInactive.set n.addr n } := by
        unfold initNodeStep setNode; simp only [h]; rfl
      rw [foldlM_cons_ok _ _ _ _ _ h1, ih _ hr]
      simp [List.filter_cons, isActive, isInactive, h, Tbl.importOn]

/-- `provider.InitGenesis` loop. -/
theorem initProviders_fold (ps : List Provider) (s : State)
    (hst : ∀ p ∈ ps, p.status = .StatusActive ∨ p.status = .StatusInactive) :
    ps.foldlM setProvider s = .ok { s with
      provActive := Tbl.importOn s.provActive ((ps.filter (isActive (·.status))).map fun p => (p.addr, p))
      provInactive := Tbl.importOn s.provInactive ((ps.filter (isInactive (·.status))).map fun p => (p.addr, p)) } := by
  induction ps generalizing s with
  | nil => rfl
  | cons n rest ih =>
    have hr := fun m hm => hst m (List.mem_cons_of_mem _ hm)
    rcases hst n (List.mem_cons_self ..) with h | h
    · have h1 : setProvider s n = .ok { s with provActive := s.provActive.set n.addr n } := by
        unfold setProvider; simp only [h]; rfl
      rw [foldlM_cons_ok _ _ _ _ _ h1, ih _ hr]
      simp [isActive, isInactive, h, Tbl.importOn]
    · have h1 : setProvider s n = .ok { s with provInactive := s.provInactive.set n.addr n } := by
        unfold setProvider; simp only [h]; rfl
      rw [foldlM_cons_ok _ _ _ _ _ h1, ih _ hr]
      simp [isActive, isInactive, h, Tbl.importOn]

/-- The link entries a plan genesis writes. -/
def planLinks (ps : List GenesisPlan) : List (Nat × Addr) := ps.flatMap fun it => it.nodes.map fun a => (it.plan.id, a)

/-- `plan.InitGenesis` loop. -/
theorem initPlans_fold (ps : List GenesisPlan) (s : State)
    (hst : ∀ it ∈ ps, it.plan.status = .StatusActive ∨ it.plan.status = .StatusInactive) :
    ps.foldlM initPlanStep s = .ok { s with
      planActive := Tbl.importOn s.planActive ((ps.filter (isActive (·.plan.status))).map fun it => (it.plan.id, it.plan))
      planInactive := Tbl.importOn s.planInactive ((ps.filter (isInactive (·.plan.status))).map fun it => (it.plan.id, it.plan))
      planForProv := (ps.map fun it => (it.plan.prov, it.plan.id)).foldl (fun t x => t.set x ()) s.planForProv
      nodeForPlan := (planLinks ps).foldl (fun t x => t.set x ()) s.nodeForPlan } := by
  induction ps generalizing s with
  | nil => rfl
  | cons n rest ih =>
    have hr := fun m hm => hst m (List.mem_cons_of_mem _ hm)
    rcases hst n (List.mem_cons_self ..) with h | h
    · have h1 : initPlanStep s n = .ok { s with
            planActive := s.planActive.set n.plan.id n.plan
            planForProv := s.planForProv.set (n.plan.prov, n.plan.id) ()
            nodeForPlan := (n.nodes.map fun a => (n.plan.id, a)).foldl (fun t x => t.set x ()) s.nodeForPlan } := by
        unfold initPlanStep setPlan; simp only [h, List.foldl_map]; rfl
      rw [foldlM_cons_ok _ _ _ _ _ h1, ih _ hr]
      simp [isActive, isInactive, h, Tbl.importOn, planLinks, List.foldl_append]
    · have h1 : initPlanStep s n = .ok { s with
            planInactive := s.planInactive.set n.plan.id n.plan
            planForProv := s.planForProv.set (n.plan.prov, n.plan.id) ()
            nodeForPlan := (n.nodes.map fun a => (n.plan.id, a)).foldl (fun t x => t.set x ()) s.nodeForPlan } := by
        unfold initPlanStep setPlan; simp only [h, List.foldl_map]; rfl
      rw [foldlM_cons_ok _ _ _ _ _ h1, ih _ hr]
      simp [isActive, isInactive, h, Tbl.importOn, planLinks, List.foldl_append]

/-- `session.InitGenesis` loop. -/
theorem initSessions_fold (xs : List Session) (s : State) :
    xs.foldl initSessionStep s = { s with
      sessions := Tbl.importOn s.sessions (xs.map fun x => (x.id, x))
      sessForAcc := (xs.map fun x => (x.addr, x.id)).foldl (fun t k => t.set k ()) s.sessForAcc
      sessForNode := (xs.map fun x => (x.node, x.id)).foldl (fun t k => t.set k ()) s.sessForNode
      sessForSub := (xs.map fun x => (x.sub, x.id)).foldl (fun t k => t.set k ()) s.sessForSub
      sessForAlloc := (xs.map fun x => (x.sub, x.addr, x.id)).foldl (fun t k => t.set k ()) s.sessForAlloc
      sessQ := (xs.map fun x => (x.inactiveAt, x.id)).foldl (fun t k => t.set k ()) s.sessQ } := by
  induction xs generalizing s with
  | nil => rfl
  | cons x rest ih =>
    rw [List.foldl_cons, ih]
    simp [initSessionStep, Tbl.importOn]

/-! ### what a re-import produces -/

theorem params_rebuild (p : Params) :
    ({ provDeposit := p.provider.deposit, provShare := p.provider.share, nodeDeposit := p.node.deposit, activeDur := p.node.activeDur,
       maxGB := p.node.maxGB, minGB := p.node.minGB, maxHr := p.node.maxHr, minHr := p.node.minHr, maxSubGB := p.node.maxSubGB,
       minSubGB := p.node.minSubGB, maxSubHr := p.node.maxSubHr, minSubHr := p.node.minSubHr, nodeShare := p.node.share,
       subDelay := p.subscription.delay, sessDelay := p.session.delay, proof := p.session.proof, swapOn := p.swap.on,
       swapDenom := p.swap.denom, approveBy := p.swap.approveBy } : Params) = p := by
  cases p; rfl

/-- Result of the `node.InitGenesis` loop (see `initNodes_fold`). -/
def nodesInto (ns : List Node) (s : State) : State :=
  { s with
    nodeActive := Tbl.importOn s.nodeActive ((ns.filter (isActive (·.status))).map fun n => (n.addr, n))
    nodeInactive := Tbl.importOn s.nodeInactive ((ns.filter (isInactive (·.status))).map fun n => (n.addr, n))
    nodeQ := ((ns.filter (isActive (·.status))).map fun n => (n.inactiveAt, n.addr)).foldl (fun t x => t.set x ()) s.nodeQ }

def plansInto (ps : List GenesisPlan) (s : State) : State :=
  { s with
    planActive := Tbl.importOn s.planActive ((ps.filter (isActive (·.plan.status))).map fun it => (it.plan.id, it.plan))
    planInactive := Tbl.importOn s.planInactive ((ps.filter (isInactive (·.plan.status))).map fun it => (it.plan.id, it.plan))
    planForProv := (ps.map fun it => (it.plan.prov, it.plan.id)).foldl (fun t x => t.set x ()) s.planForProv
    nodeForPlan := (planLinks ps).foldl (fun t x => t.set x ()) s.nodeForPlan
    planCount := some (maxId (ps.map (·.plan.id))) }

def providersInto (ps : List Provider) (s : State) : State :=
  { s with
    provActive := Tbl.importOn s.provActive ((ps.filter (isActive (·.status))).map fun p => (p.addr, p))
    provInactive := Tbl.importOn s.provInactive ((ps.filter (isInactive (·.status))).map fun p => (p.addr, p)) }

def sessionsInto (xs : List Session) (p : SessionParams) (s : State) : State :=
  { s with
    params := { s.params with sessDelay := p.delay, proof := p.proof }
    sessions := Tbl.importOn s.sessions (xs.map fun x => (x.id, x))
    sessForAcc := Tbl.keysOn s.sessForAcc (xs.map fun x => (x.addr, x.id))
    sessForNode := Tbl.keysOn s.sessForNode (xs.map fun x => (x.node, x.id))
    sessForSub := Tbl.keysOn s.sessForSub (xs.map fun x => (x.sub, x.id))
    sessForAlloc := Tbl.keysOn s.sessForAlloc (xs.map fun x => (x.sub, x.addr, x.id))
    sessQ := Tbl.keysOn s.sessQ (xs.map fun x => (x.inactiveAt, x.id))
    sessCount := some (maxId (xs.map (·.id))) }

theorem initSessions_eq (xs : List Session) (p : SessionParams) (s : State) : initSessions xs p s = sessionsInto xs p s := by
  have h : initSessions xs p s =
      { (xs.foldl initSessionStep { s with params := { s.params with sessDelay := p.delay, proof := p.proof } }) with
        sessCount := some (maxId (xs.map (·.id))) } := rfl
  rw [h, initSessions_fold]; rfl

def setProviderParams (s : State) (p : ProviderParams) : State :=
  { s with params := { s.params with provDeposit := p.deposit, provShare := p.share } }

/-- The state a successful re-import of `s` yields: the pure form of `initGenesis` on the export of `s`. -/
def imported (s : State) : State :=
  initMint (exportMint s) (initSwap (exportSwap s)
    (initSubscriptions [] s.params.subscription
      (sessionsInto (exportVals session.SessionKey s.sessions) s.params.session
        (providersInto (exportProviders s)
          (setProviderParams
            (plansInto (exportPlans s)
              (nodesInto (exportNodes s)
                (setNodeParams (initDeposits (exportTbl deposit.DepositKey s.deposits) (sdkSide s)) s.params.node)))
            s.params.provider)))))

theorem initGenesis_exported (s : State)
    (hN : ∀ n ∈ exportNodes s, n.status = .StatusActive ∨ n.status = .StatusInactive)
    (hP : ∀ it ∈ exportPlans s, it.plan.status = .StatusActive ∨ it.plan.status = .StatusInactive)
    (hR : ∀ p ∈ exportProviders s, p.status = .StatusActive ∨ p.status = .StatusInactive) :
    initGenesis (sdkSide s) (exportVpn s) (exportSwap s) (exportMint s) = .ok (imported s) := by
  have e2 : ∀ s0, initNodes (exportVpn s).nodes (exportVpn s).nodeParams s0
      = .ok (nodesInto (exportVpn s).nodes (setNodeParams s0 (exportVpn s).nodeParams)) :=
    fun s0 => initNodes_fold (exportVpn s).nodes _ hN
  have e3 : ∀ s0, initPlans (exportVpn s).plans s0 = .ok (plansInto (exportVpn s).plans s0) := by
    intro s0; unfold initPlans; rw [initPlans_fold (exportVpn s).plans _ hP]; rfl
  have e4 : ∀ s0, initProviders (exportVpn s).providers (exportVpn s).providerParams s0
      = .ok (providersInto (exportVpn s).providers
          { s0 with params := { s0.params with provDeposit := (exportVpn s).providerParams.deposit, provShare := (exportVpn s).providerParams.share } }) :=
    fun s0 => initProviders_fold (exportVpn s).providers _ hR
  have e5 : initVpn (exportVpn s) (sdkSide s) =
      (initNodes (exportVpn s).nodes (exportVpn s).nodeParams (initDeposits (exportVpn s).deposits (sdkSide s)) >>= fun s2 =>
       initPlans (exportVpn s).plans s2 >>= fun s3 =>
       initProviders (exportVpn s).providers (exportVpn s).providerParams s3 >>= fun s4 =>
       pure (initSubscriptions (exportVpn s).subscriptions (exportVpn s).subscriptionParams
              (initSessions (exportVpn s).sessions (exportVpn s).sessionParams s4))) := rfl
  unfold initGenesis
  rw [e5, e2, ok_bind, e3, ok_bind, e4, ok_bind, pure_bind', initSessions_eq]
  rfl

/-! ### projections of the re-imported state

(`rfl` through the nine layers is exponential in the elaborator's unifier; `simp only` with the layer
definitions reduces the projections layer by layer.) -/

macro "imp_proj" : tactic => `(tactic| simp only [imported, initMint, initSwap, initSubscriptions, sessionsInto, providersInto,
  setProviderParams, plansInto, nodesInto, setNodeParams, initDeposits, sdkSide])

section proj
variable (s : State)
theorem imported_deposits : (imported s).deposits = Tbl.importOn [] (exportTbl deposit.DepositKey s.deposits) := by imp_proj; rfl
theorem imported_nodeActive : (imported s).nodeActive = Tbl.importOn [] (((exportNodes s).filter (isActive (·.status))).map fun n => (n.addr, n)) := by imp_proj
theorem imported_nodeInactive : (imported s).nodeInactive = Tbl.importOn [] (((exportNodes s).filter (isInactive (·.status))).map fun n => (n.addr, n)) := by imp_proj
theorem imported_nodeQ : (imported s).nodeQ = Tbl.keysOn [] (((exportNodes s).filter (isActive (·.status))).map fun n => (n.inactiveAt, n.addr)) := by imp_proj; rfl
theorem imported_planActive : (imported s).planActive = Tbl.importOn [] (((exportPlans s).filter (isActive (·.plan.status))).map fun it => (it.plan.id, it.plan)) := by imp_proj
theorem imported_planInactive : (imported s).planInactive = Tbl.importOn [] (((exportPlans s).filter (isInactive (·.plan.status))).map fun it => (it.plan.id, it.plan)) := by imp_proj
theorem imported_planForProv : (imported s).planForProv = Tbl.keysOn [] ((exportPlans s).map fun it => (it.plan.prov, it.plan.id)) := by imp_proj; rfl
theorem imported_nodeForPlan : (imported s).nodeForPlan = Tbl.keysOn [] (planLinks (exportPlans s)) := by imp_proj; rfl
theorem imported_planCount : (imported s).planCount = some (maxId ((exportPlans s).map (·.plan.id))) := by imp_proj
theorem imported_provActive : (imported s).provActive = Tbl.importOn [] (((exportProviders s).filter (isActive (·.status))).map fun p => (p.addr, p)) := by imp_proj
theorem imported_provInactive : (imported s).provInactive = Tbl.importOn [] (((exportProviders s).filter (isInactive (·.status))).map fun p => (p.addr, p)) := by imp_proj
theorem imported_sessions : (imported s).sessions = Tbl.importOn [] ((exportVals session.SessionKey s.sessions).map fun x => (x.id, x)) := by imp_proj
theorem imported_sessForAcc : (imported s).sessForAcc = Tbl.keysOn [] ((exportVals session.SessionKey s.sessions).map fun x => (x.addr, x.id)) := by imp_proj
theorem imported_sessForNode : (imported s).sessForNode = Tbl.keysOn [] ((exportVals session.SessionKey s.sessions).map fun x => (x.node, x.id)) := by imp_proj
theorem imported_sessForSub : (imported s).sessForSub = Tbl.keysOn [] ((exportVals session.SessionKey s.sessions).map fun x => (x.sub, x.id)) := by imp_proj
theorem imported_sessForAlloc : (imported s).sessForAlloc = Tbl.keysOn [] ((exportVals session.SessionKey s.sessions).map fun x => (x.sub, x.addr, x.id)) := by imp_proj
theorem imported_sessQ : (imported s).sessQ = Tbl.keysOn [] ((exportVals session.SessionKey s.sessions).map fun x => (x.inactiveAt, x.id)) := by imp_proj
theorem imported_sessCount : (imported s).sessCount = some (maxId ((exportVals session.SessionKey s.sessions).map (·.id))) := by imp_proj
theorem imported_swaps : (imported s).swaps = Tbl.importOn [] ((exportVals swap.SwapKey s.swaps).map fun x => (x.hash, x)) := by
  imp_proj; unfold Tbl.importOn exportSwap; rw [List.foldl_map]
theorem imported_inflations : (imported s).inflations = Tbl.importOn [] ((exportVals mint.InflationKey s.inflations).map fun i => (i.ts, i)) := by
  imp_proj; unfold Tbl.importOn exportMint; rw [List.foldl_map]
theorem imported_params : (imported s).params = s.params := by
  imp_proj; simp only [exportSwap]; exact params_rebuild s.params
/-- F5, for every state: nothing of the subscription module survives except its parameter. -/
theorem imported_subscriptions_empty :
    (imported s).subs = [] ∧ (imported s).subQ = [] ∧ (imported s).subForAcc = [] ∧ (imported s).subForNode = [] ∧
    (imported s).subForPlan = [] ∧ (imported s).allocs = [] ∧ (imported s).payouts = [] ∧ (imported s).payQ = [] ∧
    (imported s).payForAcc = [] ∧ (imported s).payForNode = [] ∧ (imported s).payForAccNode = [] ∧ (imported s).subCount = none := by
  imp_proj; simp
/-- The SDK side is kept; the imported state is an uncommitted genesis: all four price-bound `modified` flags are
set (`setNodeParams`), so the first `endBlock` after the import sweeps the node prices. -/
theorem imported_sdk :
    (imported s).bank = s.bank ∧ (imported s).supply = s.supply ∧ (imported s).time = s.time ∧ (imported s).height = s.height ∧
    (imported s).keyed = s.keyed ∧ (imported s).mintMax = s.mintMax ∧ (imported s).mintMin = s.mintMin ∧
    (imported s).mintRate = s.mintRate ∧ (imported s).minterInfl = s.minterInfl ∧
    (imported s).modified = { maxGB := true, minGB := true, maxHr := true, minHr := true } ∧ (imported s).events = [] := by
  imp_proj; simp
end proj

/-! ### provider / node / plan messages only see tables up to order

`AgreePNP s s'`: the two states hold the same provider, node and plan records, node queue, links,
provider index, plan counter, bank, parameters, time and event buffer — tables compared by lookup, not
as lists. Every provider/node/plan management message is processed alike on two such states. -/

structure AgreePNP (s s' : State) : Prop where
  bank : s'.bank = s.bank
  time : s'.time = s.time
  params : s'.params = s.params
  events : s'.events = s.events
  planCount : s'.planCount = s.planCount
  provActive : ∀ k, s'.provActive.get k = s.provActive.get k
  provInactive : ∀ k, s'.provInactive.get k = s.provInactive.get k
  nodeActive : ∀ k, s'.nodeActive.get k = s.nodeActive.get k
  nodeInactive : ∀ k, s'.nodeInactive.get k = s.nodeInactive.get k
  nodeQ : ∀ k, s'.nodeQ.get k = s.nodeQ.get k
  nodeForPlan : ∀ k, s'.nodeForPlan.get k = s.nodeForPlan.get k
  planActive : ∀ k, s'.planActive.get k = s.planActive.get k
  planInactive : ∀ k, s'.planInactive.get k = s.planInactive.get k
  planForProv : ∀ k, s'.planForProv.get k = s.planForProv.get k

section congr
variable {κ α : Type} [DecidableEq κ]

theorem same_set {t t' : Tbl κ α} (h : ∀ k, t'.get k = t.get k) (a : κ) (v : α) : ∀ k, (t'.set a v).get k = (t.set a v).get k := by
  intro k; rw [Tbl.get_set, Tbl.get_set, h k]

theorem same_erase {t t' : Tbl κ α} (h : ∀ k, t'.get k = t.get k) (a : κ) : ∀ k, (t'.erase a).get k = (t.erase a).get k := by
  intro k; rw [Tbl.get_erase, Tbl.get_erase, h k]

theorem same_has {t t' : Tbl κ α} (h : ∀ k, t'.get k = t.get k) (a : κ) : t'.has a = t.has a := by
  unfold Tbl.has; rw [h a]

end congr

/-- Two runs of a handler are related: both succeed with related states, or both fail alike. -/
def RelM (r r' : M State) : Prop :=
  match r, r' with
  | .ok t, .ok t' => AgreePNP t t'
  | .error e, .error e' => e = e'
  | _, _ => False

theorem RelM.pure {t t' : State} (h : AgreePNP t t') : RelM (pure t) (pure t') := h

theorem RelM.bind {x x' : M State} {f f' : State → M State} (hx : RelM x x')
    (hf : ∀ t t', AgreePNP t t' → RelM (f t) (f' t')) : RelM (x >>= f) (x' >>= f') := by
  cases x with
  | error e => cases x' with
    | error e' => exact hx
    | ok t' => exact hx.elim
  | ok t => cases x' with
    | error e' => exact hx.elim
    | ok t' => exact hf t t' hx

theorem relM_require (c : Bool) (msg : String) {k k' : M State} (h : RelM k k') :
    RelM (require c msg >>= fun _ => k) (require c msg >>= fun _ => k') := by
  cases c
  · show RelM (.error _) (.error _); rfl
  · exact h

theorem relM_orReject {β : Type} (o : Option β) (msg : String) {f f' : β → M State} (h : ∀ a, RelM (f a) (f' a)) :
    RelM (orReject o msg >>= f) (orReject o msg >>= f') := by
  cases o with
  | none => show RelM (.error _) (.error _); rfl
  | some a => exact h a

namespace AgreePNP
variable {s s' : State}

theorem emit (h : AgreePNP s s') (e : Event) : AgreePNP (Hub.Model.emit s e) (Hub.Model.emit s' e) := by
  unfold Hub.Model.emit
  exact { h with events := by show s'.events ++ [e] = s.events ++ [e]; rw [h.events] }

theorem setBalance (h : AgreePNP s s') (a : Addr) (d : Denom) (v : Int) :
    AgreePNP (Hub.Model.setBalance s a d v) (Hub.Model.setBalance s' a d v) := by
  unfold Hub.Model.setBalance
  exact { h with bank := by simp only [h.bank] }

theorem balance (h : AgreePNP s s') (a : Addr) (d : Denom) : Hub.Model.balance s' a d = Hub.Model.balance s a d := by
  unfold Hub.Model.balance; rw [h.bank]

theorem hasProvider (h : AgreePNP s s') (a : Addr) : Hub.Model.hasProvider s' a = Hub.Model.hasProvider s a := by
  unfold Hub.Model.hasProvider; rw [same_has h.provActive, same_has h.provInactive]

theorem getProvider (h : AgreePNP s s') (a : Addr) : Hub.Model.getProvider s' a = Hub.Model.getProvider s a := by
  unfold Hub.Model.getProvider; rw [h.provActive, h.provInactive]

theorem hasNode (h : AgreePNP s s') (a : Addr) : Hub.Model.hasNode s' a = Hub.Model.hasNode s a := by
  unfold Hub.Model.hasNode; rw [same_has h.nodeActive, same_has h.nodeInactive]

theorem getNode (h : AgreePNP s s') (a : Addr) : Hub.Model.getNode s' a = Hub.Model.getNode s a := by
  unfold Hub.Model.getNode; rw [h.nodeActive, h.nodeInactive]

theorem getPlan (h : AgreePNP s s') (i : Nat) : Hub.Model.getPlan s' i = Hub.Model.getPlan s i := by
  unfold Hub.Model.getPlan; rw [h.planActive, h.planInactive]

end AgreePNP

theorem sendCoins_rel {s s' : State} (h : AgreePNP s s') (frm dst : Addr) (c : Coin) :
    RelM (sendCoins s frm dst c) (sendCoins s' frm dst c) := by
  unfold sendCoins
  rw [h.balance]
  apply relM_require
  have h1 := h.setBalance frm c.denom (balance s frm c.denom - c.amount)
  show RelM
    (SInt.add (balance (setBalance s frm c.denom (balance s frm c.denom - c.amount)) dst c.denom) c.amount >>= fun nb =>
      Pure.pure (setBalance (setBalance s frm c.denom (balance s frm c.denom - c.amount)) dst c.denom nb))
    (SInt.add (balance (setBalance s' frm c.denom (balance s frm c.denom - c.amount)) dst c.denom) c.amount >>= fun nb =>
      Pure.pure (setBalance (setBalance s' frm c.denom (balance s frm c.denom - c.amount)) dst c.denom nb))
  rw [h1.balance]
  cases hadd : SInt.add (balance (setBalance s frm c.denom (balance s frm c.denom - c.amount)) dst c.denom) c.amount with
  | error e => show RelM (.error _) (.error _); rfl
  | ok nb => exact h1.setBalance dst c.denom nb

theorem fundCommunityPool_rel {s s' : State} (h : AgreePNP s s') (frm : Addr) (c : Coin) :
    RelM (fundCommunityPool s frm c) (fundCommunityPool s' frm c) := by
  unfold fundCommunityPool
  split
  · exact h
  · exact sendCoins_rel h _ _ _

theorem setProvider_rel {s s' : State} (h : AgreePNP s s') (p : Provider) : RelM (setProvider s p) (setProvider s' p) := by
  unfold setProvider
  cases p.status
  · show RelM (.error _) (.error _); rfl
  · exact { h with provActive := same_set h.provActive _ _ }
  · show RelM (.error _) (.error _); rfl
  · exact { h with provInactive := same_set h.provInactive _ _ }

theorem setNode_rel {s s' : State} (h : AgreePNP s s') (n : Node) : RelM (setNode s n) (setNode s' n) := by
  unfold setNode
  cases n.status
  · show RelM (.error _) (.error _); rfl
  · exact { h with nodeActive := same_set h.nodeActive _ _ }
  · show RelM (.error _) (.error _); rfl
  · exact { h with nodeInactive := same_set h.nodeInactive _ _ }

theorem setPlan_rel {s s' : State} (h : AgreePNP s s') (p : Plan) : RelM (setPlan s p) (setPlan s' p) := by
  unfold setPlan
  cases p.status
  · show RelM (.error _) (.error _); rfl
  · exact { h with planActive := same_set h.planActive _ _ }
  · show RelM (.error _) (.error _); rfl
  · exact { h with planInactive := same_set h.planInactive _ _ }

/-! #### the nine provider / node / plan handlers

(No global rewriting with `h.time`/`h.params`: it would also rewrite inside the expanded `{ s' with … }`
literals. The primitives take the equalities of their arguments as side conditions instead.) -/

theorem relM_require' {c c' : Bool} (hc : c' = c) (msg : String) {k k' : M State} (h : RelM k k') :
    RelM (require c msg >>= fun _ => k) (require c' msg >>= fun _ => k') := by
  subst hc; exact relM_require _ _ h

theorem relM_orReject' {β : Type} {o o' : Option β} (ho : o' = o) (msg : String) {f f' : β → M State} (h : ∀ a, RelM (f a) (f' a)) :
    RelM (orReject o msg >>= f) (orReject o' msg >>= f') := by
  subst ho; exact relM_orReject _ _ h

theorem fundCommunityPool_rel' {s s' : State} (h : AgreePNP s s') (frm : Addr) {c c' : Coin} (hc : c' = c) :
    RelM (fundCommunityPool s frm c) (fundCommunityPool s' frm c') := by
  subst hc; exact fundCommunityPool_rel h _ _

theorem setProvider_rel' {s s' : State} (h : AgreePNP s s') {p p' : Provider} (hp : p' = p) : RelM (setProvider s p) (setProvider s' p') := by
  subst hp; exact setProvider_rel h _

theorem setNode_rel' {s s' : State} (h : AgreePNP s s') {p p' : Node} (hp : p' = p) : RelM (setNode s p) (setNode s' p') := by
  subst hp; exact setNode_rel h _

theorem setPlan_rel' {s s' : State} (h : AgreePNP s s') {p p' : Plan} (hp : p' = p) : RelM (setPlan s p) (setPlan s' p') := by
  subst hp; exact setPlan_rel h _

section handlers
variable {s s' : State}

theorem provRegister_rel (h : AgreePNP s s') (frm : Addr) (name identity website desc : Bytes) :
    RelM (provRegister s frm name identity website desc) (provRegister s' frm name identity website desc) := by
  unfold provRegister
  apply relM_require' (by rw [h.hasProvider])
  apply RelM.bind (fundCommunityPool_rel' h _ (by rw [h.params]))
  intro t t' ht
  apply RelM.bind (setProvider_rel' ht (by rw [h.time]))
  intro u u' hu
  exact RelM.pure (hu.emit _)

theorem provUpdate_rel (h : AgreePNP s s') (frm : Addr) (name identity website desc : Bytes) (status : Status) :
    RelM (provUpdate s frm name identity website desc status) (provUpdate s' frm name identity website desc status) := by
  unfold provUpdate
  apply relM_orReject' (h.getProvider frm)
  intro p
  have h1 : AgreePNP (if status ≠ .StatusUnspecified ∧ p.status = .StatusActive ∧ status = .StatusInactive
      then { s with provActive := s.provActive.erase frm } else s)
      (if status ≠ .StatusUnspecified ∧ p.status = .StatusActive ∧ status = .StatusInactive
      then { s' with provActive := s'.provActive.erase frm } else s') := by
    split
    · exact { h with provActive := same_erase h.provActive _ }
    · exact h
  have h2 : ∀ {t t' : State}, AgreePNP t t' → AgreePNP (if status ≠ .StatusUnspecified ∧ p.status = .StatusInactive ∧ status = .StatusActive
      then { t with provInactive := t.provInactive.erase frm } else t)
      (if status ≠ .StatusUnspecified ∧ p.status = .StatusInactive ∧ status = .StatusActive
      then { t' with provInactive := t'.provInactive.erase frm } else t') := by
    intro t t' ht
    split
    · exact { ht with provInactive := same_erase ht.provInactive _ }
    · exact ht
  dsimp only
  apply RelM.bind (setProvider_rel' (h2 h1) (by rw [h.time]))
  intro u u' hu
  exact RelM.pure (hu.emit _)

theorem nodeRegister_rel (h : AgreePNP s s') (frm : Addr) (gb hr : Coins) (url : Bytes) :
    RelM (nodeRegister s frm gb hr url) (nodeRegister s' frm gb hr url) := by
  unfold nodeRegister
  apply relM_require' (by rw [h.params])
  apply relM_require' (by rw [h.params])
  apply relM_require' (by rw [h.hasNode])
  apply RelM.bind (fundCommunityPool_rel' h _ (by rw [h.params]))
  intro t t' ht
  apply RelM.bind (setNode_rel' ht (by rw [h.time]))
  intro u u' hu
  exact RelM.pure (hu.emit _)

theorem nodeUpdate_rel (h : AgreePNP s s') (frm : Addr) (gb hr : Option Coins) (url : Bytes) :
    RelM (nodeUpdate s frm gb hr url) (nodeUpdate s' frm gb hr url) := by
  unfold nodeUpdate
  apply relM_require' (by rw [h.params])
  apply relM_require' (by rw [h.params])
  apply relM_orReject' (h.getNode frm)
  intro n
  apply RelM.bind (setNode_rel h _)
  intro u u' hu
  exact RelM.pure (hu.emit _)

theorem nodeStatus_rel (h : AgreePNP s s') (frm : Addr) (status : Status) :
    RelM (nodeStatus s frm status) (nodeStatus s' frm status) := by
  unfold nodeStatus
  apply relM_orReject' (h.getNode frm)
  intro n
  have h1 : AgreePNP (if n.status = .StatusActive then { s with nodeQ := s.nodeQ.erase (n.inactiveAt, frm) } else s)
      (if n.status = .StatusActive then { s' with nodeQ := s'.nodeQ.erase (n.inactiveAt, frm) } else s') := by
    split
    · exact { h with nodeQ := same_erase h.nodeQ _ }
    · exact h
  have h2 : ∀ {t t' : State}, AgreePNP t t' →
      AgreePNP (if n.status = .StatusActive ∧ status = .StatusInactive then { t with nodeActive := t.nodeActive.erase frm } else t)
        (if n.status = .StatusActive ∧ status = .StatusInactive then { t' with nodeActive := t'.nodeActive.erase frm } else t') := by
    intro t t' ht
    split
    · exact { ht with nodeActive := same_erase ht.nodeActive _ }
    · exact ht
  have h3 : ∀ {t t' : State}, AgreePNP t t' →
      AgreePNP (if n.status = .StatusInactive ∧ status = .StatusActive then { t with nodeInactive := t.nodeInactive.erase frm } else t)
        (if n.status = .StatusInactive ∧ status = .StatusActive then { t' with nodeInactive := t'.nodeInactive.erase frm } else t') := by
    intro t t' ht
    split
    · exact { ht with nodeInactive := same_erase ht.nodeInactive _ }
    · exact ht
  have hk : (s'.time + s'.params.activeDur, frm) = (s.time + s.params.activeDur, frm) := by rw [h.time, h.params]
  have h4 : ∀ {t t' : State}, AgreePNP t t' →
      AgreePNP (if status = .StatusActive then { t with nodeQ := t.nodeQ.set (s.time + s.params.activeDur, frm) () } else t)
        (if status = .StatusActive then { t' with nodeQ := t'.nodeQ.set (s'.time + s'.params.activeDur, frm) () } else t') := by
    intro t t' ht
    rw [hk]
    split
    · exact { ht with nodeQ := same_set ht.nodeQ _ _ }
    · exact ht
  dsimp only
  apply RelM.bind (setNode_rel' (h4 (h3 (h2 h1))) (by rw [h.time, h.params]))
  intro u u' hu
  exact RelM.pure (hu.emit _)

theorem planCreate_rel (h : AgreePNP s s') (frm : Addr) (dur : Dur) (gb : Int) (prices : Coins) :
    RelM (planCreate s frm dur gb prices) (planCreate s' frm dur gb prices) := by
  unfold planCreate
  apply relM_require' (by rw [h.hasProvider])
  have h1 : AgreePNP { s with planCount := some (s.planCount.getD 0 + 1) } { s' with planCount := some (s'.planCount.getD 0 + 1) } :=
    { h with planCount := by show some _ = some _; rw [h.planCount] }
  dsimp only
  apply RelM.bind (setPlan_rel' h1 (by rw [h.time, h.planCount]))
  intro t t' ht
  have h2 : AgreePNP { t with planForProv := t.planForProv.set (frm, s.planCount.getD 0 + 1) () }
      { t' with planForProv := t'.planForProv.set (frm, s'.planCount.getD 0 + 1) () } := by
    rw [h.planCount]
    exact { ht with planForProv := same_set ht.planForProv _ _ }
  rw [h.planCount] at h2 ⊢
  exact RelM.pure (h2.emit _)

theorem planStatus_rel (h : AgreePNP s s') (frm : Addr) (id : Nat) (status : Status) :
    RelM (planStatus s frm id status) (planStatus s' frm id status) := by
  unfold planStatus
  apply relM_orReject' (h.getPlan id)
  intro p
  apply relM_require' rfl
  have h1 : AgreePNP (if p.status = .StatusActive ∧ status = .StatusInactive then { s with planActive := s.planActive.erase id } else s)
      (if p.status = .StatusActive ∧ status = .StatusInactive then { s' with planActive := s'.planActive.erase id } else s') := by
    split
    · exact { h with planActive := same_erase h.planActive _ }
    · exact h
  have h2 : ∀ {t t' : State}, AgreePNP t t' →
      AgreePNP (if p.status = .StatusInactive ∧ status = .StatusActive then { t with planInactive := t.planInactive.erase id } else t)
        (if p.status = .StatusInactive ∧ status = .StatusActive then { t' with planInactive := t'.planInactive.erase id } else t') := by
    intro t t' ht
    split
    · exact { ht with planInactive := same_erase ht.planInactive _ }
    · exact ht
  dsimp only
  apply RelM.bind (setPlan_rel' (h2 h1) (by rw [h.time]))
  intro u u' hu
  exact RelM.pure (hu.emit _)

theorem planLink_rel (h : AgreePNP s s') (frm : Addr) (id : Nat) (node : Addr) :
    RelM (planLink s frm id node) (planLink s' frm id node) := by
  unfold planLink
  apply relM_orReject' (h.getPlan id)
  intro p
  apply relM_require' rfl
  apply relM_require' (h.hasNode node)
  have h1 : AgreePNP { s with nodeForPlan := s.nodeForPlan.set (id, node) () } { s' with nodeForPlan := s'.nodeForPlan.set (id, node) () } :=
    { h with nodeForPlan := same_set h.nodeForPlan _ _ }
  exact RelM.pure (h1.emit _)

theorem planUnlink_rel (h : AgreePNP s s') (frm : Addr) (id : Nat) (node : Addr) :
    RelM (planUnlink s frm id node) (planUnlink s' frm id node) := by
  unfold planUnlink
  apply relM_orReject' (h.getPlan id)
  intro p
  apply relM_require' rfl
  have h1 : AgreePNP { s with nodeForPlan := s.nodeForPlan.erase (id, node) } { s' with nodeForPlan := s'.nodeForPlan.erase (id, node) } :=
    { h with nodeForPlan := same_erase h.nodeForPlan _ }
  exact RelM.pure (h1.emit _)

end handlers

end Hub.Model.Gen
