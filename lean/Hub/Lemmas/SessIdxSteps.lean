import Hub.Lemmas.Effects
import Hub.Lemmas.SessIdxTbl
import Hub.Model.Run
import Mathlib.Tactic.SplitIfs
import Aesop
/-
C09, session side: `SessIdx` (every secondary key of a session exists exactly while the session
does; no duplicate keys) is preserved by every handler, every hook piece and every operation of a
history.

The only facts needed from `CountInv` are `x.id = i` for a stored session and `i ≤ sessCount`
(`SessKeyed`); freshness of a new id in the five index tables then follows from `SessIdx` itself.
`SessKeyed ∧ SessIdx` (`SessInv`) is preserved on its own, so the whole-history theorems need
`CountInv` only for the state they start from.
-/
namespace Hub.Model
open Hub.SDK
open Hub.Generated (Status AmountForBytes GetProportionOfCoin Gigabyte)

/-- The part of the state `SessIdx` and `SessKeyed` read. -/
structure SessView where
  sessions : Tbl Nat Session
  sessQ : Tbl (Time × Nat) Unit
  sessForAcc : Tbl (Addr × Nat) Unit
  sessForNode : Tbl (Addr × Nat) Unit
  sessForSub : Tbl (Nat × Nat) Unit
  sessForAlloc : Tbl (Nat × Addr × Nat) Unit
  sessCount : Option Nat

def sview (s : State) : SessView :=
  ⟨s.sessions, s.sessQ, s.sessForAcc, s.sessForNode, s.sessForSub, s.sessForAlloc, s.sessCount⟩

/-- What is used of `CountInv`: a session is stored under its own id, which has been issued. -/
def SessKeyed (s : State) : Prop := ∀ i x, s.sessions.get i = some x → x.id = i ∧ i ≤ s.sessCount.getD 0

theorem CountInv.sessKeyed {s : State} (h : CountInv s) : SessKeyed s :=
  fun i x hx => ⟨(h.sessions i x hx).1, (h.sessions i x hx).2.2.1⟩

def SessInv (s : State) : Prop := SessKeyed s ∧ SessIdx s

theorem SessIdx.of_view {s s' : State} (h : sview s' = sview s) (hi : SessIdx s) : SessIdx s' := by
  have h1 : s'.sessions = s.sessions := congrArg SessView.sessions h
  have h2 : s'.sessQ = s.sessQ := congrArg SessView.sessQ h
  have h3 : s'.sessForAcc = s.sessForAcc := congrArg SessView.sessForAcc h
  have h4 : s'.sessForNode = s.sessForNode := congrArg SessView.sessForNode h
  have h5 : s'.sessForSub = s.sessForSub := congrArg SessView.sessForSub h
  have h6 : s'.sessForAlloc = s.sessForAlloc := congrArg SessView.sessForAlloc h
  refine ⟨?_, ?_, ?_, ?_, ?_, ?_⟩
  · rw [h1, h2]; exact hi.q
  · rw [h1, h3]; exact hi.acc
  · rw [h1, h4]; exact hi.node
  · rw [h1, h5]; exact hi.sub
  · rw [h1, h6]; exact hi.alloc
  · rw [h1, h2, h3, h4, h5, h6]; exact hi.nodup

theorem SessKeyed.of_view {s s' : State} (h : sview s' = sview s) (hi : SessKeyed s) : SessKeyed s' := by
  have h1 : s'.sessions = s.sessions := congrArg SessView.sessions h
  have h7 : s'.sessCount = s.sessCount := congrArg SessView.sessCount h
  unfold SessKeyed; rw [h1, h7]; exact hi

theorem SessInv.of_view {s s' : State} (h : sview s' = sview s) (hi : SessInv s) : SessInv s' :=
  ⟨SessKeyed.of_view h hi.1, SessIdx.of_view h hi.2⟩

@[simp] theorem sview_emit (s : State) (e : Event) : sview (emit s e) = sview s := rfl

/-! ### the four primitive changes of the session tables -/

/-- `sessionToPending` on the stored record of a session. -/
theorem sessionToPending_sessInv {s : State} {x : Session} (hx : s.sessions.get x.id = some x) (hi : SessInv s) :
    SessInv (sessionToPending s x) := by
  obtain ⟨hk, hi⟩ := hi
  refine ⟨?_, ?_, ?_, ?_, ?_, ?_, ?_⟩
  · intro i y hy
    simp only [sessionToPending, emit, Tbl.get_set] at hy ⊢
    split_ifs at hy with hc
    · simp only [Option.some.injEq] at hy
      subst hy; subst hc; exact ⟨rfl, (hk _ _ hx).2⟩
    · exact hk i y hy
  · intro t i
    simp only [sessionToPending, emit, Tbl.has_set, Tbl.has_erase, hi.q, Tbl.get_set]
    by_cases hc : x.id = i
    · subst hc; simp [hx]
    · simp [hc]
  · intro a i
    simp only [sessionToPending, emit]
    exact (hi.acc a i).trans (Tbl.exists_get_set_iff _ _ x _ hx (fun y => y.addr = a) (by exact Iff.rfl) i).symm
  · intro a i
    simp only [sessionToPending, emit]
    exact (hi.node a i).trans (Tbl.exists_get_set_iff _ _ x _ hx (fun y => y.node = a) (by exact Iff.rfl) i).symm
  · intro u i
    simp only [sessionToPending, emit]
    exact (hi.sub u i).trans (Tbl.exists_get_set_iff _ _ x _ hx (fun y => y.sub = u) (by exact Iff.rfl) i).symm
  · intro u a i
    simp only [sessionToPending, emit]
    exact (hi.alloc u a i).trans (Tbl.exists_get_set_iff _ _ x _ hx (fun y => y.sub = u ∧ y.addr = a) (by exact Iff.rfl) i).symm
  · obtain ⟨n1, n2, n3, n4, n5, n6⟩ := hi.nodup
    exact ⟨Tbl.nodup_set n1 _ _, Tbl.nodup_set (Tbl.nodup_erase n2 _) _ _, n3, n4, n5, n6⟩

/-- Under `SessInv` an id above the counter occurs in none of the six tables. -/
theorem SessInv.fresh {s : State} (hi : SessInv s) {i : Nat} (h : s.sessCount.getD 0 < i) :
    s.sessions.get i = none ∧ (∀ t, s.sessQ.has (t, i) = false) ∧ (∀ a, s.sessForAcc.has (a, i) = false) ∧
    (∀ a, s.sessForNode.has (a, i) = false) ∧ (∀ u, s.sessForSub.has (u, i) = false) ∧
    (∀ u a, s.sessForAlloc.has (u, a, i) = false) := by
  obtain ⟨hk, hi⟩ := hi
  have h0 : s.sessions.get i = none := by
    cases hg : s.sessions.get i with
    | none => rfl
    | some x => have := (hk i x hg).2; omega
  refine ⟨h0, ?_, ?_, ?_, ?_, ?_⟩
  · intro t; rw [← Bool.not_eq_true, hi.q]; simp [h0]
  · intro t; rw [← Bool.not_eq_true, hi.acc]; simp [h0]
  · intro t; rw [← Bool.not_eq_true, hi.node]; simp [h0]
  · intro t; rw [← Bool.not_eq_true, hi.sub]; simp [h0]
  · intro u a; rw [← Bool.not_eq_true, hi.alloc]; simp [h0]

/-- `insertSession` of a record with the next id. -/
theorem insertSession_sessInv {s : State} {x : Session} (hid : x.id = s.sessCount.getD 0 + 1) (hi : SessInv s) :
    SessInv (insertSession s x) := by
  obtain ⟨h0, _, _, _, _, _⟩ := hi.fresh (i := x.id) (by omega)
  obtain ⟨hk, hi⟩ := hi
  refine ⟨?_, ?_, ?_, ?_, ?_, ?_, ?_⟩
  · intro i y hy
    simp only [insertSession, Tbl.get_set] at hy ⊢
    split_ifs at hy with hc
    · simp only [Option.some.injEq] at hy
      subst hy; subst hc; exact ⟨rfl, by simp⟩
    · have := (hk i y hy).2
      exact ⟨(hk i y hy).1, by simp only [Option.getD_some]; omega⟩
  · intro t i
    simp only [insertSession, Tbl.has_set, hi.q, Tbl.get_set, Prod.mk.injEq]
    by_cases hc : x.id = i
    · subst hc; simp [h0]
    · simp [hc]
  · intro a i
    simp only [insertSession, Tbl.has_set, hi.acc, Tbl.get_set, Prod.mk.injEq]
    by_cases hc : x.id = i
    · subst hc; simp [h0]
    · simp [hc]
  · intro a i
    simp only [insertSession, Tbl.has_set, hi.node, Tbl.get_set, Prod.mk.injEq]
    by_cases hc : x.id = i
    · subst hc; simp [h0]
    · simp [hc]
  · intro u i
    simp only [insertSession, Tbl.has_set, hi.sub, Tbl.get_set, Prod.mk.injEq]
    by_cases hc : x.id = i
    · subst hc; simp [h0]
    · simp [hc]
  · intro u a i
    simp only [insertSession, Tbl.has_set, hi.alloc, Tbl.get_set, Prod.mk.injEq]
    by_cases hc : x.id = i
    · subst hc; simp [h0]
    · simp [hc]
  · obtain ⟨n1, n2, n3, n4, n5, n6⟩ := hi.nodup
    exact ⟨Tbl.nodup_set n1 _ _, Tbl.nodup_set n2 _ _, Tbl.nodup_set n3 _ _, Tbl.nodup_set n4 _ _,
      Tbl.nodup_set n5 _ _, Tbl.nodup_set n6 _ _⟩

/-- `removeSession` of a stored record after its queue entry has been deleted. -/
theorem removeSession_sessInv {s : State} {x : Session} (hx : s.sessions.get x.id = some x) (hi : SessInv s) :
    SessInv (removeSession { s with sessQ := s.sessQ.erase (x.inactiveAt, x.id) } x) := by
  obtain ⟨hk, hi⟩ := hi
  refine ⟨?_, ?_, ?_, ?_, ?_, ?_, ?_⟩
  · intro i y hy
    simp only [removeSession, emit, Tbl.get_erase] at hy ⊢
    split_ifs at hy with hc
    exact hk i y hy
  · intro t i
    simp only [removeSession, emit, Tbl.has_erase, hi.q, Tbl.get_erase, Prod.mk.injEq, ne_eq]
    by_cases hc : x.id = i
    · subst hc; simp [hx]
    · simp [hc]
  · intro a i
    simp only [removeSession, emit, Tbl.has_erase, hi.acc, Tbl.get_erase, Prod.mk.injEq, ne_eq]
    by_cases hc : x.id = i
    · subst hc; simp [hx]
    · simp [hc]
  · intro a i
    simp only [removeSession, emit, Tbl.has_erase, hi.node, Tbl.get_erase, Prod.mk.injEq, ne_eq]
    by_cases hc : x.id = i
    · subst hc; simp [hx]
    · simp [hc]
  · intro u i
    simp only [removeSession, emit, Tbl.has_erase, hi.sub, Tbl.get_erase, Prod.mk.injEq, ne_eq]
    by_cases hc : x.id = i
    · subst hc; simp [hx]
    · simp [hc]
  · intro u a i
    simp only [removeSession, emit, Tbl.has_erase, hi.alloc, Tbl.get_erase, Prod.mk.injEq, ne_eq]
    by_cases hc : x.id = i
    · subst hc; simp [hx]
    · simp [hc]
  · obtain ⟨n1, n2, n3, n4, n5, n6⟩ := hi.nodup
    exact ⟨Tbl.nodup_erase n1 _, Tbl.nodup_erase n2 _, Tbl.nodup_erase n3 _, Tbl.nodup_erase n4 _,
      Tbl.nodup_erase n5 _, Tbl.nodup_erase n6 _⟩

/-! ### session messages -/

theorem sessStart_sessInv {s s' : State} {frm : TextAddr} {id : Nat} {node : Addr}
    (h : sessStart s frm id node = .ok s') (hi : SessInv s) : SessInv s' := by
  unfold sessStart at h
  simp only [bind_eq_ok, pure_eq_ok, require_eq_ok, orReject_eq_ok] at h
  obtain ⟨sub, _, _, _, n, _, _, _, _, _, _, _, latest, _, _, _, rfl⟩ := h
  exact SessInv.of_view (sview_emit _ _) (insertSession_sessInv rfl hi)

theorem sessEnd_sessInv {s s' : State} {frm : Addr} {id : Nat} (h : sessEnd s frm id = .ok s') (hi : SessInv s) : SessInv s' := by
  unfold sessEnd at h
  simp only [bind_eq_ok, pure_eq_ok, require_eq_ok, orReject_eq_ok] at h
  obtain ⟨x, hx, _, _, _, _, rfl⟩ := h
  have hid := (hi.1 id x hx).1
  subst hid
  exact sessionToPending_sessInv hx hi

theorem sessUpdate_sessInv {s s' : State} {frm : Addr} {id : Nat} {up down dur : Int} {sig : SigSpec}
    (h : sessUpdate s frm id up down dur sig = .ok s') (hi : SessInv s) : SessInv s' := by
  unfold sessUpdate at h
  simp only [bind_eq_ok, pure_eq_ok, require_eq_ok, orReject_eq_ok] at h
  obtain ⟨x, hx, _, _, _, _, _, _, rfl⟩ := h
  have hid := (hi.1 id x hx).1
  subst hid
  obtain ⟨hk, hi⟩ := hi
  obtain ⟨n1, n2, n3, n4, n5, n6⟩ := hi.nodup
  by_cases hs : x.status = .StatusActive
  · simp only [hs, if_true]
    refine ⟨?_, ?_, ?_, ?_, ?_, ?_, ?_⟩
    · intro i y hy
      simp only [emit, Tbl.get_set] at hy ⊢
      split_ifs at hy with hc
      · simp only [Option.some.injEq] at hy
        subst hy; subst hc; exact ⟨rfl, (hk _ _ hx).2⟩
      · exact hk i y hy
    · intro t i
      simp only [emit, Tbl.has_set, Tbl.has_erase, hi.q, Tbl.get_set]
      by_cases hc : x.id = i
      · subst hc; simp [hx]
      · simp [hc]
    · intro a i
      exact (hi.acc a i).trans (Tbl.exists_get_set_iff _ _ x _ hx (fun y => y.addr = a) (by exact Iff.rfl) i).symm
    · intro a i
      exact (hi.node a i).trans (Tbl.exists_get_set_iff _ _ x _ hx (fun y => y.node = a) (by exact Iff.rfl) i).symm
    · intro u i
      exact (hi.sub u i).trans (Tbl.exists_get_set_iff _ _ x _ hx (fun y => y.sub = u) (by exact Iff.rfl) i).symm
    · intro u a i
      exact (hi.alloc u a i).trans (Tbl.exists_get_set_iff _ _ x _ hx (fun y => y.sub = u ∧ y.addr = a) (by exact Iff.rfl) i).symm
    · exact ⟨Tbl.nodup_set n1 _ _, Tbl.nodup_set (Tbl.nodup_erase n2 _) _ _, n3, n4, n5, n6⟩
  · simp only [hs, if_false]
    refine ⟨?_, ?_, ?_, ?_, ?_, ?_, ?_⟩
    · intro i y hy
      simp only [emit, Tbl.get_set] at hy ⊢
      split_ifs at hy with hc
      · simp only [Option.some.injEq] at hy
        subst hy; subst hc; exact ⟨rfl, (hk _ _ hx).2⟩
      · exact hk i y hy
    · intro t i
      exact (hi.q t i).trans (Tbl.exists_get_set_iff _ _ x _ hx (fun y => y.inactiveAt = t) (by exact Iff.rfl) i).symm
    · intro a i
      exact (hi.acc a i).trans (Tbl.exists_get_set_iff _ _ x _ hx (fun y => y.addr = a) (by exact Iff.rfl) i).symm
    · intro a i
      exact (hi.node a i).trans (Tbl.exists_get_set_iff _ _ x _ hx (fun y => y.node = a) (by exact Iff.rfl) i).symm
    · intro u i
      exact (hi.sub u i).trans (Tbl.exists_get_set_iff _ _ x _ hx (fun y => y.sub = u) (by exact Iff.rfl) i).symm
    · intro u a i
      exact (hi.alloc u a i).trans (Tbl.exists_get_set_iff _ _ x _ hx (fun y => y.sub = u ∧ y.addr = a) (by exact Iff.rfl) i).symm
    · exact ⟨Tbl.nodup_set n1 _ _, n2, n3, n4, n5, n6⟩

/-! ### everything else leaves the session tables alone: `sview` is unchanged -/

@[simp] theorem sview_setAllocation (s : State) (a : Alloc) : sview (setAllocation s a) = sview s := rfl
@[simp] theorem sview_insertPayout (s : State) (p : Payout) : sview (insertPayout s p) = sview s := rfl
@[simp] theorem sview_setBalance (s : State) (a : Addr) (d : Denom) (v : Int) : sview (setBalance s a d v) = sview s := rfl
@[simp] theorem sview_setSupply (s : State) (d : Denom) (v : Int) : sview (setSupply s d v) = sview s := rfl
@[simp] theorem sview_setDeposit (s : State) (a : Addr) (c : Coins) : sview (setDeposit s a c) = sview s := rfl
@[simp] theorem sview_putDeposit (s : State) (a : Addr) (c : Coins) : sview (putDeposit s a c) = sview s := by
  unfold putDeposit; split <;> rfl
@[simp] theorem sview_insertSub (s : State) (sub : Sub) : sview (insertSub s sub) = sview s := by
  unfold insertSub; cases sub.kind <;> rfl
@[simp] theorem sview_subToPending (s : State) (sub : Sub) (d : Dur) : sview (subToPending s sub d).1 = sview s := rfl
@[simp] theorem sview_detachPayoutRec (s : State) (p : Payout) : sview (detachPayoutRec s p) = sview s := rfl

theorem foldlM_sview {α : Type} (f : State → α → M State) (hf : ∀ s a s', f s a = .ok s' → sview s' = sview s)
    (l : List α) (s s' : State) (h : l.foldlM f s = .ok s') : sview s' = sview s :=
  foldlM_inv (fun t => sview t = sview s) f (fun a b c h1 hp => (hf a b c h1).trans hp) l s s' h rfl

theorem setProvider_sview {s s' : State} {p : Provider} (h : setProvider s p = .ok s') : sview s' = sview s := by
  unfold setProvider at h
  split at h <;> simp only [pure_eq_ok, gopanic_ne_ok] at h <;> (try subst h) <;> rfl

theorem setNode_sview {s s' : State} {n : Node} (h : setNode s n = .ok s') : sview s' = sview s := by
  unfold setNode at h
  split at h <;> simp only [pure_eq_ok, gopanic_ne_ok] at h <;> (try subst h) <;> rfl

theorem setPlan_sview {s s' : State} {p : Plan} (h : setPlan s p = .ok s') : sview s' = sview s := by
  unfold setPlan at h
  split at h <;> simp only [pure_eq_ok, gopanic_ne_ok] at h <;> (try subst h) <;> rfl

theorem sendCoins_sview {s s' : State} {f t : Addr} {c : Coin} (h : sendCoins s f t c = .ok s') : sview s' = sview s := by
  have := (sendCoins_ok h).2.1
  rw [this]; rfl

theorem sendModuleToAccount_sview {s s' : State} {f t : Addr} {c : Coin} (h : sendModuleToAccount s f t c = .ok s') :
    sview s' = sview s := by
  unfold sendModuleToAccount at h
  split at h
  · simp only [reject_ne_ok] at h
  · exact sendCoins_sview h

theorem mintCoins_sview {s s' : State} {m : Addr} {c : Coin} (h : mintCoins s m c = .ok s') : sview s' = sview s := by
  unfold mintCoins at h
  simp only [bind_eq_ok, pure_eq_ok] at h
  obtain ⟨nb, _, ns, _, rfl⟩ := h
  rfl

theorem fundCommunityPool_sview {s s' : State} {f : Addr} {c : Coin} (h : fundCommunityPool s f c = .ok s') :
    sview s' = sview s := by
  unfold fundCommunityPool at h
  split at h
  · rw [pure_eq_ok] at h; rw [h]
  · exact sendCoins_sview h

theorem depositAdd_sview {s s' : State} {f t : Addr} {c : Coin} (h : depositAdd s f t c = .ok s') : sview s' = sview s := by
  unfold depositAdd at h
  simp only [bind_eq_ok, pure_eq_ok, require_eq_ok] at h
  obtain ⟨s1, hs1, _, _, rfl⟩ := h
  rw [sview_emit, sview_setDeposit, sendCoins_sview hs1]

theorem depositToAccount_sview {s s' : State} {f t : Addr} {c : Coin} (h : depositToAccount s f t c = .ok s') :
    sview s' = sview s := by
  unfold depositToAccount at h
  simp only [bind_eq_ok, pure_eq_ok, require_eq_ok, orReject_eq_ok] at h
  obtain ⟨cur, _, _, _, s1, hs1, rfl⟩ := h
  rw [sview_emit, sview_putDeposit, sendModuleToAccount_sview hs1]

theorem depositToModule_sview {s s' : State} {f m : Addr} {c : Coin} (h : depositToModule s f m c = .ok s') :
    sview s' = sview s := by
  unfold depositToModule at h
  simp only [bind_eq_ok, pure_eq_ok, require_eq_ok, orReject_eq_ok] at h
  obtain ⟨cur, _, _, _, s1, hs1, rfl⟩ := h
  rw [sview_emit, sview_putDeposit, sendCoins_sview hs1]

theorem sendCoin_sview {s s' : State} {f t : Addr} {c : Coin} (h : sendCoin s f t c = .ok s') : sview s' = sview s := by
  unfold sendCoin at h
  split at h
  · rw [pure_eq_ok] at h; rw [h]
  · exact sendCoins_sview h

theorem sendCoinFromAccountToModule_sview {s s' : State} {f m : Addr} {c : Coin}
    (h : sendCoinFromAccountToModule s f m c = .ok s') : sview s' = sview s := by
  unfold sendCoinFromAccountToModule at h
  split at h
  · rw [pure_eq_ok] at h; rw [h]
  · exact sendCoins_sview h

theorem addDeposit_sview {s s' : State} {a : Addr} {c : Coin} (h : addDeposit s a c = .ok s') : sview s' = sview s := by
  unfold addDeposit at h
  split at h
  · rw [pure_eq_ok] at h; rw [h]
  · exact depositAdd_sview h

theorem subtractDeposit_sview {s s' : State} {a : Addr} {c : Coin} (h : subtractDeposit s a c = .ok s') :
    sview s' = sview s := by
  unfold subtractDeposit at h
  split at h
  · rw [pure_eq_ok] at h; rw [h]
  · exact depositToAccount_sview h

theorem sendCoinFromDepositToAccount_sview {s s' : State} {f t : Addr} {c : Coin}
    (h : sendCoinFromDepositToAccount s f t c = .ok s') : sview s' = sview s := by
  unfold sendCoinFromDepositToAccount at h
  split at h
  · rw [pure_eq_ok] at h; rw [h]
  · exact depositToAccount_sview h

theorem sendCoinFromDepositToModule_sview {s s' : State} {f m : Addr} {c : Coin}
    (h : sendCoinFromDepositToModule s f m c = .ok s') : sview s' = sview s := by
  unfold sendCoinFromDepositToModule at h
  split at h
  · rw [pure_eq_ok] at h; rw [h]
  · exact depositToModule_sview h

/-- A state-to-state step that only touches money tables (`MoneyFrame`) leaves the session tables alone. -/
theorem MoneyFrame.sview {s s' : State} (h : MoneyFrame s s') : sview s' = sview s := by
  unfold MoneyFrame at h; rw [h]; rfl

/-! #### provider, node, plan, subscription, swap messages -/

theorem provRegister_sview {s s' : State} {frm : Addr} {n i w d : Bytes} (h : provRegister s frm n i w d = .ok s') :
    sview s' = sview s := by
  unfold provRegister at h
  simp only [bind_eq_ok, pure_eq_ok, require_eq_ok] at h
  obtain ⟨_, _, s1, h1, s2, h2, rfl⟩ := h
  rw [sview_emit, setProvider_sview h2, fundCommunityPool_sview h1]

theorem provUpdate_sview {s s' : State} {frm : Addr} {n i w d : Bytes} {st : Status} (h : provUpdate s frm n i w d st = .ok s') :
    sview s' = sview s := by
  unfold provUpdate at h
  simp only [bind_eq_ok, pure_eq_ok, orReject_eq_ok] at h
  obtain ⟨p, _, s3, h3, rfl⟩ := h
  rw [sview_emit, setProvider_sview h3]
  split <;> split <;> rfl

theorem nodeRegister_sview {s s' : State} {frm : Addr} {gb hr : Coins} {url : Bytes} (h : nodeRegister s frm gb hr url = .ok s') :
    sview s' = sview s := by
  unfold nodeRegister at h
  simp only [bind_eq_ok, pure_eq_ok, require_eq_ok] at h
  obtain ⟨_, _, _, _, _, _, s1, h1, s2, h2, rfl⟩ := h
  rw [sview_emit, setNode_sview h2, fundCommunityPool_sview h1]

theorem nodeUpdate_sview {s s' : State} {frm : Addr} {gb hr : Option Coins} {url : Bytes} (h : nodeUpdate s frm gb hr url = .ok s') :
    sview s' = sview s := by
  unfold nodeUpdate at h
  simp only [bind_eq_ok, pure_eq_ok, require_eq_ok, orReject_eq_ok] at h
  obtain ⟨_, _, _, _, n, _, s1, h1, rfl⟩ := h
  rw [sview_emit, setNode_sview h1]

theorem nodeStatus_sview {s s' : State} {frm : Addr} {st : Status} (h : nodeStatus s frm st = .ok s') : sview s' = sview s := by
  unfold nodeStatus at h
  simp only [bind_eq_ok, pure_eq_ok, orReject_eq_ok] at h
  obtain ⟨n, _, s5, h5, rfl⟩ := h
  rw [sview_emit, setNode_sview h5]
  split <;> split <;> split <;> split <;> rfl

theorem createNodeSubGB_sview {s : State} {acc node : Addr} {n : Node} {gb : Int} {denom : Denom} {r : State × Sub}
    (h : createNodeSubGB s acc node n gb denom = .ok r) : sview r.1 = sview s := by
  unfold createNodeSubGB at h
  simp only [bind_eq_ok, pure_eq_ok, orReject_eq_ok] at h
  obtain ⟨price, _, bytes, _, amt, _, dep, _, s1, h1, granted, _, rfl⟩ := h
  simp only [sview_emit, sview_setAllocation, sview_insertSub, addDeposit_sview h1]

theorem createNodeSubHr_sview {s : State} {acc node : Addr} {n : Node} {hr : Int} {denom : Denom} {r : State × Sub}
    (h : createNodeSubHr s acc node n hr denom = .ok r) : sview r.1 = sview s := by
  unfold createNodeSubHr at h
  simp only [bind_eq_ok, pure_eq_ok, orReject_eq_ok] at h
  obtain ⟨price, _, amt, _, dep, _, s1, h1, pa, _, hourly, _, rfl⟩ := h
  simp only [sview_insertPayout, sview_insertSub, addDeposit_sview h1]

theorem nodeSubscribe_sview {s s' : State} {frm node : Addr} {gb hr : Int} {denom : Denom}
    (h : nodeSubscribe s frm node gb hr denom = .ok s') : sview s' = sview s := by
  unfold nodeSubscribe createSubscriptionForNode at h
  simp only [bind_eq_ok, pure_eq_ok, require_eq_ok, orReject_eq_ok] at h
  obtain ⟨_, _, _, _, r, ⟨n, _, _, _, hr'⟩, rfl⟩ := h
  rw [sview_emit]
  split at hr'
  · exact createNodeSubGB_sview hr'
  · exact createNodeSubHr_sview hr'

theorem planCreate_sview {s s' : State} {frm : Addr} {dur : Dur} {gb : Int} {prices : Coins}
    (h : planCreate s frm dur gb prices = .ok s') : sview s' = sview s := by
  unfold planCreate at h
  simp only [bind_eq_ok, pure_eq_ok, require_eq_ok] at h
  obtain ⟨_, _, s1, h1, rfl⟩ := h
  rw [sview_emit]
  exact (rfl : sview { s1 with planForProv := _ } = sview s1).trans ((setPlan_sview h1).trans rfl)

theorem planStatus_sview {s s' : State} {frm : Addr} {id : Nat} {st : Status}
    (h : planStatus s frm id st = .ok s') : sview s' = sview s := by
  unfold planStatus at h
  simp only [bind_eq_ok, pure_eq_ok, require_eq_ok, orReject_eq_ok] at h
  obtain ⟨p, hp, _, _, s3, h3, rfl⟩ := h
  rw [sview_emit, setPlan_sview h3]
  split <;> split <;> rfl

theorem planLink_sview {s s' : State} {frm : Addr} {id : Nat} {node : Addr}
    (h : planLink s frm id node = .ok s') : sview s' = sview s := by
  unfold planLink at h
  simp only [bind_eq_ok, pure_eq_ok, require_eq_ok, orReject_eq_ok] at h
  obtain ⟨p, _, _, _, _, _, rfl⟩ := h
  rfl

theorem planUnlink_sview {s s' : State} {frm : Addr} {id : Nat} {node : Addr}
    (h : planUnlink s frm id node = .ok s') : sview s' = sview s := by
  unfold planUnlink at h
  simp only [bind_eq_ok, pure_eq_ok, require_eq_ok, orReject_eq_ok] at h
  obtain ⟨p, _, _, _, rfl⟩ := h
  rfl

theorem planSubscribe_sview {s s' : State} {frm : Addr} {id : Nat} {denom : Denom}
    (h : planSubscribe s frm id denom = .ok s') : sview s' = sview s := by
  unfold planSubscribe createSubscriptionForPlan at h
  simp only [bind_eq_ok, pure_eq_ok, require_eq_ok, requireP_eq_ok, orReject_eq_ok] at h
  obtain ⟨r, ⟨plan, hplan, _, _, price, _, reward, _, s1, h1, payAmt, _, _, _, s2, h2, granted, _, rfl⟩, rfl⟩ := h
  simp only [sview_emit, sview_setAllocation, sview_insertSub, sendCoin_sview h2, sendCoinFromAccountToModule_sview h1]

theorem subAllocate_sview {s s' : State} {frm toA : Addr} {id : Nat} {bytes : Int}
    (h : subAllocate s frm id toA bytes = .ok s') : sview s' = sview s := by
  unfold subAllocate at h
  simp only [bind_eq_ok, pure_eq_ok, require_eq_ok, orReject_eq_ok] at h
  obtain ⟨sub, _, _, _, _, _, fa, _, _, _, g, _, u, _, av, _, _, _, fg, _, _, _, _, _, rfl⟩ := h
  simp only [sview_emit, sview_setAllocation]
  split <;> rfl

theorem swap_sview {s s' : State} {frm recv : Addr} {hash : Bytes} {amt : Int}
    (h : swap s frm hash recv amt = .ok s') : sview s' = sview s := by
  unfold swap at h
  simp only [bind_eq_ok, pure_eq_ok, require_eq_ok] at h
  obtain ⟨_, _, _, _, _, _, q, _, coin, _, s1, h1, s2, h2, rfl⟩ := h
  rw [sview_emit]
  exact (rfl : sview { s2 with swaps := _ } = sview s2).trans ((sendModuleToAccount_sview h2).trans (mintCoins_sview h1))

theorem detachPayout_sview {s s' : State} {sub : Sub} {b : Bool} (h : detachPayout s sub b = .ok s') : sview s' = sview s := by
  unfold detachPayout at h
  split at h
  · simp only [bind_eq_ok, pure_eq_ok] at h
    obtain ⟨p, _, rfl⟩ := h
    rfl
  · rw [pure_eq_ok] at h; rw [h]

/-! ### the pending hook, cancel -/

theorem subscriptionInactivePendingHook_sessInv {s s' : State} {id : Nat}
    (h : subscriptionInactivePendingHook s id = .ok s') (hi : SessInv s) : SessInv s' := by
  unfold subscriptionInactivePendingHook at h
  refine foldlM_inv SessInv _ ?_ _ s s' h hi
  intro s0 sid s1 h1 hp
  simp only [bind_eq_ok, pure_eq_ok, orPanic_eq_ok] at h1
  obtain ⟨x, hx, rfl⟩ := h1
  have hid := (hp.1 sid x hx).1
  subst hid
  split
  · exact sessionToPending_sessInv hx hp
  · exact hp

theorem subCancel_sessInv {s s' : State} {frm : Addr} {id : Nat} (h : subCancel s frm id = .ok s') (hi : SessInv s) :
    SessInv s' := by
  unfold subCancel at h
  simp only [bind_eq_ok, require_eq_ok, orReject_eq_ok] at h
  obtain ⟨sub, _, _, _, _, _, s1, h1, h2⟩ := h
  have i1 : SessInv s1 := subscriptionInactivePendingHook_sessInv h1 (SessInv.of_view (s := s) rfl hi)
  exact SessInv.of_view (s := s1) (by rw [detachPayout_sview h2, sview_subToPending]) i1

/-! ### every message -/

theorem handle_sessInv {s s' : State} {m : Msg} (h : m.handle s = .ok s') (hi : SessInv s) : SessInv s' := by
  cases m <;> simp only [Msg.handle] at h
  case provRegister => exact SessInv.of_view (provRegister_sview h) hi
  case provUpdate => exact SessInv.of_view (provUpdate_sview h) hi
  case nodeRegister => exact SessInv.of_view (nodeRegister_sview h) hi
  case nodeUpdate => exact SessInv.of_view (nodeUpdate_sview h) hi
  case nodeStatus => exact SessInv.of_view (nodeStatus_sview h) hi
  case nodeSubscribe => exact SessInv.of_view (nodeSubscribe_sview h) hi
  case planCreate => exact SessInv.of_view (planCreate_sview h) hi
  case planStatus => exact SessInv.of_view (planStatus_sview h) hi
  case planLink => exact SessInv.of_view (planLink_sview h) hi
  case planUnlink => exact SessInv.of_view (planUnlink_sview h) hi
  case planSubscribe => exact SessInv.of_view (planSubscribe_sview h) hi
  case subCancel => exact subCancel_sessInv h hi
  case subAllocate => exact SessInv.of_view (subAllocate_sview h) hi
  case sessStart => exact sessStart_sessInv h hi
  case sessUpdate => exact sessUpdate_sessInv h hi
  case sessEnd => exact sessEnd_sessInv h hi
  case swap => exact SessInv.of_view (swap_sview h) hi

/-- A delivered message — accepted or rejected. -/
theorem deliver_sessInv (s : State) (m : Msg) (hi : SessInv s) : SessInv (deliver s m).1 := by
  have h0 : SessInv { s with events := [] } := SessInv.of_view (s := s) rfl hi
  unfold deliver
  simp only []
  cases hr : (do m.validateBasic; m.handle { s with events := [] } : M State) with
  | ok s' =>
    simp only [bind_eq_ok] at hr
    obtain ⟨_, _, hh⟩ := hr
    exact handle_sessInv hh h0
  | error e => cases e <;> exact h0

/-! ### begin of block -/

theorem sview_mintBeginBlock_go (l : List Inflation) (s : State) : sview (mintBeginBlock.go s l) = sview s := by
  induction l generalizing s with
  | nil => rfl
  | cons item rest ih =>
    unfold mintBeginBlock.go
    split
    · rfl
    · rw [ih]; rfl

theorem sview_mintBeginBlock (s : State) : sview (mintBeginBlock s) = sview s := sview_mintBeginBlock_go _ s

theorem sview_distrSweep (s : State) : sview (distrSweep s) = sview s := by
  unfold distrSweep
  exact foldl_inv (fun t => sview t = sview s) sweepDenom (fun t d h => (rfl : sview (sweepDenom t d) = sview t).trans h) _ s rfl

theorem payoutStep_sview {s s' : State} {k : Time × Nat} (h : payoutStep s k = .ok s') : sview s' = sview s := by
  unfold payoutStep at h
  simp only [bind_eq_ok, pure_eq_ok, requireP_eq_ok, orPanic_eq_ok] at h
  obtain ⟨item, _, reward, _, s2, h2, payAmt, _, _, _, s3, h3, rfl⟩ := h
  have e : sview s3 = sview s :=
    (sendCoinFromDepositToAccount_sview h3).trans ((sendCoinFromDepositToModule_sview h2).trans rfl)
  rw [← e]
  split <;> rfl

theorem beginBlock_sview {s s' : State} {t : Time} (h : beginBlock s t = .ok s') : sview s' = sview s := by
  unfold beginBlock haltOf at h
  split at h <;> try contradiction
  rename_i s'' hs
  simp only [Except.ok.injEq] at h
  subst h
  unfold subscriptionBeginBlock at hs
  rw [foldlM_sview _ (fun a k b h1 => payoutStep_sview (panicIfErr_eq_ok.mp h1)) _ _ _ hs, sview_distrSweep,
    sview_mintBeginBlock]
  rfl

theorem beginBlock_sessInv {s s' : State} {t : Time} (h : beginBlock s t = .ok s') (hi : SessInv s) : SessInv s' :=
  SessInv.of_view (beginBlock_sview h) hi

/-! ### end of block -/

theorem nodeSweep_sview {s s' : State} (h : nodeSweep s = .ok s') : sview s' = sview s := by
  unfold nodeSweep at h
  split at h
  · rw [pure_eq_ok] at h; rw [h]
  · refine foldlM_sview _ ?_ _ s s' h
    intro s0 a s1 h1
    simp only [bind_eq_ok, pure_eq_ok, orPanic_eq_ok] at h1
    obtain ⟨item, _, s2, h2, rfl⟩ := h1
    rw [sview_emit, setNode_sview h2]

theorem nodeExpireStep_sview {s s' : State} {k : Time × Addr} (h : nodeExpireStep s k = .ok s') : sview s' = sview s := by
  unfold nodeExpireStep at h
  simp only [bind_eq_ok, pure_eq_ok, orPanic_eq_ok] at h
  obtain ⟨item, _, s3, h3, rfl⟩ := h
  rw [sview_emit, setNode_sview h3]; rfl

theorem nodeExpire_sview {s s' : State} (h : nodeExpire s = .ok s') : sview s' = sview s := by
  unfold nodeExpire at h
  exact foldlM_sview _ (fun a k b h1 => nodeExpireStep_sview h1) _ s s' h

theorem nodeEndBlock_sview {s s' : State} (h : nodeEndBlock s = .ok s') : sview s' = sview s := by
  unfold nodeEndBlock at h
  simp only [bind_eq_ok] at h
  obtain ⟨s1, h1, h2⟩ := h
  rw [nodeExpire_sview h2, nodeSweep_sview h1]

theorem settleSession_sview {s s' : State} {x : Session} {acc node : Addr} {dep : Coin} {gb b a : Int}
    (h : settleSession s x acc node dep gb b a = .ok s') : sview s' = sview s := by
  unfold settleSession at h
  simp only [bind_eq_ok, pure_eq_ok, requireP_eq_ok] at h
  obtain ⟨price, _, prev, _, cur, _, payAmt, _, payment, _, reward, _, s1, h1, netAmt, _, _, _, s2, h2, rfl⟩ := h
  rw [sview_emit, sendCoinFromDepositToAccount_sview h2, sendCoinFromDepositToModule_sview h1]

theorem sessionInactiveHook_sview {s s' : State} {id : Nat} {acc node : Addr} {bytes : Int}
    (h : sessionInactiveHook s id acc node bytes = .ok s') : sview s' = sview s := by
  unfold sessionInactiveHook at h
  simp only [bind_eq_ok, require_eq_ok, orReject_eq_ok] at h
  obtain ⟨x, _, _, _, sub, _, h⟩ := h
  split at h
  · rw [pure_eq_ok] at h; rw [h]
  · simp only [bind_eq_ok, orReject_eq_ok] at h
    obtain ⟨a, _, used, _, h⟩ := h
    split at h
    · rw [settleSession_sview h]; rfl
    · rw [pure_eq_ok] at h; rw [← h]; rfl

theorem sview_removeSession_congr {a b : State} (h : sview a = sview b) (x : Session) :
    sview (removeSession a x) = sview (removeSession b x) := by
  have h1 : a.sessions = b.sessions := congrArg SessView.sessions h
  have h2 : a.sessQ = b.sessQ := congrArg SessView.sessQ h
  have h3 : a.sessForAcc = b.sessForAcc := congrArg SessView.sessForAcc h
  have h4 : a.sessForNode = b.sessForNode := congrArg SessView.sessForNode h
  have h5 : a.sessForSub = b.sessForSub := congrArg SessView.sessForSub h
  have h6 : a.sessForAlloc = b.sessForAlloc := congrArg SessView.sessForAlloc h
  have h7 : a.sessCount = b.sessCount := congrArg SessView.sessCount h
  show SessView.mk _ _ _ _ _ _ _ = SessView.mk _ _ _ _ _ _ _
  simp only [removeSession, emit, h1, h2, h3, h4, h5, h6, h7]

theorem sessionStep_sessInv {s s' : State} {k : Time × Nat} (h : sessionStep s k = .ok s') (hi : SessInv s) : SessInv s' := by
  unfold sessionStep at h
  simp only [bind_eq_ok, orPanic_eq_ok] at h
  obtain ⟨item, hx, h⟩ := h
  have hid := (hi.1 k.2 item hx).1
  rw [← hid] at hx
  split at h
  · rw [pure_eq_ok] at h; rw [← h]; exact sessionToPending_sessInv hx hi
  · simp only [bind_eq_ok, pure_eq_ok, panicIfErr_eq_ok] at h
    obtain ⟨bytes, _, s2, h2, rfl⟩ := h
    exact SessInv.of_view (sview_removeSession_congr (sessionInactiveHook_sview h2) item) (removeSession_sessInv hx hi)

theorem sessionEndBlock_sessInv {s s' : State} (h : sessionEndBlock s = .ok s') (hi : SessInv s) : SessInv s' := by
  unfold sessionEndBlock at h
  exact foldlM_inv SessInv _ (fun s0 k s1 h1 hp => sessionStep_sessInv h1 hp) _ _ _ h hi

theorem refundSub_sview {s s' : State} {item : Sub} (h : refundSub s item = .ok s') : sview s' = sview s := by
  unfold refundSub at h
  split at h
  · simp only [bind_eq_ok] at h
    obtain ⟨s1, h1, h2⟩ := h
    have i1 : sview s1 = sview s := by
      split at h1
      · unfold refundGB at h1
        simp only [bind_eq_ok, pure_eq_ok, orPanic_eq_ok, panicIfErr_eq_ok] at h1
        obtain ⟨price, _, a, _, paid, _, ra, _, refund, _, s2, h2', rfl⟩ := h1
        rw [sview_emit, subtractDeposit_sview h2']
      · rw [pure_eq_ok] at h1; rw [← h1]
    split at h2
    · unfold refundHr at h2
      simp only [bind_eq_ok, pure_eq_ok, orPanic_eq_ok, panicIfErr_eq_ok] at h2
      obtain ⟨p, _, ra, _, refund, _, s2, h2', rfl⟩ := h2
      rw [sview_emit, subtractDeposit_sview h2', i1]
    · rw [pure_eq_ok] at h2; rw [← h2]; exact i1
  · rw [pure_eq_ok] at h; rw [h]

theorem sview_removeAllocs (l : List Addr) (s : State) (id : Nat) : sview (removeAllocs s id l) = sview s := by
  unfold removeAllocs
  induction l generalizing s with
  | nil => rfl
  | cons a rest ih => rw [List.foldl_cons, ih]; rfl

theorem sview_removeSubRecords (s : State) (item : Sub) : sview (removeSubRecords s item) = sview s := by
  unfold removeSubRecords
  cases item.kind with
  | node n g h d => rfl
  | plan pid dn =>
    simp only [sview_emit]
    exact (rfl : sview { (removeAllocs _ _ _) with subs := _ } = sview (removeAllocs _ _ _)).trans (sview_removeAllocs _ _ _)

theorem removePayout_sview {s s' : State} {item : Sub} (h : removePayout s item = .ok s') : sview s' = sview s := by
  unfold removePayout at h
  split at h
  · simp only [bind_eq_ok, pure_eq_ok, orPanic_eq_ok] at h
    obtain ⟨p, _, rfl⟩ := h
    rfl
  · rw [pure_eq_ok] at h; rw [h]

theorem subscriptionStep_sessInv {s s' : State} {d : Dur} {k : Time × Nat} (h : subscriptionStep d s k = .ok s')
    (hi : SessInv s) : SessInv s' := by
  unfold subscriptionStep at h
  simp only [bind_eq_ok, orPanic_eq_ok] at h
  obtain ⟨item, _, h⟩ := h
  split at h
  · simp only [bind_eq_ok, panicIfErr_eq_ok] at h
    obtain ⟨s2, h2, h3⟩ := h
    have i2 : SessInv s2 := subscriptionInactivePendingHook_sessInv h2 (SessInv.of_view (s := s) rfl hi)
    exact SessInv.of_view (s := s2) (by rw [detachPayout_sview h3, sview_subToPending]) i2
  · simp only [bind_eq_ok] at h
    obtain ⟨s2, h2, h3⟩ := h
    refine SessInv.of_view (s := s) ?_ hi
    rw [removePayout_sview h3, sview_removeSubRecords, refundSub_sview h2]; rfl

theorem subscriptionEndBlock_sessInv {s s' : State} (h : subscriptionEndBlock s = .ok s') (hi : SessInv s) : SessInv s' := by
  unfold subscriptionEndBlock at h
  exact foldlM_inv SessInv _ (fun s0 k s1 h1 hp => subscriptionStep_sessInv h1 hp) _ _ _ h hi

theorem endBlock_sessInv {s s' : State} (h : endBlock s = .ok s') (hi : SessInv s) : SessInv s' := by
  unfold endBlock haltOf at h
  split at h <;> try contradiction
  rename_i s2 hs
  split at hs <;> try contradiction
  rename_i s3 hs3
  simp only [Except.ok.injEq] at hs h
  subst hs; subst h
  unfold vpnEndBlock at hs3
  simp only [bind_eq_ok] at hs3
  obtain ⟨s1, ha, sb, hc, hd⟩ := hs3
  have i1 : SessInv s1 := SessInv.of_view (s := s) (by rw [nodeEndBlock_sview ha]; rfl) hi
  have i2 : SessInv sb := sessionEndBlock_sessInv hc i1
  have i3 : SessInv s3 := subscriptionEndBlock_sessInv hd i2
  exact SessInv.of_view (s := s3) rfl i3

/-! ### governance, one operation, genesis -/

theorem gov_sview (s : State) (c : ParamChange) : sview ((gov s c).getD s) = sview s := by
  cases hg : gov s c with
  | none => rfl
  | some s' =>
    simp only [Option.getD]
    unfold gov at hg
    cases c <;> simp only [] at hg <;> (try split at hg) <;>
      first
        | (simp only [Option.some.injEq] at hg; rw [← hg]; rfl)
        | (simp only [reduceCtorEq] at hg)

theorem gov_sessInv (s : State) (c : ParamChange) (hi : SessInv s) : SessInv ((gov s c).getD s) :=
  SessInv.of_view (gov_sview s c) hi

theorem step_sessInv {s s' : State} {op : Op} (h : step s op = some s') (hi : SessInv s) : SessInv s' := by
  cases op with
  | tx m =>
    simp only [step, Option.some.injEq] at h
    rw [← h]; exact deliver_sessInv s m hi
  | begin t =>
    simp only [step] at h
    split at h
    · rename_i s1 hb
      simp only [Option.some.injEq] at h; rw [← h]; exact beginBlock_sessInv hb hi
    · contradiction
  | endB =>
    simp only [step] at h
    split at h
    · rename_i s1 hb
      simp only [Option.some.injEq] at h; rw [← h]; exact endBlock_sessInv hb hi
    · contradiction
  | gov c =>
    simp only [step, Option.some.injEq] at h
    rw [← h]; exact gov_sessInv s c hi

theorem sview_addBalance (s : State) (b : Addr × Denom × Int) : sview (addBalance s b) = sview s := by
  unfold addBalance; split <;> rfl

theorem genesis_sview (g : Genesis) : sview g.state = sview g.base := by
  unfold Genesis.state
  exact foldl_inv (fun t => sview t = sview g.base) addBalance (fun t b h => (sview_addBalance t b).trans h) _ _ rfl

theorem base_sessInv (g : Genesis) : SessInv g.base := by
  refine ⟨?_, ?_, ?_, ?_, ?_, ?_, ?_⟩
  · intro i x h; simp [Genesis.base] at h
  · intro t i; simp [Genesis.base, Tbl.has]
  · intro t i; simp [Genesis.base, Tbl.has]
  · intro t i; simp [Genesis.base, Tbl.has]
  · intro t i; simp [Genesis.base, Tbl.has]
  · intro u a i; simp [Genesis.base, Tbl.has]
  · exact ⟨Tbl.nodup_nil, Tbl.nodup_nil, Tbl.nodup_nil, Tbl.nodup_nil, Tbl.nodup_nil, Tbl.nodup_nil⟩

theorem genesis_sessInv (g : Genesis) : SessInv g.state := SessInv.of_view (genesis_sview g) (base_sessInv g)

/-! ### the statements about `SessIdx` alone (`CountInv` of the pre-state where ids matter) -/

theorem provRegister_sessIdx {s s' : State} {frm : Addr} {n i w d : Bytes} (h : provRegister s frm n i w d = .ok s')
    (hi : SessIdx s) : SessIdx s' := SessIdx.of_view (provRegister_sview h) hi

theorem provUpdate_sessIdx {s s' : State} {frm : Addr} {n i w d : Bytes} {st : Status} (h : provUpdate s frm n i w d st = .ok s')
    (hi : SessIdx s) : SessIdx s' := SessIdx.of_view (provUpdate_sview h) hi

theorem nodeRegister_sessIdx {s s' : State} {frm : Addr} {gb hr : Coins} {url : Bytes} (h : nodeRegister s frm gb hr url = .ok s')
    (hi : SessIdx s) : SessIdx s' := SessIdx.of_view (nodeRegister_sview h) hi

theorem nodeUpdate_sessIdx {s s' : State} {frm : Addr} {gb hr : Option Coins} {url : Bytes} (h : nodeUpdate s frm gb hr url = .ok s')
    (hi : SessIdx s) : SessIdx s' := SessIdx.of_view (nodeUpdate_sview h) hi

theorem nodeStatus_sessIdx {s s' : State} {frm : Addr} {st : Status} (h : nodeStatus s frm st = .ok s')
    (hi : SessIdx s) : SessIdx s' := SessIdx.of_view (nodeStatus_sview h) hi

theorem nodeSubscribe_sessIdx {s s' : State} {frm node : Addr} {gb hr : Int} {denom : Denom} (h : nodeSubscribe s frm node gb hr denom = .ok s')
    (hi : SessIdx s) : SessIdx s' := SessIdx.of_view (nodeSubscribe_sview h) hi

theorem planCreate_sessIdx {s s' : State} {frm : Addr} {dur : Dur} {gb : Int} {prices : Coins} (h : planCreate s frm dur gb prices = .ok s')
    (hi : SessIdx s) : SessIdx s' := SessIdx.of_view (planCreate_sview h) hi

theorem planStatus_sessIdx {s s' : State} {frm : Addr} {id : Nat} {st : Status} (h : planStatus s frm id st = .ok s')
    (hi : SessIdx s) : SessIdx s' := SessIdx.of_view (planStatus_sview h) hi

theorem planLink_sessIdx {s s' : State} {frm : Addr} {id : Nat} {node : Addr} (h : planLink s frm id node = .ok s')
    (hi : SessIdx s) : SessIdx s' := SessIdx.of_view (planLink_sview h) hi

theorem planUnlink_sessIdx {s s' : State} {frm : Addr} {id : Nat} {node : Addr} (h : planUnlink s frm id node = .ok s')
    (hi : SessIdx s) : SessIdx s' := SessIdx.of_view (planUnlink_sview h) hi

theorem planSubscribe_sessIdx {s s' : State} {frm : Addr} {id : Nat} {denom : Denom} (h : planSubscribe s frm id denom = .ok s')
    (hi : SessIdx s) : SessIdx s' := SessIdx.of_view (planSubscribe_sview h) hi

theorem subAllocate_sessIdx {s s' : State} {frm toA : Addr} {id : Nat} {bytes : Int} (h : subAllocate s frm id toA bytes = .ok s')
    (hi : SessIdx s) : SessIdx s' := SessIdx.of_view (subAllocate_sview h) hi

theorem swap_sessIdx {s s' : State} {frm recv : Addr} {hash : Bytes} {amt : Int} (h : swap s frm hash recv amt = .ok s')
    (hi : SessIdx s) : SessIdx s' := SessIdx.of_view (swap_sview h) hi

theorem detachPayout_sessIdx {s s' : State} {sub : Sub} {b : Bool} (h : detachPayout s sub b = .ok s')
    (hi : SessIdx s) : SessIdx s' := SessIdx.of_view (detachPayout_sview h) hi

theorem payoutStep_sessIdx {s s' : State} {k : Time × Nat} (h : payoutStep s k = .ok s')
    (hi : SessIdx s) : SessIdx s' := SessIdx.of_view (payoutStep_sview h) hi

theorem nodeSweep_sessIdx {s s' : State}  (h : nodeSweep s = .ok s')
    (hi : SessIdx s) : SessIdx s' := SessIdx.of_view (nodeSweep_sview h) hi

theorem nodeExpireStep_sessIdx {s s' : State} {k : Time × Addr} (h : nodeExpireStep s k = .ok s')
    (hi : SessIdx s) : SessIdx s' := SessIdx.of_view (nodeExpireStep_sview h) hi

theorem nodeExpire_sessIdx {s s' : State}  (h : nodeExpire s = .ok s')
    (hi : SessIdx s) : SessIdx s' := SessIdx.of_view (nodeExpire_sview h) hi

theorem nodeEndBlock_sessIdx {s s' : State}  (h : nodeEndBlock s = .ok s')
    (hi : SessIdx s) : SessIdx s' := SessIdx.of_view (nodeEndBlock_sview h) hi

theorem settleSession_sessIdx {s s' : State} {x : Session} {acc node : Addr} {dep : Coin} {gb b a : Int} (h : settleSession s x acc node dep gb b a = .ok s')
    (hi : SessIdx s) : SessIdx s' := SessIdx.of_view (settleSession_sview h) hi

theorem sessionInactiveHook_sessIdx {s s' : State} {id : Nat} {acc node : Addr} {bytes : Int} (h : sessionInactiveHook s id acc node bytes = .ok s')
    (hi : SessIdx s) : SessIdx s' := SessIdx.of_view (sessionInactiveHook_sview h) hi

theorem refundSub_sessIdx {s s' : State} {item : Sub} (h : refundSub s item = .ok s')
    (hi : SessIdx s) : SessIdx s' := SessIdx.of_view (refundSub_sview h) hi

theorem removePayout_sessIdx {s s' : State} {item : Sub} (h : removePayout s item = .ok s')
    (hi : SessIdx s) : SessIdx s' := SessIdx.of_view (removePayout_sview h) hi

theorem sessStart_sessIdx {s s' : State} {frm : TextAddr} {id : Nat} {node : Addr} (h : sessStart s frm id node = .ok s')
    (hc : CountInv s) (hi : SessIdx s) : SessIdx s' := (sessStart_sessInv h ⟨hc.sessKeyed, hi⟩).2

theorem sessUpdate_sessIdx {s s' : State} {frm : Addr} {id : Nat} {up down dur : Int} {sig : SigSpec} (h : sessUpdate s frm id up down dur sig = .ok s')
    (hc : CountInv s) (hi : SessIdx s) : SessIdx s' := (sessUpdate_sessInv h ⟨hc.sessKeyed, hi⟩).2

theorem sessEnd_sessIdx {s s' : State} {frm : Addr} {id : Nat} (h : sessEnd s frm id = .ok s')
    (hc : CountInv s) (hi : SessIdx s) : SessIdx s' := (sessEnd_sessInv h ⟨hc.sessKeyed, hi⟩).2

theorem subCancel_sessIdx {s s' : State} {frm : Addr} {id : Nat} (h : subCancel s frm id = .ok s')
    (hc : CountInv s) (hi : SessIdx s) : SessIdx s' := (subCancel_sessInv h ⟨hc.sessKeyed, hi⟩).2

theorem subscriptionInactivePendingHook_sessIdx {s s' : State} {id : Nat} (h : subscriptionInactivePendingHook s id = .ok s')
    (hc : CountInv s) (hi : SessIdx s) : SessIdx s' := (subscriptionInactivePendingHook_sessInv h ⟨hc.sessKeyed, hi⟩).2

theorem sessionStep_sessIdx {s s' : State} {k : Time × Nat} (h : sessionStep s k = .ok s')
    (hc : CountInv s) (hi : SessIdx s) : SessIdx s' := (sessionStep_sessInv h ⟨hc.sessKeyed, hi⟩).2

theorem sessionEndBlock_sessIdx {s s' : State}  (h : sessionEndBlock s = .ok s')
    (hc : CountInv s) (hi : SessIdx s) : SessIdx s' := (sessionEndBlock_sessInv h ⟨hc.sessKeyed, hi⟩).2

theorem subscriptionStep_sessIdx {s s' : State} {d : Dur} {k : Time × Nat} (h : subscriptionStep d s k = .ok s')
    (hc : CountInv s) (hi : SessIdx s) : SessIdx s' := (subscriptionStep_sessInv h ⟨hc.sessKeyed, hi⟩).2

theorem subscriptionEndBlock_sessIdx {s s' : State}  (h : subscriptionEndBlock s = .ok s')
    (hc : CountInv s) (hi : SessIdx s) : SessIdx s' := (subscriptionEndBlock_sessInv h ⟨hc.sessKeyed, hi⟩).2

/-- State-level forms of the three primitives. -/
theorem insertSession_sessIdx {s : State} {x : Session} (hid : x.id = s.sessCount.getD 0 + 1)
    (hc : CountInv s) (hi : SessIdx s) : SessIdx (insertSession s x) := (insertSession_sessInv hid ⟨hc.sessKeyed, hi⟩).2

theorem sessionToPending_sessIdx {s : State} {i : Nat} {x : Session} (hx : s.sessions.get i = some x)
    (hc : CountInv s) (hi : SessIdx s) : SessIdx (sessionToPending s x) := by
  have hid := (hc.sessions i x hx).1
  subst hid
  exact (sessionToPending_sessInv hx ⟨hc.sessKeyed, hi⟩).2

theorem removeSession_sessIdx {s : State} {i : Nat} {x : Session} (hx : s.sessions.get i = some x)
    (hc : CountInv s) (hi : SessIdx s) :
    SessIdx (removeSession { s with sessQ := s.sessQ.erase (x.inactiveAt, x.id) } x) := by
  have hid := (hc.sessions i x hx).1
  subst hid
  exact (removeSession_sessInv hx ⟨hc.sessKeyed, hi⟩).2

theorem handle_sessIdx {s s' : State} {m : Msg} (h : m.handle s = .ok s') (hc : CountInv s) (hi : SessIdx s) :
    SessIdx s' := (handle_sessInv h ⟨hc.sessKeyed, hi⟩).2

theorem deliver_sessIdx (s : State) (m : Msg) (hc : CountInv s) (hi : SessIdx s) : SessIdx (deliver s m).1 :=
  (deliver_sessInv s m ⟨hc.sessKeyed, hi⟩).2

theorem beginBlock_sessIdx {s s' : State} {t : Time} (h : beginBlock s t = .ok s') (hi : SessIdx s) : SessIdx s' :=
  SessIdx.of_view (beginBlock_sview h) hi

theorem endBlock_sessIdx {s s' : State} (h : endBlock s = .ok s') (hc : CountInv s) (hi : SessIdx s) : SessIdx s' :=
  (endBlock_sessInv h ⟨hc.sessKeyed, hi⟩).2

theorem gov_sessIdx (s : State) (c : ParamChange) (hi : SessIdx s) : SessIdx ((gov s c).getD s) :=
  SessIdx.of_view (gov_sview s c) hi

/-- **One operation of a history preserves `SessIdx`.**  No side condition on the operation; of
`CountInv s` only `sessions` (stored id = key ≤ `sessCount`) is used, and only for the pre-state. -/
theorem step_sessIdx {s s' : State} {op : Op} (h : step s op = some s') (hc : CountInv s) (hi : SessIdx s) :
    SessIdx s' := (step_sessInv h ⟨hc.sessKeyed, hi⟩).2

theorem genesis_sessIdx (g : Genesis) : SessIdx g.state := (genesis_sessInv g).2

/-- Whole histories, without any reference to `CountInv` preservation: `SessKeyed ∧ SessIdx` is
inductive on its own. -/
theorem sessInv_all_histories (ops : List Op) (s : State) (hi : SessInv s) : ∀ s' ∈ runTrace s ops, SessInv s' := by
  induction ops generalizing s with
  | nil => intro s' h; simp [runTrace] at h
  | cons op rest ih =>
    intro s' h
    simp only [runTrace] at h
    cases hst : step s op with
    | none => simp [hst] at h
    | some s1 =>
      simp only [hst, List.mem_cons] at h
      have i1 := step_sessInv hst hi
      rcases h with h | h
      · rw [h]; exact i1
      · exact ih s1 i1 s' h

theorem sessIdx_all_histories (ops : List Op) (s : State) (hc : CountInv s) (hi : SessIdx s) :
    ∀ s' ∈ runTrace s ops, SessIdx s' :=
  fun s' h => (sessInv_all_histories ops s ⟨hc.sessKeyed, hi⟩ s' h).2

theorem sessIdx_from_genesis (g : Genesis) (ops : List Op) : ∀ s' ∈ runTrace g.state ops, SessIdx s' :=
  fun s' h => (sessInv_all_histories ops g.state (genesis_sessInv g) s' h).2

/-! ### consequences for C09 -/

/-- An id without a session record occurs in no queue or index entry. -/
theorem SessIdx.absent {s : State} (hi : SessIdx s) {i : Nat} (h0 : s.sessions.get i = none) :
    (∀ t, s.sessQ.has (t, i) = false) ∧ (∀ a, s.sessForAcc.has (a, i) = false) ∧
    (∀ a, s.sessForNode.has (a, i) = false) ∧ (∀ u, s.sessForSub.has (u, i) = false) ∧
    (∀ u a, s.sessForAlloc.has (u, a, i) = false) := by
  refine ⟨?_, ?_, ?_, ?_, ?_⟩
  · intro t; rw [← Bool.not_eq_true, hi.q]; simp [h0]
  · intro t; rw [← Bool.not_eq_true, hi.acc]; simp [h0]
  · intro t; rw [← Bool.not_eq_true, hi.node]; simp [h0]
  · intro t; rw [← Bool.not_eq_true, hi.sub]; simp [h0]
  · intro u a; rw [← Bool.not_eq_true, hi.alloc]; simp [h0]

/-- Listing the sessions of an account through the by-account index: no duplicates, and exactly the
ids of the sessions whose `addr` is `a`. -/
theorem session_listing_by_account {s : State} (hi : SessIdx s) (a : Addr) :
    ((s.sessForAcc.keys.filter (·.1 = a)).map (·.2)).Nodup ∧
    ∀ i, i ∈ (s.sessForAcc.keys.filter (·.1 = a)).map (·.2) ↔ ∃ x, s.sessions.get i = some x ∧ x.addr = a := by
  obtain ⟨h1, h2⟩ := Tbl.listing₂ hi.nodup.2.2.1 a
  exact ⟨h1, fun i => (h2 i).trans (hi.acc a i)⟩

theorem session_listing_by_node {s : State} (hi : SessIdx s) (n : Addr) :
    ((s.sessForNode.keys.filter (·.1 = n)).map (·.2)).Nodup ∧
    ∀ i, i ∈ (s.sessForNode.keys.filter (·.1 = n)).map (·.2) ↔ ∃ x, s.sessions.get i = some x ∧ x.node = n := by
  obtain ⟨h1, h2⟩ := Tbl.listing₂ hi.nodup.2.2.2.1 n
  exact ⟨h1, fun i => (h2 i).trans (hi.node n i)⟩

theorem session_listing_by_subscription {s : State} (hi : SessIdx s) (u : Nat) :
    ((s.sessForSub.keys.filter (·.1 = u)).map (·.2)).Nodup ∧
    ∀ i, i ∈ (s.sessForSub.keys.filter (·.1 = u)).map (·.2) ↔ ∃ x, s.sessions.get i = some x ∧ x.sub = u := by
  obtain ⟨h1, h2⟩ := Tbl.listing₂ hi.nodup.2.2.2.2.1 u
  exact ⟨h1, fun i => (h2 i).trans (hi.sub u i)⟩

theorem session_listing_by_allocation {s : State} (hi : SessIdx s) (u : Nat) (a : Addr) :
    ((s.sessForAlloc.keys.filter (fun k => k.1 = u ∧ k.2.1 = a)).map (·.2.2)).Nodup ∧
    ∀ i, i ∈ (s.sessForAlloc.keys.filter (fun k => k.1 = u ∧ k.2.1 = a)).map (·.2.2) ↔
      ∃ x, s.sessions.get i = some x ∧ x.sub = u ∧ x.addr = a := by
  obtain ⟨h1, h2⟩ := Tbl.listing₃ hi.nodup.2.2.2.2.2 u a
  exact ⟨h1, fun i => (h2 i).trans (hi.alloc u a i)⟩

/-- The iteration the pending hook really performs (`IterateSessionsForSubscription`, sorted and
reversed): each session of the subscription exactly once, and nothing else. -/
theorem sessionIdsForSub_spec {s : State} (hi : SessIdx s) (u : Nat) :
    (sessionIdsForSub s u).Nodup ∧ ∀ i, i ∈ sessionIdsForSub s u ↔ ∃ x, s.sessions.get i = some x ∧ x.sub = u := by
  obtain ⟨h1, h2⟩ := session_listing_by_subscription hi u
  unfold sessionIdsForSub
  refine ⟨?_, ?_⟩
  · rw [List.nodup_reverse]; exact (List.mergeSort_perm _ _).nodup_iff.mpr h1
  · intro i; rw [List.mem_reverse, List.mem_mergeSort]; exact h2 i

/-- Every entry of the session deadline queue points at an existing session (with that deadline). -/
theorem queue_targets_live {s : State} (hi : SessIdx s) :
    ∀ k ∈ s.sessQ.keys, ∃ x, s.sessions.get k.2 = some x ∧ x.inactiveAt = k.1 := by
  intro k hk
  exact (hi.q k.1 k.2).mp ((Tbl.mem_keys_iff_has _ _).mp hk)

theorem queue_targets_live' {s : State} (hi : SessIdx s) (t : Time) (i : Nat) (h : s.sessQ.has (t, i) = true) :
    s.sessions.has i = true := by
  obtain ⟨x, hx, _⟩ := (hi.q t i).mp h
  exact (Tbl.has_iff _ _).mpr ⟨x, hx⟩

/-- …hence the session pass of `EndBlock` never hits its "does not exist" panic on a due key. -/
theorem dueIds_live {s : State} (hi : SessIdx s) (enc : Time → Nat → Bytes) (t : Time) :
    ∀ k ∈ dueIds enc s.sessQ t, ∃ x, s.sessions.get k.2 = some x ∧ x.inactiveAt = k.1 := by
  intro k hk
  unfold dueIds sortKeys at hk
  rw [List.mem_mergeSort] at hk
  exact queue_targets_live hi k (List.mem_filter.mp hk).1

/-- What `sessionStep` removes (dequeue, then `removeSession`): afterwards no table has an entry
for the session's id. -/
theorem removed_session_disappears {s : State} {i : Nat} {item : Session} (hx : s.sessions.get i = some item)
    (hc : CountInv s) (hi : SessIdx s) :
    let s' := removeSession { s with sessQ := s.sessQ.erase (item.inactiveAt, item.id) } item
    s'.sessions.get item.id = none ∧ (∀ t, s'.sessQ.has (t, item.id) = false) ∧
    (∀ a, s'.sessForAcc.has (a, item.id) = false) ∧ (∀ a, s'.sessForNode.has (a, item.id) = false) ∧
    (∀ u, s'.sessForSub.has (u, item.id) = false) ∧ (∀ u a, s'.sessForAlloc.has (u, a, item.id) = false) := by
  intro s'
  have h0 : s'.sessions.get item.id = none := by simp [s', removeSession, emit]
  exact ⟨h0, (removeSession_sessIdx hx hc hi).absent h0⟩

/-- `removeSession` alone (without the dequeue its caller does first) clears the record and the four
indices, and leaves exactly the one queue entry of the removed session. -/
theorem removeSession_alone {s : State} {i : Nat} {item : Session} (hx : s.sessions.get i = some item)
    (hc : CountInv s) (hi : SessIdx s) :
    let s' := removeSession s item
    s'.sessions.get item.id = none ∧ (∀ t, s'.sessQ.has (t, item.id) = true ↔ t = item.inactiveAt) ∧
    (∀ a, s'.sessForAcc.has (a, item.id) = false) ∧ (∀ a, s'.sessForNode.has (a, item.id) = false) ∧
    (∀ u, s'.sessForSub.has (u, item.id) = false) ∧ (∀ u a, s'.sessForAlloc.has (u, a, item.id) = false) := by
  intro s'
  have hid := (hc.sessions i item hx).1
  subst hid
  obtain ⟨_, _, h3, h4, h5, h6⟩ := removed_session_disappears hx hc hi
  refine ⟨by simp [s', removeSession, emit], ?_, h3, h4, h5, h6⟩
  intro t
  show s.sessQ.has (t, item.id) = true ↔ _
  rw [hi.q, hx]
  simp [eq_comm]

/-- The removal branch of the session pass, end to end. -/
theorem sessionStep_removes {s s' : State} {k : Time × Nat} {item : Session} (h : sessionStep s k = .ok s')
    (hx : s.sessions.get k.2 = some item) (hst : item.status ≠ .StatusActive) (hc : CountInv s) (hi : SessIdx s) :
    s'.sessions.get k.2 = none ∧ (∀ t, s'.sessQ.has (t, k.2) = false) ∧
    (∀ a, s'.sessForAcc.has (a, k.2) = false) ∧ (∀ a, s'.sessForNode.has (a, k.2) = false) ∧
    (∀ u, s'.sessForSub.has (u, k.2) = false) ∧ (∀ u a, s'.sessForAlloc.has (u, a, k.2) = false) := by
  have hi' := sessionStep_sessIdx h hc hi
  have hid := (hc.sessions k.2 item hx).1
  unfold sessionStep at h
  simp only [bind_eq_ok, orPanic_eq_ok] at h
  obtain ⟨item', hx', h⟩ := h
  rw [hx] at hx'
  simp only [Option.some.injEq] at hx'
  subst hx'
  simp only [hst, if_false, bind_eq_ok, pure_eq_ok, panicIfErr_eq_ok] at h
  obtain ⟨bytes, _, s2, h2, rfl⟩ := h
  have h0 : (removeSession s2 item).sessions.get k.2 = none := by
    rw [← hid]; simp [removeSession, emit]
  exact ⟨h0, hi'.absent h0⟩

/-! ### non-vacuity: a concrete state with a live session satisfies both hypotheses of `step_sessIdx` -/

def sampleSession : Session :=
  { id := 1, sub := 1, node := [7], addr := [9], up := 0, down := 0, dur := 0, inactiveAt := 100,
    status := .StatusActive, statusAt := 0 }

def sampleBase : State := { subCount := some 1, sessCount := some 0 }

def sampleState : State := insertSession sampleBase sampleSession

theorem sampleBase_sessInv : SessInv sampleBase := by
  refine ⟨?_, ?_, ?_, ?_, ?_, ?_, ?_⟩
  · intro i x h; simp [sampleBase] at h
  · intro t i; simp [sampleBase, Tbl.has]
  · intro t i; simp [sampleBase, Tbl.has]
  · intro t i; simp [sampleBase, Tbl.has]
  · intro t i; simp [sampleBase, Tbl.has]
  · intro u a i; simp [sampleBase, Tbl.has]
  · exact ⟨Tbl.nodup_nil, Tbl.nodup_nil, Tbl.nodup_nil, Tbl.nodup_nil, Tbl.nodup_nil, Tbl.nodup_nil⟩

example : CountInv sampleState ∧ SessIdx sampleState := by
  refine ⟨⟨?_, ?_, ?_, ?_, ?_, ⟨?_, ?_⟩, ⟨?_, ?_, ?_, ?_, ?_, ?_, ?_, ?_⟩, ⟨?_, ?_, ?_, ?_, ?_⟩⟩,
    (insertSession_sessInv (s := sampleBase) (x := sampleSession) rfl sampleBase_sessInv).2⟩
  all_goals
    intros
    simp_all [sampleState, sampleBase, sampleSession, insertSession, Tbl.set, Tbl.get_cons, Tbl.has]
  · rename_i i x h; obtain ⟨rfl, rfl⟩ := h; simp
  · omega
  · omega

end Hub.Model
