import Hub.Lemmas.NoHaltCore
import Hub.Lemmas.NoHaltHooks
import Hub.Props.C11
/-
C03 (partial) — EndBlock: the node pass (re-pricing sweep, expiry), the session pass (settlement) and
the subscription pass (pending transition, refund, removal) return on `Good` states.
-/
set_option linter.unusedSimpArgs false
set_option linter.unusedVariables false
set_option linter.unnecessarySeqFocus false
set_option linter.unusedTactic false
set_option linter.unreachableTactic false

namespace Hub.Model.NoHalt
open Hub.SDK Hub.Model Hub.Model.Escrow
open Hub.Generated (Status AmountForBytes GetProportionOfCoin Gigabyte)

/-! ### node pass -/

theorem setNode_total {s : State} {n : Node} (h : n.status = .StatusActive ∨ n.status = .StatusInactive) :
    ∃ s', setNode s n = .ok s' := by
  unfold setNode
  rcases h with h | h <;> rw [h] <;> exact ⟨_, rfl⟩

theorem node_status {s : State} (hr : RecInv s) {a : Addr} {n : Node} (h : getNode s a = some n) :
    n.status = .StatusActive ∨ n.status = .StatusInactive := by
  rcases getNode_mem h with hm | hm
  · exact Or.inl (hr.nodeA a n hm).2
  · exact Or.inr (hr.nodeI a n hm).2.1

theorem getNode_of_has {s : State} {a : Addr} (h : hasNode s a = true) : ∃ n, getNode s a = some n := by
  unfold hasNode Tbl.has at h
  unfold getNode
  cases ha : s.nodeActive.get a with
  | some n => exact ⟨n, rfl⟩
  | none =>
    rw [ha] at h
    cases hb : s.nodeInactive.get a with
    | some n => exact ⟨n, rfl⟩
    | none => rw [hb] at h; simp at h

theorem sweepBody_total {s : State} {a : Addr} (hr : RecInv s) (hn : hasNode s a = true) :
    ∃ s', sweepBody s a = .ok s' := by
  obtain ⟨n, hg⟩ := getNode_of_has hn
  unfold sweepBody
  rw [hg]
  simp only [orPanic, pure_bind']
  obtain ⟨s1, h1⟩ := setNode_total (s := s) (n := sweepNode s.params s.modified n) (by have := node_status hr hg; exact this)
  rw [h1, ok_bind]
  exact ⟨_, rfl⟩

theorem sweepBody_keeps {s s' : State} {a : Addr} (h : sweepBody s a = .ok s') (hr : RecInv s) :
    RecInv s' ∧ ∀ a', hasNode s a' = true → hasNode s' a' = true := by
  unfold sweepBody at h
  simp only [bind_eq_ok, pure_eq_ok, orPanic_eq_ok] at h
  obtain ⟨item, hitem, s2, h2, rfl⟩ := h
  refine ⟨RecInv.of_nview (s := s2) rfl (setNode_same_rec hr hitem h2 rfl rfl rfl), ?_⟩
  intro a' ha'
  unfold hasNode at ha' ⊢
  rcases setNode_eff h2 with ⟨_, e⟩ | ⟨_, e⟩ <;> subst e
  · simp only [emit, Tbl.has_set_A]
    rw [Bool.or_eq_true] at ha' ⊢
    rcases ha' with h | h
    · left; simp [h]
    · right; exact h
  · simp only [emit, Tbl.has_set_A]
    rw [Bool.or_eq_true] at ha' ⊢
    rcases ha' with h | h
    · left; exact h
    · right; simp [h]

theorem mem_nodeOrder_has {s : State} {a : Addr} (h : a ∈ nodeOrder s) : hasNode s a = true := by
  unfold nodeOrder at h
  rw [List.mem_append, sortKeys_mem_iff, sortKeys_mem_iff] at h
  unfold hasNode
  rcases h with h | h
  · rw [(Tbl.mem_keys_iff_has_A _ _).mp h]; rfl
  · rw [(Tbl.mem_keys_iff_has_A _ _).mp h]; simp

/-- The re-pricing sweep returns; `Q` is any property kept by one iteration (used for `NH`). -/
theorem nodeSweep_total (Q : State → Prop) (hQ : ∀ {s s' : State} {a : Addr}, sweepBody s a = .ok s' → RecInv s → Q s → Q s')
    {s : State} (hr : RecInv s) (hq : Q s) : ∃ s', nodeSweep s = .ok s' ∧ RecInv s' ∧ Q s' := by
  rw [nodeSweep_eq]
  split
  · exact ⟨s, rfl, hr, hq⟩
  · obtain ⟨s', h, hr', hq', _⟩ := foldlM_total (fun rest t => RecInv t ∧ Q t ∧ ∀ a ∈ rest, hasNode t a = true) sweepBody
      (by
        intro t a rest ⟨hrt, hqt, hall⟩
        obtain ⟨t1, h1⟩ := sweepBody_total hrt (hall a (by simp))
        obtain ⟨r1, k1⟩ := sweepBody_keeps h1 hrt
        exact ⟨t1, h1, r1, hQ h1 hrt hqt, fun a' ha' => k1 a' (hall a' (by simp [ha']))⟩)
      (nodeOrder s) s ⟨hr, hq, fun a ha => mem_nodeOrder_has ha⟩
    exact ⟨s', h, hr', hq'⟩

theorem nodeExpireStep_total {s : State} {k : Time × Addr} (hr : RecInv s) (hi : NodeIdx s) (hq : s.nodeQ.has k = true) :
    ∃ s', nodeExpireStep s k = .ok s' ∧ ∀ k', k' ≠ k → s.nodeQ.has k' = true → s'.nodeQ.has k' = true := by
  obtain ⟨tm, a⟩ := k
  obtain ⟨n, hn, hia⟩ := (hi.nodeQ tm a).mp hq
  have hg : getNode s a = some n := by unfold getNode; rw [hn]
  obtain ⟨haddr, _⟩ := hr.nodeA a n hn
  unfold nodeExpireStep
  simp only []
  rw [hg]
  simp only [orPanic, pure_bind', setNode]
  refine ⟨_, rfl, ?_⟩
  intro k' hne hk'
  simp only [emit, Tbl.has_erase_A, hk', Bool.and_true, Bool.not_eq_true', decide_eq_false_iff_not]
  rw [hia, haddr]
  exact fun e => hne e.symm

/-- The expiry loop returns. -/
theorem nodeExpire_total (Q : State → Prop)
    (hQ : ∀ {s s' : State} {k : Time × Addr}, nodeExpireStep s k = .ok s' → RecInv s → Q s → Q s')
    {s : State} (hr : RecInv s) (hi : NodeIdx s) (hq : Q s) :
    ∃ s', nodeExpire s = .ok s' ∧ RecInv s' ∧ NodeIdx s' ∧ Q s' := by
  unfold nodeExpire
  obtain ⟨s', h, hr', hi', hq', _⟩ := foldlM_total
    (fun rest t => RecInv t ∧ NodeIdx t ∧ Q t ∧ rest.Nodup ∧ ∀ k ∈ rest, t.nodeQ.has k = true) nodeExpireStep
    (by
      intro t k rest ⟨hrt, hit, hqt, hnd, hall⟩
      obtain ⟨t1, h1, hk1⟩ := nodeExpireStep_total hrt hit (hall k (by simp))
      obtain ⟨hnk, hnr⟩ := List.nodup_cons.mp hnd
      refine ⟨t1, h1, nodeExpireStep_rec h1 hrt, nodeExpireStep_idx h1 hrt hit, hQ h1 hrt hqt, hnr, ?_⟩
      intro k' hk'
      exact hk1 k' (fun e => hnk (e ▸ hk')) (hall k' (by simp [hk'])))
    (dueNodes s) s ⟨hr, hi, hq, dueNodes_nodup hi.nodupQ.1, fun k hk => (dueNodes_mem_iff.mp hk).1⟩
  exact ⟨s', h, hr', hi', hq'⟩


/-! ### session pass: settlement -/

theorem subGigabytePrice_total {dep : Coin} {gb : Int} (hvd : validDenom dep.denom = true) (hd0 : 0 ≤ dep.amount) (hgb : 0 < gb) :
    subGigabytePrice dep gb = .ok ⟨dep.denom, Int.tdiv dep.amount gb⟩ := by
  unfold subGigabytePrice
  rw [quo_total (by omega), ok_bind]
  exact newCoin_total hvd (Int.tdiv_nonneg hd0 (le_of_lt hgb))

/-- Metering at the per-gigabyte price of a deposit below 2^255 for at most the purchased bytes. -/
theorem afb_sub_total {dep gb u : Int} (hd0 : 0 ≤ dep) (hd1 : dep < B255) (hgb : 0 < gb) (hu0 : 0 ≤ u)
    (hu : u ≤ Gigabyte * gb) (hg : Gigabyte * gb < GrantMax) :
    AmountForBytes (Int.tdiv dep gb) u = .ok (charge (Int.tdiv dep gb) u) := by
  have hp : 0 ≤ Int.tdiv dep gb := Int.tdiv_nonneg hd0 (le_of_lt hgb)
  have hu' : u ≤ 1000000000 * gb := by rw [← gigabyte_eq]; exact hu
  have hg' : 1000000000 * gb < 6277101735386680763835789423207666416102355444464034512896 := by
    rw [← gigabyte_eq]; exact hg
  have h2 : Int.tdiv dep gb * gb ≤ dep := by
    rw [Int.tdiv_eq_ediv_of_nonneg hd0]; exact Int.ediv_mul_le dep (by omega)
  refine afb_total hp hu0 ?_ ?_ ?_
  · have hq : 0 ≤ Int.tdiv dep gb / 1000000000 := Int.ediv_nonneg hp (by norm_num)
    have h3 : Int.tdiv dep gb / 1000000000 * 1000000000 ≤ Int.tdiv dep gb := Int.ediv_mul_le _ (by norm_num)
    have h4 : Int.tdiv dep gb / 1000000000 * u ≤ dep := by
      calc Int.tdiv dep gb / 1000000000 * u ≤ Int.tdiv dep gb / 1000000000 * (1000000000 * gb) :=
            Int.mul_le_mul_of_nonneg_left hu' hq
        _ = (Int.tdiv dep gb / 1000000000 * 1000000000) * gb := by ring
        _ ≤ Int.tdiv dep gb * gb := Int.mul_le_mul_of_nonneg_right h3 (le_of_lt hgb)
        _ ≤ dep := h2
    omega
  · have hm0 : 0 ≤ Int.tdiv dep gb % 1000000000 := Int.emod_nonneg _ (by norm_num)
    have hm1 : Int.tdiv dep gb % 1000000000 < 1000000000 := Int.emod_lt_of_pos _ (by norm_num)
    have h5 : Int.tdiv dep gb % 1000000000 * u ≤ 1000000000 * 6277101735386680763835789423207666416102355444464034512896 := by
      calc Int.tdiv dep gb % 1000000000 * u ≤ 1000000000 * u := Int.mul_le_mul_of_nonneg_right (le_of_lt hm1) hu0
        _ ≤ 1000000000 * 6277101735386680763835789423207666416102355444464034512896 :=
            Int.mul_le_mul_of_nonneg_left (by omega) (by norm_num)
    have h6 : (1000000000 : Int) * 6277101735386680763835789423207666416102355444464034512896 + 1000000000 < B256 := by norm_num
    omega
  · have := charge_le_deposit (used := u) hd0 hgb hu
    omega

theorem settleSession_total {t : State} (hm : MG t) (hp : ParamsOK t.params) (x : Session) (acc node : Addr) {dep : Coin}
    {gb before after : Int} (hvd : validDenom dep.denom = true) (hd0 : 0 ≤ dep.amount) (hd1 : dep.amount < B255)
    (hgb : 0 < gb) (hb0 : 0 ≤ before) (hba : before ≤ after) (ha : after ≤ Gigabyte * gb) (hg : Gigabyte * gb < GrantMax)
    (hcov : dep.amount - charge (Int.tdiv dep.amount gb) before ≤ escrowOf t acc dep.denom)
    (hnode : isBlocked node = false) :
    ∃ t', settleSession t x acc node dep gb before after = .ok t' := by
  have hcb0 := charge_nonneg (Int.tdiv dep.amount gb) before
  have hcm := charge_mono (Int.tdiv dep.amount gb) hba
  have hca := charge_le_deposit (used := after) hd0 hgb ha
  unfold settleSession
  rw [subGigabytePrice_total hvd hd0 hgb, ok_bind]
  simp only []
  rw [afb_sub_total hd0 hd1 hgb hb0 (le_trans hba ha) hg, ok_bind,
    afb_sub_total hd0 hd1 hgb (le_trans hb0 hba) ha hg, ok_bind,
    sub_total hcb0 hcm (by omega), ok_bind,
    newCoin_total hvd (by omega), ok_bind]
  obtain ⟨reward, hrw, hrd, hr0, hr1⟩ := proportion_total
    (c := ⟨dep.denom, charge (Int.tdiv dep.amount gb) after - charge (Int.tdiv dep.amount gb) before⟩)
    (sh := t.params.nodeShare) hvd (by show 0 ≤ _ - _; omega) (by show _ - _ < _; omega) hp.share0 hp.share1
  simp only [] at hrd hr1
  rw [hrw, ok_bind]
  obtain ⟨t1, h1⟩ := sendCoinFromDepositToModule_total hm acc feeCollectorAddr (c := reward) hr0
    (by rw [hrd]; omega)
  rw [h1, ok_bind]
  simp only []
  rw [sub_total hr0 hr1 (by omega), ok_bind]
  have hrq : requireP (decide (0 ≤ charge (Int.tdiv dep.amount gb) after - charge (Int.tdiv dep.amount gb) before - reward.amount))
      "negative coin amount" = .ok () := by
    rw [requireP_eq_ok]; simp; omega
  rw [hrq, ok_bind]
  have hm1 := sendCoinFromDepositToModule_mg h1 hr0 (by decide) hm
  have he1 := sendCoinFromDepositToModule_escrow h1 acc dep.denom
  obtain ⟨t2, h2⟩ := sendCoinFromDepositToAccount_total hm1 acc node
    (c := ⟨dep.denom, charge (Int.tdiv dep.amount gb) after - charge (Int.tdiv dep.amount gb) before - reward.amount⟩)
    (by show 0 ≤ _ - _ - _; omega)
    (by
      show _ - _ - _ ≤ escrowOf t1 acc dep.denom
      rw [he1]
      split
      · omega
      · rename_i hc; exact absurd ⟨rfl, hrd⟩ hc)
    hnode
  rw [h2, ok_bind]
  exact ⟨_, rfl⟩


/-- `SessionInactiveHook` returns for a stored pending session (on the state whose deadline queue entry has
just been removed). -/
theorem sessionInactiveHook_total {M : Dur} {s : State} (hb : Base s) (hl : LifeInv M s) (q : Tbl (Time × Nat) Unit)
    {x : Session} (hx : s.sessions.get x.id = some x) (hpend : x.status = .StatusInactivePending)
    {bytes : Int} (hb0 : 0 ≤ bytes) (hb1 : bytes < 2 * ReportMax) :
    ∃ s', sessionInactiveHook { s with sessQ := q } x.id x.addr x.node bytes = .ok s' := by
  obtain ⟨sub, hsub⟩ := hl.sessSub x.id x hx
  have hsid : sub.id = x.sub := (hb.struct.count.subs _ _ hsub).1
  unfold sessionInactiveHook
  have e1 : ({ s with sessQ := q } : State).sessions.get x.id = some x := hx
  have e2 : ({ s with sessQ := q } : State).subs.get x.sub = some sub := hsub
  rw [e1]
  simp only [orReject, pure_bind']
  have hrq : require (decide (x.status = Status.StatusInactivePending)) "invalid status for session" = .ok () := by
    rw [require_eq_ok]; simp [hpend]
  rw [hrq, ok_bind, e2]
  simp only [pure_bind']
  split
  · exact ⟨_, rfl⟩
  · rename_i hnh
    have hnh' : isHourly sub = false := by simpa using hnh
    have hhas := hb.nh.sessAlloc x.id x sub hx hsub hnh'
    obtain ⟨a, ha⟩ := (Tbl.has_iff _ _).mp hhas
    have e3 : ({ s with sessQ := q } : State).allocs.get (sub.id, x.addr) = some a := by rw [hsid]; exact ha
    rw [e3]
    simp only [pure_bind']
    obtain ⟨hu0, hug⟩ := hb.struct.alloc.bounds _ _ ha
    have hgm := hb.amounts.grants _ _ ha
    have hgm' : a.granted < 6277101735386680763835789423207666416102355444464034512896 := hgm
    have hb1' : bytes < 2 * 340282366920938463463374607431768211456 := hb1
    rw [add_total hu0 hb0 (by omega), ok_bind]
    cases hk : sub.kind with
    | plan pid dn =>
      have : gbInfo sub = none := by unfold gbInfo; rw [hk]
      rw [this]
      exact ⟨_, rfl⟩
    | node n gb hr dep =>
      have hw := hb.escrow.wf x.sub sub hsub
      unfold SubWF at hw; rw [hk] at hw; simp only [] at hw
      obtain ⟨hdep, ⟨hgb, hhr, al, hal, hgr⟩ | ⟨hgb, hhr, _⟩⟩ := hw
      · have hgb' : gb ≠ 0 := by omega
        have : gbInfo sub = some (dep, gb) := by unfold gbInfo; rw [hk]; simp [hgb']
        rw [this]
        simp only []
        have hplan : isPlanSub sub = false := by unfold isPlanSub; rw [hk]
        have haddr : x.addr = sub.addr := hb.struct.subIdx.nodeSubAlloc x.sub sub x.addr hsub hplan hhas
        rw [haddr] at ha
        rw [ha] at hal
        simp only [Option.some.injEq] at hal
        subst hal
        have hok := hb.nh.subs x.sub sub hsub
        unfold SubOK at hok; rw [hk] at hok
        obtain ⟨_, _, hvd, hlt⟩ := hok
        have hcov := escrow_covers hb.struct hb.escrow hsub dep.denom
        rw [rem_gb hk hgb', if_pos rfl, usedOf_some ha] at hcov
        have hm := hb.mg
        refine settleSession_total (t := emit (setAllocation { s with sessQ := q } (allocAfterUse a (a.used + bytes)))
            (evAllocate (allocAfterUse a (a.used + bytes))))
          ⟨MoneyInv.of_view (s := s) rfl hm.money, hm.bank, hm.depUniq, hm.supply⟩ hb.nh.params x x.addr x.node hvd hdep hlt hgb hu0
          ?_ ?_ (by rw [← hgr]; exact hgm) ?_ (hb.nh.sess x.id x hx).node
        · unfold allocAfterUse; simp only []; split <;> omega
        · unfold allocAfterUse; simp only []; rw [← hgr]; split <;> omega
        · rw [haddr]; exact hcov
      · exfalso
        have : isHourly sub = true := by unfold isHourly; rw [hk]; simp; omega
        rw [this] at hnh'; exact absurd hnh' (by decide)

theorem sessionStep_total {M : Dur} {s : State} {k : Time × Nat} (hb : Base s) (hl : LifeInv M s)
    (hq : s.sessQ.has k = true) : ∃ s', sessionStep s k = .ok s' := by
  obtain ⟨item, hitem, hia⟩ := (hb.struct.sessIdx.q k.1 k.2).mp hq
  have hid : item.id = k.2 := (hb.struct.count.sessions _ _ hitem).1
  unfold sessionStep
  rw [hitem]
  simp only [orPanic, pure_bind']
  split
  · exact ⟨_, rfl⟩
  · rename_i hna
    have hpend : item.status = .StatusInactivePending := (hl.sessStatus _ _ hitem).resolve_left hna
    have hso := hb.nh.sess k.2 item hitem
    have hu1 : item.up < 340282366920938463463374607431768211456 := hso.up1
    have hd1 : item.down < 340282366920938463463374607431768211456 := hso.down1
    have hsum : Hub.Generated.Bandwidth.Sum ⟨item.up, item.down⟩ = .ok (item.up + item.down) := by
      unfold Hub.Generated.Bandwidth.Sum
      show SInt.add item.up item.down = _
      exact add_total hso.up0 hso.down0 (by omega)
    rw [hsum, ok_bind]
    have hitem' : s.sessions.get item.id = some item := by rw [hid]; exact hitem
    obtain ⟨s2, h2⟩ := sessionInactiveHook_total hb hl (s.sessQ.erase (item.inactiveAt, item.id)) hitem' hpend
      (bytes := item.up + item.down) (by have := hso.up0; have := hso.down0; omega)
      (by unfold ReportMax; omega)
    rw [panicIfErr_ok h2, ok_bind]
    exact ⟨_, rfl⟩


/-! ### subscription pass -/

/-- `SubscriptionInactivePendingHook` returns: every listed session id is live. -/
theorem pendingHook_total {s : State} (id : Nat) (hx : SessIdx s) :
    ∃ s', subscriptionInactivePendingHook s id = .ok s' := by
  unfold subscriptionInactivePendingHook
  obtain ⟨s', h, _⟩ := foldlM_total (fun rest t => ∀ sid ∈ rest, ∃ x, t.sessions.get sid = some x)
    (fun (s : State) (sid : Nat) => (do
      let x ← orPanic (s.sessions.get sid) "session for subscription key does not exist"
      pure (if x.status = Status.StatusActive then sessionToPending s x else s) : M State))
    (by
      intro t sid rest hall
      obtain ⟨x, hx⟩ := hall sid (by simp)
      refine ⟨_, by rw [hx]; rfl, ?_⟩
      intro sid' hs'
      obtain ⟨x', hx'⟩ := hall sid' (by simp [hs'])
      split
      · simp only [sessionToPending, emit, Tbl.get_set]
        split
        · exact ⟨_, rfl⟩
        · exact ⟨x', hx'⟩
      · exact ⟨x', hx'⟩)
    (sessionIdsForSub s id) s
    (fun sid hs => by
      obtain ⟨x, hx', _⟩ := ((sessionIdsForSub_spec hx id).2 sid).mp hs
      exact ⟨x, hx'⟩)
  exact ⟨s', h⟩

theorem payouts_removeAllocs (l : List Addr) (s : State) (id : Nat) : (removeAllocs s id l).payouts = s.payouts := by
  unfold removeAllocs
  induction l generalizing s with
  | nil => rfl
  | cons a rest ih => simp only [List.foldl_cons]; rw [ih]

theorem payouts_removeSubRecords (s : State) (item : Sub) : (removeSubRecords s item).payouts = s.payouts := by
  unfold removeSubRecords
  cases item.kind with
  | node n gb hr dep => rfl
  | plan pid dn => simp only [emit]; exact payouts_removeAllocs _ _ _

/-- The refund of a removed node subscription returns. -/
theorem refundSub_total {s : State} (hb : Base s) (q : Tbl (Time × Nat) Unit) {item : Sub}
    (hitem : s.subs.get item.id = some item) : ∃ s', refundSub { s with subQ := q } item = .ok s' := by
  have hm := hb.mg
  have hm1 : MG { s with subQ := q } := ⟨MoneyInv.of_view (s := s) rfl hm.money, hm.bank, hm.depUniq, hm.supply⟩
  unfold refundSub
  cases hk : item.kind with
  | plan pid dn => exact ⟨_, rfl⟩
  | node n gb hr dep =>
    simp only []
    have hw := hb.escrow.wf item.id item hitem
    unfold SubWF at hw; rw [hk] at hw; simp only [] at hw
    have hok := hb.nh.subs item.id item hitem
    unfold SubOK at hok; rw [hk] at hok
    obtain ⟨hba, _, hvd, hlt⟩ := hok
    obtain ⟨hdep, ⟨hgb, hhr, al, hal, hgr⟩ | ⟨hgb, hhr, p, hp, h3, h4, h5, h6, h7⟩⟩ := hw
    · -- per gigabyte
      have hgb' : gb ≠ 0 := by omega
      rw [if_pos hgb']
      subst hhr
      simp only [ne_eq, not_true_eq_false, if_false]
      obtain ⟨hu0, hug⟩ := hb.struct.alloc.bounds _ _ hal
      have hgm := hb.amounts.grants _ _ hal
      have hcl := charge_le_deposit (used := al.used) hdep hgb (by rw [← hgr]; exact hug)
      have hc0 := charge_nonneg (Int.tdiv dep.amount gb) al.used
      have hcov := escrow_covers hb.struct hb.escrow hitem dep.denom
      rw [rem_gb hk hgb', if_pos rfl, usedOf_some hal] at hcov
      obtain ⟨s1, h1⟩ := subtractDeposit_total hm1 item.addr
        (c := ⟨dep.denom, dep.amount - charge (Int.tdiv dep.amount gb) al.used⟩)
        (by show 0 ≤ _ - _; omega) (by show _ - _ ≤ escrowOf _ _ _; exact hcov) hba
      have : refundGB { s with subQ := q } item dep gb = .ok
          (emit s1 (evRefund item ⟨dep.denom, dep.amount - charge (Int.tdiv dep.amount gb) al.used⟩)) := by
        unfold refundGB
        rw [subGigabytePrice_total hvd hdep hgb, ok_bind]
        have e : ({ s with subQ := q } : State).allocs.get (item.id, item.addr) = some al := hal
        rw [e]
        simp only [orPanic, pure_bind']
        rw [afb_sub_total hdep hlt hgb hu0 (by rw [← hgr]; exact hug) (by rw [← hgr]; exact hgm), ok_bind,
          sub_total hc0 hcl (by omega), ok_bind, newCoin_total hvd (by omega), ok_bind, panicIfErr_ok h1, ok_bind]
        rfl
      rw [this, ok_bind]
      exact ⟨_, rfl⟩
    · -- per hour
      subst hgb
      have hhr' : hr ≠ 0 := by omega
      rw [if_neg (by simp), pure_bind', if_pos hhr']
      have hh0 : 0 ≤ p.hours := (hb.struct.subIdx.payoutRec item.id p item hp hitem).2
      have hcov := escrow_covers hb.struct hb.escrow hitem p.price.denom
      rw [rem_hr hk hp, if_pos rfl] at hcov
      have hprod0 : 0 ≤ p.price.amount * p.hours := Int.mul_nonneg h5 hh0
      have hprod1 : p.price.amount * p.hours ≤ dep.amount := by
        rw [← h6]; exact Int.mul_le_mul_of_nonneg_left h7 h5
      obtain ⟨s1, h1⟩ := subtractDeposit_total hm1 p.addr
        (c := ⟨p.price.denom, p.price.amount * p.hours⟩) hprod0 (by rw [h3]; exact hcov) (by rw [h3]; exact hba)
      unfold refundHr
      have e : ({ s with subQ := q } : State).payouts.get item.id = some p := hp
      rw [e]
      simp only [orPanic, pure_bind']
      rw [mul_total hprod0 (by omega), ok_bind, newCoin_total (by rw [h4]; exact hvd) hprod0, ok_bind,
        panicIfErr_ok h1, ok_bind]
      exact ⟨_, rfl⟩

theorem subscriptionStep_total {s : State} {k : Time × Nat} (d : Dur) (hb : Base s) (hq : s.subQ.has k = true) :
    ∃ s', subscriptionStep d s k = .ok s' := by
  obtain ⟨item, hitem, hia⟩ := (hb.struct.subIdx.q k.1 k.2).mp hq
  have hid : item.id = k.2 := (hb.struct.count.subs _ _ hitem).1
  have hitem' : s.subs.get item.id = some item := by rw [hid]; exact hitem
  have hpay : isHourly item = true → ∃ p, s.payouts.get item.id = some p := by
    intro hh
    exact (Tbl.has_iff _ _).mp ((hb.struct.subIdx.payout item.id).mpr ⟨item, hitem', hh⟩)
  unfold subscriptionStep
  rw [hitem]
  simp only [orPanic, pure_bind']
  split
  · -- active → pending
    have hx1 : SessIdx { s with subQ := s.subQ.erase (item.inactiveAt, item.id) } := SessIdx.of_view (s := s) rfl hb.struct.sessIdx
    obtain ⟨s2, h2⟩ := pendingHook_total item.id hx1
    rw [panicIfErr_ok h2, ok_bind]
    have hfr := subscriptionInactivePendingHook_frame h2
    unfold detachPayout
    split
    · rename_i hh
      obtain ⟨p, hp⟩ := hpay hh
      have e : (subToPending s2 item d).1.payouts.get item.id = some p := by
        show s2.payouts.get item.id = some p
        rw [hfr]; exact hp
      rw [if_pos rfl, e]
      exact ⟨_, rfl⟩
    · exact ⟨_, rfl⟩
  · -- refund and removal
    obtain ⟨s2, h2⟩ := refundSub_total hb (s.subQ.erase (item.inactiveAt, item.id)) hitem'
    rw [h2, ok_bind]
    have hfr := refundSub_frame h2
    unfold removePayout
    split
    · rename_i hh
      obtain ⟨p, hp⟩ := hpay hh
      have e : (removeSubRecords s2 item).payouts.get item.id = some p := by
        rw [payouts_removeSubRecords, hfr.eq]; exact hp
      rw [e]
      exact ⟨_, rfl⟩
    · exact ⟨_, rfl⟩


/-! ### the passes keep `Good` -/

theorem Good.clearEvents {M : Dur} {s : State} (hg : Good M s) : Good M { s with events := [] } := by
  obtain ⟨⟨hs, he, hm, hn, ha⟩, hl⟩ := hg
  refine ⟨⟨⟨CountInv.of_view (s := s) rfl hs.count, RecInv.of_nview (s := s) rfl hs.recs,
    NodeIdx.of_nview (s := s) rfl hs.nodeIdx, SessIdx.of_view (s := s) rfl hs.sessIdx, SubIdx.of_view (s := s) rfl hs.subIdx,
    AllocInv.of_views (s := s) rfl rfl hs.alloc, hs.quota.of_views (s := s) rfl rfl⟩, he.of_views (s := s) rfl rfl,
    MoneyInv.of_view (s := s) rfl hm, clearEvents_nh hn, ⟨ha.supply, ha.grants⟩⟩, LifeInv.of_lview (s := s) rfl hl⟩

theorem Good.clearModified {M : Dur} {s : State} (hg : Good M s) : Good M { s with modified := {} } := by
  obtain ⟨⟨hs, he, hm, hn, ha⟩, hl⟩ := hg
  refine ⟨⟨⟨CountInv.of_view (s := s) rfl hs.count, RecInv.of_nview (s := s) rfl hs.recs,
    NodeIdx.of_nview (s := s) rfl hs.nodeIdx, SessIdx.of_view (s := s) rfl hs.sessIdx, SubIdx.of_view (s := s) rfl hs.subIdx,
    AllocInv.of_views (s := s) rfl rfl hs.alloc, hs.quota.of_views (s := s) rfl rfl⟩, he.of_views (s := s) rfl rfl,
    MoneyInv.of_view (s := s) rfl hm, clearModified_nh hn, ⟨ha.supply, ha.grants⟩⟩, LifeInv.of_lview (s := s) rfl hl⟩

/-- **The node pass never halts** and keeps `Good`. -/
theorem nodePass_total {M : Dur} {s : State} (hg : Good M s) : ∃ s1, nodeEndBlock s = .ok s1 ∧ Good M s1 := by
  obtain ⟨⟨hs, he, hm, hn, ha⟩, hl⟩ := hg
  obtain ⟨sa, hsw, hra, hna⟩ := nodeSweep_total NH (fun h hr hi => sweepBody_nh h hr hi) hs.recs hn
  have hia := nodeSweep_idx hsw hs.recs hs.nodeIdx
  have hca := nodeSweep_count hsw hs.count
  obtain ⟨s1, hex, hr1, hi1, hn1, hc1⟩ := nodeExpire_total (fun t => NH t ∧ CountInv t)
    (fun h hr hq => ⟨nodeExpireStep_nh h hr hq.1, nodeExpireStep_count h hq.2⟩) hra hia ⟨hna, hca⟩
  have hend : nodeEndBlock s = .ok s1 := by
    unfold nodeEndBlock; rw [hsw, ok_bind]; exact hex
  have e0 : subView s1 = subView s := (nodeExpire_subView hex).trans (nodeSweep_subView hsw)
  have p0 : psView s1 = psView s := (nodeExpire_psView hex).trans (nodeSweep_psView hsw)
  have d0 : s1.deposits = s.deposits := (nodeExpire_deposits hex).trans (nodeSweep_deposits hsw)
  have v0 : view s1 = view s := (nodeExpire_view hex).trans (nodeSweep_view hsw)
  have es : s1.supply = s.supply := congrArg MoneyView.supply v0
  have hm1 : MoneyInv s.supply s1 := MoneyInv.of_view v0 hm
  refine ⟨s1, hend, ⟨⟨⟨hc1, hr1, hi1, nodeEndBlock_sessIdx hend hs.sessIdx, SubIdx.of_view e0 hs.subIdx,
    AllocInv.of_views e0 p0 hs.alloc, hs.quota.of_views e0 p0⟩, he.of_views e0 d0, es ▸ hm1, hn1, ⟨?_, ?_⟩⟩,
    LifeInv.of_lview (nodeEndBlock_lview hend) hl⟩⟩
  · intro d; rw [supplyOf_frame es]; exact ha.supply d
  · intro k al hg'
    have : s1.allocs = s.allocs := congrArg SubView.allocs e0
    rw [this] at hg'; exact ha.grants k al hg'


/-! ### session pass -/

theorem sessionStep_life {M : Dur} {s s' : State} {k : Time × Nat} (h : sessionStep s k = .ok s') (hc : CountInv s)
    (hl : LifeInv M s) : LifeInv M s' := by
  rw [lifeInv_iff] at hl ⊢
  rw [sessionStep_lview h]
  obtain ⟨f1, f2, f3, f4⟩ := (lview s).sessStep_frame k.2
  refine hl.of_sessions f1 f3 f4 ?_
  intro i x' hx'
  rw [LView.sessStep_get _ hc.lifeSide.sk] at hx'
  split_ifs at hx' with hc'
  · cases hg : (lview s).sessions.get i with
    | none => simp [hg] at hx'
    | some x =>
      simp only [hg, Option.bind_some, expireSess] at hx'
      split_ifs at hx' with ha
      simp only [Option.some.injEq] at hx'
      exact ⟨x, rfl, Or.inr ⟨ha, hx'.symm⟩⟩
  · exact ⟨x', hx', Or.inl rfl⟩

theorem sessionStep_good {M : Dur} {s s' : State} {k : Time × Nat} (h : sessionStep s k = .ok s') (hg : Good M s) :
    Good M s' := by
  obtain ⟨⟨hs, he, hm, hn, ha⟩, hl⟩ := hg
  have hk := hs.count.keyed
  have hm' : MoneyInv s.supply s' := sessionStep_inv h hm
  have es : s'.supply = s.supply := hm'.supplyEq
  refine ⟨⟨⟨sessionStep_count h hs.count, sessionStep_rec h hs.recs, sessionStep_idx h hs.nodeIdx,
    sessionStep_sessIdx h hs.count hs.sessIdx, sessionStep_subIdx h hk.allocs hs.subIdx, sessionStep_allocInv h hs.alloc,
    sessionStep_quota h hk hs.subIdx.nodup.2.2.2.2.2.1 hs.quota⟩, sessionStep_escrow h hk hs.subIdx hs.alloc he, es ▸ hm',
    sessionStep_nh h hs.count hn, ⟨?_, ?_⟩⟩, sessionStep_life h hs.count hl⟩
  · intro d; rw [supplyOf_frame es]; exact ha.supply d
  · intro key al' hg'
    obtain ⟨item, _, hu⟩ := sessionStep_used h hk.allocs
    obtain ⟨al, hal, e | ⟨_, _, e, _⟩⟩ := hu key al' hg'
    · rw [e]; exact ha.grants key al hal
    · rw [e]; exact ha.grants key al hal

/-- A session step touches the deadline queue only at the processed session's own entry (and a fresh one). -/
theorem sessionStep_sessQ {s s' : State} {k : Time × Nat} (h : sessionStep s k = .ok s') :
    ∃ item, s.sessions.get k.2 = some item ∧
      ∀ k', k' ≠ (item.inactiveAt, item.id) → s.sessQ.has k' = true → s'.sessQ.has k' = true := by
  obtain ⟨item, hitem, ⟨_, rfl⟩ | ⟨_, s2, h2, rfl⟩⟩ := sessionStep_eff h
  · refine ⟨item, hitem, fun k' hne hk' => ?_⟩
    simp only [sessionToPending, emit, Tbl.has_set_A, Tbl.has_erase_A, hk', Bool.and_true]
    rw [Bool.or_eq_true]; right
    simp only [Bool.not_eq_true', decide_eq_false_iff_not]
    exact fun e => hne e.symm
  · refine ⟨item, hitem, fun k' hne hk' => ?_⟩
    have e : s2.sessQ = s.sessQ.erase (item.inactiveAt, item.id) := congrArg SessView.sessQ (sessionInactiveHook_sview h2)
    show (removeSession s2 item).sessQ.has k' = true
    have e' : (removeSession s2 item).sessQ = s2.sessQ := rfl
    rw [e', e, Tbl.has_erase_A, hk']
    simp only [Bool.and_true, Bool.not_eq_true', decide_eq_false_iff_not]
    exact fun e => hne e.symm

/-- **The session pass never halts**, keeps `Good`, and leaves only sessions that end after the block time. -/
theorem sessionPass_total {M : Dur} {s : State} (hg : Good M s) :
    ∃ s', sessionEndBlock s = .ok s' ∧ Good M s' ∧ SessAfter s' := by
  unfold sessionEndBlock
  obtain ⟨s', h, hg', _, _, hafter⟩ := foldlM_total
    (fun rest t => Good M t ∧ rest.Nodup ∧ (∀ k ∈ rest, t.sessQ.has k = true) ∧
      (∀ i x, t.sessions.get i = some x → x.inactiveAt ≤ t.time → (x.inactiveAt, i) ∈ rest))
    sessionStep
    (by
      intro t k rest ⟨hgt, hnd, hlive, hdue⟩
      obtain ⟨hnk, hnr⟩ := List.nodup_cons.mp hnd
      have hq := hlive k (by simp)
      obtain ⟨t1, h1⟩ := sessionStep_total hgt.base hgt.life hq
      obtain ⟨item, hitem, hia⟩ := (hgt.base.struct.sessIdx.q k.1 k.2).mp hq
      have hid : item.id = k.2 := (hgt.base.struct.count.sessions _ _ hitem).1
      obtain ⟨item', hitem', hQ⟩ := sessionStep_sessQ h1
      rw [hitem] at hitem'; simp only [Option.some.injEq] at hitem'; subst hitem'
      have hkk : (item.inactiveAt, item.id) = k := by rw [hia, hid]
      refine ⟨t1, h1, sessionStep_good h1 hgt, hnr, ?_, ?_⟩
      · intro k' hk'
        exact hQ k' (by rw [hkk]; exact fun e => hnk (e ▸ hk')) (hlive k' (by simp [hk']))
      · intro i x' hx' hle
        have e := sessionStep_lview h1
        have hx'' : (lview t1).sessions.get i = some x' := hx'
        rw [e, LView.sessStep_get _ hgt.base.struct.count.lifeSide.sk] at hx''
        have ht : t1.time = t.time := by
          have := congrArg LView.time e
          rw [((lview t).sessStep_frame k.2).2.2.2] at this
          exact this
        rw [ht] at hle
        split_ifs at hx'' with hc'
        · exfalso
          cases hgx : (lview t).sessions.get i with
          | none => simp [hgx] at hx''
          | some x =>
            simp only [hgx, Option.bind_some, expireSess] at hx''
            split_ifs at hx'' with ha
            simp only [Option.some.injEq] at hx''
            rw [← hx''] at hle
            have hd := hgt.life.delays.1
            have : (x.pend (lview t).time (lview t).params.sessDelay).inactiveAt = t.time + t.params.sessDelay := rfl
            rw [this] at hle
            tomega
        · have hm := hdue i x' hx'' hle
          rcases List.mem_cons.mp hm with e' | e'
          · exact absurd (congrArg Prod.snd e') hc'
          · exact e')
    (dueIds Hub.Generated.Keys.session.SessionForInactiveAtKey s.sessQ s.time) s
    ⟨hg, dueIds_nodup' _ _ hg.base.struct.sessIdx.nodup.2.1, fun k hk => (dueIds_mem_iff.mp hk).1,
      fun i x hx hle => dueIds_mem_iff.mpr ⟨(hg.base.struct.sessIdx.q _ _).mpr ⟨x, hx, rfl⟩, hle⟩⟩
  refine ⟨s', h, hg', ?_⟩
  intro i x hx
  by_contra hc
  have := hafter i x hx (by
    have : ¬ (lview s').time < x.inactiveAt := hc
    have e : (lview s').time = s'.time := rfl
    rw [e] at this
    tomega)
  simp at this


/-! ### subscription pass -/

theorem subscriptionStep_good {M d : Dur} {s s' : State} {k : Time × Nat} (h : subscriptionStep d s k = .ok s') (hd : M ≤ d)
    (hb : Base s) (hm : MidInv M (lview s)) (hdue : ∃ t, s.subQ.has (t, k.2) = true ∧ t ≤ s.time) :
    Base s' ∧ MidInv M (lview s') ∧ s'.time = s.time ∧ (∀ i, i ≠ k.2 → s'.subs.get i = s.subs.get i) := by
  obtain ⟨hs, he, hmo, hn, ha⟩ := hb
  have hk := hs.count.keyed
  have hstep := subscriptionStep_lview h hs.sessIdx
  obtain ⟨m1, t1, _, s1⟩ := hstep.mid hm hd hdue
  have hmo' : MoneyInv s.supply s' := subscriptionStep_inv h hmo
  have es : s'.supply = s.supply := hmo'.supplyEq
  have hno : ∀ item, s.subs.get k.2 = some item → item.status ≠ .StatusActive →
      ∀ i x, s.sessions.get i = some x → x.sub ≠ item.id := by
    intro item hitem hst i x hx hsx
    obtain ⟨t, hq, ht⟩ := hdue
    obtain ⟨y, hy, hyt⟩ := (hm.q.q t k.2).mp hq
    have hy' : s.subs.get k.2 = some y := hy
    rw [hitem] at hy'; simp only [Option.some.injEq] at hy'; subst hy'
    have hid : item.id = k.2 := (hs.count.subs _ _ hitem).1
    have hpend : item.status = .StatusInactivePending := (hm.life.subStatus k.2 item hitem).resolve_left hst
    have hsub : (lview s).subs.get x.sub = some item := by rw [hsx, hid]; exact hitem
    have h1 := hm.life.pendingSess i x item hx hsub hpend
    have h2 := hm.after i x hx
    have e : (lview s).time = s.time := rfl
    rw [e] at h2
    tomega
  refine ⟨⟨⟨subscriptionStep_count h hs.count, subscriptionStep_rec h hs.recs, subscriptionStep_idx h hs.nodeIdx,
    subscriptionStep_sessIdx h hs.count hs.sessIdx, (subscriptionStep_subIdx h hk hs.subIdx).1,
    subscriptionStep_allocInv h hs.alloc, subscriptionStep_quota h hk hs.subIdx.nodup.2.2.2.2.2.1 hs.quota⟩,
    subscriptionStep_escrow h hk hs.subIdx hs.alloc.bounds he, es ▸ hmo', subscriptionStep_nh h hs.count hno hn, ⟨?_, ?_⟩⟩,
    m1, t1, s1⟩
  · intro d'; rw [supplyOf_frame es]; exact ha.supply d'
  · intro key al' hg'
    exact ha.grants key al' (subscriptionStep_kept h key al' hg')

/-- **The subscription pass never halts** (after the session pass) and keeps `Good`. -/
theorem subscriptionPass_total {M : Dur} {s : State} (hg : Good M s) (hafter : SessAfter s) :
    ∃ s', subscriptionEndBlock s = .ok s' ∧ Good M s' := by
  unfold subscriptionEndBlock
  have hmid : MidInv M (lview s) :=
    ⟨lifeInv_iff.mp hg.life, hafter, hg.base.struct.count.lifeSide.sk, hg.base.struct.count.lifeSide.bk,
      hg.base.struct.subIdx.subQOK⟩
  have hd : M ≤ s.params.subDelay := hg.life.delays.2.2
  have hnd0 : ((dueIds Hub.Generated.Keys.subscription.SubscriptionForInactiveAtKey s.subQ s.time).map (·.2)).Nodup := by
    have hq := hg.base.struct.subIdx.subQOK
    refine nodup_map_snd (dueIds_nodup' _ _ hq.nodup) ?_
    intro k hk k' hk' e
    obtain ⟨y, hyg, hyt⟩ := (hq.q k.1 k.2).mp (dueIds_mem_iff.mp hk).1
    obtain ⟨y', hyg', hyt'⟩ := (hq.q k'.1 k'.2).mp (dueIds_mem_iff.mp hk').1
    have hyg'' : (lview s).subs.get k'.2 = some y := by rw [← e]; exact hyg
    have : y = y' := Option.some.inj (hyg''.symm.trans hyg')
    rw [← hyt, ← hyt', this]
  obtain ⟨s', h, hb', hm', _⟩ := foldlM_total
    (fun rest t => Base t ∧ MidInv M (lview t) ∧ (rest.map (·.2)).Nodup ∧
      (∀ k ∈ rest, t.subQ.has k = true ∧ k.1 ≤ t.time))
    (subscriptionStep s.params.subDelay)
    (by
      intro t k rest ⟨hbt, hmt, hnd, hlive⟩
      simp only [List.map_cons, List.nodup_cons] at hnd
      obtain ⟨hq, hle⟩ := hlive k (by simp)
      obtain ⟨t1, h1⟩ := subscriptionStep_total s.params.subDelay hbt hq
      obtain ⟨b1, m1, tt1, ss1⟩ := subscriptionStep_good h1 hd hbt hmt ⟨k.1, hq, hle⟩
      refine ⟨t1, h1, b1, m1, hnd.2, ?_⟩
      intro k' hk'
      obtain ⟨hq', hle'⟩ := hlive k' (by simp [hk'])
      have hne : k'.2 ≠ k.2 := by
        intro e; exact hnd.1 (e ▸ List.mem_map.mpr ⟨k', hk', rfl⟩)
      refine ⟨?_, by rw [tt1]; exact hle'⟩
      have hq1 : (lview t1).subQ.has (k'.1, k'.2) = true := by
        rw [m1.q.q]
        have : (lview t1).subs.get k'.2 = (lview t).subs.get k'.2 := ss1 k'.2 hne
        rw [this, ← hmt.q.q]; exact hq'
      exact hq1)
    (dueIds Hub.Generated.Keys.subscription.SubscriptionForInactiveAtKey s.subQ s.time) s
    ⟨hg.base, hmid, hnd0, fun k hk => dueIds_mem_iff.mp hk⟩
  exact ⟨s', h, hb', lifeInv_iff.mpr hm'.life⟩

/-- **EndBlock never halts** on a `Good` state, and keeps `Good`. -/
theorem endBlock_total {M : Dur} {s : State} (hg : Good M s) : ∃ s', endBlock s = .ok s' ∧ Good M s' := by
  obtain ⟨s1, h1, g1⟩ := nodePass_total hg.clearEvents
  obtain ⟨s2, h2, g2, a2⟩ := sessionPass_total g1
  obtain ⟨s3, h3, g3⟩ := subscriptionPass_total g2 a2
  refine ⟨{ s3 with modified := {} }, ?_, g3.clearModified⟩
  unfold endBlock vpnEndBlock
  rw [h1, ok_bind, h2, ok_bind, h3]
  rfl

/-- **BeginBlock never halts** on a `Good` state at a later block time, and keeps `Good`. -/
theorem beginBlock_total {M : Dur} {s : State} (hg : Good M s) {t : Time} (ht : s.time ≤ t) :
    ∃ s', beginBlock s t = .ok s' ∧ Good M s' := by
  obtain ⟨s', h, hb'⟩ := beginBlock_total_of (fun s t hi => beginPrefix_nh s t hi) (fun h hi => payoutStep_nh h hi) hg.base t
  exact ⟨s', h, hb', beginBlock_life h ht hg.life⟩

end Hub.Model.NoHalt
