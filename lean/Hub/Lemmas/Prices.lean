import Hub.Lemmas.Swap
import Mathlib.Data.String.Basic
/-
Helper lemmas for C11: the closed form of the re-pricing clamp, the structure of the two node
tables (`NodeWF`), what the node handlers and the end-of-block sweep/expiry do to them.
-/
namespace Hub.Model
open Hub.SDK
open Hub.Generated (Status)

/-! ### bounds -/

/-- Every bounded denomination's price is at most the bound. -/
def MaxOK (bounds prices : Coins) : Prop := ∀ c ∈ bounds, prices.amountOf c.denom ≤ c.amount
/-- Every bounded denomination's price is at least the bound. -/
def MinOK (bounds prices : Coins) : Prop := ∀ c ∈ bounds, c.amount ≤ prices.amountOf c.denom
/-- The denominations of a bound vector are pairwise distinct (true of every valid coin set). -/
def DistinctDenoms (cs : Coins) : Prop := (cs.map (·.denom)).Nodup
/-- D5 for one pair of bound vectors: per denomination bounded on both sides, min ≤ max. -/
def MinLeMax (minB maxB : Coins) : Prop := ∀ m ∈ minB, ∀ c ∈ maxB, m.denom = c.denom → m.amount ≤ c.amount

theorem pricesWithin_iff' (maxP minP prices : Coins) :
    pricesWithin maxP minP prices = true ↔ MaxOK maxP prices ∧ MinOK minP prices := by
  unfold pricesWithin MaxOK MinOK
  simp only [Bool.and_eq_true, List.all_eq_true, Bool.not_eq_true', decide_eq_false_iff_not, gt_iff_lt, Int.not_lt]

theorem sortedStrict_pairwise : ∀ cs : Coins, Coins.sortedStrict cs = true → cs.Pairwise (fun a b => a.denom < b.denom)
  | [], _ => List.Pairwise.nil
  | [a], _ => List.pairwise_singleton _ _
  | a :: b :: rest, h => by
    unfold Coins.sortedStrict at h
    simp only [Bool.and_eq_true, decide_eq_true_eq] at h
    have ih := sortedStrict_pairwise (b :: rest) h.2
    refine List.Pairwise.cons ?_ ih
    intro x hx
    rcases List.mem_cons.mp hx with e | e
    · rw [e]; exact h.1
    · exact lt_trans h.1 (List.rel_of_pairwise_cons ih e)

/-- A valid coin set (`Coins.Validate() == nil`) has pairwise distinct denominations. -/
theorem distinct_of_isValid {cs : Coins} (h : cs.isValid = true) : DistinctDenoms cs := by
  unfold Coins.isValid at h
  simp only [Bool.and_eq_true] at h
  have hp := sortedStrict_pairwise cs h.2
  unfold DistinctDenoms
  rw [List.Nodup, List.pairwise_map]
  exact hp.imp (fun hlt e => by rw [e] at hlt; exact lt_irrefl _ hlt)

theorem distinct_nil : DistinctDenoms [] := List.nodup_nil

/-! ### the clamp -/

/-- One step of the sweep loop (`Sub` the whole amount, `Add` the bound, when violated). -/
def clampStep (viol : Int → Int → Bool) (prices : Coins) (c : Coin) : Coins :=
  if viol (prices.amountOf c.denom) c.amount then (prices.sub ⟨c.denom, prices.amountOf c.denom⟩).add c else prices

theorem clampPrices_eq (viol : Int → Int → Bool) (bounds prices : Coins) :
    clampPrices viol bounds prices = bounds.foldl (clampStep viol) prices := rfl

theorem amountOf_clampStep (viol : Int → Int → Bool) (prices : Coins) (c : Coin) (d : Denom) :
    (clampStep viol prices c).amountOf d
      = if c.denom = d ∧ viol (prices.amountOf d) c.amount = true then c.amount else prices.amountOf d := by
  unfold clampStep
  by_cases hd : c.denom = d
  · subst hd
    by_cases hv : viol (prices.amountOf c.denom) c.amount = true
    · simp only [hv, if_true, Coins.amountOf_add, Coins.amountOf_sub, and_self]; omega
    · simp only [hv]; rfl
  · by_cases hv : viol (prices.amountOf c.denom) c.amount = true
    · simp only [hv, if_true, Coins.amountOf_add, Coins.amountOf_sub, hd, if_false, false_and]; omega
    · simp only [hv, hd, false_and]; rfl

/-- The amount of denomination `d` after the loop over `bounds`, as a function of the amount before. -/
def clampAmt (viol : Int → Int → Bool) : Coins → Denom → Int → Int
  | [], _, x => x
  | c :: rest, d, x => clampAmt viol rest d (if c.denom = d ∧ viol x c.amount = true then c.amount else x)

theorem amountOf_clamp (viol : Int → Int → Bool) (bounds prices : Coins) (d : Denom) :
    (clampPrices viol bounds prices).amountOf d = clampAmt viol bounds d (prices.amountOf d) := by
  rw [clampPrices_eq]
  induction bounds generalizing prices with
  | nil => rfl
  | cons c rest ih =>
    rw [List.foldl_cons, ih, amountOf_clampStep]; rfl

theorem clampAmt_not_mem (viol : Int → Int → Bool) (bounds : Coins) (d : Denom) (x : Int)
    (h : d ∉ bounds.map (·.denom)) : clampAmt viol bounds d x = x := by
  induction bounds generalizing x with
  | nil => rfl
  | cons c rest ih =>
    simp only [List.map_cons, List.mem_cons, not_or] at h
    have : ¬ c.denom = d := fun e => h.1 e.symm
    unfold clampAmt
    simp only [this, false_and, if_false]
    exact ih x h.2

theorem clampAmt_mem (viol : Int → Int → Bool) (bounds : Coins) (hd : DistinctDenoms bounds) (c : Coin) (hc : c ∈ bounds) (x : Int) :
    clampAmt viol bounds c.denom x = if viol x c.amount = true then c.amount else x := by
  induction bounds generalizing x with
  | nil => simp at hc
  | cons b rest ih =>
    unfold DistinctDenoms at hd
    rw [List.map_cons, List.nodup_cons] at hd
    unfold clampAmt
    rcases List.mem_cons.mp hc with e | e
    · subst e
      simp only [true_and]
      exact clampAmt_not_mem viol rest c.denom _ hd.1
    · have hne : ¬ b.denom = c.denom := by
        intro e'; apply hd.1; rw [e']; exact List.mem_map.mpr ⟨c, e, rfl⟩
      simp only [hne, false_and, if_false]
      exact ih hd.2 e x

/-- A denomination without a bound is not touched. -/
theorem clamp_other (viol : Int → Int → Bool) (bounds prices : Coins) (d : Denom) (h : d ∉ bounds.map (·.denom)) :
    (clampPrices viol bounds prices).amountOf d = prices.amountOf d := by
  rw [amountOf_clamp, clampAmt_not_mem viol bounds d _ h]

/-- **The max clamp**: afterwards every max bound holds; an amount that was within is unchanged. -/
theorem clamp_max (bounds prices : Coins) (hd : DistinctDenoms bounds) :
    MaxOK bounds (clampPrices (· > ·) bounds prices) ∧
    ∀ c ∈ bounds, prices.amountOf c.denom ≤ c.amount →
      (clampPrices (· > ·) bounds prices).amountOf c.denom = prices.amountOf c.denom := by
  refine ⟨?_, ?_⟩
  · intro c hc
    rw [amountOf_clamp, clampAmt_mem _ bounds hd c hc]
    by_cases h : prices.amountOf c.denom > c.amount
    · simp [h]
    · simp only [decide_eq_true_eq, h, if_false]; omega
  · intro c hc hle
    rw [amountOf_clamp, clampAmt_mem _ bounds hd c hc]
    have : ¬ prices.amountOf c.denom > c.amount := by omega
    simp [this]

/-- **The min clamp**: afterwards every min bound holds; an amount that was within is unchanged. -/
theorem clamp_min (bounds prices : Coins) (hd : DistinctDenoms bounds) :
    MinOK bounds (clampPrices (· < ·) bounds prices) ∧
    ∀ c ∈ bounds, c.amount ≤ prices.amountOf c.denom →
      (clampPrices (· < ·) bounds prices).amountOf c.denom = prices.amountOf c.denom := by
  refine ⟨?_, ?_⟩
  · intro c hc
    rw [amountOf_clamp, clampAmt_mem _ bounds hd c hc]
    by_cases h : prices.amountOf c.denom < c.amount
    · simp [h]
    · simp only [decide_eq_true_eq, h, if_false]; omega
  · intro c hc hle
    rw [amountOf_clamp, clampAmt_mem _ bounds hd c hc]
    have : ¬ prices.amountOf c.denom < c.amount := by omega
    simp [this]

/-- Raising prices to the minimum keeps the maximum bounds, **provided min ≤ max per denomination**. -/
theorem clamp_min_keeps_max (minB maxB prices : Coins) (hd : DistinctDenoms minB) (h5 : MinLeMax minB maxB)
    (h : MaxOK maxB prices) : MaxOK maxB (clampPrices (· < ·) minB prices) := by
  intro c hc
  rw [amountOf_clamp]
  by_cases hm : c.denom ∈ minB.map (·.denom)
  · obtain ⟨m, hm1, hm2⟩ := List.mem_map.mp hm
    rw [← hm2, clampAmt_mem _ minB hd m hm1]
    have := h5 m hm1 c hc hm2
    have := h c hc
    rw [← hm2] at this
    by_cases hv : prices.amountOf m.denom < m.amount
    · simp only [decide_eq_true_eq, hv, if_true]; omega
    · simp only [decide_eq_true_eq, hv, if_false]; omega
  · rw [clampAmt_not_mem _ minB c.denom _ hm]; exact h c hc

/-- Lowering prices to the maximum keeps the minimum bounds, provided min ≤ max per denomination. -/
theorem clamp_max_keeps_min (minB maxB prices : Coins) (hd : DistinctDenoms maxB) (h5 : MinLeMax minB maxB)
    (h : MinOK minB prices) : MinOK minB (clampPrices (· > ·) maxB prices) := by
  intro m hm
  rw [amountOf_clamp]
  by_cases hc : m.denom ∈ maxB.map (·.denom)
  · obtain ⟨c, hc1, hc2⟩ := List.mem_map.mp hc
    rw [← hc2, clampAmt_mem _ maxB hd c hc1]
    have := h5 m hm c hc1 hc2.symm
    have := h m hm
    rw [← hc2] at this
    by_cases hv : prices.amountOf c.denom > c.amount
    · simp only [decide_eq_true_eq, hv, if_true]; omega
    · simp only [decide_eq_true_eq, hv, if_false]; omega
  · rw [clampAmt_not_mem _ maxB m.denom _ hc]; exact h m hm

/-- One price list through the two clamps of `sweepNode`: if each bound is either swept (its flag is
set) or already held, both hold afterwards. -/
theorem sweep_list (fmax fmin : Bool) (maxB minB prices : Coins) (hdx : DistinctDenoms maxB) (hdn : DistinctDenoms minB)
    (h5 : MinLeMax minB maxB) (hx : fmax = true ∨ MaxOK maxB prices) (hn : fmin = true ∨ MinOK minB prices) :
    MaxOK maxB (if fmin then clampPrices (· < ·) minB (if fmax then clampPrices (· > ·) maxB prices else prices)
                else (if fmax then clampPrices (· > ·) maxB prices else prices)) ∧
    MinOK minB (if fmin then clampPrices (· < ·) minB (if fmax then clampPrices (· > ·) maxB prices else prices)
                else (if fmax then clampPrices (· > ·) maxB prices else prices)) := by
  have h1 : MaxOK maxB (if fmax then clampPrices (· > ·) maxB prices else prices) := by
    cases fmax with
    | true => exact (clamp_max maxB prices hdx).1
    | false => rcases hx with hx | hx; · cases hx
               exact hx
  cases fmin with
  | true =>
    simp only [if_true]
    exact ⟨clamp_min_keeps_max minB maxB _ hdn h5 h1, (clamp_min minB _ hdn).1⟩
  | false =>
    simp only [Bool.false_eq_true, if_false]
    refine ⟨h1, ?_⟩
    rcases hn with hn | hn
    · cases hn
    · cases fmax with
      | true => exact clamp_max_keeps_min minB maxB prices hdx h5 hn
      | false => exact hn

/-! ### the node tables -/

/-- `n` is the record of address `a` in one of the two node tables. -/
def IsNode (s : State) (a : Addr) (n : Node) : Prop := s.nodeActive.get a = some n ∨ s.nodeInactive.get a = some n

/-- Structure of the node tables: each record is stored under its own address in the table of its
status, and no address is in both. -/
structure NodeWF (s : State) : Prop where
  act : ∀ a n, s.nodeActive.get a = some n → n.addr = a ∧ n.status = .StatusActive
  inact : ∀ a n, s.nodeInactive.get a = some n → n.addr = a ∧ n.status = .StatusInactive
  disj : ∀ a, s.nodeActive.get a = none ∨ s.nodeInactive.get a = none

theorem NodeWF.of_eq {s s' : State} (ha : s'.nodeActive = s.nodeActive) (hi : s'.nodeInactive = s.nodeInactive)
    (h : NodeWF s) : NodeWF s' := by
  refine ⟨?_, ?_, ?_⟩
  · rw [ha]; exact h.act
  · rw [hi]; exact h.inact
  · rw [ha, hi]; exact h.disj

theorem IsNode.of_eq {s s' : State} (ha : s'.nodeActive = s.nodeActive) (hi : s'.nodeInactive = s.nodeInactive)
    {a : Addr} {n : Node} : IsNode s' a n ↔ IsNode s a n := by
  unfold IsNode; rw [ha, hi]

/-- What `getNode` returns, in a well-formed state. -/
theorem getNode_facts {s : State} (hwf : NodeWF s) {a : Addr} {n : Node} (h : getNode s a = some n) :
    IsNode s a n ∧ n.addr = a ∧
    ((n.status = .StatusActive ∧ s.nodeActive.get a = some n ∧ s.nodeInactive.get a = none) ∨
     (n.status = .StatusInactive ∧ s.nodeActive.get a = none ∧ s.nodeInactive.get a = some n)) := by
  unfold getNode at h
  cases ha : s.nodeActive.get a with
  | some x =>
    simp only [ha, Option.some.injEq] at h
    subst h
    obtain ⟨e1, e2⟩ := hwf.act a x ha
    have hi : s.nodeInactive.get a = none := by
      rcases hwf.disj a with d | d
      · rw [ha] at d; cases d
      · exact d
    exact ⟨Or.inl ha, e1, Or.inl ⟨e2, rfl, hi⟩⟩
  | none =>
    simp only [ha] at h
    obtain ⟨e1, e2⟩ := hwf.inact a n h
    exact ⟨Or.inr h, e1, Or.inr ⟨e2, rfl, h⟩⟩

theorem getNode_of_isNode {s : State} (hwf : NodeWF s) {a : Addr} {n : Node} (h : IsNode s a n) : getNode s a = some n := by
  unfold getNode
  rcases h with h | h
  · rw [h]
  · rcases hwf.disj a with d | d
    · rw [d]; exact h
    · rw [h] at d; cases d

theorem setNode_get {s s' : State} {n : Node} (h : setNode s n = .ok s') :
    (n.status = .StatusActive ∨ n.status = .StatusInactive) ∧
    (∀ k, s'.nodeActive.get k = if n.status = .StatusActive ∧ n.addr = k then some n else s.nodeActive.get k) ∧
    (∀ k, s'.nodeInactive.get k = if n.status = .StatusInactive ∧ n.addr = k then some n else s.nodeInactive.get k) := by
  unfold setNode at h
  split at h <;> simp only [pure_eq_ok, gopanic_ne_ok] at h
  · rename_i hs
    subst h
    refine ⟨Or.inl hs, ?_, ?_⟩
    · intro k; simp only [Tbl.get_set, hs, true_and]
    · intro k; simp [hs]
  · rename_i hs
    subst h
    refine ⟨Or.inr hs, ?_, ?_⟩
    · intro k; simp [hs]
    · intro k; simp only [Tbl.get_set, hs, true_and]

/-- Writing record `n` with `setNode` into a state `s` that is a well-formed state `s0` with the
entry of `n.addr` removed from the table `n` does *not* belong to: the result is well formed, holds
`n` under `n.addr`, and every other address is as in `s0`. -/
theorem setNode_replace {s0 s s' : State} (hwf : NodeWF s0) {n : Node} (h : setNode s n = .ok s')
    (hA : ∀ k, s.nodeActive.get k = if n.addr = k ∧ n.status ≠ .StatusActive then none else s0.nodeActive.get k)
    (hI : ∀ k, s.nodeInactive.get k = if n.addr = k ∧ n.status ≠ .StatusInactive then none else s0.nodeInactive.get k) :
    NodeWF s' ∧ ∀ a' n', IsNode s' a' n' ↔ ((a' = n.addr ∧ n' = n) ∨ (a' ≠ n.addr ∧ IsNode s0 a' n')) := by
  obtain ⟨hst, gA, gI⟩ := setNode_get h
  have kA : ∀ k, s'.nodeActive.get k = if n.addr = k then (if n.status = .StatusActive then some n else none) else s0.nodeActive.get k := by
    intro k; rw [gA, hA]
    by_cases e : n.addr = k <;> by_cases st : n.status = .StatusActive <;> simp [e, st]
  have kI : ∀ k, s'.nodeInactive.get k = if n.addr = k then (if n.status = .StatusInactive then some n else none) else s0.nodeInactive.get k := by
    intro k; rw [gI, hI]
    by_cases e : n.addr = k <;> by_cases st : n.status = .StatusInactive <;> simp [e, st]
  have hexcl : ¬ (n.status = .StatusActive ∧ n.status = .StatusInactive) := by
    rintro ⟨a, b⟩; rw [a] at b; cases b
  refine ⟨⟨?_, ?_, ?_⟩, ?_⟩
  · intro a x hx
    rw [kA] at hx
    by_cases e : n.addr = a
    · simp only [e, if_true] at hx
      split at hx
      · rename_i st; cases hx; exact ⟨e, st⟩
      · cases hx
    · simp only [e, if_false] at hx; exact hwf.act a x hx
  · intro a x hx
    rw [kI] at hx
    by_cases e : n.addr = a
    · simp only [e, if_true] at hx
      split at hx
      · rename_i st; cases hx; exact ⟨e, st⟩
      · cases hx
    · simp only [e, if_false] at hx; exact hwf.inact a x hx
  · intro a
    rw [kA, kI]
    by_cases e : n.addr = a
    · simp only [e, if_true]
      rcases hst with st | st
      · right; rw [st]; simp
      · left; rw [st]; simp
    · simp only [e, if_false]; exact hwf.disj a
  · intro a' n'
    unfold IsNode
    rw [kA, kI]
    by_cases e : n.addr = a'
    · simp only [e, if_true]
      constructor
      · intro hx
        left
        rcases hx with hx | hx <;> (split at hx <;> first | (cases hx; exact ⟨trivial, rfl⟩) | cases hx)
      · rintro (⟨_, rfl⟩ | ⟨hne, _⟩)
        · rcases hst with st | st
          · left; simp [st]
          · right; simp [st]
        · exact absurd rfl hne
    · simp only [e, if_false]
      constructor
      · intro hx; right; exact ⟨fun e' => e e'.symm, hx⟩
      · rintro (⟨e', _⟩ | ⟨_, hx⟩)
        · exact absurd e'.symm e
        · exact hx

/-! ### node handlers -/

theorem nodeUpdated_addr (n : Node) (gb hr : Option Coins) (url : Bytes) :
    (nodeUpdated n gb hr url).addr = n.addr ∧ (nodeUpdated n gb hr url).status = n.status := by
  unfold nodeUpdated
  cases gb <;> cases hr <;> simp only [] <;> split <;> exact ⟨rfl, rfl⟩

theorem nodeUpdated_gb (n : Node) (gb hr : Option Coins) (url : Bytes) :
    (nodeUpdated n gb hr url).gb = gb.getD n.gb ∧ (nodeUpdated n gb hr url).hr = hr.getD n.hr := by
  unfold nodeUpdated
  cases gb <;> cases hr <;> simp only [] <;> split <;> exact ⟨rfl, rfl⟩

/-- `MsgRegister`: one new inactive record with the submitted prices; everything else as before. -/
theorem nodeRegister_nodes {s s' : State} {frm : Addr} {gb hr : Coins} {url : Bytes}
    (h : nodeRegister s frm gb hr url = .ok s') (hwf : NodeWF s) :
    NodeWF s' ∧ ∃ n, n.gb = gb ∧ n.hr = hr ∧
      ∀ a' n', IsNode s' a' n' ↔ ((a' = frm ∧ n' = n) ∨ (a' ≠ frm ∧ IsNode s a' n')) := by
  unfold nodeRegister at h
  simp only [bind_eq_ok, pure_eq_ok, require_eq_ok] at h
  obtain ⟨_, _, _, _, _, hno, s1, h1, s2, h2, rfl⟩ := h
  have hf := fundCommunityPool_hv h1
  have hno' : s.nodeActive.get frm = none ∧ s.nodeInactive.get frm = none := by
    unfold hasNode at hno
    simp only [Bool.not_eq_true', Bool.or_eq_false_iff] at hno
    exact ⟨(Tbl.has_eq_false_iff _ _).mp hno.1, (Tbl.has_eq_false_iff _ _).mp hno.2⟩
  have := setNode_replace (s0 := s) hwf h2
    (by intro k; rw [hv_nodeActive hf]
        by_cases e : frm = k
        · subst e; simp [hno'.1]
        · simp [e])
    (by intro k; rw [hv_nodeInactive hf]; simp)
  exact ⟨NodeWF.of_eq (s := s2) rfl rfl this.1, _, rfl, rfl, fun a' n' => (IsNode.of_eq (s := s2) rfl rfl).trans (this.2 a' n')⟩

/-- `MsgUpdateDetails`: the sender's record gets the submitted price lists (where given); every
other record is as before. -/
theorem nodeUpdate_nodes {s s' : State} {frm : Addr} {gb hr : Option Coins} {url : Bytes}
    (h : nodeUpdate s frm gb hr url = .ok s') (hwf : NodeWF s) :
    NodeWF s' ∧ ∃ n0, IsNode s frm n0 ∧
      ∀ a' n', IsNode s' a' n' ↔ ((a' = frm ∧ n' = nodeUpdated n0 gb hr url) ∨ (a' ≠ frm ∧ IsNode s a' n')) := by
  unfold nodeUpdate at h
  simp only [bind_eq_ok, pure_eq_ok, require_eq_ok, orReject_eq_ok] at h
  obtain ⟨_, _, _, _, n0, hn0, s1, h1, rfl⟩ := h
  obtain ⟨hin, haddr, hcase⟩ := getNode_facts hwf hn0
  obtain ⟨ua, us⟩ := nodeUpdated_addr n0 gb hr url
  have := setNode_replace (s0 := s) hwf h1
    (by intro k; rw [ua, us, haddr]
        by_cases e : frm = k
        · subst e
          rcases hcase with ⟨st, _, _⟩ | ⟨st, hA, _⟩
          · simp [st]
          · simp [st, hA]
        · simp [e])
    (by intro k; rw [ua, us, haddr]
        by_cases e : frm = k
        · subst e
          rcases hcase with ⟨st, _, hI⟩ | ⟨st, _, _⟩
          · simp [st, hI]
          · simp [st]
        · simp [e])
  rw [ua, haddr] at this
  exact ⟨NodeWF.of_eq (s := s1) rfl rfl this.1, n0, hin, fun a' n' => (IsNode.of_eq (s := s1) rfl rfl).trans (this.2 a' n')⟩

/-- `MsgUpdateStatus`: the sender's record keeps its prices; every other record is as before. -/
theorem nodeStatus_nodes {s s' : State} {frm : Addr} {st : Status} (h : nodeStatus s frm st = .ok s') (hwf : NodeWF s) :
    NodeWF s' ∧ ∃ n0 n, IsNode s frm n0 ∧ n.gb = n0.gb ∧ n.hr = n0.hr ∧
      ∀ a' n', IsNode s' a' n' ↔ ((a' = frm ∧ n' = n) ∨ (a' ≠ frm ∧ IsNode s a' n')) := by
  unfold nodeStatus at h
  simp only [bind_eq_ok, pure_eq_ok, orReject_eq_ok] at h
  obtain ⟨n0, hn0, s5, h5, rfl⟩ := h
  obtain ⟨hin, haddr, hcase⟩ := getNode_facts hwf hn0
  have hst := (setNode_get h5).1
  simp only [] at hst
  have := setNode_replace (s0 := s) hwf h5
    (by intro k
        simp only [haddr]
        by_cases e : frm = k
        · subst e
          rcases hcase with ⟨s0a, hA, _⟩ | ⟨s0i, hA, _⟩ <;> rcases hst with sa | si
          · simp [s0a, sa]
          · simp [s0a, si]
          · simp [s0i, sa]
          · simp [s0i, si, hA]
        · rcases hcase with ⟨s0a, _, _⟩ | ⟨s0i, _, _⟩ <;> rcases hst with sa | si
          · simp [s0a, sa, e]
          · simp [s0a, si, e, Tbl.get_erase]
          · simp [s0i, sa, e]
          · simp [s0i, si, e])
    (by intro k
        simp only [haddr]
        by_cases e : frm = k
        · subst e
          rcases hcase with ⟨s0a, _, hI⟩ | ⟨s0i, _, hI⟩ <;> rcases hst with sa | si
          · simp [s0a, sa, hI]
          · simp [s0a, si]
          · simp [s0i, sa]
          · simp [s0i, si]
        · rcases hcase with ⟨s0a, _, _⟩ | ⟨s0i, _, _⟩ <;> rcases hst with sa | si
          · simp [s0a, sa, e]
          · simp [s0a, si, e]
          · simp [s0i, sa, e, Tbl.get_erase]
          · simp [s0i, si, e])
  simp only [haddr] at this
  refine ⟨NodeWF.of_eq (s := s5) rfl rfl this.1, n0, _, hin, ?_, ?_, fun a' n' => (IsNode.of_eq (s := s5) rfl rfl).trans (this.2 a' n')⟩ <;> rfl

/-! ### the end-of-block sweep and expiry -/

theorem sweepNode_addr (p : Params) (m : Modified) (n : Node) :
    (sweepNode p m n).addr = n.addr ∧ (sweepNode p m n).status = n.status := ⟨rfl, rfl⟩

/-- The body of the sweep loop. -/
def sweepBody (s : State) (a : Addr) : M State := do
  let item ← orPanic (getNode s a) "node vanished during sweep"
  let item' := sweepNode s.params s.modified item
  let s1 ← setNode s item'
  pure (emit s1 (ev "sentinel.node.v2.EventUpdateDetails"
    [("address", addrTxt .node item'.addr), ("gigabyte_prices", txt item'.gb.sdkString), ("hourly_prices", txt item'.hr.sdkString),
     ("remote_url", "-")]))

theorem nodeSweep_eq (s : State) : nodeSweep s =
    if !(s.modified.maxGB || s.modified.minGB || s.modified.maxHr || s.modified.minHr) then pure s
    else (nodeOrder s).foldlM sweepBody s := rfl

/-- One iteration of the sweep loop. -/
theorem sweepStep_nodes {s s1 : State} {a : Addr} (hwf : NodeWF s) (h : sweepBody s a = .ok s1) :
    NodeWF s1 ∧ cv s1 = cv s ∧ ∃ n0, IsNode s a n0 ∧
      ∀ a' n', IsNode s1 a' n' ↔ ((a' = a ∧ n' = sweepNode s.params s.modified n0) ∨ (a' ≠ a ∧ IsNode s a' n')) := by
  unfold sweepBody at h
  simp only [bind_eq_ok, pure_eq_ok, orPanic_eq_ok] at h
  obtain ⟨n0, hn0, s2, h2, rfl⟩ := h
  obtain ⟨hin, haddr, hcase⟩ := getNode_facts hwf hn0
  have := setNode_replace (s0 := s) hwf h2
    (by intro k
        show _ = if n0.addr = k ∧ n0.status ≠ .StatusActive then none else _
        rw [haddr]
        by_cases e : a = k
        · subst e
          rcases hcase with ⟨st, _, _⟩ | ⟨st, hA, _⟩
          · simp [st]
          · simp [st, hA]
        · simp [e])
    (by intro k
        show _ = if n0.addr = k ∧ n0.status ≠ .StatusInactive then none else _
        rw [haddr]
        by_cases e : a = k
        · subst e
          rcases hcase with ⟨st, _, hI⟩ | ⟨st, _, _⟩
          · simp [st, hI]
          · simp [st]
        · simp [e])
  have haddr' : (sweepNode s.params s.modified n0).addr = a := haddr
  rw [haddr'] at this
  exact ⟨NodeWF.of_eq (s := s2) rfl rfl this.1, Eq.trans (b := cv s2) rfl (setNode_cv h2), n0, hin,
    fun a' n' => (IsNode.of_eq (s := s2) rfl rfl).trans (this.2 a' n')⟩

theorem mem_nodeOrder {s : State} {a : Addr} {n : Node} (h : IsNode s a n) : a ∈ nodeOrder s := by
  unfold nodeOrder sortKeys
  rw [List.mem_append, List.mem_mergeSort, List.mem_mergeSort]
  rcases h with h | h
  · left; exact Tbl.mem_keys_of_get h
  · right; exact Tbl.mem_keys_of_get h

/-- **The sweep.** `Ex` is what is known of every record before (the not-yet-swept bounds may be
violated), `Full` what a swept record satisfies. If sweeping turns `Ex` into `Full`, then after the
sweep loop every record of both tables satisfies `Full`. -/
theorem nodeSweep_all {s s' : State} (h : nodeSweep s = .ok s') (hwf : NodeWF s) (Ex Full : Node → Prop)
    (hsw : ∀ n, Ex n → Full (sweepNode s.params s.modified n)) (hfe : ∀ n, Full n → Ex n)
    (hnone : (s.modified.maxGB || s.modified.minGB || s.modified.maxHr || s.modified.minHr) = false → ∀ n, Ex n → Full n)
    (hex : ∀ a n, IsNode s a n → Ex n) :
    NodeWF s' ∧ cv s' = cv s ∧ ∀ a n, IsNode s' a n → Full n := by
  rw [nodeSweep_eq] at h
  split at h
  · rename_i hno
    rw [pure_eq_ok] at h; subst h
    have : (s.modified.maxGB || s.modified.minGB || s.modified.maxHr || s.modified.minHr) = false := by
      simpa using hno
    exact ⟨hwf, rfl, fun a n hn => hnone this n (hex a n hn)⟩
  · have key : ∀ (l : List Addr) (t t' : State), l.foldlM sweepBody t = .ok t' →
        NodeWF t → cv t = cv s → (∀ a n, IsNode t a n → Ex n ∧ (a ∈ l ∨ Full n)) →
        NodeWF t' ∧ cv t' = cv s ∧ ∀ a n, IsNode t' a n → Full n := by
      intro l
      induction l with
      | nil =>
        intro t t' hf hw hc hall
        simp only [List.foldlM, pure_eq_ok] at hf
        subst hf
        refine ⟨hw, hc, fun a n hn => ?_⟩
        rcases (hall a n hn).2 with hm | hm
        · simp at hm
        · exact hm
      | cons a rest ih =>
        intro t t' hf hw hc hall
        simp only [List.foldlM, bind_eq_ok] at hf
        obtain ⟨t1, h1, h2⟩ := hf
        obtain ⟨w1, c1, n0, hn0, hiff⟩ := sweepStep_nodes hw h1
        have hp : t.params = s.params := cv_params hc
        have hm : t.modified = s.modified := cv_modified hc
        refine ih t1 t' h2 w1 (c1.trans hc) ?_
        intro a' n' hn'
        rcases (hiff a' n').mp hn' with ⟨e1, e2⟩ | ⟨e1, e2⟩
        · have : Full n' := by rw [e2, hp, hm]; exact hsw n0 (hall a n0 hn0).1
          exact ⟨hfe n' this, Or.inr this⟩
        · obtain ⟨x1, x2⟩ := hall a' n' e2
          refine ⟨x1, ?_⟩
          rcases x2 with x2 | x2
          · rcases List.mem_cons.mp x2 with e | e
            · exact absurd e e1
            · exact Or.inl e
          · exact Or.inr x2
    exact key (nodeOrder s) s s' h hwf rfl (fun a n hn => ⟨hex a n hn, Or.inl (mem_nodeOrder hn)⟩)

/-- One expiry: the record keeps its prices. -/
theorem nodeExpireStep_nodes {s s' : State} {k : Time × Addr} (h : nodeExpireStep s k = .ok s') (hwf : NodeWF s) :
    NodeWF s' ∧ cv s' = cv s ∧ ∀ a' n', IsNode s' a' n' → ∃ n0, IsNode s a' n0 ∧ n'.gb = n0.gb ∧ n'.hr = n0.hr := by
  unfold nodeExpireStep at h
  simp only [bind_eq_ok, pure_eq_ok, orPanic_eq_ok] at h
  obtain ⟨item, hitem, s3, h3, rfl⟩ := h
  obtain ⟨hin, haddr, _⟩ := getNode_facts hwf hitem
  have := setNode_replace (s0 := s) hwf h3
    (by intro k'
        show (s.nodeActive.erase item.addr).get k' = if item.addr = k' ∧ Status.StatusInactive ≠ .StatusActive then none else _
        rw [Tbl.get_erase]
        by_cases e : item.addr = k' <;> simp [e])
    (by intro k'
        show s.nodeInactive.get k' = if item.addr = k' ∧ Status.StatusInactive ≠ .StatusInactive then none else _
        simp)
  refine ⟨NodeWF.of_eq (s := s3) rfl rfl this.1, Eq.trans (b := cv s3) rfl ((setNode_cv h3).trans rfl), ?_⟩
  intro a' n' hn'
  rcases (this.2 a' n').mp ((IsNode.of_eq (s := s3) rfl rfl).mp hn') with ⟨e1, e2⟩ | ⟨_, e2⟩
  · refine ⟨item, ?_, by rw [e2], by rw [e2]⟩
    rw [e1]
    show IsNode s item.addr item
    rw [haddr]; exact hin
  · exact ⟨n', e2, rfl, rfl⟩

theorem nodeExpire_nodes {s s' : State} (h : nodeExpire s = .ok s') (hwf : NodeWF s) (Q : Coins → Coins → Prop)
    (hq : ∀ a n, IsNode s a n → Q n.gb n.hr) :
    NodeWF s' ∧ cv s' = cv s ∧ ∀ a n, IsNode s' a n → Q n.gb n.hr := by
  unfold nodeExpire at h
  refine foldlM_inv (fun t => NodeWF t ∧ cv t = cv s ∧ ∀ a n, IsNode t a n → Q n.gb n.hr) nodeExpireStep ?_ _ s s' h ⟨hwf, rfl, hq⟩
  intro t k t1 h1 ⟨w, c, q⟩
  obtain ⟨w1, c1, q1⟩ := nodeExpireStep_nodes h1 w
  refine ⟨w1, c1.trans c, ?_⟩
  intro a n hn
  obtain ⟨n0, hn0, e1, e2⟩ := q1 a n hn
  rw [e1, e2]; exact q a n0 hn0

end Hub.Model
