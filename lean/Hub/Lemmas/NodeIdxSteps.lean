import Hub.Lemmas.RecSteps
/-
`NodeIdx` (Hub/Model/Inv.lean) — the node expiry queue holds exactly the active nodes at their
deadline, the by-provider plan index holds exactly the plans, links point at existing plans and nodes,
and the nine node/provider/plan tables have unique keys — is preserved by every handler, every hook
piece, `deliver`, `beginBlock`, `endBlock`, `gov`, hence by every `step` (given `RecInv` and `CountInv`
of the pre-state); it holds in every genesis state.
-/
namespace Hub.Model
open Hub.SDK
open Hub.Generated (Status AmountForBytes GetProportionOfCoin Gigabyte)

/-! ### lookup in a partitioned pair -/

section getAI
variable {κ α : Type} [DecidableEq κ]

/-- Look a key up in the active partition, then in the inactive one (`getNode`, `getPlan`). -/
def getAI (A I : Tbl κ α) (k : κ) : Option α :=
  match A.get k with
  | some v => some v
  | none => I.get k

theorem getAI_toI (A I : Tbl κ α) {k k' : κ} (v : α) (he : k' = k) (j : κ) :
    getAI (A.erase k) (I.set k' v) j = if k = j then some v else getAI A I j := by
  subst he
  unfold getAI
  rw [Tbl.get_erase, Tbl.get_set]
  by_cases e : k' = j <;> simp [e]

theorem getAI_toA (A I : Tbl κ α) {k k' : κ} (v : α) (he : k' = k) (j : κ) :
    getAI (A.set k' v) (I.erase k) j = if k = j then some v else getAI A I j := by
  subst he
  unfold getAI
  rw [Tbl.get_erase, Tbl.get_set]
  by_cases e : k' = j <;> simp [e]

theorem getAI_setA (A I : Tbl κ α) (k : κ) (v : α) (j : κ) :
    getAI (A.set k v) I j = if k = j then some v else getAI A I j := by
  unfold getAI
  rw [Tbl.get_set]
  by_cases e : k = j <;> simp [e]

theorem getAI_setI (A I : Tbl κ α) {k : κ} (v : α) (hn : A.get k = none) (j : κ) :
    getAI A (I.set k v) j = if k = j then some v else getAI A I j := by
  unfold getAI
  rw [Tbl.get_set]
  by_cases e : k = j
  · subst e; simp [hn]
  · simp [e]

theorem getAI_of_getA {A I : Tbl κ α} {k : κ} {v : α} (h : A.get k = some v) : getAI A I k = some v := by
  unfold getAI; rw [h]

theorem getAI_of_getI {A I : Tbl κ α} {k : κ} {v : α} (hn : A.get k = none) (h : I.get k = some v) : getAI A I k = some v := by
  unfold getAI; rw [hn]; exact h

end getAI

theorem getPlan_eq (s : State) (i : Nat) : getPlan s i = getAI s.planActive s.planInactive i := by
  unfold getPlan getAI; cases s.planActive.get i <;> rfl

theorem getNode_eq (s : State) (a : Addr) : getNode s a = getAI s.nodeActive s.nodeInactive a := by
  unfold getNode getAI; cases s.nodeActive.get a <;> rfl

/-- `hasNode` through the partition lookup. -/
def hasN (s : State) (n : Addr) : Bool := (getAI s.nodeActive s.nodeInactive n).isSome

theorem hasNode_eq (s : State) (n : Addr) : hasNode s n = hasN s n := by
  unfold hasNode hasN getAI Tbl.has; cases s.nodeActive.get n <;> simp

/-- The provider of plan `i`, if the plan exists. -/
def planProv (s : State) (i : Nat) : Option Addr := (getAI s.planActive s.planInactive i).map (·.prov)

/-! ### the three index statements, abstractly -/

/-- The expiry queue holds exactly the active nodes at their deadline. -/
def QOK (q : Tbl (Time × Addr) Unit) (A : Tbl Addr Node) : Prop :=
  ∀ t a, q.has (t, a) = true ↔ ∃ n, A.get a = some n ∧ n.inactiveAt = t

theorem QOK.setA_same {q : Tbl (Time × Addr) Unit} {A : Tbl Addr Node} {a a' : Addr} {n n' : Node} (h : QOK q A)
    (hg : A.get a = some n) (he : a' = a) (hia : n'.inactiveAt = n.inactiveAt) : QOK q (A.set a' n') := by
  subst he
  intro t b
  rw [h t b, Tbl.get_set]
  by_cases e : a' = b
  · subst e; simp only [if_true, Option.some.injEq, hg]
    constructor
    · rintro ⟨m, rfl, hm⟩; exact ⟨n', rfl, hia.trans hm⟩
    · rintro ⟨m, rfl, hm⟩; exact ⟨n, rfl, hia.symm.trans hm⟩
  · simp only [e, if_false]

theorem QOK.no_entry {q : Tbl (Time × Addr) Unit} {A : Tbl Addr Node} {a : Addr} (h : QOK q A) (hn : A.get a = none) (t : Time) :
    q.has (t, a) = false := by
  cases hh : q.has (t, a) with
  | false => rfl
  | true =>
    obtain ⟨m, hm, _⟩ := (h t a).mp hh
    rw [hn] at hm; contradiction

/-- inactive → active -/
theorem QOK.activate {q : Tbl (Time × Addr) Unit} {A : Tbl Addr Node} {a a' : Addr} {n' : Node} {t : Time} (h : QOK q A)
    (hn : A.get a = none) (he : a' = a) (ht : n'.inactiveAt = t) : QOK (q.set (t, a) ()) (A.set a' n') := by
  subst he
  intro t' b
  rw [Tbl.has_set_iff, h t' b, Tbl.get_set]
  by_cases e : a' = b
  · subst e
    simp only [if_true, Option.some.injEq, hn, Prod.mk.injEq, and_true]
    constructor
    · rintro (rfl | ⟨m, hm, _⟩)
      · exact ⟨n', rfl, ht⟩
      · contradiction
    · rintro ⟨m, rfl, hm⟩; left; exact ht.symm.trans hm
  · simp only [e, if_false, Prod.mk.injEq, and_false, false_or]

/-- active → inactive (or expiry) -/
theorem QOK.deactivate {q : Tbl (Time × Addr) Unit} {A : Tbl Addr Node} {a : Addr} {n : Node} (h : QOK q A)
    (hg : A.get a = some n) : QOK (q.erase (n.inactiveAt, a)) (A.erase a) := by
  intro t' b
  rw [Tbl.has_erase_iff, h t' b, Tbl.get_erase]
  by_cases e : a = b
  · subst e
    simp only [if_true, hg, Option.some.injEq, ne_eq, Prod.mk.injEq, and_true, reduceCtorEq, false_and, exists_false, iff_false,
      not_and, not_exists]
    intro h1 m hm; rw [← hm]; exact h1
  · simp only [e, if_false, ne_eq, Prod.mk.injEq, and_false, not_false_eq_true, true_and]

/-- erasing the (absent) entry and record of a node that is not active changes nothing -/
theorem QOK.erase_none {q : Tbl (Time × Addr) Unit} {A : Tbl Addr Node} {a : Addr} (h : QOK q A)
    (hn : A.get a = none) (t : Time) : QOK (q.erase (t, a)) (A.erase a) := by
  intro t' b
  rw [Tbl.has_erase_iff, h t' b, Tbl.get_erase]
  by_cases e : a = b
  · subst e
    simp only [if_true, hn, reduceCtorEq, false_and, exists_false, and_false]
  · simp only [e, if_false, ne_eq, Prod.mk.injEq, and_false, not_false_eq_true, true_and]

/-- active → active with a new deadline -/
theorem QOK.reactivate {q : Tbl (Time × Addr) Unit} {A : Tbl Addr Node} {a a' : Addr} {n n' : Node} {t : Time} (h : QOK q A)
    (hg : A.get a = some n) (he : a' = a) (ht : n'.inactiveAt = t) :
    QOK ((q.erase (n.inactiveAt, a)).set (t, a) ()) (A.set a' n') := by
  subst he
  have h1 : QOK (q.erase (n.inactiveAt, a')) (A.erase a') := h.deactivate hg
  have h2 := h1.activate (a := a') (a' := a') (n' := n') (t := t) (by rw [Tbl.get_erase]; simp) rfl ht
  intro t' b
  rw [h2 t' b, Tbl.get_set, Tbl.get_set, Tbl.get_erase]
  by_cases e : a' = b <;> simp [e]

/-- The by-provider plan index holds exactly the plans. -/
def PFP (t : Tbl (Addr × Nat) Unit) (pp : Nat → Option Addr) : Prop := ∀ a i, t.has (a, i) = true ↔ pp i = some a

theorem PFP.congr {t : Tbl (Addr × Nat) Unit} {pp pp' : Nat → Option Addr} (h : PFP t pp) (he : ∀ i, pp' i = pp i) : PFP t pp' := by
  intro a i; rw [he i]; exact h a i

theorem PFP.add {t : Tbl (Addr × Nat) Unit} {pp pp' : Nat → Option Addr} {a : Addr} {id : Nat} (h : PFP t pp)
    (hn : pp id = none) (he : ∀ i, pp' i = if id = i then some a else pp i) : PFP (t.set (a, id) ()) pp' := by
  intro b i
  rw [Tbl.has_set_iff, he i, h b i]
  by_cases e : id = i
  · subst e
    simp only [if_true, Option.some.injEq, Prod.mk.injEq, and_true, hn, reduceCtorEq, or_false]
  · simp only [e, if_false, Prod.mk.injEq, and_false, false_or]

/-- Links point at existing plans and nodes. -/
def Links (t : Tbl (Nat × Addr) Unit) (pp : Nat → Option Addr) (hn : Addr → Bool) : Prop :=
  ∀ i n, t.has (i, n) = true → (pp i).isSome = true ∧ hn n = true

theorem Links.mono {t : Tbl (Nat × Addr) Unit} {pp pp' : Nat → Option Addr} {hn hn' : Addr → Bool} (h : Links t pp hn)
    (hp : ∀ i, (pp i).isSome = true → (pp' i).isSome = true) (hh : ∀ n, hn n = true → hn' n = true) : Links t pp' hn' :=
  fun i n hk => ⟨hp i (h i n hk).1, hh n (h i n hk).2⟩

theorem Links.set {t : Tbl (Nat × Addr) Unit} {pp : Nat → Option Addr} {hn : Addr → Bool} {i : Nat} {n : Addr} (h : Links t pp hn)
    (hp : (pp i).isSome = true) (hh : hn n = true) : Links (t.set (i, n) ()) pp hn := by
  intro j m hk
  rw [Tbl.has_set_iff] at hk
  rcases hk with e | hk
  · simp only [Prod.mk.injEq] at e; obtain ⟨rfl, rfl⟩ := e; exact ⟨hp, hh⟩
  · exact h j m hk

theorem Links.erase {t : Tbl (Nat × Addr) Unit} {pp : Nat → Option Addr} {hn : Addr → Bool} (h : Links t pp hn) (k : Nat × Addr) :
    Links (t.erase k) pp hn :=
  fun j m hk => h j m ((Tbl.has_erase_iff _ _ _).mp hk).2

/-- `NodeIdx`, component by component. -/
structure NodeIdxOK (s : State) : Prop where
  q : QOK s.nodeQ s.nodeActive
  pfp : PFP s.planForProv (planProv s)
  links : Links s.nodeForPlan (planProv s) (hasN s)
  nodup : Tbl.Nodup s.nodeQ ∧ Tbl.Nodup s.planForProv ∧ Tbl.Nodup s.nodeForPlan ∧ Tbl.Nodup s.nodeActive ∧
          Tbl.Nodup s.nodeInactive ∧ Tbl.Nodup s.provActive ∧ Tbl.Nodup s.provInactive ∧ Tbl.Nodup s.planActive ∧ Tbl.Nodup s.planInactive

theorem planProv_eq_some (s : State) (i : Nat) (a : Addr) : planProv s i = some a ↔ ∃ p, getPlan s i = some p ∧ p.prov = a := by
  unfold planProv; rw [getPlan_eq]
  cases getAI s.planActive s.planInactive i <;> simp

theorem planProv_isSome (s : State) (i : Nat) : (planProv s i).isSome = (getPlan s i).isSome := by
  unfold planProv; rw [getPlan_eq]
  cases getAI s.planActive s.planInactive i <;> simp

theorem nodeIdx_iff (s : State) : NodeIdx s ↔ NodeIdxOK s := by
  constructor
  · intro h
    refine ⟨h.nodeQ, ?_, ?_, h.nodupQ⟩
    · intro a i; rw [h.planForProv a i, planProv_eq_some]
    · intro i n hk
      have := h.links i n hk
      rw [planProv_isSome, ← hasNode_eq]; exact this
  · intro h
    refine ⟨h.q, ?_, ?_, h.nodup⟩
    · intro a i; rw [h.pfp a i, planProv_eq_some]
    · intro i n hk
      have := h.links i n hk
      rw [planProv_isSome, ← hasNode_eq] at this; exact this

theorem NodeIdx.of_nview {s s' : State} (h : nview s' = nview s) (hi : NodeIdx s) : NodeIdx s' := by
  have h1 : s'.nodeActive = s.nodeActive := congrArg NView.nodeActive h
  have h2 : s'.nodeInactive = s.nodeInactive := congrArg NView.nodeInactive h
  have h3 : s'.provActive = s.provActive := congrArg NView.provActive h
  have h4 : s'.provInactive = s.provInactive := congrArg NView.provInactive h
  have h5 : s'.planActive = s.planActive := congrArg NView.planActive h
  have h6 : s'.planInactive = s.planInactive := congrArg NView.planInactive h
  have h7 : s'.nodeQ = s.nodeQ := congrArg NView.nodeQ h
  have h8 : s'.planForProv = s.planForProv := congrArg NView.planForProv h
  have h9 : s'.nodeForPlan = s.nodeForPlan := congrArg NView.nodeForPlan h
  rw [nodeIdx_iff] at hi ⊢
  have hpp : planProv s' = planProv s := by funext i; unfold planProv; rw [h5, h6]
  have hhn : hasN s' = hasN s := by funext n; unfold hasN; rw [h1, h2]
  refine ⟨?_, ?_, ?_, ?_⟩
  · rw [h7, h1]; exact hi.q
  · rw [h8, hpp]; exact hi.pfp
  · rw [h9, hpp, hhn]; exact hi.links
  · rw [h7, h8, h9, h1, h2, h3, h4, h5, h6]; exact hi.nodup

/-- Close the nine `Nodup` goals after a step whose tables are built by `set` / `erase`. -/
macro "nodup_tac" : tactic =>
  `(tactic| (refine ⟨?_, ?_, ?_, ?_, ?_, ?_, ?_, ?_, ?_⟩ <;>
      repeat' (first | assumption | apply Tbl.nodup_set | apply Tbl.nodup_erase)))

theorem isSome_mono_of_update {κ α : Type} [DecidableEq κ] {g g' : κ → Option α} {k : κ} {v : α}
    (h : ∀ j, g' j = if k = j then some v else g j) : ∀ n, (g n).isSome = true → (g' n).isSome = true := by
  intro n hn
  rw [h n]
  by_cases e : k = n
  · simp [e]
  · simp only [e, if_false]; exact hn

theorem map_eq_of_update {κ α β : Type} [DecidableEq κ] {g g' : κ → Option α} {f : α → β} {k : κ} {v v' : α}
    (h : ∀ j, g' j = if k = j then some v' else g j) (hg : g k = some v) (hf : f v' = f v) :
    ∀ j, (g' j).map f = (g j).map f := by
  intro j
  rw [h j]
  by_cases e : k = j
  · subst e; simp [hg, hf]
  · simp only [e, if_false]

/-! ### providers: only the two provider tables move -/

theorem NodeIdx.of_prov {s s' : State} (hi : NodeIdx s) (h1 : s'.nodeActive = s.nodeActive) (h2 : s'.nodeInactive = s.nodeInactive)
    (h5 : s'.planActive = s.planActive) (h6 : s'.planInactive = s.planInactive) (h7 : s'.nodeQ = s.nodeQ)
    (h8 : s'.planForProv = s.planForProv) (h9 : s'.nodeForPlan = s.nodeForPlan)
    (d1 : Tbl.Nodup s'.provActive) (d2 : Tbl.Nodup s'.provInactive) : NodeIdx s' := by
  rw [nodeIdx_iff] at hi ⊢
  have hpp : planProv s' = planProv s := by funext i; unfold planProv; rw [h5, h6]
  have hhn : hasN s' = hasN s := by funext n; unfold hasN; rw [h1, h2]
  obtain ⟨e1, e2, e3, e4, e5, _, _, e8, e9⟩ := hi.nodup
  refine ⟨?_, ?_, ?_, ?_⟩
  · rw [h7, h1]; exact hi.q
  · rw [h8, hpp]; exact hi.pfp
  · rw [h9, hpp, hhn]; exact hi.links
  · rw [h7, h8, h9, h1, h2, h5, h6]; exact ⟨e1, e2, e3, e4, e5, d1, d2, e8, e9⟩

theorem provRegister_idx {s s' : State} {frm : Addr} {n i w d : Bytes} (h : provRegister s frm n i w d = .ok s')
    (hi : NodeIdx s) : NodeIdx s' := by
  obtain ⟨_, s1, f1, rfl⟩ := provRegister_eff h
  have i1 : NodeIdx s1 := NodeIdx.of_nview (nview_of_mframe f1.wide) hi
  obtain ⟨_, _, _, _, _, d6, d7, _, _⟩ := i1.nodupQ
  exact i1.of_prov rfl rfl rfl rfl rfl rfl rfl d6 (Tbl.nodup_set d7 _ _)

theorem provUpdate_idx {s s' : State} {frm : Addr} {n i w d : Bytes} {st : Status} (h : provUpdate s frm n i w d st = .ok s')
    (hi : NodeIdx s) : NodeIdx s' := by
  unfold provUpdate at h
  simp only [bind_eq_ok, pure_eq_ok, orReject_eq_ok] at h
  obtain ⟨p, hp, s3, h3, rfl⟩ := h
  obtain ⟨_, _, _, _, _, d6, d7, _, _⟩ := hi.nodupQ
  rcases setProvider_eff h3 with ⟨_, e⟩ | ⟨_, e⟩ <;> subst e <;> split <;> split <;>
    exact hi.of_prov rfl rfl rfl rfl rfl rfl rfl
      (by repeat' (first | assumption | apply Tbl.nodup_set | apply Tbl.nodup_erase))
      (by repeat' (first | assumption | apply Tbl.nodup_set | apply Tbl.nodup_erase))

/-! ### nodes -/

theorem nodeRegister_idx {s s' : State} {frm : Addr} {gb hr : Coins} {url : Bytes} (h : nodeRegister s frm gb hr url = .ok s')
    (hi : NodeIdx s) : NodeIdx s' := by
  obtain ⟨hno, _, _, s1, f1, rfl⟩ := nodeRegister_eff h
  have e1 := nview_of_mframe f1.wide
  have i1 : NodeIdx s1 := NodeIdx.of_nview e1 hi
  have hA : s1.nodeActive.get frm = none := by
    rw [show s1.nodeActive = s.nodeActive from congrArg NView.nodeActive e1]
    exact (Tbl.has_eq_false_iff _ _).mp (hasNode_false hno).1
  have hI := (nodeIdx_iff s1).mp i1
  obtain ⟨d1, d2, d3, d4, d5, d6, d7, d8, d9⟩ := hI.nodup
  rw [nodeIdx_iff]
  refine ⟨hI.q, hI.pfp, hI.links.mono (fun _ h => h) (isSome_mono_of_update (getAI_setI _ _ _ hA)), ?_⟩
  nodup_tac

/-- Writing back a looked-up node whose address, status and deadline are unchanged. -/
theorem setNode_same_idx {s s' : State} {a : Addr} {n n' : Node} (hr : RecInv s) (hi : NodeIdx s) (hg : getNode s a = some n)
    (h : setNode s n' = .ok s') (haddr : n'.addr = n.addr) (hst : n'.status = n.status) (hia : n'.inactiveAt = n.inactiveAt) :
    NodeIdx s' := by
  have hN := hr.nodePart
  have hI := (nodeIdx_iff s).mp hi
  obtain ⟨d1, d2, d3, d4, d5, d6, d7, d8, d9⟩ := hI.nodup
  rw [nodeIdx_iff]
  rcases getNode_mem hg with hm | hm
  · have hna := hN.a a n hm
    rcases setNode_eff h with ⟨hs, e⟩ | ⟨hs, e⟩ <;> subst e
    · refine ⟨hI.q.setA_same hm (haddr.trans hna.1) hia, hI.pfp,
        hI.links.mono (fun _ h => h) (isSome_mono_of_update (getAI_setA _ _ _ _)), ?_⟩
      nodup_tac
    · rw [hst, hna.2] at hs; exact absurd hs (by decide)
  · have hni := hN.i a n hm
    have hno := (Tbl.has_eq_false_iff _ _).mp (hN.notA_of_getI hm)
    rcases setNode_eff h with ⟨hs, e⟩ | ⟨hs, e⟩ <;> subst e
    · rw [hst, hni.2.1] at hs; exact absurd hs (by decide)
    · refine ⟨hI.q, hI.pfp,
        hI.links.mono (fun _ h => h) (isSome_mono_of_update (getAI_setI _ _ _ (by rw [haddr, hni.1]; exact hno))), ?_⟩
      nodup_tac

theorem nodeUpdate_idx {s s' : State} {frm : Addr} {gb hr : Option Coins} {url : Bytes} (h : nodeUpdate s frm gb hr url = .ok s')
    (hr' : RecInv s) (hi : NodeIdx s) : NodeIdx s' := by
  unfold nodeUpdate at h
  simp only [bind_eq_ok, pure_eq_ok, require_eq_ok, orReject_eq_ok] at h
  obtain ⟨_, _, _, _, n, hn, s1, h1, rfl⟩ := h
  obtain ⟨e1, e2, e3⟩ := nodeUpdated_same n gb hr url
  exact NodeIdx.of_nview (s := s1) rfl (setNode_same_idx hr' hi hn h1 e1 e2 e3)

end Hub.Model
