import Hub.Lemmas.RecSteps
/-
`NodeIdx` (Hub/Model/Inv.lean) — the node expiry queue holds exactly the active nodes at their
deadline, the by-provider plan index holds exactly the plans, links point at existing plans and nodes,
and the nine node/provider/plan tables have unique keys — is preserved by every handler, every hook
piece, `deliver`, `beginBlock`, `endBlock`, `gov`, hence by every `step` (given `RecInv` and `CountInv`
of the pre-state); it holds in every genesis state.
-/
namespace Hub.Model
open Hub.SDK
open Hub.Generated (Status AmountForBytes GetProportionOfCoin Gigabyte)

/-! ### lookup in a partitioned pair -/

section getAI
variable {κ α : Type} [DecidableEq κ]

/-- Look a key up in the active partition, then in the inactive one (`getNode`, `getPlan`). -/
def getAI (A I : Tbl κ α) (k : κ) : Option α :=
  match A.get k with
  | some v => some v
  | none => I.get k

theorem getAI_toI (A I : Tbl κ α) {k k' : κ} (v : α) (he : k' = k) (j : κ) :
    getAI (A.erase k) (I.set k' v) j = if k = j then some v else getAI A I j := by
  subst he
  unfold getAI
  rw [Tbl.get_erase, Tbl.get_set]
  by_cases e : k' = j <;> simp [e]

theorem getAI_toA (A I : Tbl κ α) {k k' : κ} (v : α) (he : k' = k) (j : κ) :
    getAI (A.set k' v) (I.erase k) j = if k = j then some v else getAI A I j := by
  subst he
  unfold getAI
  rw [Tbl.get_erase, Tbl.get_set]
  by_cases e : k' = j <;> simp [e]

theorem getAI_setA (A I : Tbl κ α) (k : κ) (v : α) (j : κ) :
    getAI (A.set k v) I j = if k = j then some v else getAI A I j := by
  unfold getAI
  rw [Tbl.get_set]
  by_cases e : k = j <;> simp [e]

theorem getAI_setI (A I : Tbl κ α) {k : κ} (v : α) (hn : A.get k = none) (j : κ) :
    getAI A (I.set k v) j = if k = j then some v else getAI A I j := by
  unfold getAI
  rw [Tbl.get_set]
  by_cases e : k = j
  · subst e; simp [hn]
  · simp [e]

theorem getAI_of_getA {A I : Tbl κ α} {k : κ} {v : α} (h : A.get k = some v) : getAI A I k = some v := by
  unfold getAI; rw [h]

theorem getAI_of_getI {A I : Tbl κ α} {k : κ} {v : α} (hn : A.get k = none) (h : I.get k = some v) : getAI A I k = some v := by
  unfold getAI; rw [hn]; exact h

end getAI

theorem getPlan_eq (s : State) (i : Nat) : getPlan s i = getAI s.planActive s.planInactive i := by
  unfold getPlan getAI; cases s.planActive.get i <;> rfl

theorem getNode_eq (s : State) (a : Addr) : getNode s a = getAI s.nodeActive s.nodeInactive a := by
  unfold getNode getAI; cases s.nodeActive.get a <;> rfl

/-- `hasNode` through the partition lookup. -/
def hasN (s : State) (n : Addr) : Bool := (getAI s.nodeActive s.nodeInactive n).isSome

theorem hasNode_eq (s : State) (n : Addr) : hasNode s n = hasN s n := by
  unfold hasNode hasN getAI Tbl.has; cases s.nodeActive.get n <;> simp

/-- The provider of plan `i`, if the plan exists. -/
def planProv (s : State) (i : Nat) : Option Addr := (getAI s.planActive s.planInactive i).map (·.prov)

/-! ### the three index statements, abstractly -/

/-- The expiry queue holds exactly the active nodes at their deadline. -/
def QOK (q : Tbl (Time × Addr) Unit) (A : Tbl Addr Node) : Prop :=
  ∀ t a, q.has (t, a) = true ↔ ∃ n, A.get a = some n ∧ n.inactiveAt = t

theorem QOK.setA_same {q : Tbl (Time × Addr) Unit} {A : Tbl Addr Node} {a a' : Addr} {n n' : Node} (h : QOK q A)
    (hg : A.get a = some n) (he : a' = a) (hia : n'.inactiveAt = n.inactiveAt) : QOK q (A.set a' n') := by
  subst he
  intro t b
  rw [h t b, Tbl.get_set]
  by_cases e : a' = b
  · subst e; simp only [if_true, Option.some.injEq, hg]
    constructor
    · rintro ⟨m, rfl, hm⟩; exact ⟨n', rfl, hia.trans hm⟩
    · rintro ⟨m, rfl, hm⟩; exact ⟨n, rfl, hia.symm.trans hm⟩
  · simp only [e, if_false]

theorem QOK.no_entry {q : Tbl (Time × Addr) Unit} {A : Tbl Addr Node} {a : Addr} (h : QOK q A) (hn : A.get a = none) (t : Time) :
    q.has (t, a) = false := by
  cases hh : q.has (t, a) with
  | false => rfl
  | true =>
    obtain ⟨m, hm, _⟩ := (h t a).mp hh
    rw [hn] at hm; contradiction

/-- inactive → active -/
theorem QOK.activate {q : Tbl (Time × Addr) Unit} {A : Tbl Addr Node} {a a' : Addr} {n' : Node} {t : Time} (h : QOK q A)
    (hn : A.get a = none) (he : a' = a) (ht : n'.inactiveAt = t) : QOK (q.set (t, a) ()) (A.set a' n') := by
  subst he
  intro t' b
  rw [Tbl.has_set_iff_A, h t' b, Tbl.get_set]
  by_cases e : a' = b
  · subst e
    simp only [if_true, Option.some.injEq, hn, Prod.mk.injEq, and_true]
    constructor
    · rintro (rfl | ⟨m, hm, _⟩)
      · exact ⟨n', rfl, ht⟩
      · contradiction
    · rintro ⟨m, rfl, hm⟩; left; exact ht.symm.trans hm
  · simp only [e, if_false, Prod.mk.injEq, and_false, false_or]

/-- active → inactive (or expiry) -/
theorem QOK.deactivate {q : Tbl (Time × Addr) Unit} {A : Tbl Addr Node} {a : Addr} {n : Node} (h : QOK q A)
    (hg : A.get a = some n) : QOK (q.erase (n.inactiveAt, a)) (A.erase a) := by
  intro t' b
  rw [Tbl.has_erase_iff_A, h t' b, Tbl.get_erase]
  by_cases e : a = b
  · subst e
    simp only [if_true, hg, Option.some.injEq, ne_eq, Prod.mk.injEq, and_true, reduceCtorEq, false_and, exists_false, iff_false,
      not_and, not_exists]
    intro h1 m hm; rw [← hm]; exact h1
  · simp only [e, if_false, ne_eq, Prod.mk.injEq, and_false, not_false_eq_true, true_and]

/-- erasing the (absent) entry and record of a node that is not active changes nothing -/
theorem QOK.erase_none {q : Tbl (Time × Addr) Unit} {A : Tbl Addr Node} {a : Addr} (h : QOK q A)
    (hn : A.get a = none) (t : Time) : QOK (q.erase (t, a)) (A.erase a) := by
  intro t' b
  rw [Tbl.has_erase_iff_A, h t' b, Tbl.get_erase]
  by_cases e : a = b
  · subst e
    simp only [if_true, hn, reduceCtorEq, false_and, exists_false, and_false]
  · simp only [e, if_false, ne_eq, Prod.mk.injEq, and_false, not_false_eq_true, true_and]

/-- active → active with a new deadline -/
theorem QOK.reactivate {q : Tbl (Time × Addr) Unit} {A : Tbl Addr Node} {a a' : Addr} {n n' : Node} {t : Time} (h : QOK q A)
    (hg : A.get a = some n) (he : a' = a) (ht : n'.inactiveAt = t) :
    QOK ((q.erase (n.inactiveAt, a)).set (t, a) ()) (A.set a' n') := by
  subst he
  have h1 : QOK (q.erase (n.inactiveAt, a')) (A.erase a') := h.deactivate hg
  have h2 := h1.activate (a := a') (a' := a') (n' := n') (t := t) (by rw [Tbl.get_erase]; simp) rfl ht
  intro t' b
  rw [h2 t' b, Tbl.get_set, Tbl.get_set, Tbl.get_erase]
  by_cases e : a' = b <;> simp [e]

/-- The by-provider plan index holds exactly the plans. -/
def PFP (t : Tbl (Addr × Nat) Unit) (pp : Nat → Option Addr) : Prop := ∀ a i, t.has (a, i) = true ↔ pp i = some a

theorem PFP.congr {t : Tbl (Addr × Nat) Unit} {pp pp' : Nat → Option Addr} (h : PFP t pp) (he : ∀ i, pp' i = pp i) : PFP t pp' := by
  intro a i; rw [he i]; exact h a i

theorem PFP.add {t : Tbl (Addr × Nat) Unit} {pp pp' : Nat → Option Addr} {a : Addr} {id : Nat} (h : PFP t pp)
    (hn : pp id = none) (he : ∀ i, pp' i = if id = i then some a else pp i) : PFP (t.set (a, id) ()) pp' := by
  intro b i
  rw [Tbl.has_set_iff_A, he i, h b i]
  by_cases e : id = i
  · subst e
    simp only [if_true, Option.some.injEq, Prod.mk.injEq, and_true, hn, reduceCtorEq, or_false]
  · simp only [e, if_false, Prod.mk.injEq, and_false, false_or]

/-- Links point at existing plans and nodes. -/
def Links (t : Tbl (Nat × Addr) Unit) (pp : Nat → Option Addr) (hn : Addr → Bool) : Prop :=
  ∀ i n, t.has (i, n) = true → (pp i).isSome = true ∧ hn n = true

theorem Links.mono {t : Tbl (Nat × Addr) Unit} {pp pp' : Nat → Option Addr} {hn hn' : Addr → Bool} (h : Links t pp hn)
    (hp : ∀ i, (pp i).isSome = true → (pp' i).isSome = true) (hh : ∀ n, hn n = true → hn' n = true) : Links t pp' hn' :=
  fun i n hk => ⟨hp i (h i n hk).1, hh n (h i n hk).2⟩

theorem Links.set {t : Tbl (Nat × Addr) Unit} {pp : Nat → Option Addr} {hn : Addr → Bool} {i : Nat} {n : Addr} (h : Links t pp hn)
    (hp : (pp i).isSome = true) (hh : hn n = true) : Links (t.set (i, n) ()) pp hn := by
  intro j m hk
  rw [Tbl.has_set_iff_A] at hk
  rcases hk with e | hk
  · simp only [Prod.mk.injEq] at e; obtain ⟨rfl, rfl⟩ := e; exact ⟨hp, hh⟩
  · exact h j m hk

theorem Links.erase {t : Tbl (Nat × Addr) Unit} {pp : Nat → Option Addr} {hn : Addr → Bool} (h : Links t pp hn) (k : Nat × Addr) :
    Links (t.erase k) pp hn :=
  fun j m hk => h j m ((Tbl.has_erase_iff_A _ _ _).mp hk).2

/-- `NodeIdx`, component by component. -/
structure NodeIdxOK (s : State) : Prop where
  q : QOK s.nodeQ s.nodeActive
  pfp : PFP s.planForProv (planProv s)
  links : Links s.nodeForPlan (planProv s) (hasN s)
  nodup : Tbl.Nodup s.nodeQ ∧ Tbl.Nodup s.planForProv ∧ Tbl.Nodup s.nodeForPlan ∧ Tbl.Nodup s.nodeActive ∧
          Tbl.Nodup s.nodeInactive ∧ Tbl.Nodup s.provActive ∧ Tbl.Nodup s.provInactive ∧ Tbl.Nodup s.planActive ∧ Tbl.Nodup s.planInactive

theorem planProv_eq_some (s : State) (i : Nat) (a : Addr) : planProv s i = some a ↔ ∃ p, getPlan s i = some p ∧ p.prov = a := by
  unfold planProv; rw [getPlan_eq]
  cases getAI s.planActive s.planInactive i <;> simp

theorem planProv_isSome (s : State) (i : Nat) : (planProv s i).isSome = (getPlan s i).isSome := by
  unfold planProv; rw [getPlan_eq]
  cases getAI s.planActive s.planInactive i <;> simp

theorem nodeIdx_iff (s : State) : NodeIdx s ↔ NodeIdxOK s := by
  constructor
  · intro h
    refine ⟨h.nodeQ, ?_, ?_, h.nodupQ⟩
    · intro a i; rw [h.planForProv a i, planProv_eq_some]
    · intro i n hk
      have := h.links i n hk
      rw [planProv_isSome, ← hasNode_eq]; exact this
  · intro h
    refine ⟨h.q, ?_, ?_, h.nodup⟩
    · intro a i; rw [h.pfp a i, planProv_eq_some]
    · intro i n hk
      have := h.links i n hk
      rw [planProv_isSome, ← hasNode_eq] at this; exact this

theorem NodeIdx.of_nview {s s' : State} (h : nview s' = nview s) (hi : NodeIdx s) : NodeIdx s' := by
  have h1 : s'.nodeActive = s.nodeActive := congrArg NView.nodeActive h
  have h2 : s'.nodeInactive = s.nodeInactive := congrArg NView.nodeInactive h
  have h3 : s'.provActive = s.provActive := congrArg NView.provActive h
  have h4 : s'.provInactive = s.provInactive := congrArg NView.provInactive h
  have h5 : s'.planActive = s.planActive := congrArg NView.planActive h
  have h6 : s'.planInactive = s.planInactive := congrArg NView.planInactive h
  have h7 : s'.nodeQ = s.nodeQ := congrArg NView.nodeQ h
  have h8 : s'.planForProv = s.planForProv := congrArg NView.planForProv h
  have h9 : s'.nodeForPlan = s.nodeForPlan := congrArg NView.nodeForPlan h
  rw [nodeIdx_iff] at hi ⊢
  have hpp : planProv s' = planProv s := by funext i; unfold planProv; rw [h5, h6]
  have hhn : hasN s' = hasN s := by funext n; unfold hasN; rw [h1, h2]
  refine ⟨?_, ?_, ?_, ?_⟩
  · rw [h7, h1]; exact hi.q
  · rw [h8, hpp]; exact hi.pfp
  · rw [h9, hpp, hhn]; exact hi.links
  · rw [h7, h8, h9, h1, h2, h3, h4, h5, h6]; exact hi.nodup

/-- Close the nine `Nodup` goals after a step whose tables are built by `set` / `erase`. -/
local macro "nodup_tac" : tactic =>
  `(tactic| (refine ⟨?_, ?_, ?_, ?_, ?_, ?_, ?_, ?_, ?_⟩ <;>
      repeat' (first | assumption | apply Tbl.nodup_set | apply Tbl.nodup_erase)))

theorem isSome_mono_of_update {κ α : Type} [DecidableEq κ] {g g' : κ → Option α} {k : κ} {v : α}
    (h : ∀ j, g' j = if k = j then some v else g j) : ∀ n, (g n).isSome = true → (g' n).isSome = true := by
  intro n hn
  rw [h n]
  by_cases e : k = n
  · simp [e]
  · simp only [e, if_false]; exact hn

theorem map_eq_of_update {κ α β : Type} [DecidableEq κ] {g g' : κ → Option α} {f : α → β} {k : κ} {v v' : α}
    (h : ∀ j, g' j = if k = j then some v' else g j) (hg : g k = some v) (hf : f v' = f v) :
    ∀ j, (g' j).map f = (g j).map f := by
  intro j
  rw [h j]
  by_cases e : k = j
  · subst e; simp [hg, hf]
  · simp only [e, if_false]

/-! ### providers: only the two provider tables move -/

theorem NodeIdx.of_prov {s s' : State} (hi : NodeIdx s) (h1 : s'.nodeActive = s.nodeActive) (h2 : s'.nodeInactive = s.nodeInactive)
    (h5 : s'.planActive = s.planActive) (h6 : s'.planInactive = s.planInactive) (h7 : s'.nodeQ = s.nodeQ)
    (h8 : s'.planForProv = s.planForProv) (h9 : s'.nodeForPlan = s.nodeForPlan)
    (d1 : Tbl.Nodup s'.provActive) (d2 : Tbl.Nodup s'.provInactive) : NodeIdx s' := by
  rw [nodeIdx_iff] at hi ⊢
  have hpp : planProv s' = planProv s := by funext i; unfold planProv; rw [h5, h6]
  have hhn : hasN s' = hasN s := by funext n; unfold hasN; rw [h1, h2]
  obtain ⟨e1, e2, e3, e4, e5, _, _, e8, e9⟩ := hi.nodup
  refine ⟨?_, ?_, ?_, ?_⟩
  · rw [h7, h1]; exact hi.q
  · rw [h8, hpp]; exact hi.pfp
  · rw [h9, hpp, hhn]; exact hi.links
  · rw [h7, h8, h9, h1, h2, h5, h6]; exact ⟨e1, e2, e3, e4, e5, d1, d2, e8, e9⟩

theorem provRegister_idx {s s' : State} {frm : Addr} {n i w d : Bytes} (h : provRegister s frm n i w d = .ok s')
    (hi : NodeIdx s) : NodeIdx s' := by
  obtain ⟨_, s1, f1, rfl⟩ := provRegister_eff h
  have i1 : NodeIdx s1 := NodeIdx.of_nview (nview_of_mframe f1.wide) hi
  obtain ⟨_, _, _, _, _, d6, d7, _, _⟩ := i1.nodupQ
  exact i1.of_prov rfl rfl rfl rfl rfl rfl rfl d6 (Tbl.nodup_set d7 _ _)

theorem provUpdate_idx {s s' : State} {frm : Addr} {n i w d : Bytes} {st : Status} (h : provUpdate s frm n i w d st = .ok s')
    (hi : NodeIdx s) : NodeIdx s' := by
  unfold provUpdate at h
  simp only [bind_eq_ok, pure_eq_ok, orReject_eq_ok] at h
  obtain ⟨p, hp, s3, h3, rfl⟩ := h
  obtain ⟨_, _, _, _, _, d6, d7, _, _⟩ := hi.nodupQ
  rcases setProvider_eff h3 with ⟨_, e⟩ | ⟨_, e⟩ <;> subst e <;> split <;> split <;>
    exact hi.of_prov rfl rfl rfl rfl rfl rfl rfl
      (by repeat' (first | assumption | apply Tbl.nodup_set | apply Tbl.nodup_erase))
      (by repeat' (first | assumption | apply Tbl.nodup_set | apply Tbl.nodup_erase))

/-! ### nodes -/

theorem nodeRegister_idx {s s' : State} {frm : Addr} {gb hr : Coins} {url : Bytes} (h : nodeRegister s frm gb hr url = .ok s')
    (hi : NodeIdx s) : NodeIdx s' := by
  obtain ⟨hno, _, _, s1, f1, rfl⟩ := nodeRegister_eff h
  have e1 := nview_of_mframe f1.wide
  have i1 : NodeIdx s1 := NodeIdx.of_nview e1 hi
  have hA : s1.nodeActive.get frm = none := by
    rw [show s1.nodeActive = s.nodeActive from congrArg NView.nodeActive e1]
    exact (Tbl.has_eq_false_iff _ _).mp (hasNode_false hno).1
  have hI := (nodeIdx_iff s1).mp i1
  obtain ⟨d1, d2, d3, d4, d5, d6, d7, d8, d9⟩ := hI.nodup
  rw [nodeIdx_iff]
  refine ⟨hI.q, hI.pfp, hI.links.mono (fun _ h => h) (isSome_mono_of_update (getAI_setI _ _ _ hA)), ?_⟩
  nodup_tac

/-- Writing back a looked-up node whose address, status and deadline are unchanged. -/
theorem setNode_same_idx {s s' : State} {a : Addr} {n n' : Node} (hr : RecInv s) (hi : NodeIdx s) (hg : getNode s a = some n)
    (h : setNode s n' = .ok s') (haddr : n'.addr = n.addr) (hst : n'.status = n.status) (hia : n'.inactiveAt = n.inactiveAt) :
    NodeIdx s' := by
  have hN := hr.nodePart
  have hI := (nodeIdx_iff s).mp hi
  obtain ⟨d1, d2, d3, d4, d5, d6, d7, d8, d9⟩ := hI.nodup
  rw [nodeIdx_iff]
  rcases getNode_mem hg with hm | hm
  · have hna := hN.a a n hm
    rcases setNode_eff h with ⟨hs, e⟩ | ⟨hs, e⟩ <;> subst e
    · refine ⟨hI.q.setA_same hm (haddr.trans hna.1) hia, hI.pfp,
        hI.links.mono (fun _ h => h) (isSome_mono_of_update (getAI_setA _ _ _ _)), ?_⟩
      nodup_tac
    · rw [hst, hna.2] at hs; exact absurd hs (by decide)
  · have hni := hN.i a n hm
    have hno := (Tbl.has_eq_false_iff _ _).mp (hN.notA_of_getI hm)
    rcases setNode_eff h with ⟨hs, e⟩ | ⟨hs, e⟩ <;> subst e
    · rw [hst, hni.2.1] at hs; exact absurd hs (by decide)
    · refine ⟨hI.q, hI.pfp,
        hI.links.mono (fun _ h => h) (isSome_mono_of_update (getAI_setI _ _ _ (by rw [haddr, hni.1]; exact hno))), ?_⟩
      nodup_tac

theorem nodeUpdate_idx {s s' : State} {frm : Addr} {gb hr : Option Coins} {url : Bytes} (h : nodeUpdate s frm gb hr url = .ok s')
    (hr' : RecInv s) (hi : NodeIdx s) : NodeIdx s' := by
  unfold nodeUpdate at h
  simp only [bind_eq_ok, pure_eq_ok, require_eq_ok, orReject_eq_ok] at h
  obtain ⟨_, _, _, _, n, hn, s1, h1, rfl⟩ := h
  obtain ⟨e1, e2, e3⟩ := nodeUpdated_same n gb hr url
  exact NodeIdx.of_nview (s := s1) rfl (setNode_same_idx hr' hi hn h1 e1 e2 e3)

theorem nodeStatus_idx {s s' : State} {frm : Addr} {st : Status} (h : nodeStatus s frm st = .ok s')
    (hr : RecInv s) (hi : NodeIdx s) : NodeIdx s' := by
  unfold nodeStatus at h
  simp only [bind_eq_ok, pure_eq_ok, orReject_eq_ok] at h
  obtain ⟨n, hn, s5, h5, rfl⟩ := h
  have hN := hr.nodePart
  have hI := (nodeIdx_iff s).mp hi
  obtain ⟨d1, d2, d3, d4, d5, d6, d7, d8, d9⟩ := hI.nodup
  rcases getNode_mem hn with hm | hm
  · have hna := hN.a frm n hm
    have hps : n.status = .StatusActive := hna.2
    cases st <;>
      simp only [hps, reduceCtorEq, and_self, and_true, and_false, if_true, if_false] at h5
    all_goals
      rcases setNode_eff h5 with ⟨hs5, e⟩ | ⟨hs5, e⟩ <;> subst e <;>
      first
        | (simp only [reduceCtorEq] at hs5; done)
        | (rw [nodeIdx_iff]
           refine ⟨?_, hI.pfp, ?_, ?_⟩
           · first
               | (apply QOK.reactivate hI.q hm <;> first | rfl | exact hna.1)
               | exact hI.q.deactivate hm
           · first
               | exact hI.links.mono (fun _ h => h) (isSome_mono_of_update (getAI_setA _ _ _ _))
               | exact hI.links.mono (fun _ h => h) (isSome_mono_of_update (getAI_toI _ _ _ hna.1))
           · nodup_tac)
  · have hni := hN.i frm n hm
    have hps : n.status = .StatusInactive := hni.2.1
    have hno : s.nodeActive.get frm = none := (Tbl.has_eq_false_iff _ _).mp (hN.notA_of_getI hm)
    have hno' : s.nodeActive.get n.addr = none := by rw [hni.1]; exact hno
    cases st <;>
      simp only [hps, reduceCtorEq, and_self, and_true, and_false, if_true, if_false] at h5
    all_goals
      rcases setNode_eff h5 with ⟨hs5, e⟩ | ⟨hs5, e⟩ <;> subst e <;>
      first
        | (simp only [reduceCtorEq] at hs5; done)
        | (rw [nodeIdx_iff]
           refine ⟨?_, hI.pfp, ?_, ?_⟩
           · first
               | exact hI.q
               | (apply QOK.activate hI.q hno <;> first | rfl | exact hni.1)
           · first
               | exact hI.links.mono (fun _ h => h) (isSome_mono_of_update (getAI_setI _ _ _ hno'))
               | exact hI.links.mono (fun _ h => h) (isSome_mono_of_update (getAI_toA _ _ _ hni.1))
           · nodup_tac)

theorem nodeSweep_idx {s s' : State} (h : nodeSweep s = .ok s') (hr : RecInv s) (hi : NodeIdx s) : NodeIdx s' := by
  unfold nodeSweep at h
  split at h
  · rw [pure_eq_ok] at h; rw [← h]; exact hi
  · refine (foldlM_inv (fun t => RecInv t ∧ NodeIdx t) _ ?_ _ s s' h ⟨hr, hi⟩).2
    intro s0 a s1 h1 hp
    simp only [bind_eq_ok, pure_eq_ok, orPanic_eq_ok] at h1
    obtain ⟨item, hitem, s2, h2, rfl⟩ := h1
    exact ⟨RecInv.of_nview (s := s2) rfl (setNode_same_rec hp.1 hitem h2 rfl rfl rfl),
           NodeIdx.of_nview (s := s2) rfl (setNode_same_idx hp.1 hp.2 hitem h2 rfl rfl rfl)⟩

theorem nodeExpireStep_idx {s s' : State} {k : Time × Addr} (h : nodeExpireStep s k = .ok s') (hr : RecInv s)
    (hi : NodeIdx s) : NodeIdx s' := by
  unfold nodeExpireStep at h
  simp only [bind_eq_ok, pure_eq_ok, orPanic_eq_ok] at h
  obtain ⟨item, hitem, s3, h3, rfl⟩ := h
  have hN := hr.nodePart
  have hI := (nodeIdx_iff s).mp hi
  obtain ⟨d1, d2, d3, d4, d5, d6, d7, d8, d9⟩ := hI.nodup
  rcases setNode_eff h3 with ⟨hs3, e⟩ | ⟨hs3, e⟩ <;> subst e
  · simp only [reduceCtorEq] at hs3
  · rw [nodeIdx_iff]
    refine ⟨?_, hI.pfp, hI.links.mono (fun _ h => h) (isSome_mono_of_update (getAI_toI _ _ _ rfl)), ?_⟩
    · rcases getNode_mem hitem with hm | hm
      · have hk : item.addr = k.2 := (hN.a _ _ hm).1
        exact hI.q.deactivate (by rw [hk]; exact hm)
      · have hk : item.addr = k.2 := (hN.i _ _ hm).1
        have hno : s.nodeActive.get item.addr = none := by
          rw [hk]; exact (Tbl.has_eq_false_iff _ _).mp (hN.notA_of_getI hm)
        exact hI.q.erase_none hno _
    · nodup_tac

/-! ### plans -/

theorem planCreate_idx {s s' : State} {frm : Addr} {dur : Dur} {gb : Int} {prices : Coins}
    (h : planCreate s frm dur gb prices = .ok s') (hc : CountInv s) (hi : NodeIdx s) : NodeIdx s' := by
  obtain ⟨_, rfl⟩ := planCreate_eff h
  have hI := (nodeIdx_iff s).mp hi
  obtain ⟨d1, d2, d3, d4, d5, d6, d7, d8, d9⟩ := hI.nodup
  have hA : s.planActive.get (s.planCount.getD 0 + 1) = none := by
    cases hg : s.planActive.get (s.planCount.getD 0 + 1) with
    | none => rfl
    | some p => have := hc.plans _ p (Or.inl hg); omega
  have hIn : s.planInactive.get (s.planCount.getD 0 + 1) = none := by
    cases hg : s.planInactive.get (s.planCount.getD 0 + 1) with
    | none => rfl
    | some p => have := hc.plans _ p (Or.inr hg); omega
  have hnone : planProv s (s.planCount.getD 0 + 1) = none := by
    unfold planProv getAI; rw [hA, hIn]; rfl
  have key : ∀ s'' : State, s''.nodeQ = s.nodeQ → s''.nodeActive = s.nodeActive → s''.nodeInactive = s.nodeInactive →
      s''.planForProv = s.planForProv.set (frm, s.planCount.getD 0 + 1) () → s''.nodeForPlan = s.nodeForPlan →
      s''.planActive = s.planActive → s''.provActive = s.provActive → s''.provInactive = s.provInactive →
      ∀ pl : Plan, pl.prov = frm → s''.planInactive = s.planInactive.set (s.planCount.getD 0 + 1) pl → NodeIdx s'' := by
    intro s'' e1 e2 e3 e4 e5 e6 e7 e8 pl hpl e9
    have hupd : ∀ i, planProv s'' i = if s.planCount.getD 0 + 1 = i then some frm else planProv s i := by
      intro i
      unfold planProv
      rw [e6, e9, getAI_setI _ _ _ hA]
      by_cases e : s.planCount.getD 0 + 1 = i
      · simp only [e, if_true, Option.map_some, hpl]
      · simp only [e, if_false]
    have hhn : hasN s'' = hasN s := by funext n; unfold hasN; rw [e2, e3]
    rw [nodeIdx_iff]
    refine ⟨?_, ?_, ?_, ?_⟩
    · rw [e1, e2]; exact hI.q
    · rw [e4]; exact hI.pfp.add hnone hupd
    · rw [e5, hhn]
      refine hI.links.mono ?_ (fun _ h => h)
      intro i hs
      rw [hupd i]
      by_cases e : s.planCount.getD 0 + 1 = i
      · simp [e]
      · simp only [e, if_false]; exact hs
    · rw [e1, e4, e5, e2, e3, e6, e7, e8, e9]
      exact ⟨d1, Tbl.nodup_set d2 _ _, d3, d4, d5, d6, d7, d8, Tbl.nodup_set d9 _ _⟩
  exact key _ rfl rfl rfl rfl rfl rfl rfl rfl _ rfl rfl

theorem planStatus_idx {s s' : State} {frm : Addr} {id : Nat} {st : Status}
    (h : planStatus s frm id st = .ok s') (hr : RecInv s) (hi : NodeIdx s) : NodeIdx s' := by
  unfold planStatus at h
  simp only [bind_eq_ok, pure_eq_ok, require_eq_ok, orReject_eq_ok] at h
  obtain ⟨p, hp, _, _, s3, h3, rfl⟩ := h
  have hL := hr.planPart
  have hI := (nodeIdx_iff s).mp hi
  obtain ⟨d1, d2, d3, d4, d5, d6, d7, d8, d9⟩ := hI.nodup
  have hgp : getAI s.planActive s.planInactive id = some p := by rw [← getPlan_eq]; exact hp
  -- whatever the move, lookups change only at `id`, where the provider stays the same
  have key : ∀ s'' : State, s''.nodeQ = s.nodeQ → s''.nodeActive = s.nodeActive → s''.nodeInactive = s.nodeInactive →
      s''.planForProv = s.planForProv → s''.nodeForPlan = s.nodeForPlan →
      (∀ j, getAI s''.planActive s''.planInactive j =
        if id = j then some { p with status := st, statusAt := s.time } else getAI s.planActive s.planInactive j) →
      Tbl.Nodup s''.provActive → Tbl.Nodup s''.provInactive → Tbl.Nodup s''.planActive → Tbl.Nodup s''.planInactive →
      NodeIdx s'' := by
    intro s'' e1 e2 e3 e4 e5 hu n6 n7 n8 n9
    have hpp : ∀ j, planProv s'' j = planProv s j := map_eq_of_update hu hgp rfl
    have hhn : hasN s'' = hasN s := by funext n; unfold hasN; rw [e2, e3]
    rw [nodeIdx_iff]
    refine ⟨?_, ?_, ?_, ?_⟩
    · rw [e1, e2]; exact hI.q
    · rw [e4]; exact hI.pfp.congr hpp
    · rw [e5, hhn]; exact hI.links.mono (fun i hs => by rw [hpp i]; exact hs) (fun _ h => h)
    · rw [e1, e4, e5, e2, e3]; exact ⟨d1, d2, d3, d4, d5, n6, n7, n8, n9⟩
  rcases getPlan_mem hp with hm | hm
  · have hpa := hL.a id p hm
    have hps : p.status = .StatusActive := hpa.2
    cases st <;>
      simp only [hps, reduceCtorEq, and_self, and_true, and_false, if_true, if_false] at h3
    all_goals
      rcases setPlan_eff h3 with ⟨hs3, e⟩ | ⟨hs3, e⟩ <;> subst e <;>
      first
        | (simp only [reduceCtorEq] at hs3; done)
        | (refine NodeIdx.of_nview (s := _) (nview_emit _ _) (key _ rfl rfl rfl rfl rfl ?_ ?_ ?_ ?_ ?_)
           · first
               | (intro j; rw [← hpa.1]; exact getAI_setA _ _ _ _ j)
               | exact getAI_toI _ _ _ hpa.1
           all_goals (repeat' (first | assumption | apply Tbl.nodup_set | apply Tbl.nodup_erase)))
  · have hpi := hL.i id p hm
    have hps : p.status = .StatusInactive := hpi.2
    have hno : s.planActive.get id = none := (Tbl.has_eq_false_iff _ _).mp (hL.notA_of_getI hm)
    cases st <;>
      simp only [hps, reduceCtorEq, and_self, and_true, and_false, if_true, if_false] at h3
    all_goals
      rcases setPlan_eff h3 with ⟨hs3, e⟩ | ⟨hs3, e⟩ <;> subst e <;>
      first
        | (simp only [reduceCtorEq] at hs3; done)
        | (refine NodeIdx.of_nview (s := _) (nview_emit _ _) (key _ rfl rfl rfl rfl rfl ?_ ?_ ?_ ?_ ?_)
           · first
               | (intro j; rw [← hpi.1]; exact getAI_setI _ _ _ (by rw [hpi.1]; exact hno) j)
               | exact getAI_toA _ _ _ hpi.1
           all_goals (repeat' (first | assumption | apply Tbl.nodup_set | apply Tbl.nodup_erase)))

theorem planLink_idx {s s' : State} {frm : Addr} {id : Nat} {node : Addr}
    (h : planLink s frm id node = .ok s') (hi : NodeIdx s) : NodeIdx s' := by
  unfold planLink at h
  simp only [bind_eq_ok, pure_eq_ok, require_eq_ok, orReject_eq_ok] at h
  obtain ⟨p, hp, _, _, _, hn, rfl⟩ := h
  have hI := (nodeIdx_iff s).mp hi
  obtain ⟨d1, d2, d3, d4, d5, d6, d7, d8, d9⟩ := hI.nodup
  rw [nodeIdx_iff]
  refine ⟨hI.q, hI.pfp, hI.links.set ?_ ?_, ?_⟩
  · rw [planProv_isSome, hp]; rfl
  · rw [← hasNode_eq]; exact hn
  · nodup_tac

theorem planUnlink_idx {s s' : State} {frm : Addr} {id : Nat} {node : Addr}
    (h : planUnlink s frm id node = .ok s') (hi : NodeIdx s) : NodeIdx s' := by
  unfold planUnlink at h
  simp only [bind_eq_ok, pure_eq_ok, require_eq_ok, orReject_eq_ok] at h
  obtain ⟨p, _, _, _, rfl⟩ := h
  have hI := (nodeIdx_iff s).mp hi
  obtain ⟨d1, d2, d3, d4, d5, d6, d7, d8, d9⟩ := hI.nodup
  rw [nodeIdx_iff]
  refine ⟨hI.q, hI.pfp, hI.links.erase _, ?_⟩
  nodup_tac

/-! ### the remaining steps: nothing `NodeIdx` reads is touched -/

theorem nodeSubscribe_idx {s s' : State} {frm node : Addr} {gb hr : Int} {denom : Denom}
    (h : nodeSubscribe s frm node gb hr denom = .ok s') (hi : NodeIdx s) : NodeIdx s' := NodeIdx.of_nview (nodeSubscribe_nview h) hi
theorem planSubscribe_idx {s s' : State} {frm : Addr} {id : Nat} {denom : Denom}
    (h : planSubscribe s frm id denom = .ok s') (hi : NodeIdx s) : NodeIdx s' := NodeIdx.of_nview (planSubscribe_nview h) hi
theorem subCancel_idx {s s' : State} {frm : Addr} {id : Nat} (h : subCancel s frm id = .ok s') (hi : NodeIdx s) : NodeIdx s' :=
  NodeIdx.of_nview (subCancel_nview h) hi
theorem subAllocate_idx {s s' : State} {frm toA : Addr} {id : Nat} {bytes : Int}
    (h : subAllocate s frm id toA bytes = .ok s') (hi : NodeIdx s) : NodeIdx s' := NodeIdx.of_nview (subAllocate_nview h) hi
theorem sessStart_idx {s s' : State} {frm : TextAddr} {id : Nat} {node : Addr}
    (h : sessStart s frm id node = .ok s') (hi : NodeIdx s) : NodeIdx s' := NodeIdx.of_nview (sessStart_nview h) hi
theorem sessUpdate_idx {s s' : State} {frm : Addr} {id : Nat} {up down dur : Int} {sig : SigSpec}
    (h : sessUpdate s frm id up down dur sig = .ok s') (hi : NodeIdx s) : NodeIdx s' := NodeIdx.of_nview (sessUpdate_nview h) hi
theorem sessEnd_idx {s s' : State} {frm : Addr} {id : Nat} (h : sessEnd s frm id = .ok s') (hi : NodeIdx s) : NodeIdx s' :=
  NodeIdx.of_nview (sessEnd_nview h) hi
theorem swap_idx {s s' : State} {frm recv : Addr} {hash : Bytes} {amt : Int}
    (h : swap s frm hash recv amt = .ok s') (hi : NodeIdx s) : NodeIdx s' := NodeIdx.of_nview (swap_nview h) hi
theorem mintBeginBlock_idx (s : State) (hi : NodeIdx s) : NodeIdx (mintBeginBlock s) :=
  NodeIdx.of_nview (nview_mintBeginBlock_go _ s) hi
theorem distrSweep_idx (s : State) (hi : NodeIdx s) : NodeIdx (distrSweep s) :=
  NodeIdx.of_nview (nview_of_mframe (distrSweep_mframe s)) hi
theorem payoutStep_idx {s s' : State} {k : Time × Nat} (h : payoutStep s k = .ok s') (hi : NodeIdx s) : NodeIdx s' :=
  NodeIdx.of_nview (payoutStep_nview h) hi
theorem sessionStep_idx {s s' : State} {k : Time × Nat} (h : sessionStep s k = .ok s') (hi : NodeIdx s) : NodeIdx s' :=
  NodeIdx.of_nview (sessionStep_nview h) hi
theorem subscriptionStep_idx {s s' : State} {d : Dur} {k : Time × Nat} (h : subscriptionStep d s k = .ok s')
    (hi : NodeIdx s) : NodeIdx s' := NodeIdx.of_nview (subscriptionStep_nview h) hi

/-! ### whole operations -/

theorem handle_idx {s s' : State} {m : Msg} (h : m.handle s = .ok s') (hr : RecInv s) (hc : CountInv s) (hi : NodeIdx s) :
    NodeIdx s' := by
  cases m <;> simp only [Msg.handle] at h
  case provRegister => exact provRegister_idx h hi
  case provUpdate => exact provUpdate_idx h hi
  case nodeRegister => exact nodeRegister_idx h hi
  case nodeUpdate => exact nodeUpdate_idx h hr hi
  case nodeStatus => exact nodeStatus_idx h hr hi
  case nodeSubscribe => exact nodeSubscribe_idx h hi
  case planCreate => exact planCreate_idx h hc hi
  case planStatus => exact planStatus_idx h hr hi
  case planLink => exact planLink_idx h hi
  case planUnlink => exact planUnlink_idx h hi
  case planSubscribe => exact planSubscribe_idx h hi
  case subCancel => exact subCancel_idx h hi
  case subAllocate => exact subAllocate_idx h hi
  case sessStart => exact sessStart_idx h hi
  case sessUpdate => exact sessUpdate_idx h hi
  case sessEnd => exact sessEnd_idx h hi
  case swap => exact swap_idx h hi

theorem deliver_idx (s : State) (m : Msg) (hr : RecInv s) (hc : CountInv s) (hi : NodeIdx s) : NodeIdx (deliver s m).1 := by
  have h0 : NodeIdx { s with events := [] } := NodeIdx.of_nview (s := s) rfl hi
  have r0 : RecInv { s with events := [] } := RecInv.of_nview (s := s) rfl hr
  have c0 : CountInv { s with events := [] } := CountInv.of_view (s := s) rfl hc
  unfold deliver
  simp only []
  cases hr' : (do m.validateBasic; m.handle { s with events := [] } : M State) with
  | ok s' =>
    simp only [bind_eq_ok] at hr'
    obtain ⟨_, _, hh⟩ := hr'
    exact handle_idx hh r0 c0 h0
  | error e => cases e <;> exact h0

theorem beginBlock_idx {s s' : State} {t : Time} (h : beginBlock s t = .ok s') (hi : NodeIdx s) : NodeIdx s' := by
  unfold beginBlock haltOf at h
  split at h <;> try contradiction
  rename_i s'' hs
  simp only [Except.ok.injEq] at h
  subst h
  unfold subscriptionBeginBlock at hs
  refine foldlM_inv NodeIdx _ ?_ _ _ _ hs ?_
  · intro s0 k s1 h1 hp
    rw [panicIfErr_eq_ok] at h1
    exact payoutStep_idx h1 hp
  · exact distrSweep_idx _ (mintBeginBlock_idx _ (NodeIdx.of_nview (s := s) rfl hi))

theorem endBlock_idx {s s' : State} (h : endBlock s = .ok s') (hr : RecInv s) (hi : NodeIdx s) : NodeIdx s' := by
  unfold endBlock haltOf at h
  split at h <;> try contradiction
  rename_i s2 hs
  split at hs <;> try contradiction
  rename_i s3 hs3
  simp only [Except.ok.injEq] at hs h
  subst hs; subst h
  unfold vpnEndBlock nodeEndBlock nodeExpire sessionEndBlock subscriptionEndBlock at hs3
  simp only [bind_eq_ok] at hs3
  obtain ⟨s1, ⟨sa, ha, hb⟩, sb, hc, hd⟩ := hs3
  have r00 : RecInv { s with events := [] } := RecInv.of_nview (s := s) rfl hr
  have i00 : NodeIdx { s with events := [] } := NodeIdx.of_nview (s := s) rfl hi
  have r0 : RecInv sa := nodeSweep_rec ha r00
  have i0 : NodeIdx sa := nodeSweep_idx ha r00 i00
  have i1 : NodeIdx s1 := (foldlM_inv (fun t => RecInv t ∧ NodeIdx t) _
    (fun s0 k s1 h1 hp => ⟨nodeExpireStep_rec h1 hp.1, nodeExpireStep_idx h1 hp.1 hp.2⟩) _ _ _ hb ⟨r0, i0⟩).2
  have i2 : NodeIdx sb := foldlM_inv NodeIdx _ (fun s0 k s1 h1 hp => sessionStep_idx h1 hp) _ _ _ hc i1
  have i3 : NodeIdx s3 := foldlM_inv NodeIdx _ (fun s0 k s1 h1 hp => subscriptionStep_idx h1 hp) _ _ _ hd i2
  exact NodeIdx.of_nview (s := s3) rfl i3

theorem gov_idx (s : State) (c : ParamChange) (hi : NodeIdx s) : NodeIdx ((gov s c).getD s) := by
  cases hg : gov s c with
  | none => exact hi
  | some s' => exact NodeIdx.of_nview (gov_nview hg) hi

theorem step_idx {s s' : State} {op : Op} (h : step s op = some s') (hr : RecInv s) (hc : CountInv s) (hi : NodeIdx s) :
    NodeIdx s' := by
  cases op with
  | tx m =>
    simp only [step, Option.some.injEq] at h
    rw [← h]; exact deliver_idx s m hr hc hi
  | begin t =>
    simp only [step] at h
    split at h
    · rename_i s1 hb
      simp only [Option.some.injEq] at h; rw [← h]; exact beginBlock_idx hb hi
    · contradiction
  | endB =>
    simp only [step] at h
    split at h
    · rename_i s1 hb
      simp only [Option.some.injEq] at h; rw [← h]; exact endBlock_idx hb hr hi
    · contradiction
  | gov c =>
    simp only [step, Option.some.injEq] at h
    rw [← h]; exact gov_idx s c hi

theorem genesis_base_idx (g : Genesis) : NodeIdx g.base := by
  rw [nodeIdx_iff]
  refine ⟨?_, ?_, ?_, ?_⟩
  · intro t a
    show Tbl.has ([] : Tbl (Time × Addr) Unit) (t, a) = true ↔ ∃ n, Tbl.get ([] : Tbl Addr Node) a = some n ∧ n.inactiveAt = t
    simp
  · intro a i
    show Tbl.has ([] : Tbl (Addr × Nat) Unit) (a, i) = true ↔ (none : Option Addr) = some a
    simp
  · intro i n hk
    have : Tbl.has ([] : Tbl (Nat × Addr) Unit) (i, n) = true := hk
    simp at this
  · exact ⟨Tbl.nodup_nil, Tbl.nodup_nil, Tbl.nodup_nil, Tbl.nodup_nil, Tbl.nodup_nil, Tbl.nodup_nil, Tbl.nodup_nil,
      Tbl.nodup_nil, Tbl.nodup_nil⟩

theorem genesis_idx (g : Genesis) : NodeIdx g.state :=
  NodeIdx.of_nview (nview_of_mframe (genesis_mframe g)) (genesis_base_idx g)

/-- `NodeIdx` (together with `RecInv` and `CountInv`) holds after every operation of every history from
a state that satisfies the three. -/
theorem idx_all_histories (ops : List Op) (s : State) (hr : RecInv s) (hc : CountInv s) (hi : NodeIdx s) :
    ∀ s' ∈ runTrace s ops, NodeIdx s' := by
  induction ops generalizing s with
  | nil => intro s' h; simp [runTrace] at h
  | cons op rest ih =>
    intro s' h
    simp only [runTrace] at h
    cases hst : step s op with
    | none => simp [hst] at h
    | some s1 =>
      simp only [hst, List.mem_cons] at h
      have i1 := step_idx hst hr hc hi
      rcases h with h | h
      · rw [h]; exact i1
      · exact ih s1 (step_rec hst hr hc) (step_count hst hc) i1 s' h

theorem idx_genesis_histories (g : Genesis) (ops : List Op) : ∀ s ∈ runTrace g.state ops, NodeIdx s :=
  idx_all_histories ops g.state (genesis_rec g) (genesis_count g) (genesis_idx g)

end Hub.Model
