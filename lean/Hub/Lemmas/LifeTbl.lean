import Hub.Lemmas.SessIdxSteps
/-
Helpers for the lifecycle development (`LifeSteps.lean`, `Props/C04.lean`): folds over a snapshot
with an invariant indexed by the remaining work, and membership in the due-queue snapshots.
-/
namespace Hub.Model
open Hub.SDK

/-- `omega` after unfolding the `Time`/`Dur` abbreviations (which `omega` does not see through). -/
macro "tomega" : tactic => `(tactic| ((try simp only [Hub.SDK.Time, Hub.SDK.Dur] at *); omega))

/-- A fold over a snapshot `l` with an invariant `P rest s` that also talks about the part of the
snapshot that is still to be processed.  At the end the remaining list is empty. -/
theorem foldlM_rest {α : Type} (P : List α → State → Prop) (f : State → α → M State)
    (hf : ∀ s a rest s', f s a = .ok s' → P (a :: rest) s → P rest s')
    (l : List α) (s s' : State) (h : l.foldlM f s = .ok s') (hp : P l s) : P [] s' := by
  induction l generalizing s with
  | nil => simp only [List.foldlM, pure_eq_ok] at h; rw [← h]; exact hp
  | cons a rest ih =>
    simp only [List.foldlM, bind_eq_ok] at h
    obtain ⟨s1, h1, h2⟩ := h
    exact ih s1 h2 (hf s a rest s1 h1 hp)

/-- The same, for a fold whose step is wrapped (e.g. in `panicIfErr`). -/
theorem foldlM_rest' {α : Type} (P : List α → State → Prop) (f g : State → α → M State)
    (hg : ∀ s a s', g s a = .ok s' → f s a = .ok s')
    (hf : ∀ s a rest s', f s a = .ok s' → P (a :: rest) s → P rest s')
    (l : List α) (s s' : State) (h : l.foldlM g s = .ok s') (hp : P l s) : P [] s' :=
  foldlM_rest P g (fun s a rest s' h1 hp => hf s a rest s' (hg s a s' h1) hp) l s s' h hp

theorem sortKeys_mem_iff {κ : Type} (enc : κ → Bytes) (ks : List κ) (k : κ) : k ∈ sortKeys enc ks ↔ k ∈ ks := by
  unfold sortKeys; exact List.mem_mergeSort

theorem sortKeys_nodup {κ : Type} (enc : κ → Bytes) {ks : List κ} (h : ks.Nodup) : (sortKeys enc ks).Nodup := by
  unfold sortKeys; exact (List.mergeSort_perm _ _).nodup_iff.mpr h

/-- The due snapshot of a `time|id` queue: exactly the queue entries with time `≤ t`. -/
theorem dueIds_mem_iff {enc : Time → Nat → Bytes} {q : Tbl (Time × Nat) Unit} {t : Time} {k : Time × Nat} :
    k ∈ dueIds enc q t ↔ q.has k = true ∧ k.1 ≤ t := by
  unfold dueIds
  rw [sortKeys_mem_iff, List.mem_filter, Tbl.mem_keys_iff_has]
  simp

theorem dueIds_nodup' (enc : Time → Nat → Bytes) {q : Tbl (Time × Nat) Unit} (t : Time) (h : Tbl.Nodup q) :
    (dueIds enc q t).Nodup := by
  unfold dueIds
  exact sortKeys_nodup _ (List.Nodup.filter _ (Tbl.nodup_keys h))

/-- The due snapshot of the node queue. -/
theorem dueNodes_mem_iff {s : State} {k : Time × Addr} :
    k ∈ dueNodes s ↔ s.nodeQ.has k = true ∧ k.1 ≤ s.time := by
  unfold dueNodes
  rw [sortKeys_mem_iff, List.mem_filter, Tbl.mem_keys_iff_has]
  simp

theorem dueNodes_nodup {s : State} (h : Tbl.Nodup s.nodeQ) : (dueNodes s).Nodup := by
  unfold dueNodes
  exact sortKeys_nodup _ (List.Nodup.filter _ (Tbl.nodup_keys h))

/-! ## The part of the state the lifecycle invariants read, and the primitive changes on it -/

/-- Sessions, subscriptions, the subscription deadline queue, the parameters and the block time. -/
structure LView where
  sessions : Tbl Nat Session
  subs : Tbl Nat Sub
  subQ : Tbl (Time × Nat) Unit
  params : Params
  time : Time

def lview (s : State) : LView := ⟨s.sessions, s.subs, s.subQ, s.params, s.time⟩

/-- The record after `active → inactive-pending` at time `t` with delay `d`. -/
def Session.pend (x : Session) (t : Time) (d : Dur) : Session :=
  { x with inactiveAt := t + d, status := .StatusInactivePending, statusAt := t }

def Sub.pend (y : Sub) (t : Time) (d : Dur) : Sub :=
  { y with inactiveAt := t + d, status := .StatusInactivePending, statusAt := t }

namespace LView

def setSess (v : LView) (i : Nat) (x : Session) : LView := { v with sessions := v.sessions.set i x }
def eraseSess (v : LView) (i : Nat) : LView := { v with sessions := v.sessions.erase i }
/-- `insertSub` / the writing half of `subToPending`: the record and its queue entry. -/
def addSub (v : LView) (y : Sub) : LView :=
  { v with subs := v.subs.set y.id y, subQ := v.subQ.set (y.inactiveAt, y.id) () }
def dequeueSub (v : LView) (y : Sub) : LView := { v with subQ := v.subQ.erase (y.inactiveAt, y.id) }
def eraseSub (v : LView) (i : Nat) : LView := { v with subs := v.subs.erase i }

/-- One step of the pending hook. -/
def hookStep (v : LView) (sid : Nat) : LView :=
  match v.sessions.get sid with
  | some x => if x.status = .StatusActive then v.setSess x.id (x.pend v.time v.params.sessDelay) else v
  | none => v

/-- `SubscriptionInactivePendingHook` on the view, for the listed session ids. -/
def hook (v : LView) (ids : List Nat) : LView := ids.foldl hookStep v

/-- One step of the session pass of `EndBlock`. -/
def sessStep (v : LView) (i : Nat) : LView :=
  match v.sessions.get i with
  | some x => if x.status = .StatusActive then v.setSess x.id (x.pend v.time v.params.sessDelay) else v.eraseSess x.id
  | none => v

/-- `active → inactive-pending` of a subscription: dequeue, hook, write the record and the new entry. -/
def pendSub (v : LView) (y : Sub) (ids : List Nat) (d : Dur) : LView :=
  ((v.dequeueSub y).hook ids).addSub (y.pend v.time d)

/-- Removal of a subscription. -/
def dropSub (v : LView) (y : Sub) : LView := (v.dequeueSub y).eraseSub y.id

end LView

/-! ### view-level invariants -/

def SessKeyedV (v : LView) : Prop := ∀ i x, v.sessions.get i = some x → x.id = i
def SubKeyedV (v : LView) : Prop := ∀ i y, v.subs.get i = some y → y.id = i

/-- The subscription deadline queue holds exactly one entry per subscription, at its deadline. -/
structure SubQV (v : LView) : Prop where
  nodup : Tbl.Nodup v.subQ
  q : ∀ t i, v.subQ.has (t, i) = true ↔ ∃ y, v.subs.get i = some y ∧ y.inactiveAt = t

/-- `LifeInv` on the view. -/
structure LifeV (M : Dur) (v : LView) : Prop where
  delays : 0 < v.params.sessDelay ∧ v.params.sessDelay ≤ M ∧ M ≤ v.params.subDelay
  sessSub : ∀ i x, v.sessions.get i = some x → ∃ y, v.subs.get x.sub = some y
  sessStatus : ∀ i x, v.sessions.get i = some x → x.status = .StatusActive ∨ x.status = .StatusInactivePending
  subStatus : ∀ i y, v.subs.get i = some y → y.status = .StatusActive ∨ y.status = .StatusInactivePending
  activeSess : ∀ i x y, v.sessions.get i = some x → v.subs.get x.sub = some y → x.status = .StatusActive → y.status = .StatusActive
  pendingSess : ∀ i x y, v.sessions.get i = some x → v.subs.get x.sub = some y → y.status = .StatusInactivePending →
                  x.inactiveAt ≤ y.inactiveAt
  sessBound : ∀ i x, v.sessions.get i = some x → x.inactiveAt ≤ v.time + M

/-- Every session ends strictly after the block time (the state between the session pass and the
end of the block). -/
def SessAfterV (v : LView) : Prop := ∀ i x, v.sessions.get i = some x → v.time < x.inactiveAt

/-- What `LifeV` says about one session record. -/
structure SessOKV (M : Dur) (v : LView) (x : Session) : Prop where
  sub : ∃ y, v.subs.get x.sub = some y
  status : x.status = .StatusActive ∨ x.status = .StatusInactivePending
  active : ∀ y, v.subs.get x.sub = some y → x.status = .StatusActive → y.status = .StatusActive
  pending : ∀ y, v.subs.get x.sub = some y → y.status = .StatusInactivePending → x.inactiveAt ≤ y.inactiveAt
  bound : x.inactiveAt ≤ v.time + M

theorem LifeV.sessOK {M : Dur} {v : LView} (h : LifeV M v) {i : Nat} {x : Session} (hx : v.sessions.get i = some x) :
    SessOKV M v x :=
  ⟨h.sessSub i x hx, h.sessStatus i x hx, fun y hy => h.activeSess i x y hx hy, fun y hy => h.pendingSess i x y hx hy,
    h.sessBound i x hx⟩

theorem LifeV.of_sessOK {M : Dur} {v : LView}
    (hd : 0 < v.params.sessDelay ∧ v.params.sessDelay ≤ M ∧ M ≤ v.params.subDelay)
    (hb : ∀ i y, v.subs.get i = some y → y.status = .StatusActive ∨ y.status = .StatusInactivePending)
    (hs : ∀ i x, v.sessions.get i = some x → SessOKV M v x) : LifeV M v :=
  ⟨hd, fun i x hx => (hs i x hx).sub, fun i x hx => (hs i x hx).status, hb,
    fun i x y hx hy => (hs i x hx).active y hy, fun i x y hx hy => (hs i x hx).pending y hy, fun i x hx => (hs i x hx).bound⟩

/-- `SessOKV` only reads the subscriptions and the time. -/
theorem SessOKV.congr {M : Dur} {v v' : LView} {x : Session} (hb : v'.subs = v.subs) (ht : v'.time = v.time)
    (h : SessOKV M v x) : SessOKV M v' x := by
  obtain ⟨h1, h2, h3, h4, h5⟩ := h
  refine ⟨?_, h2, ?_, ?_, ?_⟩
  · rw [hb]; exact h1
  · rw [hb]; exact h3
  · rw [hb]; exact h4
  · rw [ht]; exact h5

/-- An active session that goes pending now still satisfies the coupling. -/
theorem SessOKV.pend {M : Dur} {v : LView} {x : Session} (h : SessOKV M v x) (ha : x.status = .StatusActive)
    (hd : v.params.sessDelay ≤ M) : SessOKV M v (x.pend v.time v.params.sessDelay) := by
  refine ⟨h.sub, Or.inr rfl, ?_, ?_, ?_⟩
  · intro y _ hc; simp [Session.pend] at hc
  · intro y hy hp
    have := h.active y hy ha
    rw [this] at hp; simp at hp
  · have : (x.pend v.time v.params.sessDelay).inactiveAt = v.time + v.params.sessDelay := rfl
    rw [this]
    tomega

/-- Sessions change only by staying, by going pending now, or by disappearing. -/
theorem LifeV.of_sessions {M : Dur} {v v' : LView} (hi : LifeV M v) (hb : v'.subs = v.subs) (hp : v'.params = v.params)
    (ht : v'.time = v.time)
    (hs : ∀ i x', v'.sessions.get i = some x' → ∃ x, v.sessions.get i = some x ∧
      (x' = x ∨ (x.status = .StatusActive ∧ x' = x.pend v.time v.params.sessDelay))) : LifeV M v' := by
  refine LifeV.of_sessOK (by rw [hp]; exact hi.delays) (by rw [hb]; exact hi.subStatus) ?_
  intro i x' hx'
  obtain ⟨x, hx, h | ⟨ha, h⟩⟩ := hs i x' hx'
  · rw [h]; exact (hi.sessOK hx).congr hb ht
  · rw [h]; exact ((hi.sessOK hx).pend ha hi.delays.2.1).congr hb ht

theorem LifeV.setSess {M : Dur} {v : LView} (hi : LifeV M v) (i : Nat) {x : Session} (hx : SessOKV M v x) :
    LifeV M (v.setSess i x) := by
  refine LifeV.of_sessOK hi.delays hi.subStatus ?_
  intro j x' hx'
  simp only [LView.setSess, Tbl.get_set] at hx'
  split_ifs at hx' with hc
  · simp only [Option.some.injEq] at hx'; rw [← hx']; exact SessOKV.congr (v := v) rfl rfl hx
  · exact SessOKV.congr (v := v) rfl rfl (hi.sessOK hx')

/-! ### the pending hook in closed form -/

theorem LView.hook_nil (v : LView) : v.hook [] = v := rfl
theorem LView.hook_cons (v : LView) (a : Nat) (l : List Nat) : v.hook (a :: l) = (v.hookStep a).hook l := rfl

theorem LView.hookStep_frame (v : LView) (a : Nat) :
    (v.hookStep a).subs = v.subs ∧ (v.hookStep a).subQ = v.subQ ∧ (v.hookStep a).params = v.params ∧
    (v.hookStep a).time = v.time := by
  unfold LView.hookStep
  split
  · split <;> exact ⟨rfl, rfl, rfl, rfl⟩
  · exact ⟨rfl, rfl, rfl, rfl⟩

theorem LView.hookStep_get (v : LView) (hk : SessKeyedV v) (a i : Nat) :
    (v.hookStep a).sessions.get i =
      (v.sessions.get i).map (fun x => if i = a ∧ x.status = .StatusActive then x.pend v.time v.params.sessDelay else x) := by
  unfold LView.hookStep
  cases hg : v.sessions.get a with
  | none =>
    simp only []
    by_cases hc : i = a
    · subst hc; simp [hg]
    · cases v.sessions.get i <;> simp [hc]
  | some x =>
    simp only []
    have hid := hk a x hg
    by_cases hs : x.status = .StatusActive
    · simp only [hs, if_true, LView.setSess, Tbl.get_set, hid]
      by_cases hc : a = i
      · subst hc; simp [hg, hs]
      · have hc' : ¬ i = a := fun e => hc e.symm
        cases v.sessions.get i <;> simp [hc, hc']
    · simp only [hs, if_false]
      by_cases hc : i = a
      · subst hc; simp [hg, hs]
      · cases v.sessions.get i <;> simp [hc]

theorem LView.hookStep_keyed (v : LView) (hk : SessKeyedV v) (a : Nat) : SessKeyedV (v.hookStep a) := by
  intro i x hx
  rw [LView.hookStep_get v hk] at hx
  cases hg : v.sessions.get i with
  | none => simp [hg] at hx
  | some y =>
    simp only [hg, Option.map_some, Option.some.injEq] at hx
    have := hk i y hg
    split_ifs at hx <;> rw [← hx] <;> exact this

/-- The hook in closed form: exactly the listed active sessions go pending; nothing else changes. -/
theorem LView.hook_spec (ids : List Nat) (v : LView) (hk : SessKeyedV v) :
    (v.hook ids).subs = v.subs ∧ (v.hook ids).subQ = v.subQ ∧ (v.hook ids).params = v.params ∧
    (v.hook ids).time = v.time ∧ SessKeyedV (v.hook ids) ∧
    ∀ i, (v.hook ids).sessions.get i =
      (v.sessions.get i).map (fun x => if i ∈ ids ∧ x.status = .StatusActive then x.pend v.time v.params.sessDelay else x) := by
  induction ids generalizing v with
  | nil =>
    refine ⟨rfl, rfl, rfl, rfl, hk, ?_⟩
    intro i; rw [LView.hook_nil]; cases v.sessions.get i <;> simp
  | cons a rest ih =>
    rw [LView.hook_cons]
    obtain ⟨f1, f2, f3, f4⟩ := v.hookStep_frame a
    obtain ⟨h1, h2, h3, h4, h5, h6⟩ := ih (v.hookStep a) (v.hookStep_keyed hk a)
    refine ⟨h1.trans f1, h2.trans f2, h3.trans f3, h4.trans f4, h5, ?_⟩
    intro i
    rw [h6, LView.hookStep_get v hk, f3, f4]
    cases hg : v.sessions.get i with
    | none => simp
    | some x =>
      simp only [Option.map_some, Option.some.injEq, List.mem_cons]
      by_cases hc : i = a
      · by_cases hs : x.status = .StatusActive
        · simp [hc, hs, Session.pend]
        · simp [hc, hs]
      · simp [hc]

/-! ### the session pass in closed form -/

/-- What the session pass does to a due session: an active one goes pending, a pending one is removed. -/
def expireSess (t : Time) (d : Dur) (x : Session) : Option Session :=
  if x.status = .StatusActive then some (x.pend t d) else none

theorem LView.sessStep_frame (v : LView) (a : Nat) :
    (v.sessStep a).subs = v.subs ∧ (v.sessStep a).subQ = v.subQ ∧ (v.sessStep a).params = v.params ∧
    (v.sessStep a).time = v.time := by
  unfold LView.sessStep
  split
  · split <;> exact ⟨rfl, rfl, rfl, rfl⟩
  · exact ⟨rfl, rfl, rfl, rfl⟩

theorem LView.sessStep_get (v : LView) (hk : SessKeyedV v) (a i : Nat) :
    (v.sessStep a).sessions.get i =
      if i = a then (v.sessions.get i).bind (expireSess v.time v.params.sessDelay) else v.sessions.get i := by
  unfold LView.sessStep
  cases hg : v.sessions.get a with
  | none =>
    simp only []
    by_cases hc : i = a
    · subst hc; simp [hg]
    · simp [hc]
  | some x =>
    simp only []
    have hid := hk a x hg
    by_cases hs : x.status = .StatusActive
    · simp only [hs, if_true, LView.setSess, Tbl.get_set, hid]
      by_cases hc : a = i
      · subst hc; simp [hg, hs, expireSess]
      · have hc' : ¬ i = a := fun e => hc e.symm
        simp [hc, hc']
    · simp only [hs, if_false, LView.eraseSess, Tbl.get_erase, hid]
      by_cases hc : a = i
      · subst hc; simp [hg, hs, expireSess]
      · have hc' : ¬ i = a := fun e => hc e.symm
        simp [hc, hc']

theorem LView.sessStep_keyed (v : LView) (hk : SessKeyedV v) (a : Nat) : SessKeyedV (v.sessStep a) := by
  intro i x hx
  rw [LView.sessStep_get v hk] at hx
  split_ifs at hx with hc
  · cases hg : v.sessions.get i with
    | none => simp [hg] at hx
    | some y =>
      simp only [hg, Option.bind_some, expireSess] at hx
      split_ifs at hx
      simp only [Option.some.injEq] at hx
      rw [← hx]; exact hk i y hg
  · exact hk i x hx

/-- The session pass over a list of distinct session ids, in closed form. -/
theorem LView.sessPass_spec (ids : List Nat) (v : LView) (hk : SessKeyedV v) (hn : ids.Nodup) :
    (ids.foldl LView.sessStep v).subs = v.subs ∧ (ids.foldl LView.sessStep v).subQ = v.subQ ∧
    (ids.foldl LView.sessStep v).params = v.params ∧ (ids.foldl LView.sessStep v).time = v.time ∧
    SessKeyedV (ids.foldl LView.sessStep v) ∧
    ∀ i, (ids.foldl LView.sessStep v).sessions.get i =
      if i ∈ ids then (v.sessions.get i).bind (expireSess v.time v.params.sessDelay) else v.sessions.get i := by
  induction ids generalizing v with
  | nil => exact ⟨rfl, rfl, rfl, rfl, hk, fun i => by simp⟩
  | cons a rest ih =>
    rw [List.foldl_cons]
    obtain ⟨f1, f2, f3, f4⟩ := v.sessStep_frame a
    obtain ⟨hna, hnr⟩ := List.nodup_cons.mp hn
    obtain ⟨h1, h2, h3, h4, h5, h6⟩ := ih (v.sessStep a) (v.sessStep_keyed hk a) hnr
    refine ⟨h1.trans f1, h2.trans f2, h3.trans f3, h4.trans f4, h5, ?_⟩
    intro i
    rw [h6, LView.sessStep_get v hk, f3, f4]
    by_cases hc : i = a
    · subst hc; simp [hna]
    · simp [hc]

/-! ### subscriptions: adding, pending, removing -/

theorem LifeV.congr {M : Dur} {v v' : LView} (hs : v'.sessions = v.sessions) (hb : v'.subs = v.subs)
    (hp : v'.params = v.params) (ht : v'.time = v.time) (hi : LifeV M v) : LifeV M v' := by
  refine LifeV.of_sessions hi hb hp ht ?_
  intro i x' hx'; rw [hs] at hx'; exact ⟨x', hx', Or.inl rfl⟩

/-- Writing a subscription record that every session referring to its key is compatible with. -/
theorem LifeV.setSub {M : Dur} {v : LView} (hi : LifeV M v) (k : Nat) (y' : Sub) (q' : Tbl (Time × Nat) Unit)
    (hst : y'.status = .StatusActive ∨ y'.status = .StatusInactivePending)
    (hx : ∀ i x, v.sessions.get i = some x → x.sub = k →
      (x.status = .StatusActive → y'.status = .StatusActive) ∧
      (y'.status = .StatusInactivePending → x.inactiveAt ≤ y'.inactiveAt)) :
    LifeV M { v with subs := v.subs.set k y', subQ := q' } := by
  refine ⟨hi.delays, ?_, hi.sessStatus, ?_, ?_, ?_, hi.sessBound⟩
  · intro i x hx'
    simp only [Tbl.get_set]
    split_ifs
    · exact ⟨y', rfl⟩
    · exact hi.sessSub i x hx'
  · intro i y hy
    simp only [Tbl.get_set] at hy
    split_ifs at hy
    · simp only [Option.some.injEq] at hy; rw [← hy]; exact hst
    · exact hi.subStatus i y hy
  · intro i x y hx' hy ha
    simp only [Tbl.get_set] at hy
    split_ifs at hy with hc
    · simp only [Option.some.injEq] at hy; rw [← hy]; exact (hx i x hx' hc.symm).1 ha
    · exact hi.activeSess i x y hx' hy ha
  · intro i x y hx' hy hp
    simp only [Tbl.get_set] at hy
    split_ifs at hy with hc
    · simp only [Option.some.injEq] at hy; rw [← hy] at hp ⊢; exact (hx i x hx' hc.symm).2 hp
    · exact hi.pendingSess i x y hx' hy hp

theorem LifeV.addSub_fresh {M : Dur} {v : LView} (hi : LifeV M v) (y : Sub)
    (hst : y.status = .StatusActive ∨ y.status = .StatusInactivePending)
    (hf : ∀ i x, v.sessions.get i = some x → x.sub ≠ y.id) : LifeV M (v.addSub y) :=
  hi.setSub y.id y _ hst (fun i x hx hc => absurd hc (hf i x hx))

theorem LifeV.addSub_pend {M : Dur} {v : LView} (hi : LifeV M v) (y : Sub) (d : Dur) (hd : M ≤ d)
    (hno : ∀ i x, v.sessions.get i = some x → x.sub = y.id → x.status ≠ .StatusActive) :
    LifeV M (v.addSub (y.pend v.time d)) := by
  refine hi.setSub y.id (y.pend v.time d) _ (Or.inr rfl) ?_
  intro i x hx hc
  refine ⟨fun ha => absurd ha (hno i x hx hc), fun _ => ?_⟩
  have h1 := hi.sessBound i x hx
  have h2 : (y.pend v.time d).inactiveAt = v.time + d := rfl
  rw [h2]; tomega

theorem LifeV.eraseSub {M : Dur} {v : LView} (hi : LifeV M v) (j : Nat)
    (hf : ∀ i x, v.sessions.get i = some x → x.sub ≠ j) : LifeV M (v.eraseSub j) := by
  refine ⟨hi.delays, ?_, hi.sessStatus, ?_, ?_, ?_, hi.sessBound⟩
  · intro i x hx
    have hne := hf i x hx
    simp only [LView.eraseSub, Tbl.get_erase]
    rw [if_neg (fun e => hne e.symm)]
    exact hi.sessSub i x hx
  · intro i y hy
    simp only [LView.eraseSub, Tbl.get_erase] at hy
    split_ifs at hy
    exact hi.subStatus i y hy
  · intro i x y hx hy ha
    simp only [LView.eraseSub, Tbl.get_erase] at hy
    split_ifs at hy
    exact hi.activeSess i x y hx hy ha
  · intro i x y hx hy hp
    simp only [LView.eraseSub, Tbl.get_erase] at hy
    split_ifs at hy
    exact hi.pendingSess i x y hx hy hp

/-- The hook preserves the coupling (each step moves an active stored session to pending). -/
theorem LifeV.hook {M : Dur} {v : LView} (hi : LifeV M v) (hk : SessKeyedV v) (ids : List Nat) : LifeV M (v.hook ids) := by
  obtain ⟨h1, _, h3, h4, _, h6⟩ := LView.hook_spec ids v hk
  refine LifeV.of_sessions hi h1 h3 h4 ?_
  intro i x' hx'
  rw [h6] at hx'
  cases hg : v.sessions.get i with
  | none => simp [hg] at hx'
  | some x =>
    simp only [hg, Option.map_some, Option.some.injEq] at hx'
    refine ⟨x, rfl, ?_⟩
    split_ifs at hx' with hc
    · exact Or.inr ⟨hc.2, hx'.symm⟩
    · exact Or.inl hx'.symm

/-- After the hook over a list that covers the subscription, no session of it is active. -/
theorem LView.hook_noActive {v : LView} (hk : SessKeyedV v) {ids : List Nat} {j : Nat}
    (hids : ∀ i x, v.sessions.get i = some x → x.sub = j → i ∈ ids) :
    ∀ i x, (v.hook ids).sessions.get i = some x → x.sub = j → x.status ≠ .StatusActive := by
  obtain ⟨_, _, _, _, _, h6⟩ := LView.hook_spec ids v hk
  intro i x' hx' hj
  rw [h6] at hx'
  cases hg : v.sessions.get i with
  | none => simp [hg] at hx'
  | some x =>
    simp only [hg, Option.map_some, Option.some.injEq] at hx'
    split_ifs at hx' with hc
    · rw [← hx']; simp [Session.pend]
    · rw [← hx'] at hj ⊢
      intro ha
      exact hc ⟨hids i x hg hj, ha⟩

theorem LifeV.pendSub {M : Dur} {v : LView} (hi : LifeV M v) (hk : SessKeyedV v) (y : Sub) (ids : List Nat) (d : Dur)
    (hd : M ≤ d) (hids : ∀ i x, v.sessions.get i = some x → x.sub = y.id → i ∈ ids) : LifeV M (v.pendSub y ids d) := by
  unfold LView.pendSub
  have hk' : SessKeyedV (v.dequeueSub y) := hk
  have hi' : LifeV M (v.dequeueSub y) := LifeV.congr (v := v) rfl rfl rfl rfl hi
  have ht : ((v.dequeueSub y).hook ids).time = v.time := (LView.hook_spec ids _ hk').2.2.2.1
  rw [← ht]
  exact (hi'.hook hk' ids).addSub_pend y d hd (LView.hook_noActive hk' hids)

theorem LifeV.dropSub {M : Dur} {v : LView} (hi : LifeV M v) (y : Sub)
    (hf : ∀ i x, v.sessions.get i = some x → x.sub ≠ y.id) : LifeV M (v.dropSub y) :=
  (LifeV.congr (v := v) (v' := v.dequeueSub y) rfl rfl rfl rfl hi).eraseSub y.id hf

/-- Time only moves forward; the deadline bound is relative to the block time. -/
theorem LifeV.time_mono {M : Dur} {v : LView} (hi : LifeV M v) {t : Time} (ht : v.time ≤ t) : LifeV M { v with time := t } := by
  refine ⟨hi.delays, hi.sessSub, hi.sessStatus, hi.subStatus, hi.activeSess, hi.pendingSess, ?_⟩
  intro i x hx
  have := hi.sessBound i x hx
  show x.inactiveAt ≤ t + M
  tomega

/-- A parameter change that keeps the delays around `M`. -/
theorem LifeV.setParams {M : Dur} {v : LView} (hi : LifeV M v) {p : Params}
    (hp : 0 < p.sessDelay ∧ p.sessDelay ≤ M ∧ M ≤ p.subDelay) : LifeV M { v with params := p } :=
  ⟨hp, hi.sessSub, hi.sessStatus, hi.subStatus, hi.activeSess, hi.pendingSess, hi.sessBound⟩

/-! ### the subscription queue -/

theorem SubQV.addSub_fresh {v : LView} (h : SubQV v) (y : Sub) (hf : v.subs.get y.id = none) : SubQV (v.addSub y) := by
  refine ⟨Tbl.nodup_set h.nodup _ _, ?_⟩
  intro t i
  simp only [LView.addSub, Tbl.has_set, Tbl.get_set, h.q, Prod.mk.injEq]
  by_cases hc : y.id = i
  · subst hc; simp [hf]
  · simp [hc]

theorem SubQV.pendSub {v : LView} (h : SubQV v) (hk : SessKeyedV v) (y : Sub) (hy : v.subs.get y.id = some y)
    (ids : List Nat) (d : Dur) : SubQV (v.pendSub y ids d) := by
  obtain ⟨h1, h2, _, _, _, _⟩ := LView.hook_spec ids (v.dequeueSub y) hk
  refine ⟨?_, ?_⟩
  · show Tbl.Nodup (((v.dequeueSub y).hook ids).subQ.set _ ())
    rw [h2]; exact Tbl.nodup_set (Tbl.nodup_erase h.nodup _) _ _
  · intro t i
    show Tbl.has (((v.dequeueSub y).hook ids).subQ.set ((y.pend v.time d).inactiveAt, y.id) ()) (t, i) = true ↔
      ∃ y', Tbl.get (((v.dequeueSub y).hook ids).subs.set y.id (y.pend v.time d)) i = some y' ∧ y'.inactiveAt = t
    rw [h1, h2]
    simp only [LView.dequeueSub, Tbl.has_set, Tbl.has_erase, Tbl.get_set, h.q, Prod.mk.injEq, ne_eq]
    by_cases hc : y.id = i
    · subst hc
      simp only [hy, and_true, if_true, Option.some.injEq, exists_eq_left']
      constructor
      · rintro (e | ⟨e1, e2⟩)
        · exact e
        · exact absurd e2 e1
      · intro e; exact Or.inl e
    · simp [hc]

theorem SubQV.dropSub {v : LView} (h : SubQV v) (y : Sub) (hy : v.subs.get y.id = some y) : SubQV (v.dropSub y) := by
  refine ⟨Tbl.nodup_erase h.nodup _, ?_⟩
  intro t i
  simp only [LView.dropSub, LView.dequeueSub, LView.eraseSub, Tbl.has_erase, Tbl.get_erase, h.q, Prod.mk.injEq, ne_eq]
  by_cases hc : y.id = i
  · subst hc
    simp only [hy, and_true, Option.some.injEq, exists_eq_left', if_true, reduceCtorEq, false_and, exists_false, iff_false, not_and]
    intro e; exact e
  · simp [hc]

theorem SubQV.congr {v v' : LView} (hb : v'.subs = v.subs) (hq : v'.subQ = v.subQ) (h : SubQV v) : SubQV v' := by
  refine ⟨?_, ?_⟩
  · rw [hq]; exact h.nodup
  · rw [hb, hq]; exact h.q

theorem SubKeyedV.addSub {v : LView} (h : SubKeyedV v) (y : Sub) : SubKeyedV (v.addSub y) := by
  intro i y' hy'
  simp only [LView.addSub, Tbl.get_set] at hy'
  split_ifs at hy' with hc
  · simp only [Option.some.injEq] at hy'; rw [← hy']; exact hc
  · exact h i y' hy'

theorem SubKeyedV.eraseSub {v : LView} (h : SubKeyedV v) (j : Nat) : SubKeyedV (v.eraseSub j) := by
  intro i y' hy'
  simp only [LView.eraseSub, Tbl.get_erase] at hy'
  split_ifs at hy'
  exact h i y' hy'

theorem SubKeyedV.pendSub {v : LView} (h : SubKeyedV v) (hk : SessKeyedV v) (y : Sub) (ids : List Nat) (d : Dur) :
    SubKeyedV (v.pendSub y ids d) := by
  obtain ⟨h1, _, _, _, _, _⟩ := LView.hook_spec ids (v.dequeueSub y) hk
  have : SubKeyedV ((v.dequeueSub y).hook ids) := by
    intro i y' hy'; rw [h1] at hy'; exact h i y' hy'
  exact this.addSub (y.pend v.time d)

theorem SessKeyedV.pendSub {v : LView} (hk : SessKeyedV v) (y : Sub) (ids : List Nat) (d : Dur) :
    SessKeyedV (v.pendSub y ids d) :=
  (LView.hook_spec ids (v.dequeueSub y) hk).2.2.2.2.1

theorem SessAfterV.pendSub {v : LView} (h : SessAfterV v) (hk : SessKeyedV v) (hd : 0 < v.params.sessDelay)
    (y : Sub) (ids : List Nat) (d : Dur) : SessAfterV (v.pendSub y ids d) := by
  obtain ⟨_, _, h3, h4, _, h6⟩ := LView.hook_spec ids (v.dequeueSub y) hk
  intro i x' hx'
  have hx'' : ((v.dequeueSub y).hook ids).sessions.get i = some x' := hx'
  have ht : (v.pendSub y ids d).time = v.time := h4
  rw [ht]
  rw [h6] at hx''
  cases hg : (v.dequeueSub y).sessions.get i with
  | none => simp [hg] at hx''
  | some x =>
    simp only [hg, Option.map_some, Option.some.injEq] at hx''
    split_ifs at hx''
    · rw [← hx'']
      show v.time < v.time + v.params.sessDelay
      tomega
    · rw [← hx'']; exact h i x hg

/-! ### the subscription pass of `EndBlock` on the view -/

/-- One step of the subscription pass for the subscription id `j`.  Relational, because the id list
the hook iterates is read from an index table that is not part of the view; it is specified by its
members. -/
def SubStepR (d : Dur) (v : LView) (j : Nat) (v' : LView) : Prop :=
  ∃ item ids, v.subs.get j = some item ∧ (∀ i, i ∈ ids ↔ ∃ x, v.sessions.get i = some x ∧ x.sub = item.id) ∧
    ((item.status = .StatusActive ∧ v' = v.pendSub item ids d) ∨
     (item.status ≠ .StatusActive ∧ v' = v.dropSub item))

inductive SubPassR (d : Dur) : LView → List Nat → LView → Prop
  | nil (v : LView) : SubPassR d v [] v
  | cons {v v1 v' : LView} {a : Nat} {rest : List Nat} :
      SubStepR d v a v1 → SubPassR d v1 rest v' → SubPassR d v (a :: rest) v'

/-- The invariants that hold between the session pass and the end of the block. -/
structure MidInv (M : Dur) (v : LView) : Prop where
  life : LifeV M v
  after : SessAfterV v
  sk : SessKeyedV v
  bk : SubKeyedV v
  q : SubQV v

theorem LView.pendSub_frame (v : LView) (hk : SessKeyedV v) (y : Sub) (ids : List Nat) (d : Dur) :
    (v.pendSub y ids d).time = v.time ∧ (v.pendSub y ids d).params = v.params ∧
    ∀ i, i ≠ y.id → (v.pendSub y ids d).subs.get i = v.subs.get i := by
  obtain ⟨h1, _, h3, h4, _, _⟩ := LView.hook_spec ids (v.dequeueSub y) hk
  refine ⟨h4, h3, ?_⟩
  intro i hne
  show Tbl.get (((v.dequeueSub y).hook ids).subs.set y.id (y.pend v.time d)) i = _
  rw [h1, Tbl.get_set, if_neg (fun e => hne e.symm)]
  rfl

theorem SubStepR.mid {M d : Dur} {v v' : LView} {j : Nat} (h : SubStepR d v j v') (hi : MidInv M v) (hd : M ≤ d)
    (hdue : ∃ t, v.subQ.has (t, j) = true ∧ t ≤ v.time) :
    MidInv M v' ∧ v'.time = v.time ∧ v'.params = v.params ∧ (∀ i, i ≠ j → v'.subs.get i = v.subs.get i) := by
  obtain ⟨item, ids, hitem, hids, hcase⟩ := h
  have hid : item.id = j := hi.bk j item hitem
  have hitem' : v.subs.get item.id = some item := by rw [hid]; exact hitem
  rcases hcase with ⟨_, rfl⟩ | ⟨hst, rfl⟩
  · obtain ⟨f1, f2, f3⟩ := v.pendSub_frame hi.sk item ids d
    refine ⟨⟨?_, ?_, ?_, ?_, ?_⟩, f1, f2, fun i hne => f3 i (by rw [hid]; exact hne)⟩
    · exact hi.life.pendSub hi.sk item ids d hd (fun i x hx hs => (hids i).mpr ⟨x, hx, hs⟩)
    · exact hi.after.pendSub hi.sk hi.life.delays.1 item ids d
    · exact hi.sk.pendSub item ids d
    · exact hi.bk.pendSub hi.sk item ids d
    · exact hi.q.pendSub hi.sk item hitem' ids d
  · obtain ⟨t, hq, ht⟩ := hdue
    obtain ⟨y, hy, hyt⟩ := (hi.q.q t j).mp hq
    rw [hitem] at hy
    simp only [Option.some.injEq] at hy
    subst hy
    have hpend : item.status = .StatusInactivePending := by
      rcases hi.life.subStatus j item hitem with h | h
      · exact absurd h hst
      · exact h
    have hno : ∀ i x, v.sessions.get i = some x → x.sub ≠ item.id := by
      intro i x hx hs
      have hsub : v.subs.get x.sub = some item := by rw [hs]; exact hitem'
      have h1 := hi.life.pendingSess i x item hx hsub hpend
      have h2 := hi.after i x hx
      tomega
    refine ⟨⟨hi.life.dropSub item hno, hi.after, hi.sk, ?_, hi.q.dropSub item hitem'⟩, rfl, rfl, ?_⟩
    · exact SubKeyedV.eraseSub (v := v.dequeueSub item) hi.bk item.id
    · intro i hne
      show Tbl.get (v.subs.erase item.id) i = _
      rw [Tbl.get_erase, if_neg (by rw [hid]; exact fun e => hne e.symm)]

theorem SubPassR.mid {M d : Dur} {v v' : LView} {ids : List Nat} (h : SubPassR d v ids v') (hn : ids.Nodup) (hd : M ≤ d)
    (hdue : ∀ j ∈ ids, ∃ t, v.subQ.has (t, j) = true ∧ t ≤ v.time) (hi : MidInv M v) :
    MidInv M v' ∧ v'.time = v.time ∧ v'.params = v.params := by
  induction h with
  | nil v => exact ⟨hi, rfl, rfl⟩
  | @cons v v1 v' a rest hstep _ ih =>
    obtain ⟨hna, hnr⟩ := List.nodup_cons.mp hn
    obtain ⟨m1, t1, p1, s1⟩ := hstep.mid hi hd (hdue a List.mem_cons_self)
    have hdue1 : ∀ j ∈ rest, ∃ t, v1.subQ.has (t, j) = true ∧ t ≤ v1.time := by
      intro j hj
      obtain ⟨t, hq, ht⟩ := hdue j (List.mem_cons_of_mem _ hj)
      have hne : j ≠ a := fun e => hna (e ▸ hj)
      refine ⟨t, ?_, by rw [t1]; exact ht⟩
      rw [m1.q.q, s1 j hne, ← hi.q.q]; exact hq
    obtain ⟨m2, t2, p2⟩ := ih hnr hdue1 m1
    exact ⟨m2, t2.trans t1, p2.trans p1⟩

/-- After the session pass over (at least) all due sessions: the coupling still holds and every
remaining session ends strictly after the block time. -/
theorem LView.sessPass_mid {M : Dur} {v : LView} (ids : List Nat) (hk : SessKeyedV v) (hn : ids.Nodup) (hi : LifeV M v)
    (hall : ∀ i x, v.sessions.get i = some x → x.inactiveAt ≤ v.time → i ∈ ids) :
    LifeV M (ids.foldl LView.sessStep v) ∧ SessAfterV (ids.foldl LView.sessStep v) := by
  obtain ⟨h1, _, h3, h4, _, h6⟩ := LView.sessPass_spec ids v hk hn
  have key : ∀ i x', (ids.foldl LView.sessStep v).sessions.get i = some x' → ∃ x, v.sessions.get i = some x ∧
      ((i ∉ ids ∧ x' = x) ∨ (x.status = .StatusActive ∧ x' = x.pend v.time v.params.sessDelay)) := by
    intro i x' hx'
    rw [h6] at hx'
    split_ifs at hx' with hc
    · cases hg : v.sessions.get i with
      | none => simp [hg] at hx'
      | some x =>
        simp only [hg, Option.bind_some, expireSess] at hx'
        split_ifs at hx' with ha
        simp only [Option.some.injEq] at hx'
        exact ⟨x, rfl, Or.inr ⟨ha, hx'.symm⟩⟩
    · exact ⟨x', hx', Or.inl ⟨hc, rfl⟩⟩
  refine ⟨LifeV.of_sessions hi h1 h3 h4 ?_, ?_⟩
  · intro i x' hx'
    obtain ⟨x, hx, h | h⟩ := key i x' hx'
    · exact ⟨x, hx, Or.inl h.2⟩
    · exact ⟨x, hx, Or.inr h⟩
  · intro i x' hx'
    rw [h4]
    obtain ⟨x, hx, ⟨hni, rfl⟩ | ⟨_, rfl⟩⟩ := key i x' hx'
    · by_contra hc
      exact hni (hall i x' hx (by tomega))
    · have := hi.delays.1
      show v.time < v.time + v.params.sessDelay
      tomega

/-! ### small facts used by the state-level development -/

theorem LView.hook_frame (ids : List Nat) (v : LView) :
    (v.hook ids).subs = v.subs ∧ (v.hook ids).subQ = v.subQ ∧ (v.hook ids).params = v.params ∧ (v.hook ids).time = v.time := by
  induction ids generalizing v with
  | nil => exact ⟨rfl, rfl, rfl, rfl⟩
  | cons a rest ih =>
    rw [LView.hook_cons]
    obtain ⟨f1, f2, f3, f4⟩ := v.hookStep_frame a
    obtain ⟨h1, h2, h3, h4⟩ := ih (v.hookStep a)
    exact ⟨h1.trans f1, h2.trans f2, h3.trans f3, h4.trans f4⟩

/-- The queue and keyedness facts alone are preserved by a subscription step. -/
theorem SubStepR.subQ {d : Dur} {v v' : LView} {j : Nat} (h : SubStepR d v j v') (hk : SessKeyedV v) (hb : SubKeyedV v)
    (hq : SubQV v) : SubQV v' ∧ SessKeyedV v' ∧ SubKeyedV v' := by
  obtain ⟨item, ids, hitem, _, hcase⟩ := h
  have hid : item.id = j := hb j item hitem
  have hitem' : v.subs.get item.id = some item := by rw [hid]; exact hitem
  rcases hcase with ⟨_, rfl⟩ | ⟨_, rfl⟩
  · exact ⟨hq.pendSub hk item hitem' ids d, hk.pendSub item ids d, hb.pendSub hk item ids d⟩
  · exact ⟨hq.dropSub item hitem', hk, SubKeyedV.eraseSub (v := v.dequeueSub item) hb item.id⟩

theorem SubPassR.subQ {d : Dur} {v v' : LView} {ids : List Nat} (h : SubPassR d v ids v') (hk : SessKeyedV v)
    (hb : SubKeyedV v) (hq : SubQV v) : SubQV v' ∧ SessKeyedV v' ∧ SubKeyedV v' := by
  induction h with
  | nil v => exact ⟨hq, hk, hb⟩
  | cons hstep _ ih =>
    obtain ⟨q1, k1, b1⟩ := hstep.subQ hk hb hq
    exact ih k1 b1 q1

/-- Second components of a duplicate-free list of pairs are distinct when the second component
determines the first. -/
theorem nodup_map_snd {α β : Type} {l : List (α × β)} (hn : l.Nodup)
    (hf : ∀ k ∈ l, ∀ k' ∈ l, k.2 = k'.2 → k.1 = k'.1) : (l.map (·.2)).Nodup := by
  refine List.Nodup.map_on ?_ hn
  intro k hk k' hk' e
  exact Prod.ext (hf k hk k' hk' e) e

/-! ### the subscription pass in closed form -/

/-- What the subscription pass does to a due subscription. -/
def expireSub (t : Time) (d : Dur) (y : Sub) : Option Sub :=
  if y.status = .StatusActive then some (y.pend t d) else none

/-- Is there an active subscription under this id? -/
def LView.subActive (v : LView) (j : Nat) : Bool :=
  match v.subs.get j with
  | some y => decide (y.status = .StatusActive)
  | none => false

theorem LView.subActive_iff (v : LView) (j : Nat) :
    v.subActive j = true ↔ ∃ y, v.subs.get j = some y ∧ y.status = .StatusActive := by
  unfold LView.subActive
  cases v.subs.get j <;> simp

/-- One subscription step in closed form. -/
theorem SubStepR.spec {d : Dur} {v v1 : LView} {j : Nat} (h : SubStepR d v j v1) (hk : SessKeyedV v) (hb : SubKeyedV v) :
    v1.time = v.time ∧ v1.params = v.params ∧ SessKeyedV v1 ∧ SubKeyedV v1 ∧
    (∀ i, v1.subs.get i = if i = j then (v.subs.get i).bind (expireSub v.time d) else v.subs.get i) ∧
    (∀ i, v1.sessions.get i = (v.sessions.get i).map (fun x =>
      if x.status = .StatusActive ∧ x.sub = j ∧ v.subActive j = true then x.pend v.time v.params.sessDelay else x)) := by
  obtain ⟨item, ids, hitem, hids, hcase⟩ := h
  have hid : item.id = j := hb j item hitem
  rcases hcase with ⟨hst, rfl⟩ | ⟨hst, rfl⟩
  · obtain ⟨h1, _, h3, h4, h5, h6⟩ := LView.hook_spec ids (v.dequeueSub item) hk
    have hact : v.subActive j = true := (v.subActive_iff j).mpr ⟨item, hitem, hst⟩
    refine ⟨h4, h3, h5, hb.pendSub hk item ids d, ?_, ?_⟩
    · intro i
      show Tbl.get (((v.dequeueSub item).hook ids).subs.set item.id (item.pend v.time d)) i = _
      rw [h1, Tbl.get_set, hid]
      by_cases hc : i = j
      · subst hc; simp [hitem, expireSub, hst]
      · have hc' : ¬ j = i := fun e => hc e.symm
        simp only [hc, hc', if_false]; rfl
    · intro i
      show ((v.dequeueSub item).hook ids).sessions.get i = _
      rw [h6]
      show (v.sessions.get i).map _ = (v.sessions.get i).map _
      cases hg : v.sessions.get i with
      | none => rfl
      | some x =>
        simp only [Option.map_some, Option.some.injEq, hact, and_true]
        have hmem : i ∈ ids ↔ x.sub = j := by
          rw [hids, hid]
          constructor
          · rintro ⟨x', hx', hs'⟩
            have hxe : v.sessions.get i = some x' := hx'
            rw [hg] at hxe; simp only [Option.some.injEq] at hxe; rw [hxe]; exact hs'
          · intro hs'; exact ⟨x, hg, hs'⟩
        by_cases ha : x.status = .StatusActive <;> by_cases hs' : x.sub = j <;> simp [ha, hs', hmem] <;> rfl
  · have hact : ¬ v.subActive j = true := by
      rw [v.subActive_iff j]
      rintro ⟨y, hy, hya⟩
      rw [hitem] at hy; simp only [Option.some.injEq] at hy; rw [hy] at hst; exact hst hya
    refine ⟨rfl, rfl, hk, SubKeyedV.eraseSub (v := v.dequeueSub item) hb item.id, ?_, ?_⟩
    · intro i
      show Tbl.get (v.subs.erase item.id) i = _
      rw [Tbl.get_erase, hid]
      by_cases hc : i = j
      · subst hc; simp [hitem, expireSub, hst]
      · have hc' : ¬ j = i := fun e => hc e.symm
        simp only [hc, hc', if_false]
    · intro i
      show v.sessions.get i = _
      cases v.sessions.get i <;> simp [hact]

/-- The subscription pass over distinct ids in closed form: each listed subscription expires
(active → pending, pending → removed); exactly the active sessions of the listed active
subscriptions go pending. -/
theorem SubPassR.spec {d : Dur} {v v' : LView} {ids : List Nat} (h : SubPassR d v ids v') (hn : ids.Nodup)
    (hk : SessKeyedV v) (hb : SubKeyedV v) :
    v'.time = v.time ∧ v'.params = v.params ∧
    (∀ j, v'.subs.get j = if j ∈ ids then (v.subs.get j).bind (expireSub v.time d) else v.subs.get j) ∧
    (∀ i, v'.sessions.get i = (v.sessions.get i).map (fun x =>
      if x.status = .StatusActive ∧ x.sub ∈ ids ∧ v.subActive x.sub = true then x.pend v.time v.params.sessDelay else x)) := by
  induction h with
  | nil v => exact ⟨rfl, rfl, fun j => by simp, fun i => by cases v.sessions.get i <;> simp⟩
  | @cons v v1 v' a rest hstep _ ih =>
    obtain ⟨hna, hnr⟩ := List.nodup_cons.mp hn
    obtain ⟨t1, p1, k1, b1, s1, x1⟩ := hstep.spec hk hb
    obtain ⟨t2, p2, s2, x2⟩ := ih hnr k1 b1
    refine ⟨t2.trans t1, p2.trans p1, ?_, ?_⟩
    · intro j
      rw [s2, s1, t1]
      by_cases hc : j = a
      · subst hc; simp [hna]
      · simp [hc]
    · intro i
      rw [x2, x1, t1, p1]
      cases hg : v.sessions.get i with
      | none => rfl
      | some x =>
        simp only [Option.map_some, Option.some.injEq, List.mem_cons]
        have hact1 : ∀ u, u ≠ a → v1.subActive u = v.subActive u := by
          intro u hu
          unfold LView.subActive
          rw [s1 u, if_neg hu]
        by_cases hs : x.status = .StatusActive
        · by_cases ha : x.sub = a
          · by_cases hac : v.subActive a = true
            · simp [hs, ha, hac, Session.pend]
            · simp [hs, ha, hac, hna]
          · simp [hs, ha, hact1 x.sub ha]
        · simp [hs]

end Hub.Model
