import Hub.Lemmas.CalendarDefs
/- Chunk 6 of the complete day-of-era table: entries [6 * 9131, (6 + 1) * 9131), evaluated by the kernel. -/
namespace Hub.Lemmas.Calendar

theorem chunk6 : allFrom entryOK (6 * 9131) 9131 = true := by decide +kernel

end Hub.Lemmas.Calendar
