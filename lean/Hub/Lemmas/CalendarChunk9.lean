import Hub.Lemmas.CalendarDefs
/- Chunk 9 of the complete day-of-era table: entries [9 * 9131, (9 + 1) * 9131), evaluated by the kernel. -/
namespace Hub.Lemmas.Calendar

theorem chunk9 : allFrom entryOK (9 * 9131) 9131 = true := by decide +kernel

end Hub.Lemmas.Calendar
